(* Proofs/CstDoc.v -- C03, M4: parse_document on the rendering of a well-formed document of
   Spec/Cst.v: prolog (no BOM, no declaration, comments and PIs), root element, epilog. *)
From Coq Require Import Ascii String.
From Coq Require Import List NArith PeanoNat Bool Lia ZifyBool ZifyN ZifyNat.
Import ListNotations.
From RX Require Import Generated.
From RX.Model Require Import Base CharClass Stream Tokenizer Doc Builder Parse.
From RX.Spec Require Cst.
From RX.Proofs Require Import Tactics CstLex CstBuild CstTree CstItems.
Open Scope N_scope.

(* ------------------------------------------------------------------------------------------ *)
(* renderings are ASCII                                                                       *)
(* ------------------------------------------------------------------------------------------ *)

Definition asc (l : bytes) : Prop := Forall (fun x => x < 128) l.

Lemma asc_app a r : asc a -> asc r -> asc (a ++ r).
Proof. intros. apply Forall_app. auto. Qed.

Lemma forallb_asc (f : N -> bool) l : (forall x, f x = true -> x < 128) -> forallb f l = true -> asc l.
Proof.
  intros Hf. induction l as [|x l IH]; intros H; [constructor|].
  cbn [forallb] in H. apply andb_true_iff in H. destruct H as [H1 H2].
  constructor; [apply Hf; exact H1|apply IH; exact H2].
Qed.

Lemma asc_ws w : Cst.wf_ws w = true -> asc w.
Proof. apply forallb_asc. intros x H. unfold Cst.is_ws in H. lia. Qed.

Lemma asc_name n : Cst.wf_name n = true -> asc n.
Proof.
  destruct n as [|x r]; [discriminate|]. cbn [Cst.wf_name]. intros H. apply andb_true_iff in H.
  destruct H as [H1 H2]. constructor.
  - apply (name_start_byte _ H1).
  - revert H2. apply forallb_asc. intros y Hy. apply (name_char_byte _ Hy).
Qed.

Lemma asc_plain l : forallb Cst.is_plain l = true -> asc l.
Proof. apply forallb_asc. intros x H. apply (plain_char _ H). Qed.

Lemma asc_lit l : forallb (fun x => x <? 128) l = true -> asc l.
Proof. apply forallb_asc. intros x H. lia. Qed.

Lemma asc_attr a : Cst.wf_attr a = true -> asc (Cst.r_attr a).
Proof.
  intros H. destruct (wf_attr_parts _ H) as (_ & H1 & H2 & H3 & H4 & H5 & H6).
  unfold Cst.r_attr. repeat apply asc_app; try (apply asc_ws; assumption).
  - apply asc_name. exact H2.
  - apply asc_lit. reflexivity.
  - constructor; [lia|constructor].
  - revert H6. apply forallb_asc. intros x Hx.
    assert (Hp : Cst.is_plain x = true) by lia. apply (plain_char _ Hp).
  - constructor; [lia|constructor].
Qed.

Lemma asc_attrs attrs : forallb Cst.wf_attr attrs = true -> asc (flat_map Cst.r_attr attrs).
Proof.
  induction attrs as [|a r IH]; intros H; [constructor|]. cbn [forallb] in H.
  apply andb_true_iff in H. destruct H as [H1 H2]. cbn [flat_map]. apply asc_app; [apply asc_attr; exact H1|auto].
Qed.

Lemma asc_item : forall i, Cst.wf_item i = true -> asc (Cst.r_item i).
Proof.
  intros i. induction i as [n a w|n a w cs w2 IH|bs|bs|t s v] using item_ind'; intros Hwf.
  - destruct (wf_elem_parts _ _ _ _ Hwf) as (Hn & Ha & _ & _ & Hw & _). rewrite r_item_elem.
    repeat apply asc_app; try (apply asc_lit; reflexivity).
    + apply asc_name; exact Hn.
    + apply asc_attrs; exact Ha.
    + apply asc_ws; exact Hw.
  - destruct (wf_elem_parts _ _ _ _ Hwf) as (Hn & Ha & _ & _ & Hw & Hw2 & _ & Hcs). rewrite r_item_elem.
    repeat apply asc_app; try (apply asc_lit; reflexivity).
    + apply asc_name; exact Hn.
    + apply asc_attrs; exact Ha.
    + apply asc_ws; exact Hw.
    + clear - IH Hcs. induction IH as [|c r Hc _ IHr]; [constructor|].
      cbn [wf_items] in Hcs. apply andb_true_iff in Hcs. destruct Hcs as [H1 H2].
      cbn [r_items]. apply asc_app; auto.
    + apply asc_name; exact Hn.
    + apply asc_ws; exact Hw2.
  - destruct (wf_text _ Hwf) as ([H _] & _). cbn [Cst.r_item]. revert H. apply forallb_asc.
    intros x Hx. assert (Hp : Cst.is_plain x = true) by lia. apply (plain_char _ Hp).
  - destruct (wf_comment _ Hwf) as (H & _). cbn [Cst.r_item].
    repeat apply asc_app; try (apply asc_lit; reflexivity). apply asc_plain; exact H.
  - destruct (wf_pi _ _ _ Hwf) as (H1 & H2 & H3 & _). cbn [Cst.r_item].
    repeat apply asc_app; try (apply asc_lit; reflexivity).
    + apply asc_name; exact H1.
    + apply asc_ws; exact H2.
    + apply asc_plain; exact H3.
Qed.

(* ------------------------------------------------------------------------------------------ *)
(* comments and PIs separated by whitespace (prolog and epilog)                                *)
(* ------------------------------------------------------------------------------------------ *)

Definition pairs := list (Cst.bytes * Cst.item).
Definition r_pairs (l : pairs) : bytes := flat_map (fun x => fst x ++ Cst.r_item (snd x)) l.
Definition wf_pairs (l : pairs) : bool :=
  forallb (fun x => Cst.wf_ws (fst x) && Cst.is_misc (snd x) && Cst.wf_item (snd x)) l.

Definition misc_stop (rest : bytes) : Prop :=
  stops byte_is_space rest /\ prefix_b [60; 33; 45; 45] rest = false /\ prefix_b [60; 63] rest = false.

Lemma asc_pairs l : wf_pairs l = true -> asc (r_pairs l).
Proof.
  induction l as [|[w i] r IH]; intros H; [constructor|]. cbn [wf_pairs forallb fst snd] in H.
  rewrite !andb_true_iff in H. destruct H as [[[H1 H2] H3] H4]. cbn [r_pairs flat_map fst snd].
  repeat apply asc_app; [apply asc_ws; exact H1|apply asc_item; exact H3|apply IH; exact H4].
Qed.

Lemma pairs_len l : wf_pairs l = true -> (length l <= length (r_pairs l))%nat.
Proof.
  induction l as [|[w i] r IH]; intros H; [cbn; lia|]. cbn [wf_pairs forallb fst snd] in H.
  rewrite !andb_true_iff in H. destruct H as [[[H1 H2] H3] H4]. cbn [r_pairs flat_map fst snd length].
  rewrite !app_length. specialize (IH H4). unfold r_pairs in IH.
  pose proof (steps_le i H3) as Hs. destruct i; try discriminate; cbn [steps] in Hs; lia.
Qed.

Ltac clia := repeat match goal with H : @eq bool _ true |- _ => clear H end; lia.

Section Doc.
Variable text : bytes.
Hypothesis Hascii : Forall (fun x => x < 128) text.

Notation ev := (tok_ev text).
Notation st := (CstLex.st text).
Notation W := (CstLex.W text).

Lemma misc_loop_ok : forall (l : pairs) p wl rest c fuel,
  W p (r_pairs l ++ wl ++ rest) -> wf_pairs l = true -> Cst.wf_ws wl = true -> misc_stop rest ->
  (length l < fuel)%nat -> CI c -> c_after_text c = [] -> node_room c (nsizes (map snd l)) ->
  exists c' K,
    parse_misc_loop text context ev fuel (st p (r_pairs l ++ wl ++ rest)) c =
    Ok (st (p + blen (r_pairs l) + blen wl) rest, c') /\
    Step c c' K [] /\ CI c' /\ c_after_text c' = [] /\
    Forall2 (km text (d_attrs (c_doc c'))) K (tag_list (c_parent_id c) (len_N (d_nodes (c_doc c))) (map snd l)).
Proof.
  induction l as [|[w i] l IH]; intros p wl rest c fuel HW Hwf Hwl (Hs1 & Hs2 & Hs3) Hf I Hat NR.
  - cbn [r_pairs flat_map app map tag_list] in *. change (blen []) with 0. rewrite N.add_0_r.
    destruct fuel as [|fu]; [cbn in Hf; lia|]. cbn [parse_misc_loop].
    exists c, []. split; [|split; [apply Step_refl|split; [exact I|split; [exact Hat|constructor]]]].
    rewrite at_end_st by exact HW.
    destruct (wl ++ rest) as [|x0 l0] eqn:E0.
    + apply app_eq_nil in E0. destruct E0 as [-> ->]. change (blen []) with 0. rewrite N.add_0_r. reflexivity.
    + rewrite <- E0 in *. clear E0 x0 l0. cbv zeta.
      rewrite skip_spaces_st; [|exact HW|apply ws_spaces; exact Hwl|exact Hs1].
      pose proof (W_app _ _ _ _ HW) as HW1.
      rewrite !starts_with_st by exact HW1.
      change (b "<!--") with [60; 33; 45; 45]. change (b "<?") with [60; 63]. rewrite Hs2, Hs3. reflexivity.
  - cbn [wf_pairs forallb fst snd] in Hwf. rewrite !andb_true_iff in Hwf. destruct Hwf as [[[H1 H2] H3] H4].
    cbn [r_pairs flat_map fst snd] in HW |- *. fold (r_pairs l) in HW |- *.
    rewrite <- !app_assoc in HW |- *.
    cbn [map snd] in NR. rewrite nsizes_cons in NR.
    cbn [length] in Hf. destruct fuel as [|fu]; [lia|]. cbn [parse_misc_loop].
    rewrite at_end_st by exact HW.
    assert (Hst : exists l0, Cst.r_item i = 60 :: l0) by (apply nontext_starts; destruct i; try discriminate; reflexivity).
    destruct Hst as [l0 El0].
    replace (match w ++ Cst.r_item i ++ r_pairs l ++ wl ++ rest with [] => true | _ :: _ => false end) with false
      by (rewrite El0; destruct w; reflexivity).
    cbv zeta.
    rewrite skip_spaces_st; [|exact HW|apply ws_spaces; exact H1|rewrite El0; reflexivity].
    pose proof (W_app _ _ _ _ HW) as HW1.
    assert (R : room c) by (apply (node_room_room _ _ NR); pose proof (nsize_pos i); lia).
    destruct i as [? ? ? ?|?|bs|t s v]; try discriminate.
    + (* comment *)
      rewrite starts_with_st by exact HW1. change (b "<!--") with [60; 33; 45; 45].
      cbn [Cst.r_item] in HW1 |- *. rewrite <- !app_assoc in HW1 |- *. rewrite prefix_b_app_same.
      pose proof (ev_comment text Hascii bs (p + blen w) (r_pairs l ++ wl ++ rest) c H3) as Hev.
      cbn [Cst.r_item] in Hev. rewrite <- !app_assoc in Hev.
      destruct (Hev HW1 I R) as (c1 & K1 & E1 & S1 & I1 & A1 & _ & _ & F1 & _). clear Hev.
      rewrite E1. cbn [bind].
      pose proof (Step_nodes_len _ _ _ _ S1) as Ln1.
      rewrite (Forall2_len_N _ _ _ F1) in Ln1. unfold len_N at 3 in Ln1. rewrite tag_len in Ln1.
      pose proof (Step_opt _ _ _ _ (proj1 S1)) as Lo1.
      set (p1 := p + blen w + blen ([60; 33; 45; 45] ++ bs ++ [45; 45; 62])) in *.
      assert (HW2 : W p1 (r_pairs l ++ wl ++ rest)).
      { pose proof (W_app _ _ ([60; 33; 45; 45] ++ bs ++ [45; 45; 62]) _ ltac:(rewrite <- !app_assoc; exact HW1)) as X.
        exact X. }
      destruct (IH p1 wl rest c1 fu HW2 H4 Hwl (conj Hs1 (conj Hs2 Hs3)) ltac:(clia) I1 (A1 eq_refl))
        as (c2 & K2 & E2 & S2 & I2 & A2 & F2).
      { unfold node_room in *. rewrite Ln1, Lo1. clia. }
      rewrite E2. exists c2, (K1 ++ K2). split.
      { f_equal. f_equal. f_equal. unfold p1. rewrite !blen_app. clia. }
      split; [apply (Step_trans _ _ _ _ _ _ _ S1 S2)|]. split; [exact I2|]. split; [exact A2|].
      cbn [map snd tag_list]. apply Forall2_app.
      * rewrite (s_attrs _ _ _ _ (proj1 S2)). apply km_Forall2_ext. exact F1.
      * destruct S1 as (_ & P1 & _). rewrite P1, Ln1 in F2. exact F2.
    + (* processing instruction *)
      rewrite !starts_with_st by exact HW1. change (b "<!--") with [60; 33; 45; 45]. change (b "<?") with [60; 63].
      cbn [Cst.r_item] in HW1 |- *. rewrite <- !app_assoc in HW1 |- *. rewrite prefix_b_app_same.
      replace (prefix_b [60; 33; 45; 45] ([60; 63] ++ t ++ s ++ v ++ [63; 62] ++ r_pairs l ++ wl ++ rest)) with false
        by reflexivity.
      pose proof (ev_pi text Hascii t s v (p + blen w) (r_pairs l ++ wl ++ rest) c H3) as Hev.
      cbn [Cst.r_item] in Hev. rewrite <- !app_assoc in Hev.
      destruct (Hev HW1 I R) as (c1 & K1 & E1 & S1 & I1 & A1 & _ & _ & F1 & _). clear Hev.
      rewrite E1. cbn [bind].
      pose proof (Step_nodes_len _ _ _ _ S1) as Ln1.
      rewrite (Forall2_len_N _ _ _ F1) in Ln1. unfold len_N at 3 in Ln1. rewrite tag_len in Ln1.
      pose proof (Step_opt _ _ _ _ (proj1 S1)) as Lo1.
      set (p1 := p + blen w + blen ([60; 63] ++ t ++ s ++ v ++ [63; 62])) in *.
      assert (HW2 : W p1 (r_pairs l ++ wl ++ rest)).
      { pose proof (W_app _ _ ([60; 63] ++ t ++ s ++ v ++ [63; 62]) _ ltac:(rewrite <- !app_assoc; exact HW1)) as X.
        exact X. }
      destruct (IH p1 wl rest c1 fu HW2 H4 Hwl (conj Hs1 (conj Hs2 Hs3)) ltac:(clia) I1 (A1 eq_refl))
        as (c2 & K2 & E2 & S2 & I2 & A2 & F2).
      { unfold node_room in *. rewrite Ln1, Lo1. clia. }
      rewrite E2. exists c2, (K1 ++ K2). split.
      { f_equal. f_equal. f_equal. unfold p1. rewrite !blen_app. clia. }
      split; [apply (Step_trans _ _ _ _ _ _ _ S1 S2)|]. split; [exact I2|]. split; [exact A2|].
      cbn [map snd tag_list]. apply Forall2_app.
      * rewrite (s_attrs _ _ _ _ (proj1 S2)). apply km_Forall2_ext. exact F1.
      * destruct S1 as (_ & P1 & _). rewrite P1, Ln1 in F2. exact F2.
Qed.


Lemma skip_spaces_none p l : W p l -> stops byte_is_space l -> skip_spaces (st p l) = st p l.
Proof.
  intros HW Hs. change l with ([] ++ l) at 1. rewrite skip_spaces_st; [|exact HW|reflexivity|exact Hs].
  change (blen []) with 0. rewrite N.add_0_r. reflexivity.
Qed.

End Doc.

(* ------------------------------------------------------------------------------------------ *)
(* the shape of a rendered document                                                            *)
(* ------------------------------------------------------------------------------------------ *)

Fixpoint regroup (w0 : Cst.bytes) (l : list (Cst.item * Cst.bytes)) : pairs :=
  match l with [] => [] | (i, w) :: r => (w0, i) :: regroup w r end.
Fixpoint last_ws (w0 : Cst.bytes) (l : list (Cst.item * Cst.bytes)) : Cst.bytes :=
  match l with [] => w0 | (i, w) :: r => last_ws w r end.

Lemma regroup_render : forall l w0,
  w0 ++ flat_map (fun p => Cst.r_item (fst p) ++ snd p) l = r_pairs (regroup w0 l) ++ last_ws w0 l.
Proof.
  induction l as [|[i w] r IH]; intros w0; cbn [flat_map regroup last_ws r_pairs app fst snd]; [apply app_nil_r|].
  fold (r_pairs (regroup w r)). rewrite <- !app_assoc. rewrite <- IH. reflexivity.
Qed.

Lemma regroup_wf : forall l w0, Cst.wf_ws w0 = true ->
  forallb (fun p => Cst.is_misc (fst p) && Cst.wf_item (fst p) && Cst.wf_ws (snd p)) l = true ->
  wf_pairs (regroup w0 l) = true /\ Cst.wf_ws (last_ws w0 l) = true.
Proof.
  induction l as [|[i w] r IH]; intros w0 H0 H; cbn [regroup last_ws wf_pairs forallb fst snd] in *; [auto|].
  rewrite !andb_true_iff in H. destruct H as [[[H1 H2] H3] H4].
  destruct (IH w H3 H4) as [I1 I2]. split; [|exact I2].
  rewrite H0, H1, H2. exact I1.
Qed.

Lemma regroup_items : forall l w0, map snd (regroup w0 l) = map fst l.
Proof. induction l as [|[i w] r IH]; intros w0; cbn [regroup map fst snd]; [reflexivity|]. rewrite IH. reflexivity. Qed.

Definition doc_items (c : Cst.doc) : list Cst.item :=
  map fst (Cst.d_before c) ++ Cst.d_root c :: map snd (Cst.d_after c).

Lemma sem_items_app l1 l2 : sem_items (l1 ++ l2) = sem_items l1 ++ sem_items l2.
Proof. induction l1 as [|c r IH]; cbn [app sem_items]; [reflexivity|]. rewrite IH, app_assoc. reflexivity. Qed.

Lemma sem_doc_items c : Cst.sem c = sem_items (doc_items c).
Proof.
  unfold Cst.sem, doc_items. rewrite sem_items_app. cbn [sem_items]. f_equal; [|f_equal].
  - induction (Cst.d_before c) as [|x r IH]; cbn [flat_map map sem_items]; [reflexivity|]. rewrite IH. reflexivity.
  - induction (Cst.d_after c) as [|x r IH]; cbn [flat_map map sem_items]; [reflexivity|]. rewrite IH. reflexivity.
Qed.

Lemma tag_list_app p : forall l1 l2 id,
  tag_list p id (l1 ++ l2) = tag_list p id l1 ++ tag_list p (id + nsizes l1) l2.
Proof.
  induction l1 as [|c r IH]; intros l2 id; cbn [app tag_list].
  - change (nsizes []) with 0. rewrite N.add_0_r. reflexivity.
  - rewrite IH, nsizes_cons, <- app_assoc. f_equal. f_equal. f_equal. lia.
Qed.

Lemma nsizes_app l1 l2 : nsizes (l1 ++ l2) = nsizes l1 + nsizes l2.
Proof. unfold nsizes. rewrite sem_items_app, app_length. lia. Qed.

Record doc_parts (c : Cst.doc) : Prop := {
  dp_ws0 : Cst.wf_ws (Cst.d_ws0 c) = true;
  dp_wsend : Cst.wf_ws (Cst.d_ws_end c) = true;
  dp_before : forallb (fun p => Cst.is_misc (fst p) && Cst.wf_item (fst p) && Cst.wf_ws (snd p)) (Cst.d_before c) = true;
  dp_root : exists name attrs ws body, Cst.d_root c = Cst.IElem name attrs ws body;
  dp_rootwf : Cst.wf_item (Cst.d_root c) = true;
  dp_after : wf_pairs (Cst.d_after c) = true
}.

Lemma wf_doc_parts c : Cst.wf_doc c = true -> doc_parts c.
Proof.
  unfold Cst.wf_doc. rewrite !andb_true_iff. intros [[[[H1 H2] H3] H4] H5].
  constructor; try assumption.
  - destruct (Cst.d_root c); try discriminate. eauto.
  - destruct (Cst.d_root c); try discriminate. exact H4.
Qed.

Lemma render_shape c :
  Cst.render c =
  r_pairs (regroup (Cst.d_ws0 c) (Cst.d_before c)) ++ last_ws (Cst.d_ws0 c) (Cst.d_before c) ++
  Cst.r_item (Cst.d_root c) ++ r_pairs (Cst.d_after c) ++ Cst.d_ws_end c ++ [].
Proof.
  unfold Cst.render. rewrite app_nil_r. rewrite app_assoc, regroup_render, <- app_assoc. reflexivity.
Qed.

Lemma render_asc c : Cst.wf_doc c = true -> asc (Cst.render c).
Proof.
  intros H. apply wf_doc_parts in H. destruct H as [H1 H2 H3 H4 H5 H6].
  destruct (regroup_wf _ _ H1 H3) as [R1 R2].
  rewrite render_shape. repeat apply asc_app.
  - apply asc_pairs; exact R1.
  - apply asc_ws; exact R2.
  - apply asc_item; exact H5.
  - apply asc_pairs; exact H6.
  - apply asc_ws; exact H2.
  - constructor.
Qed.

(* ---- no BOM, no XML declaration ---- *)

Lemma bom_false l : asc l -> prefix_b [239; 187; 191] l = false.
Proof.
  intros H. destruct l as [|x l]; [reflexivity|]. inversion H as [|? ? Hx _]; subst.
  cbn [prefix_b]. replace (239 =? x) with false by lia. reflexivity.
Qed.

Lemma not_xml_gen x target rest : Cst.wf_name target = true -> Cst.prefix_is_xml target = false ->
  match rest with [] => True | c :: _ => Cst.is_name_char c = false end ->
  Cst.is_name_char x = false ->
  prefix_b [120; 109; 108; x] (target ++ rest) = false.
Proof.
  intros Hn Hx Hr Hxx.
  assert (Hall : forallb Cst.is_name_char target = true).
  { destruct target as [|a t]; [discriminate|]. cbn [Cst.wf_name] in Hn.
    apply andb_true_iff in Hn. destruct Hn as [Ha Ht]. cbn [forallb].
    rewrite (name_start_char _ Ha), Ht. reflexivity. }
  destruct (prefix_b [120; 109; 108; x] (target ++ rest)) eqn:E; [|reflexivity]. exfalso.
  destruct target as [|a [|b0 [|c0 [|d0 t]]]]; cbn [app prefix_b forallb] in *.
  - discriminate.
  - destruct rest as [|r rest]; [rewrite andb_false_r in E; discriminate|].
    assert (r = 109) by lia. subst r. vm_compute in Hr. discriminate.
  - destruct rest as [|r rest]; [rewrite !andb_false_r in E; discriminate|].
    assert (r = 108) by lia. subst r. vm_compute in Hr. discriminate.
  - assert (a = 120 /\ b0 = 109 /\ c0 = 108) as (-> & -> & ->) by lia. discriminate.
  - assert (d0 = x) by lia. subst d0. rewrite !andb_true_iff in Hall.
    destruct Hall as (_ & _ & _ & Hd & _). congruence.
Qed.

Definition decl_test (l : bytes) : bool :=
  prefix_b [60; 63; 120; 109; 108] l && match nth_error l 5 with Some x => byte_is_space x | None => false end.

Lemma space_not_name x : byte_is_space x = true -> Cst.is_name_char x = false.
Proof. cls. lia. Qed.

Lemma decl_test_pi L : decl_test (60 :: 63 :: L) =
  prefix_b [120; 109; 108] L && match nth_error L 3 with Some x => byte_is_space x | None => false end.
Proof. unfold decl_test. cbn [prefix_b]. rewrite !N.eqb_refl. reflexivity. Qed.

Lemma decl_pi t s v rest : pi_ok t s v -> decl_test ([60; 63] ++ t ++ s ++ v ++ [63; 62] ++ rest) = false.
Proof.
  intros Hok. pose proof (pi_after_target _ _ _ rest Hok) as [Hst _].
  destruct Hok as (Hn & _ & _ & _ & Hx & _).
  change ([60; 63] ++ t ++ s ++ v ++ [63; 62] ++ rest) with (60 :: 63 :: (t ++ s ++ v ++ [63; 62] ++ rest)).
  rewrite decl_test_pi.
  set (L := t ++ s ++ v ++ [63; 62] ++ rest) in *.
  destruct (nth_error L 3) as [x|] eqn:E3; [|apply andb_false_r].
  destruct (byte_is_space x) eqn:Es; [|apply andb_false_r]. rewrite andb_true_r.
  pose proof (not_xml_gen x t (s ++ v ++ [63; 62] ++ rest) Hn Hx (name_stop_char _ Hst) (space_not_name _ Es)) as G.
  fold L in G.
  destruct L as [|a [|b0 [|c0 [|d0 L']]]]; try discriminate. cbn [nth_error] in E3. injection E3 as ->.
  cbn [prefix_b] in *. rewrite N.eqb_refl in G. rewrite !andb_true_r in *. exact G.
Qed.

Lemma decl_ws x r : x <> 60 -> decl_test (x :: r) = false.
Proof. intros H. unfold decl_test. cbn [prefix_b]. replace (60 =? x) with false by lia. reflexivity. Qed.

Lemma decl_lt y r : y <> 63 -> decl_test (60 :: y :: r) = false.
Proof. intros H. unfold decl_test. cbn [prefix_b]. replace (63 =? y) with false by lia. rewrite andb_false_r. reflexivity. Qed.

Lemma root_starts name attrs ws body : Cst.wf_name name = true ->
  exists n l, Cst.r_item (Cst.IElem name attrs ws body) = 60 :: n :: l /\ Cst.is_name_start n = true.
Proof.
  intros Hn. rewrite r_item_elem. destruct name as [|n r]; [discriminate|].
  cbn [Cst.wf_name] in Hn. apply andb_true_iff in Hn. destruct Hn as [Hn _]. eexists. eexists. split; [reflexivity|exact Hn].
Qed.

Lemma decl_render c : Cst.wf_doc c = true -> decl_test (Cst.render c) = false.
Proof.
  intros H. apply wf_doc_parts in H. destruct H as [H1 H2 H3 (name & attrs & ws & body & Er) H5 H6].
  destruct (regroup_wf _ _ H1 H3) as [R1 R2]. rewrite render_shape.
  destruct (wf_elem_parts _ _ _ _ ltac:(rewrite <- Er; exact H5)) as (Hn & _).
  destruct (root_starts name attrs ws body Hn) as (n & l & El & Hns).
  destruct (name_start_byte _ Hns) as (_ & _ & _ & _ & _ & _ & H63 & _).
  destruct (regroup (Cst.d_ws0 c) (Cst.d_before c)) as [|[w i] B].
  - cbn [r_pairs flat_map app]. destruct (last_ws (Cst.d_ws0 c) (Cst.d_before c)) as [|x wl].
    + cbn [app]. rewrite Er, El. cbn [app]. apply decl_lt. exact H63.
    + cbn [app]. apply decl_ws. cbn [Cst.wf_ws forallb] in R2. apply andb_true_iff in R2.
      destruct R2 as [R2 _]. unfold Cst.is_ws in R2. clear - R2. lia.
  - cbn [wf_pairs forallb fst snd] in R1. rewrite !andb_true_iff in R1. destruct R1 as [[[W1 M1] I1] _].
    cbn [r_pairs flat_map fst snd]. rewrite <- !app_assoc. destruct w as [|x w].
    + cbn [app]. destruct i as [? ? ? ?|?|bs|t s v]; try discriminate.
      * cbn [Cst.r_item app]. apply decl_lt. clear. lia.
      * cbn [Cst.r_item]. rewrite <- !app_assoc. apply decl_pi. apply wf_pi. exact I1.
    + cbn [app]. apply decl_ws. cbn [Cst.wf_ws forallb] in W1. apply andb_true_iff in W1.
      destruct W1 as [W1 _]. unfold Cst.is_ws in W1. clear - W1. lia.
Qed.

(* ------------------------------------------------------------------------------------------ *)
(* parse_document                                                                             *)
(* ------------------------------------------------------------------------------------------ *)

Lemma parse_document_ok (c : Cst.doc) (dtd : bool) (c0 : context) :
  Cst.wf_doc c = true ->
  let text := Cst.render c in
  CI c0 -> c_after_text c0 = [] ->
  node_room c0 (nsizes (doc_items c)) -> attr_room c0 (nattrs (Cst.d_root c)) ->
  exists cf K ext,
    parse_document text context (tok_ev text) dtd c0 = Ok cf /\
    Step c0 cf K ext /\ CI cf /\
    Forall2 (km text (d_attrs (c_doc cf))) K
            (tag_list (c_parent_id c0) (len_N (d_nodes (c_doc c0))) (doc_items c)).
Proof.
  intros Hwf text I0 A0 NR AR.
  pose proof (render_asc c Hwf) as Hascii. fold text in Hascii.
  pose proof (decl_render c Hwf) as Hdecl. fold text in Hdecl.
  pose proof (wf_doc_parts c Hwf) as [H1 H2 H3 (name & attrs & ws & body & Er) H5 H6].
  clear Hwf.
  destruct (regroup_wf _ _ H1 H3) as [R1 R2].
  assert (Etext : text = r_pairs (regroup (Cst.d_ws0 c) (Cst.d_before c)) ++ last_ws (Cst.d_ws0 c) (Cst.d_before c) ++
                         Cst.r_item (Cst.d_root c) ++ r_pairs (Cst.d_after c) ++ Cst.d_ws_end c ++ [])
    by apply render_shape.
  assert (Eitems : doc_items c = map snd (regroup (Cst.d_ws0 c) (Cst.d_before c)) ++ Cst.d_root c :: map snd (Cst.d_after c)).
  { unfold doc_items. rewrite regroup_items. reflexivity. }
  rewrite Eitems in *. clear Eitems. rewrite Er in *. clear Er H1 H3.
  set (B := regroup (Cst.d_ws0 c) (Cst.d_before c)) in *.
  set (wB := last_ws (Cst.d_ws0 c) (Cst.d_before c)) in *.
  set (A := Cst.d_after c) in *. set (wE := Cst.d_ws_end c) in *.
  set (root := Cst.IElem name attrs ws body) in *.
  rewrite nsizes_app, nsizes_cons in NR.
  pose proof (W_new text) as HW0.
  destruct (wf_elem_parts _ _ _ _ H5) as (Hn & _).
  destruct (root_starts name attrs ws body Hn) as (n & l & El & Hns). fold root in El.
  destruct (name_start_byte _ Hns) as (_ & _ & Hnsp & _ & _ & H33 & H63 & _). clear Hns Hn.
  remember (Cst.r_item root ++ r_pairs A ++ wE ++ []) as rest eqn:Erest.
  assert (Hstop : misc_stop rest).
  { rewrite Erest, El. cbn [app]. split; [reflexivity|]. cbn [prefix_b].
    replace (33 =? n) with false by clia. replace (63 =? n) with false by clia. split; reflexivity. }
  assert (Hdt : prefix_b [60; 33; 68; 79; 67; 84; 89; 80; 69] rest = false).
  { rewrite Erest, El. cbn [app prefix_b]. replace (33 =? n) with false by clia. rewrite andb_false_r. reflexivity. }
  assert (Hcb : forall p, CstLex.W text p rest ->
            match curr_byte_opt (CstLex.st text p rest) with Some x => x =? 60 | None => false end = true).
  { intros p HWp. rewrite Erest, El in *. cbn [app] in *. rewrite curr_byte_opt_st by exact HWp. reflexivity. }
  clear El.
  unfold parse_document. rewrite st_new.
  rewrite starts_with_st by exact HW0. rewrite bom_false by exact Hascii. cbn [bind].
  unfold starts_with_declaration. rewrite starts_with_st, avail_st by exact HW0.
  change (b "<?xml") with [60; 63; 120; 109; 108]. fold (decl_test text). rewrite Hdecl. cbn [bind].
  (* prolog *)
  unfold parse_misc. cbn [CstLex.st s_rest].
  fold (CstLex.st text 0 text).
  assert (HW0' : CstLex.W text 0 (r_pairs B ++ wB ++ rest)) by (rewrite <- Etext; exact HW0).
  replace (CstLex.st text 0 text) with (CstLex.st text 0 (r_pairs B ++ wB ++ rest))
    by (rewrite <- Etext; reflexivity).
  assert (Elen : length text = length (r_pairs B ++ wB ++ rest)) by (rewrite <- Etext; reflexivity).
  destruct (misc_loop_ok text Hascii B 0 wB rest c0 (S (length text)) HW0' R1 R2 Hstop)
    as (c1 & K1 & E1 & S1 & I1 & A1 & F1).
  { pose proof (pairs_len B R1). rewrite Elen, app_length. clia. }
  { exact I0. } { exact A0. } { unfold node_room in *. clia. }
  rewrite E1. cbn [bind]. clear E1.
  pose proof (W_app _ _ _ _ HW0') as HWa. pose proof (W_app _ _ _ _ HWa) as HW1.
  set (p1 := 0 + blen (r_pairs B) + blen wB) in *.
  rewrite skip_spaces_none by (try exact HW1; apply Hstop).
  rewrite starts_with_st by exact HW1. change (b "<!DOCTYPE") with [60; 33; 68; 79; 67; 84; 89; 80; 69].
  rewrite Hdt.
  cbn [bind]. rewrite skip_spaces_none by (try exact HW1; apply Hstop).
  rewrite (Hcb p1 HW1).
  (* root *)
  pose proof (Step_nodes_len _ _ _ _ S1) as Ln1.
  rewrite (Forall2_len_N _ _ _ F1) in Ln1. unfold len_N at 3 in Ln1. rewrite tag_list_len in Ln1.
  pose proof (Step_opt _ _ _ _ (proj1 S1)) as Lo1.
  pose proof (Step_attrs_len _ _ _ _ (proj1 S1)) as La1. change (len_N []) with 0 in La1.
  rewrite Erest in HW1 |- *.
  destruct (root_ok text Hascii name attrs ws body p1 (r_pairs A ++ wE ++ []) c1 H5 HW1 I1)
    as (c2 & K2 & e2 & E2 & S2 & I2 & A2 & _ & _ & F2 & L2).
  { unfold node_room in *. rewrite Ln1, Lo1. fold root. clia. }
  { unfold attr_room in *. rewrite La1. fold root. clia. }
  fold root in E2, S2, A2, F2, L2, HW1.
  rewrite E2. cbn [bind]. clear E2.
  pose proof (W_app _ _ _ _ HW1) as HW2.
  set (p2 := p1 + blen (Cst.r_item root)) in *.
  pose proof (Step_nodes_len _ _ _ _ S2) as Ln2.
  rewrite (Forall2_len_N _ _ _ F2) in Ln2. unfold len_N at 3 in Ln2. rewrite tag_len in Ln2.
  pose proof (Step_opt _ _ _ _ (proj1 S2)) as Lo2.
  (* epilog *)
  unfold parse_misc. cbn [CstLex.st s_rest]. fold (CstLex.st text p2 (r_pairs A ++ wE ++ [])).
  destruct (misc_loop_ok text Hascii A p2 wE [] c2
              (S (length (r_pairs A ++ wE ++ []))) HW2 H6 H2)
    as (c3 & K3 & E3 & S3 & I3 & A3 & F3).
  { split; [exact Logic.I|split; reflexivity]. }
  { pose proof (pairs_len A H6). rewrite app_length. clia. }
  { exact I2. } { apply A2. reflexivity. }
  { unfold node_room in *. rewrite Ln2, Lo2, Ln1, Lo1. clia. }
  rewrite E3. cbn [bind]. clear E3.
  pose proof (W_app _ _ _ _ HW2) as HWb. pose proof (W_app _ _ _ _ HWb) as HW3.
  rewrite at_end_st by exact HW3. cbn [negb].
  exists c3, (K1 ++ K2 ++ K3), ([] ++ e2 ++ []). split; [reflexivity|].
  split; [apply (Step_trans _ _ _ _ _ _ _ S1 (Step_trans _ _ _ _ _ _ _ S2 S3))|]. split; [exact I3|].
  rewrite tag_list_app. cbn [tag_list].
  destruct S1 as (S1 & P1 & _). destruct S2 as (S2 & P2 & _). destruct S3 as (S3 & _ & _).
  apply Forall2_app; [|apply Forall2_app].
  - rewrite (s_attrs _ _ _ _ S3), (s_attrs _ _ _ _ S2), <- app_assoc. apply km_Forall2_ext. exact F1.
  - rewrite (s_attrs _ _ _ _ S3). apply km_Forall2_ext. rewrite P1, Ln1 in F2. exact F2.
  - rewrite P2, P1, Ln2, Ln1 in F3. exact F3.
Qed.

Print Assumptions misc_loop_ok.
Print Assumptions parse_document_ok.
