(* Proofs/NonVacuity_C06.v -- non-vacuity of the hypotheses of the theorems pinned under C06.
   ScopeProofs.v: a builder state derived from the document of NonVacuity_Doc.v (the element r with
   xmlns:p='u' is the parent; one more declaration xmlns:q='w' has been pushed for the element being
   opened).  CstNs / CstFull: the two-document theorems on pairs of different renderings with the
   same meaning; ns_violation_variant on a violating document.  (The single-document theorems
   parse_render_sem_* are instantiated in CstNsMain.Example, CstFullS1.Example1, CstFullS2.Example2,
   CstFullS3.Example3, CstFullS4Example; ns_decide in NsRejSanity.ex1_decide.) *)
From Coq Require Import Ascii String List NArith Bool Lia.
Import ListNotations.
From RX Require Import Generated.
From RX.Model Require Import Base CharClass Stream Tokenizer Doc Builder Parse Api.
From RX.Spec Require Scope.
From RX.Spec Require Cst CstNs CstU CstFull.
From RX.Proofs Require Import NoPanicBuilder ScopeProofs ScopeParse CstNsView CstNsMain CstFullMain CstFullS1 CstFullS2 CstFullS3
     NsRejDefs NsRejBuild NsRejMain CstNsSanity NsRejSanity NonVacuity_Doc.
Open Scope N_scope.

(* ---------------------------------------------------------------------------------------- *)
(* ScopeProofs.v                                                                            *)
(* ---------------------------------------------------------------------------------------- *)

Lemma ns_ok_check d :
  forallb (fun vi => vi <? len_N (d_ns_values d)) (d_ns_tree d) = true -> ns_ok d.
Proof.
  intros H p vi Hn. rewrite forallb_forall in H.
  apply nth_N_inv in Hn as [_ Hn]. apply nth_error_In in Hn. specialize (H _ Hn).
  apply N.ltb_lt in H. exact H.
Qed.

(* the state while the start tag <x xmlns:q='w' ...> inside r is being processed *)
Definition d1 : document :=
  Eval vm_compute in
    match push_ns text0 (Some (SStatic (b "q"))) (Owned (b "w")) d0 with Ok d => d | _ => d0 end.
Definition c1 : context :=
  {| c_opt := opt0; c_ns_start_idx := 2;
     c_cur_attrs := []; c_awaiting := []; c_parent_prefixes := [empty_slice; empty_slice];
     c_entities := []; c_after_text := []; c_parent_id := 1; c_tag_name := tag_name_null;
     c_entity_floor := 0; c_ld := ld_init; c_doc := d1 |}.

Example nv_push_ns_appends :
  ns_ok d0 /\ push_ns text0 (Some (SStatic (b "q"))) (Owned (b "w")) d0 = Ok d1.
Proof. split; [apply ns_ok_check|]; vm_compute; reflexivity. Qed.

Example nv_push_ns_appends_applied :
  binding_at text0 d1 2 = Some (Some (b "q"), b "w") /\ len_N (d_ns_tree d1) = 3.
Proof.
  destruct nv_push_ns_appends as [H1 H2].
  destruct (push_ns_appends text0 _ _ d0 d1 H1 H2) as (_ & L & B & _). split; [exact B|exact L].
Qed.

(* scopes_refine: inherited = [p -> u] (unique), own = [q -> w]; the result is own ++ inherited *)
Example nv_scopes_refine :
  exists r c' pnd,
  ns_ok (c_doc c1) /\
  nth_N (d_nodes (c_doc c1)) (c_parent_id c1) = Some pnd /\
  (match nd_kind pnd with KElement _ _ _ nss => (1, 2) = nss | _ => (1, 2) = (0, 0) end) /\
  snd (1, 2) <= c_ns_start_idx c1 /\ c_ns_start_idx c1 <= len_N (d_ns_tree (c_doc c1)) /\
  bindings_of text0 (c_doc c1) (1, 2) = Some [(Some (b "p"), b "u")] /\
  Scope.prefixes_unique [(Some (b "p"), b "u")] = true /\
  bindings_of text0 (c_doc c1) (c_ns_start_idx c1, len_N (d_ns_tree (c_doc c1))) = Some [(Some (b "q"), b "w")] /\
  resolve_namespaces text0 c1 = Ok (r, c').
Proof.
  do 3 eexists. split; [apply ns_ok_check; vm_compute; reflexivity|].
  repeat split; try (vm_compute; first [reflexivity | discriminate]).
Qed.

Example nv_scopes_refine_applied :
  exists r c', resolve_namespaces text0 c1 = Ok (r, c') /\
    bindings_of text0 (c_doc c') r = Some [(Some (b "q"), b "w"); (Some (b "p"), b "u")].
Proof.
  destruct nv_scopes_refine as (r & c' & pnd & H1 & H2 & H3 & H4 & H5 & H6 & H7 & H8 & H9).
  exists r, c'. split; [exact H9|].
  destruct (scopes_refine text0 c1 r c' pnd (1, 2) _ _ H1 H2 H3 H4 H5 H6 H7 H8 H9) as [_ E].
  rewrite E. vm_compute. reflexivity.
Qed.

Example nv_scope_prefixes_unique :
  Scope.prefixes_unique [(Some (b "q"), b "w"); (None, b "dflt")] = true /\
  Scope.prefixes_unique [(Some (b "p"), b "u"); (None, b "old")] = true.
Proof. split; vm_compute; reflexivity. Qed.

(* names_resolve: the prefix p of <p:c (bytes 52..53 of the input) in the scope of r *)
Example nv_names_resolve :
  bindings_of text0 d0 (1, 2) = Some [(Some (b "p"), b "u")] /\
  get_ns_idx_by_prefix text0 (1, 2) 52 {| sl_start := 52; sl_end := 53 |} d0 = Ok (Some 1).
Proof. split; vm_compute; reflexivity. Qed.

(* unknown_prefix_rejected / never_ok: the name d (bytes 92..93) used as a prefix is not bound *)
Example nv_unknown_prefix_rejected :
  bindings_of text0 d0 (1, 2) = Some [(Some (b "p"), b "u")] /\
  fst (1, 2) <= snd (1, 2) /\ snd (1, 2) <= len_N (d_ns_tree d0) /\
  (exists tp, gen_text_pos_from text0 92 = Ok tp) /\
  slice_bytes text0 {| sl_start := 92; sl_end := 93 |} <> [] /\
  bytes_eqb (slice_bytes text0 {| sl_start := 92; sl_end := 93 |}) ns_xml_prefix = false /\
  Scope.lookup [(Some (b "p"), b "u")] (Some (slice_bytes text0 {| sl_start := 92; sl_end := 93 |})) = None.
Proof.
  repeat split; try (vm_compute; first [reflexivity | discriminate]).
  eexists. vm_compute. reflexivity.
Qed.

Example nv_unknown_prefix_rejected_applied :
  exists e, get_ns_idx_by_prefix text0 (1, 2) 92 {| sl_start := 92; sl_end := 93 |} d0 = Err e.
Proof.
  destruct nv_unknown_prefix_rejected as (H1 & H2 & H3 & H4 & H5 & H6 & H7).
  exact (unknown_prefix_rejected text0 d0 (1, 2) 92 _ _ H1 H2 H3 H4 H5 H6 H7).
Qed.

(* duplicate_declaration_rejected: the open range of c1 holds q *)
Example nv_duplicate_declaration_rejected :
  bindings_of text0 d1 (2, len_N (d_ns_tree d1)) = Some [(Some (b "q"), b "w")].
Proof. vm_compute. reflexivity. Qed.

Example nv_duplicate_declaration_rejected_applied :
  ns_exists text0 d1 2 (Some (b "q")) = Ok true.
Proof.
  apply (duplicate_declaration_rejected text0 d1 2 (Some (b "q")) _ nv_duplicate_declaration_rejected).
  vm_compute. reflexivity.
Qed.

(* push_ns_limit: a table with 65537 distinct-from-the-new (prefix, uri) pairs *)
Definition d_full : document :=
  {| d_nodes := []; d_attrs := [];
     d_ns_values := repeat {| ns_name := Some (SStatic (b "p")); ns_uri := Owned (b "u") |} 65537;
     d_ns_tree := [] |}.

Example nv_push_ns_limit :
  find_ns text0 (d_ns_values d_full) (Some (str_bytes text0 (SStatic (b "z")))) (storage_bytes text0 (Owned (b "w"))) 0 = None /\
  ns_values_limit < len_N (d_ns_values d_full).
Proof. split; vm_compute; reflexivity. Qed.

Example nv_push_ns_limit_applied :
  push_ns text0 (Some (SStatic (b "z"))) (Owned (b "w")) d_full = Err NamespacesLimitReached.
Proof. exact (push_ns_limit text0 (Some (SStatic (b "z"))) (Owned (b "w")) d_full (proj1 nv_push_ns_limit) (proj2 nv_push_ns_limit)). Qed.

(* ---------------------------------------------------------------------------------------- *)
(* CstNs: two renderings with the same meaning; a violating document                          *)
(* ---------------------------------------------------------------------------------------- *)

Module Ns.
Import CstNs.
Definition ex := CstNsMain.Example.ex.
Definition opt := CstNsMain.Example.opt.
(* the same document without the trailing line feed *)
Definition ex' : doc :=
  {| d_before := d_before ex; d_ws0 := d_ws0 ex; d_root := d_root ex; d_after := d_after ex; d_ws_end := [] |}.

Ltac sizes :=
  first [ apply distinct_by_count;
          match goal with |- (length ?l <= _)%nat => let n := fresh "n" in let En := fresh "En" in
            remember (length l) as n eqn:En; vm_compute in En; subst n; lia end
        | vm_compute; reflexivity
        | vm_compute; intros H; discriminate H ].

Example nv_layout_insensitive_ns :
  wf_doc ex = true /\ wf_doc ex' = true /\ sem ex = sem ex' /\ render ex <> render ex'.
Proof. repeat split; try (vm_compute; reflexivity). vm_compute. discriminate. Qed.

Example nv_layout_insensitive_ns_applied :
  exists d1 d2, parse (render ex) opt = Ok d1 /\ parse (render ex') opt = Ok d2 /\
                view (render ex) d1 = view (render ex') d2.
Proof.
  apply layout_insensitive_ns.
  1-3: vm_compute; reflexivity.
  1: vm_compute; reflexivity.
  1-2: vm_compute; intros H; discriminate H.
  1-2: apply CstNsMain.distinct_by_count;
       match goal with |- (length ?l <= _)%nat => let n := fresh "n" in let En := fresh "En" in
         remember (length l) as n eqn:En; vm_compute in En; subst n; lia end.
  1-2: vm_compute; intros H; discriminate H.
Qed.

(* ns_violation_variant on <e a='1' p:a='2'/>-like violating documents of CstNsSanity.v *)
Example nv_ns_violation_variant :
  wf_syntax_ns bad4 = true /\ first_violation bad4 = Some (DupPrefix (b "p")).
Proof. split; vm_compute; reflexivity. Qed.

Example nv_ns_violation_variant_applied :
  exists e, parse (render bad4) CstNsSanity.opt = Err e /\ rule_error (DupPrefix (b "p")) e = true.
Proof.
  apply ns_violation_variant; [vm_compute; reflexivity|vm_compute; reflexivity|..];
    (assert (F : fits bad4 CstNsSanity.opt) by fits_tac); apply F.
Qed.
End Ns.

(* ---------------------------------------------------------------------------------------- *)
(* CstFull S1 / S3: two renderings with the same meaning                                      *)
(* ---------------------------------------------------------------------------------------- *)

Module Full.
Import CstFull.
Definition ex1 : S1.doc := CstFullS1.Example1.ex.
Definition ex1' : S1.doc :=
  {| d_before := d_before ex1; d_ws0 := d_ws0 ex1; d_root := d_root ex1; d_after := d_after ex1; d_ws_end := [] |}.

Example nv_layout_insensitive_full_s1 :
  S1.wf_doc ex1 = true /\ S1.wf_doc ex1' = true /\ S1.sem ex1 = S1.sem ex1' /\ S1.render ex1 <> S1.render ex1'.
Proof. repeat split; try (vm_compute; reflexivity). vm_compute. discriminate. Qed.

Definition ex3 : S3.doc := CstFullS3.Example3.ex.
Definition ex3' : S3.doc :=
  {| S3.x_ws0 := [10]; S3.x_before := S3.x_before ex3; S3.x_dtd := S3.x_dtd ex3; S3.x_main := S3.x_main ex3 |}.

Example nv_hoist_insensitive_full_s3 :
  S3.wf_doc ex3 = true /\ S3.wf_doc ex3' = true /\ S3.sem ex3 = S3.sem ex3' /\ S3.render ex3 <> S3.render ex3'.
Proof. repeat split; try (vm_compute; reflexivity). vm_compute. discriminate. Qed.
End Full.
