(* Proofs/CstSoundBuild.v -- C08 soundness on the Cst fragment, builder half: what the ACCEPTANCE of
   a token by the real callback [Parse.token] says, for the tokens of the fragment.
   [Sim c stk]: outside a tag, the chain of ancestors of the current parent carries the names [stk]
   (innermost first).  [InTag c stk name cur]: between ElementStart and ElementEnd.
   From acceptance we get: an end tag names the innermost open element, the attribute names of a
   start tag are pairwise distinct, nodes and attributes are only appended. *)
From Coq Require Import String.
From Coq Require Import List Arith NArith Bool Lia ZifyBool ZifyN ZifyNat.
Import ListNotations.
From RX Require Import Generated.
From RX.Model Require Import Base CharClass Stream Tokenizer Doc Builder Parse.
From RX.Proofs Require Import Tactics.
From RX.Proofs Require RejectProofs.
Open Scope N_scope.

Ltac ib H x Hx := apply bind_ok in H; destruct H as (x & Hx & H).
Ltac noerr :=
  exfalso;
  match goal with
  | H : err_at _ _ _ = Ok _ |- _ => exact (RejectProofs.err_at_ok _ _ _ _ H)
  | H : err_from _ _ _ = Ok _ |- _ => exact (RejectProofs.err_from_ok _ _ _ _ H)
  | H : Err _ = Ok _ |- _ => discriminate H
  | H : Panic _ = Ok _ |- _ => discriminate H
  | H : OutOfFuel = Ok _ |- _ => discriminate H
  end.

Definition row := (option N * node_kind)%type.
Definition rowof (nd : node_data) : row := (nd_parent nd, nd_kind nd).
Definition rows (c : context) : list row := map rowof (d_nodes (c_doc c)).
Definition attrs_of (c : context) : list attr_data := d_attrs (c_doc c).

Lemma bytes_eqb_true : forall x y, bytes_eqb x y = true -> x = y.
Proof.
  induction x as [|a x IH]; intros [|c y] H; cbn in H; try discriminate; auto.
  apply andb_true_iff in H. destruct H as [H1 H2]. f_equal; [lia|auto].
Qed.
Lemma bytes_eqb_neq x y : x <> y -> bytes_eqb x y = false.
Proof. intros H. destruct (bytes_eqb x y) eqn:E; [|reflexivity]. apply bytes_eqb_true in E. congruence. Qed.

Lemma nth_N_nth {A} (l : list A) i x : nth_N l i = Some x -> nth_error l (N.to_nat i) = Some x.
Proof. unfold nth_N. destruct (len_N l <=? i); [discriminate|auto]. Qed.

(* ---- node updates keep the rows ---- *)
Lemma list_upd_rows (f : node_data -> node_data) : (forall nd, rowof (f nd) = rowof nd) ->
  forall l i l', list_upd l i f = Some l' -> map rowof l' = map rowof l.
Proof.
  intros Hf. induction l as [|x l IH]; intros i l' H; cbn [list_upd] in H; [discriminate|].
  destruct i.
  - inversion H; subst. cbn [map]. rewrite Hf. reflexivity.
  - destruct (list_upd l i f) eqn:E; [|discriminate]. inversion H; subst. cbn [map]. rewrite (IH _ _ E). reflexivity.
Qed.

Lemma upd_node_rows nodes i f nodes' : (forall nd, rowof (f nd) = rowof nd) ->
  upd_node nodes i f = Ok nodes' -> map rowof nodes' = map rowof nodes.
Proof.
  intros Hf H. unfold upd_node in H. destruct (list_upd nodes (N.to_nat i) f) eqn:E; [|discriminate].
  inversion H; subst. eapply list_upd_rows; eauto.
Qed.

Lemma set_next_all_rows : forall ids nodes v nodes',
  set_next_subtree_all nodes ids v = Ok nodes' -> map rowof nodes' = map rowof nodes.
Proof.
  induction ids as [|i ids IH]; intros nodes v nodes' H; cbn [set_next_subtree_all] in H.
  - inversion H; reflexivity.
  - ib H n1 H1. rewrite (IH _ _ _ H). eapply upd_node_rows; [|exact H1]. intros nd; reflexivity.
Qed.

(* the fields of the context that the steps below talk about *)
Definition same_but_doc (c c' : context) : Prop :=
  c_parent_id c' = c_parent_id c /\ c_parent_prefixes c' = c_parent_prefixes c /\
  c_cur_attrs c' = c_cur_attrs c /\ c_after_text c' = c_after_text c /\ c_tag_name c' = c_tag_name c /\
  c_entities c' = c_entities c /\ c_opt c' = c_opt c.

Section Build.
Variable text : bytes.
Notation sb := (slice_bytes text).
Notation T := (Parse.token text).

Lemma append_node_inv kind r c id c' : append_node kind r c = Ok (id, c') ->
  rows c' = rows c ++ [(Some (c_parent_id c), kind)] /\ attrs_of c' = attrs_of c /\
  id = len_N (d_nodes (c_doc c)) /\
  c_parent_id c' = c_parent_id c /\ c_parent_prefixes c' = c_parent_prefixes c /\
  c_cur_attrs c' = c_cur_attrs c /\ c_after_text c' = c_after_text c /\ c_tag_name c' = c_tag_name c /\
  c_entities c' = c_entities c /\ c_opt c' = c_opt c.
Proof.
  unfold append_node. cbv zeta. intros H.
  destruct (nodes_limit (c_opt c) <=? len_N (d_nodes (c_doc c))); [noerr|].
  ib H nid Hn. unfold node_id_new in Hn. destruct (u32_max <=? _); [discriminate|]. inversion Hn; subst nid. clear Hn.
  ib H pnd Hp. ib H n1 H1. ib H n2 H2. ib H n3 H3. inversion H; subst. clear H.
  unfold rows, attrs_of. cbn [c_doc set_awaiting set_doc set_nodes d_nodes d_attrs c_parent_id c_parent_prefixes
                            c_cur_attrs c_after_text c_tag_name c_entities c_opt].
  rewrite (set_next_all_rows _ _ _ _ H3).
  eapply upd_node_rows in H2; [|intros; reflexivity]. eapply upd_node_rows in H1; [|intros; reflexivity].
  rewrite H2, H1, map_app. cbn [map rowof nd_parent nd_kind]. repeat split; reflexivity.
Qed.

(* ---- the chain of open elements ---- *)
Inductive chain (rs : list row) : N -> list bytes -> Prop :=
| ch_root id k : nth_error rs (N.to_nat id) = Some (None, k) -> chain rs id []
| ch_elem id par ns local ar nss stk :
    nth_error rs (N.to_nat id) = Some (Some par, KElement ns local ar nss) ->
    chain rs par stk -> chain rs id (sb local :: stk).

Lemma chain_app rs K : forall id stk, chain rs id stk -> chain (rs ++ K) id stk.
Proof.
  induction 1 as [id k H|id par ns local ar nss stk H _ IH].
  - eapply ch_root. rewrite nth_error_app1; [exact H|]. apply nth_error_Some. congruence.
  - eapply ch_elem; [|exact IH]. rewrite nth_error_app1; [exact H|]. apply nth_error_Some. congruence.
Qed.

Record Sim (c : context) (stk : list bytes) : Prop := {
  sm_chain : chain (rows c) (c_parent_id c) stk;
  sm_pp_len : length (c_parent_prefixes c) = S (length stk);
  sm_pp : Forall (fun s => sb s = []) (c_parent_prefixes c);
  sm_cur : c_cur_attrs c = [];
  sm_at : (length (c_after_text c) <= 1)%nat
}.

Record InTag (c : context) (stk : list bytes) (pfx name : slice) (cur : list bytes) : Prop := {
  it_chain : chain (rows c) (c_parent_id c) stk;
  it_pp_len : length (c_parent_prefixes c) = S (length stk);
  it_pp : Forall (fun s => sb s = []) (c_parent_prefixes c);
  it_tn : tn_prefix (c_tag_name c) = pfx /\ tn_name (c_tag_name c) = name;
  it_cur : map (fun a => sb (ta_local a)) (c_cur_attrs c) = cur;
  it_curp : Forall (fun a => sb (ta_prefix a) = []) (c_cur_attrs c);
  it_at : c_after_text c = []
}.

Lemma reset_after_text_small c c1 : (length (c_after_text c) <= 1)%nat -> reset_after_text text c = Ok c1 ->
  rows c1 = rows c /\ attrs_of c1 = attrs_of c /\ c_after_text c1 = [] /\
  c_parent_id c1 = c_parent_id c /\ c_parent_prefixes c1 = c_parent_prefixes c /\
  c_cur_attrs c1 = c_cur_attrs c /\ c_tag_name c1 = c_tag_name c /\ c_entities c1 = c_entities c /\
  c_opt c1 = c_opt c.
Proof.
  intros Hl H. unfold reset_after_text in H. destruct (c_after_text c) as [|x [|y r]] eqn:E.
  - inversion H; subst. rewrite E. repeat split.
  - inversion H; subst. repeat split.
  - cbn [length] in Hl. lia.
Qed.

(* ---- leaves ---- *)
Lemma leaf_step kind r c c' stk : Sim c stk -> is_element_kind kind = false ->
  (let! c1 := reset_after_text text c in let! (_, c2) := append_node kind r c1 in Ok c2) = Ok c' ->
  Sim c' stk /\ rows c' = rows c ++ [(Some (c_parent_id c), kind)] /\ attrs_of c' = attrs_of c /\
  c_after_text c' = [] /\ c_entities c' = c_entities c.
Proof.
  intros [S1 S2 S3 S4 S5] Hk H. ib H c1 H1. ib H q Hq. destruct q as [id c2]. inversion H; subst. clear H.
  destruct (reset_after_text_small _ _ S5 H1) as (R1 & R2 & R3 & R4 & R5 & R6 & R7 & R8 & R9).
  destruct (append_node_inv _ _ _ _ _ Hq) as (A1 & A2 & A3 & A4 & A5 & A6 & A7 & A8 & A9 & A10).
  split; [|rewrite A1, R1, R4, A2, R2, A7, R3, A9, R8; auto].
  constructor.
  - rewrite A1, A4, R1, R4. apply chain_app. exact S1.
  - rewrite A5, R5. exact S2.
  - rewrite A5, R5. exact S3.
  - rewrite A6, R6. exact S4.
  - rewrite A7, R3. cbn; lia.
Qed.

Lemma step_comment s r c c' stk : Sim c stk -> T (TComment s r) c = Ok c' ->
  Sim c' stk /\ rows c' = rows c ++ [(Some (c_parent_id c), KComment s)] /\ attrs_of c' = attrs_of c /\
  c_after_text c' = [] /\ c_entities c' = c_entities c.
Proof. intros HS H. eapply leaf_step; eauto. Qed.

Lemma step_pi t v r c c' stk : Sim c stk -> T (TPI t v r) c = Ok c' ->
  Sim c' stk /\ rows c' = rows c ++ [(Some (c_parent_id c), KPI t v)] /\ attrs_of c' = attrs_of c /\
  c_after_text c' = [] /\ c_entities c' = c_entities c.
Proof. intros HS H. eapply leaf_step; eauto. Qed.

Lemma step_text t r c c' stk : Sim c stk -> c_after_text c = [] ->
  existsb (fun x => (x =? 38) || (x =? 13)) (sb t) = false ->
  T (TText t r) c = Ok c' ->
  Sim c' stk /\ rows c' = rows c ++ [(Some (c_parent_id c), KText (Borrowed (SIn t)))] /\
  attrs_of c' = attrs_of c /\ c_entities c' = c_entities c.
Proof.
  intros [S1 S2 S3 S4 S5] Hat Hex H. unfold Parse.token, token_with, process_text, process_text_with in H.
  cbv zeta in H. rewrite Hex in H. cbn [negb] in H. unfold append_text in H. rewrite Hat in H.
  ib H c1 H1. ib H1 q Hq. destruct q as [id c2]. inversion H1; subst c2. inversion H; subst. clear H H1.
  destruct (append_node_inv _ _ _ _ _ Hq) as (A1 & A2 & A3 & A4 & A5 & A6 & A7 & A8 & A9 & A10).
  change (rows (set_after_text c1 (c_after_text c1 ++ [CowBorrowed t]))) with (rows c1).
  change (attrs_of (set_after_text c1 (c_after_text c1 ++ [CowBorrowed t]))) with (attrs_of c1).
  change (c_entities (set_after_text c1 (c_after_text c1 ++ [CowBorrowed t]))) with (c_entities c1).
  split; [|auto]. constructor.
  - change (chain (rows c1) (c_parent_id c1) stk). rewrite A1, A4. apply chain_app. exact S1.
  - change (length (c_parent_prefixes c1) = S (length stk)). rewrite A5. exact S2.
  - change (Forall (fun s => sb s = []) (c_parent_prefixes c1)). rewrite A5. exact S3.
  - change (c_cur_attrs c1 = []). rewrite A6. exact S4.
  - change ((length (c_after_text c1 ++ [CowBorrowed t]) <= 1)%nat). rewrite A7, Hat. cbn. lia.
Qed.

(* ---- start tags ---- *)
Lemma step_start pfx loc st0 c c' stk : Sim c stk -> sb pfx = [] ->
  T (TElementStart pfx loc st0) c = Ok c' ->
  InTag c' stk pfx loc [] /\ rows c' = rows c /\ attrs_of c' = attrs_of c /\ c_entities c' = c_entities c.
Proof.
  intros [S1 S2 S3 S4 S5] Hp H. cbn [Parse.token token_with] in H. ib H c1 H1.
  destruct (reset_after_text_small _ _ S5 H1) as (R1 & R2 & R3 & R4 & R5 & R6 & R7 & R8 & R9).
  rewrite Hp in H. cbn in H. inversion H; subst. clear H.
  match goal with |- InTag (set_tag_name c1 ?tn) _ _ _ _ /\ _ => set (tnv := tn) end.
  change (rows (set_tag_name c1 tnv)) with (rows c1).
  change (attrs_of (set_tag_name c1 tnv)) with (attrs_of c1).
  change (c_entities (set_tag_name c1 tnv)) with (c_entities c1).
  split; [|auto]. constructor.
  - change (chain (rows c1) (c_parent_id c1) stk). rewrite R1, R4. exact S1.
  - change (length (c_parent_prefixes c1) = S (length stk)). rewrite R5. exact S2.
  - change (Forall (fun s => sb s = []) (c_parent_prefixes c1)). rewrite R5. exact S3.
  - split; reflexivity.
  - change (map (fun a => sb (ta_local a)) (c_cur_attrs c1) = []). rewrite R6, S4. reflexivity.
  - change (Forall (fun a => sb (ta_prefix a) = []) (c_cur_attrs c1)). rewrite R6, S4. constructor.
  - exact R3.
Qed.

Definition xmlns_bytes : bytes := [120; 109; 108; 110; 115].

Lemma step_attr r ql el pfx loc v c c' stk tp tn cur : InTag c stk tp tn cur -> sb pfx = [] ->
  sb loc <> xmlns_bytes ->
  T (TAttribute r ql el pfx loc v) c = Ok c' ->
  InTag c' stk tp tn (cur ++ [sb loc]) /\ rows c' = rows c /\ attrs_of c' = attrs_of c /\
  c_entities c' = c_entities c /\
  exists ta, c_cur_attrs c' = c_cur_attrs c ++ [ta] /\
    (ta_value ta = Borrowed (SIn v) /\
     existsb (fun x => (x =? 38) || (x =? 9) || (x =? 10) || (x =? 13)) (sb v) = false \/
     (exists bs, ta_value ta = Owned bs)).
Proof.
  intros [I1 I2 I3 I4 I5 I6 I7] Hp Hl H. cbn [Parse.token token_with] in H. unfold process_attribute in H.
  ib H q Hq. destruct q as [val c1]. cbv zeta in H. rewrite Hp in H.
  change (bytes_eqb [] xmlns_str) with false in H. cbv iota in H.
  change xmlns_str with xmlns_bytes in H. rewrite (bytes_eqb_neq _ _ Hl), andb_false_r in H.
  inversion H; subst. clear H.
  assert (N1 : (c1 = c \/ exists ld, c1 = set_ld c ld) /\
               (val = Borrowed (SIn v) /\
                existsb (fun x => (x =? 38) || (x =? 9) || (x =? 10) || (x =? 13)) (sb v) = false \/
                (exists bs, val = Owned bs))).
  { unfold normalize_attribute in Hq. cbv zeta in Hq.
    destruct (existsb _ (sb v)) eqn:Ee.
    - ib Hq q2 Hq2. destruct q2 as [t ld]. ib Hq bs Hbs. inversion Hq; subst. split; [right; eauto|right; eauto].
    - inversion Hq; subst. split; [left; reflexivity|left; split; [reflexivity|first [exact Ee|reflexivity]]]. }
  destruct N1 as (Hc1 & Hval).
  assert (E : rows c1 = rows c /\ attrs_of c1 = attrs_of c /\ c_parent_id c1 = c_parent_id c /\
              c_parent_prefixes c1 = c_parent_prefixes c /\ c_tag_name c1 = c_tag_name c /\
              c_cur_attrs c1 = c_cur_attrs c /\ c_after_text c1 = c_after_text c /\ c_entities c1 = c_entities c).
  { destruct Hc1 as [->|[ld ->]]; repeat split. }
  destruct E as (E1 & E2 & E3 & E4 & E5 & E6 & E7 & E8).
  match goal with |- InTag (set_cur_attrs c1 ?l) _ _ _ _ /\ _ => set (lv := l) end.
  change (rows (set_cur_attrs c1 lv)) with (rows c1).
  change (attrs_of (set_cur_attrs c1 lv)) with (attrs_of c1).
  change (c_entities (set_cur_attrs c1 lv)) with (c_entities c1).
  change (c_cur_attrs (set_cur_attrs c1 lv)) with lv.
  split; [|split; [exact E1|split; [exact E2|split; [exact E8|]]]].
  - constructor.
    + change (chain (rows c1) (c_parent_id c1) stk). rewrite E1, E3. exact I1.
    + change (length (c_parent_prefixes c1) = S (length stk)). rewrite E4. exact I2.
    + change (Forall (fun s => sb s = []) (c_parent_prefixes c1)). rewrite E4. exact I3.
    + cbn [c_tag_name set_cur_attrs]. rewrite E5. first [exact I4 | split; reflexivity].
    + cbn [c_cur_attrs set_cur_attrs]. unfold lv. rewrite map_app, E6. first [rewrite I5; reflexivity | reflexivity].
    + change (Forall (fun a => sb (ta_prefix a) = []) lv). unfold lv. rewrite E6.
      apply Forall_app. split; [exact I6|]. constructor; [exact Hp|constructor].
    + change (c_after_text c1 = []). rewrite E7. exact I7.
  - eexists. split; [unfold lv; rewrite E6; reflexivity|]. cbn [ta_value]. exact Hval.
Qed.

(* ---- the end of a start tag: attributes are resolved, the element node is appended ---- *)
Definition ad_of (ns : option N) (a : temp_attr) : attr_data :=
  {| ad_ns_idx := ns; ad_local := ta_local a; ad_value := ta_value a; ad_range := ta_range a;
     ad_qname_len := ta_qname_len a; ad_eq_len := ta_eq_len a |}.

Lemma bytes_eqb_same : forall x, bytes_eqb x x = true.
Proof. induction x as [|a x IH]; cbn; [reflexivity|]. rewrite N.eqb_refl, IH. reflexivity. Qed.

Notation names_ad := (map (fun a => sb (ad_local a))).
Notation names_ta := (map (fun a => sb (ta_local a))).

Lemma any_same_name_hit d nm : forall L, Forall (fun a => ad_ns_idx a = None) L ->
  In nm (names_ad L) -> any_same_name text d L (None, nm) = Ok true.
Proof.
  induction L as [|a L IH]; intros HF Hin; [destruct Hin|].
  inversion HF as [|? ? Ha HL]; subst. cbn [any_same_name]. unfold attr_expanded_name. rewrite Ha.
  cbn [bind fst snd opt_str_eqb andb].
  destruct (bytes_eqb (sb (ad_local a)) nm) eqn:E; [reflexivity|].
  destruct Hin as [Hin|Hin]; [cbv beta in Hin; subst nm; rewrite bytes_eqb_same in E; discriminate|].
  apply IH; assumption.
Qed.

Lemma resolve_attrs_loop_inv nss start : forall l d d',
  Forall (fun a => sb (ta_prefix a) = []) l ->
  (N.to_nat start <= length (d_attrs d))%nat ->
  Forall (fun a => ad_ns_idx a = None) (skipn (N.to_nat start) (d_attrs d)) ->
  resolve_attrs_loop text nss start l d = Ok d' ->
  d_attrs d' = d_attrs d ++ map (ad_of None) l /\ d_nodes d' = d_nodes d /\
  (forall nm, In nm (names_ta l) -> ~ In nm (names_ad (skipn (N.to_nat start) (d_attrs d)))) /\
  NoDup (names_ta l).
Proof.
  induction l as [|a l IH]; intros d d' Hp Hs Hn H; cbn [resolve_attrs_loop] in H.
  - inversion H; subst. cbn [map]. rewrite app_nil_r. repeat split; [intros nm []|constructor].
  - inversion Hp as [|? ? Hpa Hpl]; subst. cbv zeta in H. rewrite Hpa in H.
    change (bytes_eqb [] ns_xml_prefix) with false in H. cbv iota in H. cbn [bind] in H.
    unfold attr_expanded_name at 1 in H. cbn [bind] in H.
    ib H dup Hd. destruct dup; [noerr|].
    set (ad := {| ad_ns_idx := None; ad_local := ta_local a; ad_value := ta_value a; ad_range := ta_range a;
                  ad_qname_len := ta_qname_len a; ad_eq_len := ta_eq_len a |}) in *.
    assert (Hsk : skipn (N.to_nat start) (d_attrs d ++ [ad]) = skipn (N.to_nat start) (d_attrs d) ++ [ad]).
    { rewrite skipn_app. replace (N.to_nat start - length (d_attrs d))%nat with 0%nat by lia. reflexivity. }
    destruct (IH (set_attrs d (d_attrs d ++ [ad])) d' Hpl) as (A1 & A2 & A3 & A4).
    { cbn [set_attrs d_attrs]. rewrite app_length. lia. }
    { cbn [set_attrs d_attrs]. rewrite Hsk. apply Forall_app. split; [exact Hn|]. constructor; [reflexivity|constructor]. }
    { exact H. }
    cbn [set_attrs d_attrs d_nodes] in A1, A2, A3. rewrite Hsk in A3.
    assert (Hnew : ~ In (sb (ta_local a)) (names_ad (skipn (N.to_nat start) (d_attrs d)))).
    { intros Hin. rewrite (any_same_name_hit d _ _ Hn Hin) in Hd. discriminate. }
    split; [rewrite A1, <- app_assoc; reflexivity|]. split; [exact A2|]. split.
    + intros nm [<-|Hin]; [exact Hnew|]. intros Hb. apply (A3 nm Hin). rewrite map_app. apply in_or_app. left. exact Hb.
    + cbn [map]. constructor; [|exact A4]. intros Hin. apply (A3 _ Hin). rewrite map_app. apply in_or_app.
      right. left. reflexivity.
Qed.

Lemma resolve_attributes_inv nss c r c' : Forall (fun a => sb (ta_prefix a) = []) (c_cur_attrs c) ->
  resolve_attributes text nss c = Ok (r, c') ->
  attrs_of c' = attrs_of c ++ map (ad_of None) (c_cur_attrs c) /\ rows c' = rows c /\
  NoDup (names_ta (c_cur_attrs c)) /\ c_cur_attrs c' = [] /\
  c_parent_id c' = c_parent_id c /\ c_parent_prefixes c' = c_parent_prefixes c /\
  c_tag_name c' = c_tag_name c /\ c_after_text c' = c_after_text c /\ c_entities c' = c_entities c.
Proof.
  intros Hp H. unfold resolve_attributes in H. destruct (c_cur_attrs c) as [|a l] eqn:E.
  { inversion H; subst. unfold attrs_of. cbn [map]. rewrite app_nil_r. repeat split; auto. constructor. }
  cbv zeta in H. destruct (u32_max <=? _); [noerr|]. ib H d' Hd. ib H r0 Hr. inversion H; subst. clear H.
  cbn [c_doc set_cur_attrs] in Hd.
  assert (L1 : (N.to_nat (len_N (d_attrs (c_doc c))) <= length (d_attrs (c_doc c)))%nat) by (unfold len_N; lia).
  assert (L2 : Forall (fun a => ad_ns_idx a = None) (skipn (N.to_nat (len_N (d_attrs (c_doc c)))) (d_attrs (c_doc c)))).
  { unfold len_N. rewrite Nat2N.id, skipn_all. constructor. }
  destruct (resolve_attrs_loop_inv _ _ _ _ _ Hp L1 L2 Hd) as (A1 & A2 & _ & A4).
  unfold attrs_of, rows. cbn [c_doc set_doc set_cur_attrs c_cur_attrs c_parent_id c_parent_prefixes c_tag_name
                             c_after_text c_entities].
  rewrite A1, A2. repeat split; auto.
Qed.

Lemma push_ref_keep i d d' : push_ref i d = Ok d' -> d_nodes d' = d_nodes d /\ d_attrs d' = d_attrs d.
Proof. unfold push_ref. destruct (nth_N _ _); intros H; inversion H; split; reflexivity. Qed.

Lemma resolve_ns_loop_keep st0 : forall is d d', resolve_ns_loop text st0 is d = Ok d' ->
  d_nodes d' = d_nodes d /\ d_attrs d' = d_attrs d.
Proof.
  induction is as [|i is IH]; intros d d' H; cbn [resolve_ns_loop] in H.
  - inversion H; split; reflexivity.
  - ib H v Hv. ib H nm Hn. ib H exb He. ib H d1 Hd. destruct (IH _ _ H) as (A & B). rewrite A, B.
    destruct exb; [inversion Hd; split; reflexivity|eapply push_ref_keep; eauto].
Qed.

Lemma resolve_namespaces_inv c r c' : resolve_namespaces text c = Ok (r, c') ->
  rows c' = rows c /\ attrs_of c' = attrs_of c /\ c_cur_attrs c' = c_cur_attrs c /\
  c_parent_id c' = c_parent_id c /\ c_parent_prefixes c' = c_parent_prefixes c /\
  c_tag_name c' = c_tag_name c /\ c_after_text c' = c_after_text c /\ c_entities c' = c_entities c.
Proof.
  unfold resolve_namespaces. intros H. ib H pnd Hp.
  destruct (nd_kind pnd).
  2:{ destruct (c_ns_start_idx c =? len_N (d_ns_tree (c_doc c))).
      - inversion H; subst. repeat split.
      - destruct nss as [pa pe]. ib H d Hd. ib H r0 Hr. inversion H; subst.
        destruct (resolve_ns_loop_keep _ _ _ _ Hd) as (A & B).
        unfold rows, attrs_of. cbn [c_doc set_doc]. rewrite A, B. repeat split. }
  all: ib H r0 Hr; inversion H; subst; repeat split.
Qed.

(* ElementEnd Open / Empty *)
Lemma step_tagend e r c c' stk tp tn cur : InTag c stk tp tn cur -> sb tp = [] ->
  (e = EOpen \/ e = EEmpty) ->
  T (TElementEnd e r) c = Ok c' ->
  NoDup cur /\
  Sim c' (match e with EOpen => sb tn :: stk | _ => stk end) /\
  (exists ns ar nss, rows c' = rows c ++ [(Some (c_parent_id c), KElement ns tn ar nss)]) /\
  attrs_of c' = attrs_of c ++ map (ad_of None) (c_cur_attrs c) /\
  c_after_text c' = [] /\ c_entities c' = c_entities c.
Proof.
  intros [I1 I2 I3 [I4a I4b] I5 I6 I7] Htp He H. cbn [Parse.token token_with] in H. ib H c0 H0.
  destruct (reset_after_text_small _ _ ltac:(rewrite I7; cbn; lia) H0) as (R1 & R2 & R3 & R4 & R5 & R6 & R7 & R8 & R9).
  unfold process_element in H.
  destruct (slice_len (tn_name (c_tag_name c0)) =? 0); [destruct He as [-> | ->]; noerr|].
  ib H q1 H1. destruct q1 as [nss c1].
  destruct (resolve_namespaces_inv _ _ _ H1) as (N1 & N2 & N3 & N4 & N5 & N6 & N7 & N8).
  ib H q2 H2. destruct q2 as [ar c2].
  assert (Hcp : Forall (fun a => sb (ta_prefix a) = []) (c_cur_attrs (set_ns_start_idx c1 (len_N (d_ns_tree (c_doc c1)))))).
  { cbn [c_cur_attrs set_ns_start_idx]. rewrite N3, R6. exact I6. }
  destruct (resolve_attributes_inv _ _ _ _ Hcp H2) as (A1 & A2 & A3 & A4 & A5 & A6 & A7 & A8 & A9).
  cbn [c_cur_attrs set_ns_start_idx c_parent_id c_parent_prefixes c_tag_name c_after_text c_entities] in A3, A5, A6, A7, A8, A9.
  change (attrs_of (set_ns_start_idx c1 (len_N (d_ns_tree (c_doc c1))))) with (attrs_of c1) in A1.
  change (rows (set_ns_start_idx c1 (len_N (d_ns_tree (c_doc c1))))) with (rows c1) in A2.
  change (c_cur_attrs (set_ns_start_idx c1 (len_N (d_ns_tree (c_doc c1))))) with (c_cur_attrs c1) in A1.
  cbv zeta in H.
  assert (Hnd : NoDup cur). { rewrite <- I5, <- R6, <- N3. exact A3. }
  split; [exact Hnd|].
  assert (Etn : c_tag_name c2 = c_tag_name c) by (rewrite A7, N6, R7; reflexivity).
  assert (Epid : c_parent_id c2 = c_parent_id c) by (rewrite A5, N4, R4; reflexivity).
  assert (Epp : c_parent_prefixes c2 = c_parent_prefixes c) by (rewrite A6, N5, R5; reflexivity).
  assert (Erows : rows c2 = rows c) by (rewrite A2, N1, R1; reflexivity).
  assert (Eattrs : attrs_of c2 = attrs_of c ++ map (ad_of None) (c_cur_attrs c)) by (rewrite A1, N2, R2, N3, R6; reflexivity).
  assert (Eat : c_after_text c2 = []) by (rewrite A8, N7; exact R3).
  assert (Eent : c_entities c2 = c_entities c) by (rewrite A9, N8, R8; reflexivity).
  destruct He as [-> | ->].
  - (* EOpen *)
    ib H idx Hidx. ib H q3 H3. destruct q3 as [nid c3]. injection H as <-.
    destruct (append_node_inv _ _ _ _ _ H3) as (B1 & B2 & B3 & B4 & B5 & B6 & B7 & B8 & B9 & B10).
    match goal with |- Sim ?cc _ /\ _ => change (rows cc) with (rows c3); change (attrs_of cc) with (attrs_of c3);
      change (c_after_text cc) with (c_after_text c3); change (c_entities cc) with (c_entities c3) end.
    rewrite Etn, I4b in B1. rewrite Epid, Erows in B1.
    split; [|split; [eauto|split; [rewrite B2; exact Eattrs|split; [rewrite B7; exact Eat|rewrite B9; exact Eent]]]].
    constructor.
    + match goal with |- chain (rows ?cc) _ _ => change (rows cc) with (rows c3) end.
      cbn [c_parent_id set_parent_prefixes set_parent_id].
      assert (Hnid : N.to_nat nid = length (rows c)).
      { rewrite B3. unfold len_N. rewrite <- Erows. unfold rows. rewrite map_length. lia. }
      rewrite B1. eapply ch_elem; [|apply chain_app; exact I1].
      rewrite nth_error_app2 by lia. rewrite Hnid, Nat.sub_diag. reflexivity.
    + cbn [c_parent_prefixes set_parent_prefixes]. rewrite app_length, B5, Epp, I2. cbn. lia.
    + cbn [c_parent_prefixes set_parent_prefixes]. apply Forall_app. split; [rewrite B5, Epp; exact I3|].
      constructor; [rewrite Etn, I4a; exact Htp|constructor].
    + cbn [c_cur_attrs set_parent_prefixes set_parent_id]. rewrite B6. exact A4.
    + cbn [c_after_text set_parent_prefixes set_parent_id]. rewrite B7, Eat. cbn. lia.
  - (* EEmpty *)
    ib H idx Hidx. ib H q3 H3. destruct q3 as [nid c3]. injection H as <-.
    destruct (append_node_inv _ _ _ _ _ H3) as (B1 & B2 & B3 & B4 & B5 & B6 & B7 & B8 & B9 & B10).
    match goal with |- Sim ?cc _ /\ _ => change (rows cc) with (rows c3); change (attrs_of cc) with (attrs_of c3);
      change (c_after_text cc) with (c_after_text c3); change (c_entities cc) with (c_entities c3) end.
    rewrite Etn, I4b in B1. rewrite Epid, Erows in B1.
    split; [|split; [eauto|split; [rewrite B2; exact Eattrs|split; [rewrite B7; exact Eat|rewrite B9; exact Eent]]]].
    constructor.
    + cbn [c_parent_id set_awaiting]. change (rows (set_awaiting c3 _)) with (rows c3).
      rewrite B1, B4, Epid. apply chain_app. exact I1.
    + cbn [c_parent_prefixes set_awaiting]. rewrite B5, Epp. exact I2.
    + cbn [c_parent_prefixes set_awaiting]. rewrite B5, Epp. exact I3.
    + cbn [c_cur_attrs set_awaiting]. rewrite B6. exact A4.
    + cbn [c_after_text set_awaiting]. rewrite B7, Eat. cbn. lia.
Qed.

Lemma Forall_removelast {A} (Q : A -> Prop) : forall l, Forall Q l -> Forall Q (removelast l).
Proof.
  induction l as [|x l IH]; intros H; cbn [removelast]; [constructor|].
  inversion H; subst. destruct l; [constructor|]. constructor; auto.
Qed.

Lemma removelast_length {A} : forall (l : list A), l <> [] -> length (removelast l) = pred (length l).
Proof.
  induction l as [|x l IH]; intros H; [congruence|]. cbn [removelast]. destruct l as [|y l]; [reflexivity|].
  cbn [length]. rewrite IH by discriminate. reflexivity.
Qed.

(* ElementEnd Close *)
Lemma step_close pfx loc r c c' stk : Sim c stk -> sb pfx = [] ->
  T (TElementEnd (EClose pfx loc) r) c = Ok c' ->
  exists stk', stk = sb loc :: stk' /\ Sim c' stk' /\ rows c' = rows c /\ attrs_of c' = attrs_of c /\
               c_after_text c' = [] /\ c_entities c' = c_entities c.
Proof.
  intros [S1 S2 S3 S4 S5] Hp H. cbn [Parse.token token_with] in H. ib H c0 H0.
  destruct (reset_after_text_small _ _ S5 H0) as (R1 & R2 & R3 & R4 & R5 & R6 & R7 & R8 & R9).
  unfold process_element in H.
  destruct (slice_len (tn_name (c_tag_name c0)) =? 0); [noerr|].
  ib H q1 H1. destruct q1 as [nss c1].
  destruct (resolve_namespaces_inv _ _ _ H1) as (N1 & N2 & N3 & N4 & N5 & N6 & N7 & N8).
  ib H q2 H2. destruct q2 as [ar c2].
  unfold resolve_attributes in H2. cbn [c_cur_attrs set_ns_start_idx] in H2. rewrite N3, R6, S4 in H2.
  inversion H2; subst ar c2. clear H2. cbv zeta in H.
  cbn [c_parent_prefixes c_entity_floor set_ns_start_idx c_doc c_parent_id] in H.
  destruct (len_N (c_parent_prefixes c1) <=? c_entity_floor c1); [noerr|].
  ib H pnd Hpn. destruct (nth_N (d_nodes (c_doc c1)) (c_parent_id c1)) as [pnd'|] eqn:En; [|discriminate].
  inversion Hpn; subst pnd'. clear Hpn.
  ib H ppref Hpp. destruct (rev (c_parent_prefixes c1)) as [|lastp rp] eqn:Er; [discriminate|].
  inversion Hpp; subst lastp. clear Hpp.
  ib H nodes' Hn. ib H u Hu.
  (* the parent row *)
  apply nth_N_nth in En.
  assert (Erow : nth_error (rows c) (N.to_nat (c_parent_id c)) = Some (rowof pnd)).
  { rewrite <- R1, <- N1, <- R4, <- N4. unfold rows. rewrite nth_error_map, En. reflexivity. }
  eapply upd_node_rows in Hn; [|intros; reflexivity].
  inversion S1 as [id k Hk|id par ns0 local ar0 nss0 stk' Hk Hch]; subst.
  { (* the parent is the root: its parent is None *)
    rewrite Erow in Hk. inversion Hk as [[Hpar Hkind]]. unfold rowof in *. rewrite Hpar in H.
    cbn [set_awaiting set_doc] in H. noerr. }
  rewrite Erow in Hk. inversion Hk as [[Hpar Hkind]]. rewrite Hkind in Hu. rewrite Hpar in H.
  destruct (negb (bytes_eqb (sb pfx) (sb ppref)) || negb (bytes_eqb (sb loc) (sb local))) eqn:Ech; [noerr|].
  apply orb_false_iff in Ech. destruct Ech as [_ Ech]. apply negb_false_iff in Ech. apply bytes_eqb_true in Ech.
  cbn [c_parent_prefixes set_awaiting set_doc set_ns_start_idx] in H.
  destruct (removelast (c_parent_prefixes c1)) as [|p0 pr] eqn:Erl; [discriminate|].
  inversion H; subst c'. clear H.
  exists stk'. split; [rewrite Ech; reflexivity|].
  assert (Epp : c_parent_prefixes c1 = c_parent_prefixes c) by (rewrite N5, R5; reflexivity).
  assert (Hne : c_parent_prefixes c <> []) by (destruct (c_parent_prefixes c); [cbn in S2; lia|discriminate]).
  split; [|split; [|split; [|split]]].
  - constructor.
    + cbn [c_parent_id set_parent_prefixes set_parent_id].
      match goal with |- chain (rows ?cc) _ _ => change (rows cc) with (map rowof nodes') end.
      rewrite Hn. fold (rows c1). rewrite N1, R1. exact Hch.
    + cbn [c_parent_prefixes set_parent_prefixes]. rewrite <- Erl, Epp, removelast_length by exact Hne.
      rewrite S2. reflexivity.
    + cbn [c_parent_prefixes set_parent_prefixes]. rewrite <- Erl, Epp. apply Forall_removelast. exact S3.
    + cbn [c_cur_attrs set_parent_prefixes set_parent_id set_awaiting set_doc set_ns_start_idx]. rewrite N3, R6. exact S4.
    + cbn [c_after_text set_parent_prefixes set_parent_id set_awaiting set_doc set_ns_start_idx]. rewrite N7, R3. cbn. lia.
  - match goal with |- rows ?cc = _ => change (rows cc) with (map rowof nodes') end.
    rewrite Hn. fold (rows c1). rewrite N1, R1. reflexivity.
  - match goal with |- attrs_of ?cc = _ => change (attrs_of cc) with (attrs_of c1) end. rewrite N2, R2. reflexivity.
  - cbn [c_after_text set_parent_prefixes set_parent_id set_awaiting set_doc set_ns_start_idx]. rewrite N7. exact R3.
  - cbn [c_entities set_parent_prefixes set_parent_id set_awaiting set_doc set_ns_start_idx]. rewrite N8. exact R8.
Qed.

End Build.
