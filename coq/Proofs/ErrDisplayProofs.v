(* Proofs/ErrDisplayProofs.v -- C10 ("Display implementations are total") / C14 ("Display output") for
   [impl Display for Error] as modelled by Model/ErrDisplay.v on the format table regenerated from
   the source (GeneratedDisplay.v):
   (a) every variant has a row in the table and every placeholder of the row refers to an existing
       field of the right kind;
   (b) the message of a variant with a position mentions it exactly once, as row:col, and nothing
       else in the message depends on it; the message of a variant without a position is a literal;
   (c) the position can be read back from the text: decimal numbers are non-empty digit strings
       and determine the number;
   (d) the names carried by an error stand between quotes in its message;
   (e) no message is empty. *)
From Coq Require Import Ascii String Decimal DecimalN DecimalPos.
From Coq Require Import List NArith PeanoNat Bool Lia.
Import ListNotations.
From RX Require Import GeneratedDisplay.
From RX.Model Require Import Base ErrDisplay.
From RX.Proofs Require ErrShiftBase.
Open Scope N_scope.

Notation has_pos := ErrShiftBase.has_pos.

(* ------------------------------------------------------------------------------------------ *)
(* (a) the table is complete                                                                  *)
(* ------------------------------------------------------------------------------------------ *)
Theorem display_table_complete : forall e,
  exists ps, dlookup (error_name e) display_table = Some ps /\ pieces_fit ps (error_fields e) = true.
Proof. intros e. destruct e; eexists; split; reflexivity. Qed.
Print Assumptions display_table_complete.

(* so the message is the concatenation of the pieces of the row, none of them skipped *)
Corollary display_row : forall e, exists ps,
  dlookup (error_name e) display_table = Some ps /\ error_display e = show_pieces (error_fields e) ps /\
  pieces_fit ps (error_fields e) = true.
Proof.
  intros e. destruct (display_table_complete e) as (ps & E & F). exists ps. unfold error_display. rewrite E. auto.
Qed.

(* the table has no second row for a name: the names of the rows are pairwise distinct *)
Lemma display_table_names_distinct : NoDup (map fst display_table).
Proof.
  assert (G : forall l : list string, (fix nd (l : list string) : bool :=
             match l with [] => true | x :: r => negb (existsb (String.eqb x) r) && nd r end) l = true -> NoDup l).
  { induction l as [|x r IH]; intros H; [constructor|]. apply andb_true_iff in H. destruct H as [H1 H2].
    constructor; [|apply IH; exact H2]. intros Hin. apply negb_true_iff in H1.
    assert (X : existsb (String.eqb x) r = true) by (apply existsb_exists; exists x; split; [exact Hin|apply String.eqb_refl]).
    congruence. }
  apply G. vm_compute. reflexivity.
Qed.

(* ------------------------------------------------------------------------------------------ *)
(* (b) the position                                                                           *)
(* ------------------------------------------------------------------------------------------ *)
(* the same variant with the same payload at another position *)
Definition set_pos (e : error) (z : textpos) : error :=
  match e with
  | InvalidXmlPrefixUri _ => InvalidXmlPrefixUri z
  | UnexpectedXmlUri _ => UnexpectedXmlUri z
  | UnexpectedXmlnsUri _ => UnexpectedXmlnsUri z
  | InvalidElementNamePrefix _ => InvalidElementNamePrefix z
  | DuplicatedNamespace s _ => DuplicatedNamespace s z
  | UnknownNamespace s _ => UnknownNamespace s z
  | UnexpectedCloseTag x a _ => UnexpectedCloseTag x a z
  | UnexpectedEntityCloseTag _ => UnexpectedEntityCloseTag z
  | UnknownEntityReference s _ => UnknownEntityReference s z
  | MalformedEntityReference _ => MalformedEntityReference z
  | EntityReferenceLoop _ => EntityReferenceLoop z
  | InvalidAttributeValue _ => InvalidAttributeValue z
  | DuplicatedAttribute s _ => DuplicatedAttribute s z
  | UnexpectedDeclaration _ => UnexpectedDeclaration z
  | InvalidName _ => InvalidName z
  | NonXmlChar c _ => NonXmlChar c z
  | InvalidChar x a _ => InvalidChar x a z
  | InvalidChar2 x a _ => InvalidChar2 x a z
  | InvalidString x _ => InvalidString x z
  | InvalidExternalID _ => InvalidExternalID z
  | InvalidComment _ => InvalidComment z
  | InvalidCharacterData _ => InvalidCharacterData z
  | UnknownToken _ => UnknownToken z
  | NoRootNode | UnclosedRootNode | DtdDetected | NodesLimitReached
  | AttributesLimitReached | NamespacesLimitReached | UnexpectedEndOfStream => e
  end.

Lemma set_pos_same e : set_pos e (error_pos e) = e.
Proof. destruct e; reflexivity. Qed.
Lemma set_pos_pos e z : has_pos e = true -> error_pos (set_pos e z) = z.
Proof. destruct e; try discriminate; reflexivity. Qed.
Lemma set_pos_kind e z : ErrShiftBase.err_kind (set_pos e z) = ErrShiftBase.err_kind e.
Proof. destruct e; reflexivity. Qed.
Lemma err_kind_set_pos e : ErrShiftBase.err_kind e = set_pos e (0, 0).
Proof. destruct e; reflexivity. Qed.

(* the pieces of a row before and after the first placeholder that prints a position *)
Fixpoint split_pos (fs : list dfield) (ps : list dpiece) : list dpiece * list dpiece :=
  match ps with
  | [] => ([], [])
  | pc :: r =>
    match pc with
    | DArg i false =>
      match nth_error fs i with
      | Some (FPos _) => ([], r)
      | _ => let x := split_pos fs r in (pc :: fst x, snd x)
      end
    | _ => let x := split_pos fs r in (pc :: fst x, snd x)
    end
  end.
Definition row_of (e : error) : list dpiece :=
  match dlookup (error_name e) display_table with Some ps => ps | None => [] end.
Definition msg_pre (e : error) : bytes := show_pieces (error_fields e) (fst (split_pos (error_fields e) (row_of e))).
Definition msg_post (e : error) : bytes := show_pieces (error_fields e) (snd (split_pos (error_fields e) (row_of e))).

Theorem display_pos : forall e, has_pos e = true ->
  exists pre post, forall p', error_display (set_pos e p') = pre ++ show_pos p' ++ post.
Proof.
  intros e H. exists (msg_pre e), (msg_post e). intros p'.
  destruct e; try discriminate H; unfold error_display, msg_pre, msg_post, row_of;
    cbn -[show_pos show_char_debug show_byte_as_char Base.b]; rewrite <- ?app_assoc; cbn [app]; reflexivity.
Qed.
Print Assumptions display_pos.

(* ... and neither part mentions a position: in the text before and after it there is no
   placeholder that prints one *)
Lemma display_pos_once : forall e, has_pos e = true ->
  forallb (fun pc => match pc with
                     | DArg i false => match nth_error (error_fields e) i with Some (FPos _) => false | _ => true end
                     | _ => true end)
          (fst (split_pos (error_fields e) (row_of e)) ++ snd (split_pos (error_fields e) (row_of e))) = true /\
  exists i p, row_of e = fst (split_pos (error_fields e) (row_of e)) ++ DArg i false :: snd (split_pos (error_fields e) (row_of e)) /\
              nth_error (error_fields e) i = Some (FPos p) /\ p = error_pos e.
Proof.
  intros e H. destruct e; try discriminate H; (split; [reflexivity|]); eexists; eexists; (split; [reflexivity|split; reflexivity]).
Qed.

Theorem display_positionless : forall e, has_pos e = false ->
  exists s, dlookup (error_name e) display_table = Some [DLit s] /\ error_display e = b s.
Proof.
  intros e H. destruct e; try discriminate H; eexists; (split; [reflexivity|]); unfold error_display; cbn -[Base.b];
    rewrite app_nil_r; reflexivity.
Qed.
Print Assumptions display_positionless.

(* ------------------------------------------------------------------------------------------ *)
(* (c) numbers and positions can be read back                                                 *)
(* ------------------------------------------------------------------------------------------ *)
Definition is_digit (x : N) : bool := (48 <=? x) && (x <=? 57).

Lemma dec_digits_digits u : forallb is_digit (dec_digits u) = true.
Proof. induction u; cbn [dec_digits forallb]; rewrite ?IHu; reflexivity. Qed.

Lemma dec_digits_nil u : dec_digits u = [] -> u = Nil.
Proof. destruct u; cbn [dec_digits]; intros H; [reflexivity|discriminate..]. Qed.

Lemma to_uint_nonnil n : N.to_uint n <> Nil.
Proof. destruct n as [|p]; [discriminate|]. apply Unsigned.to_uint_nonnil. Qed.

Theorem show_N_digits : forall n, show_N n <> [] /\ Forall (fun x => 48 <= x <= 57) (show_N n).
Proof.
  intros n. unfold show_N. split.
  - intros H. apply dec_digits_nil in H. exact (to_uint_nonnil n H).
  - pose proof (dec_digits_digits (N.to_uint n)) as H. rewrite forallb_forall in H. apply Forall_forall. intros x Hx.
    specialize (H x Hx). unfold is_digit in H. apply andb_true_iff in H. destruct H as [H1 H2].
    apply N.leb_le in H1. apply N.leb_le in H2. split; assumption.
Qed.

(* the reader *)
Definition digit_of (x : N) (u : uint) : option uint :=
  if x =? 48 then Some (D0 u) else if x =? 49 then Some (D1 u) else if x =? 50 then Some (D2 u)
  else if x =? 51 then Some (D3 u) else if x =? 52 then Some (D4 u) else if x =? 53 then Some (D5 u)
  else if x =? 54 then Some (D6 u) else if x =? 55 then Some (D7 u) else if x =? 56 then Some (D8 u)
  else if x =? 57 then Some (D9 u) else None.
Fixpoint uint_of_bytes (bs : bytes) : option uint :=
  match bs with
  | [] => Some Nil
  | x :: r => match uint_of_bytes r with Some u => digit_of x u | None => None end
  end.
Definition read_N (bs : bytes) : option N :=
  match bs with
  | [] => None
  | _ => match uint_of_bytes bs with Some u => Some (N.of_uint u) | None => None end
  end.

Lemma uint_of_dec_digits u : uint_of_bytes (dec_digits u) = Some u.
Proof. induction u; cbn [dec_digits uint_of_bytes]; rewrite ?IHu; reflexivity. Qed.

Theorem read_show_N : forall n, read_N (show_N n) = Some n.
Proof.
  intros n. destruct (show_N_digits n) as [Hne _]. unfold read_N. destruct (show_N n) as [|x r] eqn:E; [congruence|].
  rewrite <- E. unfold show_N. rewrite uint_of_dec_digits, DecimalN.Unsigned.of_to. reflexivity.
Qed.

Theorem show_N_inj : forall n m, show_N n = show_N m -> n = m.
Proof.
  intros n m H. pose proof (read_show_N n) as A. rewrite H, read_show_N in A. injection A as A. symmetry. exact A.
Qed.
Print Assumptions show_N_inj.

(* the text up to the first ':' and the text after it *)
Fixpoint split_colon (bs : bytes) : option (bytes * bytes) :=
  match bs with
  | [] => None
  | x :: r => if x =? 58 then Some ([], r)
              else match split_colon r with Some (a, c) => Some (x :: a, c) | None => None end
  end.
Definition read_pos (bs : bytes) : option textpos :=
  match split_colon bs with
  | Some (a, c) => match read_N a, read_N c with Some r, Some k => Some (r, k) | _, _ => None end
  | None => None
  end.

Lemma split_colon_digits : forall a c, forallb is_digit a = true -> split_colon (a ++ 58 :: c) = Some (a, c).
Proof.
  induction a as [|x a IH]; intros c H; [reflexivity|]. cbn [forallb] in H. apply andb_true_iff in H. destruct H as [Hx Ha].
  cbn [app split_colon]. rewrite (IH c Ha).
  unfold is_digit in Hx. apply andb_true_iff in Hx. destruct Hx as [_ Hx]. apply N.leb_le in Hx.
  replace (x =? 58) with false by (symmetry; apply N.eqb_neq; lia). reflexivity.
Qed.

Theorem read_show_pos : forall p, read_pos (show_pos p) = Some p.
Proof.
  intros [r k]. unfold read_pos, show_pos. cbn [fst snd]. change (b textpos_sep) with [58]. cbn [app].
  rewrite split_colon_digits by apply dec_digits_digits. rewrite !read_show_N. reflexivity.
Qed.
Print Assumptions read_show_pos.

Corollary show_pos_inj : forall p q, show_pos p = show_pos q -> p = q.
Proof.
  intros p q H. pose proof (read_show_pos p) as A. rewrite H, read_show_pos in A. injection A as A. symmetry. exact A.
Qed.

(* the position of an error can be read from its message, given where it stands *)
Corollary display_pos_readable : forall e, has_pos e = true ->
  exists pre post, error_display e = pre ++ show_pos (error_pos e) ++ post /\ read_pos (show_pos (error_pos e)) = Some (error_pos e).
Proof.
  intros e H. destruct (display_pos e H) as (pre & post & E). exists pre, post. split; [|apply read_show_pos].
  rewrite <- (E (error_pos e)), set_pos_same. reflexivity.
Qed.

(* ------------------------------------------------------------------------------------------ *)
(* (d) the payloads                                                                           *)
(* ------------------------------------------------------------------------------------------ *)
(* the variants that carry names (and the expected string of InvalidString) print them in quotes *)
Definition quoted_payload (e : error) : bool :=
  match e with
  | DuplicatedNamespace _ _ | UnknownNamespace _ _ | UnexpectedCloseTag _ _ _ | UnknownEntityReference _ _
  | DuplicatedAttribute _ _ | InvalidString _ _ => true
  | _ => false
  end.

Ltac fin := cbn -[show_pos]; rewrite <- ?app_assoc, ?app_nil_r; cbn -[show_pos]; reflexivity.

Theorem display_payload : forall e s, quoted_payload e = true -> In (FStr s) (error_fields e) ->
  exists pre post, error_display e = pre ++ [39] ++ s ++ [39] ++ post.
Proof.
  intros e s Hq Hin. destruct e; try discriminate Hq; cbn [error_fields In] in Hin;
    repeat match goal with H : _ \/ _ |- _ => destruct H as [H|H] end; try contradiction; try discriminate Hin;
    injection Hin as <-; unfold error_display; cbn -[show_pos Base.b].
  - exists (b "namespace "), (b " at " ++ show_pos p ++ b " is already defined"). fin.
  - exists (b "an unknown namespace prefix "), (b " at " ++ show_pos p). fin.
  - exists (b "expected "), (b " tag, not '" ++ actual ++ b "' at " ++ show_pos p). fin.
  - exists (b "expected '" ++ expected ++ b "' tag, not "), (b " at " ++ show_pos p). fin.
  - exists (b "unknown entity reference "), (b " at " ++ show_pos p). fin.
  - exists (b "attribute "), (b " at " ++ show_pos p ++ b " is already defined"). fin.
  - exists (b "expected "), (b " at " ++ show_pos p). fin.
Qed.
Print Assumptions display_payload.

(* the other payloads, explicitly *)
Lemma display_non_xml_char c p :
  error_display (NonXmlChar c p) = b "a non-XML character " ++ show_char_debug c ++ b " found at " ++ show_pos p.
Proof. unfold error_display. cbn -[show_pos show_char_debug Base.b]. rewrite app_nil_r. reflexivity. Qed.

Lemma display_invalid_char x a p :
  error_display (InvalidChar x a p) =
  b "expected '" ++ show_byte_as_char x ++ b "' not '" ++ show_byte_as_char a ++ b "' at " ++ show_pos p.
Proof. unfold error_display. cbn -[show_pos show_byte_as_char Base.b]. rewrite app_nil_r. reflexivity. Qed.

Lemma display_invalid_char2 x a p :
  error_display (InvalidChar2 x a p) = b "expected " ++ x ++ b " not '" ++ show_byte_as_char a ++ b "' at " ++ show_pos p.
Proof. unfold error_display. cbn -[show_pos show_byte_as_char Base.b]. rewrite app_nil_r. reflexivity. Qed.

(* the non-XML characters the parser reports: a control character, U+FFFE or U+FFFF: \0 or \u{..} *)
Lemma escape_debug_non_xml c : (c < 32 /\ c <> 9 /\ c <> 10 /\ c <> 13) \/ c = 65534 \/ c = 65535 ->
  escape_debug c = if c =? 0 then b "\0" else b "\u{" ++ show_hex c ++ b "}".
Proof.
  intros H. unfold escape_debug. destruct (c =? 0) eqn:E0; [reflexivity|].
  replace (c =? 9) with false by (symmetry; apply N.eqb_neq; lia).
  replace (c =? 10) with false by (symmetry; apply N.eqb_neq; lia).
  replace (c =? 13) with false by (symmetry; apply N.eqb_neq; lia).
  replace (c =? 39) with false by (symmetry; apply N.eqb_neq; lia).
  replace (c =? 92) with false by (symmetry; apply N.eqb_neq; lia).
  replace ((32 <=? c) && (c <? 127)) with false; [reflexivity|].
  symmetry. apply andb_false_iff. destruct H as [[H _]|[->| ->]]; [left; apply N.leb_gt; exact H|right; reflexivity|right; reflexivity].
Qed.

(* ------------------------------------------------------------------------------------------ *)
(* (e) no message is empty                                                                    *)
(* ------------------------------------------------------------------------------------------ *)
Theorem display_nonempty : forall e, error_display e <> [].
Proof.
  intros e. destruct (ErrShiftBase.has_pos e) eqn:H.
  - destruct e; try discriminate H; unfold error_display; cbn -[show_pos]; discriminate.
  - destruct e; try discriminate H; vm_compute; discriminate.
Qed.
Print Assumptions display_nonempty.

(* ------------------------------------------------------------------------------------------ *)
(* examples: the exact bytes, against messages of /repo/tests                                 *)
(* ------------------------------------------------------------------------------------------ *)
Example ex_unknown_token : error_display (UnknownToken (1, 1)) = b "unknown token at 1:1".
Proof. vm_compute. reflexivity. Qed.
Example ex_invalid_name : error_display (InvalidName (1, 2)) = b "invalid name token at 1:2".
Proof. vm_compute. reflexivity. Qed.
Example ex_close_tag : error_display (UnexpectedCloseTag (b "n:item") (b "item") (3, 5)) = b "expected 'n:item' tag, not 'item' at 3:5".
Proof. vm_compute. reflexivity. Qed.
Example ex_non_xml : error_display (NonXmlChar 1 (1, 13)) = b "a non-XML character '\u{1}' found at 1:13".
Proof. vm_compute. reflexivity. Qed.
Example ex_invalid_char : error_display (InvalidChar 62 33 (1, 16)) = b "expected '>' not '!' at 1:16".
Proof. vm_compute. reflexivity. Qed.
Example ex_invalid_char2 : error_display (InvalidChar2 (b "a quote, SYSTEM or PUBLIC") 66 (1, 30)) = b "expected a quote, SYSTEM or PUBLIC not 'B' at 1:30".
Proof. vm_compute. reflexivity. Qed.
Example ex_dup_attr : error_display (DuplicatedAttribute (b "a") (1, 72)) = b "attribute 'a' at 1:72 is already defined".
Proof. vm_compute. reflexivity. Qed.
Example ex_dup_ns : error_display (DuplicatedNamespace (b "n") (1, 34)) = b "namespace 'n' at 1:34 is already defined".
Proof. vm_compute. reflexivity. Qed.
Example ex_unknown_ns : error_display (UnknownNamespace (b "test") (1, 30)) = b "an unknown namespace prefix 'test' at 1:30".
Proof. vm_compute. reflexivity. Qed.
Example ex_unknown_ent : error_display (UnknownEntityReference (b "d") (1, 7)) = b "unknown entity reference 'd' at 1:7".
Proof. vm_compute. reflexivity. Qed.
Example ex_xmlns_uri : error_display (UnexpectedXmlnsUri (1, 6)) = b "the 'xmlns' URI is used at 1:6, but it must not be declared".
Proof. vm_compute. reflexivity. Qed.
Example ex_no_root : error_display NoRootNode = b "the document does not have a root node".
Proof. vm_compute. reflexivity. Qed.
Example ex_unclosed : error_display UnclosedRootNode = b "the root node was opened but never closed".
Proof. vm_compute. reflexivity. Qed.
Example ex_ffff : error_display (NonXmlChar 65535 (4294967295, 10)) = b "a non-XML character '\u{ffff}' found at 4294967295:10".
Proof. vm_compute. reflexivity. Qed.
Example ex_high_byte : error_display (InvalidChar 60 233 (2, 3)) = b "expected '<' not '" ++ [195; 169] ++ b "' at 2:3".
Proof. vm_compute. reflexivity. Qed.
Example ex_read_pos : read_pos (b "12:345") = Some (12, 345) /\ read_pos (b "12345") = None /\ read_pos (b "1:x") = None.
Proof. vm_compute. repeat split; reflexivity. Qed.
