(* BudgetAcct.v -- C09, part 4: the accounting.
   T = length of the text, A p = number of '&' among the first p bytes.
   BI K p0 c0 p c:  from (p0, c0) to (p, c) the node count grew by at most
     (p - p0)  +  T * (growth of the reference counter)  +  K * (number of '&' in [p0, p)). *)
From Coq Require Import Ascii String.
From Coq Require Import Lia ZifyBool ZifyN ZifyNat.
From RX Require Import Generated.
From RX.Model Require Import Base CharClass Stream Tokenizer Doc Builder Parse.
From RX.Proofs Require Import Tactics OptionsParam OptionsBuild BudgetStream BudgetTok BudgetBuild.

(** * Counting '&' *)

Lemma cb_firstn_mono c : forall l n m, (n <= m)%nat ->
  count_byte c (firstn n l) <= count_byte c (firstn m l).
Proof.
  induction l as [|x l IH]; intros n m H.
  - rewrite !firstn_nil. lia.
  - destruct n, m; cbn [firstn count_byte]; try lia.
    specialize (IH n m ltac:(lia)). lia.
Qed.

Lemma cb_firstn_le c : forall l n, count_byte c (firstn n l) <= count_byte c l.
Proof.
  induction l as [|x l IH]; intros n; destruct n; cbn [firstn count_byte]; try lia.
  specialize (IH n). lia.
Qed.

Lemma cb_firstn_S c : forall n l x r, skipn n l = x :: r ->
  count_byte c (firstn (S n) l) = count_byte c (firstn n l) + (if x =? c then 1 else 0).
Proof.
  induction n; intros l x r H.
  - cbn [skipn] in H. subst l. cbn [firstn count_byte]. lia.
  - destruct l as [|y l]; [discriminate|]. cbn [skipn] in H.
    specialize (IHn l x r H). cbn [firstn count_byte] in *. lia.
Qed.

Section Acct.
Variable text : bytes.
Notation T := (tlen text).
Notation wfl := (wfl text).
Notation mvk := (mvk text).

Definition A (p : N) : N := count_byte 38 (firstn (N.to_nat p) text).

Lemma A_mono p p' : p <= p' -> A p <= A p'.
Proof. intros H. unfold A. apply cb_firstn_mono. lia. Qed.

Lemma A_step p p' r : skipn (N.to_nat p) text = 38 :: r -> p < p' -> A p + 1 <= A p'.
Proof.
  intros Hs Hlt. unfold A.
  pose proof (cb_firstn_S 38 _ _ _ _ Hs) as E. rewrite N.eqb_refl in E.
  pose proof (cb_firstn_mono 38 text (S (N.to_nat p)) (N.to_nat p') ltac:(lia)). lia.
Qed.

Lemma A_le_amp p : A p <= count_byte 38 text.
Proof. apply cb_firstn_le. Qed.

Lemma A_0 : A 0 = 0.
Proof. reflexivity. Qed.

Lemma KA_mono K p p' : p <= p' -> K * A p <= K * A p'.
Proof. intros H. apply N.mul_le_mono_l. apply A_mono. exact H. Qed.

Lemma KA_step K p p' r : skipn (N.to_nat p) text = 38 :: r -> p < p' -> K * A p + K <= K * A p'.
Proof.
  intros Hs Hlt. pose proof (A_step _ _ _ Hs Hlt).
  pose proof (N.mul_le_mono_l (A p + 1) (A p') K ltac:(assumption)). lia.
Qed.

Lemma b0_b1 c a c' : b0 c a -> b1 a c' -> b1 c c'.
Proof.
  unfold b0, b1. intros (H1 & H2) (H3 & H4 & H5). rewrite H3, H1. repeat split; lia.
Qed.

(** * The budget invariant *)

Definition BI (K p0 : N) (c0 : context) (p : N) (c : context) : Prop :=
  p0 <= p /\ dp c = dp c0 /\ rf c0 <= rf c /\ ldok (c_ld c) /\
  cnt c + p0 + T * rf c0 + K * A p0 <= cnt c0 + p + T * rf c + K * A p.

Lemma BI_refl K p c : ldok (c_ld c) -> BI K p c p c.
Proof. unfold BI. intros. repeat split; try lia; apply H. Qed.

Lemma BI_mono K p0 c0 p p' c : p <= p' -> BI K p0 c0 p c -> BI K p0 c0 p' c.
Proof.
  unfold BI. intros Hp (H1 & H2 & H3 & H4 & H5). pose proof (KA_mono K p p' Hp).
  repeat split; try lia; apply H4.
Qed.

(* what parse_next_chunk consumes *)
Lemma pnc_spec s ents ch s1 : parse_next_chunk text s ents = Ok (ch, s1) -> wfl s ->
  mvk 1 s s1 /\
  match ch with
  | ChByte _ => True
  | _ => s_pos s + 2 <= s_pos s1 /\ exists r, skipn (N.to_nat (s_pos s)) text = 38 :: r
  end.
Proof.
  unfold parse_next_chunk. intros H W. bsteps.
  all: try (apply N.eqb_eq in Heqb0; subst a;
            destruct (wfl_curr text _ _ W Hb) as [r Hr];
            fwdm Hb0 mv_consume_reference;
            split; [mvfin | split; [lia | eauto]]).
  fwdm Hb0 mv_advance. split; [mvfin | exact I].
Qed.

(* one expansion, seen from the detector: enter, a nested run that costs
   (pf - a) + T * (growth of the counter), leave *)
Lemma expansion_cost s s' ld ld1 ld2 ld3 n1 n2 a pf :
  ldok ld -> inc_references text s ld = Ok ld1 -> inc_depth text s' ld1 = Ok ld2 ->
  ld_depth ld3 = ld_depth ld2 -> ld_references ld2 <= ld_references ld3 -> ldok ld3 ->
  pf <= a + T ->
  n2 + a + T * ld_references ld2 <= n1 + pf + T * ld_references ld3 ->
  ldle ld (dec_depth ld3) /\
  n2 + T * ld_references ld <=
    n1 + T * ld_references (dec_depth ld3) + (if ld_depth ld =? 0 then 256 * T else 0).
Proof.
  intros Hok H1 H2 Hd Hr Hok3 Hpf Hn.
  split; [eapply enter_leave; eauto; unfold ldle; auto|].
  destruct Hok as (Hr0 & Hz), Hok3 as (Hr3 & Hz3).
  apply inc_depth_spec in H2. subst ld2. cbn [ld_depth ld_references] in *.
  apply inc_references_spec in H1. unfold dec_depth.
  destruct H1 as [[Hd0 ->]|(Hd0 & Hrn & ->)]; cbn [ld_depth ld_references] in *.
  - rewrite Hd, Hd0. replace (0 <? 0 + 1) with true by lia.
    replace (0 + 1 - 1 =? 0) with true by lia. cbn [ld_depth ld_references].
    replace (0 =? 0) with true by lia.
    assert (T * ld_references ld3 <= T * 255) by (apply N.mul_le_mono_l; lia).
    rewrite (Hz Hd0) in *. lia.
  - rewrite Hd. replace (0 <? ld_depth ld + 1) with true by lia.
    replace (ld_depth ld + 1 - 1 =? 0) with false by lia. cbn [ld_depth ld_references].
    replace (ld_depth ld =? 0) with false by lia. lia.
Qed.

(** * process_text *)

Section PT.
Variable pc : stream -> context -> res (stream * context).
(* the nested runs start at depth >= 1 and are charged to the reference counter *)
Hypothesis Hpc : forall s c s' c', pc s c = Ok (s', c') -> wfl s -> 1 <= dp c -> ldok (c_ld c) ->
  mvk 0 s s' /\ BI 0 (s_pos s) c (s_pos s') c'.

Lemma pt_loop_budget K r fuel : forall s buf c buf' c',
  pt_loop text pc r fuel s buf c = Ok (buf', c') ->
  wfl s -> ldok (c_ld c) -> (dp c = 0 -> 256 * T <= K) ->
  dp c' = dp c /\ rf c <= rf c' /\ ldok (c_ld c') /\
  cnt c' + s_pos s + N.min 1 (s_end s - s_pos s) + T * rf c + K * A (s_pos s)
    <= cnt c + s_end s + T * rf c' + K * A (s_end s).
Proof.
  induction fuel; intros s buf c buf' c' H W Hok HK; [discriminate|].
  cbn [pt_loop] in H.
  destruct (at_end s) eqn:He.
  { inversion H; subst. unfold at_end in He. destruct W as (_ & ? & _).
    replace (s_end s) with (s_pos s) by lia.
    repeat split; try lia; apply Hok. }
  apply bind_ok in H. destruct H as [[ch s1] [Hch H]]. cbv beta iota in H.
  destruct (pnc_spec _ _ _ _ Hch W) as [(W1 & E1 & P1) Hc].
  assert (Hend : s_pos s1 <= s_end s) by (destruct W1 as (_ & ? & _); lia).
  destruct ch as [x|cp|value].
  - (* a byte *)
    apply IHfuel in H; try assumption. destruct H as (? & ? & ? & Hn).
    pose proof (KA_mono K (s_pos s) (s_pos s1) ltac:(lia)).
    rewrite E1 in Hn. split; [assumption | split; [assumption | split; [assumption | lia]]].
  - (* a character reference *)
    apply IHfuel in H; try assumption. destruct H as (? & ? & ? & Hn).
    pose proof (KA_mono K (s_pos s) (s_pos s1) ltac:(lia)).
    rewrite E1 in Hn. split; [assumption | split; [assumption | split; [assumption | lia]]].
  - (* an entity reference *)
    destruct Hc as [P2 [rr Hamp]].
    apply bind_ok in H. destruct H as [ca [Hflush H]]. cbv beta in H.
    assert (Hca : b1 c ca).
    { destruct (negb (tb_is_empty buf)).
      - apply bind_ok in Hflush. destruct Hflush as [bs [_ Hf]]. apply b1_append_text in Hf. exact Hf.
      - inversion Hflush; subst. unfold b1. repeat split; lia. }
    destruct Hca as (Hld & Hn1 & Hn2).
    apply bind_ok in H. destruct H as [ld1 [Hir H]]. cbv beta in H.
    apply bind_ok in H. destruct H as [ld2 [Hid H]]. cbv beta zeta in H.
    apply bind_ok in H. destruct H as [es [Hes H]]. cbv beta in H.
    apply bind_ok in H. destruct H as [[es' c2] [Hrun H]]. cbv beta iota in H.
    destruct (negb (len_N (c_parent_prefixes c2) =? c_entity_floor c2)); [discriminate|].
    apply wfl_from_substr in Hes. destruct Hes as (Wes & Ea & Ee).
    assert (Hok_a : ldok (c_ld ca)) by (rewrite Hld; exact Hok).
    assert (Hld2 : ld2 = {| ld_depth := ld_depth ld1 + 1; ld_references := ld_references ld1 |})
      by (eapply inc_depth_spec; eauto).
    assert (Hok2 : ldok ld2).
    { subst ld2. pose proof (inc_references_spec _ _ _ _ Hir) as Hs.
      destruct Hok_a as [Hr Hz]. unfold ldok.
      destruct Hs as [[Hd0 ->]|(Hd0 & Hr0 & ->)]; cbn [ld_depth ld_references]; lia. }
    apply Hpc in Hrun; try assumption;
      [ | unfold dp; cproj; subst ld2; cbn [ld_depth]; lia ].
    destruct Hrun as [(Wes' & Ees' & Pes') (Hp0 & Hdp & Hrf & Hok_2 & Hcost)].
    unfold dp, rf, cnt in Hdp, Hrf, Hcost. cproj.
    assert (Hpf : s_pos es' <= s_pos es + T).
    { destruct Wes' as (_ & ? & ?). lia. }
    rewrite !N.mul_0_l, !N.add_0_r in Hcost.
    destruct (expansion_cost _ _ _ _ _ _ _ _ _ _ Hok_a Hir Hid Hdp Hrf Hok_2 Hpf Hcost)
      as [Hle Hexp].
    apply IHfuel in H; try assumption.
    + destruct H as (Hd' & Hr' & Hok' & Hn).
      unfold dp, rf, cnt in Hd', Hr', Hn |- *. cproj.
      destruct Hle as (Hd3 & Hr3 & Hok3).
      pose proof (KA_step K _ (s_pos s1) _ Hamp ltac:(lia)) as HKA.
      rewrite E1 in Hn. rewrite Hld in *.
      repeat split; try lia; try apply Hok'.
      unfold cnt in *.
      destruct (ld_depth (c_ld c) =? 0) eqn:Ez.
      * assert (256 * T <= K) by (apply HK; unfold dp; lia). lia.
      * lia.
    + unfold dp, cnt. cproj. exact (proj2 (proj2 Hle)).
    + unfold dp. cproj. destruct Hle as (Hd3 & _). rewrite Hd3, Hld. exact HK.
Qed.

Lemma process_text_budget K t r c c' :
  process_text_with text pc t r c = Ok c' ->
  fst r < snd r -> ldok (c_ld c) -> (dp c = 0 -> 256 * T <= K) ->
  dp c' = dp c /\ rf c <= rf c' /\ ldok (c_ld c') /\
  cnt c' + fst r + T * rf c + K * A (fst r) <= cnt c + snd r + T * rf c' + K * A (snd r).
Proof.
  rewrite process_text_with_eq. intros H Hr Hok HK.
  pose proof (KA_mono K (fst r) (snd r) ltac:(lia)) as HA.
  destruct (negb (existsb _ _)).
  - apply b1_append_text in H. destruct H as (Hld & ? & ?). unfold dp, rf. rewrite Hld.
    repeat split; try lia; apply Hok.
  - apply bind_ok in H. destruct H as [s0 [Hs0 H]]. cbv beta in H.
    apply bind_ok in H. destruct H as [[buf c1] [Hloop H]]. cbv beta iota in H.
    apply wfl_from_substr in Hs0. destruct Hs0 as (W0 & Ea & Ee).
    apply (pt_loop_budget K) in Hloop; try assumption.
    destruct Hloop as (Hd & Hrf & Hok1 & Hn). rewrite Ea, Ee in Hn.
    assert (Hc' : b1 c1 c').
    { destruct (negb (tb_is_empty buf)).
      - apply bind_ok in H. destruct H as [bs [_ Hf]]. apply b1_append_text in Hf. exact Hf.
      - inversion H; subst. unfold b1. repeat split; lia. }
    destruct Hc' as (Hld & ? & ?). unfold dp, rf in *. rewrite Hld.
    repeat split; try lia; apply Hok1.
Qed.

(** * One token *)

Lemma token_budget_r K p0 c0 tk r c c' p :
  (dp c0 = 0 -> 256 * T <= K) ->
  tok_range tk = Some r ->
  token_with text (process_text_with text pc) tk c = Ok c' ->
  BI K p0 c0 p c -> p <= fst r -> fst r < snd r -> BI K p0 c0 (snd r) c'.
Proof.
  intros HK Htr H (Hp0 & Hdp & Hrf & Hok & Hn) Hp Hr.
  pose proof (KA_mono K p (snd r) ltac:(lia)) as HA.
  assert (Hb1 : b1 c c' -> BI K p0 c0 (snd r) c').
  { intros (Hld & ? & ?). unfold BI, dp, rf in *. rewrite Hld.
    repeat split; try lia; apply Hok. }
  destruct tk; cbn [tok_range] in Htr; inversion Htr; subst; cbn [token_with] in H.
  - (* PI *) apply Hb1. usteps. apply b0_reset_after_text in Hb. apply b1_append_node in Hb0.
    eapply b0_b1; eassumption.
  - (* Comment *) apply Hb1. usteps. apply b0_reset_after_text in Hb. apply b1_append_node in Hb0.
    eapply b0_b1; eassumption.
  - (* ElementEnd *) apply Hb1. usteps. apply b0_reset_after_text in Hb.
    apply b1_process_element in H. eapply b0_b1; eassumption.
  - (* Text *)
    apply (process_text_budget K) in H; try assumption; [|rewrite Hdp; exact HK].
    destruct H as (Hd' & Hr' & Hok' & Hn').
    pose proof (KA_mono K p (fst r) Hp).
    unfold BI. repeat split; try lia; apply Hok'.
  - (* Cdata *) apply Hb1. eapply b1_process_cdata; eauto.
Qed.

Lemma token_budget_0 K p0 c0 tk c c' p :
  tok_range tk = None ->
  token_with text (process_text_with text pc) tk c = Ok c' ->
  BI K p0 c0 p c -> BI K p0 c0 p c'.
Proof.
  intros Htr H (Hp0 & Hdp & Hrf & Hok & Hn).
  destruct tk; cbn [tok_range] in Htr; try discriminate; cbn [token_with] in H.
  - (* EntityDecl *) inversion H; subst. unfold BI, dp, rf, cnt in *. cproj.
    repeat split; try lia; apply Hok.
  - (* ElementStart *) usteps. apply b0_reset_after_text in Hb. destruct Hb as (Hld & Hc).
    unfold BI, dp, rf, cnt in *. cproj. rewrite Hld, Hc.
    repeat split; try lia; apply Hok.
  - (* Attribute *) apply ba_process_attribute in H; [|assumption].
    destruct H as (Hc & Hd & Hr & Hok').
    unfold BI, dp, rf in *. rewrite Hc, Hd.
    assert (T * ld_references (c_ld c) <= T * ld_references (c_ld c'))
      by (apply N.mul_le_mono_l; assumption).
    repeat split; try lia; apply Hok'.
Qed.

End PT.

End Acct.
