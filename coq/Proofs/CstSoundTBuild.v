(* Proofs/CstSoundTBuild.v -- C08 soundness on the fragment of Spec/CstText.v, builder half, part 1
   (CstSoundBuild.v where consecutive text fragments may be merged: the rows forget the CONTENT of
   text nodes; no declared entities).  What the acceptance of a structural token by [Parse.token]
   says; text, CDATA and attribute values are in CstSoundTText.v. *)
From Coq Require Import String.
From Coq Require Import List Arith NArith Bool Lia ZifyBool ZifyN ZifyNat.
Import ListNotations.
From RX Require Import Generated.
From RX.Model Require Import Base CharClass Stream Tokenizer Doc Builder Parse.
From RX.Proofs Require Import Tactics.
From RX.Proofs Require RejectProofs.
From RX.Proofs Require Import CstSoundBuild.
Open Scope N_scope.

(* rows up to the content of text nodes *)
Definition ekind (k : node_kind) : node_kind := match k with KText _ => KText (Owned []) | _ => k end.
Definition erowof (nd : node_data) : row := (nd_parent nd, ekind (nd_kind nd)).
Definition erows (c : context) : list row := map erowof (d_nodes (c_doc c)).

Lemma list_upd_erows (f : node_data -> node_data) : (forall nd, erowof (f nd) = erowof nd) ->
  forall l i l', list_upd l i f = Some l' -> map erowof l' = map erowof l.
Proof.
  intros Hf. induction l as [|x l IH]; intros i l' H; cbn [list_upd] in H; [discriminate|].
  destruct i.
  - inversion H; subst. cbn [map]. rewrite Hf. reflexivity.
  - destruct (list_upd l i f) eqn:E; [|discriminate]. inversion H; subst. cbn [map]. rewrite (IH _ _ E). reflexivity.
Qed.

Lemma upd_node_erows nodes i f nodes' : (forall nd, erowof (f nd) = erowof nd) ->
  upd_node nodes i f = Ok nodes' -> map erowof nodes' = map erowof nodes.
Proof.
  intros Hf H. unfold upd_node in H. destruct (list_upd nodes (N.to_nat i) f) eqn:E; [|discriminate].
  inversion H; subst. eapply list_upd_erows; eauto.
Qed.

Lemma set_next_all_erows : forall ids nodes v nodes',
  set_next_subtree_all nodes ids v = Ok nodes' -> map erowof nodes' = map erowof nodes.
Proof.
  induction ids as [|i ids IH]; intros nodes v nodes' H; cbn [set_next_subtree_all] in H.
  - inversion H; reflexivity.
  - ib H n1 H1. rewrite (IH _ _ _ H). eapply upd_node_erows; [|exact H1]. intros nd; reflexivity.
Qed.

(* updating the kind of the LAST node, a text node, by a text kind *)
Lemma list_upd_last_text (k' : storage) : forall l x l',
  list_upd (l ++ [x]) (length l) (fun nd => nd_set_kind nd (KText k')) = Some l' ->
  (exists st0, nd_kind x = KText st0) -> map erowof l' = map erowof (l ++ [x]).
Proof.
  induction l as [|a l IH]; intros x l' H Hk; cbn [app length list_upd] in H.
  - inversion H; subst. destruct Hk as [st0 Hk]. destruct x. cbn in Hk. subst. reflexivity.
  - destruct (list_upd (l ++ [x]) (length l) _) eqn:E; [|discriminate]. inversion H; subst.
    cbn [app map]. rewrite (IH _ _ E Hk). reflexivity.
Qed.

Section BuildT.
Variable text : bytes.
Notation sb := (slice_bytes text).
Notation T := (Parse.token text).

Lemma append_node_inv_t kind r c id c' : append_node kind r c = Ok (id, c') ->
  erows c' = erows c ++ [(Some (c_parent_id c), ekind kind)] /\ attrs_of c' = attrs_of c /\
  id = len_N (d_nodes (c_doc c)) /\
  c_parent_id c' = c_parent_id c /\ c_parent_prefixes c' = c_parent_prefixes c /\
  c_cur_attrs c' = c_cur_attrs c /\ c_after_text c' = c_after_text c /\ c_tag_name c' = c_tag_name c /\
  c_entities c' = c_entities c.
Proof.
  unfold append_node. cbv zeta. intros H.
  destruct (nodes_limit (c_opt c) <=? len_N (d_nodes (c_doc c))); [noerr|].
  ib H nid Hn. unfold node_id_new in Hn. destruct (u32_max <=? _); [discriminate|]. inversion Hn; subst nid. clear Hn.
  ib H pnd Hp. ib H n1 H1. ib H n2 H2. ib H n3 H3. inversion H; subst. clear H.
  unfold erows, attrs_of. cbn [c_doc set_awaiting set_doc set_nodes d_nodes d_attrs c_parent_id c_parent_prefixes
                             c_cur_attrs c_after_text c_tag_name c_entities].
  rewrite (set_next_all_erows _ _ _ _ H3).
  eapply upd_node_erows in H2; [|intros; reflexivity]. eapply upd_node_erows in H1; [|intros; reflexivity].
  rewrite H2, H1, map_app. cbn [map erowof nd_parent nd_kind]. repeat split; reflexivity.
Qed.

Lemma merge_text_inv c c' : merge_text text c = Ok c' ->
  erows c' = erows c /\ attrs_of c' = attrs_of c /\
  c_parent_id c' = c_parent_id c /\ c_parent_prefixes c' = c_parent_prefixes c /\
  c_cur_attrs c' = c_cur_attrs c /\ c_after_text c' = c_after_text c /\ c_tag_name c' = c_tag_name c /\
  c_entities c' = c_entities c.
Proof.
  unfold merge_text. cbv zeta. intros H.
  destruct (rev (d_nodes (c_doc c))) as [|nd rn] eqn:Er; [discriminate|].
  destruct (nd_kind nd) eqn:Ek; try discriminate.
  ib H nodes Hn. inversion H; subst. clear H.
  assert (En : d_nodes (c_doc c) = rev rn ++ [nd]).
  { rewrite <- (rev_involutive (d_nodes (c_doc c))), Er. reflexivity. }
  unfold upd_node in Hn.
  destruct (list_upd (d_nodes (c_doc c)) _ _) as [l'|] eqn:El; [|discriminate]. inversion Hn; subst l'. clear Hn.
  rewrite En in El.
  replace (N.to_nat (len_N (rev rn ++ [nd]) - 1)) with (length (rev rn)) in El
    by (unfold len_N; rewrite app_length; cbn [length]; lia).
  apply list_upd_last_text in El; [|eauto].
  unfold erows, attrs_of. cbn [c_doc set_doc set_nodes d_nodes d_attrs c_parent_id c_parent_prefixes c_cur_attrs
                              c_after_text c_tag_name c_entities].
  rewrite El, En. repeat split; reflexivity.
Qed.

Lemma reset_after_text_inv c c1 : reset_after_text text c = Ok c1 ->
  erows c1 = erows c /\ attrs_of c1 = attrs_of c /\ c_after_text c1 = [] /\
  c_parent_id c1 = c_parent_id c /\ c_parent_prefixes c1 = c_parent_prefixes c /\
  c_cur_attrs c1 = c_cur_attrs c /\ c_tag_name c1 = c_tag_name c /\ c_entities c1 = c_entities c.
Proof.
  intros H. unfold reset_after_text in H. destruct (c_after_text c) as [|x [|y r]] eqn:E.
  - inversion H; subst. rewrite E. repeat split.
  - inversion H; subst. repeat split.
  - ib H c2 H2. destruct (merge_text_inv _ _ H2) as (A1 & A2 & A3 & A4 & A5 & A6 & A7 & A8).
    inversion H; subst. unfold erows, attrs_of in *. cbn [c_doc set_after_text c_after_text c_parent_id
      c_parent_prefixes c_cur_attrs c_tag_name c_entities]. repeat split; assumption.
Qed.

(* ---- the chain of open elements ---- *)
Notation chain := (CstSoundBuild.chain text).

Record SimT (c : context) (stk : list bytes) : Prop := {
  st_chain : chain (erows c) (c_parent_id c) stk;
  st_pp_len : length (c_parent_prefixes c) = S (length stk);
  st_pp : Forall (fun s => sb s = []) (c_parent_prefixes c);
  st_cur : c_cur_attrs c = [];
  st_ent : c_entities c = []
}.

Record InTagT (c : context) (stk : list bytes) (pfx name : slice) (cur : list bytes) : Prop := {
  tt_chain : chain (erows c) (c_parent_id c) stk;
  tt_pp_len : length (c_parent_prefixes c) = S (length stk);
  tt_pp : Forall (fun s => sb s = []) (c_parent_prefixes c);
  tt_tn : tn_prefix (c_tag_name c) = pfx /\ tn_name (c_tag_name c) = name;
  tt_cur : map (fun a => sb (ta_local a)) (c_cur_attrs c) = cur;
  tt_curp : Forall (fun a => sb (ta_prefix a) = []) (c_cur_attrs c);
  tt_ent : c_entities c = []
}.

Definition nontext (k : node_kind) : Prop := match k with KText _ => False | _ => True end.

(* ---- leaves (comments, PIs) ---- *)
Lemma leaf_step_t kind r c c' stk : SimT c stk ->
  (let! c1 := reset_after_text text c in let! (_, c2) := append_node kind r c1 in Ok c2) = Ok c' ->
  SimT c' stk /\ erows c' = erows c ++ [(Some (c_parent_id c), ekind kind)] /\ attrs_of c' = attrs_of c /\
  c_after_text c' = [].
Proof.
  intros [S1 S2 S3 S4 S5] H. ib H c1 H1. ib H q Hq. destruct q as [id c2]. inversion H; subst. clear H.
  destruct (reset_after_text_inv _ _ H1) as (R1 & R2 & R3 & R4 & R5 & R6 & R7 & R8).
  destruct (append_node_inv_t _ _ _ _ _ Hq) as (A1 & A2 & A3 & A4 & A5 & A6 & A7 & A8 & A9).
  split; [|rewrite A1, R1, R4, A2, R2, A7, R3; auto].
  constructor.
  - rewrite A1, A4, R1, R4. apply chain_app. exact S1.
  - rewrite A5, R5. exact S2.
  - rewrite A5, R5. exact S3.
  - rewrite A6, R6. exact S4.
  - rewrite A9, R8. exact S5.
Qed.

Lemma step_comment_t s r c c' stk : SimT c stk -> T (TComment s r) c = Ok c' ->
  SimT c' stk /\ erows c' = erows c ++ [(Some (c_parent_id c), KComment s)] /\ attrs_of c' = attrs_of c /\
  c_after_text c' = [].
Proof. intros HS H. exact (leaf_step_t (KComment s) r c c' stk HS H). Qed.

Lemma step_pi_t t v r c c' stk : SimT c stk -> T (TPI t v r) c = Ok c' ->
  SimT c' stk /\ erows c' = erows c ++ [(Some (c_parent_id c), KPI t v)] /\ attrs_of c' = attrs_of c /\
  c_after_text c' = [].
Proof. intros HS H. exact (leaf_step_t (KPI t v) r c c' stk HS H). Qed.

(* ---- text fragments: one more fragment, a text row at most ---- *)
Lemma append_text_step t r c c' stk : SimT c stk -> append_text t r c = Ok c' ->
  SimT c' stk /\ attrs_of c' = attrs_of c /\
  exists K, erows c' = erows c ++ K /\ Forall (fun rw => is_element_kind (snd rw) = false) K.
Proof.
  intros [S1 S2 S3 S4 S5] H. unfold append_text in H. ib H c1 H1.
  assert (E : SimT c1 stk /\ attrs_of c1 = attrs_of c /\
              exists K, erows c1 = erows c ++ K /\ Forall (fun rw => is_element_kind (snd rw) = false) K).
  { destruct (c_after_text c).
    - ib H1 q Hq. destruct q as [id c2]. inversion H1; subst c2.
      destruct (append_node_inv_t _ _ _ _ _ Hq) as (A1 & A2 & A3 & A4 & A5 & A6 & A7 & A8 & A9).
      split; [|split; [exact A2|eexists; split; [exact A1|constructor; [reflexivity|constructor]]]].
      constructor; [rewrite A1, A4; apply chain_app; exact S1|rewrite A5; exact S2|rewrite A5; exact S3|
                    rewrite A6; exact S4|rewrite A9; exact S5].
    - inversion H1; subst c1. split; [constructor; assumption|]. split; [reflexivity|].
      exists []. rewrite app_nil_r. split; [reflexivity|constructor]. }
  destruct E as ([T1 T2 T3 T4 T5] & EA & K & EK & HK). inversion H; subst c'. clear H.
  split; [|split; [exact EA|exists K; split; [exact EK|exact HK]]].
  constructor; assumption.
Qed.

(* ---- start tags ---- *)
Lemma step_start_t pfx loc st0 c c' stk : SimT c stk -> sb pfx = [] ->
  T (TElementStart pfx loc st0) c = Ok c' ->
  InTagT c' stk pfx loc [] /\ erows c' = erows c /\ attrs_of c' = attrs_of c.
Proof.
  intros [S1 S2 S3 S4 S5] Hp H. cbn [Parse.token token_with] in H. ib H c1 H1.
  destruct (reset_after_text_inv _ _ H1) as (R1 & R2 & R3 & R4 & R5 & R6 & R7 & R8).
  rewrite Hp in H. cbn in H. inversion H; subst. clear H.
  match goal with |- InTagT (set_tag_name c1 ?tn) _ _ _ _ /\ _ => set (tnv := tn) end.
  change (erows (set_tag_name c1 tnv)) with (erows c1).
  change (attrs_of (set_tag_name c1 tnv)) with (attrs_of c1).
  split; [|auto]. constructor.
  - change (chain (erows c1) (c_parent_id c1) stk). rewrite R1, R4. exact S1.
  - change (length (c_parent_prefixes c1) = S (length stk)). rewrite R5. exact S2.
  - change (Forall (fun s => sb s = []) (c_parent_prefixes c1)). rewrite R5. exact S3.
  - split; reflexivity.
  - change (map (fun a => sb (ta_local a)) (c_cur_attrs c1) = []). rewrite R6, S4. reflexivity.
  - change (Forall (fun a => sb (ta_prefix a) = []) (c_cur_attrs c1)). rewrite R6, S4. constructor.
  - change (c_entities c1 = []). rewrite R8. exact S5.
Qed.

Lemma resolve_namespaces_inv_t c r c' : resolve_namespaces text c = Ok (r, c') ->
  erows c' = erows c /\ attrs_of c' = attrs_of c /\ c_cur_attrs c' = c_cur_attrs c /\
  c_parent_id c' = c_parent_id c /\ c_parent_prefixes c' = c_parent_prefixes c /\
  c_tag_name c' = c_tag_name c /\ c_after_text c' = c_after_text c /\ c_entities c' = c_entities c.
Proof.
  unfold resolve_namespaces. intros H. ib H pnd Hp.
  destruct (nd_kind pnd).
  2:{ destruct (c_ns_start_idx c =? len_N (d_ns_tree (c_doc c))).
      - inversion H; subst. repeat split.
      - destruct nss as [pa pe]. ib H d Hd. ib H r0 Hr. inversion H; subst.
        destruct (resolve_ns_loop_keep text _ _ _ _ Hd) as (A & B).
        unfold erows, attrs_of. cbn [c_doc set_doc]. rewrite A, B. repeat split. }
  all: ib H r0 Hr; inversion H; subst; repeat split.
Qed.

Lemma resolve_attributes_inv_t nss c r c' : Forall (fun a => sb (ta_prefix a) = []) (c_cur_attrs c) ->
  resolve_attributes text nss c = Ok (r, c') ->
  attrs_of c' = attrs_of c ++ map (ad_of None) (c_cur_attrs c) /\ erows c' = erows c /\
  NoDup (map (fun a => sb (ta_local a)) (c_cur_attrs c)) /\ c_cur_attrs c' = [] /\
  c_parent_id c' = c_parent_id c /\ c_parent_prefixes c' = c_parent_prefixes c /\
  c_tag_name c' = c_tag_name c /\ c_after_text c' = c_after_text c /\ c_entities c' = c_entities c.
Proof.
  intros Hp H. unfold resolve_attributes in H. destruct (c_cur_attrs c) as [|a l] eqn:E.
  { inversion H; subst. unfold attrs_of. cbn [map]. rewrite app_nil_r. repeat split; auto. constructor. }
  cbv zeta in H. destruct (u32_max <=? _); [noerr|]. ib H d' Hd. ib H r0 Hr. inversion H; subst. clear H.
  cbn [c_doc set_cur_attrs] in Hd.
  assert (L1 : (N.to_nat (len_N (d_attrs (c_doc c))) <= length (d_attrs (c_doc c)))%nat) by (unfold len_N; lia).
  assert (L2 : Forall (fun a => ad_ns_idx a = None) (skipn (N.to_nat (len_N (d_attrs (c_doc c)))) (d_attrs (c_doc c)))).
  { unfold len_N. rewrite Nat2N.id, skipn_all. constructor. }
  destruct (resolve_attrs_loop_inv text _ _ _ _ _ Hp L1 L2 Hd) as (A1 & A2 & _ & A4).
  unfold attrs_of, erows. cbn [c_doc set_doc set_cur_attrs c_cur_attrs c_parent_id c_parent_prefixes c_tag_name
                              c_after_text c_entities].
  rewrite A1, A2. repeat split; auto.
Qed.

(* ElementEnd Open / Empty *)
Lemma step_tagend_t e r c c' stk tp tn cur : InTagT c stk tp tn cur -> sb tp = [] ->
  (e = EOpen \/ e = EEmpty) ->
  T (TElementEnd e r) c = Ok c' ->
  NoDup cur /\
  SimT c' (match e with EOpen => sb tn :: stk | _ => stk end) /\
  (exists ns ar nss, erows c' = erows c ++ [(Some (c_parent_id c), KElement ns tn ar nss)]) /\
  attrs_of c' = attrs_of c ++ map (ad_of None) (c_cur_attrs c) /\
  c_after_text c' = [].
Proof.
  intros [I1 I2 I3 [I4a I4b] I5 I6 I7] Htp He H. cbn [Parse.token token_with] in H. ib H c0 H0.
  destruct (reset_after_text_inv _ _ H0) as (R1 & R2 & R3 & R4 & R5 & R6 & R7 & R8).
  unfold process_element in H.
  destruct (slice_len (tn_name (c_tag_name c0)) =? 0); [destruct He as [-> | ->]; noerr|].
  ib H q1 H1. destruct q1 as [nss c1].
  destruct (resolve_namespaces_inv_t _ _ _ H1) as (N1 & N2 & N3 & N4 & N5 & N6 & N7 & N8).
  ib H q2 H2. destruct q2 as [ar c2].
  assert (Hcp : Forall (fun a => sb (ta_prefix a) = []) (c_cur_attrs (set_ns_start_idx c1 (len_N (d_ns_tree (c_doc c1)))))).
  { cbn [c_cur_attrs set_ns_start_idx]. rewrite N3, R6. exact I6. }
  destruct (resolve_attributes_inv_t _ _ _ _ Hcp H2) as (A1 & A2 & A3 & A4 & A5 & A6 & A7 & A8 & A9).
  cbn [c_cur_attrs set_ns_start_idx c_parent_id c_parent_prefixes c_tag_name c_after_text c_entities] in A3, A5, A6, A7, A8, A9.
  change (attrs_of (set_ns_start_idx c1 (len_N (d_ns_tree (c_doc c1))))) with (attrs_of c1) in A1.
  change (erows (set_ns_start_idx c1 (len_N (d_ns_tree (c_doc c1))))) with (erows c1) in A2.
  change (c_cur_attrs (set_ns_start_idx c1 (len_N (d_ns_tree (c_doc c1))))) with (c_cur_attrs c1) in A1.
  cbv zeta in H.
  assert (Hnd : NoDup cur). { rewrite <- I5, <- R6, <- N3. exact A3. }
  split; [exact Hnd|].
  assert (Etn : c_tag_name c2 = c_tag_name c) by (rewrite A7, N6, R7; reflexivity).
  assert (Epid : c_parent_id c2 = c_parent_id c) by (rewrite A5, N4, R4; reflexivity).
  assert (Epp : c_parent_prefixes c2 = c_parent_prefixes c) by (rewrite A6, N5, R5; reflexivity).
  assert (Erows : erows c2 = erows c) by (rewrite A2, N1, R1; reflexivity).
  assert (Eattrs : attrs_of c2 = attrs_of c ++ map (ad_of None) (c_cur_attrs c)) by (rewrite A1, N2, R2, N3, R6; reflexivity).
  assert (Eat : c_after_text c2 = []) by (rewrite A8, N7; exact R3).
  assert (Eent : c_entities c2 = []) by (rewrite A9, N8, R8; exact I7).
  destruct He as [-> | ->].
  - ib H idx Hidx. ib H q3 H3. destruct q3 as [nid c3]. injection H as <-.
    destruct (append_node_inv_t _ _ _ _ _ H3) as (B1 & B2 & B3 & B4 & B5 & B6 & B7 & B8 & B9).
    match goal with |- SimT ?cc _ /\ _ => change (erows cc) with (erows c3); change (attrs_of cc) with (attrs_of c3);
      change (c_after_text cc) with (c_after_text c3) end.
    cbn [ekind] in B1. rewrite Etn, I4b in B1. rewrite Epid, Erows in B1.
    split; [|split; [eauto|split; [rewrite B2; exact Eattrs|rewrite B7; exact Eat]]].
    constructor.
    + match goal with |- chain (erows ?cc) _ _ => change (erows cc) with (erows c3) end.
      cbn [c_parent_id set_parent_prefixes set_parent_id].
      assert (Hnid : N.to_nat nid = length (erows c)).
      { rewrite B3. unfold len_N. rewrite <- Erows. unfold erows. rewrite map_length. lia. }
      rewrite B1. eapply ch_elem; [|apply chain_app; exact I1].
      rewrite nth_error_app2 by lia. rewrite Hnid, Nat.sub_diag. reflexivity.
    + cbn [c_parent_prefixes set_parent_prefixes]. rewrite app_length, B5, Epp, I2. cbn. lia.
    + cbn [c_parent_prefixes set_parent_prefixes]. apply Forall_app. split; [rewrite B5, Epp; exact I3|].
      constructor; [rewrite Etn, I4a; exact Htp|constructor].
    + cbn [c_cur_attrs set_parent_prefixes set_parent_id]. rewrite B6. exact A4.
    + cbn [c_entities set_parent_prefixes set_parent_id]. rewrite B9. exact Eent.
  - ib H idx Hidx. ib H q3 H3. destruct q3 as [nid c3]. injection H as <-.
    destruct (append_node_inv_t _ _ _ _ _ H3) as (B1 & B2 & B3 & B4 & B5 & B6 & B7 & B8 & B9).
    match goal with |- SimT ?cc _ /\ _ => change (erows cc) with (erows c3); change (attrs_of cc) with (attrs_of c3);
      change (c_after_text cc) with (c_after_text c3) end.
    cbn [ekind] in B1. rewrite Etn, I4b in B1. rewrite Epid, Erows in B1.
    split; [|split; [eauto|split; [rewrite B2; exact Eattrs|rewrite B7; exact Eat]]].
    constructor.
    + cbn [c_parent_id set_awaiting]. match goal with |- chain (erows ?cc) _ _ => change (erows cc) with (erows c3) end.
      rewrite B1, B4, Epid. apply chain_app. exact I1.
    + cbn [c_parent_prefixes set_awaiting]. rewrite B5, Epp. exact I2.
    + cbn [c_parent_prefixes set_awaiting]. rewrite B5, Epp. exact I3.
    + cbn [c_cur_attrs set_awaiting]. rewrite B6. exact A4.
    + cbn [c_entities set_awaiting]. rewrite B9. exact Eent.
Qed.

(* ElementEnd Close *)
Lemma step_close_t pfx loc r c c' stk : SimT c stk -> sb pfx = [] ->
  T (TElementEnd (EClose pfx loc) r) c = Ok c' ->
  exists stk', stk = sb loc :: stk' /\ SimT c' stk' /\ erows c' = erows c /\ attrs_of c' = attrs_of c /\
               c_after_text c' = [].
Proof.
  intros [S1 S2 S3 S4 S5] Hp H. cbn [Parse.token token_with] in H. ib H c0 H0.
  destruct (reset_after_text_inv _ _ H0) as (R1 & R2 & R3 & R4 & R5 & R6 & R7 & R8).
  unfold process_element in H.
  destruct (slice_len (tn_name (c_tag_name c0)) =? 0); [noerr|].
  ib H q1 H1. destruct q1 as [nss c1].
  destruct (resolve_namespaces_inv_t _ _ _ H1) as (N1 & N2 & N3 & N4 & N5 & N6 & N7 & N8).
  ib H q2 H2. destruct q2 as [ar c2].
  unfold resolve_attributes in H2. cbn [c_cur_attrs set_ns_start_idx] in H2. rewrite N3, R6, S4 in H2.
  inversion H2; subst ar c2. clear H2. cbv zeta in H.
  cbn [c_parent_prefixes c_entity_floor set_ns_start_idx c_doc c_parent_id] in H.
  destruct (len_N (c_parent_prefixes c1) <=? c_entity_floor c1); [noerr|].
  ib H pnd Hpn. destruct (nth_N (d_nodes (c_doc c1)) (c_parent_id c1)) as [pnd'|] eqn:En; [|discriminate].
  inversion Hpn; subst pnd'. clear Hpn.
  ib H ppref Hpp. destruct (rev (c_parent_prefixes c1)) as [|lastp rp] eqn:Er; [discriminate|].
  inversion Hpp; subst lastp. clear Hpp.
  ib H nodes' Hn. ib H u Hu.
  apply nth_N_nth in En.
  assert (Erow : nth_error (erows c) (N.to_nat (c_parent_id c)) = Some (erowof pnd)).
  { rewrite <- R1, <- N1, <- R4, <- N4. unfold erows. rewrite nth_error_map, En. reflexivity. }
  eapply upd_node_erows in Hn; [|intros; reflexivity].
  inversion S1 as [id k Hk|id par ns0 local ar0 nss0 stk' Hk Hch]; subst.
  { rewrite Erow in Hk. inversion Hk as [[Hpar Hkind]]. unfold erowof in *. rewrite Hpar in H.
    cbn [set_awaiting set_doc] in H. noerr. }
  rewrite Erow in Hk. inversion Hk as [[Hpar Hkind]].
  assert (Hkind' : nd_kind pnd = KElement ns0 local ar0 nss0).
  { destruct (nd_kind pnd); cbn [ekind] in Hkind; try discriminate; exact Hkind. }
  rewrite Hkind' in Hu. rewrite Hpar in H.
  destruct (negb (bytes_eqb (sb pfx) (sb ppref)) || negb (bytes_eqb (sb loc) (sb local))) eqn:Ech; [noerr|].
  apply orb_false_iff in Ech. destruct Ech as [_ Ech]. apply negb_false_iff in Ech. apply bytes_eqb_true in Ech.
  cbn [c_parent_prefixes set_awaiting set_doc set_ns_start_idx] in H.
  destruct (removelast (c_parent_prefixes c1)) as [|p0 pr] eqn:Erl; [discriminate|].
  inversion H; subst c'. clear H.
  exists stk'. split; [rewrite Ech; reflexivity|].
  assert (Epp : c_parent_prefixes c1 = c_parent_prefixes c) by (rewrite N5, R5; reflexivity).
  assert (Hne : c_parent_prefixes c <> []) by (destruct (c_parent_prefixes c); [cbn in S2; lia|discriminate]).
  split; [|split; [|split]].
  - constructor.
    + cbn [c_parent_id set_parent_prefixes set_parent_id].
      match goal with |- chain (erows ?cc) _ _ => change (erows cc) with (map erowof nodes') end.
      rewrite Hn. fold (erows c1). rewrite N1, R1. exact Hch.
    + cbn [c_parent_prefixes set_parent_prefixes]. rewrite <- Erl, Epp, removelast_length by exact Hne.
      rewrite S2. reflexivity.
    + cbn [c_parent_prefixes set_parent_prefixes]. rewrite <- Erl, Epp. apply Forall_removelast. exact S3.
    + cbn [c_cur_attrs set_parent_prefixes set_parent_id set_awaiting set_doc set_ns_start_idx]. rewrite N3, R6. exact S4.
    + cbn [c_entities set_parent_prefixes set_parent_id set_awaiting set_doc set_ns_start_idx]. rewrite N8, R8. exact S5.
  - match goal with |- erows ?cc = _ => change (erows cc) with (map erowof nodes') end.
    rewrite Hn. fold (erows c1). rewrite N1, R1. reflexivity.
  - match goal with |- attrs_of ?cc = _ => change (attrs_of cc) with (attrs_of c1) end. rewrite N2, R2. reflexivity.
  - cbn [c_after_text set_parent_prefixes set_parent_id set_awaiting set_doc set_ns_start_idx]. rewrite N7. exact R3.
Qed.

End BuildT.
