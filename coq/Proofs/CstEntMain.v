(* Proofs/CstEntMain.v -- C07 on whole documents: "a reference behaves exactly as if the
   replacement text stood in its place".  The rendering of every well-formed document of
   Spec/CstEnt.v (internal DTD with general entities, references in character data and in
   attribute values, nested references) parses -- with allow_dtd -- to exactly the tree of the
   document in which every reference has been replaced by what it stands for
   ([parse_render_sem_ent_partial]); so a document and any other spelling of its inlined form have
   the same view ([hoist_insensitive_partial], [inlined_equiv_partial]); without allow_dtd the
   document is refused with DtdDetected ([dtd_refused]).
   PARTIAL: the theorems named _partial assume [etext_only c = true]: every declared entity is
   character data (EText); such entities may be used in content and in attribute values and may
   refer to each other. *)
From Coq Require Import Ascii String.
From Coq Require Import List NArith PeanoNat Bool Lia ZifyBool ZifyN ZifyNat.
Import ListNotations.
From RX Require Import Generated.
From RX.Model Require Import Base CharClass Stream Tokenizer Doc Builder Parse.
From RX.Spec Require Cst CstText CstEnt Detector.
From RX.Spec Require Tree.
From RX.Spec Require Import Text.
From RX.Proofs Require Import Tactics CstLex CstBuild CstTree CstItems CstDoc CstMain.
From RX.Proofs Require Import CstTextSem CstTextLex CstTextBuild CstTextItems CstTextDoc CstTextMain.
From RX.Proofs Require Import CstEntSem CstEntText CstEntAttr CstEntMeaning CstEntRun CstEntLex CstEntDtd CstEntBuild CstEntInline CstEntItems CstEntDoc.
From RX.Proofs Require KeystoneEnc KeystoneBuilder KeystoneParse CstFinal.
Open Scope N_scope.

(* the number of attributes of the inlined document *)
Definition edoc_nattrs (c : E.doc) : nat :=
  match E.inline c with Some (cT, _) => tdoc_nattrs cT | None => O end.

Theorem parse_render_sem_ent_partial_bounded : forall (c : E.doc) (opt : options),
  E.wf_doc c = true -> etext_only c = true -> allow_dtd opt = true ->
  N.of_nat (length (E.sem c)) < nodes_limit opt ->
  N.of_nat (length (E.sem c)) < u32_max ->
  N.of_nat (edoc_nattrs c) < u32_max ->
  exists d, parse (E.render c) opt = Ok d /\
            view (E.render c) d = E.sem c /\
            (forall nd ns local ar nss, In nd (d_nodes d) -> nd_kind nd = KElement ns local ar nss -> ns = None) /\
            (forall a, In a (d_attrs d) -> ad_ns_idx a = None).
Proof.
  intros c opt Hwf Het Hdtd Hlim Hmax Hattr. set (text := E.render c).
  destruct (ewf_doc_parts c Hwf) as [_ _ _ _ _ _ (name & attrs & ws & body & Er) _ _ (root' & tr & Hroot & Hinl & _ & _) _].
  set (cT := {| T.d_before := map (fun p => (E.misc_item (fst p), snd p)) (E.d_before c)
                               ++ map (fun p => (E.misc_item (snd p), fst p)) (E.d_mid c);
                T.d_ws0 := E.d_ws0 c; T.d_root := root';
                T.d_after := map (fun p => (fst p, E.misc_item (snd p))) (E.d_after c);
                T.d_ws_end := E.d_ws_end c |}) in *.
  assert (Esem : E.sem c = T.sem cT) by (unfold E.sem; rewrite Hinl; reflexivity).
  unfold edoc_nattrs in Hattr. rewrite Hinl in Hattr. rewrite Esem in *.
  destruct (eparse_document_ok c (init_ctx text opt) cT tr Hwf Het Hinl (init_ctx_CI text opt) eq_refl eq_refl eq_refl)
    as (cf & K & E & Habs0 & Hpp & I & F).
  { unfold node_room. rewrite tnsizes_doc. cbn [c_doc init_ctx d_nodes c_opt]. unfold len_N. cbn [length]. lia. }
  { unfold attr_room. cbn [c_doc init_ctx d_attrs]. unfold len_N. cbn [length]. unfold tdoc_nattrs in Hattr. lia. }
  fold text in E, F. cbn [c_parent_id init_ctx c_doc d_nodes] in F. change (len_N [_]) with 1 in F.
  cbn [c_parent_prefixes init_ctx] in Hpp.
  assert (Habs : absn (c_doc cf) = (None, KRoot) :: K) by (rewrite Habs0; reflexivity).
  set (d := c_doc cf) in *.
  destruct (d_nodes d) as [|rootnd nodes] eqn:En; [unfold absn in Habs; rewrite En in Habs; discriminate|].
  unfold absn in Habs. rewrite En in Habs. cbn [map] in Habs. injection Habs as Hp0 Hk0 HK.
  set (TT := tag_list 0 1 (doc_items (erase_doc cT))) in *.
  assert (HlenK : length K = length TT).
  { clear - F. induction F; cbn [length]; lia. }
  assert (HlenT : N.of_nat (length TT) = N.of_nat (length (T.sem cT))).
  { unfold TT. rewrite tag_list_len. apply tnsizes_doc. }
  assert (Hlen : len_N (d_nodes d) = 1 + N.of_nat (length (T.sem cT))).
  { rewrite En. unfold len_N. cbn [length]. rewrite <- HK in HlenK. rewrite map_length in HlenK. lia. }
  (* the arena is the encoding of a tree *)
  assert (HP : KeystoneBuilder.P cf).
  { eapply (KeystoneParse.parse_document_Q text context (Parse.token text) KeystoneBuilder.P).
    - intros tok x x'. apply KeystoneParse.token_P.
    - exists Tree.KdRoot, [], []. apply (KeystoneParse.init_context_Inv text opt). apply init_context_eq.
    - exact E. }
  destruct HP as (k & cs & outer & Inv).
  pose proof (KeystoneBuilder.inv_pp _ _ _ _ Inv) as Ipp. rewrite Hpp in Ipp. cbn [length] in Ipp.
  destruct outer as [|o outer]; [|cbn [length] in Ipp; lia].
  pose proof (KeystoneBuilder.inv_kinds _ _ _ _ Inv) as Ik. cbn [KeystoneBuilder.kinds_ok] in Ik. subst k.
  pose proof (KeystoneBuilder.inv_rows _ _ _ _ Inv) as Irows.
  unfold KeystoneEnc.ztree in Irows. cbn [KeystoneEnc.plug] in Irows.
  (* the root element is a child of the Root node *)
  assert (Er' : exists attrs' body', root' = T.IElem name attrs' ws body').
  { rewrite Er, inline_elem in Hroot. destruct (E.inline_attrs _ false attrs) as [[a' ta]|]; [|discriminate].
    cbn [E.obind fst] in Hroot. destruct body as [[cs0 w2]|].
    - destruct (E.inline_items _ false cs0) as [[b0 tb0]|]; [|discriminate]. cbn [E.obind] in Hroot. injection Hroot as <- _. eauto.
    - injection Hroot as <- _. eauto. }
  destruct Er' as (attrs' & body' & Er').
  set (k0 := length (tag_list 0 1 (map fst (Cst.d_before (erase_doc cT))))).
  assert (HT0 : exists m, nth_error TT k0 = Some (0, Cst.VElem name (T.eattrs attrs') m)).
  { unfold TT, doc_items. rewrite tag_list_app. unfold k0. rewrite nth_error_app2 by lia.
    rewrite Nat.sub_diag. cbn [tag_list]. change (Cst.d_root (erase_doc cT)) with (erase root').
    rewrite Er', erase_elem. fold (CstTree.eattrs (map erase_attr attrs')).
    destruct body' as [[cs0 w2]|]; [rewrite tag_elem|cbn [tag]]; rewrite eattrs_erase; cbn [app nth_error]; eauto. }
  destruct HT0 as (m & HT0).
  destruct (Forall2_nth_r _ _ _ F _ _ HT0) as (rw & Hrw & Hkm).
  rewrite <- HK in Hrw. apply nth_error_map_inv in Hrw. destruct Hrw as (nd0 & Hnd0 & Eabs).
  destruct Hkm as [Hpar Hkind]. rewrite <- Eabs in Hpar, Hkind. cbn [abs_nd fst snd] in Hpar, Hkind.
  assert (Hel : is_element_kind (nd_kind nd0) = true) by (destruct (nd_kind nd0); try contradiction; reflexivity).
  destruct (CstFinal.root_has_element d cs (N.of_nat (S k0)) nd0) as (it & Eit & Eany).
  { exact Irows. }
  { rewrite Hlen. unfold u32_max in Hmax. lia. }
  { rewrite Nat2N.id, En. cbn [nth_error]. exact Hnd0. }
  { exact Hpar. }
  { exact Hel. }
  exists d. split; [|split; [|split]].
  - unfold parse. rewrite init_context_eq. cbn [bind]. rewrite Hdtd. unfold tok_ev in E. rewrite E. cbn [bind].
    fold d. rewrite Eit. cbn [bind]. rewrite Eany. cbn [bind negb]. rewrite Hpp. reflexivity.
  - unfold view. rewrite En. cbn [view_from]. unfold view_node. rewrite Hk0.
    change (0 + 1) with 1.
    rewrite (view_from_rows text d nodes TT 1).
    + unfold TT. rewrite tag_list_sem. rewrite <- sem_erase_doc. symmetry. apply sem_doc_items.
    + rewrite HK. exact F.
    + intros k q v Hk. rewrite (tag_list_counts _ 0 1 ltac:(lia) k q v Hk). fold TT.
      unfold children_count. rewrite En. cbn [filter].
      rewrite Hp0.
      apply eq_sym. apply (count_rows text (d_attrs d)). rewrite HK. exact F.
  - intros nd ns local ar nss Hin Hk. rewrite En in Hin. destruct Hin as [<-|Hin].
    + congruence.
    + apply (in_map abs_nd) in Hin. rewrite HK in Hin.
      destruct (Forall2_In_l _ _ _ F _ Hin) as ([q v] & _ & _ & Hkm').
      cbn [abs_nd snd] in Hkm'. rewrite Hk in Hkm'. destruct v; try contradiction. apply Hkm'.
  - intros a Ha. pose proof (ci_attrs _ I) as HF. rewrite Forall_forall in HF. apply HF. exact Ha.
Qed.
Print Assumptions parse_render_sem_ent_partial_bounded.

(* ------------------------------------------------------------------------------------------ *)
(* without allow_dtd the document is refused (no restriction on the declarations)              *)
(* ------------------------------------------------------------------------------------------ *)
Lemma wf_item_elem_gen iv name attrs ws body :
  E.wf_item iv (E.IElem name attrs ws body) =
  Cst.wf_name name && negb (T.is_xmlns name)
  && forallb (E.wf_attr iv) attrs && forallb (fun a => negb (T.is_xmlns (E.a_name a))) attrs
  && Cst.names_distinct (map E.a_name attrs) && Cst.wf_ws ws &&
  match body with
  | None => true
  | Some (cs, ws2) => Cst.wf_ws ws2 && E.no_adjacent_text cs && forallb (E.wf_item iv) cs
  end.
Proof.
  destruct body as [[cs ws2]|]; reflexivity.
Qed.

Lemma asc_eitem_gen iv : forall i, E.wf_item iv i = true -> asc (E.r_item i).
Proof.
  intros i. induction i as [n a w|n a w cs w2 IH|ps|bs|t s v] using eitem_ind; intros Hwf.
  - rewrite wf_item_elem_gen, !andb_true_iff in Hwf. destruct Hwf as [[[[[[Hn _] Ha] _] _] Hw] _]. rewrite er_item_elem.
    repeat apply asc_app; try (apply asc_lit; reflexivity).
    + apply asc_name; exact Hn.
    + apply (asc_eattrs iv); exact Ha.
    + apply asc_ws; exact Hw.
  - rewrite wf_item_elem_gen, !andb_true_iff in Hwf. destruct Hwf as [[[[[[Hn _] Ha] _] _] Hw] [[Hw2 _] Hcs]]. rewrite er_item_elem.
    repeat apply asc_app; try (apply asc_lit; reflexivity).
    + apply asc_name; exact Hn.
    + apply (asc_eattrs iv); exact Ha.
    + apply asc_ws; exact Hw.
    + clear - IH Hcs. induction IH as [|c r Hc _ IHr]; [constructor|].
      cbn [forallb] in Hcs. apply andb_true_iff in Hcs. destruct Hcs as [H1 H2].
      rewrite r_items_cons. apply asc_app; auto.
    + apply asc_name; exact Hn.
    + apply asc_ws; exact Hw2.
  - cbn [E.wf_item E.r_item] in *. unfold E.wf_epieces in Hwf. rewrite !andb_true_iff in Hwf.
    destruct Hwf as [_ [H _]]. apply (asc_epieces _ _ _ _ _ H).
  - apply (asc_item (Cst.IComment bs)). exact Hwf.
  - apply (asc_item (Cst.IPI t s v)). exact Hwf.
Qed.

Lemma asc_decl_gen d : E.wf_decl d = true -> asc (E.r_decl d).
Proof.
  unfold E.wf_decl, E.wf_value. rewrite !andb_true_iff.
  intros ((((((H0 & H1) & Hn) & H2) & Hq) & (Hv & Hps)) & H3).
  assert (Hq' : E.e_quote d = 39 \/ E.e_quote d = 34) by lia.
  destruct (ws1_parts _ H1) as [_ H1']. destruct (ws1_parts _ H2) as [_ H2'].
  assert (Hval : asc (E.r_value (E.e_value d))).
  { destruct (E.e_value d) as [ps|its]; cbn [E.r_value].
    - unfold E.wf_epieces in Hps. apply andb_true_iff in Hps. apply (asc_epieces _ _ _ _ _ (proj1 Hps)).
    - apply andb_true_iff in Hps. destruct Hps as [Hps _]. apply asc_flat. apply Forall_forall. intros i Hi.
      rewrite forallb_forall in Hps. apply (asc_eitem_gen true). apply Hps. exact Hi. }
  unfold E.r_decl.
  apply asc_app; [apply asc_ws; exact H0|]. apply asc_app; [apply asc_lit; reflexivity|].
  apply asc_app; [apply asc_ws; exact H1'|]. apply asc_app; [apply asc_name; exact Hn|].
  apply asc_app; [apply asc_ws; exact H2'|]. apply asc_app; [apply asc_quote; exact Hq'|].
  apply asc_app; [exact Hval|]. apply asc_app; [apply asc_quote; exact Hq'|].
  apply asc_app; [apply asc_ws; exact H3|apply asc_lit; reflexivity].
Qed.

Lemma asc_dtd_gen t : E.wf_dtd t = true -> asc (E.r_dtd t).
Proof.
  unfold E.wf_dtd. rewrite !andb_true_iff. intros [[[[[H1 H2] H3] H4] H5] H6].
  destruct (ws1_parts _ H1) as [_ H1'].
  unfold E.r_dtd.
  apply asc_app; [apply asc_lit; reflexivity|]. apply asc_app; [apply asc_ws; exact H1'|].
  apply asc_app; [apply asc_name; exact H2|]. apply asc_app; [apply asc_ws; exact H3|].
  apply asc_app; [apply asc_lit; reflexivity|].
  apply asc_app; [apply asc_flat; apply Forall_forall; intros d Hd; rewrite forallb_forall in H4; apply asc_decl_gen; auto|].
  apply asc_app; [apply asc_ws; exact H5|]. apply asc_app; [apply asc_lit; reflexivity|].
  apply asc_app; [apply asc_ws; exact H6|apply asc_lit; reflexivity].
Qed.

Lemma erender_asc_gen c : E.wf_doc c = true -> asc (E.render c).
Proof.
  intros H. rewrite (erender_shape c H). pose proof (ewf_doc_parts c H) as [H1 H2 H3 H4 H5 H6 _ H8 H9 _ _].
  destruct (regroup_wf _ _ H1 H4) as [R1 R2].
  apply asc_app; [apply asc_pairs; exact R1|].
  apply asc_app; [apply asc_ws; exact R2|].
  apply asc_app; [apply asc_dtd_gen; exact H5|].
  apply asc_app; [apply asc_pairs; exact H6|].
  apply asc_app; [apply asc_ws; exact H2|].
  apply asc_app; [apply asc_eitem; exact H8|].
  apply asc_app; [apply asc_pairs; exact H9|].
  apply asc_app; [apply asc_ws; exact H3|constructor].
Qed.

Lemma misc_nsizes l : forallb (fun p => Cst.is_misc (fst p) && Cst.wf_item (fst p) && Cst.wf_ws (snd p)) l = true ->
  nsizes (map fst l) = N.of_nat (length l).
Proof.
  induction l as [|[i w] r IH]; intros H; [reflexivity|]. cbn [forallb fst snd] in H. rewrite !andb_true_iff in H.
  destruct H as [[[A _] _] D]. cbn [map fst]. rewrite nsizes_cons, IH by exact D. cbn [length].
  destruct i; try discriminate; unfold nsize; cbn; lia.
Qed.

Theorem dtd_refused : forall (c : E.doc) (opt : options),
  E.wf_doc c = true -> allow_dtd opt = false ->
  N.of_nat (length (E.d_before c)) < nodes_limit opt ->      (* room for the comments and PIs before the DOCTYPE *)
  N.of_nat (length (E.d_before c)) < u32_max ->
  parse (E.render c) opt = Err DtdDetected.
Proof.
  intros c opt Hwf Hdtd Hlim Hmax. set (text := E.render c).
  pose proof (erender_asc_gen c Hwf) as Hascii. fold text in Hascii.
  pose proof (edecl_render c Hwf) as Hdecl. fold text in Hdecl.
  pose proof (erender_shape c Hwf) as Etext. fold text in Etext.
  pose proof (ewf_doc_parts c Hwf) as [H1 _ _ H4 _ _ _ _ _ _ _].
  destruct (regroup_wf _ _ H1 H4) as [R1 R2].
  set (B := CstDoc.regroup (E.d_ws0 c) (bef c)) in *. set (wB := last_ws (E.d_ws0 c) (bef c)) in *.
  set (t := E.d_dtd c) in *.
  remember (r_pairs (mid c) ++ E.d_ws1 c ++ E.r_item (E.d_root c) ++ r_pairs (aft c) ++ E.d_ws_end c ++ []) as rest2.
  assert (Hstop1 : misc_stop (E.r_dtd t ++ rest2)).
  { unfold E.r_dtd, E.kw_doctype. cbn [app]. split; [reflexivity|]. split; reflexivity. }
  pose proof (W_new text) as HW0.
  unfold parse. rewrite init_context_eq. cbn [bind]. rewrite Hdtd.
  unfold parse_document. rewrite st_new.
  rewrite starts_with_st by exact HW0. rewrite bom_false by exact Hascii. cbn [bind].
  unfold starts_with_declaration. rewrite starts_with_st, avail_st by exact HW0.
  change (b "<?xml") with [60; 63; 120; 109; 108]. fold (decl_test text). rewrite Hdecl. cbn [bind].
  unfold parse_misc at 1. cbn [CstLex.st s_rest].
  fold (CstLex.st text 0 text).
  assert (HW0' : CstLex.W text 0 (r_pairs B ++ wB ++ E.r_dtd t ++ rest2)) by (rewrite <- Etext; exact HW0).
  replace (CstLex.st text 0 text) with (CstLex.st text 0 (r_pairs B ++ wB ++ E.r_dtd t ++ rest2))
    by (rewrite <- Etext; reflexivity).
  assert (Elen : length text = length (r_pairs B ++ wB ++ E.r_dtd t ++ rest2)) by (rewrite <- Etext; reflexivity).
  destruct (misc_loop_ok text Hascii B 0 wB (E.r_dtd t ++ rest2) (init_ctx text opt) (S (length text)) HW0' R1 R2 Hstop1)
    as (c1 & K1 & E1 & _).
  { pose proof (pairs_len B R1). rewrite Elen, app_length. lia. }
  { apply init_ctx_CI. } { reflexivity. }
  { unfold B. rewrite regroup_items, (misc_nsizes _ H4). unfold bef. rewrite map_length.
    unfold node_room. cbn [c_doc init_ctx d_nodes c_opt]. unfold len_N. cbn [length]. lia. }
  fold (tok_ev text). rewrite E1. cbn [bind]. clear E1.
  pose proof (W_app _ _ _ _ HW0') as HWa. pose proof (W_app _ _ _ _ HWa) as HW1.
  rewrite skip_spaces_none by (try exact HW1; apply Hstop1).
  rewrite starts_with_st by exact HW1. change (b "<!DOCTYPE") with E.kw_doctype.
  replace (prefix_b E.kw_doctype (E.r_dtd t ++ rest2)) with true
    by (unfold E.r_dtd; rewrite <- !app_assoc; symmetry; apply prefix_b_app_same).
  reflexivity.
Qed.
Print Assumptions dtd_refused.

(* ------------------------------------------------------------------------------------------ *)
(* the bounds follow from "the input is at most u32::MAX bytes long" (character-data entities  *)
(* add no node and no attribute)                                                              *)
(* ------------------------------------------------------------------------------------------ *)
Lemma flat_eattr_len attrs : (length attrs <= length (flat_map E.r_attr attrs))%nat.
Proof.
  induction attrs as [|a r IH]; [cbn; lia|]. cbn [flat_map length]. rewrite app_length.
  unfold E.r_attr at 1. rewrite !app_length. cbn [length]. lia.
Qed.

Section Bounds.
Variable decls : list E.edecl.
Hypothesis Hetext : Forall (fun d => exists vps, E.e_value d = E.EText vps) decls.
Variable k : nat.
Notation tb := (E.level decls k).

Lemma regroup_inline_cons i r its1 tr1 its2 tr2 :
  E.no_adjacent_text (i :: r) = true ->
  E.inline_item tb false i = Some (its1, tr1) -> E.inline_items tb false r = Some (its2, tr2) ->
  E.regroup (its1 ++ its2) = E.regroup its1 ++ E.regroup its2.
Proof.
  intros Hna Ei Er. destruct (E.is_text i) eqn:Eti.
  - apply regroup_app. destruct r as [|d r']; [cbn [E.inline_items] in Er; injection Er as <- _; exact Logic.I|].
    cbn [E.no_adjacent_text] in Hna. apply andb_true_iff in Hna. destruct Hna as [Hna _]. rewrite Eti in Hna.
    cbn [andb] in Hna. apply negb_true_iff in Hna.
    cbn [E.inline_items] in Er. destruct (E.inline_item tb false d) as [[itd trd]|] eqn:Ed; [|discriminate].
    cbn [E.obind fst snd] in Er. destruct (E.inline_items tb false r') as [[itr trr]|]; [|discriminate].
    cbn [E.obind fst snd] in Er. injection Er as <- _.
    destruct (inline_nontext decls k d itd trd Hna Ed) as (x & -> & Hx). exact Hx.
  - destruct (inline_nontext decls k i its1 tr1 Eti Ei) as (x & -> & Hx). cbn [app]. rewrite !regroup_nontext by exact Hx. reflexivity.
Qed.

Definition Bi (i : E.item) : Prop := forall its tr,
  E.wf_item false i = true -> E.inline_item tb false i = Some (its, tr) ->
  nsizes (den its) + (if is_eelem i then 1 else 0) <= N.of_nat (length (E.r_item i)) /\
  (nattrs_items (den its) + (if is_eelem i then 1 else 0) <= length (E.r_item i))%nat.

Lemma Bl_of cs : Forall Bi cs -> forall its tr,
  ewf_items cs = true -> E.no_adjacent_text cs = true -> E.inline_items tb false cs = Some (its, tr) ->
  nsizes (den its) <= N.of_nat (length (E.r_items cs)) /\ (nattrs_items (den its) <= length (E.r_items cs))%nat.
Proof.
  induction 1 as [|i r Hi _ IH]; intros its tr Hwf Hna Hin.
  - cbn [E.inline_items] in Hin. injection Hin as <- <-. cbn. lia.
  - cbn [ewf_items] in Hwf. apply andb_true_iff in Hwf. destruct Hwf as [Hw1 Hw2].
    cbn [E.inline_items] in Hin.
    destruct (E.inline_item tb false i) as [[its1 tr1]|] eqn:Ei; [|discriminate]. cbn [E.obind fst snd] in Hin.
    destruct (E.inline_items tb false r) as [[its2 tr2]|] eqn:Er; [|discriminate]. cbn [E.obind fst snd] in Hin.
    injection Hin as <- <-.
    assert (Hna2 : E.no_adjacent_text r = true).
    { destruct r as [|d r']; [reflexivity|]. cbn [E.no_adjacent_text] in Hna. apply andb_true_iff in Hna. apply Hna. }
    unfold den. rewrite (regroup_inline_cons i r its1 tr1 its2 tr2 Hna Ei Er), map_app.
    fold (den its1). fold (den its2). rewrite nsizes_app, nattrs_items_app, r_items_cons, app_length.
    destruct (Hi its1 tr1 Hw1 Ei) as [A1 A2]. destruct (IH its2 tr2 Hw2 Hna2 eq_refl) as [B1 B2].
    destruct (is_eelem i); lia.
Qed.

Lemma Bi_all : forall i, Bi i.
Proof.
  intros i. induction i as [n a w|n a w cs w2 IH|ps|bs|t s v] using eitem_ind; intros its tr Hwf Hin.
  - rewrite inline_elem in Hin. destruct (E.inline_attrs tb false a) as [[a' ta]|] eqn:Eat; [|discriminate].
    cbn [E.obind fst snd] in Hin. injection Hin as <- <-. pose proof (inline_attrs_len _ _ _ _ _ Eat) as Elen.
    rewrite den_single by reflexivity. rewrite erase_elem, nsizes_cons. change (nsizes []) with 0. cbn [nattrs_items].
    rewrite nattrs_elem, map_length, Elen. unfold nsize. rewrite sem_item_elem. cbn [length is_eelem].
    rewrite er_item_elem, !app_length. cbn [length]. pose proof (flat_eattr_len a). lia.
  - destruct (ewf_elem_parts _ _ _ _ Hwf) as (_ & _ & _ & _ & _ & _ & Hna & Hcs).
    rewrite inline_elem in Hin. destruct (E.inline_attrs tb false a) as [[a' ta]|] eqn:Eat; [|discriminate].
    cbn [E.obind fst snd] in Hin. destruct (E.inline_items tb false cs) as [[its2 tr2]|] eqn:Ecs; [|discriminate].
    cbn [E.obind fst snd] in Hin. injection Hin as <- <-. pose proof (inline_attrs_len _ _ _ _ _ Eat) as Elen.
    rewrite den_single by reflexivity. rewrite erase_elem, nsizes_cons, nsize_elem. change (nsizes []) with 0. cbn [nattrs_items].
    rewrite nattrs_elem, map_length, Elen. fold (den its2). cbn [is_eelem].
    destruct (Bl_of cs IH its2 tr2 Hcs Hna Ecs) as [B1 B2].
    rewrite er_item_elem, !app_length. cbn [length]. pose proof (flat_eattr_len a). lia.
  - pose proof (esteps_le _ Hwf) as Hst. cbn [esteps] in Hst.
    assert (Hne : ps <> []) by (cbn [E.wf_item] in Hwf; destruct ps; [discriminate|discriminate]).
    pose proof (esegs_ne ps Hne) as Hne'. assert (1 <= length (E.r_item (E.IText ps)))%nat by (destruct (esegs ps); [congruence|cbn [length] in Hst; lia]).
    pose proof (inline_text_all decls Hetext k ps its tr Hin) as Htexts.
    cbn [is_eelem]. unfold den.
    destruct (regroup_texts its Htexts) as [[_ ->]|[_ (qs & M & -> & _)]]; cbn [map erase nattrs_items nattrs]; [cbn; lia|].
    rewrite nsizes_cons. change (nsizes []) with 0. unfold nsize. cbn [Cst.sem_item length]. lia.
  - cbn in Hin. injection Hin as <- <-. cbn [is_eelem]. unfold den. rewrite regroup_nontext by reflexivity.
    cbn [E.regroup map erase nattrs_items nattrs E.r_item Cst.r_item]. rewrite nsizes_cons. change (nsizes []) with 0.
    unfold nsize. cbn [Cst.sem_item length]. rewrite !app_length. cbn [length]. lia.
  - cbn in Hin. injection Hin as <- <-. cbn [is_eelem]. unfold den. rewrite regroup_nontext by reflexivity.
    cbn [E.regroup map erase nattrs_items nattrs E.r_item Cst.r_item]. rewrite nsizes_cons. change (nsizes []) with 0.
    unfold nsize. cbn [Cst.sem_item length]. rewrite !app_length. cbn [length]. lia.
Qed.
End Bounds.

Lemma erender_bounds c : E.wf_doc c = true -> etext_only c = true ->
  (length (E.sem c) < length (E.render c))%nat /\ (edoc_nattrs c < length (E.render c))%nat.
Proof.
  intros Hwf Het.
  pose proof (ewf_doc_parts c Hwf) as [H1 H2 H3 H4 _ H6 (name & attrs & ws & body & Er) H8 H9 (root' & tr & Hroot & Hinl & _ & _) _].
  destruct (regroup_wf _ _ H1 H4) as [R1 _].
  pose proof (etext_forall _ Het) as Hetext.
  unfold E.sem, edoc_nattrs. rewrite Hinl.
  match goal with |- (length (T.sem ?x) < _)%nat /\ _ => set (cT := x) end.
  pose proof (tnsizes_doc cT) as Hn. unfold cT in Hn. rewrite inlined_items in Hn. fold cT in Hn.
  rewrite !nsizes_app, nsizes_cons in Hn. unfold tdoc_nattrs. cbn [T.d_root cT].
  assert (Eden : den [root'] = [erase root']).
  { unfold den. rewrite Er, inline_elem in Hroot. destruct (E.inline_attrs _ false attrs) as [[a' ta]|]; [|discriminate].
    cbn [E.obind] in Hroot. destruct body as [[cs w2]|].
    - destruct (E.inline_items _ false cs) as [[b0 tb0]|]; [|discriminate]. cbn [E.obind] in Hroot. injection Hroot as <- _. reflexivity.
    - injection Hroot as <- _. reflexivity. }
  destruct (Bi_all (E.t_decls (E.d_dtd c)) Hetext E.max_level (E.d_root c) [root'] tr H8 Hroot) as [B1 B2].
  rewrite Eden, nsizes_cons in B1. change (nsizes []) with 0 in B1. rewrite Eden in B2. cbn [nattrs_items] in B2.
  assert (Eel : is_eelem (E.d_root c) = true) by (rewrite Er; reflexivity). rewrite Eel in B1, B2.
  rewrite (erender_shape c Hwf), !app_length.
  pose proof (pairs_sem_le _ R1) as P1. pose proof (pairs_sem_le _ H6) as P2. pose proof (pairs_sem_le _ H9) as P3.
  unfold nsizes in Hn. lia.
Qed.

Theorem parse_render_sem_ent_partial : forall (c : E.doc) (opt : options),
  E.wf_doc c = true ->
  etext_only c = true ->                                       (* PARTIAL: every declared entity is character data *)
  allow_dtd opt = true ->
  N.of_nat (length (E.sem c)) < nodes_limit opt ->            (* room for all nodes + the Root *)
  N.of_nat (length (E.render c)) <= u32_max ->                 (* the input is at most u32::MAX bytes long *)
  exists d, parse (E.render c) opt = Ok d /\
            view (E.render c) d = E.sem c /\
            (forall nd ns local ar nss, In nd (d_nodes d) -> nd_kind nd = KElement ns local ar nss -> ns = None) /\
            (forall a, In a (d_attrs d) -> ad_ns_idx a = None).
Proof.
  intros c opt Hwf Het Hdtd Hlim Hsz. destruct (erender_bounds c Hwf Het) as [B1 B2].
  apply parse_render_sem_ent_partial_bounded; [exact Hwf|exact Het|exact Hdtd|exact Hlim|lia|lia].
Qed.
Print Assumptions parse_render_sem_ent_partial.

(* two documents with the same inlined meaning -- however the character data is distributed over
   entities, literal text, CDATA sections and references, and whatever the layout -- have the same view *)
Theorem hoist_insensitive_partial : forall c1 c2 opt,
  E.wf_doc c1 = true -> E.wf_doc c2 = true -> etext_only c1 = true -> etext_only c2 = true ->
  allow_dtd opt = true -> E.sem c1 = E.sem c2 ->
  N.of_nat (length (E.sem c1)) < nodes_limit opt ->
  N.of_nat (length (E.render c1)) <= u32_max -> N.of_nat (length (E.render c2)) <= u32_max ->
  exists d1 d2, parse (E.render c1) opt = Ok d1 /\ parse (E.render c2) opt = Ok d2 /\
                view (E.render c1) d1 = view (E.render c2) d2.
Proof.
  intros c1 c2 opt W1 W2 T1 T2 Hd E L S1 S2.
  destruct (parse_render_sem_ent_partial c1 opt W1 T1 Hd L S1) as (d1 & P1 & V1 & _).
  destruct (parse_render_sem_ent_partial c2 opt W2 T2 Hd ltac:(rewrite <- E; exact L) S2) as (d2 & P2 & V2 & _).
  exists d1, d2. split; [exact P1|]. split; [exact P2|]. rewrite V1, V2. exact E.
Qed.
Print Assumptions hoist_insensitive_partial.

(* in particular: a document with entities and a document WITHOUT a DOCTYPE (Spec/CstText.v) in which
   the replacement text stands in place of every reference have the same view *)
Theorem inlined_equiv_partial : forall (c : E.doc) (c' : T.doc) opt,
  E.wf_doc c = true -> etext_only c = true -> allow_dtd opt = true ->
  T.wf_doc c' = true -> T.sem c' = E.sem c ->
  N.of_nat (length (E.sem c)) < nodes_limit opt ->
  N.of_nat (length (E.render c)) <= u32_max -> N.of_nat (length (T.render c')) <= u32_max ->
  exists d d', parse (E.render c) opt = Ok d /\ parse (T.render c') opt = Ok d' /\
               view (E.render c) d = view (T.render c') d'.
Proof.
  intros c c' opt W1 T1 Hd W2 E L S1 S2.
  destruct (parse_render_sem_ent_partial c opt W1 T1 Hd L S1) as (d1 & P1 & V1 & _).
  destruct (parse_render_sem_text c' opt W2 ltac:(rewrite E; exact L) S2) as (d2 & P2 & V2 & _).
  exists d1, d2. split; [exact P1|]. split; [exact P2|]. rewrite V1, V2. symmetry. exact E.
Qed.
Print Assumptions inlined_equiv_partial.

(* an example: <!DOCTYPE r [<!ENTITY a "x&#65;y"><!ENTITY b "&a;!">]><r t="&b;">&b;</r> *)
Definition ex_decl (n : bytes) (v : list E.epiece) : E.edecl :=
  {| E.e_ws0 := []; E.e_ws1 := [32]; E.e_name := n; E.e_ws2 := [32]; E.e_quote := 34; E.e_value := E.EText v; E.e_ws3 := [] |}.
Definition ex_doc : E.doc :=
  {| E.d_ws0 := []; E.d_before := [];
     E.d_dtd := {| E.t_ws1 := [32]; E.t_name := [114]; E.t_ws2 := [32];
                   E.t_decls := [ex_decl [97] [E.EP (T.PLit [120]); E.EP (T.PCharRef false [54; 53]); E.EP (T.PLit [121])];
                                 ex_decl [98] [E.ERef [97]; E.EP (T.PLit [33])]];
                   E.t_ws3 := []; E.t_ws4 := [] |};
     E.d_mid := []; E.d_ws1 := [];
     E.d_root := E.IElem [114] [{| E.a_ws := [32]; E.a_name := [116]; E.a_ws1 := []; E.a_ws2 := []; E.a_quote := 34;
                                    E.a_value := [E.ERef [98]] |}] [] (Some ([E.IText [E.ERef [98]]], []));
     E.d_after := []; E.d_ws_end := [] |}.

Corollary ex_doc_parses : forall opt, allow_dtd opt = true -> 2 < nodes_limit opt ->
  exists d, parse (E.render ex_doc) opt = Ok d /\
            view (E.render ex_doc) d = [Cst.VElem [114] [([116], [120; 65; 121; 33])] 1; Cst.VText [120; 65; 121; 33]].
Proof.
  intros opt Hd Hl.
  assert (X : N.of_nat (length (E.sem ex_doc)) = 2) by (vm_compute; reflexivity).
  assert (Y : N.of_nat (length (E.render ex_doc)) <= u32_max) by (vm_compute; discriminate).
  destruct (parse_render_sem_ent_partial ex_doc opt) as (d & P & V & _);
    [vm_compute; reflexivity|reflexivity|exact Hd|rewrite X; exact Hl|exact Y|].
  exists d. split; [exact P|]. rewrite V. vm_compute. reflexivity.
Qed.
Print Assumptions ex_doc_parses.
