(* Proofs/StrictRun.v -- every panic site of the SOURCE that the model does not represent is
   unreachable AT RUN LEVEL: [parse_strict] (StrictRunModel.v) is parse written with the strict
   variant of every function that hides such a site -- the strict Stream primitives lifted
   through all Stream functions and the whole tokenizer, the strict loops of the builder, the
   strict builder callback at every level of entity expansion -- and

       strict_refines        : parse_strict text opt = parse text opt
       parse_strict_no_panic : parse_strict text opt <> Panic p          (by parse_no_panic)

   on valid UTF-8 input with a node limit that fits u32.  A strict function returns [Panic site]
   exactly where the source would panic, so none of the sites is reached in any run.

   site (source)                                   strict function(s) in parse_strict                 reached?
   ----------------------------------------------  -------------------------------------------------  ---------
   lib.rs push_ns: debug_assert_ne!(name,Some("")) push_ns_s (init_context_s, process_attribute_s)    no: strict_refines
   tokenizer.rs Stream::as_bytes / starts_with:    avail_s, starts_with_s (ifsw, until_r), every        no: strict_refines
     &bytes[pos..end]                                parse_*_s, advance_until2_s, starts_with_declaration_s
   tokenizer.rs skip_string: from_utf8(..).unwrap  skip_string_s (parse_comment_s, parse_pi_s,          no: strict_refines
                                                     parse_cdata_s, parse_declaration_s)
   parse.rs process_cdata: split_at, &rest[2..],   cdata_norm_s, process_cdata_s (token_with_s)         no: strict_refines
     &rest[1..]
   tokenizer.rs chars(): eager &str[pos..end]      next_char_s (skip_chars_loop_r, skip_name_loop_s,    no: strict_refines
                                                     skip_name_s, consume_qname_loop_s and all callers)
   parse.rs resolve_namespaces: (start..len).into  ns_range_s, resolve_namespaces_s, process_element_s  no: strict_refines
   tokenizer.rs try_consume_byte: advance(1)       try_consume_byte_s (parse_entity_decl_s,             no: strict_refines
                                                     consume_reference_s)
   -- outside parse (read API), from Strict.v:
   lib.rs Descendants::{next,nth,next_back}        desc_next_s, desc_nth_s, desc_next_back_s            no: site_descendants_unreachable
   lib.rs print_children: depth - 2                print_loop_s, debug_document_s                       no: site_debug_depth_unreachable

   Intermediate results: StrictRunStream.v (strict Stream functions = model on streams that
   satisfy SInv), StrictRunTok.v (parse_document_rel / parse_content_rel: the strict tokenizer
   with a callback ev1 = the model tokenizer with a callback ev2 whenever ev1 and ev2 agree on
   well-formed tokens in states of the protocol invariants), StrictRunBuilder.v (the strict loops
   and the strict callback = the model ones, by induction on the entity level). *)
From Coq Require Import Ascii String.
From Coq Require Import List NArith Bool.
From RX Require Import Generated.
From RX.Model Require Import Base CharClass Stream Tokenizer Doc Builder Parse.
From RX.Proofs Require Import StrictModel StrictRunModel StrictRunBuilder Strict.
Open Scope N_scope.

Theorem strict_refines : forall text opt, valid_utf8_b text = true -> nodes_limit opt <= u32_max -> parse_strict text opt = parse text opt.
Proof. exact StrictRunBuilder.strict_refines. Qed.
Print Assumptions strict_refines.

Theorem parse_strict_no_panic : forall text opt p, valid_utf8_b text = true -> nodes_limit opt <= u32_max ->
  parse_strict text opt <> Panic p.
Proof. exact StrictRunBuilder.parse_strict_no_panic. Qed.
Print Assumptions parse_strict_no_panic.
