(* Proofs/CstRangeEFrags.v -- C13 / C18 on the fragment of Spec/CstEnt.v (character-data entities),
   part 3: the fragments observed in CstRangeEText.v are those computed from the abstract syntax in
   CstRangeEDefs.v ([frs_ps], [frs_segs]), given where the declarations are written. *)
From Coq Require Import Ascii String.
From Coq Require Import List NArith PeanoNat Bool Lia ZifyBool ZifyN ZifyNat.
Import ListNotations.
From RX Require Import Generated.
From RX.Model Require Import Base CharClass Stream Tokenizer Doc Builder Parse.
From RX.Spec Require Cst CstText CstEnt Detector.
From RX.Spec Require Import Text.
From RX.Proofs Require Import Tactics CstLex CstBuild TextMachine TextMerge HoistProofs NoPanicUtf8 DetectorProofs.
From RX.Proofs Require Import CstTextSem CstTextLex CstTextBuild CstEntSem CstEntText CstEntMeaning CstEntRun CstEntDtd.
From RX.Proofs Require Import CstRangeDefs CstRangeBuild CstRangeTDefs CstRangeTBuild CstRangeEDefs CstRangeEText.
Open Scope N_scope.

(* what is observed of a fragment *)
Definition gdesc (x : cow * range) : fdesc :=
  (snd x, match fst x with CowBorrowed s => Some (pr s) | CowOwned _ => None end).

(* the segments of CstEntRun.v are those of CstRangeEDefs.v *)
Definition rseg_of (s : eseg) : rseg := match s with ESS l => RS l | ESC bs => RC bs end.
Lemma rsegs_esegs : forall ps, rsegs ps = map rseg_of (esegs ps).
Proof.
  induction ps as [|p r IH]; [reflexivity|].
  destruct p as [[bs|hex ds|e|bs]|n]; cbn [rsegs esegs]; rewrite IH;
    destruct (esegs r) as [|[l|b0] t]; reflexivity.
Qed.

(* the detector: the traces of expansions are balanced *)
Lemma dec_depth_depth ld : ld_depth (dec_depth ld) = ld_depth ld - 1.
Proof.
  unfold dec_depth. destruct (0 <? ld_depth ld) eqn:E; cbn [ld_depth]; lia.
Qed.

Lemma ld_enter_depth ld ld1 : ld_enter ld = Some ld1 -> ld_depth ld1 = ld_depth ld + 1 /\ ld_depth ld < 10.
Proof.
  intros H. rewrite (mk_eta ld) in H. apply ld_enter_some in H. destruct H as [Hlt [[H0 ->]|[H0 [_ ->]]]].
  - unfold DetectorProofs.mk. cbn. rewrite H0. split; [reflexivity|lia].
  - unfold DetectorProofs.mk. cbn. split; [reflexivity|exact Hlt].
Qed.

Lemma Exp_depth decls : forall m acc ps q tr F, Exp decls m acc ps q tr F ->
  forall ld ld', ld_run ld tr = Some ld' -> ld_depth ld' = ld_depth ld.
Proof.
  intros m acc ps q tr F H.
  induction H as [m acc|m acc p r q tr F _ IH|m acc n r d vps qv trv Fv q tr F Hfd Hval _ IHv _ IHr]; intros ld ld' Hld.
  - cbn [ld_run] in Hld. injection Hld as <-. reflexivity.
  - apply IH. exact Hld.
  - cbn [ld_run] in Hld. destruct (ld_enter ld) as [ld1|] eqn:Ee; [|discriminate].
    rewrite ld_run_app in Hld. destruct (ld_run ld1 trv) as [ld1'|] eqn:E1; [|discriminate]. cbn [ld_run] in Hld.
    rewrite (IHr _ _ Hld), dec_depth_depth, (IHv _ _ E1). destruct (ld_enter_depth _ _ Ee) as [-> _]. lia.
Qed.

Section Frags.
Variable text : bytes.
Variable decls : list E.edecl.
Variable q0 : N.                         (* where the first declaration is written *)
Notation es := (decl_ents q0 decls).
Hypothesis Henv : Forall2 (ent_ok text) decls es.
Hypothesis Hdecls : Forall decl_ok decls.

Notation vt := (vtable_at q0 decls).
Notation ExpG := (ExpG text decls es).
Notation ValG := (ValG text decls es).

(* where the value of the binding declaration of a name is written *)
Lemma lookup_pos_gen n d : forall ds q,
  Forall2 (ent_ok text) ds (decl_ents q ds) ->
  find (fun d0 => E.beq (E.e_name d0) n) ds = Some d ->
  exists en, find_entity text (decl_ents q ds) n = Some en /\
             vlookup (vtable_at q ds) n = Some (sl_start (en_value en), E.e_value d) /\
             sl_end (en_value en) = sl_start (en_value en) + blen (E.r_value (E.e_value d)).
Proof.
  induction ds as [|d0 ds IH]; intros q HF Hf; [discriminate|].
  cbn [decl_ents vtable_at] in *. inversion HF as [|? ? ? ? H0 HF']; subst.
  cbn [find find_entity vlookup] in *. destruct H0 as [Hn _].
  rewrite Hn, <- beq_bytes_eqb. destruct (E.beq (E.e_name d0) n).
  - injection Hf as <-. eexists. split; [reflexivity|]. unfold decl_entity, decl_value_off, nlen, blen.
    cbv zeta. cbn [en_value sl_start sl_end sl]. split; [|reflexivity]. f_equal. f_equal. lia.
  - unfold nlen. fold (blen (E.r_decl d0)). apply IH; assumption.
Qed.

Lemma lookup_pos n d en : first_decl decls n = Some d -> find_entity text es n = Some en ->
  vlookup vt n = Some (sl_start (en_value en), E.e_value d) /\
  sl_end (en_value en) = sl_start (en_value en) + blen (E.r_value (E.e_value d)).
Proof.
  intros Hf He. destruct (lookup_pos_gen n d decls q0 Henv Hf) as (en' & E1 & E2 & E3).
  rewrite He in E1. injection E1 as <-. split; assumption.
Qed.

Lemma emitG_desc m acc r : Forall (chunk_okm m) acc ->
  map gdesc (emitG m acc r) = if match acc with [] => false | _ => true end then [(r, None)] else [].
Proof.
  intros Hacc. unfold emitG. destruct (emit_valid m acc Hacc) as [Eo _]. rewrite Eo.
  destruct acc as [|c acc'].
  - reflexivity.
  - assert (Hne : decode_chunks (c :: acc') <> []).
    { rewrite decode_chunks_gen. apply gen_cons_ne. apply Forall_cons_iff in Hacc. destruct Hacc as [(_ & Hc & _) _].
      destruct c as [x|bs]; [exact I|]. intros E0. apply Hc. cbv beta in E0. rewrite E0. reflexivity. }
    destruct (decode_chunks (c :: acc')); [congruence|]. reflexivity.
Qed.

Definition neb (acc : list chunk) : bool := match acc with [] => false | _ => true end.

Lemma frs_ps_nil fuel tb ne r : frs_ps fuel tb ne [] r = if ne then [(r, None)] else [].
Proof. destruct fuel; reflexivity. Qed.
Lemma frs_ps_piece fuel tb ne p rest r : frs_ps fuel tb ne (E.EP p :: rest) r = frs_ps fuel tb true rest r.
Proof. destruct fuel; reflexivity. Qed.
Lemma frs_ps_ref fu tb ne n rest r :
  frs_ps (S fu) tb ne (E.ERef n :: rest) r =
  (if ne then [(r, None)] else []) ++
  match vlookup tb n with
  | Some (vs, E.EText vps) =>
    let V := E.r_epieces vps in
    let vr := (vs, vs + nlen V) in
    match V with
    | [] => []
    | _ => if has_amp_cr V then frs_ps fu tb false vps vr else [(vr, Some vr)]
    end
  | _ => []
  end ++ frs_ps (S fu) tb false rest r.
Proof. reflexivity. Qed.

(* the fragments of the pieces of a token *)
Lemma ExpG_frs : forall m acc ps q tr F, Exp decls m acc ps q tr F ->
  forall r G fuel ld ld', ExpG m acc ps r G -> ld_run ld tr = Some ld' -> 10 <= N.of_nat fuel + ld_depth ld ->
  Forall (ep_ok m) ps -> Forall (chunk_okm m) acc ->
  map gdesc G = frs_ps fuel vt (neb acc) ps r.
Proof.
  intros m acc ps q tr F H.
  induction H as [m acc|m acc p rest q tr F _ IH|m acc n rest d vps qv trv Fv q tr F Hfd Hval Hev IHv Her IHr];
    intros r G fuel ld ld' HG Hld Hfu Hok Hacc.
  - inversion HG; subst. rewrite frs_ps_nil. apply emitG_desc. exact Hacc.
  - inversion HG; subst. rewrite frs_ps_piece.
    apply Forall_cons_iff in Hok. destruct Hok as [Hp Hr].
    pose proof (ep_nonmark _ _ Hp) as Em. destruct (nonmark_chunks p Em) as (Hne & _).
    match goal with X : CstRangeEText.ExpG _ _ _ _ _ _ _ _ |- _ =>
      rewrite (IH r G fuel ld ld' X Hld Hfu Hr ltac:(apply Forall_app; split; [exact Hacc|apply ep_chunks; exact Hp])) end.
    destruct acc; [destruct (T.piece_chunks p); [congruence|reflexivity]|reflexivity].
  - apply Forall_cons_iff in Hok. destruct Hok as [_ Hr].
    cbn [ld_run] in Hld. destruct (ld_enter ld) as [ld1|] eqn:Ee; [|discriminate].
    rewrite ld_run_app in Hld. destruct (ld_run ld1 trv) as [ld1'|] eqn:E1; [|discriminate]. cbn [ld_run] in Hld.
    destruct (ld_enter_depth _ _ Ee) as [Hd1 Hd10].
    destruct fuel as [|fu]; [lia|]. rewrite frs_ps_ref.
    inversion HG as [| |m0 acc0 n0 rest0 r0 d' vps' en Gv G' Hfd' Hval' Hfe HV HG' ]; subst.
    rewrite Hfd in Hfd'. injection Hfd' as <-. rewrite Hval in Hval'. injection Hval' as <-.
    destruct (lookup_pos n d en Hfd Hfe) as [Elk Eend]. rewrite Elk, Hval.
    rewrite Hval in Eend. cbn [E.r_value] in Eend.
    rewrite !map_app. rewrite (emitG_desc m acc r Hacc). fold (neb acc). f_equal. f_equal.
    + (* the value *)
      cbv zeta. unfold nlen. fold (blen (E.r_epieces vps)). rewrite <- Eend.
      inversion HV as [vps0 s0 Hnil|vps0 s0 Hnn Hfast|vps0 s0 Gv0 Hnn Hslow HGv]; subst.
      * rewrite Hnil. reflexivity.
      * destruct (E.r_epieces vps) as [|x V] eqn:EV; [congruence|]. unfold has_amp_cr. rewrite Hfast. reflexivity.
      * destruct (E.r_epieces vps) as [|x V] eqn:EV; [congruence|]. unfold has_amp_cr. rewrite Hslow.
        apply (IHv _ _ fu ld1 ld1' HGv E1); [lia|apply (first_decl_ok decls Hdecls _ _ _ Hfd Hval)|constructor].
    + (* the rest *)
      apply (IHr r G' (S fu) _ ld' HG' Hld); [|exact Hr|constructor].
      rewrite dec_depth_depth, (Exp_depth decls _ _ _ _ _ _ Hev _ _ E1). lia.
Qed.

(* the fragments of a stretch written at p: appended as it is, or read through the buffer *)
Definition StretchG (l : list E.epiece) (p : N) (G : list (cow * range)) : Prop :=
  let e := p + blen (E.r_epieces l) in
  (existsb (fun x => (x =? 38) || (x =? 13)) (E.r_epieces l) = false /\ G = [(CowBorrowed (sl p e), (p, e))]) \/
  (existsb (fun x => (x =? 38) || (x =? 13)) (E.r_epieces l) = true /\ ExpG false [] l (p, e) G).

(* the fragments of the segments of a run written at p *)
Inductive RunG : list eseg -> N -> list (cow * range) -> Prop :=
| RunG_nil : forall p, RunG [] p []
| RunG_ss : forall ps L p G GG, StretchG ps p G -> RunG L (p + blen (E.r_epieces ps)) GG -> RunG (ESS ps :: L) p (G ++ GG)
| RunG_sc : forall bs L p GG, RunG L (p + blen (r_eseg (ESC bs))) GG ->
    RunG (ESC bs :: L) p ((frag p (SC bs), seg_range p (SC bs)) :: GG).

Lemma RunG_frs : forall L Q tr FF, RunExp decls L Q tr FF ->
  forall p G ld ld', RunG L p G -> ld_run ld tr = Some ld' -> ld_depth ld = 0 -> Forall eseg_wf L ->
  map gdesc G = frs_segs vt p (map rseg_of L).
Proof.
  intros L Q tr FF H.
  induction H as [|ps q tr F L Q tr' FF He HR IH|bs L Q tr' FF HR IH]; intros p G ld ld' HG Hld Hd0 HF.
  - inversion HG; subst. reflexivity.
  - apply Forall_cons_iff in HF. destruct HF as [(_ & Hok & _) HL].
    inversion HG as [|ps0 L0 p0 G1 GG HS HGG|]; subst.
    rewrite ld_run_app in Hld. destruct (ld_run ld tr) as [ld1|] eqn:E1; [|discriminate].
    cbn [map rseg_of frs_segs]. rewrite map_app. unfold nlen. fold (blen (E.r_epieces ps)). f_equal.
    + destruct HS as [[Hf ->]|[Hs HX]]; unfold has_amp_cr.
      * rewrite Hf. reflexivity.
      * rewrite Hs. apply (ExpG_frs _ _ _ _ _ _ He _ _ E.max_level ld ld1 HX E1);
          [rewrite Hd0; unfold E.max_level; lia|exact Hok|constructor].
    + apply (IH _ _ ld1 ld' HGG Hld); [|exact HL]. rewrite (Exp_depth decls _ _ _ _ _ _ He _ _ E1). exact Hd0.
  - apply Forall_cons_iff in HF. destruct HF as [_ HL].
    inversion HG as [| |bs0 L0 p0 GG HGG]; subst.
    cbn [map rseg_of frs_segs]. f_equal.
    + unfold gdesc, seg_range. cbn [fst snd frag r_seg]. rewrite mem_b_existsb. fold (has_cr bs).
      f_equal.
      * f_equal. rewrite !blen_app. change (blen T.cdata_open) with 9. change (blen T.cdata_close) with 3. unfold nlen, blen. lia.
      * destruct (has_cr bs); reflexivity.
    + replace (p + 9 + nlen bs + 3) with (p + blen (r_eseg (ESC bs))).
      * apply (IH _ _ ld ld' HGG Hld Hd0 HL).
      * cbn [r_eseg]. rewrite !blen_app. change (blen T.cdata_open) with 9. change (blen T.cdata_close) with 3. unfold nlen, blen. lia.
Qed.

End Frags.

Print Assumptions RunG_frs.
