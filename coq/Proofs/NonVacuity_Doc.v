(* Proofs/NonVacuity_Doc.v -- the concrete, non-trivial document used by the NonVacuity_Cxx.v files
   to instantiate the hypotheses of the pinned theorems: a DOCTYPE with an entity, a namespace
   declaration, attributes (one with an entity reference), a prefixed element, text with an entity
   reference, a comment, a processing instruction and an empty element. *)
From Coq Require Import Ascii String List NArith Bool.
Import ListNotations.
From RX Require Import Generated.
From RX.Model Require Import Base CharClass Stream Tokenizer Doc Builder Parse Api.
From RX.Spec Require Import Tree.
Open Scope N_scope.

Definition text0 : bytes :=
  b "<!DOCTYPE r [<!ENTITY e 'v'>]><r xmlns:p='u' a='1'><p:c b='x&e;'>t&e;<!--k--></p:c><?pi z?><d/></r>".
Definition opt0 : options := {| allow_dtd := true; nodes_limit := 4294967295 |}.

Definition d0 : document :=
  Eval vm_compute in match parse text0 opt0 with Ok d => d | _ => {| d_nodes := []; d_attrs := []; d_ns_values := []; d_ns_tree := [] |} end.

Lemma valid0 : valid_utf8_b text0 = true.
Proof. vm_compute. reflexivity. Qed.

Lemma limit0 : nodes_limit opt0 <= u32_max.
Proof. vm_compute. discriminate. Qed.

Lemma parse0 : parse text0 opt0 = Ok d0.
Proof. vm_compute. reflexivity. Qed.

(* Root [ r [ p:c [ text "tv"; comment ]; pi; d ] ] : ids 0..6 *)
Definition t0 : tree :=
  T KdRoot [T KdElem [T KdElem [T KdText []; T KdComment []]; T KdPI []; T KdElem []]].

Lemma nodes0 : len_N (d_nodes d0) = 7.
Proof. vm_compute. reflexivity. Qed.
