(* Proofs/CstNsItems.v -- C06, M3: parse_content_loop with the real callback on the rendering of an
   item of Spec/CstNs.v appends exactly the rows of the item under the current parent, with the
   namespaces resolved as Spec/Scope.v says. *)
From Coq Require Import Ascii String.
From Coq Require Import List NArith PeanoNat Bool Lia ZifyBool ZifyN ZifyNat.
Import ListNotations.
From RX Require Import Generated.
From RX.Model Require Import Base CharClass Stream Tokenizer Doc Builder Parse.
From RX.Spec Require Cst Scope CstNs.
From RX.Proofs Require Import Tactics CstLex CstBuild CstNsLex CstNsView CstNsBuild CstNsTree.
From RX.Proofs Require CstItems.
Open Scope N_scope.

Import CstNs.

(* number of iterations of parse_content_loop spent on an item *)
Fixpoint steps (i : item) : nat :=
  match i with
  | IElem _ _ _ (Some (cs, _)) =>
    S ((fix go (l : list item) : nat := match l with [] => O | c :: r => steps c + go r end) cs + 1)
  | _ => 1
  end%nat.
Fixpoint steps_list (l : list item) : nat :=
  match l with [] => O | c :: r => (steps c + steps_list r)%nat end.

Lemma steps_elem n a w cs w2 : steps (IElem n a w (Some (cs, w2))) = S (steps_list cs + 1)%nat.
Proof. reflexivity. Qed.

Definition is_elem (i : item) : bool := match i with IElem _ _ _ _ => true | _ => false end.

Section Items.
Variable text : bytes.
Hypothesis Hascii : Forall (fun x => x < 128) text.
Variable D : list Scope.binding.
Hypothesis HD : forall l, NoDup l -> incl l D -> N.of_nat (length l) <= 65535.

Notation ev := (tok_ev text).
Notation loop := (parse_content_loop text context (tok_ev text)).
Notation st := (CstLex.st text).
Notation W := (CstLex.W text).
Notation CIn := (CstNsBuild.CIn text D).

Definition node_room (c : context) (k : N) : Prop :=
  len_N (d_nodes (c_doc c)) + k <= nodes_limit (c_opt c) /\ len_N (d_nodes (c_doc c)) + k <= u32_max.
Definition attr_room (c : context) (k : nat) : Prop :=
  len_N (d_attrs (c_doc c)) + N.of_nat k < u32_max.
Definition ns_room (c : context) (k : nat) : Prop :=
  len_N (d_ns_tree (c_doc c)) + N.of_nat k <= u32_max.

Lemma node_room_room c k : node_room c k -> 1 <= k -> room c.
Proof. unfold node_room, room. lia. Qed.

Definition Postn (inh : list Scope.binding) (i : item) (c c' : context) (K : list row) (ext : list attr_data) : Prop :=
  Stepn c c' K ext /\ CIn inh c' /\ (is_text i = false -> c_after_text c' = []) /\
  (tn_set c -> tn_set c') /\ (is_elem i = true -> tn_set c') /\
  Forall2 (kmn text (c_doc c')) K (tag inh (c_parent_id c) (len_N (d_nodes (c_doc c))) i) /\
  length ext = nattrs i /\
  len_N (d_ns_tree (c_doc c')) = len_N (d_ns_tree (c_doc c)) + N.of_nat (ns_cost inh i).

Definition PIn (i : item) : Prop :=
  forall inh p post c depth fuel,
    wf_item inh i = true -> incl (item_decls i) D -> W p (r_item i ++ post) ->
    (is_text i = true -> text_stop post) ->
    CIn inh c -> (is_text i = true -> c_after_text c = []) ->
    node_room c (nsize i) -> attr_room c (nattrs i) -> ns_room c (ns_cost inh i) ->
    exists c' K ext,
      loop (steps i + fuel) depth (st p (r_item i ++ post)) c =
      loop fuel depth (st (p + blen (r_item i)) post) c' /\
      Postn inh i c c' K ext.

Lemma same_tn c c' : c_tag_name c' = c_tag_name c -> tn_set c -> tn_set c'.
Proof. unfold tn_set. intros ->. auto. Qed.

(* ---- comments ---- *)
Lemma evn_comment inh bs p post c : Cst.wf_item (Cst.IComment bs) = true ->
  W p (r_item (IComment bs) ++ post) -> CIn inh c -> room c ->
  exists c' K,
    parse_comment text context ev (st p (r_item (IComment bs) ++ post)) c =
    Ok (st (p + blen (r_item (IComment bs))) post, c') /\ Postn inh (IComment bs) c c' K [].
Proof.
  intros Hwf HW I R. apply CstItems.wf_comment in Hwf.
  cbn [r_item] in *. rewrite <- !app_assoc in *.
  rewrite lex_comment by assumption.
  destruct (tokn_comment text D HD inh (sl (p + 4) (p + 4 + blen bs)) (p, p + 4 + blen bs + 3) c I R)
    as (c' & E & S & I' & A & T & Tr).
  rewrite E. cbn [bind].
  exists c', [(Some (c_parent_id c), KComment (sl (p + 4) (p + 4 + blen bs)))].
  split.
  - f_equal. f_equal. f_equal. rewrite !blen_app. change (blen [60; 33; 45; 45]) with 4. change (blen [45; 45; 62]) with 3. lia.
  - split; [exact S|]. split; [exact I'|]. split; [intros _; exact A|]. split; [apply same_tn; exact T|].
    split; [discriminate|]. split; [|split; [reflexivity|rewrite Tr; cbn [ns_cost]; lia]].
    cbn [tag]. constructor; [|constructor]. split; [reflexivity|]. cbn [snd].
    pose proof (W_app _ _ _ _ HW) as HW1. change (blen [60; 33; 45; 45]) with 4 in HW1.
    apply (W_slice _ _ _ _ HW1).
Qed.

Lemma PIn_comment bs : PIn (IComment bs).
Proof.
  intros inh p post c depth fuel Hwf _ HW _ I _ NR _ _.
  destruct (evn_comment inh bs p post c Hwf HW I (node_room_room _ _ NR (nsize_pos _))) as (c' & K & E & HP).
  exists c', K, []. split; [|exact HP].
  cbn [steps Nat.add]. cbn [r_item] in *. rewrite <- !app_assoc in *.
  rewrite (CstItems.loop_comment text) by exact HW. rewrite E. reflexivity.
Qed.

(* ---- processing instructions ---- *)
Lemma evn_pi inh t s v p post c : Cst.wf_item (Cst.IPI t s v) = true ->
  W p (r_item (IPI t s v) ++ post) -> CIn inh c -> room c ->
  exists c' K,
    parse_pi text context ev (st p (r_item (IPI t s v) ++ post)) c =
    Ok (st (p + blen (r_item (IPI t s v))) post, c') /\ Postn inh (IPI t s v) c c' K [].
Proof.
  intros Hwf HW I R. apply CstItems.wf_pi in Hwf.
  cbn [r_item] in *. rewrite <- !app_assoc in *.
  rewrite lex_pi by assumption. cbv zeta.
  set (vs := match v with [] => None | _ :: _ => Some (sl (p + 2 + blen t + blen s) (p + 2 + blen t + blen s + blen v)) end).
  destruct (tokn_pi text D HD inh (sl (p + 2) (p + 2 + blen t)) vs (p, p + 2 + blen t + blen s + blen v + 2) c I R)
    as (c' & E & S & I' & A & T & Tr).
  rewrite E. cbn [bind].
  exists c', [(Some (c_parent_id c), KPI (sl (p + 2) (p + 2 + blen t)) vs)].
  split.
  - f_equal. f_equal. f_equal. rewrite !blen_app. change (blen [60; 63]) with 2. change (blen [63; 62]) with 2. lia.
  - split; [exact S|]. split; [exact I'|]. split; [intros _; exact A|]. split; [apply same_tn; exact T|].
    split; [discriminate|]. split; [|split; [reflexivity|rewrite Tr; cbn [ns_cost]; lia]].
    cbn [tag]. constructor; [|constructor]. split; [reflexivity|]. cbn [snd].
    pose proof (W_app _ _ _ _ HW) as HW1. change (blen [60; 63]) with 2 in HW1.
    split; [apply (W_slice _ _ _ _ HW1)|].
    pose proof (W_app _ _ _ _ HW1) as HW2. pose proof (W_app _ _ _ _ HW2) as HW3.
    unfold vs. destruct v as [|x v]; [exact Logic.I|]. apply (W_slice _ _ _ _ HW3).
Qed.

Lemma PIn_pi t s v : PIn (IPI t s v).
Proof.
  intros inh p post c depth fuel Hwf _ HW _ I _ NR _ _.
  destruct (evn_pi inh t s v p post c Hwf HW I (node_room_room _ _ NR (nsize_pos _))) as (c' & K & E & HP).
  exists c', K, []. split; [|exact HP].
  cbn [steps Nat.add]. cbn [r_item] in *. rewrite <- !app_assoc in *.
  rewrite (CstItems.loop_pi text) by exact HW. rewrite E. reflexivity.
Qed.

(* ---- text ---- *)
Lemma PIn_text bs : PIn (IText bs).
Proof.
  intros inh p post c depth fuel Hwf _ HW Hstop I Hat NR _ _.
  destruct (CstItems.wf_text _ Hwf) as (Hok & Hne & Hex).
  cbn [r_item] in *. specialize (Hstop eq_refl). specialize (Hat eq_refl).
  cbn [steps Nat.add].
  destruct bs as [|x r]; [congruence|].
  assert (Hx : x <> 60).
  { destruct Hok as [Hok _]. cbn [forallb] in Hok. lia. }
  change ((x :: r) ++ post) with (x :: r ++ post) in *. rewrite (CstItems.loop_text text) by assumption.
  change (x :: r ++ post) with ((x :: r) ++ post) in *.
  rewrite lex_text by assumption.
  destruct (tokn_text text D HD inh (sl p (p + blen (x :: r))) (p, p + blen (x :: r)) c I)
    as (c' & E & S & I' & T & Tr); [apply (node_room_room _ _ NR (nsize_pos _))|exact Hat| |].
  { rewrite (W_slice _ _ _ _ HW). exact Hex. }
  rewrite E. cbn [bind].
  exists c', [(Some (c_parent_id c), KText (Borrowed (SIn (sl p (p + blen (x :: r))))))], [].
  split; [reflexivity|].
  split; [exact S|]. split; [exact I'|]. split; [discriminate|]. split; [apply same_tn; exact T|].
  split; [discriminate|]. split; [|split; [reflexivity|rewrite Tr; cbn [ns_cost]; lia]].
  cbn [tag]. constructor; [|constructor]. split; [reflexivity|]. cbn [snd storage_bytes str_bytes].
  apply (W_slice _ _ _ _ HW).
Qed.

(* ---- elements ---- *)
Lemma loop_elem_ns fuel depth p name l c : W p ([60] ++ r_qname name ++ l) -> wf_qname name = true ->
  loop (S fuel) depth (st p ([60] ++ r_qname name ++ l)) c =
  let! (open, s, c) := parse_element text context ev (st p ([60] ++ r_qname name ++ l)) c in
  loop fuel (if open then depth + 1 else depth) s c.
Proof.
  intros HW Hn. destruct (qname_head _ Hn) as (n & r & En & Hns). rewrite En in *.
  apply (CstItems.loop_elem text fuel depth p n (r ++ l) c HW Hns).
Qed.

Record elem_wf (inh : list Scope.binding) (name : qname) (es : list entry) (ws : Cst.bytes) : Prop := {
  ew_name : wf_qname name = true;
  ew_n1 : Scope.bytes_eqb (q_prefix name) xmlns_b = false;
  ew_es : forallb wf_entry es = true;
  ew_n6 : Scope.prefixes_unique (own_bindings es) = true;
  ew_n2e : is_bound (Scope.resolve_elem (esc es inh) (q_prefix name)) = true;
  ew_n2a : forallb (fun e => match e with EAttr _ n _ => is_bound (Scope.resolve_attr (esc es inh) (q_prefix n))
                                         | EDecl _ _ _ => true end) es = true;
  ew_n7 : enames_distinct (map (fun a => (fst (fst a), snd (fst a))) (sem_attrs (esc es inh) es)) = true;
  ew_ws : Cst.wf_ws ws = true
}.

Lemma wf_elem_parts inh name es ws body : wf_item inh (IElem name es ws body) = true ->
  elem_wf inh name es ws /\
  match body with
  | None => True
  | Some (cs, ws2) => Cst.wf_ws ws2 = true /\ no_adj cs = true /\ wf_items (esc es inh) cs = true
  end.
Proof.
  rewrite wf_item_elem. cbv zeta. rewrite !andb_true_iff. intros [[[[[[[[H1 H2] H3] H4] H5] H6] H7] H8] H9].
  split; [constructor; try assumption; apply negb_true_iff; exact H2|].
  destruct body as [[cs ws2]|]; [|exact Logic.I]. rewrite !andb_true_iff in H9. tauto.
Qed.

Lemma clear_bools : True. Proof. exact Logic.I. Qed.

Lemma PIn_empty name es ws : PIn (IElem name es ws None).
Proof.
  intros inh p post c depth fuel Hwf HinD HW _ I _ NR AR SR.
  destruct (wf_elem_parts _ _ _ _ _ Hwf) as ([Hn N1 Hes N6 N2e N2a N7 Hw] & _). clear Hwf.
  rewrite r_item_elem in *. rewrite <- !app_assoc in HW |- *.
  change ([47; 62] ++ post) with (tag_tail true ++ post) in *.
  cbn [steps Nat.add]. rewrite loop_elem_ns by assumption.
  rewrite lex_element_ns by assumption. cbv zeta.
  rewrite nattrs_elem, Nat.add_0_r in AR. rewrite ns_cost_elem, Nat.add_0_r in SR.
  rewrite item_decls_elem, app_nil_r in HinD.
  destruct (start_tag_ok_ns text D HD inh p name es ws true post c HW Hn N1 Hes N6 N2e N2a N7 HinD I)
    as (c' & kind & ext & E & S & Lx & Hkm & A & T & Tr & I' & P1 & P2).
  { apply (node_room_room _ _ NR (nsize_pos _)). }
  { unfold attr_room in AR. rewrite sem_attrs_len. exact AR. }
  { unfold ns_room in SR. unfold own_cost. fold (esc es inh). destruct (own_bindings es); clia. }
  cbv zeta in E. apply bind_ok in E. destruct E as (c1 & E1 & E2).
  rewrite E1. cbn [bind]. rewrite E2. cbn [bind negb].
  exists c', [(Some (c_parent_id c), kind)], ext.
  split.
  - f_equal. f_equal. rewrite !blen_app. change (blen [60]) with 1. change (blen (tag_tail true)) with 2.
    change (blen [47; 62]) with 2. clia.
  - split; [split; [exact S|split; assumption]|]. split; [exact I'|]. split; [intros _; exact A|].
    split; [intros _; exact T|]. split; [intros _; exact T|]. split; [|split].
    + cbn [tag]. constructor; [|constructor]. apply Hkm.
    + rewrite Lx, sem_attrs_len, nattrs_elem, Nat.add_0_r. reflexivity.
    + rewrite Tr, ns_cost_elem, Nat.add_0_r. unfold own_cost. fold (esc es inh). destruct (own_bindings es); clia.
Qed.

(* ---- lists of children ---- *)
Definition head_text_ok (cs : list item) (c : context) : Prop :=
  match cs with i :: _ => is_text i = true -> c_after_text c = [] | [] => True end.

Definition PLn (cs : list item) : Prop :=
  forall inh p post c depth fuel,
    wf_items inh cs = true -> incl (items_decls cs) D -> no_adj cs = true -> W p (r_items cs ++ post) -> text_stop post ->
    CIn inh c -> head_text_ok cs c -> node_room c (nsizes cs) -> attr_room c (nattrs_items cs) ->
    ns_room c (ns_costs inh cs) ->
    exists c' K ext,
      loop (steps_list cs + fuel) depth (st p (r_items cs ++ post)) c =
      loop fuel depth (st (p + blen (r_items cs)) post) c' /\
      Stepn c c' K ext /\ CIn inh c' /\ (tn_set c -> tn_set c') /\
      Forall2 (kmn text (c_doc c')) K (tag_list inh (c_parent_id c) (len_N (d_nodes (c_doc c))) cs) /\
      length ext = nattrs_items cs /\
      len_N (d_ns_tree (c_doc c')) = len_N (d_ns_tree (c_doc c)) + N.of_nat (ns_costs inh cs).

Lemma Forall2_len_N {A B} (R : A -> B -> Prop) l l' : Forall2 R l l' -> len_N l = len_N l'.
Proof. intros H. unfold len_N. induction H; cbn [length]; lia. Qed.

Lemma Stepn_nodes_len c c' K ext : Stepn c c' K ext ->
  len_N (d_nodes (c_doc c')) = len_N (d_nodes (c_doc c)) + len_N K.
Proof. intros [S _]. apply (Step0n_len _ _ _ _ S). Qed.

Lemma Stepn_attrs_len c c' K ext : Step0n c c' K ext ->
  len_N (d_attrs (c_doc c')) = len_N (d_attrs (c_doc c)) + len_N ext.
Proof. intros S. rewrite (sn_attrs _ _ _ _ S), len_N_app. reflexivity. Qed.

Lemma Stepn_opt c c' K ext : Step0n c c' K ext -> c_opt c' = c_opt c.
Proof. intros S. apply (sn_keep _ _ _ _ S). Qed.

Lemma kmn_Forall2_ext d d' K T : DocExt d d' -> Forall2 (kmn text d) K T -> Forall2 (kmn text d') K T.
Proof. intros HE H. induction H; constructor; [apply (kmn_ext text D HD d d'); assumption|assumption]. Qed.

Lemma PLn_of cs : Forall PIn cs -> PLn cs.
Proof.
  induction 1 as [|i r Hi _ IH]; intros inh p post c depth fuel Hwf HinD Hna HW Hstop I Hhd NR AR SR.
  - exists c, [], []. cbn [steps_list r_items app Nat.add blen length ns_costs] in *.
    change (N.of_nat 0) with 0. rewrite !N.add_0_r.
    split; [reflexivity|]. split; [apply Stepn_refl|]. split; [exact I|]. split; [auto|].
    split; [constructor|]. split; reflexivity.
  - cbn [wf_items] in Hwf. apply andb_true_iff in Hwf. destruct Hwf as [Hw1 Hw2].
    cbn [r_items] in HW |- *. rewrite <- app_assoc in HW |- *.
    rewrite nsizes_cons in NR. cbn [nattrs_items] in AR. cbn [ns_costs] in SR. cbn [items_decls] in HinD.
    assert (Hna2 : no_adj r = true).
    { destruct r as [|d r']; [reflexivity|]. cbn [no_adj] in Hna. apply andb_true_iff in Hna. apply Hna. }
    assert (Hnext : forall d r', r = d :: r' -> is_text i = true -> is_text d = false).
    { intros d r' -> Hi1. cbn [no_adj] in Hna. apply andb_true_iff in Hna.
      destruct Hna as [Hna _]. rewrite Hi1 in Hna. cbn [andb] in Hna. apply negb_true_iff in Hna. exact Hna. }
    assert (Hfollow : is_text i = true -> text_stop (r_items r ++ post)).
    { intros Hi1. destruct r as [|d r']; [exact Hstop|].
      destruct (nontext_starts d (Hnext d r' eq_refl Hi1)) as [l El].
      cbn [r_items]. rewrite El. reflexivity. }
    destruct (Hi inh p (r_items r ++ post) c depth (steps_list r + fuel)%nat Hw1) with (3 := Hfollow) (4 := I) (5 := Hhd)
      as (c1 & K1 & e1 & E1 & S1 & I1 & A1 & T1 & _ & F1 & L1 & Tr1).
    { intros x Hx. apply HinD. apply in_or_app. left. exact Hx. }
    { exact HW. }
    { unfold node_room in *. clia. }
    { unfold attr_room in *. clia. }
    { unfold ns_room in *. clia. }
    pose proof (Stepn_nodes_len _ _ _ _ S1) as Ln1.
    rewrite (Forall2_len_N _ _ _ F1) in Ln1. unfold len_N at 3 in Ln1. rewrite tag_len in Ln1.
    pose proof (Stepn_attrs_len _ _ _ _ (proj1 S1)) as La1. unfold len_N at 3 in La1. rewrite L1 in La1.
    pose proof (Stepn_opt _ _ _ _ (proj1 S1)) as Lo1.
    destruct (IH inh (p + blen (r_item i)) post c1 depth fuel Hw2) with (3 := W_app _ _ _ _ HW) (4 := Hstop) (5 := I1)
      as (c2 & K2 & e2 & E2 & S2 & I2 & T2 & F2 & L2 & Tr2).
    { intros x Hx. apply HinD. apply in_or_app. right. exact Hx. }
    { exact Hna2. }
    { destruct r as [|d r']; [exact Logic.I|]. cbn [head_text_ok]. intros Hd. apply A1.
      destruct (is_text i) eqn:Ei; [|reflexivity].
      rewrite (Hnext d r' eq_refl eq_refl) in Hd. discriminate. }
    { unfold node_room in *. rewrite Ln1, Lo1. clia. }
    { unfold attr_room in *. rewrite La1. clia. }
    { unfold ns_room in *. rewrite Tr1. clia. }
    exists c2, (K1 ++ K2), (e1 ++ e2). split.
    { cbn [steps_list]. rewrite <- Nat.add_assoc, E1, E2. f_equal. f_equal. rewrite blen_app. clia. }
    split; [eapply Stepn_trans; eassumption|]. split; [exact I2|]. split; [auto|]. split; [|split].
    + cbn [tag_list]. apply Forall2_app.
      * apply (kmn_Forall2_ext (c_doc c1)); [apply (Step0n_DocExt _ _ _ _ (proj1 S2))|exact F1].
      * destruct S1 as (_ & P1 & _). rewrite P1, Ln1 in F2. exact F2.
    + rewrite app_length, L1, L2. reflexivity.
    + rewrite Tr2, Tr1. cbn [ns_costs]. clia.
Qed.

Lemma PIn_open name es ws cs ws2 : PLn cs -> PIn (IElem name es ws (Some (cs, ws2))).
Proof.
  intros HPL inh p post c depth fuel Hwf HinD HW _ I _ NR AR SR.
  destruct (wf_elem_parts _ _ _ _ _ Hwf) as ([Hn N1 Hes N6 N2e N2a N7 Hw] & Hw2 & Hna & Hcs). clear Hwf.
  rewrite r_item_elem in *. rewrite <- !app_assoc in HW |- *.
  set (post2 := [60; 47] ++ r_qname name ++ ws2 ++ [62] ++ post) in *.
  change ([62] ++ r_items cs ++ post2) with (tag_tail false ++ (r_items cs ++ post2)) in *.
  rewrite nsize_elem in NR. rewrite nattrs_elem in AR. rewrite ns_cost_elem in SR. rewrite item_decls_elem in HinD.
  set (sc := esc es inh) in *.
  rewrite steps_elem. cbn [Nat.add]. rewrite loop_elem_ns by assumption.
  rewrite lex_element_ns by assumption. cbv zeta.
  destruct (start_tag_ok_ns text D HD inh p name es ws false (r_items cs ++ post2) c HW Hn N1 Hes N6 N2e N2a N7)
    with (2 := I) as (c1 & kind & ext1 & E & S1 & Lx & Hkm & A1 & T1 & Tr1 & I1 & P1 & P2 & P3).
  { intros x Hx. apply HinD. apply in_or_app. left. exact Hx. }
  { unfold node_room, room in *. clia. }
  { unfold attr_room in AR. rewrite sem_attrs_len. clia. }
  { unfold ns_room in SR. unfold own_cost. change (Scope.scope_of (own_bindings es) inh) with sc.
    destruct (own_bindings es); clia. }
  change (Scope.scope_of (own_bindings es) inh) with sc in Hkm, Tr1, I1, Lx.
  assert (Hlsl : exists tns lsl ar nss, kind = KElement tns lsl ar nss /\ slice_bytes text lsl = q_local name).
  { destruct (Hkm O) as [_ Hk]. cbn [snd] in Hk. destruct kind as [|tns lsl ar nss| | |]; try contradiction.
    exists tns, lsl, ar, nss. split; [reflexivity|apply Hk]. }
  destruct Hlsl as (tns & lsl & ar & nss & -> & Hlsl).
  cbv zeta in E. apply bind_ok in E. destruct E as (c0 & E0 & E1).
  rewrite E0. cbn [bind]. rewrite E1. cbn [bind negb]. clear E0 E1 c0.
  pose proof (W_app _ _ _ _ HW) as HW1. change (blen [60]) with 1 in HW1.
  pose proof (W_app _ _ _ _ HW1) as HW2. pose proof (W_app _ _ _ _ HW2) as HW3.
  pose proof (W_app _ _ _ _ HW3) as HW4. pose proof (W_app _ _ _ _ HW4) as HW5.
  set (q := p + 1 + blen (r_qname name) + blen (flat_map r_entry es) + blen ws + blen (tag_tail false)) in *.
  pose proof (Step0n_len _ _ _ _ S1) as Ln1. change (len_N [_]) with 1 in Ln1.
  pose proof (Stepn_attrs_len _ _ _ _ S1) as La1. unfold len_N at 3 in La1. rewrite Lx, sem_attrs_len in La1.
  pose proof (Stepn_opt _ _ _ _ S1) as Lo1.
  replace (steps_list cs + 1 + fuel)%nat with (steps_list cs + S fuel)%nat by clia.
  destruct (HPL sc q post2 c1 (depth + 1) (S fuel) Hcs) with (2 := Hna) (3 := HW5) (5 := I1)
    as (c2 & K2 & e2 & E2 & S2 & I2 & T2 & F2 & L2 & Tr2).
  { intros x Hx. apply HinD. apply in_or_app. right. exact Hx. }
  { reflexivity. }
  { destruct cs; [exact Logic.I|]. intros _. exact A1. }
  { unfold node_room in *. rewrite Ln1, Lo1. clia. }
  { unfold attr_room in *. rewrite La1. clia. }
  { unfold ns_room in *. rewrite Tr1. unfold own_cost. destruct (own_bindings es); clia. }
  rewrite E2. clear E2.
  pose proof (W_app _ _ _ _ HW5) as HW6. set (e := q + blen (r_items cs)) in *.
  unfold post2 in HW6 |- *. rewrite (CstItems.loop_close text) by exact HW6.
  rewrite lex_close_ns by assumption. cbv zeta.
  destruct S2 as (S2 & Pid2 & Pp2).
  pose proof (W_app _ _ _ _ HW6) as HW7. change (blen [60; 47]) with 2 in HW7.
  destruct (qname_slices text D HD _ _ _ HW1) as [Sp1 Sl1]. destruct (qname_slices text D HD _ _ _ HW7) as [Sp7 Sl7].
  destruct (cn_par _ _ _ _ I) as (par0 & k0 & Ep0 & Hk0).
  destruct (close_tag_ok_ns text D HD inh sc (sl (e + 2) (e + 2 + blen (q_prefix name)))
              (sl (e + 2 + q_off name) (e + 2 + blen (r_qname name)))
              (e, e + 2 + blen (r_qname name) + blen ws2 + 1) c2 (c_parent_id c) tns lsl ar nss name
              (c_parent_prefixes c) (sl (p + 1) (p + 1 + blen (q_prefix name))) I2)
    as (c3 & E3 & S3 & I3 & Pid3 & Pp3 & A3 & Tn3 & Tr3).
  { rewrite Pid2, P1, (sn_nodes _ _ _ _ S2), (sn_nodes _ _ _ _ S1).
    replace (N.to_nat (len_N (d_nodes (c_doc c)))) with (length (absn (c_doc c)))
      by (unfold absn, len_N; rewrite map_length; clia).
    rewrite <- app_assoc, nth_error_app2 by clia. rewrite Nat.sub_diag. reflexivity. }
  { exact Hlsl. }
  { exact Sl7. }
  { exact Sp7. }
  { rewrite Pp2, P2. reflexivity. }
  { apply (cn_pp _ _ _ _ I). }
  { exact Sp1. }
  { apply T2. exact T1. }
  { rewrite (Step0n_len _ _ _ _ S2), Ln1. pose proof (cn_pid _ _ _ _ I). clia. }
  { exists par0, k0. split.
    - rewrite (sn_nodes _ _ _ _ S2), (sn_nodes _ _ _ _ S1), <- app_assoc.
      rewrite nth_error_app1; [exact Ep0|].
      pose proof (cn_pid _ _ _ _ I) as Hp. rewrite <- absn_len in Hp. unfold len_N in Hp. clia.
    - apply (par_ok_ext text D HD (c_doc c)); [|exact Hk0].
      eapply NsExt_trans; [apply (sn_ns _ _ _ _ S1)|apply (sn_ns _ _ _ _ S2)]. }
  { apply (cn_uniq _ _ _ _ I). }
  rewrite E3. cbn [bind]. replace (depth + 1 =? 0) with false by clia.
  replace (depth + 1 - 1) with depth by clia.
  exists c3, ((Some (c_parent_id c), KElement tns lsl ar nss) :: K2), (ext1 ++ e2).
  split.
  { f_equal. f_equal. unfold e, q. rewrite !blen_app. change (blen [60]) with 1. change (blen [60; 47]) with 2.
    change (blen [62]) with 1. change (blen (tag_tail false)) with 1. clear. lia. }
  pose proof (Step0n_trans _ _ _ _ _ _ _ (Step0n_trans _ _ _ _ _ _ _ S1 S2) S3) as S13.
  rewrite !app_nil_r in S13. cbn [app] in S13.
  split; [split; [exact S13|split; [exact Pid3|exact Pp3]]|]. split; [exact I3|].
  split; [intros _; exact A3|].
  assert (T3 : tn_set c3) by (apply (same_tn _ _ Tn3); apply T2; exact T1).
  split; [intros _; exact T3|]. split; [intros _; exact T3|]. split; [|split].
  - rewrite tag_elem. fold sc. constructor.
    + apply (kmn_ext text D HD (c_doc c1)).
      * eapply DocExt_trans; [apply (Step0n_DocExt _ _ _ _ S2)|apply (Step0n_DocExt _ _ _ _ S3)].
      * apply Hkm.
    + apply (kmn_Forall2_ext (c_doc c2)); [apply (Step0n_DocExt _ _ _ _ S3)|].
      rewrite P1, Ln1 in F2. exact F2.
  - rewrite app_length, Lx, sem_attrs_len, L2, nattrs_elem. reflexivity.
  - rewrite Tr3, Tr2, Tr1, ns_cost_elem. fold sc. unfold own_cost. destruct (own_bindings es); clia.
Qed.

Theorem PIn_all : forall i, PIn i.
Proof.
  intros i. induction i as [n a w|n a w cs w2 IH|bs|bs|t s v] using item_ind'.
  - apply PIn_empty.
  - apply PIn_open. apply PLn_of. exact IH.
  - apply PIn_text.
  - apply PIn_comment.
  - apply PIn_pi.
Qed.

Theorem PLn_all : forall cs, PLn cs.
Proof. intros cs. apply PLn_of. apply Forall_forall. intros i _. apply PIn_all. Qed.


(* ---- the root element: parse_element, then parse_content at depth 0 ---- *)
Lemma steps_le : forall i inh, wf_item inh i = true -> (steps i <= length (r_item i))%nat.
Proof.
  intros i. induction i as [n a w|n a w cs w2 IH|bs|bs|t s v] using item_ind'; intros inh Hwf.
  - rewrite r_item_elem, !app_length. cbn [steps length]. lia.
  - destruct (wf_elem_parts _ _ _ _ _ Hwf) as (_ & _ & _ & Hcs).
    rewrite r_item_elem, steps_elem, !app_length. cbn [length].
    assert (G : (steps_list cs <= length (r_items cs))%nat).
    { revert Hcs. generalize (esc a inh). intros sc Hcs. clear - IH Hcs. induction IH as [|c r Hc _ IHr]; [cbn; lia|].
      cbn [wf_items] in Hcs. apply andb_true_iff in Hcs. destruct Hcs as [H1 H2].
      cbn [steps_list r_items]. rewrite app_length. specialize (Hc sc H1). specialize (IHr H2). lia. }
    lia.
  - destruct (CstItems.wf_text _ Hwf) as (_ & Hne & _). destruct bs; [congruence|]. cbn. lia.
  - cbn [r_item steps]. rewrite !app_length. cbn [length]. lia.
  - cbn [r_item steps]. rewrite !app_length. cbn [length]. lia.
Qed.

Lemma steps_list_le inh : forall cs, wf_items inh cs = true -> (steps_list cs <= length (r_items cs))%nat.
Proof.
  induction cs as [|c r IH]; intros Hwf; [cbn; lia|].
  cbn [wf_items] in Hwf. apply andb_true_iff in Hwf. destruct Hwf as [H1 H2].
  cbn [steps_list r_items]. rewrite app_length. pose proof (steps_le c inh H1). specialize (IH H2). lia.
Qed.

Lemma root_ok_ns inh name es ws body p post c :
  wf_item inh (IElem name es ws body) = true -> incl (item_decls (IElem name es ws body)) D ->
  W p (r_item (IElem name es ws body) ++ post) ->
  CIn inh c -> node_room c (nsize (IElem name es ws body)) ->
  attr_room c (nattrs (IElem name es ws body)) -> ns_room c (ns_cost inh (IElem name es ws body)) ->
  exists c' K ext,
    (let! (open, s, c) := parse_element text context ev
                            (st p (r_item (IElem name es ws body) ++ post)) c in
     if open then parse_content text context ev s c else Ok (s, c)) =
    Ok (st (p + blen (r_item (IElem name es ws body))) post, c') /\
    Postn inh (IElem name es ws body) c c' K ext.
Proof.
  intros Hwf HinD HW I NR AR SR. destruct body as [[cs ws2]|].
  - (* open *)
    destruct (wf_elem_parts _ _ _ _ _ Hwf) as ([Hn N1 Hes N6 N2e N2a N7 Hw] & Hw2 & Hna & Hcs). clear Hwf.
    rewrite r_item_elem in *. rewrite <- !app_assoc in HW |- *.
    set (post2 := [60; 47] ++ r_qname name ++ ws2 ++ [62] ++ post) in *.
    change ([62] ++ r_items cs ++ post2) with (tag_tail false ++ (r_items cs ++ post2)) in *.
    rewrite nsize_elem in NR. rewrite nattrs_elem in AR. rewrite ns_cost_elem in SR. rewrite item_decls_elem in HinD.
    set (sc := esc es inh) in *.
    rewrite lex_element_ns by assumption. cbv zeta.
    destruct (start_tag_ok_ns text D HD inh p name es ws false (r_items cs ++ post2) c HW Hn N1 Hes N6 N2e N2a N7)
      with (2 := I) as (c1 & kind & ext1 & E & S1 & Lx & Hkm & A1 & T1 & Tr1 & I1 & P1 & P2 & P3).
    { intros x Hx. apply HinD. apply in_or_app. left. exact Hx. }
    { unfold node_room, room in *. clia. }
    { unfold attr_room in AR. rewrite sem_attrs_len. clia. }
    { unfold ns_room in SR. unfold own_cost. change (Scope.scope_of (own_bindings es) inh) with sc.
      destruct (own_bindings es); clia. }
    change (Scope.scope_of (own_bindings es) inh) with sc in Hkm, Tr1, I1, Lx.
    assert (Hlsl : exists tns lsl ar nss, kind = KElement tns lsl ar nss /\ slice_bytes text lsl = q_local name).
    { destruct (Hkm O) as [_ Hk]. cbn [snd] in Hk. destruct kind as [|tns lsl ar nss| | |]; try contradiction.
      exists tns, lsl, ar, nss. split; [reflexivity|apply Hk]. }
    destruct Hlsl as (tns & lsl & ar & nss & -> & Hlsl).
    cbv zeta in E. apply bind_ok in E. destruct E as (c0 & E0 & E1).
    rewrite E0. cbn [bind]. rewrite E1. cbn [bind negb]. clear E0 E1 c0.
    pose proof (W_app _ _ _ _ HW) as HW1. change (blen [60]) with 1 in HW1.
    pose proof (W_app _ _ _ _ HW1) as HW2. pose proof (W_app _ _ _ _ HW2) as HW3.
    pose proof (W_app _ _ _ _ HW3) as HW4. pose proof (W_app _ _ _ _ HW4) as HW5.
    set (q := p + 1 + blen (r_qname name) + blen (flat_map r_entry es) + blen ws + blen (tag_tail false)) in *.
    pose proof (Step0n_len _ _ _ _ S1) as Ln1. change (len_N [_]) with 1 in Ln1.
    pose proof (Stepn_attrs_len _ _ _ _ S1) as La1. unfold len_N at 3 in La1. rewrite Lx, sem_attrs_len in La1.
    pose proof (Stepn_opt _ _ _ _ S1) as Lo1.
    unfold parse_content. cbn [CstLex.st s_rest].
    pose proof (steps_list_le sc cs Hcs) as Hst.
    replace (S (length (r_items cs ++ post2)))
      with (steps_list cs + S (length (r_items cs ++ post2) - steps_list cs))%nat
      by (rewrite app_length; clia).
    fold (st q (r_items cs ++ post2)).
    destruct (PLn_all cs sc q post2 c1 0 (S (length (r_items cs ++ post2) - steps_list cs)) Hcs)
      with (2 := Hna) (3 := HW5) (5 := I1)
      as (c2 & K2 & e2 & E2 & S2 & I2 & T2 & F2 & L2 & Tr2).
    { intros x Hx. apply HinD. apply in_or_app. right. exact Hx. }
    { reflexivity. }
    { destruct cs; [exact Logic.I|]. intros _. exact A1. }
    { unfold node_room in *. rewrite Ln1, Lo1. clia. }
    { unfold attr_room in *. rewrite La1. clia. }
    { unfold ns_room in *. rewrite Tr1. unfold own_cost. destruct (own_bindings es); clia. }
    rewrite E2. clear E2.
    pose proof (W_app _ _ _ _ HW5) as HW6. set (e := q + blen (r_items cs)) in *.
    unfold post2 in HW6 |- *. rewrite (CstItems.loop_close text) by exact HW6.
    rewrite lex_close_ns by assumption. cbv zeta.
    destruct S2 as (S2 & Pid2 & Pp2).
    pose proof (W_app _ _ _ _ HW6) as HW7. change (blen [60; 47]) with 2 in HW7.
    destruct (qname_slices text D HD _ _ _ HW1) as [Sp1 Sl1]. destruct (qname_slices text D HD _ _ _ HW7) as [Sp7 Sl7].
    destruct (cn_par _ _ _ _ I) as (par0 & k0 & Ep0 & Hk0).
    destruct (close_tag_ok_ns text D HD inh sc (sl (e + 2) (e + 2 + blen (q_prefix name)))
                (sl (e + 2 + q_off name) (e + 2 + blen (r_qname name)))
                (e, e + 2 + blen (r_qname name) + blen ws2 + 1) c2 (c_parent_id c) tns lsl ar nss name
                (c_parent_prefixes c) (sl (p + 1) (p + 1 + blen (q_prefix name))) I2)
      as (c3 & E3 & S3 & I3 & Pid3 & Pp3 & A3 & Tn3 & Tr3).
    { rewrite Pid2, P1, (sn_nodes _ _ _ _ S2), (sn_nodes _ _ _ _ S1).
      replace (N.to_nat (len_N (d_nodes (c_doc c)))) with (length (absn (c_doc c)))
        by (unfold absn, len_N; rewrite map_length; clia).
      rewrite <- app_assoc, nth_error_app2 by clia. rewrite Nat.sub_diag. reflexivity. }
    { exact Hlsl. }
    { exact Sl7. }
    { exact Sp7. }
    { rewrite Pp2, P2. reflexivity. }
    { apply (cn_pp _ _ _ _ I). }
    { exact Sp1. }
    { apply T2. exact T1. }
    { rewrite (Step0n_len _ _ _ _ S2), Ln1. pose proof (cn_pid _ _ _ _ I). clia. }
    { exists par0, k0. split.
      - rewrite (sn_nodes _ _ _ _ S2), (sn_nodes _ _ _ _ S1), <- app_assoc.
        rewrite nth_error_app1; [exact Ep0|].
        pose proof (cn_pid _ _ _ _ I) as Hp. rewrite <- absn_len in Hp. unfold len_N in Hp. clia.
      - apply (par_ok_ext text D HD (c_doc c)); [|exact Hk0].
        eapply NsExt_trans; [apply (sn_ns _ _ _ _ S1)|apply (sn_ns _ _ _ _ S2)]. }
    { apply (cn_uniq _ _ _ _ I). }
    rewrite E3. cbn [bind]. change (0 =? 0) with true. cbv iota.
    exists c3, ((Some (c_parent_id c), KElement tns lsl ar nss) :: K2), (ext1 ++ e2).
    split.
    { f_equal. f_equal. f_equal. unfold e, q. rewrite !blen_app. change (blen [60]) with 1. change (blen [60; 47]) with 2.
      change (blen [62]) with 1. change (blen (tag_tail false)) with 1. clear. lia. }
    pose proof (Step0n_trans _ _ _ _ _ _ _ (Step0n_trans _ _ _ _ _ _ _ S1 S2) S3) as S13.
    rewrite !app_nil_r in S13. cbn [app] in S13.
    split; [split; [exact S13|split; [exact Pid3|exact Pp3]]|]. split; [exact I3|].
    split; [intros _; exact A3|].
    assert (T3 : tn_set c3) by (apply (same_tn _ _ Tn3); apply T2; exact T1).
    split; [intros _; exact T3|]. split; [intros _; exact T3|]. split; [|split].
    + rewrite tag_elem. fold sc. constructor.
      * apply (kmn_ext text D HD (c_doc c1)).
        -- eapply DocExt_trans; [apply (Step0n_DocExt _ _ _ _ S2)|apply (Step0n_DocExt _ _ _ _ S3)].
        -- apply Hkm.
      * apply (kmn_Forall2_ext (c_doc c2)); [apply (Step0n_DocExt _ _ _ _ S3)|].
        rewrite P1, Ln1 in F2. exact F2.
    + rewrite app_length, Lx, sem_attrs_len, L2, nattrs_elem. reflexivity.
    + rewrite Tr3, Tr2, Tr1, ns_cost_elem. fold sc. unfold own_cost. destruct (own_bindings es); clia.
  - (* empty *)
    destruct (wf_elem_parts _ _ _ _ _ Hwf) as ([Hn N1 Hes N6 N2e N2a N7 Hw] & _). clear Hwf.
    rewrite r_item_elem in *. rewrite <- !app_assoc in HW |- *.
    change ([47; 62] ++ post) with (tag_tail true ++ post) in *.
    rewrite lex_element_ns by assumption. cbv zeta.
    rewrite nattrs_elem, Nat.add_0_r in AR. rewrite ns_cost_elem, Nat.add_0_r in SR.
    rewrite item_decls_elem, app_nil_r in HinD.
    destruct (start_tag_ok_ns text D HD inh p name es ws true post c HW Hn N1 Hes N6 N2e N2a N7 HinD I)
      as (c' & kind & ext & E & S & Lx & Hkm & A & T & Tr & I' & P1 & P2).
    { apply (node_room_room _ _ NR (nsize_pos _)). }
    { unfold attr_room in AR. rewrite sem_attrs_len. exact AR. }
    { unfold ns_room in SR. unfold own_cost. fold (esc es inh). destruct (own_bindings es); clia. }
    cbv zeta in E. apply bind_ok in E. destruct E as (c1 & E1 & E2).
    rewrite E1. cbn [bind]. rewrite E2. cbn [bind negb].
    exists c', [(Some (c_parent_id c), kind)], ext.
    split.
    + f_equal. f_equal. f_equal. rewrite !blen_app. change (blen [60]) with 1. change (blen (tag_tail true)) with 2.
      change (blen [47; 62]) with 2. clia.
    + split; [split; [exact S|split; assumption]|]. split; [exact I'|]. split; [intros _; exact A|].
      split; [intros _; exact T|]. split; [intros _; exact T|]. split; [|split].
      * cbn [tag]. constructor; [|constructor]. apply Hkm.
      * rewrite Lx, sem_attrs_len, nattrs_elem, Nat.add_0_r. reflexivity.
      * rewrite Tr, ns_cost_elem, Nat.add_0_r. unfold own_cost. fold (esc es inh). destruct (own_bindings es); clia.
Qed.

End Items.

Print Assumptions PIn_all.
Print Assumptions root_ok_ns.
