(* Proofs/CstSound6rNest.v -- copy of Proofs/CstSound6bNest.v (itself generated from CstSound6aNest.v) WITH THE RESOURCE
   ACCOUNTING RESTORED: [RT c c' DD KK] = the stretch of the parse from c to c' adds the declared bindings DD and the cost KK
   to the two namespace resources [Res] of Proofs/CstSoundPBuild.v; [lvD]/[lvK]/[AD]/[AK] = declarations and cost of the
   levels of [build fl] ([dcl]/[cst] of Proofs/CstSound6aSem.v), [A_upd]/[A_item]/[A_text] their algebra; [tag_lit],
   [flat_sound], [markup_use] carry an extra conjunct [RT ...].  Hand-edited; the 6b file is unchanged. *)
(* Proofs/CstSound6rNest.v -- C08 soundness on stage S6, markup-valued entities referenced from the body:
   the crate's tree builder on the tokens of a declared markup value (Proofs/CstSound6aFlat.v: ftoks), run inside
   an entity (loop detector and entity floor arbitrary).  The builder invariant SimP of Proofs/CstSoundPBuild.v
   is kept on the SHADOW context (Proofs/CstEntCBuild.v: sh, floor 0 and a fresh detector): a token that is
   neither Text nor Attribute does to a context what it does to its shadow ([evl_shadow]), an attribute whose
   value has no '&' too ([attr_transport]); a text token without '&' only appends.  Result ([flat_sound]): the
   items [build fl] of the value, level by level, inline (nothing to inline: no reference) and satisfy the
   namespace rules in the scopes of the open elements -- [LvSem]. *)
From Coq Require Import String.
From Coq Require Import List Arith NArith Bool Lia ZifyBool ZifyN ZifyNat.
Import ListNotations.
From RX Require Import Generated.
From RX.Model Require Import Base CharClass Stream Tokenizer Doc Builder Parse.
From RX.Spec Require Cst Chars CstU CstNs Scope Detector.
From RX.Spec Require CstText.
From RX.Spec Require Import CstFull CstFullS4 CstFullS5 CstFullS6.
From RX.Proofs Require Import Tactics CstLex CstULex CstTextLex.
From RX.Proofs Require CstBuild RejectProofs CstFullTree CstFullS2Sem CstNsTree WfParse CstTextBuild.
From RX.Proofs Require Import CstFullS3Sem CstFullS3Text.
From RX.Proofs Require Import CstSound CstSoundT CstSoundTLex CstSoundULex CstSoundBuild CstSoundTBuild CstSoundTText CstSoundTMain.
From RX.Proofs Require Import CstSoundN CstSoundNLex CstSoundNBuild CstSoundNText CstSoundNMain.
From RX.Proofs Require Import CstSoundP CstSoundPEnt CstSoundPLex CstSoundPDtd CstSoundPBuild CstSoundPText.
From RX.Proofs Require Import CstSoundPRef.
From RX.Proofs Require CstFullS4TSem CstFullS4Sem CstEntCFloor CstEntCBuild CstFullS4Build CstSound6Val CstSound6uEmb.
From RX.Proofs Require Import CstSound6 CstSound6U CstSound6a CstSound6aFlat CstSound6bLex CstSound6bDtd CstSound6bText CstSound6bRText CstSound6bRTok CstSound6bRTag.
From RX.Proofs Require Import CstSound6aSem.
Open Scope N_scope.

Notation sh := CstEntCBuild.sh.
Notation back := CstEntCBuild.back.
Notation evl := CstEntCBuild.evl.
Notation plain_tok := CstEntCBuild.plain_tok.
Notation GoodT := CstSound6uEmb.GoodT.
Notation lvl := CstSound6Val.lvl.
Notation upd_first := CstSound6Val.upd_first.
Notation litp := CstSound6Val.litp.

(* ------------------------------------------------------------------------------------------ *)
(* levels of items as written, with their meaning                                             *)
(* ------------------------------------------------------------------------------------------ *)
Section Lv.
Variable tb : ytable.
Variable m : bool.
(* what is known of the traces: nothing for the body, "empty" inside a value without references *)
Variable P : list Detector.lop -> Prop.
Hypothesis P_nil : P [].
Hypothesis P_app : forall a c, P a -> P c -> P (a ++ c).

Definition lev_ok (sc : list Scope.binding) (cs : list uitem) : Prop := exists bs tr, SemL tb m sc cs bs tr /\ P tr.
Definition LvSem (opn : list frame) (scl : list Scope.binding) (s : bstate) : Prop :=
  Forall2 (fun f (cw : lvl) => lev_ok (f_sc f) (fst cw)) opn (fst s) /\ lev_ok scl (snd s).
Definition hsc (opn : list frame) (scl : list Scope.binding) : list Scope.binding :=
  match opn with f :: _ => f_sc f | [] => scl end.

Lemma lev_nil sc : lev_ok sc [].
Proof. exists [], []. split; [apply SemL_nil|exact P_nil]. Qed.

Lemma LvSem_upd opn scl lv last (g : list uitem -> list uitem) : LvSem opn scl (lv, last) ->
  (forall cs, lev_ok (hsc opn scl) cs -> lev_ok (hsc opn scl) (g cs)) ->
  LvSem opn scl (upd_first g lv last).
Proof.
  intros [A B0] Hg. cbn [fst snd] in *. destruct lv as [|[cs w] lv'].
  - inversion A; subst. cbn [CstSound6Val.upd_first]. split; [constructor|]. cbn [snd hsc] in *. apply Hg. exact B0.
  - inversion A as [|f ? opn' ? Hf Hr]; subst. cbn [CstSound6Val.upd_first]. split; [|exact B0].
    cbn [fst]. constructor; [|exact Hr]. cbn [fst hsc] in *. apply Hg. exact Hf.
Qed.

Lemma lev_item sc (i : uitem) cs bi ti : inline_item tb m i = Some (bi, ti) -> GoodT ti -> P ti -> PV bi -> ns_oks sc (bdens bi) = true ->
  lev_ok sc cs -> lev_ok sc (i :: cs).
Proof. intros Hi G Pt Pv Hn (bs & tr & H & Pr). exists (bi ++ bs), (ti ++ tr). split; [apply SemL_cons; assumption|apply P_app; assumption]. Qed.

Lemma lev_text sc ps cs b1 t1 : inline_run tb m (enc_epieces ps) = Some (b1, t1) -> GoodT t1 -> P t1 -> PV b1 -> ns_oks sc (bdens b1) = true ->
  lev_ok sc cs -> lev_ok sc (CstSoundPRMain.cons_text_r ps cs).
Proof. intros Hi G Pt Pv Hn (bs & tr & H & Pr). exists (b1 ++ bs), (t1 ++ tr). split; [apply SemL_text; assumption|apply P_app; assumption]. Qed.

Lemma LvSem_close f opn scl s ws2 : LvSem opn scl s -> LvSem (f :: opn) scl (([], ws2) :: fst s, snd s).
Proof. intros [A B0]. split; [|exact B0]. cbn [fst]. constructor; [apply lev_nil|exact A]. Qed.

(* an element with content: its children are the head level *)
Lemma LvSem_open f opn scl cs_in w_in lv1 last name (es : list uentry) (es' : list bentry) tra ws :
  LvSem (f :: opn) scl ((cs_in, w_in) :: lv1, last) ->
  inline_entries tb m es = Some (es', tra) -> GoodT tra -> P tra ->
  forallb (fun e => E.crlf_split_ok (e_value bpieces e)) es' = true ->
  ns_own (hsc opn scl) (x_qname name) (map xb es') = true ->
  f_sc f = Scope.scope_of (CstNs.own_bindings (map xb es')) (hsc opn scl) ->
  LvSem opn scl (upd_first (cons (IElem name es ws (Some (cs_in, w_in)))) lv1 last).
Proof.
  intros [A B0] Ee Ge Pe Ce Hown Hsc. cbn [fst snd] in *. inversion A as [|? ? ? ? Hf Hr]; subst.
  cbn [fst] in Hf. destruct Hf as (bsb & trb & Hin & Pb). rewrite Hsc in Hin.
  destruct (elem_sem tb m (hsc opn scl) name es es' tra ws (Some (cs_in, w_in)) bsb trb Ee Ge Ce Hown Hin) as (I1 & I2 & I3 & I4 & _).
  apply LvSem_upd; [split; assumption|]. intros cs Hc. apply (lev_item _ _ _ _ _ I1 I2 (P_app _ _ Pe Pb) I3 I4 Hc).
Qed.

(* ---- the declarations and the namespace cost of the levels (document order: head level first) ---- *)
Definition lvD (lv : list lvl) : list Scope.binding := flat_map (fun cw : lvl => dcl tb m (fst cw)) lv.
Fixpoint lvK (opn : list frame) (lv : list lvl) : nat :=
  match opn, lv with f :: o', cw :: lv' => (cst tb m (f_sc f) (fst cw) + lvK o' lv')%nat | _, _ => 0%nat end.
Definition AD (s : bstate) : list Scope.binding := lvD (fst s) ++ dcl tb m (snd s).
Definition AK (opn : list frame) (scl : list Scope.binding) (s : bstate) : nat := (lvK opn (fst s) + cst tb m scl (snd s))%nat.

Lemma dcl_nil : dcl tb m [] = [].
Proof. reflexivity. Qed.
Lemma cst_nil sc : cst tb m sc [] = 0%nat.
Proof. reflexivity. Qed.

Lemma A_upd opn scl lv last (g : list uitem -> list uitem) X kx : LvSem opn scl (lv, last) ->
  (forall cs, lev_ok (hsc opn scl) cs ->
     dcl tb m (g cs) = X ++ dcl tb m cs /\ cst tb m (hsc opn scl) (g cs) = (kx + cst tb m (hsc opn scl) cs)%nat) ->
  AD (upd_first g lv last) = X ++ AD (lv, last) /\ AK opn scl (upd_first g lv last) = (kx + AK opn scl (lv, last))%nat.
Proof.
  intros [A B0] Hg. cbn [fst snd] in *. destruct lv as [|[cs w] lv'].
  - inversion A; subst. cbn [CstSound6Val.upd_first]. unfold AD, AK. cbn [fst snd lvD lvK flat_map app hsc] in *.
    destruct (Hg _ B0) as [E1 E2]. rewrite E1, E2. split; reflexivity.
  - inversion A as [|f ? opn' ? Hf Hr]; subst. cbn [CstSound6Val.upd_first]. unfold AD, AK. cbn [fst snd lvD lvK flat_map hsc] in *.
    destruct (Hg _ Hf) as [E1 E2]. rewrite E1, E2. rewrite <- !app_assoc. split; [reflexivity|lia].
Qed.

Lemma A_item sc (i : uitem) cs bi ti : inline_item tb m i = Some (bi, ti) -> lev_ok sc cs ->
  dcl tb m (i :: cs) = NT.items_decls (bdens bi) ++ dcl tb m cs /\
  cst tb m sc (i :: cs) = (NT.ns_costs sc (bdens bi) + cst tb m sc cs)%nat.
Proof. intros Hi (bs & tr & H & _). destruct (dcl_cons tb m sc i cs bi ti bs tr Hi H) as [E1 E2]. split; [exact E1|apply E2]. Qed.

Lemma A_text sc ps cs b1 t1 : inline_run tb m (enc_epieces ps) = Some (b1, t1) -> lev_ok sc cs ->
  dcl tb m (CstSoundPRMain.cons_text_r ps cs) = NT.items_decls (bdens b1) ++ dcl tb m cs /\
  cst tb m sc (CstSoundPRMain.cons_text_r ps cs) = (NT.ns_costs sc (bdens b1) + cst tb m sc cs)%nat.
Proof. intros Hi (bs & tr & H & _). destruct (dcl_text tb m sc ps cs b1 t1 bs tr Hi H) as [E1 E2]. split; [exact E1|apply E2]. Qed.

End Lv.

(* ------------------------------------------------------------------------------------------ *)
(* steps on the shadow                                                                        *)
(* ------------------------------------------------------------------------------------------ *)
Section Shadow.
Variable text : bytes.
Notation T_ := (Parse.token text).
Notation W := (CstLex.W text).
Notation WV := (CstULex.WV text).

Lemma sh_ld c : c_ld (sh c) = ld_init.
Proof. reflexivity. Qed.

(* a token that is neither Text nor Attribute *)
Lemma plain_step lvl tk c c' : plain_tok tk ->
  (forall pr lo r, tk = TElementEnd (EClose pr lo) r ->
     c_entity_floor c < len_N (c_parent_prefixes c) /\ 0 < len_N (c_parent_prefixes c)) ->
  evl text lvl tk c = Ok c' ->
  T_ tk (sh c) = Ok (sh c') /\ c_ld c' = c_ld c /\ c_entity_floor c' = c_entity_floor c.
Proof.
  intros Hp Hcl H. rewrite (CstEntCBuild.evl_shadow text lvl tk c Hp Hcl) in H.
  change (CstBuild.tok_ev text tk (sh c)) with (T_ tk (sh c)) in H.
  destruct (T_ tk (sh c)) as [x| | |] eqn:E; cbn [CstEntCFloor.rmap] in H; try discriminate. injection H as <-.
  destruct (CstFullS4Build.plain_keeps text _ tk (sh c) x Hp E) as [F L].
  rewrite (CstEntCBuild.sh_back c x F L). split; [reflexivity|]. split; reflexivity.
Qed.

Lemma rn_floor c r c' : resolve_namespaces text c = Ok (r, c') ->
  c_entity_floor c' = c_entity_floor c /\ c_parent_prefixes c' = c_parent_prefixes c.
Proof.
  unfold resolve_namespaces. intros H. ib H pnd Hp.
  destruct (nd_kind pnd) as [| n0 l0 a0 nss| | | ]; try (ib H r0 Hr; inversion H; subst; split; reflexivity).
  destruct (c_ns_start_idx c =? len_N (d_ns_tree (c_doc c))); [inversion H; subst; split; reflexivity|].
  destruct nss as [pa pe]. ib H d Hd. ib H r0 Hr. inversion H; subst. split; reflexivity.
Qed.
Lemma ra_floor nss c r c' : resolve_attributes text nss c = Ok (r, c') ->
  c_entity_floor c' = c_entity_floor c /\ c_parent_prefixes c' = c_parent_prefixes c.
Proof.
  unfold resolve_attributes. intros H. destruct (c_cur_attrs c) as [|a l].
  - inversion H; subst. split; reflexivity.
  - cbv zeta in H. destruct (u32_max <=? _); [noerr|]. ib H d' Hd. ib H r0 Hr. inversion H; subst. split; reflexivity.
Qed.

(* a close tag that the builder accepts is above the floor *)
Lemma close_floor lvl pr lo r c c' : evl text lvl (TElementEnd (EClose pr lo) r) c = Ok c' ->
  c_entity_floor c < len_N (c_parent_prefixes c) /\ 0 < len_N (c_parent_prefixes c).
Proof.
  unfold CstEntCBuild.evl. cbn [token_with]. intros H. ib H c0 H0.
  assert (E : c_entity_floor c0 = c_entity_floor c /\ c_parent_prefixes c0 = c_parent_prefixes c).
  { unfold reset_after_text in H0. destruct (c_after_text c) as [|x0 [|y0 l0]]; try (injection H0 as <-; split; reflexivity).
    unfold merge_text in H0. destruct (rev (d_nodes (c_doc c))); [discriminate|]. destruct (nd_kind n); try discriminate. cbn [bind] in H0.
    destruct (upd_node _ _ _); cbn [bind] in H0; try discriminate. injection H0 as <-. split; reflexivity. }
  destruct E as [E1 E2]. unfold process_element in H.
  destruct (slice_len (tn_name (c_tag_name c0)) =? 0); [noerr|].
  ib H q1 H1. destruct q1 as [nss c1]. cbv zeta in H. ib H q2 H2. destruct q2 as [at2 c2].
  assert (E3 : c_entity_floor c2 = c_entity_floor c0 /\ c_parent_prefixes c2 = c_parent_prefixes c0).
  { destruct (rn_floor _ _ _ H1) as [X1 X2]. destruct (ra_floor _ _ _ _ H2) as [Y1 Y2]. cbn in Y1, Y2. split; congruence. }
  destruct E3 as [E3 E4].
  match type of H with (if ?b then _ else _) = _ => destruct b eqn:Eb; [noerr|] end.
  rewrite E4, E3, E2, E1 in Eb. split; [lia|]. lia.
Qed.
End Shadow.

(* ------------------------------------------------------------------------------------------ *)
(* the tokens of a markup value                                                               *)
(* ------------------------------------------------------------------------------------------ *)
Section Nest.
Variable text : bytes.
Hypothesis HF : Frag6b text.
Variable xds : list X4.xdecl.
Variable ets : list entity.
Notation decls := (map CstFullS4Sem.pd xds).
Hypothesis Henv : Forall2 (uent_ok text) decls ets.
Hypothesis Hdecls : Forall CstFullS4TSem.udecl_okc decls.
Hypothesis Hmk : forall d its, In d decls -> E.e_value d = E.EContent its ->
  (mem_b 60 (E.r_value (E.e_value d)) = true /\ Forall (fun y => y <> 38) (E.r_value (E.e_value d))) \/ ImpT decls d.
Hypothesis Hnames : Forall (fun d => uname (E.e_name d)) decls.
Notation tb5 := (E.level decls E.max_level).
Notation M3 := (ents_meaning tb5).
Notation xe3 := (x_entry epieces (val_sem M3)).
Notation T_ := (Parse.token text).
Notation W := (CstLex.W text).
Notation WV := (CstULex.WV text).
Notation sb := (slice_bytes text).
Notation SimP := (CstSoundPBuild.SimP text ets).
Notation Res := (CstSoundPBuild.Res text).
Notation evs := (CstLex.evs context).
Notation WS := (CstSoundTText.WS text).

Definition SimD (c : context) (stk : list frame) : Prop := SimP (sh c) stk.
Definition ResX (c : context) : Prop := exists D K, Res (sh c) D K [].

(* what a stretch of the parse adds to the two namespace resources of Proofs/CstSoundPBuild.v [Res]: the bindings DD
   declared (document order) and the cost KK in the namespace table *)
Definition RT (c c' : context) (DD : list Scope.binding) (KK : nat) : Prop :=
  forall D K, Res (sh c) D K [] -> Res (sh c') (D ++ DD) (K + KK) [].
Lemma RT_nseq c c' : nseq c c' -> RT c c' [] 0%nat.
Proof. intros Hn D K HR. rewrite app_nil_r, Nat.add_0_r. exact (Res_eq text (sh c) (sh c') D K [] Hn HR). Qed.
Lemma RT_refl c : RT c c [] 0%nat.
Proof. apply RT_nseq. repeat split. Qed.
Lemma RT_trans c1 c2 c3 D1 K1 D2 K2 : RT c1 c2 D1 K1 -> RT c2 c3 D2 K2 -> RT c1 c3 (D1 ++ D2) (K1 + K2).
Proof. intros A B0 D K HR. rewrite app_assoc, Nat.add_assoc. exact (B0 _ _ (A _ _ HR)). Qed.
Lemma RT_eq c c' D1 K1 D2 K2 : D1 = D2 -> K1 = K2 -> RT c c' D1 K1 -> RT c c' D2 K2.
Proof. intros -> ->. exact (fun H => H). Qed.
Lemma RT_X c c' DD KK : RT c c' DD KK -> ResX c -> ResX c'.
Proof. intros H (D & K & HR). exists (D ++ DD), (K + KK)%nat. exact (H _ _ HR). Qed.

(* ---- attribute values without '&' ---- *)
Lemma nattr_noamp j es0 : forall fu e p l more t ld t' ld', WS e p l more -> Forall (fun y => y <> 38) l ->
  WfParse.nattr_loop text j es0 fu (sst e p (l ++ more)) t ld = Ok (t', ld') ->
  ld' = ld /\ WfParse.nattr_loop text j es0 fu (sst e p (l ++ more)) t ld_init = Ok (t', ld_init).
Proof.
  induction fu as [|fu IH]; intros e p l more t ld t' ld' HW H38 H; cbn [WfParse.nattr_loop] in H |- *; [noerr|].
  rewrite at_end_sst in H |- *. pose proof HW as [HW0 Hw].
  destruct l as [|x l1].
  { rewrite blen_nil in Hw. replace (e <=? p) with true in H |- * by lia. inversion H; subst. split; reflexivity. }
  rewrite blen_cons in Hw. replace (e <=? p) with false in H |- * by lia.
  cbn [app curr_byte_unchecked sst s_rest bind] in H |- *.
  apply Forall_cons_iff in H38. destruct H38 as [Hx H38'].
  replace (x =? 38) with false in H |- * by lia. cbn [negb] in H |- *.
  change (0 <? ld_depth ld_init) with false. rewrite andb_false_r.
  destruct ((x =? 60) && (0 <? ld_depth ld)); [noerr|].
  fold (sst e p (x :: l1 ++ more)) in H |- *. rewrite advance1_sst in H |- * by lia. cbn [bind] in H |- *.
  exact (IH _ _ _ _ _ _ _ _ (CstSoundTText.WS_cons text _ _ _ _ _ HW) H38' H).
Qed.

Lemma norm_noamp p v q more c stor c1 : WV p (utf8s v ++ [q] ++ more) -> Forall (fun y => y <> 38) (utf8s v) ->
  normalize_attribute text (sl p (p + blen (utf8s v))) c = Ok (stor, c1) ->
  c1 = set_ld c (c_ld c) /\ normalize_attribute text (sl p (p + blen (utf8s v))) (sh c) = Ok (stor, sh c).
Proof.
  intros HWV H38 H. pose proof (WV_W _ _ _ HWV) as HW.
  unfold normalize_attribute in H |- *. cbv zeta in H |- *. rewrite (W_slice text _ _ _ HW) in H |- *.
  destruct (existsb (fun x => (x =? 38) || (x =? 9) || (x =? 10) || (x =? 13)) (utf8s v)).
  - ib H q0 Hq0. destruct q0 as [t ld]. ib H bs Hb. inversion H; subst stor c1. clear H.
    change (c_entities (sh c)) with (c_entities c). change (c_ld (sh c)) with ld_init.
    unfold entity_levels in Hq0 |- *. rewrite WfParse.norm_attr_lvl_eq in Hq0 |- *. cbn [sl sl_start sl_end] in Hq0 |- *.
    destruct (stream_from_substr_ws text p (utf8s v) ([q] ++ more) HW) as (Es & HWS). rewrite Es in Hq0 |- *. cbn [bind] in Hq0 |- *.
    destruct (nattr_noamp _ _ _ _ _ _ _ _ _ _ _ HWS H38 Hq0) as [-> E2]. rewrite E2. cbn [bind]. rewrite Hb. cbn [bind].
    split; [reflexivity|]. destruct c; reflexivity.
  - inversion H; subst. split; [symmetry; apply CstTextBuild.set_ld_same|reflexivity].
Qed.

Lemma attrs_shadow lvl : forall attrs q rest c c', WV q (flat_map r_rattr attrs ++ rest) -> Forall rattr_ok attrs ->
  Forall (fun y => y <> 38) (flat_map r_rattr attrs) ->
  evs (evl text lvl) (nattr_toks q attrs) c = Ok c' ->
  evs T_ (nattr_toks q attrs) (sh c) = Ok (sh c') /\ c_ld c' = c_ld c /\ c_entity_floor c' = c_entity_floor c.
Proof.
  induction attrs as [|a attrs IH]; intros q rest c c' HWV Hok H38 H.
  - cbn [nattr_toks CstLex.evs] in H |- *. inversion H; subst. auto.
  - cbn [nattr_toks CstLex.evs] in H |- *. ib H c1 H1. cbn [flat_map] in HWV, H38. rewrite <- app_assoc in HWV.
    apply Forall_app in H38. destruct H38 as [H38a H38r].
    inversion Hok as [|? ? Hra Hras]; subst.
    pose proof Hra as (Hw1 & (Hpre & Hloc) & Hws1 & Hws2 & Hq & Hu & Hb).
    pose proof HWV as HWa. unfold r_rattr in HWa. rewrite <- !app_assoc in HWa.
    assert (Hlit : forall w, Cst.wf_ws w = true -> forallb (fun y => y <? 128) w = true) by (intros w; apply ws_lit).
    assert (Hw1' : Cst.wf_ws (ra_ws a) = true) by (unfold Cst.wf_ws1 in Hw1; destruct (ra_ws a); [discriminate|exact Hw1]).
    pose proof (WV_lit text _ _ _ HWa (Hlit _ Hw1')) as Hn.
    assert (Hqv : U8.Valid (rq (ra_pre a) (ra_loc a))).
    { unfold rq. destruct Hpre as [->|Hp]; [apply CstFullLex.uname_valid; exact Hloc|].
      destruct (ra_pre a); [apply CstFullLex.uname_valid; exact Hloc|].
      apply U8.Valid_app; [apply CstFullLex.uname_valid; exact Hp|].
      apply U8.Valid_app; [apply Valid_lit; reflexivity|apply CstFullLex.uname_valid; exact Hloc]. }
    pose proof (WV_app text _ _ _ Hn Hqv) as H2. pose proof (WV_lit text _ _ _ H2 (Hlit _ Hws1)) as H3.
    pose proof (WV_lit text _ [61] _ H3 eq_refl) as H4. pose proof (WV_lit text _ _ _ H4 (Hlit _ Hws2)) as H5.
    assert (Hq128 : ra_quote a < 128) by lia.
    pose proof (WV_cons text _ _ _ H5 Hq128) as Hv. change (blen [61]) with 1 in *.
    assert (H38v : Forall (fun y => y <> 38) (utf8s (ra_val a))).
    { unfold r_rattr in H38a. do 6 (apply Forall_app in H38a; destruct H38a as [_ H38a]). apply Forall_app in H38a. tauto. }
    unfold nattr_tok in H1 |- *. cbv zeta in H1 |- *.
    set (vs := q + blen (ra_ws a) + blen (rq (ra_pre a) (ra_loc a)) + blen (ra_ws1 a) + 1 + blen (ra_ws2 a) + 1) in *.
    match type of H1 with evl _ _ (TAttribute ?r ?ql ?el ?pr ?lo ?v) _ = _ =>
      set (tr0 := r) in *; set (tq := ql) in *; set (te := el) in *; set (tp := pr) in *; set (tl0 := lo) in * end.
    assert (HN : exists stor cn, normalize_attribute text (sl vs (vs + blen (utf8s (ra_val a)))) c = Ok (stor, cn)).
    { unfold CstEntCBuild.evl in H1. cbn [token_with] in H1. unfold process_attribute in H1.
      destruct (normalize_attribute text (sl vs (vs + blen (utf8s (ra_val a)))) c) as [[stor cn]| | |]; cbn [bind] in H1; try discriminate. eauto. }
    destruct HN as (stor & cn & HN).
    destruct (norm_noamp _ _ _ _ _ _ _ Hv H38v HN) as [-> HN'].
    pose proof (CstFullS4Build.attr_transport text lvl tr0 tq te tp tl0 (sl vs (vs + blen (utf8s (ra_val a)))) c stor (c_ld c) HN HN') as HT.
    rewrite H1 in HT. change (CstBuild.tok_ev text) with T_ in HT.
    destruct (T_ (TAttribute tr0 tq te tp tl0 (sl vs (vs + blen (utf8s (ra_val a))))) (sh c)) as [x| | |] eqn:Ex; cbn [CstEntCFloor.rmap] in HT; try discriminate.
    injection HT as HT. cbn [bind].
    assert (Kx : c_entity_floor x = 0 /\ c_ld x = ld_init).
    { unfold Parse.token in Ex. cbn [token_with] in Ex.
      destruct (CstFullS4Build.attr_keeps text _ _ _ _ _ _ _ _ _ _ HN' Ex) as (A1 & A2 & _). split; [rewrite A1|rewrite A2]; reflexivity. }
    destruct Kx as [Kf Kl].
    assert (Esh : sh c1 = x) by (rewrite HT; destruct x; cbn in *; subst; reflexivity).
    assert (HWn : WV (q + blen (r_rattr a)) (flat_map r_rattr attrs ++ rest)).
    { pose proof (WV_app text _ _ _ Hv (Valid_uchars _ Hu)) as H7. pose proof (WV_cons text _ _ _ H7 Hq128) as H8.
      replace (q + blen (r_rattr a)) with (vs + blen (utf8s (ra_val a)) + 1); [exact H8|].
      unfold vs, r_rattr. rewrite !blen_app. change (blen [61]) with 1. change (blen [ra_quote a]) with 1. lia. }
    destruct (IH _ _ _ _ HWn Hras H38r H) as (E1 & E2 & E3). rewrite <- Esh. split; [exact E1|].
    rewrite E2, E3, HT. split; reflexivity.
Qed.

(* ---- text without '&' ---- *)
Lemma tframe_sh c c' : tframe c c' -> tframe (sh c) (sh c').
Proof. intros (A1 & A2 & A3 & A4 & A5 & K & A6 & A7). repeat split; try assumption; try apply A5. exists K. auto. Qed.

Lemma SimD_tframe c c' stk : SimD c stk -> tframe c c' -> SimD c' stk.
Proof. intros HS TF. unfold SimD in *. apply (CstSound6bRTok.SimP_tframe text ets _ _ _ HS (tframe_sh _ _ TF)). reflexivity. Qed.

Lemma ResX_nseq c c' : nseq c c' -> ResX c -> ResX c'.
Proof. intros Hn (D & K & HR). exists D, K. apply (Res_eq text (sh c) (sh c') D K [] Hn HR). Qed.

Lemma text_shadow lvl p cs more c c' : WV p (utf8s cs ++ more) -> Forall (fun y => y <> 38) (utf8s cs) ->
  evl text lvl (TText (sl p (p + blen (utf8s cs))) (p, p + blen (utf8s cs))) c = Ok c' ->
  tframe c c' /\ c_ld c' = c_ld c.
Proof.
  intros HWV H38 H. pose proof (WV_W _ _ _ HWV) as HW. unfold CstEntCBuild.evl in H. cbn [token_with] in H.
  rewrite BorrowParse.process_text_with_eq in H. cbv zeta in H. rewrite (W_slice text _ _ _ HW) in H.
  assert (Ee : existsb (fun y => (y =? 38) || (y =? 13)) (utf8s cs) = false).
  { apply not_true_iff_false. intros E. apply existsb_exists in E. destruct E as (y & Hy & Ey).
    rewrite Forall_forall in H38. pose proof (H38 y Hy). pose proof (W_no13_all text HF _ _ _ HW) as H13. rewrite Forall_forall in H13. pose proof (H13 y Hy). lia. }
  rewrite Ee in H. cbn [negb] in H. exact (append_text_tframe _ _ _ _ H).
Qed.

Lemma cdata_shadow lvl tk rr c c' : evl text lvl (TCdata tk rr) c = Ok c' -> tframe c c' /\ c_ld c' = c_ld c.
Proof.
  unfold CstEntCBuild.evl. cbn [token_with]. unfold process_cdata. cbv zeta. intros H.
  destruct (mem_b 13 (sb tk)); exact (append_text_tframe _ _ _ _ H).
Qed.


(* ---- entries whose values are literals ---- *)
Lemma entry_lit_val a v : e_value epieces (entry_of_r a (litp v)) = litp v.
Proof. unfold entry_of_r. cbv zeta. destruct (bytes_eqb _ _); [reflexivity|]. destruct (utf8s (ra_pre a)); [destruct (bytes_eqb _ _)|]; reflexivity. Qed.

Lemma inl_lit tb m (e : uentry) v : e_value epieces e = litp v -> Forall (fun y => y <> 13) (utf8s v) ->
  exists e', inline_entry tb m e = Some (e', []) /\ xb e' = xe3 e /\ E.crlf_split_ok (e_value bpieces e') = true.
Proof.
  intros Ev H13. destruct e as [l n val|l q val]; cbn [e_value] in Ev; subst val; cbn [inline_entry]; destruct v as [|x v'].
  - cbn [litp enc_epieces map E.inline_ps E.obind fst snd]. eexists. split; [reflexivity|]. split; [|reflexivity].
    cbn [x_entry e_value val_sem ents_meaning]. unfold eval_sem. cbn [litp enc_epieces map E.inline_ps]. reflexivity.
  - cbn [litp]. unfold enc_epieces. cbn [map enc_epiece enc_piece E.inline_ps E.is_lt_ref]. rewrite andb_false_r. cbn [E.inline_ps E.obind fst snd].
    eexists. split; [reflexivity|]. split.
    + cbn [x_entry e_value val_sem ents_meaning]. unfold eval_sem, enc_epieces. cbn [litp map enc_epiece enc_piece E.inline_ps E.is_lt_ref]. rewrite andb_false_r. reflexivity.
    + cbn [e_value]. apply nocr_crlf. unfold nocr. cbn [forallb]. rewrite (lit_nocr _ H13). reflexivity.
  - cbn [litp enc_epieces map E.inline_ps E.obind fst snd]. eexists. split; [reflexivity|]. split; [|reflexivity].
    cbn [x_entry e_value val_sem ents_meaning]. unfold eval_sem. cbn [litp enc_epieces map E.inline_ps]. reflexivity.
  - cbn [litp]. unfold enc_epieces. cbn [map enc_epiece enc_piece E.inline_ps E.is_lt_ref]. rewrite andb_false_r. cbn [E.inline_ps E.obind fst snd].
    eexists. split; [reflexivity|]. split.
    + cbn [x_entry e_value val_sem ents_meaning]. unfold eval_sem, enc_epieces. cbn [litp map enc_epiece enc_piece E.inline_ps E.is_lt_ref]. rewrite andb_false_r. reflexivity.
    + cbn [e_value]. apply nocr_crlf. unfold nocr. cbn [forallb]. rewrite (lit_nocr _ H13). reflexivity.
Qed.

Lemma ents_lit tb m : forall attrs, Forall (fun a => Forall (fun y => y <> 13) (utf8s (ra_val a))) attrs ->
  exists es', inline_entries tb m (map (fun a => entry_of_r a (litp (ra_val a))) attrs) = Some (es', []) /\
    map xb es' = map xe3 (map (fun a => entry_of_r a (litp (ra_val a))) attrs) /\
    forallb (fun e => E.crlf_split_ok (e_value bpieces e)) es' = true.
Proof.
  induction 1 as [|a r Ha _ IH]; [exists []; repeat split|]. destruct IH as (es' & I1 & I2 & I3).
  destruct (inl_lit tb m (entry_of_r a (litp (ra_val a))) (ra_val a) (entry_lit_val _ _) Ha) as (e' & J1 & J2 & J3).
  exists (e' :: es'). cbn [map inline_entries]. rewrite J1. cbn [E.obind]. rewrite I1. cbn [E.obind fst snd app].
  split; [reflexivity|]. cbn [map forallb]. rewrite J2, I2, J3, I3. split; reflexivity.
Qed.

Lemma lit_unique q v ps : uchars v -> Forall (fun y => y <> 38) (utf8s v) ->
  utf8s v = E.r_epieces (enc_epieces ps) -> wf_uepieces q false false false ps = true -> ps = litp v.
Proof.
  intros Hu H38 E Hwf. unfold wf_uepieces in Hwf. apply andb_true_iff in Hwf. destruct Hwf as [Hf Hadj].
  assert (Hsv : scalars_ok v) by (unfold scalars_ok; eapply Forall_impl; [|exact Hu]; cbv beta; tauto).
  destruct ps as [|p r].
  - cbn in E. apply utf8s_nil_inv in E. subst v. reflexivity.
  - cbn [forallb] in Hf. apply andb_true_iff in Hf. destruct Hf as [Hp Hr].
    unfold enc_epieces in E. cbn [map] in E. fold (enc_epieces r) in E. rewrite r_epieces_cons in E.
    assert (Hamp : forall (x : E.epiece) R, E.is_elit x = false -> wf_uepiece q false false false x = true ->
              exists R', E.r_epiece (enc_epiece x) ++ R = 38 :: R').
    { intros x R Hl Hw. destruct x as [[cs|hex ds|pe|cd]|n]; try discriminate; cbn [enc_epiece enc_piece E.r_epiece T.r_piece app]; eauto. }
    destruct p as [[cs|hex ds|pe|cd]|n].
    2,3,4,5: exfalso; match type of Hp with wf_uepiece _ _ _ _ ?x = true => destruct (Hamp x (E.r_epieces (enc_epieces r)) eq_refl Hp) as (R' & ER) end; rewrite ER in E; rewrite E in H38; inversion H38; congruence.
    cbn [wf_uepiece wf_uvpiece andb] in Hp. rewrite andb_true_r in Hp. unfold wf_ulit in Hp. apply andb_true_iff in Hp. destruct Hp as [Hne Hcs].
    assert (Hsc : scalars_ok cs).
    { unfold scalars_ok. apply Forall_forall. intros y Hy. rewrite forallb_forall in Hcs. specialize (Hcs y Hy).
      apply CstULex.char_scalar. repeat (apply andb_true_iff in Hcs; destruct Hcs as [Hcs _]). exact Hcs. }
    destruct r as [|p2 r2].
    + cbn in E. rewrite app_nil_r in E. apply (CstUItems.utf8s_inj _ _ Hsv Hsc) in E. subst v. destruct cs; [discriminate|reflexivity].
    + exfalso. cbn [forallb] in Hr. apply andb_true_iff in Hr. destruct Hr as [Hp2 _].
      destruct (E.is_elit p2) eqn:El2.
      * cbn [E.no_adjacent_elit E.is_elit] in Hadj. rewrite El2 in Hadj. discriminate.
      * unfold enc_epieces in E. cbn [map] in E. fold (enc_epieces r2) in E. rewrite r_epieces_cons in E.
        destruct (Hamp _ (E.r_epieces (enc_epieces r2)) El2 Hp2) as (R' & ER). rewrite ER in E. cbn [enc_epiece enc_piece E.r_epiece T.r_piece] in E.
        rewrite E in H38. apply Forall_app in H38. destruct H38 as [_ H38]. inversion H38; congruence.
Qed.

Lemma ents_unique : forall attrs es, Forall rattr_ok attrs -> Forall (fun y => y <> 38) (flat_map r_rattr attrs) ->
  Forall2 (fun a e => exists ps, e = entry_of_r a ps /\ utf8s (ra_val a) = E.r_epieces (enc_epieces ps) /\ wf_eval tb5 (ra_quote a) ps = true) attrs es ->
  es = map (fun a => entry_of_r a (litp (ra_val a))) attrs.
Proof.
  intros attrs es Hok H38 HF2. induction HF2 as [|a e attrs es (ps & -> & Eps & Hwf) _ IH]; [reflexivity|].
  inversion Hok as [|? ? Ha Hr]; subst. cbn [flat_map] in H38. apply Forall_app in H38. destruct H38 as [H38a H38r].
  cbn [map]. rewrite (IH Hr H38r). f_equal. f_equal.
  destruct Ha as (_ & _ & _ & _ & _ & Hu & _). unfold wf_eval in Hwf. apply andb_true_iff in Hwf. destruct Hwf as [Hwf _].
  apply (lit_unique (ra_quote a)); try assumption.
  unfold r_rattr in H38a. do 6 (apply Forall_app in H38a; destruct H38a as [_ H38a]). apply Forall_app in H38a. tauto.
Qed.


(* ---- a start tag of the value: on the shadow, with the entries as declared ---- *)
Notation ents_of := CstSound6Val.ents_of.

Lemma tag_lit tb lvl p pre loc attrs ws_end open l' c c' stk :
  WV p ([60] ++ rq pre loc ++ flat_map r_rattr attrs ++ ws_end ++ tag_tail (negb open) ++ l') ->
  qn_ok pre loc -> Forall rattr_ok attrs -> Cst.wf_ws ws_end = true -> Forall (fun y => y <> 38) (flat_map r_rattr attrs) ->
  SimD c stk -> ResX c ->
  evs (evl text lvl) (tag_toks p pre loc attrs ws_end (negb open)) c = Ok c' ->
  exists nss es',
    SimD c' (if open then frame_of_r decls stk pre loc (ents_of attrs) nss :: stk else stk) /\ ResX c' /\
    c_ld c' = c_ld c /\ c_entity_floor c' = c_entity_floor c /\
    inline_entries tb true (ents_of attrs) = Some (es', []) /\
    forallb (fun e => E.crlf_split_ok (e_value bpieces e)) es' = true /\
    ns_own (top_sc stk) (x_qname (mkq pre loc)) (map xb es') = true /\
    Scope.scope_of (CstNs.own_bindings (map xe3 (ents_of attrs))) (top_sc stk) = Scope.scope_of (CstNs.own_bindings (map xb es')) (top_sc stk) /\
    RT c c' (CstNs.own_bindings (map xb es'))
       (elem_cost (CstNs.own_bindings (map xb es')) (Scope.scope_of (CstNs.own_bindings (map xb es')) (top_sc stk))).
Proof.
  intros HWV Hqn Hattrs Hwe H38 HS (D & K & HR) H. unfold tag_toks in H. cbn [CstLex.evs] in H. ib H c1 H1.
  rewrite evs_app in H. ib H c2 H2. cbn [CstLex.evs] in H. ib H c3 H3. injection H as <-.
  assert (Pst : plain_tok (nstart_tok p pre loc)) by (split; intros; discriminate).
  destruct (plain_step text lvl _ _ _ Pst ltac:(intros pr lo r E; discriminate E) H1) as (T1 & L1 & F1).
  pose proof (WV_lit text _ [60] _ HWV eq_refl) as HW1. change (blen [60]) with 1 in HW1.
  assert (Hqv : U8.Valid (rq pre loc)).
  { destruct Hqn as [Hpre Hloc]. unfold rq. destruct Hpre as [->|Hp]; [apply CstFullLex.uname_valid; exact Hloc|].
    destruct pre; [apply CstFullLex.uname_valid; exact Hloc|].
    apply U8.Valid_app; [apply CstFullLex.uname_valid; exact Hp|].
    apply U8.Valid_app; [apply Valid_lit; reflexivity|apply CstFullLex.uname_valid; exact Hloc]. }
  pose proof (WV_app text _ _ _ HW1 Hqv) as HW2.
  destruct (attrs_shadow lvl _ _ _ _ _ HW2 Hattrs H38 H2) as (T2 & L2 & F2).
  assert (Pen : plain_tok (end_tok (p + 1 + blen (rq pre loc) + blen (flat_map r_rattr attrs) + blen ws_end) (negb open))) by (split; intros; discriminate).
  destruct (plain_step text lvl _ _ _ Pen ltac:(intros pr lo r E; unfold end_tok in E; destruct (negb open); discriminate E) H3) as (T3 & L3 & F3).
  destruct (tag_sound_r text HF decls ets Henv Hdecls Hmk Hnames p pre loc attrs ws_end open l' _ _ _ _ stk HWV Hqn Hattrs Hwe HS D K HR T1 T2 T3)
    as (es & nss & HS' & Ees & Hok & HR' & HF2).
  pose proof (ents_unique attrs es Hattrs H38 HF2) as Ees'. subst es.
  assert (H13 : Forall (fun a => Forall (fun y => y <> 13) (utf8s (ra_val a))) attrs).
  { pose proof (W_no13_all text HF _ _ _ (WV_W _ _ _ HW2)) as X. clear - X.
    induction attrs as [|a r IH]; [constructor|]. cbn [flat_map] in X. apply Forall_app in X. destruct X as [Xa Xr].
    constructor; [|exact (IH Xr)]. unfold r_rattr in Xa. do 6 (apply Forall_app in Xa; destruct Xa as [_ Xa]). apply Forall_app in Xa. tauto. }
  destruct (ents_lit tb true attrs H13) as (es' & I1 & I2 & I3).
  exists nss, es'. split; [exact HS'|]. split; [eexists; eexists; exact HR'|]. split; [congruence|]. split; [congruence|].
  split; [exact I1|]. split; [exact I3|]. destruct Hok as (_ & _ & _ & Hown). split; [rewrite I2; exact Hown|]. split; [rewrite I2; reflexivity|].
  intros D' K' HR0.
  destruct (tag_sound_r text HF decls ets Henv Hdecls Hmk Hnames p pre loc attrs ws_end open l' _ _ _ _ stk HWV Hqn Hattrs Hwe HS D' K' HR0 T1 T2 T3)
    as (es2 & nss2 & _ & _ & _ & HR2 & HF22).
  pose proof (ents_unique attrs es2 Hattrs H38 HF22) as E2. subst es2. rewrite I2. exact HR2.
Qed.


Definition P0 (tr : list Detector.lop) : Prop := tr = [].
Lemma P0_nil : P0 [].
Proof. reflexivity. Qed.
Lemma P0_app a c0 : P0 a -> P0 c0 -> P0 (a ++ c0).
Proof. unfold P0. intros -> ->. reflexivity. Qed.

Lemma hsc_top opn rest : hsc opn (top_sc rest) = top_sc (opn ++ rest).
Proof. destruct opn; reflexivity. Qed.

Lemma flat1_valid x l : flat_ok1 x -> U8.Valid (r_flat1 x ++ l) -> U8.Valid (r_flat1 x).
Proof.
  intros Hok HV.
  assert (G : forall B0, r_flat1 x = B0 ++ [62] -> U8.Valid (r_flat1 x)).
  { intros B0 E. rewrite E in HV |- *. rewrite <- app_assoc in HV. cbn [app] in HV.
    apply U8.Valid_app; [apply (valid_split B0 62 l); [lia|exact HV]|apply Valid_lit; reflexivity]. }
  destruct x as [pre loc attrs ws|pre loc attrs ws|pre loc ws2|cs|cs|bs|t sep v]; cbn [r_flat1] in *.
  - apply (G ([60] ++ rq pre loc ++ flat_map r_rattr attrs ++ ws)). rewrite <- !app_assoc. reflexivity.
  - apply (G ([60] ++ rq pre loc ++ flat_map r_rattr attrs ++ ws ++ [47])). rewrite <- !app_assoc. reflexivity.
  - apply (G ([60; 47] ++ rq pre loc ++ ws2)). rewrite <- !app_assoc. reflexivity.
  - apply Valid_uchars. apply Hok.
  - apply (G ([60; 33; 91; 67; 68; 65; 84; 65; 91] ++ utf8s cs ++ [93; 93])). rewrite <- !app_assoc. reflexivity.
  - apply (G ([60; 33; 45; 45] ++ utf8s bs ++ [45; 45])). rewrite <- !app_assoc. reflexivity.
  - apply (G ([60; 63] ++ utf8s t ++ sep ++ utf8s v ++ [63])). rewrite <- !app_assoc. reflexivity.
Qed.

(* the tokens of a markup value, from any context inside an entity *)
Lemma flat_sound tb lvl : forall fl p post c c' opn rest names,
  WV p (r_flat fl ++ post) -> flat_ok fl -> fbal names fl -> length names = length opn ->
  SimD c (opn ++ rest) -> ResX c ->
  evs (evl text lvl) (ftoks p fl) c = Ok c' ->
  SimD c' rest /\ ResX c' /\ LvSem tb true P0 opn (top_sc rest) (build fl) /\ c_ld c' = c_ld c /\
  RT c c' (AD tb true (build fl)) (AK tb true opn (top_sc rest) (build fl)).
Proof.
  induction fl as [|x fl IH]; intros p post c c' opn rest names HWV Hok Hbal Hlen HS HR H.
  { cbn [ftoks CstLex.evs] in H. injection H as <-. cbn [fbal] in Hbal. subst names. destruct opn; [|discriminate]. cbn [app] in HS.
    split; [exact HS|]. split; [exact HR|]. split; [split; [constructor|apply (lev_nil tb true P0 P0_nil)]|]. split; [reflexivity|exact (RT_refl c)]. }
  cbn [ftoks] in H. rewrite evs_app in H. ib H c1 H1. cbn [flat_ok] in Hok. destruct Hok as (Hok1 & Hstop & Hokr).
  cbn [r_flat flat_map] in HWV. fold (r_flat fl) in HWV. rewrite <- app_assoc in HWV.
  assert (HWn : WV (p + blen (r_flat1 x)) (r_flat fl ++ post)).
  { apply (WV_app text _ _ _ HWV). exact (flat1_valid x _ Hok1 (proj2 HWV)). }
  assert (Fin : forall (A B0 C0 E0 : Prop), A -> B0 -> c_ld c' = c_ld c -> C0 /\ E0 -> (A /\ B0 /\ C0 /\ c_ld c' = c_ld c /\ E0)) by tauto.
  destruct x as [pre loc attrs ws|pre loc attrs ws|pre loc ws2|cs|cs|bs|t sep v]; cbn [ftok1] in H1; cbn [fbal] in Hbal; cbn [build fold_right]; fold (build fl).
  - (* a start tag *)
    destruct Hok1 as (Hqn & Hat & Hws & H38). cbn [r_flat1] in HWV. rewrite <- !app_assoc in HWV. change [62] with (tag_tail (negb true)) in HWV.
    destruct (tag_lit tb lvl p pre loc attrs ws true _ c c1 (opn ++ rest) HWV Hqn Hat Hws H38 HS HR H1) as (nss & es' & HS1 & HR1 & L1 & _ & I1 & I3 & Hown & Hsc & HT1).
    set (f := frame_of_r decls (opn ++ rest) pre loc (ents_of attrs) nss) in *.
    destruct (IH _ _ _ _ (f :: opn) rest _ HWn Hokr Hbal ltac:(cbn [length]; rewrite Hlen; reflexivity) HS1 HR1 H) as (HS2 & HR2 & HL & L2 & HT2).
    apply Fin; [exact HS2|exact HR2|congruence|].
    destruct (build fl) as [lv last] eqn:Eb. pose proof HL as [A B00]. cbn [fst snd] in A, B00. inversion A as [|? [cs_in w_in] ? lv1 Hf Hr]; subst.
    cbn [bstep fst snd].
    assert (Hscf : f_sc f = Scope.scope_of (CstNs.own_bindings (map xb es')) (hsc opn (top_sc rest))).
    { unfold f. cbn [frame_of_r f_sc]. rewrite hsc_top. exact Hsc. }
    split.
    { apply (LvSem_open tb true P0 P0_app f opn (top_sc rest) cs_in w_in lv1 last (mkq pre loc) (ents_of attrs) es' [] ws HL I1 CstSound6uEmb.GoodT_nil P0_nil I3).
      + rewrite hsc_top. exact Hown.
      + exact Hscf. }
    cbn [fst] in Hf. destruct Hf as (bsb & trb & Hin & Pb). rewrite Hscf in Hin. rewrite <- hsc_top in Hown, HT1.
    destruct (elem_sem tb true (hsc opn (top_sc rest)) (mkq pre loc) (ents_of attrs) es' [] ws (Some (cs_in, w_in)) bsb trb I1 CstSound6uEmb.GoodT_nil I3 Hown Hin)
      as (J1 & _ & _ & _ & J5 & J6).
    destruct (A_upd tb true P0 opn (top_sc rest) lv1 last (cons (IElem (mkq pre loc) (ents_of attrs) ws (Some (cs_in, w_in)))) _ _ (conj Hr B00)
                (fun cs0 Hc => A_item tb true P0 _ _ cs0 _ _ J1 Hc)) as [E1 E2].
    rewrite E1, E2, J5, J6.
    refine (RT_eq _ _ _ _ _ _ _ _ (RT_trans _ _ _ _ _ _ _ HT1 HT2)).
    + unfold AD. cbn [fst snd lvD flat_map]. rewrite <- !app_assoc. reflexivity.
    + unfold AK. cbn [fst snd lvK]. rewrite Hscf. lia.
  - (* an empty element *)
    destruct Hok1 as (Hqn & Hat & Hws & H38). cbn [r_flat1] in HWV. rewrite <- !app_assoc in HWV. change [47; 62] with (tag_tail (negb false)) in HWV.
    destruct (tag_lit tb lvl p pre loc attrs ws false _ c c1 (opn ++ rest) HWV Hqn Hat Hws H38 HS HR H1) as (nss & es' & HS1 & HR1 & L1 & _ & I1 & I3 & Hown & _ & HT1).
    destruct (IH _ _ _ _ opn rest _ HWn Hokr Hbal Hlen HS1 HR1 H) as (HS2 & HR2 & HL & L2 & HT2).
    apply Fin; [exact HS2|exact HR2|congruence|].
    rewrite <- hsc_top in Hown, HT1.
    destruct (elem_sem tb true (hsc opn (top_sc rest)) (mkq pre loc) (ents_of attrs) es' [] ws None [] [] I1 CstSound6uEmb.GoodT_nil I3 Hown (conj eq_refl eq_refl))
      as (J1 & J2 & J3 & J4 & J5 & J6).
    cbn [bstep]. destruct (build fl) as [lv last]. cbn [fst snd].
    split. { apply LvSem_upd; [exact HL|]. intros cs0 Hc. apply (lev_item tb true P0 P0_app _ _ _ _ _ J1 J2 eq_refl J3 J4 Hc). }
    destruct (A_upd tb true P0 opn (top_sc rest) lv last (cons (IElem (mkq pre loc) (ents_of attrs) ws None)) _ _ HL
                (fun cs0 Hc => A_item tb true P0 _ _ cs0 _ _ J1 Hc)) as [E1 E2].
    rewrite E1, E2, J5, J6.
    refine (RT_eq _ _ _ _ _ _ _ _ (RT_trans _ _ _ _ _ _ _ HT1 HT2)); [rewrite app_nil_r; reflexivity|lia].
  - (* an end tag *)
    cbn [CstLex.evs] in H1. ib H1 cx Hx. injection H1 as <-. unfold nclose_tok in Hx.
    pose proof (close_floor text lvl _ _ _ _ _ Hx) as Hfl.
    assert (Pc : plain_tok (TElementEnd (EClose (sl (p + 2) (p + 2 + blen (utf8s pre))) (sl (p + 2 + qoff pre) (p + 2 + qoff pre + blen (utf8s loc))))
                                 (p, p + 2 + blen (rq pre loc) + blen ws2 + 1))) by (split; intros; discriminate).
    destruct (plain_step text lvl _ _ _ Pc ltac:(intros; exact Hfl) Hx) as (T1 & L1 & _).
    destruct (step_close_p text ets _ _ _ _ _ _ HS T1) as (f & stk' & Estk & _ & _ & HS1 & _ & Hnq).
    destruct names as [|n names']; [contradiction|]. destruct Hbal as [_ Hbal].
    destruct opn as [|f0 opn']; [discriminate|]. cbn [app] in Estk. injection Estk as <- <-.
    assert (HR1 : ResX cx) by (destruct HR as (D & K & HR); exists D, K; exact (Res_eq text _ _ _ _ _ Hnq HR)).
    destruct (IH _ _ _ _ opn' rest _ HWn Hokr Hbal ltac:(cbn [length] in Hlen; lia) HS1 HR1 H) as (HS2 & HR2 & HL & L2 & HT2).
    apply Fin; [exact HS2|exact HR2|congruence|]. cbn [bstep].
    split; [apply (LvSem_close tb true P0 P0_nil); exact HL|].
    refine (RT_eq _ _ _ _ _ _ _ _ (RT_trans _ _ _ _ _ _ _ (RT_nseq _ _ Hnq) HT2)); reflexivity.
  - (* text *)
    cbn [CstLex.evs] in H1. ib H1 cx Hx. injection H1 as <-. destruct Hok1 as [Hraw H38]. cbn [r_flat1] in HWV.
    destruct (text_shadow lvl _ _ _ _ _ HWV H38 Hx) as [TF Ld].
    assert (HR1 : ResX cx) by (destruct HR as (D & K & HR); exists D, K; apply (Res_eq text (sh c) (sh cx) D K []); [apply (tframe_sh _ _ TF)|exact HR]).
    destruct (IH _ _ _ _ opn rest _ HWn Hokr Hbal Hlen (SimD_tframe _ _ _ HS TF) HR1 H) as (HS2 & HR2 & HL & L2 & HT2).
    apply Fin; [exact HS2|exact HR2|congruence|].
    cbn [bstep]. destruct (build fl) as [lv last]. cbn [fst snd].
    destruct Hraw as (Hne & _). destruct cs as [|x0 cr]; [congruence|].
    assert (Hir : inline_run tb true (enc_epieces (litp (x0 :: cr))) = Some ([@IText bpieces [T.PLit (utf8s (x0 :: cr))]], [])) by reflexivity.
    split.
    { apply LvSem_upd; [exact HL|]. intros cs0 Hc.
      apply (lev_text tb true P0 P0_app _ _ _ [@IText bpieces [T.PLit (utf8s (x0 :: cr))]] []); [reflexivity|apply CstSound6uEmb.GoodT_nil|reflexivity| |apply ns_oks_texts; reflexivity|exact Hc].
      constructor; [|constructor]. unfold pv1, nocr. cbn [forallb]. rewrite (lit_nocr _ (W_no13_all text HF _ _ _ (WV_W _ _ _ HWV))). reflexivity. }
    destruct (A_upd tb true P0 opn (top_sc rest) lv last _ _ _ HL (fun cs0 Hc => A_text tb true P0 _ _ cs0 _ _ Hir Hc)) as [E1 E2].
    rewrite E1, E2. rewrite decls_texts, costs_texts by reflexivity.
    refine (RT_eq _ _ _ _ _ _ _ _ (RT_trans _ _ _ _ _ _ _ (RT_nseq _ _ (proj1 (proj2 (proj2 (proj2 (proj2 TF)))))) HT2)); reflexivity.
  - (* a CDATA section *)
    cbn [CstLex.evs] in H1. ib H1 cx Hx. injection H1 as <-. unfold cdata_tok in Hx.
    destruct (cdata_shadow lvl _ _ _ _ Hx) as [TF Ld].
    assert (HR1 : ResX cx) by (destruct HR as (D & K & HR); exists D, K; apply (Res_eq text (sh c) (sh cx) D K []); [apply (tframe_sh _ _ TF)|exact HR]).
    destruct (IH _ _ _ _ opn rest _ HWn Hokr Hbal Hlen (SimD_tframe _ _ _ HS TF) HR1 H) as (HS2 & HR2 & HL & L2 & HT2).
    apply Fin; [exact HS2|exact HR2|congruence|].
    cbn [bstep]. destruct (build fl) as [lv last]. cbn [fst snd].
    assert (Hir : inline_run tb true (enc_epieces [E.EP (T.PCData cs)]) = Some ([@IText bpieces [T.PCData (utf8s cs)]], [])) by reflexivity.
    split.
    { apply LvSem_upd; [exact HL|]. intros cs0 Hc.
      apply (lev_text tb true P0 P0_app _ _ _ [@IText bpieces [T.PCData (utf8s cs)]] []); [reflexivity|apply CstSound6uEmb.GoodT_nil|reflexivity| |apply ns_oks_texts; reflexivity|exact Hc].
      constructor; [reflexivity|constructor]. }
    destruct (A_upd tb true P0 opn (top_sc rest) lv last _ _ _ HL (fun cs0 Hc => A_text tb true P0 _ _ cs0 _ _ Hir Hc)) as [E1 E2].
    rewrite E1, E2. rewrite decls_texts, costs_texts by reflexivity.
    refine (RT_eq _ _ _ _ _ _ _ _ (RT_trans _ _ _ _ _ _ _ (RT_nseq _ _ (proj1 (proj2 (proj2 (proj2 (proj2 TF)))))) HT2)); reflexivity.
  - (* a comment *)
    cbn [CstLex.evs] in H1. ib H1 cx Hx. injection H1 as <-.
    assert (Pc : plain_tok (TComment (sl (p + 4) (p + 4 + blen (utf8s bs))) (p, p + 4 + blen (utf8s bs) + 3))) by (split; intros; discriminate).
    destruct (plain_step text lvl _ _ _ Pc ltac:(intros pr lo r E; discriminate E) Hx) as (T1 & L1 & _).
    destruct (step_comment_p text ets _ _ _ _ _ HS T1) as (HS1 & _).
    pose proof (leaf_nseq text _ _ _ _ T1) as Hnq.
    assert (HR1 : ResX cx) by (destruct HR as (D & K & HR); exists D, K; exact (Res_eq text _ _ _ _ _ Hnq HR)).
    destruct (IH _ _ _ _ opn rest _ HWn Hokr Hbal Hlen HS1 HR1 H) as (HS2 & HR2 & HL & L2 & HT2).
    apply Fin; [exact HS2|exact HR2|congruence|].
    cbn [bstep]. destruct (build fl) as [lv last]. cbn [fst snd].
    assert (Hii : inline_item tb true (@IComment epieces bs) = Some ([@IComment bpieces bs], [])) by reflexivity.
    split.
    { apply LvSem_upd; [exact HL|]. intros cs0 Hc.
      apply (lev_item tb true P0 P0_app _ (@IComment epieces bs) _ [@IComment bpieces bs] []); [reflexivity|apply CstSound6uEmb.GoodT_nil|reflexivity| |reflexivity|exact Hc].
      constructor; [reflexivity|constructor]. }
    destruct (A_upd tb true P0 opn (top_sc rest) lv last (cons (@IComment epieces bs)) _ _ HL (fun cs0 Hc => A_item tb true P0 _ _ cs0 _ _ Hii Hc)) as [E1 E2].
    rewrite E1, E2.
    refine (RT_eq _ _ _ _ _ _ _ _ (RT_trans _ _ _ _ _ _ _ (RT_nseq _ _ Hnq) HT2)); reflexivity.
  - (* a PI *)
    cbn [CstLex.evs] in H1. ib H1 cx Hx. injection H1 as <-. unfold pi_tok in Hx. cbv zeta in Hx.
    match type of Hx with evl _ _ ?tk _ = _ => assert (Pc : plain_tok tk) by (split; intros; discriminate) end.
    destruct (plain_step text lvl _ _ _ Pc ltac:(intros pr lo r E; discriminate E) Hx) as (T1 & L1 & _).
    destruct (step_pi_p text ets _ _ _ _ _ _ HS T1) as (HS1 & _).
    pose proof (leaf_nseq text _ _ _ _ T1) as Hnq.
    assert (HR1 : ResX cx) by (destruct HR as (D & K & HR); exists D, K; exact (Res_eq text _ _ _ _ _ Hnq HR)).
    destruct (IH _ _ _ _ opn rest _ HWn Hokr Hbal Hlen HS1 HR1 H) as (HS2 & HR2 & HL & L2 & HT2).
    apply Fin; [exact HS2|exact HR2|congruence|].
    cbn [bstep]. destruct (build fl) as [lv last]. cbn [fst snd].
    assert (Hii : inline_item tb true (@IPI epieces t sep v) = Some ([@IPI bpieces t sep v], [])) by reflexivity.
    split.
    { apply LvSem_upd; [exact HL|]. intros cs0 Hc.
      apply (lev_item tb true P0 P0_app _ (@IPI epieces t sep v) _ [@IPI bpieces t sep v] []); [reflexivity|apply CstSound6uEmb.GoodT_nil|reflexivity| |reflexivity|exact Hc].
      constructor; [reflexivity|constructor]. }
    destruct (A_upd tb true P0 opn (top_sc rest) lv last (cons (@IPI epieces t sep v)) _ _ HL (fun cs0 Hc => A_item tb true P0 _ _ cs0 _ _ Hii Hc)) as [E1 E2].
    rewrite E1, E2.
    refine (RT_eq _ _ _ _ _ _ _ _ (RT_trans _ _ _ _ _ _ _ (RT_nseq _ _ Hnq) HT2)); reflexivity.
Qed.

(* the value of a declared markup entity, read at a reference: from the context of the reference (any detector, any floor),
   the builder comes back to the same open elements, and the declared items satisfy the namespace rules at this place *)
Theorem markup_use tb lvl vs its tail es c sx c' stk :
  UseOK text vs its -> WV vs (X4.r_uitems its ++ tail) ->
  stream_from_substr text vs (vs + blen (X4.r_uitems its)) = Ok es ->
  SimD c stk -> ResX c ->
  parse_content text context (evl text lvl) es c = Ok (sx, c') ->
  SimD c' stk /\ ResX c' /\ c_ld c' = c_ld c /\ exists bs, SemL tb true (top_sc stk) its bs [] /\
    RT c c' (NT.items_decls (bdens bs)) (NT.ns_costs (top_sc stk) (bdens bs)).
Proof.
  intros HU HWV Es HS HR H.
  destruct (use_tokens text vs its context (evl text lvl) es c sx c' HU Es H) as (fl & Eb & Hok & Hbal & Er & Hev).
  rewrite <- Er in HWV.
  destruct (flat_sound tb lvl fl vs tail c c' [] stk [] HWV Hok Hbal eq_refl HS HR Hev) as (HS' & HR' & [HA (bs & tr & HL & Pt)] & Ld & HT).
  unfold AD, AK in HT. rewrite Eb in HT, HL. cbn [fst snd lvD lvK flat_map app Nat.add] in HT, HL. unfold P0 in Pt. subst tr.
  split; [exact HS'|]. split; [exact HR'|]. split; [exact Ld|]. exists bs. split; [exact HL|].
  unfold dcl, cst in HT. rewrite (bs_of_sem _ _ _ _ _ _ HL) in HT. exact HT.
Qed.

End Nest.
Print Assumptions markup_use.
