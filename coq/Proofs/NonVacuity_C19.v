(* Proofs/NonVacuity_C19.v -- non-vacuity of the hypotheses of the theorems pinned under C19
   (PositionsNonInterf.v), on the document of NonVacuity_Doc.v and the builder state cD of NonVacuity_C01.v. *)
From Coq Require Import Ascii String List NArith Bool Lia.
Import ListNotations.
From RX Require Import Generated.
From RX.Model Require Import Base CharClass Stream Tokenizer Doc Builder Parse Api.
From RX.Proofs Require Import OptionsParam PositionsNonInterf NonVacuity_Doc NonVacuity_C01 NonVacuity_C15.
Open Scope N_scope.

(* the stripping callback: the hypothesis on ev' of four of the theorems *)
Definition ev_np (text : bytes) : Tokenizer.token -> context -> res context := fun tok c => strip_res (token text tok c).
Lemma ev_np_ok text : forall tok c, ev_np text tok c = strip_res (token text tok c).
Proof. reflexivity. Qed.

(* token_strip: two DIFFERENT states that agree up to the position fields *)
Definition cD' : context := strip_ctx cD.
Example nv_token_strip : strip_ctx cD = strip_ctx cD' /\ cD <> cD' /\
  exists c, token text0 tokE cD = Ok c /\ len_N (d_nodes (c_doc c)) = 7.
Proof.
  split; [vm_compute; reflexivity|]. split.
  - intros H. apply (f_equal (fun c => map nd_range (d_nodes (c_doc c)))) in H. vm_compute in H. discriminate H.
  - eexists. split; vm_compute; reflexivity.
Qed.
Example nv_token_strip_applied : strip_res (token text0 tokE cD) = strip_res (token text0 tokE cD').
Proof. exact (token_strip _ _ _ _ (proj1 nv_token_strip)). Qed.

(* parse_strip_invariant / parse_np_correct, success *)
Example nv_parse_strip_invariant_applied :
  exists c0 c', init_context text0 opt0 = Ok c0 /\
      parse_document text0 context (ev_np text0) (allow_dtd opt0) (strip_ctx c0) = Ok c' /\
      c_doc c' = strip_doc d0.
Proof. exact (parse_strip_invariant _ _ _ parse0 _ (ev_np_ok text0)). Qed.
Example nv_strip_changes : strip_doc d0 <> d0.
Proof. intros H. apply (f_equal (fun d => map nd_range (d_nodes d))) in H. vm_compute in H. discriminate H. Qed.
Example nv_parse_np_correct_applied : parse_np text0 (ev_np text0) opt0 = Ok (strip_doc d0).
Proof. rewrite (parse_np_correct _ _ _ (ev_np_ok text0)), parse0. reflexivity. Qed.

(* parse_strip_errors / parse_np_correct, an error inside the document *)
Definition c0_bad : context :=
  Eval vm_compute in match init_context text_bad (OptionsMain.opts false 100) with Ok c => c | _ => cD end.
Example nv_parse_strip_errors :
  init_context text_bad (OptionsMain.opts false 100) = Ok c0_bad /\
  parse_document text_bad context (token text_bad) false c0_bad = Err (UnknownEntityReference (b "nope") (1, 34)).
Proof. split; vm_compute; reflexivity. Qed.
Example nv_parse_strip_errors_applied :
  parse_document text_bad context (ev_np text_bad) false (strip_ctx c0_bad) = Err (UnknownEntityReference (b "nope") (1, 34)).
Proof. exact (parse_strip_errors _ _ _ _ _ (ev_np_ok text_bad) (proj2 nv_parse_strip_errors)). Qed.

(* parse_document_strip from the middle of the document would need a stream; the statement starts at
   the beginning of the text, any context: here the initial one *)
Example nv_parse_document_strip_applied :
  exists c0, init_context text0 opt0 = Ok c0 /\
  parse_document text0 context (ev_np text0) true (strip_ctx c0) =
  strip_res (parse_document text0 context (token text0) true c0).
Proof. eexists. split; [vm_compute; reflexivity|]. exact (parse_document_strip _ _ _ _ (ev_np_ok text0)). Qed.
