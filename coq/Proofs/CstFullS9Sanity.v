(* Proofs/CstFullS9Sanity.v -- the capstone fragment, stage S9 (Spec/CstFullS9.v): the model on sample documents, by
   computation.  Entity names with colons (leading, trailing, repeated): declared, referenced in character data, in an
   attribute value, in a namespace URI, nested (a reference inside the literal of another entity), a MARKUP entity
   named with colons, and names that differ only by the colon ("ab", "a:b", ":ab") are different entities. *)
From Coq Require Import Ascii String.
From Coq Require Import List NArith Bool.
Import ListNotations.
From RX.Model Require Import Base Stream Tokenizer Doc Builder Parse.
From RX.Spec Require CstNs CstU.
From RX.Spec Require Import CstFull CstFullS6 CstFullS7 CstFullS8 CstFullS9.
From RX.Proofs Require Import CstNsView CstFullS6Sanity CstFullS7Sanity CstFullS8Sanity.
Open Scope N_scope.

Definition check9 (c : S9.doc) : bool * bool * bool :=
  (S9.wf_doc c, valid_utf8_b (S9.render c),
   match parse (S9.render c) opt_dtd with
   | Ok d => match view (S9.render c) d with
             | Some v => if list_eq_dec vnode_eq_dec v (S9.sem c) then true else false
             | None => false end
   | _ => false
   end).

Definition subset9 : subset6 :=
  {| zu_decls :=
       [ XEntity (xd (b "a:b") (X4.XText [lit (b "x")]));                                               (* <!ENTITY a:b "x"> *)
         XEntity (xd (b "ab") (X4.XText [lit (b "plain")]));
         XEntity (xd (b ":ab") (X4.XText [lit (b "lead")]));
         XEntity (xd (b "u:") (X4.XText [lit (b "urn:"); rf (b "a:b")]));                              (* nested: &u:; = "urn:&a:b;" *)
         XEntity (xd ([na] ++ b "::" ++ [na]) (X4.XText [rf (b "u:"); lit (b "%")]));                   (* U+540D::U+540D, nested twice, with '%' *)
         XEntity (xd (b "m:k:") (X4.XContent [ em [] (b "y") [at1 [] (b "k") [rf (b "a:b"); rf (b "ab")]]; tx [rf (b ":ab")] ]));   (* markup *)
         XEntity (xd (b "a:b") (X4.XText [lit (b "ignored")])) ];
     zu_ws3 := []; zu_ws4 := [] |}.
Definition ex9 : S9.doc :=
  {| S6.x_bom := false; S6.x_decl := None;
     S6.x_dtd := Some {| S6.g_ws0 := []; S6.g_before := [];
                         S6.g_dtd := {| z_ws1 := [32]; z_name := b "p:r"; z_ws2 := []; z_ext := None; z_subset := Some subset9 |} |};
     S6.x_main := {| d_before := []; d_ws0 := [];
                     d_root := el p_ (b "r") [@EDecl epieces (layb [32] [] [] 34) p_ [rf (b "u:")];
                                              at2 [] (b "a") [rf (b "a:b"); lit (b "-"); rf ([na] ++ b "::" ++ [na])]]
                                  [tx [rf (b "a:b"); lit (b " "); rf (b "ab"); lit (b " "); rf (b ":ab"); rf (b "m:k:"); rf ([na] ++ b "::" ++ [na])]];
                     d_after := []; d_ws_end := [] |} |}.
Eval vm_compute in (check9 ex9, S8.wf_doc ex9).
Eval vm_compute in (S9.sem ex9).
(* S8 / S7 / S6 documents are S9 documents *)
Eval vm_compute in (check9 ex8, check9 ex7, check9 ex1, check9 ex2).

(* still excluded, and rejected by the crate: a reference to an undeclared name, a name that starts with a digit *)
Definition mk9 (ds : list sdecl6) (ps : list E.epiece) : S9.doc :=
  {| S6.x_bom := false; S6.x_decl := None;
     S6.x_dtd := Some {| S6.g_ws0 := []; S6.g_before := [];
                         S6.g_dtd := {| z_ws1 := [32]; z_name := b "r"; z_ws2 := []; z_ext := None;
                                        z_subset := Some {| zu_decls := ds; zu_ws3 := []; zu_ws4 := [] |} |} |};
     S6.x_main := {| d_before := []; d_ws0 := []; d_root := el [] (b "r") [] [tx ps]; d_after := []; d_ws_end := [] |} |}.
Definition rejected9 (c : S9.doc) : bool * bool :=
  (S9.wf_doc c, match parse (S9.render c) opt_dtd with Err _ => true | _ => false end).
Eval vm_compute in (map rejected9 [ mk9 [XEntity (xd (b "a:b") (X4.XText [lit (b "x")]))] [rf (b "a:c")];
                                    mk9 [XEntity (xd (b "1:b") (X4.XText [lit (b "x")]))] [lit (b "t")] ]).
