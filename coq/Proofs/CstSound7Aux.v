(* Proofs/CstSound7Aux.v -- C08 soundness with witness in S7: from the facts the inverted lexer gives (Names with ':',
   comment / PI bodies as Proofs/CstSoundULex.v states them) to the conditions of Spec/CstFullS7.v. *)
From Coq Require Import List NArith Bool Lia.
Import ListNotations.
From RX Require Import Generated.
From RX.Model Require Import Base CharClass.
From RX.Spec Require Cst Chars CstU CstNs CstEnt.
From RX.Spec Require Import CstFull CstFullS5 CstFullS6 CstFullS7.
From RX.Proofs Require Import CstLex CstULex.
From RX.Proofs Require CharTablesProofs CstFullS7Main.
Open Scope N_scope.

Lemma ws_s7 w : Cst.wf_ws w = true -> wf_s w = true.
Proof.
  unfold Cst.wf_ws, wf_s. intros H. apply forallb_forall. intros x Hx. rewrite forallb_forall in H. specialize (H x Hx).
  unfold Cst.is_ws in H. unfold Chars.xml_S. lia.
Qed.

Lemma wf_pi_s_intro7 t sep v : CstU.wf_item (Cst.IPI t sep v) = true -> wf_pi_s t sep v = true.
Proof.
  cbn [CstU.wf_item]. intros H.
  apply andb_true_iff in H. destruct H as [H H6]. apply andb_true_iff in H. destruct H as [H H5].
  apply andb_true_iff in H. destruct H as [H H4]. apply andb_true_iff in H. destruct H as [H H3].
  apply andb_true_iff in H. destruct H as [H1 H2].
  unfold wf_pi_s. rewrite H1, (ws_s7 _ H2), H3, H4, H5. cbn [andb].
  destruct v as [|x v']; [reflexivity|]. apply andb_true_iff in H6. destruct H6 as [X1 X2]. rewrite X2, andb_true_r.
  cbn [forallb] in H3. apply andb_true_iff in H3. destruct H3 as [Xc _].
  unfold CstU.is_char in Xc. unfold Cst.is_ws in X1. unfold Chars.xml_S. lia.
Qed.

(* a PI whose target is a Name: the conditions on the separator and the value are those of S6, read off a PI with the
   dummy target "a" *)
Lemma wf_pi7_intro target sep v : wf_name7 target = true -> Cst.prefix_is_xml target = false ->
  CstU.wf_item (Cst.IPI [97] sep v) = true -> wf_pi7 target sep v = true.
Proof.
  intros Hn Hx H. pose proof (CstFullS7Main.misc_7 (@IPI epieces [97] sep v) (wf_pi_s_intro7 _ _ _ H)) as H7.
  cbn [wf_misc7] in H7. unfold wf_pi7 in *. rewrite Hn, Hx.
  rewrite !andb_true_iff in H7. destruct H7 as [[[[[_ A] B0] C0] _] D]. rewrite A, B0, C0, D. reflexivity.
Qed.

Lemma comment7_intro bs : CstU.wf_item (Cst.IComment bs) = true -> wf_comment7 bs = true.
Proof. intros H. exact (CstFullS7Main.misc_7 (@IComment epieces bs) H). Qed.

Lemma pi7_of_s t sep v : CstU.wf_item (Cst.IPI t sep v) = true -> wf_pi7 t sep v = true.
Proof. intros H. exact (CstFullS7Main.misc_7 (@IPI epieces t sep v) (wf_pi_s_intro7 _ _ _ H)). Qed.

(* the first character of a Name *)
Lemma name7_parts n : wf_name7 n = true -> exists c x, n = c :: x /\ Chars.xml_NameStartChar c = true /\ forallb Chars.xml_NameChar x = true.
Proof.
  destruct n as [|c x]; [discriminate|]. cbn [wf_name7]. intros H. apply andb_true_iff in H. exists c, x. tauto.
Qed.

Lemma name7_of_u n : CstU.wf_name n = true -> wf_name7 n = true.
Proof.
  intros H. destruct n as [|c x]; [discriminate|]. cbn [CstU.wf_name wf_name7] in *. apply andb_true_iff in H. destruct H as [H1 H2].
  unfold CstU.is_name_start in H1. apply andb_true_iff in H1. destruct H1 as [H1 _]. rewrite H1. cbn [andb].
  apply forallb_forall. intros y Hy. rewrite forallb_forall in H2. specialize (H2 y Hy). unfold CstU.is_name_char in H2.
  apply andb_true_iff in H2. apply H2.
Qed.
