(* Proofs/ErrShiftDtdLocal.v -- C14 (whitespace inserted after the DOCTYPE), part 1: locality of
   the prolog up to and including the DOCTYPE declaration.  Continues ErrShiftMidLocal.v:
   T1 = pre ++ X1, T2 = pre ++ X2, X2 begins with a whitespace byte; a successful run on T1 of the
   first parse_misc (to its end), of parse_doctype and of the rounds of the second parse_misc that
   ends at or before blen pre is repeated verbatim on T2. *)
From Coq Require Import Ascii String.
From Coq Require Import List Arith NArith Bool Lia ZifyBool ZifyN ZifyNat.
Import ListNotations.
From RX Require Import Generated.
From RX.Model Require Import Base CharClass Stream Tokenizer.
From RX.Proofs Require Import Tactics NoPanicUtf8 PositionProofs ErrShiftMidCont ErrShiftMidLocal.
Open Scope N_scope.

(* the tokens of the prolog: comments, processing instructions, entity declarations *)
Definition tok_in2 (a e : N) (tok : Tokenizer.token) : Prop :=
  tok_in a e tok \/ (a <= e /\ exists n v, tok = TEntityDecl n v).

Lemma scan_prefix_min f : forall lit l room, prefix_b lit l = true -> forallb f lit = true ->
  (length lit <= room)%nat -> (length lit <= scan f l room)%nat.
Proof.
  induction lit as [|a lit IH]; intros l room Hp Hf Hr; [cbn; lia|].
  destruct l as [|y l]; [discriminate|]. cbn [prefix_b] in Hp. apply andb_true_iff in Hp. destruct Hp as [Hay Hp].
  assert (a = y) by lia. subst y. cbn [forallb] in Hf. apply andb_true_iff in Hf. destruct Hf as [Ha Hf].
  cbn [length] in *. destruct room as [|room]; [lia|]. cbn [scan]. rewrite Ha.
  specialize (IH l room Hp Hf ltac:(lia)). lia.
Qed.

Lemma prefix_b_len : forall lit l, prefix_b lit l = true -> (length lit <= length l)%nat.
Proof.
  induction lit as [|a lit IH]; intros l H; [cbn; lia|]. destruct l as [|y l]; [discriminate|].
  cbn [prefix_b] in H. apply andb_true_iff in H. destruct H as [_ H]. apply IH in H. cbn [length]. lia.
Qed.

Section DtdLocal.
Variable pre X1 X2 : bytes.
Hypothesis HX1 : head_ok X1.
Hypothesis HX2 : exists w r, X2 = w :: r /\ byte_is_space w = true.
Hypothesis HL : blen X1 <= blen X2.
Notation T1 := (pre ++ X1).
Notation T2 := (pre ++ X2).
Notation P := (blen pre).

Ltac inst_term L :=
  let H := fresh in
  first [pose proof (L pre X1 X2) as H | pose proof L as H];
  repeat match type of H with ?A -> _ => let a := fresh in assert (a : A) by assumption; specialize (H a); clear a end;
  exact H.

Let tlen1' := ltac:(inst_term tlen1).
Let tlen2' := ltac:(inst_term tlen2).
Let X2_len' := X2_len X1 X2 HX2 HL.
Let rest1' := ltac:(inst_term rest1).
Let rest2' := ltac:(inst_term rest2).
Let D_len' := ltac:(inst_term D_len).
Let at_end2' := ltac:(inst_term at_end2).
Let sw_true' := ltac:(inst_term sw_true).
Let sw_false' := ltac:(inst_term sw_false).
Let curr_unchecked_same' := ltac:(inst_term curr_unchecked_same).
Let curr_byte_same' := ltac:(inst_term curr_byte_same).
Let curr_byte_opt_same' := ltac:(inst_term curr_byte_opt_same).
Let starts_with_space_same' := ltac:(inst_term starts_with_space_same).
Let advance1_ok' := advance1_ok pre X1.
Let advance2_ok' := ltac:(inst_term advance2_ok).
Let skip_bytes1' := ltac:(inst_term skip_bytes1).
Let mk_slice_12' := ltac:(inst_term mk_slice_12).
Let mk_slice_val' := mk_slice_val X1 X2 HL.
Let slice_bytes_12' := ltac:(inst_term slice_bytes_12).
Let consume_byte_loc' := ltac:(inst_term consume_byte_loc).
Let skip_string_loc' := ltac:(inst_term skip_string_loc).
Let consume_spaces_loc' := ltac:(inst_term consume_spaces_loc).
Let next_char_loc' := ltac:(inst_term next_char_loc).
Let next_char_none' := ltac:(inst_term next_char_none).
Let fuel_le' := ltac:(inst_term fuel_le).
Let skip_name_loop_loc' := ltac:(inst_term skip_name_loop_loc).
Let consume_name_loc' := ltac:(inst_term consume_name_loc).
Let consume_quote_loc' := ltac:(inst_term consume_quote_loc).
Let parse_comment_loc' := ltac:(inst_term parse_comment_loc).
Let parse_pi_loc' := ltac:(inst_term parse_pi_loc).

Ltac nok :=
  exfalso;
  match goal with
  | H : err_at _ _ _ = Ok _ |- _ => exact (err_at_nok _ _ _ _ H)
  | H : err_from _ _ _ = Ok _ |- _ => exact (err_from_nok _ _ _ _ H)
  | H : Err _ = Ok _ |- _ => discriminate H
  | H : Panic _ = Ok _ |- _ => discriminate H
  | H : OutOfFuel = Ok _ |- _ => discriminate H
  end.
Ltac ib H x Hx := apply bind_ok in H; destruct H as (x & Hx & H).

(* ---- more primitives ---- *)
Lemma try_consume_byte_loc c p ok s' : try_consume_byte c (cs T1 p) = (ok, s') ->
  exists p', s' = cs T1 p' /\ p <= p' /\ (p' <= tlen T1 \/ p' = p) /\
    (p < P -> p' <= P -> try_consume_byte c (cs T2 p) = (ok, cs T2 p')).
Proof.
  unfold try_consume_byte. intros H.
  destruct (curr_byte_opt (cs T1 p)) as [x|] eqn:Ex.
  - destruct (x =? c) eqn:Exc.
    + rewrite cs_advance in H. destruct (tlen T1 <? p + 1) eqn:El.
      * injection H as <- <-. exists p. split; [reflexivity|]. split; [lia|]. split; [right; reflexivity|].
        intros Hp _. rewrite curr_byte_opt_same' by exact Hp. rewrite Ex, Exc.
        unfold curr_byte_opt in Ex. rewrite cs_at_end in Ex. destruct (tlen T1 <=? p) eqn:Ea; [discriminate|].
        rewrite tlen1' in *. lia.
      * injection H as <- <-. exists (p + 1). split; [reflexivity|]. split; [lia|]. split; [left; lia|].
        intros Hp Hle. rewrite curr_byte_opt_same' by exact Hp. rewrite Ex, Exc. rewrite advance2_ok' by lia. reflexivity.
    + injection H as <- <-. exists p. split; [reflexivity|]. split; [lia|]. split; [right; reflexivity|].
      intros Hp _. rewrite curr_byte_opt_same' by exact Hp. rewrite Ex, Exc. reflexivity.
  - injection H as <- <-. exists p. split; [reflexivity|]. split; [lia|]. split; [right; reflexivity|].
    intros Hp _. rewrite curr_byte_opt_same' by exact Hp. rewrite Ex. reflexivity.
Qed.

Lemma consume_bytes_loc f p sl s' : p <= tlen T1 -> consume_bytes T1 f (cs T1 p) = Ok (sl, s') ->
  exists p', s' = cs T1 p' /\ p <= p' /\ p' <= tlen T1 /\ sl = {| sl_start := p; sl_end := p' |} /\
    (p' < P -> consume_bytes T2 f (cs T2 p) = Ok (sl, cs T2 p')).
Proof.
  intros Hp H. unfold consume_bytes in *. cbv zeta in *.
  destruct (skip_bytes1' f p Hp) as (p' & E1 & L1 & L2 & E2). rewrite E1 in H.
  ib H x Hx. injection H as <- <-. unfold slice_back in *. cbn [cs s_pos] in Hx.
  destruct (mk_slice_val' _ _ _ _ Hx) as [Esl _].
  exists p'. split; [reflexivity|]. split; [exact L1|]. split; [exact L2|]. split; [exact Esl|]. intros Hlt.
  rewrite E2 by exact Hlt. cbn [cs s_pos]. rewrite (mk_slice_12' _ _ _ Hx) by lia. reflexivity.
Qed.

Lemma is_xml_str_ascii_12 : forall l i u, is_xml_str_ascii T1 l i = Ok u -> is_xml_str_ascii T2 l i = Ok u.
Proof.
  induction l as [|x l IH]; intros i u H; cbn [is_xml_str_ascii] in *; [exact H|].
  destruct (negb (byte_is_char x)); [nok|]. apply IH. exact H.
Qed.
Lemma is_xml_str_unicode_12 : forall fu l i u, is_xml_str_unicode T1 fu l i = Ok u -> is_xml_str_unicode T2 fu l i = Ok u.
Proof.
  induction fu as [|fu IH]; intros l i u H; cbn [is_xml_str_unicode] in *; [discriminate|].
  destruct l as [|y l]; [exact H|]. destruct (decode1 (y :: l)) as [[c n]|]; [|discriminate].
  destruct (negb (char_is_char c)); [nok|]. apply IH. exact H.
Qed.
Lemma is_xml_str_12 sl st u : sl_start sl <= sl_end sl -> sl_end sl <= P ->
  is_xml_str T1 sl st = Ok u -> is_xml_str T2 sl st = Ok u.
Proof.
  intros H1 H2 H. unfold is_xml_str in *. cbv zeta in *. rewrite slice_bytes_12' by assumption.
  destruct (forallb _ _); [apply is_xml_str_ascii_12|apply is_xml_str_unicode_12]; exact H.
Qed.

Lemma skip_name_loc p s' : p <= tlen T1 -> skip_name T1 (cs T1 p) = Ok s' ->
  exists p', s' = cs T1 p' /\ p <= p' /\ p' <= tlen T1 /\
    (p < P -> p' <= P -> skip_name T2 (cs T2 p) = Ok (cs T2 p')).
Proof.
  intros Hp H. unfold skip_name in *. cbv zeta in *. ib H oc Hoc. destruct oc as [[c n]|].
  - destruct (char_is_name_start c) eqn:Ec; [|nok].
    destruct (next_char_loc' p c n Hoc) as (L1 & L2 & L3).
    ib H s2 Hs2. apply advance1_ok' in Hs2. subst s2.
    destruct (skip_name_loop_loc' _ (S (length (s_rest (cs T2 (p + n))))) (p + n) s' (fuel_le' _ L1) L1 H)
      as (p' & -> & M1 & M2 & M3).
    exists p'. split; [reflexivity|]. split; [lia|]. split; [exact M2|]. intros Hlt Hle.
    destruct (L3 Hlt) as [L4 L5]. rewrite L5. cbn [bind]. rewrite Ec. rewrite advance2_ok' by lia. cbn [bind].
    apply M3. exact Hle.
  - injection H as <-. exists p. split; [reflexivity|]. split; [lia|]. split; [exact Hp|]. intros Hlt _.
    apply next_char_none' in Hoc. rewrite tlen1' in Hoc. lia.
Qed.

Lemma parse_external_literal_loc p s' : parse_external_literal T1 (cs T1 p) = Ok s' ->
  exists p', s' = cs T1 p' /\ p < p' /\ p' <= tlen T1 /\
    (p' <= P -> parse_external_literal T2 (cs T2 p) = Ok (cs T2 p')).
Proof.
  intros H. unfold parse_external_literal in *.
  ib H x Hx. destruct x as [quote s3]. destruct (consume_quote_loc' p quote s3 Hx) as (-> & B1 & B2).
  cbv zeta in H. cbn [cs s_pos] in H.
  ib H y Hy. destruct y as [v1 s4]. destruct (consume_bytes_loc _ (p + 1) v1 s4 B1 Hy) as (p4 & -> & C1 & C2 & Ev & C3).
  ib H u Hu. destruct (consume_byte_loc' quote p4 s' H) as (-> & D1 & D2).
  exists (p4 + 1). split; [reflexivity|]. split; [lia|]. split; [exact D1|]. intros Hle.
  rewrite B2 by lia. cbn [bind]. cbv zeta. cbn [cs s_pos]. rewrite C3 by lia. cbn [bind].
  rewrite (is_xml_str_12 v1 (p + 1) u) by (try exact Hu; subst v1; cbn [sl_start sl_end]; lia).
  cbn [bind]. apply D2. exact Hle.
Qed.

Lemma parse_pubid_literal_loc p s' : parse_pubid_literal T1 (cs T1 p) = Ok s' ->
  exists p', s' = cs T1 p' /\ p < p' /\ p' <= tlen T1 /\
    (p' <= P -> parse_pubid_literal T2 (cs T2 p) = Ok (cs T2 p')).
Proof.
  intros H. unfold parse_pubid_literal in *.
  ib H x Hx. destruct x as [quote s3]. destruct (consume_quote_loc' p quote s3 Hx) as (-> & B1 & B2).
  cbv zeta in H.
  destruct (skip_bytes1' (fun y => negb (y =? quote) && pubid_char y) (p + 1) B1) as (p2 & E1 & L1 & L2 & E2).
  rewrite E1 in H. ib H c Hc. destruct (negb (c =? quote)) eqn:Ec; [nok|].
  apply advance1_ok' in H. subst s'.
  assert (A3 : p2 + 1 <= tlen T1).
  { unfold curr_byte in Hc. rewrite cs_at_end in Hc. destruct (tlen T1 <=? p2) eqn:Ea; [discriminate|]. lia. }
  exists (p2 + 1). split; [reflexivity|]. split; [lia|]. split; [exact A3|]. intros Hle.
  rewrite B2 by lia. cbn [bind]. cbv zeta. rewrite E2 by lia. rewrite curr_byte_same' by lia. rewrite Hc. cbn [bind].
  rewrite Ec. apply advance2_ok'. exact Hle.
Qed.

Lemma parse_external_id_loc p found s' : p <= tlen T1 -> parse_external_id T1 (cs T1 p) = Ok (found, s') ->
  exists p', s' = cs T1 p' /\ p <= p' /\ p' <= tlen T1 /\
    (p' <= P -> parse_external_id T2 (cs T2 p) = Ok (found, cs T2 p')).
Proof.
  intros Hp H. unfold parse_external_id in *. cbv zeta in *. cbn [cs s_pos] in H.
  destruct (starts_with (cs T1 p) (b "SYSTEM") || starts_with (cs T1 p) (b "PUBLIC")) eqn:Et.
  2:{ injection H as <- <-. exists p. split; [reflexivity|]. split; [lia|]. split; [exact Hp|]. intros Hle.
      apply orb_false_iff in Et. destruct Et as [E1 E2].
      rewrite (sw_false' p _ E1), (sw_false' p _ E2) by (reflexivity || lia). reflexivity. }
  ib H s1 Hs1. pose proof Hs1 as Hadv. apply advance1_ok' in Hs1. subst s1.
  rewrite cs_advance in Hadv. destruct (tlen T1 <? p + 6) eqn:E6; [discriminate|]. clear Hadv.
  ib H idn Hid. unfold slice_back in Hid. cbn [cs s_pos] in Hid. destruct (mk_slice_val' _ _ _ _ Hid) as [Eid _].
  ib H s2 Hs2. destruct (consume_spaces_loc' (p + 6) s2 ltac:(lia) Hs2) as (p2 & -> & A1 & A2 & A3).
  assert (Htest : p + 6 <= P -> starts_with (cs T2 p) (b "SYSTEM") || starts_with (cs T2 p) (b "PUBLIC") = true).
  { intros Hle. destruct (starts_with (cs T1 p) (b "SYSTEM")) eqn:E1.
    - rewrite (sw_true' p _ E1) by (change (blen (b "SYSTEM")) with 6; lia). reflexivity.
    - cbn [orb] in Et. rewrite (sw_false' p _ E1) by (reflexivity || lia).
      rewrite (sw_true' p _ Et) by (change (blen (b "PUBLIC")) with 6; lia). reflexivity. }
  destruct (bytes_eqb (slice_bytes T1 idn) (b "SYSTEM")) eqn:Esys.
  - ib H s5 Hs5. destruct (parse_external_literal_loc p2 s5 Hs5) as (p5 & -> & D0 & D1 & D2).
    injection H as <- <-. exists p5. split; [reflexivity|]. split; [lia|]. split; [exact D1|]. intros Hle.
    cbn [cs s_pos]. rewrite Htest by lia. rewrite advance2_ok' by lia. cbn [bind]. unfold slice_back. cbn [cs s_pos].
    rewrite (mk_slice_12' _ _ _ Hid) by lia. cbn [bind]. rewrite A3 by lia. cbn [bind].
    rewrite slice_bytes_12' by (subst idn; cbn [sl_start sl_end]; lia). rewrite Esys.
    rewrite D2 by lia. reflexivity.
  - ib H s5 Hs5. destruct (parse_pubid_literal_loc p2 s5 Hs5) as (p5 & -> & D0 & D1 & D2).
    ib H s6 Hs6. destruct (consume_spaces_loc' p5 s6 D1 Hs6) as (p6 & -> & F1 & F2 & F3).
    ib H s9 Hs9. destruct (parse_external_literal_loc p6 s9 Hs9) as (p9 & -> & J0 & J1 & J2).
    injection H as <- <-. exists p9. split; [reflexivity|]. split; [lia|]. split; [exact J1|]. intros Hle.
    cbn [cs s_pos]. rewrite Htest by lia. rewrite advance2_ok' by lia. cbn [bind]. unfold slice_back. cbn [cs s_pos].
    rewrite (mk_slice_12' _ _ _ Hid) by lia. cbn [bind]. rewrite A3 by lia. cbn [bind].
    rewrite slice_bytes_12' by (subst idn; cbn [sl_start sl_end]; lia). rewrite Esys.
    rewrite D2 by lia. cbn [bind]. rewrite F3 by lia. cbn [bind]. rewrite J2 by lia. reflexivity.
Qed.

(* ---- the declarations of the internal subset ---- *)
Lemma parse_entity_def_loc p is_ge def s' : p <= tlen T1 -> parse_entity_def T1 (cs T1 p) is_ge = Ok (def, s') ->
  exists p', s' = cs T1 p' /\ p <= p' /\ p' <= tlen T1 /\
    (p' < P -> parse_entity_def T2 (cs T2 p) is_ge = Ok (def, cs T2 p')).
Proof.
  intros Hp H. unfold parse_entity_def in *. ib H x Hx.
  destruct ((x =? 34) || (x =? 39)) eqn:Eq.
  - ib H y Hy. destruct y as [quote s1]. destruct (consume_quote_loc' p quote s1 Hy) as (-> & A1 & A2).
    cbv zeta in H. cbn [cs s_pos] in H.
    destruct (skip_bytes1' (fun y => negb (y =? quote)) (p + 1) A1) as (p2 & E1 & B1 & B2 & E2). rewrite E1 in H.
    ib H vsl Hv. unfold slice_back in Hv. cbn [cs s_pos] in Hv. destruct (mk_slice_val' _ _ _ _ Hv) as [Ev Hle2].
    ib H u Hu. ib H s3 Hs3. destruct (consume_byte_loc' quote p2 s3 Hs3) as (-> & C1 & C2).
    injection H as <- <-. exists (p2 + 1). split; [reflexivity|]. split; [lia|]. split; [exact C1|]. intros Hlt.
    rewrite curr_byte_same' by lia. rewrite Hx. cbn [bind]. rewrite Eq. rewrite A2 by lia. cbn [bind].
    cbv zeta. cbn [cs s_pos]. rewrite E2 by lia. unfold slice_back. cbn [cs s_pos].
    rewrite (mk_slice_12' _ _ _ Hv) by lia. cbn [bind].
    rewrite (is_xml_str_12 vsl (p + 1) u) by (try exact Hu; subst vsl; cbn [sl_start sl_end]; lia).
    cbn [bind]. rewrite C2 by lia. reflexivity.
  - destruct ((x =? 83) || (x =? 80)) eqn:Es; [|nok].
    ib H y Hy. destruct y as [found s1]. destruct found; [|nok].
    destruct (parse_external_id_loc p true s1 Hp Hy) as (p1 & -> & A1 & A2 & A3).
    assert (Hhead : forall p'', p <= p'' -> p'' < P -> curr_byte (cs T2 p) = Ok x) by
      (intros p'' H1 H2; rewrite curr_byte_same' by lia; exact Hx).
    destruct is_ge.
    + cbv zeta in H. destruct (skip_bytes1' byte_is_space p1 A2) as (p2 & E1 & B1 & B2 & E2).
      unfold skip_spaces in *. rewrite E1 in H.
      destruct (starts_with (cs T1 p2) (b "NDATA")) eqn:En.
      * destruct (negb (starts_with_space (cs T1 p1))) eqn:Ehs; [nok|].
        ib H s3 Hs3. pose proof Hs3 as Hadv. apply advance1_ok' in Hs3. subst s3.
        rewrite cs_advance in Hadv. destruct (tlen T1 <? p2 + 5) eqn:E5; [discriminate|]. clear Hadv.
        ib H s4 Hs4. destruct (consume_spaces_loc' (p2 + 5) s4 ltac:(lia) Hs4) as (p4 & -> & C1 & C2 & C3).
        ib H s5 Hs5. destruct (skip_name_loc p4 s5 C2 Hs5) as (p5 & -> & D1 & D2 & D3).
        injection H as <- <-. exists p5. split; [reflexivity|]. split; [lia|]. split; [exact D2|]. intros Hlt.
        rewrite (Hhead p5) by lia. cbn [bind]. rewrite Eq, Es. rewrite A3 by lia. cbn [bind]. cbv zeta.
        rewrite E2 by lia. rewrite (sw_true' p2 _ En) by (change (blen (b "NDATA")) with 5; lia).
        rewrite starts_with_space_same' by lia. rewrite Ehs.
        rewrite advance2_ok' by lia. cbn [bind]. rewrite C3 by lia. cbn [bind]. rewrite D3 by lia. reflexivity.
      * injection H as <- <-. exists p2. split; [reflexivity|]. split; [lia|]. split; [exact B2|]. intros Hlt.
        rewrite (Hhead p2) by lia. cbn [bind]. rewrite Eq, Es. rewrite A3 by lia. cbn [bind]. cbv zeta.
        rewrite E2 by lia. rewrite (sw_false' p2 _ En) by (reflexivity || lia). reflexivity.
    + injection H as <- <-. exists p1. split; [reflexivity|]. split; [lia|]. split; [exact A2|]. intros Hlt.
      rewrite (Hhead p1) by lia. cbn [bind]. rewrite Eq, Es. rewrite A3 by lia. reflexivity.
Qed.

Lemma parse_entity_decl_loc C1 (ev1 : Tokenizer.token -> C1 -> res C1) p c1 s' c1' : p <= tlen T1 ->
  parse_entity_decl T1 C1 ev1 (cs T1 p) c1 = Ok (s', c1') ->
  exists p' otok, s' = cs T1 p' /\ p + 9 <= p' /\ p' <= tlen T1 /\
    match otok with
    | Some tok => (exists n v, tok = TEntityDecl n v) /\ ev1 tok c1 = Ok c1'
    | None => c1' = c1
    end /\
    (p' <= P -> forall C2 (ev2 : Tokenizer.token -> C2 -> res C2) c2,
       parse_entity_decl T2 C2 ev2 (cs T2 p) c2 =
       (let! c := match otok with Some tok => ev2 tok c2 | None => Ok c2 end in Ok (cs T2 p', c))).
Proof.
  intros Hp H. unfold parse_entity_decl in H.
  ib H s1 Hs1. pose proof Hs1 as Hadv. apply advance1_ok' in Hs1. subst s1.
  rewrite cs_advance in Hadv. destruct (tlen T1 <? p + 8) eqn:E8; [discriminate|]. clear Hadv.
  ib H s2 Hs2. destruct (consume_spaces_loc' (p + 8) s2 ltac:(lia) Hs2) as (p2 & -> & A1 & A2 & A3).
  destruct (try_consume_byte 37 (cs T1 p2)) as [pe s3] eqn:Et.
  destruct (try_consume_byte_loc 37 p2 pe s3 Et) as (p3 & -> & B1 & B2 & B3).
  assert (B2' : p3 <= tlen T1) by (destruct B2; lia).
  ib H s4 Hs4.
  assert (HS : exists p4, s4 = cs T1 p4 /\ p3 <= p4 /\ p4 <= tlen T1 /\
     (p4 < P -> (if pe then consume_spaces T2 (cs T2 p3) else Ok (cs T2 p3)) = Ok (cs T2 p4))).
  { destruct pe.
    - destruct (consume_spaces_loc' p3 s4 B2' Hs4) as (p4 & -> & C1' & C2' & C3').
      exists p4. repeat split; auto.
    - injection Hs4 as <-. exists p3. repeat split; auto. lia. }
  destruct HS as (p4 & -> & C1' & C2' & C3'). cbv zeta in H.
  ib H x Hx. destruct x as [name s5]. destruct (consume_name_loc' p4 name s5 C2' Hx) as (p5 & -> & D1 & D2 & _ & D3).
  ib H s6 Hs6. destruct (consume_spaces_loc' p5 s6 D2 Hs6) as (p6 & -> & F1 & F2 & F3).
  ib H y Hy. destruct y as [def s7]. destruct (parse_entity_def_loc p6 (negb pe) def s7 F2 Hy) as (p7 & -> & G1 & G2 & G3).
  ib H c' Hc'. cbv zeta in H.
  destruct (skip_bytes1' byte_is_space p7 G2) as (p8 & E8' & I1 & I2 & I3). unfold skip_spaces in H. rewrite E8' in H.
  ib H s9 Hs9. destruct (consume_byte_loc' 62 p8 s9 Hs9) as (-> & J1 & J2). injection H as <- <-.
  set (otok := match def with Some d => if negb pe then Some (TEntityDecl name d) else None | None => None end).
  exists (p8 + 1), otok. split; [reflexivity|]. split; [lia|]. split; [exact J1|]. split.
  { unfold otok. destruct def as [d|]; [destruct (negb pe)|]; try (injection Hc' as <-; reflexivity).
    split; [eauto|exact Hc']. }
  intros Hle C2 ev2 c2. unfold parse_entity_decl.
  rewrite advance2_ok' by lia. cbn [bind]. rewrite A3 by lia. cbn [bind]. rewrite B3 by lia.
  rewrite C3' by lia. cbn [bind]. cbv zeta. rewrite D3 by lia. cbn [bind]. rewrite F3 by lia. cbn [bind].
  rewrite G3 by lia. cbn [bind].
  assert (Eev : match def with Some d => if negb pe then ev2 (TEntityDecl name d) c2 else Ok c2 | None => Ok c2 end
              = match otok with Some tok => ev2 tok c2 | None => Ok c2 end).
  { unfold otok. destruct def; [destruct (negb pe)|]; reflexivity. }
  rewrite Eev. destruct (match otok with Some tok => ev2 tok c2 | None => Ok c2 end); cbn [bind]; try reflexivity.
  unfold skip_spaces. rewrite I3 by lia. rewrite J2 by lia. reflexivity.
Qed.

Definition no62 (lit : bytes) : bool := forallb (fun x => negb (x =? 62)) lit.

(* a literal without '>' that stands at p ends before any '>' found from p on *)
Lemma prefix_no62 : forall lit l k r, prefix_b lit l = true -> no62 lit = true -> (k < length lit)%nat ->
  skipn k l <> 62 :: r.
Proof.
  induction lit as [|a lit IH]; intros l k r Hp Hn Hk; [cbn [length] in Hk; lia|].
  destruct l as [|y l]; [discriminate|]. cbn [prefix_b] in Hp. apply andb_true_iff in Hp. destruct Hp as [Hay Hp].
  unfold no62 in *. cbn [forallb] in Hn. apply andb_true_iff in Hn. destruct Hn as [Ha Hn].
  destruct k as [|k]; cbn [skipn].
  - intros E. injection E as E _. lia.
  - apply IH; [exact Hp|exact Hn|cbn [length] in Hk; lia].
Qed.

(* the loop ends right after a '>' *)
Lemma consume_decl_loop_loc : forall fu1 fu2 p s', (fu1 <= fu2)%nat -> p <= tlen T1 ->
  consume_decl_loop T1 fu1 (cs T1 p) = Ok s' ->
  exists p', s' = cs T1 p' /\ p < p' /\ p' <= tlen T1 /\ curr_byte (cs T1 (p' - 1)) = Ok 62 /\
    (p' <= P -> consume_decl_loop T2 fu2 (cs T2 p) = Ok (cs T2 p')).
Proof.
  induction fu1 as [|fu1 IH]; intros fu2 p s' Hfu Hp H; [discriminate|].
  destruct fu2 as [|fu2]; [lia|]. cbn [consume_decl_loop] in *. cbv zeta in *.
  set (f := fun x : N => negb (x =? 62) && negb (x =? 34) && negb (x =? 39)) in *.
  destruct (skip_bytes1' f p Hp) as (p1 & E1 & A1 & A2 & E2). rewrite E1 in H.
  ib H c Hc. ib H sa Ha. apply advance1_ok' in Ha. subst sa.
  assert (A3 : p1 + 1 <= tlen T1).
  { unfold curr_byte in Hc. rewrite cs_at_end in Hc. destruct (tlen T1 <=? p1) eqn:Ea; [discriminate|]. lia. }
  destruct (c =? 62) eqn:Ec.
  - injection H as <-. assert (c = 62) by lia. subst c.
    exists (p1 + 1). split; [reflexivity|]. split; [lia|]. split; [exact A3|]. split.
    { replace (p1 + 1 - 1) with p1 by lia. exact Hc. }
    intros Hle. rewrite E2 by lia. rewrite curr_byte_same' by lia. rewrite Hc. cbn [bind].
    rewrite advance2_ok' by lia. cbn [bind]. reflexivity.
  - destruct (skip_bytes1' (fun y => negb (y =? c)) (p1 + 1) A3) as (p2 & F1 & B1 & B2 & F2). rewrite F1 in H.
    ib H sb Hb. destruct (consume_byte_loc' c p2 sb Hb) as (-> & C1 & C2).
    destruct (IH fu2 (p2 + 1) s' ltac:(lia) C1 H) as (p' & -> & D1 & D2 & D3 & D4).
    exists p'. split; [reflexivity|]. split; [lia|]. split; [exact D2|]. split; [exact D3|].
    intros Hle. rewrite E2 by lia. rewrite curr_byte_same' by lia. rewrite Hc. cbn [bind].
    rewrite advance2_ok' by lia. cbn [bind]. rewrite Ec. rewrite F2 by lia. rewrite C2 by lia. cbn [bind].
    apply D4. exact Hle.
Qed.

Lemma consume_decl_loc p s' : p <= tlen T1 -> consume_decl T1 (cs T1 p) = Ok s' ->
  exists p', s' = cs T1 p' /\ p < p' /\ p' <= tlen T1 /\
    (forall lit, starts_with (cs T1 p) lit = true -> no62 lit = true -> p + blen lit + 1 <= p') /\
    (p' <= P -> consume_decl T2 (cs T2 p) = Ok (cs T2 p')).
Proof.
  intros Hp H. unfold consume_decl in *.
  destruct (consume_decl_loop_loc _ _ p s' (fuel_le' p Hp) Hp H) as (p' & -> & A1 & A2 & A3 & A4).
  exists p'. split; [reflexivity|]. split; [exact A1|]. split; [exact A2|]. split; [|exact A4].
  intros lit Hs Hn. unfold starts_with in Hs. rewrite cs_avail in Hs.
  destruct (N.le_gt_cases (p + blen lit + 1) p') as [Hle|Hgt]; [exact Hle|]. exfalso.
  unfold curr_byte in A3. rewrite cs_at_end in A3. destruct (tlen T1 <=? p' - 1); [discriminate|].
  unfold curr_byte_unchecked in A3. cbn [cs s_rest] in A3.
  destruct (skipn (N.to_nat (p' - 1)) T1) as [|x r] eqn:Er; [discriminate|]. injection A3 as ->.
  replace (N.to_nat (p' - 1)) with (N.to_nat p + (N.to_nat (p' - 1) - N.to_nat p))%nat in Er by lia.
  rewrite <- skipn_skipn_add in Er.
  apply (prefix_no62 lit _ _ r Hs Hn) in Er; [exact Er|]. unfold blen in Hgt. lia.
Qed.

Lemma parse_doctype_start_loc p s' : p <= tlen T1 -> parse_doctype_start T1 (cs T1 p) = Ok s' ->
  exists p', s' = cs T1 p' /\ p + 9 <= p' /\ p' <= tlen T1 /\
    (p' < P -> parse_doctype_start T2 (cs T2 p) = Ok (cs T2 p')).
Proof.
  intros Hp H. unfold parse_doctype_start in *.
  ib H s1 Hs1. pose proof Hs1 as Hadv. apply advance1_ok' in Hs1. subst s1.
  rewrite cs_advance in Hadv. destruct (tlen T1 <? p + 9) eqn:E9; [discriminate|]. clear Hadv.
  ib H s2 Hs2. destruct (consume_spaces_loc' (p + 9) s2 ltac:(lia) Hs2) as (p2 & -> & A1 & A2 & A3).
  ib H s3 Hs3. destruct (skip_name_loc p2 s3 A2 Hs3) as (p3 & -> & B1 & B2 & B3).
  cbv zeta in H. destruct (skip_bytes1' byte_is_space p3 B2) as (p4 & E4 & C1' & C2' & C3').
  unfold skip_spaces in H. rewrite E4 in H.
  ib H y Hy. destruct y as [found s5]. destruct (parse_external_id_loc p4 found s5 C2' Hy) as (p5 & -> & D1 & D2 & D3).
  destruct (skip_bytes1' byte_is_space p5 D2) as (p6 & E6 & F1 & F2 & F3). rewrite E6 in H.
  ib H x Hx. destruct (negb (x =? 91) && negb (x =? 62)) eqn:Ex; [nok|]. injection H as <-.
  exists p6. split; [reflexivity|]. split; [lia|]. split; [exact F2|]. intros Hlt.
  rewrite advance2_ok' by lia. cbn [bind]. rewrite A3 by lia. cbn [bind]. rewrite B3 by lia. cbn [bind]. cbv zeta.
  unfold skip_spaces. rewrite C3' by lia. rewrite D3 by lia. cbn [bind]. rewrite F3 by lia.
  rewrite curr_byte_same' by lia. rewrite Hx. cbn [bind]. rewrite Ex. reflexivity.
Qed.

(* ---- loops with a callback ---- *)
Section Loops.
Variable C1 C2 : Type.
Variable ev1 : Tokenizer.token -> C1 -> res C1.
Variable ev2 : Tokenizer.token -> C2 -> res C2.
Variable R : N -> C1 -> C2 -> Prop.
Hypothesis Rmono : forall q q' c1 c2, q <= q' -> R q c1 c2 -> R q' c1 c2.
Hypothesis Htok : forall a e tok c1 c2 c1' q, q <= a -> tok_in2 a e tok -> R q c1 c2 -> ev1 tok c1 = Ok c1' ->
      exists c2', ev2 tok c2 = Ok c2' /\ R e c1' c2'.

Lemma Htok1 : forall a e tok c1 c2 c1' q, q <= a -> tok_in a e tok -> R q c1 c2 -> ev1 tok c1 = Ok c1' ->
      exists c2', ev2 tok c2 = Ok c2' /\ R e c1' c2'.
Proof. intros. eapply Htok; eauto. left. assumption. Qed.

Lemma misc_loop_loc : forall fu1 fu2 p c1 c2 s' c1', (fu1 <= fu2)%nat -> p <= tlen T1 -> R p c1 c2 ->
  parse_misc_loop T1 C1 ev1 fu1 (cs T1 p) c1 = Ok (s', c1') ->
  exists p', s' = cs T1 p' /\ p <= p' /\ p' <= tlen T1 /\
    (p' < P -> exists c2', parse_misc_loop T2 C2 ev2 fu2 (cs T2 p) c2 = Ok (cs T2 p', c2') /\ R p' c1' c2').
Proof.
  induction fu1 as [|fu1 IH]; intros fu2 p c1 c2 s' c1' Hfu Hp HR H; [discriminate|].
  destruct fu2 as [|fu2]; [lia|]. cbn [parse_misc_loop] in *.
  rewrite cs_at_end in H. destruct (tlen T1 <=? p) eqn:Ea.
  { injection H as <- <-. exists p. split; [reflexivity|]. split; [lia|]. split; [exact Hp|]. intros Hlt.
    rewrite tlen1' in Ea. lia. }
  cbv zeta in H. destruct (skip_bytes1' byte_is_space p Hp) as (p1 & E1 & L1 & L2 & E2).
  unfold skip_spaces in *. rewrite E1 in H.
  destruct (starts_with (cs T1 p1) (b "<!--")) eqn:Ec.
  - ib H x Hx. destruct x as [s1 c1a].
    destruct (parse_comment_loc' C1 ev1 p1 c1 s1 c1a L2 Hx) as (p2 & tok & -> & A1 & A2 & A3 & A4 & A5).
    destruct (Htok1 p1 p2 tok c1 c2 c1a p L1 A3 HR A4) as (c2a & Hev2 & HR2).
    destruct (IH fu2 p2 c1a c2a s' c1' ltac:(lia) A2 HR2 H) as (p' & -> & B1 & B2 & B3).
    exists p'. split; [reflexivity|]. split; [lia|]. split; [exact B2|]. intros Hlt.
    destruct (B3 Hlt) as (c2' & B4 & B5). exists c2'. split; [|exact B5].
    rewrite at_end2' by lia. cbv zeta. rewrite E2 by lia.
    rewrite (sw_true' p1 _ Ec) by (change (blen (b "<!--")) with 4; lia).
    rewrite (A5 ltac:(lia) C2 ev2 c2), Hev2. cbn [bind]. exact B4.
  - destruct (starts_with (cs T1 p1) (b "<?")) eqn:Eq.
    + ib H x Hx. destruct x as [s1 c1a].
      destruct (parse_pi_loc' C1 ev1 p1 c1 s1 c1a L2 Hx) as (p2 & tok & -> & A1 & A2 & A3 & A4 & _ & A5).
      destruct (Htok1 p1 p2 tok c1 c2 c1a p L1 A3 HR A4) as (c2a & Hev2 & HR2).
      destruct (IH fu2 p2 c1a c2a s' c1' ltac:(lia) A2 HR2 H) as (p' & -> & B1 & B2 & B3).
      exists p'. split; [reflexivity|]. split; [lia|]. split; [exact B2|]. intros Hlt.
      destruct (B3 Hlt) as (c2' & B4 & B5). exists c2'. split; [|exact B5].
      rewrite at_end2' by lia. cbv zeta. rewrite E2 by lia.
      rewrite (sw_false' p1 _ Ec) by (reflexivity || lia).
      rewrite (sw_true' p1 _ Eq) by (change (blen (b "<?")) with 2; lia).
      rewrite (A5 ltac:(lia) C2 ev2 c2), Hev2. cbn [bind]. exact B4.
    + injection H as <- <-. exists p1. split; [reflexivity|]. split; [exact L1|]. split; [exact L2|]. intros Hlt.
      exists c2. split; [|eapply Rmono; [exact L1|exact HR]].
      rewrite at_end2' by lia. cbv zeta. rewrite E2 by lia.
      rewrite (sw_false' p1 _ Ec), (sw_false' p1 _ Eq) by (reflexivity || lia). reflexivity.
Qed.

Lemma parse_doctype_loop_loc start : forall fu1 fu2 p c1 c2 s' c1', (fu1 <= fu2)%nat -> p <= tlen T1 -> R p c1 c2 ->
  parse_doctype_loop T1 C1 ev1 fu1 start (cs T1 p) c1 = Ok (s', c1') ->
  exists p', s' = cs T1 p' /\ p <= p' /\ p' <= tlen T1 /\
    (p' <= P -> p' < tlen T1 ->
     exists c2', parse_doctype_loop T2 C2 ev2 fu2 start (cs T2 p) c2 = Ok (cs T2 p', c2') /\ R p' c1' c2').
Proof.
  induction fu1 as [|fu1 IH]; intros fu2 p c1 c2 s' c1' Hfu Hp HR H; [discriminate|].
  destruct fu2 as [|fu2]; [lia|]. cbn [parse_doctype_loop] in *.
  rewrite cs_at_end in H. destruct (tlen T1 <=? p) eqn:Ea.
  { injection H as <- <-. exists p. split; [reflexivity|]. split; [lia|]. split; [exact Hp|]. intros _ Hlt. lia. }
  cbv zeta in H. destruct (skip_bytes1' byte_is_space p Hp) as (p1 & E1 & L1 & L2 & E2).
  unfold skip_spaces in *. rewrite E1 in H.
  destruct (starts_with (cs T1 p1) (b "<!ENTITY")) eqn:Ee.
  { ib H x Hx. destruct x as [s1 c1a].
    destruct (parse_entity_decl_loc C1 ev1 p1 c1 s1 c1a L2 Hx) as (p2 & otok & -> & A1 & A2 & A3 & A5).
    assert (HT : exists c2a, match otok with Some tok => ev2 tok c2 | None => Ok c2 end = Ok c2a /\ R p2 c1a c2a).
    { destruct otok as [tok|].
      - destruct A3 as [Hent Hev]. apply (Htok p1 p2 tok c1 c2 c1a p L1); [right; split; [lia|exact Hent]|exact HR|exact Hev].
      - subst c1a. exists c2. split; [reflexivity|]. eapply Rmono; [|exact HR]. lia. }
    destruct HT as (c2a & Hev2 & HR2).
    destruct (IH fu2 p2 c1a c2a s' c1' ltac:(lia) A2 HR2 H) as (p' & -> & B1 & B2 & B3).
    exists p'. split; [reflexivity|]. split; [lia|]. split; [exact B2|]. intros Hle Hlt.
    destruct (B3 Hle Hlt) as (c2' & B4 & B5). exists c2'. split; [|exact B5].
    rewrite at_end2' by lia. cbv zeta. rewrite E2 by lia.
    rewrite (sw_true' p1 _ Ee) by (change (blen (b "<!ENTITY")) with 8; lia).
    rewrite (A5 ltac:(lia) C2 ev2 c2), Hev2. cbn [bind]. exact B4. }
  destruct (starts_with (cs T1 p1) (b "<!--")) eqn:Ec.
  { ib H x Hx. destruct x as [s1 c1a].
    destruct (parse_comment_loc' C1 ev1 p1 c1 s1 c1a L2 Hx) as (p2 & tok & -> & A1 & A2 & A3 & A4 & A5).
    destruct (Htok1 p1 p2 tok c1 c2 c1a p L1 A3 HR A4) as (c2a & Hev2 & HR2).
    destruct (IH fu2 p2 c1a c2a s' c1' ltac:(lia) A2 HR2 H) as (p' & -> & B1 & B2 & B3).
    exists p'. split; [reflexivity|]. split; [lia|]. split; [exact B2|]. intros Hle Hlt.
    destruct (B3 Hle Hlt) as (c2' & B4 & B5). exists c2'. split; [|exact B5].
    rewrite at_end2' by lia. cbv zeta. rewrite E2 by lia.
    rewrite (sw_false' p1 _ Ee) by (reflexivity || lia).
    rewrite (sw_true' p1 _ Ec) by (change (blen (b "<!--")) with 4; lia).
    rewrite (A5 ltac:(lia) C2 ev2 c2), Hev2. cbn [bind]. exact B4. }
  destruct (starts_with (cs T1 p1) (b "<?")) eqn:Eq.
  { ib H x Hx. destruct x as [s1 c1a].
    destruct (parse_pi_loc' C1 ev1 p1 c1 s1 c1a L2 Hx) as (p2 & tok & -> & A1 & A2 & A3 & A4 & _ & A5).
    destruct (Htok1 p1 p2 tok c1 c2 c1a p L1 A3 HR A4) as (c2a & Hev2 & HR2).
    destruct (IH fu2 p2 c1a c2a s' c1' ltac:(lia) A2 HR2 H) as (p' & -> & B1 & B2 & B3).
    exists p'. split; [reflexivity|]. split; [lia|]. split; [exact B2|]. intros Hle Hlt.
    destruct (B3 Hle Hlt) as (c2' & B4 & B5). exists c2'. split; [|exact B5].
    rewrite at_end2' by lia. cbv zeta. rewrite E2 by lia.
    rewrite (sw_false' p1 _ Ee), (sw_false' p1 _ Ec) by (reflexivity || lia).
    rewrite (sw_true' p1 _ Eq) by (change (blen (b "<?")) with 2; lia).
    rewrite (A5 ltac:(lia) C2 ev2 c2), Hev2. cbn [bind]. exact B4. }
  destruct (starts_with (cs T1 p1) (b "]")) eqn:Eb.
  { ib H s1 Hs1. pose proof Hs1 as Hadv. apply advance1_ok' in Hs1. subst s1.
    rewrite cs_advance in Hadv. destruct (tlen T1 <? p1 + 1) eqn:E1'; [discriminate|]. clear Hadv.
    destruct (skip_bytes1' byte_is_space (p1 + 1) ltac:(lia)) as (p2 & E3 & M1 & M2 & E4). rewrite E3 in H.
    destruct (curr_byte_opt (cs T1 p2)) as [x|] eqn:Ex; [|discriminate].
    destruct (x =? 62) eqn:Ex62; [|nok].
    ib H s3 Hs3. pose proof Hs3 as Hadv. apply advance1_ok' in Hs3. subst s3.
    rewrite cs_advance in Hadv. destruct (tlen T1 <? p2 + 1) eqn:E2'; [discriminate|]. clear Hadv.
    injection H as <- <-. exists (p2 + 1). split; [reflexivity|]. split; [lia|]. split; [lia|]. intros Hle Hlt.
    exists c2. split; [|eapply Rmono; [|exact HR]; lia].
    rewrite at_end2' by lia. cbv zeta. rewrite E2 by lia.
    rewrite (sw_false' p1 _ Ee), (sw_false' p1 _ Ec), (sw_false' p1 _ Eq) by (reflexivity || lia).
    rewrite (sw_true' p1 _ Eb) by (change (blen (b "]")) with 1; lia).
    rewrite advance2_ok' by lia. cbn [bind]. rewrite E4 by lia. rewrite curr_byte_opt_same' by lia. rewrite Ex, Ex62.
    rewrite advance2_ok' by lia. reflexivity. }
  destruct (starts_with (cs T1 p1) (b "<!ELEMENT") || starts_with (cs T1 p1) (b "<!ATTLIST")
            || starts_with (cs T1 p1) (b "<!NOTATION")) eqn:Ed; [|nok].
  destruct (consume_decl T1 (cs T1 p1)) as [s1| | |] eqn:Ecd; try nok.
  destruct (consume_decl_loc p1 s1 L2 Ecd) as (p2 & -> & A1 & A2 & Amin & A3).
  destruct (IH fu2 p2 c1 c2 s' c1' ltac:(lia) A2 (Rmono p p2 c1 c2 ltac:(lia) HR) H) as (p' & -> & B1 & B2 & B3).
  exists p'. split; [reflexivity|]. split; [lia|]. split; [exact B2|]. intros Hle Hlt.
  destruct (B3 Hle Hlt) as (c2' & B4 & B5). exists c2'. split; [|exact B5].
  rewrite at_end2' by lia. cbv zeta. rewrite E2 by lia.
  rewrite (sw_false' p1 _ Ee), (sw_false' p1 _ Ec), (sw_false' p1 _ Eq), (sw_false' p1 _ Eb) by (reflexivity || lia).
  assert (Ed2 : starts_with (cs T2 p1) (b "<!ELEMENT") || starts_with (cs T2 p1) (b "<!ATTLIST")
                || starts_with (cs T2 p1) (b "<!NOTATION") = true).
  { destruct (starts_with (cs T1 p1) (b "<!ELEMENT")) eqn:D1.
    - pose proof (Amin _ D1 eq_refl) as Hm. change (blen (b "<!ELEMENT")) with 9 in Hm.
      rewrite (sw_true' p1 _ D1) by (change (blen (b "<!ELEMENT")) with 9; lia). reflexivity.
    - rewrite (sw_false' p1 _ D1) by (reflexivity || lia). cbn [orb] in *.
      destruct (starts_with (cs T1 p1) (b "<!ATTLIST")) eqn:D2.
      + pose proof (Amin _ D2 eq_refl) as Hm. change (blen (b "<!ATTLIST")) with 9 in Hm.
        rewrite (sw_true' p1 _ D2) by (change (blen (b "<!ATTLIST")) with 9; lia). reflexivity.
      + rewrite (sw_false' p1 _ D2) by (reflexivity || lia). cbn [orb] in *.
        pose proof (Amin _ Ed eq_refl) as Hm. change (blen (b "<!NOTATION")) with 10 in Hm.
        rewrite (sw_true' p1 _ Ed) by (change (blen (b "<!NOTATION")) with 10; lia). reflexivity. }
  rewrite Ed2. rewrite A3 by lia. exact B4.
Qed.

Lemma parse_doctype_loc p c1 c2 s' c1' : p <= tlen T1 -> R p c1 c2 ->
  parse_doctype T1 C1 ev1 (cs T1 p) c1 = Ok (s', c1') ->
  exists p', s' = cs T1 p' /\ p + 10 <= p' /\ p' <= tlen T1 /\
    (p' <= P -> p' < tlen T1 ->
     exists c2', parse_doctype T2 C2 ev2 (cs T2 p) c2 = Ok (cs T2 p', c2') /\ R p' c1' c2').
Proof.
  intros Hp HR H. unfold parse_doctype in *. cbv zeta in *. cbn [cs s_pos] in H.
  ib H s1 Hs1. destruct (parse_doctype_start_loc p s1 Hp Hs1) as (p1 & -> & A1 & A2 & A3).
  destruct (skip_bytes1' byte_is_space p1 A2) as (p2 & E1 & B1 & B2 & E2). unfold skip_spaces in *. rewrite E1 in H.
  destruct (match curr_byte_opt (cs T1 p2) with Some x => x =? 62 | None => false end) eqn:Ex.
  - ib H s3 Hs3. pose proof Hs3 as Hadv. apply advance1_ok' in Hs3. subst s3.
    rewrite cs_advance in Hadv. destruct (tlen T1 <? p2 + 1) eqn:E2'; [discriminate|]. clear Hadv.
    injection H as <- <-. exists (p2 + 1). split; [reflexivity|]. split; [lia|]. split; [lia|]. intros Hle Hlt.
    exists c2. split; [|eapply Rmono; [|exact HR]; lia].
    cbn [cs s_pos]. rewrite A3 by lia. cbn [bind]. rewrite E2 by lia. rewrite curr_byte_opt_same' by lia. rewrite Ex.
    rewrite advance2_ok' by lia. reflexivity.
  - ib H s3 Hs3. pose proof Hs3 as Hadv. apply advance1_ok' in Hs3. subst s3.
    rewrite cs_advance in Hadv. destruct (tlen T1 <? p2 + 1) eqn:E2'; [discriminate|]. clear Hadv.
    destruct (parse_doctype_loop_loc p _ (S (length (s_rest (cs T2 (p2 + 1))))) (p2 + 1) c1 c2 s' c1'
                (fuel_le' (p2 + 1) ltac:(lia)) ltac:(lia) (Rmono p (p2 + 1) c1 c2 ltac:(lia) HR) H) as (p' & -> & C1' & C2' & C3').
    exists p'. split; [reflexivity|]. split; [lia|]. split; [exact C2'|]. intros Hle Hlt.
    destruct (C3' Hle Hlt) as (c2' & D1 & D2). exists c2'. split; [|exact D2].
    cbn [cs s_pos]. rewrite A3 by lia. cbn [bind]. rewrite E2 by lia. rewrite curr_byte_opt_same' by lia. rewrite Ex.
    rewrite advance2_ok' by lia. cbn [bind]. exact D1.
Qed.

End Loops.

End DtdLocal.

(* ------------------------------------------------------------------ *)
(* the whole prolog through the DOCTYPE: first the positions (with the run itself as its partner),
   then the run on T2 *)
Section DtdPrologLoc.
Variable pre X1 X2 : bytes.
Hypothesis HX1 : head_ok X1.
Hypothesis HX2 : exists w r, X2 = w :: r /\ byte_is_space w = true.
Hypothesis HL : blen X1 <= blen X2.
Notation T1 := (pre ++ X1).
Notation T2 := (pre ++ X2).
Notation P := (blen pre).
Variable C1 C2 : Type.
Variable ev1 : Tokenizer.token -> C1 -> res C1.
Variable ev2 : Tokenizer.token -> C2 -> res C2.

Lemma dtd_positions fu p2 c1 s3 c3 s4 c4 n sQ cQ : p2 <= tlen T1 ->
  parse_misc_loop T1 C1 ev1 fu (cs T1 p2) c1 = Ok (s3, c3) ->
  parse_doctype T1 C1 ev1 (skip_spaces s3) c3 = Ok (s4, c4) ->
  misc_steps T1 C1 ev1 n s4 c4 = Some (sQ, cQ) ->
  exists p3 p3' p4 Q, s3 = cs T1 p3 /\ skip_spaces s3 = cs T1 p3' /\ s4 = cs T1 p4 /\ sQ = cs T1 Q /\
    p2 <= p3 /\ p3 <= p3' /\ p3' <= tlen T1 /\ p3' + 10 <= p4 /\ p4 <= Q /\ Q <= tlen T1.
Proof.
  intros Hp Hm Hdt Hst.
  set (R0 := fun (_ : N) (a b' : C1) => a = b').
  assert (Rm : forall q q' (a b' : C1), q <= q' -> R0 q a b' -> R0 q' a b') by (intros; assumption).
  assert (Ht : forall a e tok (x1 x2 x1' : C1) (q0 : N), q0 <= a -> tok_in2 a e tok -> R0 q0 x1 x2 -> ev1 tok x1 = Ok x1' ->
               exists x2', ev1 tok x2 = Ok x2' /\ R0 e x1' x2').
  { intros a e tok x1 x2 x1' q0 _ _ <- Hev. exists x1'. split; [exact Hev|reflexivity]. }
  assert (Ht1 : forall a e tok (x1 x2 x1' : C1) (q0 : N), q0 <= a -> tok_in a e tok -> R0 q0 x1 x2 -> ev1 tok x1 = Ok x1' ->
               exists x2', ev1 tok x2 = Ok x2' /\ R0 e x1' x2').
  { intros a e tok x1 x2 x1' q0 _ _ <- Hev. exists x1'. split; [exact Hev|reflexivity]. }
  destruct (misc_loop_loc pre X1 X2 HX1 HX2 HL C1 C1 ev1 ev1 R0 Rm Ht fu fu p2 c1 c1 s3 c3 (le_n _) Hp eq_refl Hm)
    as (p3 & -> & A1 & A2 & _).
  destruct (skip_bytes1 pre X1 X2 HL byte_is_space p3 A2) as (p3' & E3 & B1 & B2 & _).
  unfold skip_spaces in *. rewrite E3 in Hdt.
  destruct (parse_doctype_loc pre X1 X2 HX1 HX2 HL C1 C1 ev1 ev1 R0 Rm Ht p3' c3 c3 s4 c4 B2 eq_refl Hdt)
    as (p4 & -> & C1' & C2' & _).
  destruct (misc_steps_loc pre X1 X2 HX1 HX2 HL C1 C1 ev1 ev1 R0 Ht1 n p4 c4 c4 sQ cQ C2' eq_refl Hst)
    as (Q & -> & D1 & D2 & _).
  exists p3, p3', p4, Q. repeat split; auto.
Qed.

Variable R : N -> C1 -> C2 -> Prop.
Hypothesis Rmono : forall q q' c1 c2, q <= q' -> R q c1 c2 -> R q' c1 c2.
Hypothesis Htok : forall a e tok c1 c2 c1' q, q <= a -> tok_in2 a e tok -> R q c1 c2 -> ev1 tok c1 = Ok c1' ->
      exists c2', ev2 tok c2 = Ok c2' /\ R e c1' c2'.

Lemma dtd_prolog_loc fu1 fu2 p2 p3 p3' p4 Q c1 c2 c3 c4 n cQ : (fu1 <= fu2)%nat -> p2 <= tlen T1 ->
  parse_misc_loop T1 C1 ev1 fu1 (cs T1 p2) c1 = Ok (cs T1 p3, c3) ->
  skip_spaces (cs T1 p3) = cs T1 p3' ->
  starts_with (cs T1 p3') (b "<!DOCTYPE") = true ->
  parse_doctype T1 C1 ev1 (cs T1 p3') c3 = Ok (cs T1 p4, c4) ->
  misc_steps T1 C1 ev1 n (cs T1 p4) c4 = Some (cs T1 Q, cQ) ->
  p3 <= p3' -> p3' + 10 <= p4 -> p4 <= Q -> Q <= P -> P < tlen T1 ->
  R p2 c1 c2 ->
  exists c32 c42 cQ2,
    parse_misc_loop T2 C2 ev2 fu2 (cs T2 p2) c2 = Ok (cs T2 p3, c32) /\
    skip_spaces (cs T2 p3) = cs T2 p3' /\
    starts_with (cs T2 p3') (b "<!DOCTYPE") = true /\
    parse_doctype T2 C2 ev2 (cs T2 p3') c32 = Ok (cs T2 p4, c42) /\
    misc_steps T2 C2 ev2 n (cs T2 p4) c42 = Some (cs T2 Q, cQ2) /\
    R Q cQ cQ2.
Proof.
  intros Hfu Hp Hm Hsk Hsw Hdt Hst I1 I2 I3 I4 I5 HR.
  assert (Htok1 : forall a e tok c1 c2 c1' q, q <= a -> tok_in a e tok -> R q c1 c2 -> ev1 tok c1 = Ok c1' ->
      exists c2', ev2 tok c2 = Ok c2' /\ R e c1' c2') by (intros; eapply Htok; eauto; left; assumption).
  destruct (misc_loop_loc pre X1 X2 HX1 HX2 HL C1 C2 ev1 ev2 R Rmono Htok fu1 fu2 p2 c1 c2 _ c3 Hfu Hp HR Hm)
    as (p3x & E3 & A1 & A2 & A3).
  assert (p3x = p3) by (apply (f_equal s_pos) in E3; cbn in E3; lia). subst p3x.
  destruct (A3 ltac:(lia)) as (c32 & M1 & M2).
  destruct (skip_bytes1 pre X1 X2 HL byte_is_space p3 A2) as (p3y & E4 & B1 & B2 & B3).
  unfold skip_spaces in *. rewrite Hsk in E4.
  assert (p3y = p3') by (apply (f_equal s_pos) in E4; cbn in E4; lia). subst p3y.
  destruct (parse_doctype_loc pre X1 X2 HX1 HX2 HL C1 C2 ev1 ev2 R Rmono Htok p3' c3 c32 _ c4 B2
              (Rmono _ _ _ _ I1 M2) Hdt) as (p4x & E5 & C1' & C2' & C3').
  assert (p4x = p4) by (apply (f_equal s_pos) in E5; cbn in E5; lia). subst p4x.
  destruct (C3' ltac:(lia) ltac:(lia)) as (c42 & N1 & N2).
  destruct (misc_steps_loc pre X1 X2 HX1 HX2 HL C1 C2 ev1 ev2 R Htok1 n p4 c4 c42 _ cQ C2' N2 Hst)
    as (Qx & E6 & D1 & D2 & _ & D4).
  assert (Qx = Q) by (apply (f_equal s_pos) in E6; cbn in E6; lia). subst Qx.
  destruct (D4 I4) as (cQ2 & O1 & O2).
  exists c32, c42, cQ2. split; [exact M1|]. split; [apply B3; lia|]. split.
  { apply (sw_true pre X1 X2 HL p3' _ Hsw). change (blen (b "<!DOCTYPE")) with 9. lia. }
  split; [exact N1|]. split; [exact O1|exact O2].
Qed.

End DtdPrologLoc.
