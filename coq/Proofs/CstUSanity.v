(* Proofs/CstUSanity.v -- the model on sample documents of Spec/CstU.v, by computation. *)
From Coq Require Import Ascii String.
From Coq Require Import List NArith Bool.
Import ListNotations.
From RX.Model Require Import Base Stream Tokenizer Doc Builder Parse.
From RX.Spec Require Import Cst.
From RX.Spec Require CstU.
From RX.Proofs Require Import CstMain.
Open Scope N_scope.

Definition vnode_eq_dec : forall x y : vnode, {x = y} + {x <> y}.
Proof. repeat decide equality. Defined.
Definition opt := {| allow_dtd := false; nodes_limit := 1000 |}.
Definition check (c : doc) : bool * bool * bool :=
  (CstU.wf_doc c, valid_utf8_b (CstU.render c),
   match parse (CstU.render c) opt with
   | Ok d => if list_eq_dec vnode_eq_dec (view (CstU.render c) d) (CstU.sem c) then true else false
   | _ => false
   end).
Definition rejected (c : doc) : bool * bool :=
  (CstU.wf_doc c, match parse (CstU.render c) opt with Err _ => true | _ => false end).

Definition mk root := {| d_before := []; d_ws0 := []; d_root := root; d_after := []; d_ws_end := [10] |}.
Definition at_ n v := {| a_ws := [32]; a_name := n; a_ws1 := []; a_ws2 := []; a_quote := 34; a_value := v |}.
Definition eacute := 233. Definition na := 21517. Definition mae := 21069. Definition linb := 65536.  (* é 名 前 𐀀 *)

(* names: é, 名前, 𐀀x (astral name start), middle dot inside a name; text with U+FFFD, U+10FFFF, U+0085;
   attribute value and name non-ASCII; comment and PI with non-ASCII content; PI target non-ASCII *)
Definition ex1 := {| d_before := [(IComment [na; 45; mae], [10]); (IPI [eacute; 183] [32] [8364; 63], [])];
  d_ws0 := [32];
  d_root := IElem [eacute] [at_ [na; mae] [228; 32; 1114111]; at_ [linb; 120] []] []
    (Some ([IText [65533; 1114111; 133; 93; 93]; IElem [na; mae; 183; 45] [] [32] None;
            IElem [linb; 120] [] [] (Some ([IText [97; 128512]], [9]))], [32]));
  d_after := [([10], IComment [128512])]; d_ws_end := [] |}.
Eval vm_compute in (check ex1).
Eval vm_compute in (CstU.sem ex1).

(* not well-formed, and rejected by the parser *)
Definition bad1 := mk (IElem [97] [] [] (Some ([IText [65534]], []))).       (* U+FFFE is not a Char *)
Definition bad2 := mk (IElem [183; 97] [] [] None).                            (* a name starting with U+00B7 *)
Definition bad3 := mk (IElem [97] [at_ [98] [65535]] [] None).                 (* U+FFFF in a value *)
Definition bad4 := mk (IElem [97; 215] [] [] None).                            (* U+00D7 is not a NameChar *)
Definition bad5 := mk (IElem [97] [] [] (Some ([IComment [8364; 45; 45]], []))).  (* "--" in a comment *)
Definition bad6 := mk (IElem [97] [] [] (Some ([IText [1]], []))).             (* a control character *)
Eval vm_compute in (map rejected [bad1; bad2; bad3; bad4; bad5; bad6]).
