(* Proofs/CstFullD15Items.v -- the known finding D15 on whole documents: items that the naive inlining accepts and the
   inlining of the spec refuses: the content loop fails with InvalidAttributeValue at the first attribute value, inside the
   value of an entity with markup, in which &lt; is written -- after the items before, and the entries of that start tag
   before, have been read as in Proofs/CstFullS6Items.v. *)
From Coq Require Import Ascii String.
From Coq Require Import List NArith PeanoNat Bool Lia ZifyBool ZifyN ZifyNat.
Import ListNotations.
From RX Require Import Generated.
From RX.Model Require Import Base CharClass Stream Tokenizer Doc Builder Parse.
From RX.Spec Require Cst CstText CstEnt Detector Scope CstU CstNs.
From RX.Spec Require Chars.
From RX.Spec Require Import CstFullS5.
From RX.Spec Require Import Text CstFull CstFullS4.
From RX.Spec Require Import CstFullS6.
From RX.Proofs Require Import Tactics CstLex CstBuild CstULex TextMachine TextMerge HoistProofs NoPanicUtf8 DetectorProofs.
From RX.Proofs Require Import CstTextSem CstTextLex CstTextBuild CstEntSem CstEntMeaning CstEntRun CstEntInline.
From RX.Proofs Require Import CstNsLex CstNsView CstNsBuild CstFullLex CstFullBuild CstFullTree.
From RX.Proofs Require Import CstFullS2Sem CstFullS2Lex CstFullS2Build CstFullS3Sem CstFullS3Text CstFullS3Run CstFullS3Plug.
From RX.Proofs Require Import CstEntCFloor CstEntCBuild CstEntCSem CstEntCLoop.
From RX.Proofs Require Import CstFullS4Sem CstFullS4TSem CstFullS4TText CstFullS4Build CstFullS4Attr CstFullS6Text.
From RX.Proofs Require Import CstFullS5Ws CstFullS5Lex.
From RX.Proofs Require Import CstFullS6Items.
From RX.Proofs Require Import CstFullRejSem CstFullRejAttr CstFullRejText CstFullRejItems.
From RX.Proofs Require Import KnownFindingsD15 CstFullD15Attr CstFullD15Text.
From RX.Proofs Require CstFullS5Items.
From RX.Proofs Require CstEntText CstEntCLex CstEntCText CstFullS6Lex CstNsItems CstNsDoc CstFullItems CstTextItems CstUItems ScopeProofs.
Open Scope N_scope.

Ltac clia := repeat match goal with H : @eq bool _ true |- _ => clear H end; lia.

Notation bd := (map (x_entry bpieces T.value_sem)).
Notation bden := (den bmeaning).
Notation bdens := (CstFullTree.dens bpieces bmeaning).

(* ---- where the inlining of the spec refuses ---- *)
Lemma inline_run_norefs tb m : forall l, existsb (fun x => x =? 38) (E.r_epieces l) = false -> inline_run tb m l <> None.
Proof.
  induction l as [|p l IH]; intros H; [discriminate|]. rewrite r_epieces_cons, existsb_app in H. apply orb_false_iff in H. destruct H as [H1 H2].
  cbn [inline_run]. destruct p as [q|n]; [|cbn in H1; discriminate].
  destruct (inline_run tb m l) as [y|] eqn:E; [discriminate|]. destruct (IH H2 eq_refl).
Qed.

Lemma inline_run_app_none tb m : forall a b0, inline_run tb m (a ++ b0) = None ->
  inline_run tb m a = None \/ (exists x, inline_run tb m a = Some x) /\ inline_run tb m b0 = None.
Proof.
  induction a as [|p a IH]; intros b0 H; [right; split; [eexists; reflexivity|exact H]|].
  cbn [app inline_run] in *. destruct p as [q|n].
  - destruct (inline_run tb m (a ++ b0)) as [y|] eqn:E; [discriminate|]. destruct (IH _ E) as [E1|[[x E1] E2]].
    + left. rewrite E1. reflexivity.
    + right. split; [rewrite E1; eexists; reflexivity|exact E2].
  - destruct (ylookup tb n) as [v|]; [|left; reflexivity]. cbn [E.obind] in *.
    destruct (inline_run tb m (a ++ b0)) as [y|] eqn:E; [discriminate|]. destruct (IH _ E) as [E1|[[x E1] E2]].
    + left. rewrite E1. reflexivity.
    + right. split; [rewrite E1; eexists; reflexivity|exact E2].
Qed.

(* the first entry that the spec refuses (mode true), all being accepted in mode false *)
Lemma entries_split_d tb : forall ens ens' tr, inline_entries tb false ens = Some (ens', tr) -> inline_entries tb true ens = None ->
  exists ens1 e ens2 ens1' tr1 e' tre r' trr,
    ens = ens1 ++ e :: ens2 /\ inline_entries tb true ens1 = Some (ens1', tr1) /\
    inline_entry tb false e = Some (e', tre) /\ inline_entry tb true e = None /\
    ens' = ens1' ++ e' :: r' /\ tr = tr1 ++ tre ++ trr.
Proof.
  induction ens as [|a r IH]; intros ens' tr H Hno; [discriminate|]. cbn [inline_entries] in H, Hno.
  destruct (inline_entry tb false a) as [[a' tra]|] eqn:Ea; [|discriminate]. cbn [E.obind fst snd] in H.
  destruct (inline_entries tb false r) as [[ar trr]|] eqn:Er; [|discriminate]. cbn [E.obind fst snd] in H. injection H as <- <-.
  destruct (inline_entry tb true a) as [[a2 tra2]|] eqn:Ea2.
  - assert (E2 : (a2, tra2) = (a', tra)).
    { pose proof (mono_entry tb tb (fun n v H => H) true false a (a2, tra2) ltac:(discriminate) Ea2) as X. rewrite Ea in X. injection X as <- <-. reflexivity. }
    injection E2 as -> ->. cbn [E.obind fst snd] in Hno.
    destruct (inline_entries tb true r) as [y|] eqn:Er2; [discriminate|].
    destruct (IH _ _ eq_refl eq_refl) as (ens1 & e & ens2 & ens1' & tr1 & e' & tre & r' & trr' & -> & E1 & Ee & Ee2 & -> & ->).
    exists (a :: ens1), e, ens2, (a' :: ens1'), (tra ++ tr1), e', tre, r', trr'.
    split; [reflexivity|]. split; [cbn [inline_entries]; rewrite Ea2; cbn [E.obind fst snd]; rewrite E1; reflexivity|].
    split; [exact Ee|]. split; [exact Ee2|]. split; [reflexivity|]. rewrite <- !app_assoc. reflexivity.
  - exists [], a, r, [], [], a', tra, ar, trr. repeat split; auto.
Qed.

(* ------------------------------------------------------------------------------------------ *)
(* failing                                                                                    *)
(* ------------------------------------------------------------------------------------------ *)
Section D15Items.
Variable text : bytes.
Hypothesis Hvalid : valid_utf8_b text = true.
Variable D : list Scope.binding.
Hypothesis HD : forall l, NoDup l -> incl l D -> N.of_nat (length l) <= 65535.
Variable decls : list xdecl.
Variable es : list entity.
Hypothesis Henv : Forall2 (uent_ok text) (map pd decls) es.
Hypothesis Hdecls : Forall udecl_okc (map pd decls).
Hypothesis Hcont : Forall decl_cont decls.
Variable k : nat.
Hypothesis IHd : forall k', k = S k' -> forall cs, ItemsD text D decls es k' cs.

Notation tb := (level decls k).
Notation ntb := (nlevel decls k).
Notation W := (CstLex.W text).
Notation WV := (CstULex.WV text).
Notation WVs := (SL.WV text).
Notation sst4 := CstEntCLex.st.
Notation evl := (CstEntCBuild.evl text).
Notation CIn := (CstNsBuild.CIn text D).
Notation OR := (CstFullS6Text.OR text D es).
Notation Res := (CstFullS6Text.Res text D es).
Notation Rooms := (CstFullS6Text.Rooms).
Notation NsOk := (CstFullS6Text.NsOk D).
Notation SemI := (CstEntCText.SemI text).
Notation decls3 := (map pd decls).
Notation IHk := (IHok text D HD decls es Henv Hdecls Hcont k).
Notation flush_res := (CstFullS6Items.flush_res text D HD es).
Notation sentries_at := (CstFullS6Items.sentries_at text D HD decls es Henv Hdecls k IHk).
Notation Rooms_app_l := (CstFullS6Text.Rooms_app_l D HD).
Notation Rooms_app_r := (CstFullS6Text.Rooms_app_r text D HD es).
Notation TLe_refl := (fun (n : bytes) (v : yval) (H : ylookup tb n = Some v) => H).

(* ---- the value of an entry, between its quotes ---- *)
Lemma entry_value_at m e q more : WV q (r_entry e ++ more) -> wf_uentry_s m e = true ->
  exists vq quote,
    vsl q (x_entry epieces (r_val epieces) e) = sl vq (vq + blen (E.r_epieces (enc_epieces (e_value epieces e)))) /\
    WV vq (E.r_epieces (enc_epieces (e_value epieces e)) ++ [quote] ++ more) /\
    Forall (uep_ok m) (enc_epieces (e_value epieces e)) /\ E.no_adjacent_elit (enc_epieces (e_value epieces e)) = true.
Proof.
  intros HW H1.
  assert (Hl : wf_layout_s (e_layout epieces e) = true /\
               wf_uepieces (CstNs.l_quote (e_layout epieces e)) false false m (e_value epieces e) = true).
  { unfold wf_uentry_s in H1. rewrite !andb_true_iff in H1. tauto. }
  destruct Hl as [Hl Hvw]. pose proof (CstFullS5Items.layout_quote _ Hl) as Hq.
  set (re := x_entry epieces (r_val epieces) e).
  assert (Ere : CstNs.e_layout re = e_layout epieces e /\ CstNs.e_value re = r_val epieces (e_value epieces e)) by (destruct e; split; reflexivity).
  destruct Ere as [Ere1 Ere2].
  set (ps := e_value epieces e) in *. pose (quote := CstNs.l_quote (e_layout epieces e)).
  change (CstNs.l_quote (e_layout epieces e)) with quote in Hq, Hvw.
  assert (HWv : WV (q + blen (CstNs.l_ws (CstNs.e_layout re)) + blen (CstNs.r_qname (e_qname re)) + blen (CstNs.l_ws1 (CstNs.e_layout re)) + 1
                    + blen (CstNs.l_ws2 (CstNs.e_layout re)) + 1)
                   (E.r_epieces (enc_epieces ps) ++ [quote] ++ more)).
  { destruct (uentry_parts_s _ (uentry_of4 m e H1)) as (_ & Hw & Hw1 & Hw2 & Hqq & _ & Hn). fold re in Hw, Hw1, Hw2, Hqq, Hn.
    rewrite Ere1 in Hw, Hw1, Hw2, Hqq.
    revert HW. change (r_entry e) with (CstNs.r_entry re). unfold CstNs.r_entry. cbv zeta.
    rewrite e_name_qname, Ere2, Ere1, <- !app_assoc. intros HW.
    pose proof (WV_lit _ _ _ _ HW (s_lit _ Hw)) as A1.
    pose proof (WV_app _ _ _ _ A1 (uq_valid _ Hn)) as A2.
    pose proof (WV_lit _ _ _ _ A2 (s_lit _ Hw1)) as A3.
    pose proof (WV_lit _ _ _ _ A3 (eq_refl : forallb (fun y => y <? 128) [61] = true)) as A4. change (blen [61]) with 1 in A4.
    pose proof (WV_lit _ _ _ _ A4 (s_lit _ Hw2)) as A5.
    assert (Hq1 : forallb (fun y => y <? 128) [quote] = true) by (cbn; destruct Hq as [Hq' | Hq']; rewrite Hq'; reflexivity).
    pose proof (WV_lit _ _ _ _ A5 Hq1) as A6. change (blen [quote]) with 1 in A6. exact A6. }
  pose proof Hvw as Hw0. unfold wf_uepieces in Hw0. apply andb_true_iff in Hw0. destruct Hw0 as [Hwp _].
  pose proof (no_cdata_of _ _ _ _ Hwp) as Hnc.
  destruct (uepieces_ok quote false false m ps ltac:(lia) Hvw Hnc) as (Hok & Hadj & _).
  eexists. exists quote. split; [|split; [exact HWv|split; [exact Hok|exact Hadj]]].
  unfold vsl. cbv zeta. fold re. rewrite Ere2. reflexivity.
Qed.


(* what the spec accepts is what the naive inlining gives *)
Lemma spec_is_naive_run m l x : inline_run tb m l = Some x -> inline_run ntb false l = Some x.
Proof. apply (mono_run tb ntb (level_nlevel decls k) m false). Qed.
Lemma spec_is_naive_item m i x : inline_item tb m i = Some x -> inline_item ntb false i = Some x.
Proof. apply (mono_item tb ntb (level_nlevel decls k) m false). discriminate. Qed.
Lemma spec_is_naive_items m cs x : inline_items tb m cs = Some x -> inline_items ntb false cs = Some x.
Proof. apply (mono_items tb ntb (level_nlevel decls k) m false). discriminate. Qed.

(* ---- a text token ---- *)
Lemma tok_stretch_d inh l p more m c0 c frs acc L its tr ld' :
  WV p (E.r_epieces l ++ more) -> Forall (uep_ok m) l -> l <> [] ->
  m = (0 <? ld_depth (c_ld c)) -> N.of_nat L + ld_depth (c_ld c) = 12 -> ld_ok (c_ld c) ->
  OR inh c0 c frs -> SemI frs acc -> bnd acc = true -> c_entity_floor c <= len_N (c_parent_prefixes c) ->
  inline_run ntb false l = Some (its, tr) -> inline_run tb m l = None -> ld_run (c_ld c) tr = Some ld' ->
  Pok acc its -> Rooms inh c0 acc its -> NsOk inh acc its ->
  exists pos, evl L (TText (sl p (p + blen (E.r_epieces l))) (p, p + blen (E.r_epieces l))) c = Err (InvalidAttributeValue pos).
Proof.
  intros HWv Hok Hne Hm Hlvl Hldok HO HS Hbnd Hfl Hin Hno Hld HP HR HN. pose proof (WV_W _ _ _ HWv) as HW.
  unfold CstEntCBuild.evl. cbn [token_with].
  rewrite process_text_with_unfold. unfold slice_bytes at 1. cbn [sl sl_start sl_end].
  rewrite (CstLex.W_sub _ _ _ _ HW).
  pose proof (CstLex.W_le _ _ _ (CstLex.W_app _ _ _ _ HW)) as Hle.
  destruct (existsb (fun x => (x =? 38) || (x =? 13)) (E.r_epieces l)) eqn:Efast; cbn [negb].
  2:{ destruct (existsb_or_false _ _ _ Efast) as [E38 _]. destruct (inline_run_norefs tb m l E38 Hno). }
  cbn [fst snd]. rewrite (stream_from_substr_W text p (E.r_epieces l) more HW). cbn [bind].
  destruct (TLd text D HD decls es Henv Hdecls Hcont k IHd l [] [] inh m (p + blen (E.r_epieces l)) p more c0 c frs acc
              (S (length (s_rest (sst (p + blen (E.r_epieces l)) p (E.r_epieces l ++ more))))) L
              (p, p + blen (E.r_epieces l)) its tr ld' Hok HWv eq_refl Hle Hm Hlvl Hldok (acc_nil m) eq_refl (Forall_nil _) HO HS Hbnd Hfl Hin Hno Hld
              ltac:(rewrite app_nil_r; exact HP) ltac:(rewrite app_nil_r; exact HR) ltac:(rewrite app_nil_r; exact HN)
              ltac:(cbn [sst s_rest]; rewrite app_length; lia)) as (pos & Ef).
  cbn [push_text_chunks] in Ef. rewrite Ef. eauto.
Qed.

(* ---- the segments of a run ---- *)
Lemma segs_d inh post en tl : text_stop post ->
  forall L prev p m c0 c frs acc lvl depth fuel its tr ld',
  Forall (ueseg_wfm m) L -> ealt (prev :: L) -> WVs en tl p (flat_map r_eseg L ++ post) ->
  m = (0 <? ld_depth (c_ld c)) -> N.of_nat lvl + ld_depth (c_ld c) = 12 -> ld_ok (c_ld c) ->
  OR inh c0 c frs -> SemI frs acc -> seg_bnd L acc -> c_entity_floor c <= len_N (c_parent_prefixes c) ->
  inline_run ntb false (flat_map seg_pieces L) = Some (its, tr) -> inline_run tb m (flat_map seg_pieces L) = None ->
  ld_run (c_ld c) tr = Some ld' ->
  Pok acc its -> Rooms inh c0 acc its -> NsOk inh acc its ->
  exists pos,
    parse_content_loop text context (evl lvl) (length L + fuel) depth (sst4 en tl p (flat_map r_eseg L ++ post)) c =
    Err (InvalidAttributeValue pos).
Proof.
  intros Hpost. induction L as [|s L IH]; intros prev p m c0 c frs acc lvl depth fuel its tr ld'
    HF A HW Hm Hlvl Hldok HO HS Hb Hfl Hin Hno Hld HP HR HN.
  - cbn [flat_map inline_run] in Hno. discriminate.
  - pose proof HF as HF0. apply Forall_cons_iff in HF. destruct HF as [[Hs Hsm] HL].
    assert (A' : ealt (s :: L)) by (destruct A as [_ A]; exact A).
    cbn [flat_map] in Hin, Hno, HW |- *. rewrite <- app_assoc in HW |- *.
    destruct (inline_run_app _ _ _ _ _ _ Hin) as (ia & tra & ib & trb & Ea & Eb & -> & ->).
    destruct (Pok_app _ _ _ HP) as [HPa HPb]. pose proof (Rooms_app_l _ _ _ _ _ HR) as HRa.
    destruct (CstFullS6Text.NsOk_app _ _ _ _ _ HN) as [HNa HNb].
    assert (Hstop : is_ess s = true -> text_stop (flat_map r_eseg L ++ post)).
    { intros Hs1. destruct L as [|[l'|bs'] L']; cbn [flat_map app]; [exact Hpost| |reflexivity].
      destruct A' as [A' _]. specialize (A' Hs1). discriminate. }
    rewrite ld_run_app in Hld. destruct (ld_run (c_ld c) tra) as [ld1|] eqn:El1; [|discriminate].
    destruct (inline_run_app_none _ _ _ _ Hno) as [Ena|[[xa Exa] Enb]].
    + (* the refusal is in this segment *)
      destruct s as [l|bs]; cbn [r_eseg seg_pieces] in *.
      2:{ cbn [inline_run E.obind fst snd] in Ena. discriminate. }
      pose proof (Hstop eq_refl) as Hstop'.
      destruct (ess_bytes_u D HD l Hs) as (Hu & Hb60 & x & r & Ex & Hx60). destruct Hs as (Hne & _ & _ & Hn3).
      pose proof (SL.WV_W text _ _ HW) as HW0.
      cbn [length Nat.add].
      assert (El : parse_content_loop text context (evl lvl) (S (length L + fuel)) depth (sst4 en tl p (E.r_epieces l ++ flat_map r_eseg L ++ post)) c =
                   let! (s0, c1) := parse_text text context (evl lvl) (sst4 en tl p (E.r_epieces l ++ flat_map r_eseg L ++ post)) c in
                   parse_content_loop text context (evl lvl) (length L + fuel) depth s0 c1).
      { revert HW0. rewrite Ex. cbn [app]. intros HW0. apply (loop_text text en tl); assumption. }
      rewrite El. clear El.
      rewrite (SL.lex_text_g text en tl) by assumption.
      pose proof (WVs_full _ _ _ _ _ HW) as HWf. rewrite <- app_assoc in HWf.
      destruct (tok_stretch_d inh l p _ m c0 c frs acc lvl ia tra ld1 HWf Hsm Hne Hm Hlvl Hldok HO HS Hb Hfl Ea Ena El1 HPa HRa HNa) as (pos & Ef).
      rewrite Ef. cbn [bind]. eauto.
    + (* this segment is read *)
      assert (Ea' : inline_run tb m (seg_pieces s) = Some (ia, tra)).
      { pose proof (spec_is_naive_run m _ _ Exa) as X. rewrite Ea in X. injection X as <-. exact Exa. }
      assert (Hone : exists c0a ca frsa K1 e1,
                parse_content_loop text context (evl lvl) (1 + (length L + fuel)) depth (sst4 en tl p (r_eseg s ++ flat_map r_eseg L ++ post)) c =
                parse_content_loop text context (evl lvl) (length L + fuel) depth (sst4 en tl (p + blen (r_eseg s)) (flat_map r_eseg L ++ post)) ca /\
                Res inh c0 c acc ia ld1 c0a ca frsa K1 e1).
      { destruct s as [l|bs].
        - destruct (segs_c text D HD decls es Henv Hdecls Hcont k IHk inh (flat_map r_eseg L ++ post) en tl (Hstop eq_refl)
                      [ESS l] prev p m c0 c frs acc lvl depth (length L + fuel)%nat ia tra ld1)
            as (c0a & ca & frsa & K1 & e1 & E1 & HRes1); try assumption.
          { constructor; [split; assumption|constructor]. }
          { destruct A as [A1 _]. split; [exact A1|exact I]. }
          { cbn [flat_map]. rewrite app_nil_r. exact HW. }
          { cbn [flat_map]. rewrite app_nil_r. exact Ea'. }
          cbn [length Nat.add flat_map] in E1. rewrite app_nil_r in E1. exists c0a, ca, frsa, K1, e1. split; [exact E1|exact HRes1].
        - cbn [seg_pieces r_eseg] in *. cbn [inline_run E.obind fst snd] in Ea. injection Ea as <- <-. cbn [ld_run] in El1. injection El1 as <-.
          destruct Hs as [H1 H2]. rewrite <- !app_assoc in HW |- *. cbn [Nat.add].
          rewrite (loop_cdata text en tl) by (apply (SL.WV_W text _ _ HW)).
          change T.cdata_close with n3 in *.
          rewrite (SL.lex_cdata_u text en tl) by assumption.
          pose proof (WVs_full _ _ _ _ _ HW) as HWf. rewrite <- !app_assoc in HWf.
          destruct (tok_cdata_c text D HD decls es k IHk inh bs p _ c0 c frs acc lvl (WV_W _ _ _ HWf) HO HS) as (ca & E1 & HRes1).
          { destruct HPa as [_ X]. cbn [walk snd] in X. exact X. }
          { intros Z0. destruct HRa as [X _]. cbn [walk fst snd app] in X. apply (CstFullItems.node_room_room _ _ X).
            rewrite nsizes_flush, CstEntCText.all_marks_app. change (all_marks [T.PCData bs]) with false. rewrite andb_false_r. lia. }
          rewrite E1. cbn [bind]. eexists c0, ca, _, [], []. split; [|exact HRes1].
          f_equal. f_equal. rewrite !blen_app. change (blen T.cdata_open) with 9. change (blen n3) with 3. lia. }
      destruct Hone as (c0a & ca & frsa & K1 & e1 & E1 & HRes1).
      cbn [length]. change (S (length L) + fuel)%nat with (1 + (length L + fuel))%nat. rewrite E1.
      pose proof HRes1 as (S1 & O1 & M1 & F1 & Le1 & Nc1 & D1 & D1' & Fl1 & T1).
      assert (Hvs : U8.Valid (r_eseg s)) by (apply (eseg_valid D HD); exact Hs).
      apply (IH s (p + blen (r_eseg s)) m c0a ca frsa (snd (walk acc ia)) lvl depth fuel ib trb ld' HL A'); try assumption.
      * apply (SL.WV_app text _ _ _ HW Hvs).
      * rewrite D1, D1'. exact Hm.
      * rewrite D1, D1'. exact Hlvl.
      * rewrite D1. apply (ld_ok_run _ _ _ El1 Hldok).
      * destruct L as [|[l'|bs'] L']; try exact I. destruct s as [l|bs]; [destruct A' as [A' _]; specialize (A' eq_refl); discriminate|].
        cbn [seg_pieces inline_run E.obind fst snd] in Ea. injection Ea as <- <-. cbn [walk snd seg_bnd]. rewrite CstEntCText.bnd_snoc. reflexivity.
      * rewrite Fl1. rewrite (CstEntText.Run_pp _ _ _ (or_run _ _ _ _ _ _ _ O1)). destruct S1 as (_ & _ & ->).
        rewrite <- (CstEntText.Run_pp _ _ _ (or_run _ _ _ _ _ _ _ HO)). exact Hfl.
      * rewrite D1. exact Hld.
      * apply (Rooms_app_r _ _ _ _ _ _ _ _ _ _ _ _ HRes1 HR).
Qed.

(* ---- items ---- *)
Definition ItemD (i : uitem) : Prop :=
  forall inh m en tl p post c0 c frs acc lvl depth fuel its tr ld',
    wf_uitem_s m i = true -> WVs en tl p (r_item i ++ post) ->
    (is_text epieces i = true -> text_stop post) ->
    OR inh c0 c frs -> SemI frs acc -> (is_text epieces i = true -> bnd acc = true) ->
    m = (0 <? ld_depth (c_ld c)) -> N.of_nat lvl + ld_depth (c_ld c) = 12 -> ld_ok (c_ld c) ->
    c_entity_floor c <= len_N (c_parent_prefixes c) ->
    inline_item ntb false i = Some (its, tr) -> inline_item tb m i = None -> ld_run (c_ld c) tr = Some ld' ->
    Pok acc its -> Rooms inh c0 acc its -> NsOk inh acc its ->
    exists pos,
      parse_content_loop text context (evl lvl) (usteps i + fuel) depth (sst4 en tl p (r_item i ++ post)) c =
      Err (InvalidAttributeValue pos).

Lemma ItemD_text ps : ItemD (IText ps).
Proof.
  intros inh m en tl p post c0 c frs acc lvl depth fuel its tr ld' Hwf HW Hstop HO HS Hb Hm Hlvl Hldok Hfl Hin Hno Hld HP HR HN.
  specialize (Hstop eq_refl). specialize (Hb eq_refl).
  cbn [wf_uitem_s r_item r_run epieces usteps inline_item] in *.
  apply andb_true_iff in Hwf. destruct Hwf as [Hne Hw].
  pose proof (esegs_wfm m ps Hw) as HF.
  rewrite <- (esegs_render (enc_epieces ps)) in HW |- *. rewrite <- (esegs_flat (enc_epieces ps)) in Hin, Hno.
  apply (segs_d inh post en tl Hstop (esegs (enc_epieces ps)) (ESC []) p m c0 c frs acc lvl depth fuel its tr ld' HF); try assumption.
  - apply ealt_sc. apply ealt_esegs.
  - destruct (esegs (enc_epieces ps)) as [|[l|bs] L]; try exact I. exact Hb.
Qed.

(* ---- the entries of a start tag inside the value of an entity: &lt; in one of them ---- *)
Lemma entries_d lvl more ens q c ens' tr ld' start :
  WV q (flat_map r_entry ens ++ more) -> forallb (wf_uentry_s true) ens = true ->
  0 < ld_depth (c_ld c) -> ld_ok (c_ld c) ->
  inline_entries tb false ens = Some (ens', tr) -> inline_entries tb true ens = None -> ld_run (c_ld c) tr = Some ld' ->
  forallb (fun e => E.crlf_split_ok (e_value bpieces e)) ens' = true ->
  forallb ns_entry_ok (bd ens') = true -> Scope.prefixes_unique (CstNs.own_bindings (bd ens')) = true ->
  incl (CstNs.own_bindings (bd ens')) D ->
  TI text D start [] (sh c) -> c_entities c = es ->
  exists pos, evs context (evl lvl) (entry_toks q (map (x_entry epieces (r_val epieces)) ens)) c = Err (InvalidAttributeValue pos).
Proof.
  intros HW Hwf Hd Hldok Hin Hno Hld Hpr Hns Hu HinD T0 Hes.
  assert (Hm : true = (0 <? ld_depth (c_ld c))) by (symmetry; apply N.ltb_lt; exact Hd).
  destruct (entries_split_d tb ens ens' tr Hin Hno)
    as (ens1 & e & ens2 & ens1' & tr1 & e' & tre & r' & trr & -> & E1 & Ee & Ee2 & -> & ->).
  rewrite ld_run_app in Hld. destruct (ld_run (c_ld c) tr1) as [ld1|] eqn:L1; [|discriminate].
  rewrite ld_run_app in Hld. destruct (ld_run ld1 tre) as [ld2|] eqn:L2; [|discriminate].
  rewrite forallb_app in Hwf. apply andb_true_iff in Hwf. destruct Hwf as [Hwf1 Hwf2].
  cbn [forallb] in Hwf2. apply andb_true_iff in Hwf2. destruct Hwf2 as [Hwe _].
  rewrite forallb_app in Hpr. apply andb_true_iff in Hpr. destruct Hpr as [Hpr1 _].
  rewrite map_app, forallb_app in Hns. apply andb_true_iff in Hns. destruct Hns as [Hns1 _].
  rewrite map_app in Hu, HinD. unfold CstNs.own_bindings in Hu, HinD. rewrite flat_map_app in Hu, HinD.
  apply ScopeProofs.prefixes_unique_app in Hu. destruct Hu as (Hu1 & _ & _).
  assert (HinD1 : incl (CstNs.own_bindings (bd ens1')) D) by (intros z Hz; apply HinD; apply in_or_app; left; exact Hz).
  rewrite flat_map_app in HW. cbn [flat_map] in HW. rewrite <- !app_assoc in HW.
  destruct (sentries_at _ true ens1 q ens1' tr1 (c_ld c) ld1 HW Hwf1 Hm Hldok E1 L1 Hpr1) as (xs & Ex1 & Ex2 & Hok & Hnorms & Hdep).
  rewrite map_app, entry_toks_app, evs_app. rewrite <- Ex1.
  rewrite (entries_transport text es lvl xs q c ld1 Hok Hnorms Hes).
  assert (HWx : W q (flat_map CstNs.r_entry (raws xs) ++ r_entry e ++ flat_map r_entry ens2 ++ more)).
  { rewrite Ex1, <- r_entries_x4. apply (WV_W _ _ _ HW). }
  destruct (entries_evs_g text D HD es _ xs q (sh c) start [] HWx Hok ltac:(rewrite Ex2; exact Hns1) ltac:(split; [exact Hes|reflexivity])
              ltac:(rewrite Ex2; exact Hu1) ltac:(rewrite Ex2; exact HinD1) T0) as (d1 & Ev & _).
  rewrite Ev. cbn [rmap bind]. clear Ev.
  set (x1 := set_doc (set_cur_attrs (sh c) (c_cur_attrs (sh c) ++ tas_g q xs)) d1).
  set (c2 := bk (c_entity_floor c) ld1 x1).
  set (q2 := q + blen (flat_map CstNs.r_entry (raws xs))).
  assert (HW2 : WV q2 (r_entry e ++ flat_map r_entry ens2 ++ more)).
  { unfold q2. rewrite Ex1, <- r_entries_x4. apply (WV_app _ _ _ _ HW). apply (uentries_valid4 true). exact Hwf1. }
  destruct (entry_value_at true e q2 _ HW2 Hwe) as (vq & quote & Evsl & HWv & Hok2 & Hadj2).
  assert (Hval : exists Q, E.inline_ps (E.level decls3 k) true false (enc_epieces (e_value epieces e)) = Some (Q, tre) /\
                           E.inline_ps (E.level decls3 k) true true (enc_epieces (e_value epieces e)) = None).
  { unfold inline_entry in Ee, Ee2. destruct e as [l n v|l p0 v]; cbn [e_value];
      rewrite inline_ps_level in Ee, Ee2;
      (destruct (E.inline_ps (E.level decls3 k) true false (enc_epieces v)) as [[Q trq]|]; [|discriminate]);
      cbn [E.obind fst snd] in Ee; injection Ee as _ <-; exists Q; (split; [reflexivity|]);
      (destruct (E.inline_ps (E.level decls3 k) true true (enc_epieces v)) as [y|]; [discriminate|reflexivity]). }
  destruct Hval as (Q & EQ & EQ2).
  cbn [map entry_toks evs].
  unfold CstEntCBuild.evl at 1, entry_tok. cbv zeta. cbn [token_with]. unfold process_attribute.
  match goal with |- context [normalize_attribute text ?v c2] => change v with (vsl q2 (x_entry epieces (r_val epieces) e)) end.
  rewrite Evsl.
  destruct (normalize_d text Hvalid D HD decls3 es Henv Hdecls vq _ quote _ c2 k Q tre ld2 HWv Hok2 Hadj2) as [pos En].
  { unfold c2. rewrite bk_ld, Hdep. exact Hd. }
  { exact EQ. }
  { exact EQ2. }
  { unfold c2. rewrite bk_ld. exact L2. }
  { unfold c2. rewrite bk_entities. unfold x1. cbn. exact Hes. }
  rewrite En. cbn [bind]. eauto.
Qed.

(* ---- the start tag fails ---- *)
Lemma elem_attrs_d name ens ws body inh en tl p post c0 c frs acc lvl ens' tra lda :
  wf_uitem_s true (IElem name ens ws body) = true ->
  WVs en tl p (r_item (@IElem epieces name ens ws body) ++ post) ->
  OR inh c0 c frs -> SemI frs acc ->
  0 < ld_depth (c_ld c) -> ld_ok (c_ld c) ->
  inline_entries tb false ens = Some (ens', tra) -> inline_entries tb true ens = None -> ld_run (c_ld c) tra = Some lda ->
  forallb (fun e => E.crlf_split_ok (e_value bpieces e)) ens' = true ->
  Scope.bytes_eqb (CstNs.q_prefix (x_qname name)) CstNs.xmlns_b = false ->
  forallb ns_entry_ok (bd ens') = true -> Scope.prefixes_unique (CstNs.own_bindings (bd ens')) = true ->
  incl (CstNs.own_bindings (bd ens')) D ->
  exists pos, parse_element text context (evl lvl) (sst4 en tl p (r_item (@IElem epieces name ens ws body) ++ post)) c =
              Err (InvalidAttributeValue pos).
Proof.
  intros Hwf HW HO HS Hd Hldok Eat Eno Hld Hprov N1 Nent N6 HinD.
  destruct (wf_elem_parts4 _ _ _ _ _ Hwf) as (Hn & Ha & Hw & _). clear Hwf.
  rewrite r_uitem_elem in *. rewrite <- !app_assoc in HW |- *.
  set (tail := match body with None => [47; 62] | Some (cs, ws2) => [62] ++ r_uitems cs ++ [60; 47] ++ r_qname name ++ ws2 ++ [62] end) in *.
  assert (Et : exists empty rest, tail ++ post = tag_tail empty ++ rest).
  { unfold tail. destruct body as [[cs ws2]|]; [exists false|exists true]; eexists; rewrite <- ?app_assoc; reflexivity. }
  destruct Et as (empty & rest & Et). rewrite Et in HW |- *.
  unfold r_qname at 1 in HW. unfold r_qname at 1. rewrite r_entries_x4 in HW |- *.
  rewrite (SL.lex_element_full text en tl context (evl lvl) p (x_qname name) _ ws empty rest c HW (CstFullItems.uq_of _ Hn))
    by (try exact Hw; apply (uentries_of4 true); exact Ha).
  cbv zeta.
  destruct (flush_res inh c0 c frs acc HO HS) as (cr & Kt & Er & Ar & St & Ir & L1 & L2 & L3 & Tr0 & HKt & Ees & Epp).
  unfold start_toks_ns.
  match goal with |- context [evs context (evl lvl) (?tk :: ?r) c] => rewrite (evs_reset text lvl tk r c cr I Er Ar) end.
  pose proof (WVs_full _ _ _ _ _ HW) as HWf. rewrite <- !app_assoc in HWf.
  pose proof (WV_lit _ _ _ _ HWf (eq_refl : forallb (fun y => y <? 128) [60] = true)) as HW1. change (blen [60]) with 1 in HW1.
  pose proof (WV_app _ _ _ _ HW1 (uq_valid _ (CstFullItems.uq_of _ Hn))) as HW2.
  rewrite <- r_entries_x4 in HW2.
  destruct (qname_slices text D HD _ _ _ (WV_W _ _ _ HW1)) as [Sp Sl].
  cbn [evs]. unfold CstEntCBuild.evl at 1. cbn [token_with].
  rewrite (reset_after_text_ok text) by (rewrite Ar; cbn; lia). cbn [bind].
  rewrite Sp. change Scope.bytes_eqb with bytes_eqb in N1. change CstNs.xmlns_b with xmlns_str in N1. rewrite N1. cbn [bind].
  fold (CstEntCBuild.evl text lvl).
  match goal with |- context [evs context (evl lvl) _ ?c1] => set (cs0 := c1) end.
  assert (T0 : TI text D (c_ns_start_idx cr) [] (sh cs0)).
  { constructor.
    - reflexivity.
    - change (d_ns_tree (c_doc (sh cs0))) with (d_ns_tree (c_doc (sh cr))). pose proof (cn_ns _ _ _ _ Ir) as X.
      change (c_ns_start_idx (sh cr)) with (c_ns_start_idx cr) in X. rewrite X. lia.
    - apply (cn_inv _ _ _ _ Ir).
    - change (d_ns_tree (c_doc (sh cs0))) with (d_ns_tree (c_doc (sh cr))). pose proof (cn_ns _ _ _ _ Ir) as X.
      change (c_ns_start_idx (sh cr)) with (c_ns_start_idx cr) in X. rewrite X.
      unfold ScopeProofs.bindings_of. cbn [fst snd]. rewrite N.sub_diag. reflexivity.
    - constructor. }
  destruct (entries_d lvl _ ens _ cs0 ens' tra lda (c_ns_start_idx cr) HW2 Ha) as [pos Ef]; try assumption.
  { unfold cs0. cbn [c_ld set_tag_name set_after_text]. rewrite L1. exact Hd. }
  { unfold cs0. cbn [c_ld set_tag_name set_after_text]. rewrite L1. exact Hldok. }
  { unfold cs0. cbn [c_ld set_tag_name set_after_text]. rewrite L1. exact Hld. }
  unfold r_qname, cs0 in Ef. unfold cs0. rewrite Ef. cbn [bind]. eauto.
Qed.

Lemma ItemD_elem_entries (ens : list uentry) m ens' tra :
  inline_entries ntb false ens = Some (ens', tra) -> inline_entries tb m ens = None -> m = true /\ inline_entries tb false ens = Some (ens', tra).
Proof.
  intros H Hno. rewrite inline_entries_nlevel in H. split; [|exact H]. destruct m; [reflexivity|]. rewrite H in Hno. discriminate.
Qed.

Lemma ItemD_empty name ens ws : ItemD (IElem name ens ws None).
Proof.
  intros inh m en tl p post c0 c frs acc lvl depth fuel its tr ld' Hwf HW _ HO HS _ Hm Hlvl Hldok Hfl Hin Hno Hld HP HR HN.
  rewrite inline_item_elem in Hin, Hno. destruct (inline_entries ntb false ens) as [[ens' tra]|] eqn:Eat; [|discriminate].
  cbn [E.obind fst snd] in Hin. injection Hin as <- <-.
  destruct (inline_entries tb m ens) as [y|] eqn:Eno; [discriminate|].
  destruct (ItemD_elem_entries ens m ens' tra Eat Eno) as [-> Eat'].
  assert (Hd : 0 < ld_depth (c_ld c)) by (apply N.ltb_lt; symmetry; exact Hm).
  destruct (ns_el D _ _ _ _ _ _ HN) as (N1 & Nent & N6 & HinD).
  destruct (elem_attrs_d name ens ws None inh en tl p post c0 c frs acc lvl ens' tra ld' Hwf HW HO HS Hd Hldok Eat' Eno Hld (prov_el _ _ _ _ _ HP) N1 Nent N6 HinD) as [pos E].
  destruct (wf_elem_parts4 _ _ _ _ _ Hwf) as (Hn & _).
  exists pos. cbn [usteps Nat.add]. rewrite r_uitem_elem in HW, E |- *. rewrite <- !app_assoc in HW, E |- *.
  unfold r_qname in HW, E |- *.
  rewrite (SL.loop_elem_q text en tl) by (try apply (SL.WV_W text _ _ HW); apply CstFullItems.uq_of; exact Hn).
  rewrite E. reflexivity.
Qed.

Lemma ItemD_open name ens ws cs ws2 : ItemsD text D decls es k cs -> ItemD (IElem name ens ws (Some (cs, ws2))).
Proof.
  intros HL inh m en tl p post c0 c frs acc lvl depth fuel its tr ld' Hwf HW _ HO HS _ Hm Hlvl Hldok Hfl Hin Hno Hld HP HR HN.
  rewrite inline_item_elem in Hin, Hno. destruct (inline_entries ntb false ens) as [[ens' tra]|] eqn:Eat; [|discriminate].
  cbn [E.obind fst snd] in Hin. destruct (inline_items ntb false cs) as [[itsc trc]|] eqn:Ecs; [|discriminate].
  cbn [E.obind fst snd] in Hin. injection Hin as <- <-.
  destruct (wf_elem_parts4 _ _ _ _ _ Hwf) as (Hn & _ & _ & Hw2 & Hna & Hcs).
  rewrite usteps_elem. cbn [Nat.add].
  assert (Eloop : forall X, parse_content_loop text context (evl lvl) (S X) depth
             (sst4 en tl p (r_item (@IElem epieces name ens ws (Some (cs, ws2))) ++ post)) c =
           let! (open, s, c1) := parse_element text context (evl lvl) (sst4 en tl p (r_item (@IElem epieces name ens ws (Some (cs, ws2))) ++ post)) c in
           parse_content_loop text context (evl lvl) X (if open then depth + 1 else depth) s c1).
  { intros X. revert HW. rewrite r_uitem_elem, <- !app_assoc. unfold r_qname at 1 3. intros HW.
    apply (SL.loop_elem_q text en tl); [apply (SL.WV_W text _ _ HW)|apply CstFullItems.uq_of; exact Hn]. }
  rewrite Eloop. clear Eloop.
  rewrite ld_run_app in Hld. destruct (ld_run (c_ld c) tra) as [lda|] eqn:Ela; [|discriminate].
  destruct (inline_entries tb m ens) as [[ens2 tra2]|] eqn:Eat2.
  - (* the start tag is read; the refusal is in the content *)
    assert (E2 : (ens2, tra2) = (ens', tra)).
    { pose proof (mono_entries tb ntb (level_nlevel decls k) m false ltac:(discriminate) ens _ Eat2) as X. rewrite Eat in X. injection X as <- <-. reflexivity. }
    injection E2 as -> ->. cbn [E.obind fst snd] in Hno.
    destruct (inline_items tb m cs) as [y|] eqn:Ecs2; [discriminate|].
    destruct (elem_start_c text D HD decls es Henv Hdecls Hcont k name ens ws cs ws2 inh m en tl p post c0 c frs acc lvl
                ens' tra itsc lda Hwf HW HO HS Hm Hldok Hfl Eat2 Ela HP HR HN)
      as (c1 & E1 & HO1 & D1 & D2 & Hok1 & Fl1 & HPc & HRc & HNc & HWc).
    rewrite E1. cbn [bind].
    replace (usteps_list cs + 1 + fuel)%nat with (usteps_list cs + S fuel)%nat by lia.
    apply (HL _ m en tl _ _ (sh c1) c1 [] [] lvl (depth + 1) (S fuel) itsc trc ld' Hcs Hna HWc ltac:(reflexivity) HO1 (CstEntCText.SemI_nil text)); try assumption.
    + destruct cs; [exact I|]. intros _. reflexivity.
    + rewrite D1, D2. exact Hm.
    + rewrite D1, D2. exact Hlvl.
    + rewrite D1. exact Hok1.
    + rewrite D1. exact Hld.
  - (* &lt; in the value of an entry *)
    destruct (ItemD_elem_entries ens m ens' tra Eat Eat2) as [-> Eat'].
    assert (Hd : 0 < ld_depth (c_ld c)) by (apply N.ltb_lt; symmetry; exact Hm).
    destruct (ns_el D _ _ _ _ _ _ HN) as (N1 & Nent & N6 & HinD).
    destruct (elem_attrs_d name ens ws (Some (cs, ws2)) inh en tl p post c0 c frs acc lvl ens' tra lda Hwf HW HO HS Hd Hldok Eat' Eat2 Ela (prov_el _ _ _ _ _ HP) N1 Nent N6 HinD) as [pos E].
    rewrite E. cbn [bind]. eauto.
Qed.

(* ---- lists of items ---- *)
Lemma ItemsD_of cs : Forall ItemD cs -> ItemsD text D decls es k cs.
Proof.
  induction 1 as [|i r Hi _ IH]; intros inh m en tl p post c0 c frs acc lvl depth fuel its tr ld'
    Hwf Hna HW Hpost HO HS Hb Hm Hlvl Hldok Hfl Hin Hno Hld HP HR HN.
  - cbn [inline_items] in Hno. discriminate.
  - cbn [forallb] in Hwf. apply andb_true_iff in Hwf. destruct Hwf as [Hw1 Hw2].
    cbn [r_uitems flat_map] in HW |- *. fold (r_uitems r) in HW |- *. rewrite <- app_assoc in HW |- *.
    cbn [inline_items] in Hin, Hno.
    destruct (inline_item ntb false i) as [[its1 tr1]|] eqn:Ei; [|discriminate]. cbn [E.obind fst snd] in Hin.
    destruct (inline_items ntb false r) as [[its2 tr2]|] eqn:Er; [|discriminate]. cbn [E.obind fst snd] in Hin.
    injection Hin as <- <-.
    assert (Hna2 : no_adjacent_text epieces r = true).
    { destruct r as [|d r']; [reflexivity|]. cbn [no_adjacent_text] in Hna. apply andb_true_iff in Hna. apply Hna. }
    assert (Hnext : forall d r', r = d :: r' -> is_text epieces i = true -> is_text epieces d = false).
    { intros d r' -> Hi1. cbn [no_adjacent_text] in Hna. apply andb_true_iff in Hna.
      destruct Hna as [Hna _]. rewrite Hi1 in Hna. cbn [andb] in Hna. apply negb_true_iff in Hna. exact Hna. }
    assert (Hstop1 : is_text epieces i = true -> text_stop (r_uitems r ++ post)).
    { intros Hi1. destruct r as [|d r']; [exact Hpost|]. cbn [r_uitems flat_map]. rewrite <- app_assoc.
      apply (nontext_stop m); [apply (Hnext d r' eq_refl Hi1)|]. cbn [forallb] in Hw2. apply andb_true_iff in Hw2. apply Hw2. }
    destruct (Pok_app _ _ _ HP) as [HP1 HP2]. pose proof (Rooms_app_l _ _ _ _ _ HR) as HR1.
    destruct (CstFullS6Text.NsOk_app _ _ _ _ _ HN) as [HN1 HN2].
    cbn [usteps_list]. rewrite <- Nat.add_assoc.
    rewrite ld_run_app in Hld. destruct (ld_run (c_ld c) tr1) as [ld1|] eqn:El1; [|discriminate].
    destruct (inline_item tb m i) as [[its1' tr1']|] eqn:Ei2.
    + (* this item is read *)
      assert (E2 : (its1', tr1') = (its1, tr1)).
      { pose proof (spec_is_naive_item m i _ Ei2) as X. rewrite Ei in X. injection X as <- <-. reflexivity. }
      injection E2 as -> ->. cbn [E.obind fst snd] in Hno.
      destruct (inline_items tb m r) as [y|] eqn:Er2; [discriminate|].
      destruct (ItemOK_all text D HD decls es Henv Hdecls Hcont k IHk i inh m en tl p (r_uitems r ++ post) c0 c frs acc lvl depth
                  (usteps_list r + fuel)%nat its1 tr1 ld1 Hw1 HW Hstop1 HO HS Hb Hm Hlvl Hldok Hfl Ei2 El1 HP1 HR1 HN1)
        as (c0a & ca & frsa & K1 & e1 & E1 & HRes1).
      rewrite E1. pose proof HRes1 as (S1 & O1 & M1 & F1 & Le1 & Nc1 & D1 & D1' & Fl1 & T1).
      apply (IH inh m en tl (p + blen (r_item i)) post c0a ca frsa (snd (walk acc its1)) lvl depth fuel its2 tr2 ld' Hw2 Hna2); try assumption; try reflexivity.
      * apply (SL.WV_app text _ _ _ HW (uitem_valid m i Hw1)).
      * destruct r as [|d r']; [exact I|]. intros Hd. destruct (is_text epieces i) eqn:Eti.
        -- rewrite (Hnext d r' eq_refl eq_refl) in Hd. discriminate.
        -- destruct (inline_nontext_g decls k m i its1 tr1 Eti Ei2) as (x & -> & Hx). rewrite walk_single by exact Hx. reflexivity.
      * rewrite D1, D1'. exact Hm.
      * rewrite D1, D1'. exact Hlvl.
      * rewrite D1. apply (ld_ok_run _ _ _ El1 Hldok).
      * rewrite Fl1. rewrite (CstEntText.Run_pp _ _ _ (or_run _ _ _ _ _ _ _ O1)). destruct S1 as (_ & _ & ->).
        rewrite <- (CstEntText.Run_pp _ _ _ (or_run _ _ _ _ _ _ _ HO)). exact Hfl.
      * rewrite D1. exact Hld.
      * apply (Rooms_app_r _ _ _ _ _ _ _ _ _ _ _ _ HRes1 HR).
    + apply (Hi inh m en tl p (r_uitems r ++ post) c0 c frs acc lvl depth (usteps_list r + fuel)%nat its1 tr1 ld1 Hw1 HW Hstop1 HO HS Hb Hm Hlvl Hldok Hfl Ei Ei2 El1 HP1 HR1 HN1).
Qed.

Theorem ItemD_all : forall i, ItemD i.
Proof.
  intros i. induction i as [n a w|n a w cs w2 IH|ps|bs|t s v] using fitem_ind.
  - apply ItemD_empty.
  - apply ItemD_open. apply ItemsD_of. exact IH.
  - apply ItemD_text.
  - intros inh m en tl p post c0 c frs acc lvl depth fuel its tr ld' _ _ _ _ _ _ _ _ _ _ _ Hno. discriminate.
  - intros inh m en tl p post c0 c frs acc lvl depth fuel its tr ld' _ _ _ _ _ _ _ _ _ _ _ Hno. discriminate.
Qed.

Theorem ItemsD_level : forall cs, ItemsD text D decls es k cs.
Proof. intros cs. apply ItemsD_of. apply Forall_forall. intros i _. apply ItemD_all. Qed.

End D15Items.

(* every level *)
Theorem D15fail_all text (Hvalid : valid_utf8_b text = true) D (HD : forall l, NoDup l -> incl l D -> N.of_nat (length l) <= 65535) decls es :
  Forall2 (uent_ok text) (map pd decls) es -> Forall udecl_okc (map pd decls) -> Forall decl_cont decls ->
  forall k cs, ItemsD text D decls es k cs.
Proof.
  intros Henv Hdecls Hcont. induction k as [|k IH]; intros cs.
  - apply (ItemsD_level text Hvalid D HD decls es Henv Hdecls Hcont 0). intros k' E0. discriminate.
  - apply (ItemsD_level text Hvalid D HD decls es Henv Hdecls Hcont (S k)). intros k' E0. injection E0 as <-. exact IH.
Qed.

Print Assumptions D15fail_all.
