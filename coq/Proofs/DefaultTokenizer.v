(* Proofs/DefaultTokenizer.v -- the tokenizer with a callback invariant indexed by the stream
   position: every token is delivered with a source interval [p, q] that starts at or after
   the position at which the invariant was last established and ends at or before the
   current position; TEntityDecl is delivered only when the DTD is allowed. *)
From Coq Require Import List NArith Bool Lia ZifyBool ZifyN ZifyNat.
Import ListNotations.
From RX Require Import Generated.
From RX.Model Require Import Base CharClass Stream Tokenizer.
From RX.Proofs Require Import TermStream TermTokenizer.
Open Scope N_scope.

(* ------------------------------------------------------------------ *)
(* Stream lemmas that also give the position of the slices *)
Section Str.
Variable text : bytes.

Lemma mk_slice_pos a e : good (fun sl => sl_start sl = a /\ sl_end sl = e) (mk_slice text a e).
Proof.
  unfold mk_slice. destruct (_ || _); [exact I|]. destruct (_ && _); [|exact I].
  cbn [good sl_start sl_end]. auto.
Qed.

Lemma slice_back_pos a s :
  good (fun sl => sl_start sl = a /\ sl_end sl = s_pos s) (slice_back text a s).
Proof. apply mk_slice_pos. Qed.

Lemma consume_chars_pos f s : wf s ->
  good (fun p => adv 0 s (snd p) /\ sl_start (fst p) = s_pos s /\ sl_end (fst p) = s_pos (snd p))
       (consume_chars text f s).
Proof.
  intros W. unfold consume_chars. eapply good_bind; [apply skip_chars_good; assumption|].
  intros s' H. eapply good_bind; [apply slice_back_pos|]. intros sl [H1 H2]. cbn [good fst snd]. auto.
Qed.

Lemma consume_chars_progress_pos s x : wf s -> at_end s = false ->
  curr_byte_unchecked s = Ok x -> x <> 60 ->
  good (fun p => adv 1 s (snd p) /\ sl_start (fst p) = s_pos s /\ sl_end (fst p) = s_pos (snd p))
       (consume_chars text (fun _ ch => negb (ch =? 60)) s).
Proof.
  intros W He Hx Hne. unfold consume_chars.
  eapply good_bind; [eapply skip_chars_progress; eassumption|].
  intros s' H. eapply good_bind; [apply slice_back_pos|]. intros sl [H1 H2]. cbn [good fst snd]. auto.
Qed.

Lemma consume_bytes_pos f s : wf s ->
  good (fun p => adv 0 s (snd p) /\ sl_start (fst p) = s_pos s /\ sl_end (fst p) = s_pos (snd p))
       (consume_bytes text f s).
Proof.
  intros W. unfold consume_bytes. eapply good_bind; [apply slice_back_pos|].
  intros sl [H1 H2]. cbn [good fst snd]. split; [apply skip_bytes_adv; assumption|auto].
Qed.
End Str.

Create HintDb pgood.
#[export] Hint Resolve adv_wf : pgood.
#[export] Hint Resolve curr_byte_unchecked_good curr_byte_good next_byte_good advance_good
  consume_byte_good mk_slice_pos slice_back_pos skip_string_good consume_bytes_pos
  consume_spaces_good advance_until2_good next_char_good skip_chars_good consume_chars_pos
  skip_name_good consume_name_good consume_qname_good consume_eq_good consume_quote_good
  consume_reference_good is_xml_str_good : pgood.

(* ------------------------------------------------------------------ *)
(* the source interval of a token lies in [p, q]; D: the DTD is allowed *)
Definition tok_in (D : Prop) (tk : token) (p q : N) : Prop :=
  p <= q /\
  match tk with
  | TText t r => p <= sl_start t /\ sl_end t <= q /\ p <= fst r /\ snd r <= q
  | TCdata t _ => p <= sl_start t /\ sl_end t <= q
  | TAttribute _ _ _ _ _ v => p <= sl_start v /\ sl_end v <= q
  | TEntityDecl _ _ => D
  | _ => True
  end.

Definition ppost {C} (Inv : N -> C -> Prop) (k : N) (s : stream) (p : stream * C) : Prop :=
  adv k s (fst p) /\ Inv (s_pos (fst p)) (snd p).
Definition ppost3 {C} (Inv : N -> C -> Prop) (k : N) (s : stream) (p : bool * stream * C) : Prop :=
  adv k s (snd (fst p)) /\ Inv (s_pos (snd (fst p))) (snd p).

Ltac pclean := destruct_pairs; unfold ppost, ppost3 in *; gsimp; destruct_conj.

Ltac pb := eapply good_bind; [ solve [eauto with pgood] | intros; pclean ].

Ltac pgen_skip :=
  match goal with
  | |- context [skip_spaces ?s] =>
      let s1 := fresh "s" in let H := fresh "Ha" in
      assert (H : adv 0 s (skip_spaces s)) by (apply skip_spaces_adv; eauto with pgood);
      set (s1 := skip_spaces s) in *; clearbody s1
  | |- context [skip_bytes ?g ?s] =>
      let s1 := fresh "s" in let H := fresh "Ha" in
      assert (H : adv 0 s (skip_bytes g s)) by (apply skip_bytes_adv; eauto with pgood);
      set (s1 := skip_bytes g s) in *; clearbody s1
  end.

Ltac pstep0 := first [ pgen_skip |
  lazymatch goal with
  | |- good _ (Ok _) => cbn [good fst snd]
  | |- good _ (Err _) => exact I
  | |- good _ (Panic _) => exact I
  | |- good _ (err_at _ _ _) => apply good_err_at
  | |- good _ (err_from _ _ _) => apply good_err_from
  | |- good _ (bind (Ok _) _) => cbn [bind]
  | |- good _ (bind (Err _) _) => exact I
  | |- good _ (bind (Panic _) _) => exact I
  | |- good _ (bind (err_at _ _ _) _) =>
      eapply good_bind with (Q := fun _ => True); [apply good_err_at | intros]
  | |- good _ (bind (err_from _ _ _) _) =>
      eapply good_bind with (Q := fun _ => True); [apply good_err_from | intros]
  | |- good _ (bind (bind _ _) _) => rewrite bind_assoc
  | |- good _ (bind (if ?b then _ else _) _) => destruct b eqn:?
  | |- good _ (bind (match ?x with _ => _ end) _) => destruct x eqn:?
  | |- good _ (bind _ _) => pb
  | |- good ?P (let x := ?v in @?f x) => change (good P (f v)); cbv beta
  | |- good _ (match try_consume_byte ?c ?s with _ => _ end) =>
      let H := fresh "Ha" in
      assert (H := try_consume_byte_adv c s ltac:(eauto with pgood));
      destruct (try_consume_byte c s) as [[|] ?]; gsimp
  | |- good _ (match ?r with Ok _ => _ | Err _ => _ | Panic _ => _ | OutOfFuel => _ end) =>
      let H := fresh "Hr" in
      eassert (H : good _ r) by (solve [eauto with pgood]);
      destruct r eqn:?; pclean; [ | | | contradiction ]
  | |- good _ (if ?b then _ else _) => destruct b eqn:?
  | |- good _ (match ?x with _ => _ end) => destruct x eqn:?
  | |- good _ _ =>
      eapply good_weaken; [ solve [eauto with pgood] | intros; pclean ]
  end ].

Ltac pmeasure := unfold adv, wf in *; cbn [s_pos s_end s_rest] in *; lia.

Section PTok.
Variable text : bytes.
Variable C : Type.
Variable ev : token -> C -> res C.
Variable D : Prop.
Variable Inv : N -> C -> Prop.
Hypothesis Inv_mono : forall p q c, p <= q -> Inv p c -> Inv q c.
Hypothesis Hev : forall tk c p q, tok_in D tk p q -> Inv p c -> good (Inv q) (ev tk c).

Notation ppost := (ppost Inv).
Notation ppost3 := (ppost3 Inv).

(* deliver a token: q is the end of its range when it has one *)
Ltac pev :=
  match goal with
  | HI : Inv ?p ?c |- good _ (bind (ev ?tk ?c) _) =>
      let q := lazymatch tk with
               | TComment _ (_, ?e) => e
               | TPI _ _ (_, ?e) => e
               | TElementEnd _ (_, ?e) => e
               | TAttribute (_, ?e) _ _ _ _ _ => e
               | TText _ (_, ?e) => e
               | TCdata _ (_, ?e) => e
               | _ => p
               end in
      eapply good_bind;
      [ eapply (Hev tk c p q);
        [ unfold tok_in; cbn [fst snd]; repeat split; try exact I; try assumption; pmeasure | exact HI ]
      | intros; pclean ]
  end.

Ltac pstep := first [ pev | pstep0 ].

Ltac pfin :=
  unfold DefaultTokenizer.ppost, DefaultTokenizer.ppost3 in *; cbn [fst snd] in *;
  solve [ split; [solve_adv | first [ eassumption | eapply Inv_mono; [|eassumption]; pmeasure ] ]
        | solve_adv
        | eauto with pgood ].

Ltac pauto := repeat pstep; try pfin.

Ltac prec IH :=
  eapply good_weaken;
  [ eapply IH; [ eauto with pgood | first [eassumption | eapply Inv_mono; [|eassumption]; pmeasure] | pmeasure ]
  | intros; pclean; split; [solve_adv | eassumption] ].

Hint Extern 3 (Inv _ _) => (eapply Inv_mono; [|eassumption]; pmeasure) : pgood.

Lemma parse_comment_pos s c : wf s -> Inv (s_pos s) c -> good (ppost 1 s) (parse_comment text C ev s c).
Proof. intros W HI. unfold parse_comment. pauto. Qed.

Lemma parse_pi_pos s c : wf s -> Inv (s_pos s) c -> good (ppost 1 s) (parse_pi text C ev s c).
Proof. intros W HI. unfold parse_pi. pauto. Qed.
Hint Resolve parse_comment_pos parse_pi_pos : pgood.

Lemma parse_misc_loop_pos fuel : forall s c, wf s -> Inv (s_pos s) c ->
  s_end s - s_pos s < N.of_nat fuel -> good (ppost 0 s) (parse_misc_loop text C ev fuel s c).
Proof.
  induction fuel; intros s c W HI Hf; [lia|]. cbn [parse_misc_loop].
  pauto; prec IHfuel.
Qed.

Lemma parse_misc_pos s c : wf s -> Inv (s_pos s) c -> good (ppost 0 s) (parse_misc text C ev s c).
Proof. intros. apply parse_misc_loop_pos; auto using fuel_enough. Qed.
Hint Resolve parse_misc_pos : pgood.

Lemma parse_attribute_pos s : wf s -> good (fun p => adv 0 s (snd p)) (parse_attribute text s).
Proof. apply parse_attribute_good. Qed.
Lemma parse_declaration_pos s : wf s -> good (adv 0 s) (parse_declaration text s).
Proof. apply parse_declaration_good. Qed.
Lemma parse_entity_def_pos s g : wf s -> good (fun p => adv 0 s (snd p)) (parse_entity_def text s g).
Proof. apply parse_entity_def_good. Qed.
Lemma parse_doctype_start_pos s : wf s -> good (adv 1 s) (parse_doctype_start text s).
Proof. apply parse_doctype_start_good. Qed.
Lemma consume_decl_pos s : wf s -> good (adv 1 s) (consume_decl text s).
Proof. apply consume_decl_good. Qed.
Hint Resolve parse_attribute_pos parse_declaration_pos parse_entity_def_pos
  parse_doctype_start_pos consume_decl_pos : pgood.

Section Dtd.
Hypothesis HD : D.

Lemma parse_entity_decl_pos s c : wf s -> Inv (s_pos s) c ->
  good (ppost 1 s) (parse_entity_decl text C ev s c).
Proof. intros W HI. unfold parse_entity_decl. pauto. Qed.
Hint Resolve parse_entity_decl_pos : pgood.

Lemma parse_doctype_loop_pos fuel : forall start s c, wf s -> Inv (s_pos s) c ->
  s_end s - s_pos s < N.of_nat fuel -> good (ppost 0 s) (parse_doctype_loop text C ev fuel start s c).
Proof.
  induction fuel; intros start s c W HI Hf; [lia|]. cbn [parse_doctype_loop].
  pauto; prec IHfuel.
Qed.

Lemma parse_doctype_pos s c : wf s -> Inv (s_pos s) c -> good (ppost 1 s) (parse_doctype text C ev s c).
Proof.
  intros W HI. unfold parse_doctype. pauto.
  eapply good_weaken; [apply parse_doctype_loop_pos; [eauto with pgood| |apply fuel_enough; eauto with pgood]|].
  - eapply Inv_mono; [|eassumption]. pmeasure.
  - intros [s' c'] [H1 H2]; gsimp. pfin.
Qed.
End Dtd.

Lemma parse_element_loop_pos fuel : forall st s c, wf s -> Inv (s_pos s) c ->
  s_end s - s_pos s < N.of_nat fuel -> good (ppost3 0 s) (parse_element_loop text C ev fuel st s c).
Proof.
  induction fuel; intros st s c W HI Hf; [lia|]. cbn [parse_element_loop].
  pauto; prec IHfuel.
Qed.

Lemma parse_element_pos s c : wf s -> Inv (s_pos s) c -> good (ppost3 1 s) (parse_element text C ev s c).
Proof.
  intros W HI. unfold parse_element. pauto.
  eapply good_weaken; [apply parse_element_loop_pos; [eauto with pgood| |apply fuel_enough; eauto with pgood]|].
  - eapply Inv_mono; [|eassumption]. pmeasure.
  - intros [[o s'] c'] [H3 H4]; gsimp. pfin.
Qed.
Hint Resolve parse_element_pos : pgood.

Lemma parse_cdata_pos s c : wf s -> Inv (s_pos s) c -> good (ppost 1 s) (parse_cdata text C ev s c).
Proof. intros W HI. unfold parse_cdata. pauto. Qed.

Lemma parse_close_element_pos s c : wf s -> Inv (s_pos s) c ->
  good (ppost 1 s) (parse_close_element text C ev s c).
Proof. intros W HI. unfold parse_close_element. pauto. Qed.
Hint Resolve parse_cdata_pos parse_close_element_pos : pgood.

Lemma parse_text_pos s c x : wf s -> Inv (s_pos s) c -> at_end s = false ->
  curr_byte_unchecked s = Ok x -> x <> 60 -> good (ppost 1 s) (parse_text text C ev s c).
Proof.
  intros W HI He Hx Hne. unfold parse_text. cbv zeta.
  eapply good_bind; [eapply consume_chars_progress_pos; eassumption|].
  intros [sl s'] H; gsimp. destruct_conj. pauto.
Qed.

Lemma parse_content_loop_pos fuel : forall depth s c, wf s -> Inv (s_pos s) c ->
  s_end s - s_pos s < N.of_nat fuel -> good (ppost 0 s) (parse_content_loop text C ev fuel depth s c).
Proof.
  induction fuel; intros depth s c W HI Hf; [lia|]. cbn [parse_content_loop].
  pstep; [pauto|].
  pose proof (curr_byte_unchecked_good s) as Hx.
  destruct (curr_byte_unchecked s) as [x| | |] eqn:Ex; gsimp; try exact I; try contradiction.
  cbn [bind]. destruct (N.eqb_spec x 60) as [->|Hne].
  - pose proof (next_byte_good s) as Hy.
    destruct (next_byte s) as [y| | |] eqn:Ey; gsimp; try contradiction; [|pauto|exact I].
    pauto; prec IHfuel.
  - eapply good_bind; [eapply parse_text_pos; eassumption|].
    intros [s' c'] [H1 H2]; gsimp. prec IHfuel.
Qed.

Lemma parse_content_pos s c : wf s -> Inv (s_pos s) c -> good (ppost 0 s) (parse_content text C ev s c).
Proof. intros. apply parse_content_loop_pos; auto using fuel_enough. Qed.
Hint Resolve parse_content_pos : pgood.

Lemma parse_document_pos dtd c : (dtd = true -> D) -> safe text -> Inv 0 c ->
  good (Inv (tlen text)) (parse_document text C ev dtd c).
Proof.
  intros HD Hs HI. unfold parse_document.
  pose proof (wf_new text Hs) as W0.
  assert (Hp0 : s_pos (stream_new text) = 0) by reflexivity.
  assert (He0 : s_end (stream_new text) = tlen text) by reflexivity.
  set (s0 := stream_new text) in *. clearbody s0. rewrite <- Hp0 in HI.
  eapply good_bind with (Q := adv 0 s0); [pauto|]. intros s1 H1.
  eapply good_bind with (Q := adv 0 s0); [pauto|]. intros s2 H2.
  eapply good_bind with (Q := ppost 0 s0); [pauto|]. intros [s3 c3] [H3 I3]; gsimp.
  pstep.
  eapply good_bind with (Q := ppost 0 s0).
  { pstep; [|pauto]. destruct dtd; cbn [negb]; [|exact I].
    pose proof (parse_doctype_pos (HD eq_refl)) as Hdt. pauto. }
  intros [s5 c5] [H5 I5]; gsimp. pstep.
  eapply good_bind with (Q := ppost 0 s0); [pauto|].
  intros [s7 c7] [H7 I7]; gsimp. pauto.
Qed.

End PTok.
