(* Proofs/CstRangeFDefs.v -- C13 / C18 on the capstone fragment (Spec/CstFull.v), part 1: where every
   node, every ordinary attribute and every namespace declaration of a document of the FRAME is
   written inside its UTF-8 rendering (byte offsets), and what is expected to be stored for it.
   Computed from the abstract document alone (no model, no proof internals).

   What a stage plugs in (besides the syntax and the meaning of Spec/CstFull.v):
     vstore p v    what is stored for the value v (of an attribute or of a namespace declaration)
                   written at offset p: a slice of the input, or new bytes
     run_nodes p r the node of the run r written at offset p: its range and what it stores (no node
                   at all when the run denotes none: stage S3)
   The instance for stage S2 (piece lists) is at the end. *)
From Coq Require Import List NArith Bool Lia.
Import ListNotations.
From RX.Spec Require Cst CstNs CstU CstText Scope.
From RX.Spec Require Import Text.
From RX.Spec Require Import CstFull.
From RX.Proofs Require Import CstRangeDefs CstRangeTDefs.
Open Scope N_scope.

(* what a node holds: as in CstRangeTDefs ([tshape]); for an element: the LOCAL part of its name *)

(* an ordinary attribute *)
Record faspan := {
  fa_range : N * N;       (* first byte of the qualified name .. closing quote inclusive *)
  fa_qname : N * N;       (* the whole qualified name prefix:local *)
  fa_local : N * N;       (* the local part (after the colon) *)
  fa_value : N * N;       (* the raw text between the quotes (references not decoded) *)
  fa_store : tstore       (* what is stored as the value *)
}.

(* an entry of the namespace table *)
Record fnsdesc := {
  fn_prefix : option (N * N);    (* the written prefix (after "xmlns:"); None: the default namespace *)
  fn_uri : tstore                (* the URI: a slice of the input (the written value), or new bytes *)
}.

Section FrameR.
Variable Sy : syntax.
Variable M : meaning Sy.
Variable vstore : N -> val Sy -> tstore.
Variable run_nodes : N -> run Sy -> list ((N * N) * tstore).

Notation item := (CstFull.item Sy).
Notation entry := (CstFull.entry Sy).

(* ---- names ---- *)
Definition fq_off (q : qname) : N := match q_prefix q with [] => 0 | p => nlen (utf8s p) + 1 end.

(* ---- the entries of a start tag; q: offset of the first byte after the element name ---- *)
(* offsets inside the entry written at q: start of the name, end of the name, start / end of the value *)
Definition e_start (q : N) (e : entry) : N := q + nlen (CstNs.l_ws (e_layout Sy e)).
Definition e_name_end (q : N) (e : entry) : N := e_start q e + nlen (CstNs.e_name (x_entry Sy (r_val Sy) e)).
Definition e_vstart (q : N) (e : entry) : N :=
  e_name_end q e + nlen (CstNs.l_ws1 (e_layout Sy e)) + 1 + nlen (CstNs.l_ws2 (e_layout Sy e)) + 1.
Definition e_vend (q : N) (e : entry) : N := e_vstart q e + nlen (r_val Sy (e_value Sy e)).

Definition entry_aspans (q : N) (e : entry) : list faspan :=
  match e with
  | EAttr _ n v =>
    [{| fa_range := (e_start q e, e_vend q e + 1);
        fa_qname := (e_start q e, e_name_end q e);
        fa_local := (e_start q e + fq_off n, e_name_end q e);
        fa_value := (e_vstart q e, e_vend q e);
        fa_store := vstore (e_vstart q e) v |}]
  | EDecl _ _ _ => []             (* a namespace declaration is not an attribute *)
  end.

(* a declaration: the (prefix, URI) pair it declares, and how it is stored.  xmlns:xml="..." (which
   can only declare the xml namespace) is not stored: the table has a built-in entry for it *)
Definition entry_decls (q : N) (e : entry) : list (Scope.binding * fnsdesc) :=
  match e with
  | EAttr _ _ _ => []
  | EDecl _ p v =>
    let key := (match p with [] => None | _ => Some (utf8s p) end, val_sem M v) in
    if Scope.bytes_eqb (utf8s p) Scope.xml_prefix then []
    else [(key, {| fn_prefix := match p with [] => None | _ => Some (e_start q e + 6, e_name_end q e) end;
                   fn_uri := vstore (e_vstart q e) v |})]
  end.

Fixpoint entries_aspans (q : N) (es : list entry) : list faspan :=
  match es with [] => [] | e :: r => entry_aspans q e ++ entries_aspans (q + nlen (r_entry e)) r end.
Fixpoint entries_decls (q : N) (es : list entry) : list (Scope.binding * fnsdesc) :=
  match es with [] => [] | e :: r => entry_decls q e ++ entries_decls (q + nlen (r_entry e)) r end.

(* ---- the items of a document in document order, each with the offset of its first byte ---- *)
Definition fstart_tag_len (name : qname) (es : list entry) (ws_end : bytes) : N :=
  1 + nlen (r_qname name) + nlen (flat_map r_entry es) + nlen ws_end + 1.

Fixpoint fitems_at (p : N) (i : item) : list (N * item) :=
  match i with
  | IElem name es ws_end body =>
    (p, i) ::
    match body with
    | None => []
    | Some (children, _) =>
      (fix go (q : N) (l : list item) : list (N * item) :=
         match l with [] => [] | c :: r => fitems_at q c ++ go (q + nlen (r_item c)) r end)
        (p + fstart_tag_len name es ws_end) children
    end
  | _ => [(p, i)]
  end.

Fixpoint fbefore_at (p : N) (l : list (item * bytes)) : list (N * item) :=
  match l with [] => [] | (i, w) :: r => fitems_at p i ++ fbefore_at (p + nlen (r_item i) + nlen w) r end.
Fixpoint fafter_at (p : N) (l : list (bytes * item)) : list (N * item) :=
  match l with [] => [] | (w, i) :: r => fitems_at (p + nlen w) i ++ fafter_at (p + nlen w + nlen (r_item i)) r end.

Definition fbefore_len (l : list (item * bytes)) : N := nlen (flat_map (fun p => r_item (fst p) ++ snd p) l).
Definition froot_offset (c : doc Sy) : N := nlen (d_ws0 c) + fbefore_len (d_before c).

Definition fdoc_items_at (c : doc Sy) : list (N * item) :=
  fbefore_at (nlen (d_ws0 c)) (d_before c) ++ fitems_at (froot_offset c) (d_root c)
  ++ fafter_at (froot_offset c + nlen (r_item (d_root c))) (d_after c).

(* ---- the node (range, what it holds) of an item written at p ---- *)
Definition fnode_of (x : N * item) : list ((N * N) * tshape) :=
  let p := fst x in
  match snd x with
  | IElem name _ _ _ =>
    [((p, p + nlen (r_item (snd x))), TSElem (p + 1 + fq_off name, p + 1 + nlen (r_qname name)))]
  | IText r => map (fun y => (fst y, TSText (snd y))) (run_nodes p r)
  | IComment cs => [((p, p + nlen (r_item (snd x))), TSComment (p + 4, p + 4 + nlen (utf8s cs)))]
  | IPI target sep value =>
    [((p, p + nlen (r_item (snd x))),
      TSPI (p + 2, p + 2 + nlen (utf8s target))
           (match value with
            | [] => None
            | _ => Some (p + 2 + nlen (utf8s target) + nlen sep,
                         p + 2 + nlen (utf8s target) + nlen sep + nlen (utf8s value))
            end))]
  end.

Definition fitem_aspans (x : N * item) : list faspan :=
  match snd x with
  | IElem name es _ _ => entries_aspans (fst x + 1 + nlen (r_qname name)) es
  | _ => []
  end.
Definition fitem_decls (x : N * item) : list (Scope.binding * fnsdesc) :=
  match snd x with
  | IElem name es _ _ => entries_decls (fst x + 1 + nlen (r_qname name)) es
  | _ => []
  end.

Definition fnodes (c : doc Sy) : list ((N * N) * tshape) := flat_map fnode_of (fdoc_items_at c).
(* (1) the ranges of the nodes below the Root, in document order *)
Definition fspans (c : doc Sy) : list (N * N) := map fst (fnodes c).
(* (2) what they hold *)
Definition fshapes (c : doc Sy) : list tshape := map snd (fnodes c).
(* the ordinary attributes of all elements, in document order *)
Definition fattr_spans (c : doc Sy) : list faspan := flat_map fitem_aspans (fdoc_items_at c).
(* all namespace declarations, in document order *)
Definition fdoc_decls (c : doc Sy) : list (Scope.binding * fnsdesc) := flat_map fitem_decls (fdoc_items_at c).

End FrameR.

(* ---- the namespace table: one entry per DISTINCT declared (prefix, URI) pair, the first one ---- *)
Definition key_eqb (a b : Scope.binding) : bool :=
  Scope.prefix_eqb (fst a) (fst b) && Scope.bytes_eqb (snd a) (snd b).

Fixpoint dedupe {A} (seen : list Scope.binding) (l : list (Scope.binding * A)) : list (Scope.binding * A) :=
  match l with
  | [] => []
  | (k, d) :: r =>
    if existsb (fun s => key_eqb s k) seen then dedupe seen r else (k, d) :: dedupe (seen ++ [k]) r
  end.

(* the built-in entry *)
Definition xml_binding : Scope.binding := (Some Scope.xml_prefix, Scope.xml_uri).

(* the entries of the table after the built-in one *)
Definition fns_table (Sy : syntax) (M : meaning Sy) (vstore : N -> val Sy -> tstore) (c : doc Sy) : list fnsdesc :=
  map snd (dedupe [xml_binding] (fdoc_decls Sy M vstore c)).

(* below the saturation limits of the stored lengths: the qualified name is at most 65535 bytes long,
   and there are at most 254 bytes of white space around '=' *)
Definition faspan_small (s : faspan) : Prop :=
  snd (fa_qname s) - fst (fa_qname s) <= 65535 /\ fst (fa_value s) - 1 - snd (fa_qname s) <= 255.

(* ------------------------------------------------------------------------------------------ *)
(* stage S2: values and runs are piece lists                                                   *)
(* ------------------------------------------------------------------------------------------ *)
Definition needs_norm_b (V : bytes) : bool :=
  existsb (fun x => (x =? 38) || (x =? 9) || (x =? 10) || (x =? 13)) V.

(* a value written without '&', TAB, LF, CR (then it is one literal, or empty) is stored as the slice
   of the input between the quotes; otherwise as new bytes: the normalised value *)
Definition vstore2 (p : N) (v : val pieces) : tstore :=
  if needs_norm_b (r_val pieces v) then TOwned (val_sem pieces_meaning v)
  else TBorrowed (p, p + nlen (r_val pieces v)).

(* a run: ONE Text node; it keeps the range of the first segment of the run (CstRangeTDefs); it is
   Borrowed iff the run is one literal without CR or one CDATA section without CR *)
Definition run_nodes2 (p : N) (r : run pieces) : list ((N * N) * tstore) :=
  [((p, p + run_head_len (enc_pieces r)), text_store p (enc_pieces r))].

Definition fspans2 (c : S2.doc) : list (N * N) := fspans pieces run_nodes2 c.
Definition fshapes2 (c : S2.doc) : list tshape := fshapes pieces run_nodes2 c.
Definition fattr_spans2 (c : S2.doc) : list faspan := fattr_spans pieces vstore2 c.
Definition fns_table2 (c : S2.doc) : list fnsdesc := fns_table pieces pieces_meaning vstore2 c.
Definition fattrs_small2 (c : S2.doc) : Prop := Forall faspan_small (fattr_spans2 c).
