(* Proofs/CstRangeItems.v -- C13 / C18 on the fragment, part 3: the induction of CstItems.v once
   more, with a post-condition that also observes where things are: the exact slices of the new
   nodes, the exact new attributes, and the ranges of the new nodes.  (The scripts are those of
   CstItems.v, extended; CstItems.v itself is not modified.) *)
From Coq Require Import Ascii String.
From Coq Require Import List NArith PeanoNat Bool Lia ZifyBool ZifyN ZifyNat.
Import ListNotations.
From RX Require Import Generated.
From RX.Model Require Import Base CharClass Stream Tokenizer Doc Builder Parse.
From RX.Spec Require Cst.
From RX.Proofs Require Import Tactics CstLex CstBuild CstTree CstItems CstRangeDefs CstRangeBuild.
Open Scope N_scope.

(* ---- what is observed ---- *)
Definition pr (s : slice) : N * N := (sl_start s, sl_end s).

Definition kshape (k : node_kind) (sh : nshape) : Prop :=
  match k, sh with
  | KElement ns l _ _, SElem sp => ns = None /\ pr l = sp
  | KText (Borrowed (SIn s)), SText sp => pr s = sp
  | KComment s, SComment sp => pr s = sp
  | KPI t v, SPI tsp vsp =>
    pr t = tsp /\ match v, vsp with
                  | Some s, Some sp => pr s = sp
                  | None, None => True
                  | _, _ => False
                  end
  | _, _ => False
  end.

Definition item_ads (x : N * Cst.item) : list attr_data :=
  match snd x with
  | Cst.IElem name attrs _ _ => map ad_of (tas (fst x + 1 + blen name) attrs)
  | _ => []
  end.

Fixpoint items_list (q : N) (l : list Cst.item) : list (N * Cst.item) :=
  match l with [] => [] | c :: r => items_at q c ++ items_list (q + nlen (Cst.r_item c)) r end.

Lemma items_at_elem p name attrs ws body :
  items_at p (Cst.IElem name attrs ws body) =
  (p, Cst.IElem name attrs ws body) ::
  match body with None => [] | Some (cs, _) => items_list (p + start_tag_len name attrs ws) cs end.
Proof.
  destruct body as [[cs w2]|]; reflexivity.
Qed.

(* the observations on the items [L] (with their offsets) *)
Definition Extra (L : list (N * Cst.item)) (c c' : context) (K : list row) (ext : list attr_data) : Prop :=
  Forall2 kshape (map snd K) (map shape_of L) /\ ext = flat_map item_ads L /\
  rng c' = rng c ++ map span_of L.

Lemma Extra_app L1 L2 c1 c2 c3 K1 K2 e1 e2 :
  Extra L1 c1 c2 K1 e1 -> Extra L2 c2 c3 K2 e2 -> Extra (L1 ++ L2) c1 c3 (K1 ++ K2) (e1 ++ e2).
Proof.
  intros (A1 & A2 & A3) (B1 & B2 & B3). split; [|split].
  - rewrite !map_app. apply Forall2_app; assumption.
  - rewrite flat_map_app. congruence.
  - rewrite B3, A3, map_app, app_assoc. reflexivity.
Qed.

Lemma nlen_eq (l : bytes) : nlen l = blen l.
Proof. reflexivity. Qed.

Section Items.
Variable text : bytes.
Hypothesis Hascii : Forall (fun x => x < 128) text.

Notation ev := (tok_ev text).
Notation loop := (parse_content_loop text context (tok_ev text)).
Notation st := (CstLex.st text).
Notation W := (CstLex.W text).
Notation Post := (CstItems.Post text).

Definition PIr (i : Cst.item) : Prop :=
  forall p post c depth fuel,
    Cst.wf_item i = true -> W p (Cst.r_item i ++ post) ->
    (Cst.is_text i = true -> text_stop post) ->
    CI c -> (Cst.is_text i = true -> c_after_text c = []) ->
    node_room c (nsize i) -> attr_room c (nattrs i) ->
    exists c' K ext,
      loop (steps i + fuel) depth (st p (Cst.r_item i ++ post)) c =
      loop fuel depth (st (p + blen (Cst.r_item i)) post) c' /\
      Post i c c' K ext /\ Extra (items_at p i) c c' K ext.

Lemma ev_comment_r bs p post c : Cst.wf_item (Cst.IComment bs) = true ->
  W p (Cst.r_item (Cst.IComment bs) ++ post) -> CI c -> room c ->
  exists c' K,
    parse_comment text context ev (st p (Cst.r_item (Cst.IComment bs) ++ post)) c =
    Ok (st (p + blen (Cst.r_item (Cst.IComment bs))) post, c') /\ Post (Cst.IComment bs) c c' K [] /\
    Extra [(p, Cst.IComment bs)] c c' K [].
Proof.
  intros Hwf HW I R. apply wf_comment in Hwf.
  cbn [Cst.r_item] in *. rewrite <- !app_assoc in *.
  rewrite lex_comment by assumption.
  destruct (tok_comment text (sl (p + 4) (p + 4 + blen bs)) (p, p + 4 + blen bs + 3) c I R)
    as (c' & E & S & I' & A & T).
  rewrite E. cbn [bind].
  exists c', [(Some (c_parent_id c), KComment (sl (p + 4) (p + 4 + blen bs)))].
  split; [|split].
  - f_equal. f_equal. f_equal. rewrite !blen_app. change (blen [60; 33; 45; 45]) with 4. change (blen [45; 45; 62]) with 3. lia.
  - split; [exact S|]. split; [exact I'|]. split; [intros _; exact A|]. split; [apply same_tn; exact T|].
    split; [discriminate|]. split; [|reflexivity].
    cbn [tag]. constructor; [|constructor]. split; [reflexivity|]. cbn [snd].
    pose proof (W_app _ _ _ _ HW) as HW1. change (blen [60; 33; 45; 45]) with 4 in HW1.
    apply (W_slice _ _ _ _ HW1).
  - split; [|split].
    + cbn. constructor; [reflexivity|constructor].
    + reflexivity.
    + rewrite (comment_rng text _ _ _ _ E). cbn [map]. unfold span_of. cbn [fst snd Cst.r_item].
      unfold nlen, blen. rewrite !app_length. cbn [length]. do 3 f_equal. lia.
Qed.

Lemma PI_comment_r bs : PIr (Cst.IComment bs).
Proof.
  intros p post c depth fuel Hwf HW _ I _ NR _.
  destruct (ev_comment_r bs p post c Hwf HW I (node_room_room _ _ NR (nsize_pos _))) as (c' & K & E & HP & HX).
  exists c', K, []. split; [|split; [exact HP|exact HX]].
  cbn [steps Nat.add]. cbn [Cst.r_item] in *. rewrite <- !app_assoc in *.
  rewrite loop_comment by exact HW. rewrite E. reflexivity.
Qed.

Lemma ev_pi_r t s v p post c : Cst.wf_item (Cst.IPI t s v) = true ->
  W p (Cst.r_item (Cst.IPI t s v) ++ post) -> CI c -> room c ->
  exists c' K,
    parse_pi text context ev (st p (Cst.r_item (Cst.IPI t s v) ++ post)) c =
    Ok (st (p + blen (Cst.r_item (Cst.IPI t s v))) post, c') /\ Post (Cst.IPI t s v) c c' K [] /\
    Extra [(p, Cst.IPI t s v)] c c' K [].
Proof.
  intros Hwf HW I R. apply wf_pi in Hwf.
  cbn [Cst.r_item] in *. rewrite <- !app_assoc in *.
  rewrite lex_pi by assumption. cbv zeta.
  set (vs := match v with [] => None | _ :: _ => Some (sl (p + 2 + blen t + blen s) (p + 2 + blen t + blen s + blen v)) end).
  destruct (tok_pi text (sl (p + 2) (p + 2 + blen t)) vs (p, p + 2 + blen t + blen s + blen v + 2) c I R)
    as (c' & E & S & I' & A & T).
  rewrite E. cbn [bind].
  exists c', [(Some (c_parent_id c), KPI (sl (p + 2) (p + 2 + blen t)) vs)].
  split; [|split].
  - f_equal. f_equal. f_equal. rewrite !blen_app. change (blen [60; 63]) with 2. change (blen [63; 62]) with 2. lia.
  - split; [exact S|]. split; [exact I'|]. split; [intros _; exact A|]. split; [apply same_tn; exact T|].
    split; [discriminate|]. split; [|reflexivity].
    cbn [tag]. constructor; [|constructor]. split; [reflexivity|]. cbn [snd].
    pose proof (W_app _ _ _ _ HW) as HW1. change (blen [60; 63]) with 2 in HW1.
    split; [apply (W_slice _ _ _ _ HW1)|].
    pose proof (W_app _ _ _ _ HW1) as HW2. pose proof (W_app _ _ _ _ HW2) as HW3.
    unfold vs. destruct v as [|x v]; [exact Logic.I|]. apply (W_slice _ _ _ _ HW3).
  - split; [|split].
    + cbn [map snd shape_of fst]. constructor; [|constructor]. cbn [kshape]. split; [reflexivity|].
      unfold vs. destruct v; [exact Logic.I|]. reflexivity.
    + reflexivity.
    + rewrite (pi_rng text _ _ _ _ _ E). cbn [map]. unfold span_of. cbn [fst snd Cst.r_item].
      unfold nlen, blen. rewrite !app_length. cbn [length]. do 3 f_equal. lia.
Qed.

Lemma PI_pi_r t s v : PIr (Cst.IPI t s v).
Proof.
  intros p post c depth fuel Hwf HW _ I _ NR _.
  destruct (ev_pi_r t s v p post c Hwf HW I (node_room_room _ _ NR (nsize_pos _))) as (c' & K & E & HP & HX).
  exists c', K, []. split; [|split; [exact HP|exact HX]].
  cbn [steps Nat.add]. cbn [Cst.r_item] in *. rewrite <- !app_assoc in *.
  rewrite loop_pi by exact HW. rewrite E. reflexivity.
Qed.

Lemma PI_text_r bs : PIr (Cst.IText bs).
Proof.
  intros p post c depth fuel Hwf HW Hstop I Hat NR _. destruct (wf_text _ Hwf) as (Hok & Hne & Hex).
  cbn [Cst.r_item] in *. specialize (Hstop eq_refl). specialize (Hat eq_refl).
  cbn [steps Nat.add].
  destruct bs as [|x r]; [congruence|].
  assert (Hx : x <> 60).
  { destruct Hok as [Hok _]. cbn [forallb] in Hok. lia. }
  change ((x :: r) ++ post) with (x :: r ++ post) in *. rewrite loop_text by assumption.
  change (x :: r ++ post) with ((x :: r) ++ post) in *.
  rewrite lex_text by assumption.
  destruct (tok_text text (sl p (p + blen (x :: r))) (p, p + blen (x :: r)) c I)
    as (c' & E & S & I' & T); [apply (node_room_room _ _ NR (nsize_pos _))|exact Hat| |].
  { rewrite (W_slice _ _ _ _ HW). exact Hex. }
  rewrite E. cbn [bind].
  exists c', [(Some (c_parent_id c), KText (Borrowed (SIn (sl p (p + blen (x :: r))))))], [].
  split; [reflexivity|]. split.
  { split; [exact S|]. split; [exact I'|]. split; [discriminate|]. split; [apply same_tn; exact T|].
    split; [discriminate|]. split; [|reflexivity].
    cbn [tag]. constructor; [|constructor]. split; [reflexivity|]. cbn [snd storage_bytes str_bytes].
    apply (W_slice _ _ _ _ HW). }
  split; [|split].
  - cbn. constructor; [reflexivity|constructor].
  - reflexivity.
  - rewrite (text_rng text _ _ _ _ Hat ltac:(rewrite (W_slice _ _ _ _ HW); exact Hex) E). reflexivity.
Qed.

(* lengths of renderings, for the arithmetic on offsets *)
Lemma span_elem_empty p name attrs ws :
  span_of (p, Cst.IElem name attrs ws None) =
  (p, p + 1 + blen name + blen (flat_map Cst.r_attr attrs) + blen ws + 2).
Proof.
  unfold span_of. cbn [fst snd]. rewrite r_item_elem. unfold nlen, blen. rewrite !app_length. cbn [length].
  f_equal. lia.
Qed.

Lemma span_elem_open p name attrs ws cs ws2 :
  span_of (p, Cst.IElem name attrs ws (Some (cs, ws2))) =
  (p, p + 1 + blen name + blen (flat_map Cst.r_attr attrs) + blen ws + 1 + blen (r_items cs) + 2 + blen name + blen ws2 + 1).
Proof.
  unfold span_of. cbn [fst snd]. rewrite r_item_elem. unfold nlen, blen. rewrite !app_length. cbn [length].
  f_equal. lia.
Qed.

Lemma PI_empty_r name attrs ws : PIr (Cst.IElem name attrs ws None).
Proof.
  intros p post c depth fuel Hwf HW _ I _ NR AR.
  destruct (wf_elem_parts _ _ _ _ Hwf) as (Hn & Ha & Hx & Hd & Hw & _). clear Hwf.
  rewrite r_item_elem in *. rewrite <- !app_assoc in HW |- *.
  change ([47; 62] ++ post) with (tag_tail true ++ post) in *.
  cbn [steps Nat.add]. rewrite loop_elem' by assumption.
  rewrite lex_element by assumption. cbv zeta.
  rewrite nattrs_elem, Nat.add_0_r in AR.
  destruct (start_tag_ok text p name attrs ws true post c HW (wf_name_ne _ Hn) Ha Hx Hd I)
    as (c' & ar & E & S & Hkm & I' & A & T & P1 & P2);
    [apply (node_room_room _ _ NR (nsize_pos _))|unfold attr_room, len_N in *; lia|].
  cbv zeta in E. pose proof E as E00. unfold tok_ev in E00. apply bind_ok in E. destruct E as (c1 & E1 & E2).
  rewrite E1. cbn [bind]. rewrite E2. cbn [bind negb].
  exists c', [(Some (c_parent_id c), KElement None (sl (p + 1) (p + 1 + blen name)) ar (1, 1))],
    (map ad_of (tas (p + 1 + blen name) attrs)).
  split.
  - f_equal. f_equal. rewrite !blen_app. change (blen [60]) with 1. change (blen (tag_tail true)) with 2.
    change (blen [47; 62]) with 2. lia.
  - split.
    { split; [split; [exact S|split; assumption]|]. split; [exact I'|]. split; [intros _; exact A|].
      split; [intros _; exact T|]. split; [intros _; exact T|]. split.
      + cbn [tag]. constructor; [|constructor]. apply Hkm.
      + rewrite map_length, nattrs_elem, Nat.add_0_r. pose proof (tas_len attrs (p + 1 + blen name)) as L.
        unfold len_N in L. lia. }
    rewrite items_at_elem. split; [|split].
    + cbn. constructor; [split; reflexivity|constructor].
    + cbn [flat_map item_ads snd fst]. rewrite app_nil_r. reflexivity.
    + rewrite (start_tag_rng text _ _ _ _ _ _ _ E00). cbn [map]. rewrite span_elem_empty. reflexivity.
Qed.

(* ---- lists of children ---- *)
Definition PLr (cs : list Cst.item) : Prop :=
  forall p post c depth fuel,
    wf_items cs = true -> Cst.no_adjacent_text cs = true -> W p (r_items cs ++ post) -> text_stop post ->
    CI c -> head_text_ok cs c -> node_room c (nsizes cs) -> attr_room c (nattrs_items cs) ->
    exists c' K ext,
      loop (steps_list cs + fuel) depth (st p (r_items cs ++ post)) c =
      loop fuel depth (st (p + blen (r_items cs)) post) c' /\
      Step c c' K ext /\ CI c' /\ (tn_set c -> tn_set c') /\
      Forall2 (km text (d_attrs (c_doc c'))) K (tag_list (c_parent_id c) (len_N (d_nodes (c_doc c))) cs) /\
      length ext = nattrs_items cs /\ Extra (items_list p cs) c c' K ext.

Lemma PL_of_r cs : Forall PIr cs -> PLr cs.
Proof.
  induction 1 as [|i r Hi _ IH]; intros p post c depth fuel Hwf Hna HW Hstop I Hhd NR AR.
  - exists c, [], []. cbn [steps_list r_items app Nat.add blen length] in *.
    change (N.of_nat 0) with 0. rewrite N.add_0_r.
    split; [reflexivity|]. split; [apply Step_refl|]. split; [exact I|]. split; [auto|].
    split; [constructor|]. split; [reflexivity|].
    split; [constructor|]. split; [reflexivity|]. cbn [items_list map]. rewrite app_nil_r. reflexivity.
  - cbn [wf_items] in Hwf. apply andb_true_iff in Hwf. destruct Hwf as [Hw1 Hw2].
    cbn [r_items] in HW |- *. rewrite <- app_assoc in HW |- *.
    rewrite nsizes_cons in NR. cbn [nattrs_items] in AR.
    assert (Hna2 : Cst.no_adjacent_text r = true).
    { destruct r as [|d r']; [reflexivity|]. cbn [Cst.no_adjacent_text] in Hna.
      apply andb_true_iff in Hna. apply Hna. }
    assert (Hnext : forall d r', r = d :: r' -> Cst.is_text i = true -> Cst.is_text d = false).
    { intros d r' -> Hi1. cbn [Cst.no_adjacent_text] in Hna. apply andb_true_iff in Hna.
      destruct Hna as [Hna _]. rewrite Hi1 in Hna. cbn [andb] in Hna. apply negb_true_iff in Hna. exact Hna. }
    assert (Hfollow : Cst.is_text i = true -> text_stop (r_items r ++ post)).
    { intros Hi1. destruct r as [|d r']; [exact Hstop|].
      destruct (nontext_starts d (Hnext d r' eq_refl Hi1)) as [l El].
      cbn [r_items]. rewrite El. reflexivity. }
    destruct (Hi p (r_items r ++ post) c depth (steps_list r + fuel)%nat Hw1 HW Hfollow I Hhd)
      as (c1 & K1 & e1 & E1 & (S1 & I1 & A1 & T1 & _ & F1 & L1) & X1).
    { unfold node_room in *. lia. }
    { unfold attr_room in *. lia. }
    pose proof (Step_nodes_len _ _ _ _ S1) as Ln1.
    rewrite (Forall2_len_N _ _ _ F1) in Ln1. unfold len_N at 3 in Ln1. rewrite tag_len in Ln1.
    pose proof (Step_attrs_len _ _ _ _ (proj1 S1)) as La1. unfold len_N at 3 in La1. rewrite L1 in La1.
    pose proof (Step_opt _ _ _ _ (proj1 S1)) as Lo1.
    destruct (IH (p + blen (Cst.r_item i)) post c1 depth fuel Hw2 Hna2 (W_app _ _ _ _ HW) Hstop I1)
      as (c2 & K2 & e2 & E2 & S2 & I2 & T2 & F2 & L2 & X2).
    { destruct r as [|d r']; [exact Logic.I|]. cbn [head_text_ok]. intros Hd. apply A1.
      destruct (Cst.is_text i) eqn:Ei; [|reflexivity].
      rewrite (Hnext d r' eq_refl eq_refl) in Hd. discriminate. }
    { unfold node_room in *. rewrite Ln1, Lo1. lia. }
    { unfold attr_room in *. rewrite La1. lia. }
    exists c2, (K1 ++ K2), (e1 ++ e2). split.
    { cbn [steps_list]. rewrite <- Nat.add_assoc, E1, E2. f_equal. f_equal. rewrite blen_app. lia. }
    split; [eapply Step_trans; eassumption|]. split; [exact I2|]. split; [auto|]. split.
    + cbn [tag_list]. apply Forall2_app.
      * rewrite (s_attrs _ _ _ _ (proj1 S2)). apply km_Forall2_ext. exact F1.
      * destruct S1 as (_ & P1 & _). rewrite P1, Ln1 in F2. exact F2.
    + split; [rewrite app_length, L1, L2; reflexivity|]. cbn [items_list]. eapply Extra_app; eassumption.
Qed.

Ltac clia := repeat match goal with H : @eq bool _ true |- _ => clear H end; lia.

Lemma PI_open_r name attrs ws cs ws2 : PLr cs -> PIr (Cst.IElem name attrs ws (Some (cs, ws2))).
Proof.
  intros HPL p post c depth fuel Hwf HW _ I _ NR AR.
  destruct (wf_elem_parts _ _ _ _ Hwf) as (Hn & Ha & Hx & Hd & Hw & Hw2 & Hna & Hcs). clear Hwf.
  rewrite r_item_elem in *. rewrite <- !app_assoc in HW |- *.
  set (post2 := [60; 47] ++ name ++ ws2 ++ [62] ++ post) in *.
  change ([62] ++ r_items cs ++ post2) with (tag_tail false ++ (r_items cs ++ post2)) in *.
  rewrite nsize_elem in NR. rewrite nattrs_elem in AR.
  rewrite steps_elem. cbn [Nat.add]. rewrite loop_elem' by assumption.
  rewrite lex_element by assumption. cbv zeta.
  destruct (start_tag_ok text p name attrs ws false (r_items cs ++ post2) c HW (wf_name_ne _ Hn) Ha Hx Hd I)
    as (c1 & ar & E & S1 & Hkm & I1 & A1 & T1 & P1 & P2 & P3);
    [unfold node_room, room in *; clia|unfold attr_room, len_N in *; clia|].
  cbv zeta in E. pose proof E as E00. unfold tok_ev in E00. apply bind_ok in E. destruct E as (c0 & E0 & E1).
  rewrite E0. cbn [bind]. rewrite E1. cbn [bind negb]. clear E0 E1 c0.
  (* positions *)
  pose proof (W_app _ _ _ _ HW) as HW1. change (blen [60]) with 1 in HW1.
  pose proof (W_app _ _ _ _ HW1) as HW2. pose proof (W_app _ _ _ _ HW2) as HW3.
  pose proof (W_app _ _ _ _ HW3) as HW4. pose proof (W_app _ _ _ _ HW4) as HW5.
  set (q := p + 1 + blen name + blen (flat_map Cst.r_attr attrs) + blen ws + blen (tag_tail false)) in *.
  (* the context after the start tag *)
  pose proof (Step0_len _ _ _ _ S1) as Ln1. change (len_N [_]) with 1 in Ln1.
  pose proof (Step_attrs_len _ _ _ _ S1) as La1. rewrite len_N_map, tas_len in La1.
  pose proof (Step_opt _ _ _ _ S1) as Lo1.
  replace (steps_list cs + 1 + fuel)%nat with (steps_list cs + S fuel)%nat by clia.
  destruct (HPL q post2 c1 (depth + 1) (S fuel) Hcs Hna HW5 eq_refl I1)
    as (c2 & K2 & e2 & E2 & S2 & I2 & T2 & F2 & L2 & X2).
  { destruct cs; [exact Logic.I|]. intros _. exact A1. }
  { unfold node_room in *. rewrite Ln1, Lo1. clia. }
  { unfold attr_room, len_N in *. rewrite La1. clia. }
  rewrite E2. clear E2.
  pose proof (W_app _ _ _ _ HW5) as HW6. set (e := q + blen (r_items cs)) in *.
  unfold post2 in HW6 |- *. rewrite loop_close by exact HW6.
  rewrite lex_close by assumption. cbv zeta.
  destruct S2 as (S2 & Pid2 & Pp2).
  pose proof (W_app _ _ _ _ HW6) as HW7. change (blen [60; 47]) with 2 in HW7.
  destruct (close_tag_ok text (sl (e + 2) (e + 2)) (sl (e + 2) (e + 2 + blen name))
              (e, e + 2 + blen name + blen ws2 + 1) c2 (c_parent_id c) None
              (sl (p + 1) (p + 1 + blen name)) ar (1, 1) name (c_parent_prefixes c) (sl (p + 1) (p + 1)) I2)
    as (c3 & E3 & S3 & I3 & Pid3 & Pp3 & A3 & Tn3).
  { rewrite Pid2, P1, (s_nodes _ _ _ _ S2), (s_nodes _ _ _ _ S1).
    replace (N.to_nat (len_N (d_nodes (c_doc c)))) with (length (absn (c_doc c)))
      by (unfold absn, len_N; rewrite map_length; clia).
    rewrite <- app_assoc, nth_error_app2 by clia. rewrite Nat.sub_diag. reflexivity. }
  { apply (W_slice _ _ _ _ HW1). }
  { apply (W_slice _ _ _ _ HW7). }
  { apply slice_empty. }
  { rewrite Pp2, P2. reflexivity. }
  { apply (ci_pp _ I). }
  { apply slice_empty. }
  { apply T2. exact T1. }
  { rewrite (Step0_len _ _ _ _ S2), Ln1. pose proof (ci_pid _ I). clia. }
  { destruct (ci_par _ I) as (par & k & Ep & Hk). exists par, k. split; [|exact Hk].
    rewrite (s_nodes _ _ _ _ S2), (s_nodes _ _ _ _ S1), <- app_assoc.
    rewrite nth_error_app1; [exact Ep|].
    pose proof (ci_pid _ I) as Hp. rewrite <- absn_len in Hp. unfold len_N in Hp. clia. }
  rewrite E3. cbn [bind]. replace (depth + 1 =? 0) with false by clia.
  replace (depth + 1 - 1) with depth by clia.
  exists c3, ((Some (c_parent_id c), KElement None (sl (p + 1) (p + 1 + blen name)) ar (1, 1)) :: K2),
    (map ad_of (tas (p + 1 + blen name) attrs) ++ e2).
  split.
  { f_equal. f_equal. unfold e, q. rewrite !blen_app. change (blen [60]) with 1. change (blen [60; 47]) with 2.
    change (blen [62]) with 1. change (blen (tag_tail false)) with 1. clear. clia. }
  pose proof (Step0_trans _ _ _ _ _ _ _ (Step0_trans _ _ _ _ _ _ _ S1 S2) S3) as S13.
  rewrite !app_nil_r in S13. cbn [app] in S13.
  split.
  { split; [split; [exact S13|split; [exact Pid3|exact Pp3]]|]. split; [exact I3|].
    split; [intros _; exact A3|].
    assert (T3 : tn_set c3) by (apply (same_tn _ _ Tn3); apply T2; exact T1).
    split; [intros _; exact T3|]. split; [intros _; exact T3|]. split.
    - rewrite tag_elem. rewrite (s_attrs _ _ _ _ S3), app_nil_r. constructor.
      + rewrite (s_attrs _ _ _ _ S2). apply km_ext. apply Hkm.
      + rewrite P1, Ln1 in F2. exact F2.
    - rewrite app_length, map_length, L2, nattrs_elem. pose proof (tas_len attrs (p + 1 + blen name)) as L.
      unfold len_N in L. clia. }
  (* where things are *)
  destruct X2 as (X2a & X2b & X2c).
  pose proof (start_tag_rng text _ _ _ _ _ _ _ E00) as X1c.
  rewrite items_at_elem.
  replace (p + start_tag_len name attrs ws) with q
    by (unfold q, start_tag_len, nlen, blen; change (length (tag_tail false)) with 1%nat; clear; lia).
  split; [|split].
  - cbn [map snd shape_of fst]. constructor; [split; reflexivity|exact X2a].
  - cbn [flat_map item_ads snd fst]. rewrite X2b. reflexivity.
  - cbn [map]. rewrite span_elem_open.
    assert (Er2 : rng c2 = rng c ++ (p, q) :: map span_of (items_list q cs)).
    { rewrite X2c, X1c, <- app_assoc. reflexivity. }
    rewrite (close_rng text _ _ _ _ _ _ _ _ E3 Er2).
    + cbn [fst snd].
      assert (Eq : e + 2 + blen name + blen ws2 + 1 =
                   p + 1 + blen name + blen (flat_map Cst.r_attr attrs) + blen ws + 1 +
                   blen (r_items cs) + 2 + blen name + blen ws2 + 1)
        by (unfold e, q; change (blen (tag_tail false)) with 1; clear; lia).
      rewrite Eq. reflexivity.
    + rewrite Pid2, P1. unfold rng, len_N. rewrite map_length. clear. lia.
Qed.

Theorem PI_all_r : forall i, PIr i.
Proof.
  intros i. induction i as [n a w|n a w cs w2 IH|bs|bs|t s v] using item_ind'.
  - apply PI_empty_r.
  - apply PI_open_r. apply PL_of_r. exact IH.
  - apply PI_text_r.
  - apply PI_comment_r.
  - apply PI_pi_r.
Qed.

Theorem PL_all_r : forall cs, PLr cs.
Proof. intros cs. apply PL_of_r. apply Forall_forall. intros i _. apply PI_all_r. Qed.

Lemma root_ok_r name attrs ws body p post c :
  Cst.wf_item (Cst.IElem name attrs ws body) = true ->
  W p (Cst.r_item (Cst.IElem name attrs ws body) ++ post) ->
  CI c -> node_room c (nsize (Cst.IElem name attrs ws body)) ->
  attr_room c (nattrs (Cst.IElem name attrs ws body)) ->
  exists c' K ext,
    (let! (open, s, c) := parse_element text context ev
                            (st p (Cst.r_item (Cst.IElem name attrs ws body) ++ post)) c in
     if open then parse_content text context ev s c else Ok (s, c)) =
    Ok (st (p + blen (Cst.r_item (Cst.IElem name attrs ws body))) post, c') /\
    Post (Cst.IElem name attrs ws body) c c' K ext /\
    Extra (items_at p (Cst.IElem name attrs ws body)) c c' K ext.
Proof.
  intros Hwf HW I NR AR. destruct body as [[cs ws2]|].
  - (* open *)
    destruct (wf_elem_parts _ _ _ _ Hwf) as (Hn & Ha & Hx & Hd & Hw & Hw2 & Hna & Hcs). clear Hwf.
    rewrite r_item_elem in *. rewrite <- !app_assoc in HW |- *.
    set (post2 := [60; 47] ++ name ++ ws2 ++ [62] ++ post) in *.
    change ([62] ++ r_items cs ++ post2) with (tag_tail false ++ (r_items cs ++ post2)) in *.
    rewrite nsize_elem in NR. rewrite nattrs_elem in AR.
    rewrite lex_element by assumption. cbv zeta.
    destruct (start_tag_ok text p name attrs ws false (r_items cs ++ post2) c HW (wf_name_ne _ Hn) Ha Hx Hd I)
      as (c1 & ar & E & S1 & Hkm & I1 & A1 & T1 & P1 & P2 & P3);
      [unfold node_room, room in *; clia|unfold attr_room, len_N in *; clia|].
    cbv zeta in E. pose proof E as E00. unfold tok_ev in E00. apply bind_ok in E. destruct E as (c0 & E0 & E1).
    rewrite E0. cbn [bind]. rewrite E1. cbn [bind negb]. clear E0 E1 c0.
    pose proof (W_app _ _ _ _ HW) as HW1. change (blen [60]) with 1 in HW1.
    pose proof (W_app _ _ _ _ HW1) as HW2. pose proof (W_app _ _ _ _ HW2) as HW3.
    pose proof (W_app _ _ _ _ HW3) as HW4. pose proof (W_app _ _ _ _ HW4) as HW5.
    set (q := p + 1 + blen name + blen (flat_map Cst.r_attr attrs) + blen ws + blen (tag_tail false)) in *.
    pose proof (Step0_len _ _ _ _ S1) as Ln1. change (len_N [_]) with 1 in Ln1.
    pose proof (Step_attrs_len _ _ _ _ S1) as La1. rewrite len_N_map, tas_len in La1.
    pose proof (Step_opt _ _ _ _ S1) as Lo1.
    unfold parse_content. cbn [CstLex.st s_rest].
    pose proof (steps_list_le cs Hcs) as Hst.
    replace (S (length (r_items cs ++ post2)))
      with (steps_list cs + S (length (r_items cs ++ post2) - steps_list cs))%nat
      by (rewrite app_length; clia).
    fold (st q (r_items cs ++ post2)).
    destruct (PL_all_r cs q post2 c1 0 (S (length (r_items cs ++ post2) - steps_list cs)) Hcs Hna HW5 eq_refl I1)
      as (c2 & K2 & e2 & E2 & S2 & I2 & T2 & F2 & L2 & X2).
    { destruct cs; [exact Logic.I|]. intros _. exact A1. }
    { unfold node_room in *. rewrite Ln1, Lo1. clia. }
    { unfold attr_room, len_N in *. rewrite La1. clia. }
    rewrite E2. clear E2.
    pose proof (W_app _ _ _ _ HW5) as HW6. set (e := q + blen (r_items cs)) in *.
    unfold post2 in HW6 |- *. rewrite loop_close by exact HW6.
    rewrite lex_close by assumption. cbv zeta.
    destruct S2 as (S2 & Pid2 & Pp2).
    pose proof (W_app _ _ _ _ HW6) as HW7. change (blen [60; 47]) with 2 in HW7.
    destruct (close_tag_ok text (sl (e + 2) (e + 2)) (sl (e + 2) (e + 2 + blen name))
                (e, e + 2 + blen name + blen ws2 + 1) c2 (c_parent_id c) None
                (sl (p + 1) (p + 1 + blen name)) ar (1, 1) name (c_parent_prefixes c) (sl (p + 1) (p + 1)) I2)
      as (c3 & E3 & S3 & I3 & Pid3 & Pp3 & A3 & Tn3).
    { rewrite Pid2, P1, (s_nodes _ _ _ _ S2), (s_nodes _ _ _ _ S1).
      replace (N.to_nat (len_N (d_nodes (c_doc c)))) with (length (absn (c_doc c)))
        by (unfold absn, len_N; rewrite map_length; clia).
      rewrite <- app_assoc, nth_error_app2 by clia. rewrite Nat.sub_diag. reflexivity. }
    { apply (W_slice _ _ _ _ HW1). }
    { apply (W_slice _ _ _ _ HW7). }
    { apply slice_empty. }
    { rewrite Pp2, P2. reflexivity. }
    { apply (ci_pp _ I). }
    { apply slice_empty. }
    { apply T2. exact T1. }
    { rewrite (Step0_len _ _ _ _ S2), Ln1. pose proof (ci_pid _ I). clia. }
    { destruct (ci_par _ I) as (par & k & Ep & Hk). exists par, k. split; [|exact Hk].
      rewrite (s_nodes _ _ _ _ S2), (s_nodes _ _ _ _ S1), <- app_assoc.
      rewrite nth_error_app1; [exact Ep|].
      pose proof (ci_pid _ I) as Hp. rewrite <- absn_len in Hp. unfold len_N in Hp. clia. }
    rewrite E3. cbn [bind]. change (0 =? 0) with true. cbv iota.
    exists c3, ((Some (c_parent_id c), KElement None (sl (p + 1) (p + 1 + blen name)) ar (1, 1)) :: K2),
      (map ad_of (tas (p + 1 + blen name) attrs) ++ e2).
    split.
    { f_equal. f_equal. f_equal. unfold e, q. rewrite !blen_app. change (blen [60]) with 1. change (blen [60; 47]) with 2.
      change (blen [62]) with 1. change (blen (tag_tail false)) with 1. clear. clia. }
    pose proof (Step0_trans _ _ _ _ _ _ _ (Step0_trans _ _ _ _ _ _ _ S1 S2) S3) as S13.
    rewrite !app_nil_r in S13. cbn [app] in S13.
    split.
    { split; [split; [exact S13|split; [exact Pid3|exact Pp3]]|]. split; [exact I3|].
      split; [intros _; exact A3|].
      assert (T3 : tn_set c3) by (apply (same_tn _ _ Tn3); apply T2; exact T1).
      split; [intros _; exact T3|]. split; [intros _; exact T3|]. split.
      + rewrite tag_elem. rewrite (s_attrs _ _ _ _ S3), app_nil_r. constructor.
        * rewrite (s_attrs _ _ _ _ S2). apply km_ext. apply Hkm.
        * rewrite P1, Ln1 in F2. exact F2.
      + rewrite app_length, map_length, L2, nattrs_elem. pose proof (tas_len attrs (p + 1 + blen name)) as L.
        unfold len_N in L. clia. }
    destruct X2 as (X2a & X2b & X2c).
    pose proof (start_tag_rng text _ _ _ _ _ _ _ E00) as X1c.
    rewrite items_at_elem.
    replace (p + start_tag_len name attrs ws) with q
      by (unfold q, start_tag_len, nlen, blen; change (length (tag_tail false)) with 1%nat; clear; lia).
    split; [|split].
    + cbn [map snd shape_of fst]. constructor; [split; reflexivity|exact X2a].
    + cbn [flat_map item_ads snd fst]. rewrite X2b. reflexivity.
    + cbn [map]. rewrite span_elem_open.
      assert (Er2 : rng c2 = rng c ++ (p, q) :: map span_of (items_list q cs)).
      { rewrite X2c, X1c, <- app_assoc. reflexivity. }
      rewrite (close_rng text _ _ _ _ _ _ _ _ E3 Er2).
      * cbn [fst snd].
        assert (Eq : e + 2 + blen name + blen ws2 + 1 =
                     p + 1 + blen name + blen (flat_map Cst.r_attr attrs) + blen ws + 1 +
                     blen (r_items cs) + 2 + blen name + blen ws2 + 1)
          by (unfold e, q; change (blen (tag_tail false)) with 1; clear; lia).
        rewrite Eq. reflexivity.
      * rewrite Pid2, P1. unfold rng, len_N. rewrite map_length. clear. lia.
  - (* empty *)
    destruct (wf_elem_parts _ _ _ _ Hwf) as (Hn & Ha & Hx & Hd & Hw & _). clear Hwf.
    rewrite r_item_elem in *. rewrite <- !app_assoc in HW |- *.
    change ([47; 62] ++ post) with (tag_tail true ++ post) in *.
    rewrite lex_element by assumption. cbv zeta.
    rewrite nattrs_elem, Nat.add_0_r in AR.
    destruct (start_tag_ok text p name attrs ws true post c HW (wf_name_ne _ Hn) Ha Hx Hd I)
      as (c' & ar & E & S & Hkm & I' & A & T & P1 & P2);
      [apply (node_room_room _ _ NR (nsize_pos _))|unfold attr_room, len_N in *; clia|].
    cbv zeta in E. pose proof E as E00. unfold tok_ev in E00. apply bind_ok in E. destruct E as (c1 & E1 & E2).
    rewrite E1. cbn [bind]. rewrite E2. cbn [bind negb].
    exists c', [(Some (c_parent_id c), KElement None (sl (p + 1) (p + 1 + blen name)) ar (1, 1))],
      (map ad_of (tas (p + 1 + blen name) attrs)).
    split.
    + f_equal. f_equal. f_equal. rewrite !blen_app. change (blen [60]) with 1. change (blen (tag_tail true)) with 2.
      change (blen [47; 62]) with 2. clia.
    + split.
      { split; [split; [exact S|split; assumption]|]. split; [exact I'|]. split; [intros _; exact A|].
        split; [intros _; exact T|]. split; [intros _; exact T|]. split.
        * cbn [tag]. constructor; [|constructor]. apply Hkm.
        * rewrite map_length, nattrs_elem, Nat.add_0_r. pose proof (tas_len attrs (p + 1 + blen name)) as L.
          unfold len_N in L. clia. }
      rewrite items_at_elem. split; [|split].
      * cbn. constructor; [split; reflexivity|constructor].
      * cbn [flat_map item_ads snd fst]. rewrite app_nil_r. reflexivity.
      * rewrite (start_tag_rng text _ _ _ _ _ _ _ E00). cbn [map]. rewrite span_elem_empty. reflexivity.
Qed.

End Items.

Print Assumptions PI_all_r.
Print Assumptions root_ok_r.
