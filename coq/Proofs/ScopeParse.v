(* Proofs/ScopeParse.v -- property C06 over a whole parse: every element of a successfully
   parsed document has a prefix-unique in-scope list, which is
   [Scope.scope_of own (scope of the parent element)]. *)
From Coq Require Import Lia ZifyBool ZifyN ZifyNat.
From RX Require Import Generated.
From RX.Model Require Import Base CharClass Stream Tokenizer Doc Builder Parse.
From RX.Spec Require Scope.
From RX.Proofs Require Import Tactics OptionsParam ScopeProofs.

Local Open Scope N_scope.

(* ---- the statement ---- *)

(* every element row: its namespace range denotes a prefix-unique scope, and if its parent is
   an element, that scope extends the parent's *)
Definition elem_scopes_ok (text : bytes) (d : document) : Prop :=
  ns_ok d /\
  forall id nd ns local attrs nss, nth_N (d_nodes d) id = Some nd -> nd_kind nd = KElement ns local attrs nss ->
    exists sc, bindings_of text d nss = Some sc /\ Scope.prefixes_unique sc = true /\
      (forall pid pnd pns pl pa pnss psc, nd_parent nd = Some pid -> nth_N (d_nodes d) pid = Some pnd ->
         nd_kind pnd = KElement pns pl pa pnss -> bindings_of text d pnss = Some psc ->
         exists own, sc = Scope.scope_of own psc) /\
      (nd_parent nd = Some 0 -> True).

(* ---- the invariant of the builder ---- *)

(* what the invariant sees of a row: only elements, their parent link and namespace range *)
Definition esig (nd : node_data) : option (option N * range) :=
  match nd_kind nd with KElement _ _ _ nss => Some (nd_parent nd, nss) | _ => None end.

Definition erow (nodes : list node_data) (id : N) (par : option N) (nss : range) : Prop :=
  exists nd, nth_N nodes id = Some nd /\ esig nd = Some (par, nss).

Definition row_ok (text : bytes) (d : document) (id : N) (par : option N) (nss : range) : Prop :=
  exists sc, bindings_of text d nss = Some sc /\ Scope.prefixes_unique sc = true /\
    (forall pid, par = Some pid -> pid < id) /\
    (forall pid ppar pnss psc, par = Some pid -> erow (d_nodes d) pid ppar pnss ->
       bindings_of text d pnss = Some psc -> exists own, sc = Scope.scope_of own psc).

(* [start] is c_ns_start_idx: the declarations of the start tag being read are [start, len) *)
Definition InvD (text : bytes) (start : N) (d : document) : Prop :=
  ns_ok d /\ start <= len_N (d_ns_tree d) /\
  (forall own, bindings_of text d (start, len_N (d_ns_tree d)) = Some own ->
               Scope.prefixes_unique own = true) /\
  (forall id par nss, erow (d_nodes d) id par nss -> snd nss <= start /\ row_ok text d id par nss).

Definition Inv (text : bytes) (c : context) : Prop := InvD text (c_ns_start_idx c) (c_doc c).

(* ---- ranges of the tree order ---- *)

Lemma bindings_of_old : forall text d d' L r,
  (forall p, p < L -> binding_at text d' p = binding_at text d p) ->
  snd r <= L -> bindings_of text d' r = bindings_of text d r.
Proof.
  intros text d d' L r H Hr. unfold bindings_of. apply bindings_of_list_ext.
  intros p Hp. apply In_N_range in Hp. apply H. lia.
Qed.

Lemma binding_at_ns_eq : forall text d d' p,
  d_ns_values d' = d_ns_values d -> d_ns_tree d' = d_ns_tree d ->
  binding_at text d' p = binding_at text d p.
Proof. intros text d d' p Hv Ht. unfold binding_at. rewrite Hv, Ht. reflexivity. Qed.

Lemma bindings_of_list_total : forall text d ps,
  ns_ok d -> (forall p, In p ps -> p < len_N (d_ns_tree d)) ->
  exists sc, bindings_of_list text d ps = Some sc.
Proof.
  intros text d ps Hok. induction ps as [|p r IH]; intros H; cbn [bindings_of_list]; [eauto|].
  destruct IH as [sc Hsc]; [intros q Hq; apply H; right; assumption|]. rewrite Hsc.
  destruct (nth_N_lt_Some _ (d_ns_tree d) p (H p (or_introl eq_refl))) as [vi Hvi].
  destruct (nth_N_lt_Some _ (d_ns_values d) vi (Hok _ _ Hvi)) as [v Hv].
  unfold binding_at. rewrite Hvi, Hv. eauto.
Qed.

Lemma bindings_of_total : forall text d r,
  ns_ok d -> snd r <= len_N (d_ns_tree d) -> exists sc, bindings_of text d r = Some sc.
Proof.
  intros text d r Hok Hr. unfold bindings_of. apply bindings_of_list_total; [assumption|].
  intros p Hp. apply In_N_range in Hp. lia.
Qed.

Lemma bindings_of_list_app : forall text d l1 l2,
  bindings_of_list text d (l1 ++ l2) =
  match bindings_of_list text d l1, bindings_of_list text d l2 with
  | Some a, Some c => Some (a ++ c) | _, _ => None end.
Proof.
  induction l1 as [|x l1 IH]; intros l2; cbn [app bindings_of_list].
  - destruct (bindings_of_list text d l2); reflexivity.
  - rewrite IH. destruct (binding_at text d x); [|reflexivity].
    destruct (bindings_of_list text d l1); [|reflexivity].
    destruct (bindings_of_list text d l2); reflexivity.
Qed.

Lemma N_range_snoc : forall n a, N_range a (S n) = N_range a n ++ [a + N.of_nat n].
Proof.
  induction n as [|n IH]; intros a.
  - cbn. f_equal. lia.
  - change (N_range a (S (S n))) with (a :: N_range (a + 1) (S n)). rewrite IH.
    cbn [N_range app]. do 2 f_equal. f_equal. lia.
Qed.

Lemma bindings_of_empty : forall text d a, bindings_of text d (a, a) = Some [].
Proof. intros. unfold bindings_of; cbn [fst snd]. rewrite N.sub_diag. reflexivity. Qed.

(* ---- the general preservation lemma ----
   the namespace tables only grow, the start index only grows, old rows are kept (or
   dropped), new rows are beyond the old ones *)
Lemma invD_change : forall text start d start' d',
  InvD text start d ->
  ns_ok d' ->
  len_N (d_ns_tree d) <= len_N (d_ns_tree d') ->
  (forall p, p < len_N (d_ns_tree d) -> binding_at text d' p = binding_at text d p) ->
  start <= start' -> start' <= len_N (d_ns_tree d') ->
  (forall own, bindings_of text d' (start', len_N (d_ns_tree d')) = Some own ->
               Scope.prefixes_unique own = true) ->
  (forall id par nss, erow (d_nodes d') id par nss ->
     erow (d_nodes d) id par nss \/
     (len_N (d_nodes d) <= id /\ snd nss <= start' /\ row_ok text d' id par nss)) ->
  InvD text start' d'.
Proof.
  intros text start d start' d' [Hok [Hs [Hu Hrows]]] Hok' Hlen Hold Hss Hs' Hu' Hnew.
  repeat split; auto.
  - destruct (Hnew _ _ _ H) as [Ho|[_ [Hn _]]]; [|assumption].
    apply Hrows in Ho. lia.
  - destruct (Hnew _ _ _ H) as [Ho|[_ [_ Hn]]]; [|assumption].
    destruct (Hrows _ _ _ Ho) as [Hsn [sc [Hsc [Husc [Hlt Hpar]]]]].
    exists sc. split; [|split; [assumption|split; [assumption|]]].
    + rewrite (bindings_of_old text d d' (len_N (d_ns_tree d))); auto. lia.
    + intros pid ppar pnss psc Hp Hprow Hpsc.
      destruct (Hnew _ _ _ Hprow) as [Hpo|[Hge _]].
      * destruct (Hrows _ _ _ Hpo) as [Hpsn _].
        rewrite (bindings_of_old text d d' (len_N (d_ns_tree d))) in Hpsc; [|assumption|lia].
        eapply Hpar; eauto.
      * exfalso. destruct Ho as [nd [Hnd _]]. apply nth_N_Some_lt in Hnd.
        specialize (Hlt _ Hp). lia.
Qed.

(* steps that touch the nodes only *)
Definition nstep (c c' : context) : Prop :=
  c_ns_start_idx c' = c_ns_start_idx c /\
  d_ns_values (c_doc c') = d_ns_values (c_doc c) /\
  d_ns_tree (c_doc c') = d_ns_tree (c_doc c) /\
  (forall id par nss, erow (d_nodes (c_doc c')) id par nss -> erow (d_nodes (c_doc c)) id par nss).

Lemma nstep_refl : forall c, nstep c c.
Proof. unfold nstep; auto. Qed.

Lemma nstep_trans : forall c1 c2 c3, nstep c1 c2 -> nstep c2 c3 -> nstep c1 c3.
Proof.
  unfold nstep. intros c1 c2 c3 [A1 [A2 [A3 A4]]] [B1 [B2 [B3 B4]]].
  repeat split; try congruence. auto.
Qed.

Lemma invD_nodes : forall text start d d',
  d_ns_values d' = d_ns_values d -> d_ns_tree d' = d_ns_tree d ->
  (forall id par nss, erow (d_nodes d') id par nss -> erow (d_nodes d) id par nss) ->
  InvD text start d -> InvD text start d'.
Proof.
  intros text start d d' Hv Ht Hr HI.
  assert (Hb : forall r, bindings_of text d' r = bindings_of text d r).
  { intros r. unfold bindings_of. apply bindings_of_list_ext. intros; apply binding_at_ns_eq; assumption. }
  pose proof HI as [Hok [Hs [Hu _]]].
  apply (invD_change text start d start d'); auto.
  - unfold ns_ok. rewrite Hv, Ht. exact Hok.
  - rewrite Ht. lia.
  - intros; apply binding_at_ns_eq; assumption.
  - lia.
  - rewrite Ht; assumption.
  - intros own. rewrite Hb, Ht. apply Hu.
Qed.

Lemma inv_nstep : forall text c c', nstep c c' -> Inv text c -> Inv text c'.
Proof.
  unfold Inv. intros text c c' [H1 [H2 [H3 H4]]] HI. rewrite H1.
  eapply invD_nodes; eauto.
Qed.

(* ---- updates of the node list ---- *)

Lemma nth_N_nth_error : forall A (l : list A) i x,
  nth_N l i = Some x -> nth_error l (N.to_nat i) = Some x.
Proof. unfold nth_N; intros A l i x H. destruct (len_N l <=? i); [discriminate|assumption]. Qed.

Lemma list_upd_nth : forall A (f : A -> A) l i l',
  list_upd l i f = Some l' ->
  forall j x', nth_error l' j = Some x' ->
  exists x, nth_error l j = Some x /\ (x' = x \/ x' = f x).
Proof.
  induction l as [|y r IH]; intros i l' H j x' Hj; cbn [list_upd] in H; [destruct i; discriminate|].
  destruct i as [|i].
  - inversion H; subst l'. destruct j as [|j]; cbn in *.
    + inversion Hj; subst. eauto.
    + eauto.
  - destruct (list_upd r i f) as [r'|] eqn:E; [|discriminate]. inversion H; subst l'.
    destruct j as [|j]; cbn in *.
    + inversion Hj; subst. eauto.
    + eapply IH; eauto.
Qed.

Definition sig_safe (f : node_data -> node_data) : Prop :=
  forall nd, esig (f nd) = esig nd \/ esig (f nd) = None.

Lemma upd_node_rows : forall nodes i f nodes',
  upd_node nodes i f = Ok nodes' -> sig_safe f ->
  forall id par nss, erow nodes' id par nss -> erow nodes id par nss.
Proof.
  unfold upd_node. intros nodes i f nodes' H Hf id par nss [nd' [Hn Hs]].
  destruct (list_upd nodes (N.to_nat i) f) as [l|] eqn:E; [|discriminate]. inversion H; subst l.
  apply nth_N_nth_error in Hn.
  destruct (list_upd_nth _ _ _ _ _ E _ _ Hn) as [nd [Hnd Hx]].
  exists nd. split; [apply nth_error_nth_N; assumption|].
  destruct Hx as [-> | ->]; [assumption|].
  destruct (Hf nd) as [K|K]; congruence.
Qed.

Lemma set_next_subtree_all_rows : forall ids v nodes nodes',
  set_next_subtree_all nodes ids v = Ok nodes' ->
  forall id par nss, erow nodes' id par nss -> erow nodes id par nss.
Proof.
  induction ids as [|i r IH]; intros v nodes nodes' H id par nss Hr; cbn [set_next_subtree_all] in H.
  - inversion H; subst; assumption.
  - apply bind_ok in H. destruct H as [n1 [H1 H2]].
    eapply upd_node_rows; [exact H1| |eapply IH; eauto].
    intros nd; left; reflexivity.
Qed.

Lemma safe_prev : forall v, sig_safe (fun nd => nd_set_prev nd v).
Proof. intros v nd; left; reflexivity. Qed.
Lemma safe_last_child : forall v, sig_safe (fun nd => nd_set_last_child nd v).
Proof. intros v nd; left; reflexivity. Qed.
Lemma safe_range_end : forall v, sig_safe (fun nd => nd_set_range_end nd v).
Proof. intros v nd; left; reflexivity. Qed.
Lemma safe_text_kind : forall s, sig_safe (fun nd => nd_set_kind nd (KText s)).
Proof. intros s nd; right; reflexivity. Qed.

(* ---- append_node ---- *)

Lemma append_node_rows : forall kind r c id c',
  append_node kind r c = Ok (id, c') ->
  c_ns_start_idx c' = c_ns_start_idx c /\
  d_ns_values (c_doc c') = d_ns_values (c_doc c) /\
  d_ns_tree (c_doc c') = d_ns_tree (c_doc c) /\
  (forall j par nss, erow (d_nodes (c_doc c')) j par nss ->
     erow (d_nodes (c_doc c)) j par nss \/
     (j = len_N (d_nodes (c_doc c)) /\ par = Some (c_parent_id c) /\
      exists a l at', kind = KElement a l at' nss)).
Proof.
  intros kind r c id c' H. unfold append_node in H.
  destruct (nodes_limit (c_opt c) <=? len_N (d_nodes (c_doc c))); [discriminate|].
  apply bind_ok in H. destruct H as [new_id [_ H]].
  apply bind_ok in H. destruct H as [pnd [_ H]].
  apply bind_ok in H. destruct H as [n1 [H1 H]].
  apply bind_ok in H. destruct H as [n2 [H2 H]].
  apply bind_ok in H. destruct H as [n3 [H3 H]].
  inversion H; subst; clear H. cbn [c_ns_start_idx c_doc set_awaiting set_doc set_nodes
    d_ns_values d_ns_tree d_nodes].
  repeat split; auto.
  intros j par nss Hr.
  apply (set_next_subtree_all_rows _ _ _ _ H3) in Hr.
  apply (upd_node_rows _ _ _ _ H2 (safe_last_child _)) in Hr.
  apply (upd_node_rows _ _ _ _ H1 (safe_prev _)) in Hr.
  destruct Hr as [nd [Hn Hs]].
  destruct (j <? len_N (d_nodes (c_doc c))) eqn:E.
  - left. exists nd. rewrite nth_N_app_l in Hn by lia. auto.
  - right. pose proof (nth_N_Some_lt _ _ _ _ Hn) as L. rewrite len_N_app in L.
    change (len_N [_]) with 1 in L.
    assert (j = len_N (d_nodes (c_doc c))) by lia. subst j.
    rewrite nth_N_app_len in Hn. inversion Hn; subst nd. unfold esig in Hs. cbn [nd_kind nd_parent] in Hs.
    destruct kind; try discriminate. inversion Hs; subst. repeat split; eauto.
Qed.

Lemma append_node_nstep : forall kind r c id c',
  append_node kind r c = Ok (id, c') -> is_element_kind kind = false -> nstep c c'.
Proof.
  intros kind r c id c' H Hk. destruct (append_node_rows _ _ _ _ _ H) as [A [B [C D]]].
  repeat split; auto. intros j par nss Hr. destruct (D _ _ _ Hr) as [K|[_ [_ [a [l [at' K]]]]]]; [assumption|].
  subst kind; discriminate.
Qed.

Lemma append_text_nstep : forall t r c c', append_text t r c = Ok c' -> nstep c c'.
Proof.
  intros t r c c' H. unfold append_text in H.
  apply bind_ok in H. destruct H as [c1 [H1 H]]. inversion H; subst; clear H.
  assert (nstep c c1).
  { destruct (c_after_text c).
    - apply bind_ok in H1. destruct H1 as [[i c2] [H1 H2]]. inversion H2; subst.
      eapply append_node_nstep; eauto.
    - inversion H1; subst. apply nstep_refl. }
  exact H.
Qed.

Lemma merge_text_nstep : forall text c c', merge_text text c = Ok c' -> nstep c c'.
Proof.
  intros text c c' H. unfold merge_text in H.
  destruct (rev (d_nodes (c_doc c))) as [|nd l]; [discriminate|].
  destruct (nd_kind nd); try discriminate.
  apply bind_ok in H. destruct H as [n1 [H1 H]]. inversion H; subst; clear H.
  repeat split; auto. cbn [c_doc set_doc set_nodes d_nodes].
  eapply upd_node_rows; [exact H1|apply safe_text_kind].
Qed.

Lemma reset_after_text_nstep : forall text c c', reset_after_text text c = Ok c' -> nstep c c'.
Proof.
  intros text c c' H. unfold reset_after_text in H.
  destruct (c_after_text c) as [|x [|y l]].
  - inversion H; subst; apply nstep_refl.
  - inversion H; subst. repeat split; auto.
  - apply bind_ok in H. destruct H as [c1 [H1 H]]. inversion H; subst; clear H.
    apply merge_text_nstep in H1. exact H1.
Qed.

Lemma process_cdata_nstep : forall text t r c c', process_cdata text t r c = Ok c' -> nstep c c'.
Proof.
  intros text t r c c' H. unfold process_cdata in H.
  destruct (mem_b 13 (slice_bytes text t)); eapply append_text_nstep; eauto.
Qed.

Lemma bindings_of_ns_eq : forall text d d' r,
  d_ns_values d' = d_ns_values d -> d_ns_tree d' = d_ns_tree d ->
  bindings_of text d' r = bindings_of text d r.
Proof.
  intros. unfold bindings_of. apply bindings_of_list_ext. intros; apply binding_at_ns_eq; assumption.
Qed.

(* ---- declarations: process_attribute ---- *)

Lemma push_ns_nodes : forall text name uri d d',
  push_ns text name uri d = Ok d' -> d_nodes d' = d_nodes d.
Proof.
  intros text name uri d d' H. unfold push_ns in H.
  destruct (find_ns _ _ _ _ _).
  - inversion H; subst; auto.
  - destruct (ns_values_limit <? len_N (d_ns_values d)); [discriminate|]. inversion H; subst; auto.
Qed.

Lemma inv_push_decl : forall text start d d' name uri p,
  InvD text start d ->
  ns_exists text d start p = Ok false ->
  p = match name with Some s => Some (str_bytes text s) | None => None end ->
  push_ns text name uri d = Ok d' -> InvD text start d'.
Proof.
  intros text start d d' name uri p HI Hex Hp Hpush.
  pose proof HI as [Hok [Hs [Hu Hrows]]].
  destruct (push_ns_appends text name uri d d' Hok Hpush) as [Hok' [Hlen [Hnew Hold]]].
  rewrite <- Hp in Hnew.
  apply (invD_change text start d start d'); auto; try lia.
  - intros own' Hown'. rewrite Hlen in Hown'. unfold bindings_of in Hown'. cbn [fst snd] in Hown'.
    replace (N.to_nat (len_N (d_ns_tree d) + 1 - start))
      with (S (N.to_nat (len_N (d_ns_tree d) - start))) in Hown' by lia.
    rewrite N_range_snoc, bindings_of_list_app in Hown'.
    change (bindings_of_list text d' (N_range start (N.to_nat (len_N (d_ns_tree d) - start))))
      with (bindings_of text d' (start, len_N (d_ns_tree d))) in Hown'.
    destruct (bindings_of_total text d (start, len_N (d_ns_tree d)) Hok) as [own Hown]; [cbn; lia|].
    rewrite (bindings_of_old text d d' (len_N (d_ns_tree d))) in Hown' by (auto; cbn; lia).
    rewrite Hown in Hown'. cbn [bindings_of_list] in Hown'.
    replace (start + N.of_nat (N.to_nat (len_N (d_ns_tree d) - start)))
      with (len_N (d_ns_tree d)) in Hown' by lia.
    rewrite Hnew in Hown'. inversion Hown'; subst own'.
    rewrite (ns_exists_spec text d start p own Hs Hown) in Hex. inversion Hex as [Hex'].
    apply prefixes_unique_app. split; [apply Hu; assumption|]. split; [reflexivity|].
    intros x y Hx [<-|[]]. cbn [fst]. intros E.
    rewrite existsb_prefix_false in Hex'. apply (Hex' x Hx). congruence.
  - intros id par nss Hr. left. rewrite <- (push_ns_nodes _ _ _ _ _ Hpush). assumption.
Qed.

Lemma normalize_attribute_frame : forall text value c v c1,
  normalize_attribute text value c = Ok (v, c1) ->
  c_doc c1 = c_doc c /\ c_ns_start_idx c1 = c_ns_start_idx c.
Proof.
  intros text value c v c1 H. unfold normalize_attribute in H.
  destruct (existsb _ (slice_bytes text value)).
  - apply bind_ok in H. destruct H as [[t ld] [_ H]].
    apply bind_ok in H. destruct H as [bs [_ H]].
    inversion H; subst. auto.
  - inversion H; subst. auto.
Qed.

Lemma inv_process_attribute : forall text r qn eq prefix local value c c',
  process_attribute text r qn eq prefix local value c = Ok c' -> Inv text c -> Inv text c'.
Proof.
  intros text r qn eq prefix local value c c' H HI. unfold process_attribute in H.
  apply bind_ok in H. destruct H as [[v c1] [Hn H]].
  apply normalize_attribute_frame in Hn. destruct Hn as [Hd Hs].
  assert (HI1 : Inv text c1) by (unfold Inv; rewrite Hd, Hs; exact HI). clear HI Hd Hs.
  usteps; try exact HI1.
  - eapply (inv_push_decl text _ (c_doc c1)); eauto. reflexivity.
  - eapply (inv_push_decl text _ (c_doc c1)); eauto. reflexivity.
Qed.

(* ---- resolve_namespaces ---- *)

Lemma resolve_ns_loop_frame : forall text start is d d',
  resolve_ns_loop text start is d = Ok d' ->
  d_nodes d' = d_nodes d /\ d_ns_values d' = d_ns_values d /\
  exists tx, d_ns_tree d' = d_ns_tree d ++ tx.
Proof.
  induction is as [|i r IH]; intros d d' H; cbn [resolve_ns_loop] in H.
  - inversion H; subst. repeat split. exists []. rewrite app_nil_r; reflexivity.
  - apply bind_ok in H. destruct H as [vidx [_ H]].
    apply bind_ok in H. destruct H as [name [_ H]].
    apply bind_ok in H. destruct H as [ex [_ H]].
    apply bind_ok in H. destruct H as [d1 [H1 H]].
    apply IH in H. destruct H as [A [B [tx C]]].
    destruct ex.
    + inversion H1; subst d1. eauto.
    + unfold push_ref in H1. destruct (nth_N (d_ns_tree d) i) as [idx|]; [|discriminate].
      inversion H1; subst d1. cbn [d_nodes d_ns_values d_ns_tree] in *.
      repeat split; auto. exists ([idx] ++ tx). rewrite C, <- app_assoc. reflexivity.
Qed.

Lemma ns_range_checked_ok' : forall a e r, ns_range_checked a e = Ok r -> r = (a, e).
Proof.
  unfold ns_range_checked; intros a e r H.
  destruct (u32_max <? e); [discriminate|]. inversion H; reflexivity.
Qed.

Lemma resolve_namespaces_frame : forall text c nsr c1,
  resolve_namespaces text c = Ok (nsr, c1) ->
  exists pnd tx,
    nth_N (d_nodes (c_doc c)) (c_parent_id c) = Some pnd /\
    c_parent_id c1 = c_parent_id c /\ c_ns_start_idx c1 = c_ns_start_idx c /\
    d_nodes (c_doc c1) = d_nodes (c_doc c) /\
    d_ns_values (c_doc c1) = d_ns_values (c_doc c) /\
    d_ns_tree (c_doc c1) = d_ns_tree (c_doc c) ++ tx /\
    (nsr = (c_ns_start_idx c, len_N (d_ns_tree (c_doc c1))) \/
     esig pnd = Some (nd_parent pnd, nsr)).
Proof.
  intros text c nsr c1 H. unfold resolve_namespaces in H.
  destruct (nth_N (d_nodes (c_doc c)) (c_parent_id c)) as [pnd|] eqn:Hp; [|discriminate].
  cbn [bind] in H. exists pnd.
  assert (Hroot :
    (let! r0 := ns_range_checked (c_ns_start_idx c) (len_N (d_ns_tree (c_doc c))) in Ok (r0, c))
      = Ok (nsr, c1) ->
    exists tx, Some pnd = Some pnd /\
    c_parent_id c1 = c_parent_id c /\ c_ns_start_idx c1 = c_ns_start_idx c /\
    d_nodes (c_doc c1) = d_nodes (c_doc c) /\
    d_ns_values (c_doc c1) = d_ns_values (c_doc c) /\
    d_ns_tree (c_doc c1) = d_ns_tree (c_doc c) ++ tx /\
    (nsr = (c_ns_start_idx c, len_N (d_ns_tree (c_doc c1))) \/
     esig pnd = Some (nd_parent pnd, nsr))).
  { intros H0. apply bind_ok in H0. destruct H0 as [r0 [Hr H0]].
    apply ns_range_checked_ok' in Hr. inversion H0; subst.
    exists []. rewrite app_nil_r. repeat split; auto. }
  destruct (nd_kind pnd) as [|ns_idx local attrs nss| | |] eqn:Hk; auto.
  destruct (c_ns_start_idx c =? len_N (d_ns_tree (c_doc c))).
  - inversion H; subst. exists []. rewrite app_nil_r. repeat split; auto.
    right. unfold esig. rewrite Hk. reflexivity.
  - destruct nss as [pa pe].
    apply bind_ok in H. destruct H as [d1 [Hl H]].
    apply bind_ok in H. destruct H as [r1 [Hr H]].
    apply ns_range_checked_ok' in Hr. inversion H; subst; clear H.
    apply resolve_ns_loop_frame in Hl. destruct Hl as [A [B [tx C]]].
    exists tx. cbn [c_doc set_doc c_parent_id c_ns_start_idx]. repeat split; auto.
Qed.

Lemma resolve_namespaces_inv : forall text c nsr c1,
  Inv text c -> resolve_namespaces text c = Ok (nsr, c1) ->
  c_parent_id c1 = c_parent_id c /\
  d_nodes (c_doc c1) = d_nodes (c_doc c) /\
  InvD text (len_N (d_ns_tree (c_doc c1))) (c_doc c1) /\
  exists pnd sc,
    nth_N (d_nodes (c_doc c)) (c_parent_id c) = Some pnd /\
    bindings_of text (c_doc c1) nsr = Some sc /\ Scope.prefixes_unique sc = true /\
    snd nsr <= len_N (d_ns_tree (c_doc c1)) /\
    (forall ppar pnss psc, esig pnd = Some (ppar, pnss) ->
       bindings_of text (c_doc c1) pnss = Some psc -> exists own, sc = Scope.scope_of own psc).
Proof.
  intros text c nsr c1 HI H.
  destruct (resolve_namespaces_frame _ _ _ _ H) as [pnd [tx [Hp [F1 [F2 [F3 [F4 [F5 F6]]]]]]]].
  pose proof HI as [Hok [Hs [Hu Hrows]]].
  set (d := c_doc c) in *. set (start := c_ns_start_idx c) in *.
  assert (Hlen : len_N (d_ns_tree d) <= len_N (d_ns_tree (c_doc c1))).
  { rewrite F5, len_N_app. lia. }
  assert (Hold : forall p, p < len_N (d_ns_tree d) ->
                           binding_at text (c_doc c1) p = binding_at text d p).
  { intros p Hlt. unfold binding_at. rewrite F4, F5, nth_N_app_l by assumption. reflexivity. }
  set (pns := match nd_kind pnd with KElement _ _ _ nss => nss | _ => (0, 0) end).
  assert (Hinh : exists inh, snd pns <= start /\ bindings_of text d pns = Some inh /\
                             Scope.prefixes_unique inh = true).
  { destruct (esig pnd) as [[pp nss]|] eqn:Es.
    - assert (Hr : erow (d_nodes d) (c_parent_id c) pp nss) by (exists pnd; auto).
      destruct (Hrows _ _ _ Hr) as [Hsn [sc [Hsc [Husc _]]]].
      assert (pns = nss).
      { unfold pns, esig in *. destruct (nd_kind pnd); try discriminate. congruence. }
      subst nss. eauto.
    - assert (pns = (0, 0)).
      { unfold pns, esig in *. destruct (nd_kind pnd); try discriminate; reflexivity. }
      rewrite H0. exists []. cbn [snd]. rewrite bindings_of_empty. repeat split. lia. }
  destruct Hinh as [inh [Hpe [Hinh Huinh]]].
  destruct (bindings_of_total text d (start, len_N (d_ns_tree d)) Hok) as [own Hown]; [cbn; lia|].
  assert (Hmatch : match nd_kind pnd with KElement _ _ _ nss => pns = nss | _ => pns = (0, 0) end).
  { unfold pns. destruct (nd_kind pnd); reflexivity. }
  destruct (scopes_refine text c nsr c1 pnd pns own inh Hok Hp Hmatch Hpe Hs Hinh Huinh Hown H)
    as [Hok1 Hsc].
  assert (Hsn : snd nsr <= len_N (d_ns_tree (c_doc c1))).
  { destruct F6 as [->|F6]; [cbn; lia|].
    assert (Hr : erow (d_nodes d) (c_parent_id c) (nd_parent pnd) nsr) by (exists pnd; auto).
    apply Hrows in Hr. lia. }
  split; [assumption|]. split; [assumption|]. split.
  - apply (invD_change text start d _ (c_doc c1)); auto; try lia.
    + intros o Ho. rewrite bindings_of_empty in Ho. inversion Ho; reflexivity.
    + intros id par nss Hr. left. rewrite <- F3. assumption.
  - exists pnd, (Scope.scope_of own inh). repeat split; auto.
    + apply scope_prefixes_unique; [apply Hu; assumption|assumption].
    + intros ppar pnss psc Es Hpsc.
      assert (pns = pnss).
      { unfold pns, esig in *. destruct (nd_kind pnd); try discriminate. congruence. }
      subst pnss.
      rewrite (bindings_of_old text d (c_doc c1) (len_N (d_ns_tree d))) in Hpsc by (auto; lia).
      exists own. congruence.
Qed.

(* ---- resolve_attributes does not touch nodes or namespaces ---- *)

Lemma resolve_attrs_loop_frame : forall text nss start l d d',
  resolve_attrs_loop text nss start l d = Ok d' ->
  d_nodes d' = d_nodes d /\ d_ns_values d' = d_ns_values d /\ d_ns_tree d' = d_ns_tree d.
Proof.
  induction l as [|a l IH]; intros d d' H; cbn [resolve_attrs_loop] in H.
  - inversion H; subst; auto.
  - apply bind_ok in H. destruct H as [ns_idx [_ H]].
    apply bind_ok in H. destruct H as [name [_ H]].
    apply bind_ok in H. destruct H as [dup [_ H]].
    destruct dup; [exfalso; eapply err_from_not_ok; eassumption|].
    apply IH in H. cbn [set_attrs d_nodes d_ns_values d_ns_tree] in H. exact H.
Qed.

Lemma resolve_attributes_frame : forall text nss c r c',
  resolve_attributes text nss c = Ok (r, c') ->
  c_parent_id c' = c_parent_id c /\ c_ns_start_idx c' = c_ns_start_idx c /\
  d_nodes (c_doc c') = d_nodes (c_doc c) /\ d_ns_values (c_doc c') = d_ns_values (c_doc c) /\
  d_ns_tree (c_doc c') = d_ns_tree (c_doc c).
Proof.
  intros text nss c r c' H. unfold resolve_attributes in H.
  destruct (c_cur_attrs c) as [|t l].
  - inversion H; subst; auto.
  - destruct (u32_max <=? len_N (d_attrs (c_doc c)) + len_N (t :: l)); [discriminate|].
    apply bind_ok in H. destruct H as [d [Hl H]].
    apply bind_ok in H. destruct H as [r0 [_ H]]. inversion H; subst; clear H.
    apply resolve_attrs_loop_frame in Hl. cbn [c_doc c_parent_id c_ns_start_idx set_doc set_cur_attrs].
    tauto.
Qed.

(* ---- a new element row ---- *)

Lemma inv_append_elem : forall text a l at' nsr r c id c' sc,
  Inv text c ->
  append_node (KElement a l at' nsr) r c = Ok (id, c') ->
  c_parent_id c < len_N (d_nodes (c_doc c)) ->
  snd nsr <= c_ns_start_idx c ->
  bindings_of text (c_doc c) nsr = Some sc -> Scope.prefixes_unique sc = true ->
  (forall ppar pnss psc, erow (d_nodes (c_doc c)) (c_parent_id c) ppar pnss ->
     bindings_of text (c_doc c) pnss = Some psc -> exists own, sc = Scope.scope_of own psc) ->
  Inv text c'.
Proof.
  intros text a l at' nsr r c id c' sc HI H Hpar Hsn Hsc Hu Hpc.
  destruct (append_node_rows _ _ _ _ _ H) as [A [B [C D]]].
  pose proof HI as [Hok [Hs [Huo _]]].
  assert (Hb : forall q, bindings_of text (c_doc c') q = bindings_of text (c_doc c) q)
    by (intros; apply bindings_of_ns_eq; assumption).
  unfold Inv. rewrite A.
  apply (invD_change text (c_ns_start_idx c) (c_doc c) (c_ns_start_idx c) (c_doc c')); auto.
  - unfold ns_ok. rewrite B, C. exact Hok.
  - rewrite C; lia.
  - intros; apply binding_at_ns_eq; assumption.
  - lia.
  - rewrite C; assumption.
  - intros own. rewrite Hb, C. apply Huo.
  - intros j par nss Hr. destruct (D _ _ _ Hr) as [K|[Hj [Hp [a0 [l0 [at0 Hk]]]]]]; [left; assumption|].
    right. inversion Hk; subst nss. subst j par. split; [lia|]. split; [assumption|].
    exists sc. rewrite Hb. repeat split; auto.
    + intros pid E. inversion E; subst. assumption.
    + intros pid ppar pnss psc E Hprow Hpsc. inversion E; subst pid.
      rewrite Hb in Hpsc.
      destruct (D _ _ _ Hprow) as [K|[Hj _]]; [|lia].
      eapply Hpc; eauto.
Qed.

(* ---- process_element ---- *)

Lemma inv_process_element : forall text e r c c',
  process_element text e r c = Ok c' -> Inv text c -> Inv text c'.
Proof.
  intros text e r c c' H HI. unfold process_element in H.
  destruct (slice_len (tn_name (c_tag_name c)) =? 0); [destruct e; usteps|].
  apply bind_ok in H. destruct H as [[nsr c1] [Hrn H]].
  destruct (resolve_namespaces_inv text c nsr c1 HI Hrn)
    as [P1 [P2 [HI1 [pnd [sc [Hp [Hsc [Hu [Hsn Hpc]]]]]]]]].
  apply bind_ok in H. destruct H as [[attrs c3] [Hra H]].
  destruct (resolve_attributes_frame _ _ _ _ _ Hra) as [Q1 [Q2 [Q3 [Q4 Q5]]]].
  cbn [c_parent_id c_ns_start_idx c_doc set_ns_start_idx] in Q1, Q2, Q3, Q4, Q5.
  assert (HI3 : Inv text c3).
  { unfold Inv. rewrite Q2. eapply invD_nodes; eauto. rewrite Q3; auto. }
  assert (Hb : forall q, bindings_of text (c_doc c3) q = bindings_of text (c_doc c1) q)
    by (intros; apply bindings_of_ns_eq; assumption).
  assert (Hnew : forall a l r0 id c4,
    append_node (KElement a l attrs nsr) r0 c3 = Ok (id, c4) -> Inv text c4).
  { intros a l r0 id c4 Han.
    eapply (inv_append_elem text a l attrs nsr r0 c3 id c4 sc); eauto.
    - rewrite Q1, P1, Q3, P2. eapply nth_N_Some_lt; eassumption.
    - rewrite Q2. assumption.
    - rewrite Hb; assumption.
    - intros ppar pnss psc [nd [Hnd Es]] Hpsc. rewrite Hb in Hpsc.
      rewrite Q1, P1, Q3, P2, Hp in Hnd. inversion Hnd; subst nd. eapply Hpc; eauto. }
  destruct e.
  - (* EOpen *)
    apply bind_ok in H. destruct H as [tag [_ H]].
    apply bind_ok in H. destruct H as [[id c4] [Han H]]. inversion H; subst; clear H.
    apply Hnew in Han. exact Han.
  - (* EClose *)
    clear Hnew. usteps.
    all: unfold Inv; cbn [c_ns_start_idx c_doc set_parent_prefixes set_parent_id set_awaiting set_doc];
      apply (invD_nodes text _ (c_doc c3)); [reflexivity|reflexivity| |exact HI3];
      cbn [d_nodes set_nodes]; eapply upd_node_rows; [eassumption|apply safe_range_end].
  - (* EEmpty *)
    apply bind_ok in H. destruct H as [tag [_ H]].
    apply bind_ok in H. destruct H as [[id c4] [Han H]]. inversion H; subst; clear H.
    apply Hnew in Han. exact Han.
Qed.

(* ---- process_text: the loop, named ---- *)

Definition sp_loop (text : bytes) (pc : stream -> context -> res (stream * context)) (r : range) :=
  fix loop (fuel : nat) (s : stream) (buf : text_buffer) (c : context) {struct fuel}
    : res (text_buffer * context) :=
    match fuel with
    | O => OutOfFuel
    | S fu =>
      if at_end s then Ok (buf, c) else
      let! (ch, s) := parse_next_chunk text s (c_entities c) in
      match ch with
      | ChByte x => loop fu s (tb_push_from_text x buf) c
      | ChChar cp =>
        loop fu s (push_char_bytes_text (encode_utf8 cp) (0 <? ld_depth (c_ld c)) buf) c
      | ChText value =>
        let! c := if negb (tb_is_empty buf)
                  then let! bs := tb_finish buf in append_text (CowOwned bs) r c
                  else Ok c in
        let! ld := inc_references text s (c_ld c) in
        let! ld := inc_depth text s ld in
        let c := set_ld c ld in
        let! es := stream_from_substr text (sl_start value) (sl_end value) in
        let prev_tag_name := c_tag_name c in
        let prev_floor := c_entity_floor c in
        let c := set_entity_floor (set_tag_name c tag_name_null) (len_N (c_parent_prefixes c)) in
        let! (_, c) := pc es c in
        if negb (len_N (c_parent_prefixes c) =? c_entity_floor c) then Err UnexpectedEndOfStream
        else
          let c := set_entity_floor (set_tag_name c prev_tag_name) prev_floor in
          let c := set_ld c (dec_depth (c_ld c)) in
          loop fu s tb_new c
      end
    end.

Lemma process_text_with_sp : forall text pc t r c,
  process_text_with text pc t r c =
  if negb (existsb (fun x => (x =? 38) || (x =? 13)) (slice_bytes text t))
  then append_text (CowBorrowed t) r c
  else
    let! s0 := stream_from_substr text (fst r) (snd r) in
    let! (buf, c) := sp_loop text pc r (S (length (s_rest s0))) s0 tb_new c in
    if negb (tb_is_empty buf)
    then let! bs := tb_finish buf in append_text (CowOwned bs) r c
    else Ok c.
Proof. reflexivity. Qed.

(* ---- the callback preserves any invariant of (c_ns_start_idx, c_doc) that its parts preserve ---- *)

Definition Jof (JD : N -> document -> Prop) (c : context) : Prop := JD (c_ns_start_idx c) (c_doc c).

Section Levels.
Variable text : bytes.
Variable JD : N -> document -> Prop.
Notation J := (Jof JD).
Hypothesis J_append_text : forall t r c c', append_text t r c = Ok c' -> J c -> J c'.
Hypothesis J_reset : forall c c', reset_after_text text c = Ok c' -> J c -> J c'.
Hypothesis J_node : forall kind r c id c',
  append_node kind r c = Ok (id, c') -> is_element_kind kind = false -> J c -> J c'.
Hypothesis J_attr : forall r qn eq prefix local value c c',
  process_attribute text r qn eq prefix local value c = Ok c' -> J c -> J c'.
Hypothesis J_elem : forall e r c c', process_element text e r c = Ok c' -> J c -> J c'.

Section PC.
Variable pc : stream -> context -> res (stream * context).
Hypothesis Hpc : forall s c x c', pc s c = Ok (x, c') -> J c -> J c'.

Lemma j_sp_loop : forall r fuel s buf c buf' c',
  sp_loop text pc r fuel s buf c = Ok (buf', c') -> J c -> J c'.
Proof.
  induction fuel as [|fu IH]; intros s buf c buf' c' H HI; [discriminate|].
  cbn [sp_loop] in H.
  destruct (at_end s); [inversion H; subst; assumption|].
  apply bind_ok in H. destruct H as [[ch s1] [_ H]].
  destruct ch as [x|cp|value].
  - eapply IH; eauto.
  - eapply IH; eauto.
  - apply bind_ok in H. destruct H as [c1 [H1 H]].
    assert (HI1 : J c1).
    { destruct (negb (tb_is_empty buf)).
      - apply bind_ok in H1. destruct H1 as [bs [_ H1]]. eapply J_append_text; eauto.
      - inversion H1; subst; assumption. }
    apply bind_ok in H. destruct H as [ld1 [_ H]].
    apply bind_ok in H. destruct H as [ld2 [_ H]].
    apply bind_ok in H. destruct H as [es [_ H]].
    apply bind_ok in H. destruct H as [[s2 c2] [H2 H]].
    apply Hpc in H2; [|exact HI1].
    destruct (negb (len_N (c_parent_prefixes c2) =? c_entity_floor c2)); [discriminate|].
    eapply IH; [exact H|]. exact H2.
Qed.

Lemma j_process_text_with : forall t r c c',
  process_text_with text pc t r c = Ok c' -> J c -> J c'.
Proof.
  intros t r c c' H HI. rewrite process_text_with_sp in H.
  destruct (negb (existsb _ (slice_bytes text t))); [eapply J_append_text; eauto|].
  apply bind_ok in H. destruct H as [s0 [_ H]].
  apply bind_ok in H. destruct H as [[buf c1] [H1 H]].
  apply j_sp_loop in H1; [|exact HI].
  destruct (negb (tb_is_empty buf)).
  - apply bind_ok in H. destruct H as [bs [_ H]]. eapply J_append_text; eauto.
  - inversion H; subst; assumption.
Qed.
End PC.

Lemma j_token_with : forall ptext,
  (forall t r c c', ptext t r c = Ok c' -> J c -> J c') ->
  forall tk c c', token_with text ptext tk c = Ok c' -> J c -> J c'.
Proof.
  intros ptext Hpt tk c c' H HI. destruct tk; cbn [token_with] in H.
  - apply bind_ok in H. destruct H as [c1 [H1 H]].
    apply bind_ok in H. destruct H as [[i c2] [H2 H]]. inversion H; subst; clear H.
    eapply J_node; [exact H2|reflexivity|]. eapply J_reset; eauto.
  - apply bind_ok in H. destruct H as [c1 [H1 H]].
    apply bind_ok in H. destruct H as [[i c2] [H2 H]]. inversion H; subst; clear H.
    eapply J_node; [exact H2|reflexivity|]. eapply J_reset; eauto.
  - inversion H; subst. exact HI.
  - apply bind_ok in H. destruct H as [c1 [H1 H]].
    pose proof (J_reset _ _ H1 HI) as HI1.
    destruct (bytes_eqb (slice_bytes text prefix) xmlns_str); [usteps|].
    inversion H; subst. exact HI1.
  - eapply J_attr; eauto.
  - apply bind_ok in H. destruct H as [c1 [H1 H]].
    pose proof (J_reset _ _ H1 HI) as HI1. eapply J_elem; eauto.
  - eapply Hpt; eauto.
  - unfold process_cdata in H.
    destruct (mem_b 13 (slice_bytes text text0)); eapply J_append_text; eauto.
Qed.

Lemma j_parse_content_lvl : forall lvl s c s' c',
  parse_content_lvl text lvl s c = Ok (s', c') -> J c -> J c'.
Proof.
  induction lvl as [|lvl IH]; intros s c s' c' H HI; [discriminate|].
  cbn [parse_content_lvl] in H.
  eapply (u_parse_content text context _ J); [|exact H|exact HI].
  intros tok c0 c0' Ht HI0. eapply j_token_with; [|exact Ht|exact HI0].
  intros t r c1 c1' Hp HI1. eapply j_process_text_with; [|exact Hp|exact HI1].
  intros s1 c2 x c2' Hc. eapply IH; eauto.
Qed.

Lemma j_token : forall tok c c', token text tok c = Ok c' -> J c -> J c'.
Proof.
  intros tok c c' H HI. unfold token in H.
  eapply j_token_with; [|exact H|exact HI].
  intros t r c1 c1' Hp HI1. unfold process_text in Hp.
  eapply j_process_text_with; [|exact Hp|exact HI1].
  intros s1 c2 x c2' Hc. eapply j_parse_content_lvl; eauto.
Qed.

Lemma j_parse : forall opt d, (forall c, init_context text opt = Ok c -> J c) ->
  parse text opt = Ok d -> exists c, J c /\ c_doc c = d.
Proof.
  intros opt d Hinit H. unfold parse in H.
  apply bind_ok in H. destruct H as [c0 [H0 H]].
  apply bind_ok in H. destruct H as [c1 [H1 H]].
  apply Hinit in H0.
  apply (u_parse_document text context (token text) J j_token) in H1; [|exact H0].
  apply bind_ok in H. destruct H as [it [_ H]].
  apply bind_ok in H. destruct H as [he [_ H]].
  destruct (negb he); [discriminate|].
  destruct (1 <? len_N (c_parent_prefixes c1)); [discriminate|].
  inversion H; subst d. eauto.
Qed.
End Levels.

(* ---- scopes: the initial context and the theorem ---- *)

Lemma inv_token : forall text tok c c', token text tok c = Ok c' -> Inv text c -> Inv text c'.
Proof.
  intros text. apply (j_token text (InvD text)).
  - intros t r c c' H. apply inv_nstep. eapply append_text_nstep; eauto.
  - intros c c' H. apply inv_nstep. eapply reset_after_text_nstep; eauto.
  - intros kind r c id c' H Hk. apply inv_nstep. eapply append_node_nstep; eauto.
  - apply inv_process_attribute.
  - apply inv_process_element.
Qed.

Lemma init_doc : forall text opt c, init_context text opt = Ok c ->
  c_ns_start_idx c = 1 /\ ns_ok (c_doc c) /\ len_N (d_ns_tree (c_doc c)) = 1 /\
  (exists nd, d_nodes (c_doc c) = [nd] /\ nd_kind nd = KRoot) /\
  d_attrs (c_doc c) = [] /\ d_ns_values (c_doc c) = [xml_ns].
Proof.
  intros text opt c H. unfold init_context in H.
  apply bind_ok in H. destruct H as [d [Hpush H]]. inversion H; subst; clear H.
  cbn [c_ns_start_idx c_doc].
  match type of Hpush with push_ns _ _ _ ?d0 = _ => set (d0' := d0) in * end.
  assert (Hok0 : ns_ok d0').
  { intros p vi Hn. unfold nth_N in Hn. cbn in Hn. destruct (0 <=? p); [discriminate|].
    destruct (N.to_nat p); discriminate. }
  destruct (push_ns_appends text _ _ d0' d Hok0 Hpush) as [Hok [Hlen _]].
  change (len_N (d_ns_tree d0')) with 0 in Hlen.
  pose proof (push_ns_nodes _ _ _ _ _ Hpush) as Hn.
  repeat split; auto.
  - rewrite Hn. eexists; split; reflexivity.
  - unfold push_ns in Hpush. cbn in Hpush. inversion Hpush; reflexivity.
  - unfold push_ns in Hpush. cbn in Hpush. inversion Hpush; reflexivity.
Qed.

Lemma root_only_no_rows : forall X (sg : node_data -> option X) nodes nd id x,
  nodes = [nd] -> sg nd = None ->
  (exists n, nth_N nodes id = Some n /\ sg n = Some x) -> False.
Proof.
  intros X sg nodes nd id x -> Hs [n [Hn Hx]]. unfold nth_N in Hn. cbn in Hn.
  destruct (1 <=? id); [discriminate|].
  destruct (N.to_nat id) as [|k]; cbn in Hn; [|destruct k; discriminate].
  inversion Hn; subst. congruence.
Qed.

Lemma inv_init_context : forall text opt c, init_context text opt = Ok c -> Inv text c.
Proof.
  intros text opt c H.
  destruct (init_doc _ _ _ H) as [Hs [Hok [Hlen [[nd [Hn Hk]] _]]]].
  unfold Inv, InvD. rewrite Hs, Hlen. repeat split; auto; try lia.
  - intros own Ho. rewrite bindings_of_empty in Ho. inversion Ho; reflexivity.
  - exfalso. eapply (root_only_no_rows _ esig); eauto. unfold esig; rewrite Hk; reflexivity.
  - exfalso. eapply (root_only_no_rows _ esig); eauto. unfold esig; rewrite Hk; reflexivity.
Qed.

Lemma invD_elem_scopes_ok : forall text start d, InvD text start d -> elem_scopes_ok text d.
Proof.
  intros text start d [Hok [_ [_ Hrows]]]. split; [assumption|].
  intros id nd ns local attrs nss Hnd Hk.
  assert (Hr : erow (d_nodes d) id (nd_parent nd) nss).
  { exists nd. split; [assumption|]. unfold esig. rewrite Hk. reflexivity. }
  destruct (Hrows _ _ _ Hr) as [_ [sc [Hsc [Hu [_ Hpar]]]]].
  exists sc. repeat split; auto.
  intros pid pnd pns pl pa pnss psc Hp Hpnd Hpk Hpsc.
  eapply (Hpar pid (nd_parent pnd) pnss psc); eauto.
  exists pnd. split; [assumption|]. unfold esig. rewrite Hpk. reflexivity.
Qed.

Theorem parse_scopes_ok : forall text opt d, parse text opt = Ok d -> elem_scopes_ok text d.
Proof.
  intros text opt d H.
  destruct (j_parse text (InvD text)) with (6 := inv_init_context text opt) (7 := H) as [c [HI Hd]].
  - intros t r c c' H0. apply inv_nstep. eapply append_text_nstep; eauto.
  - intros c c' H0. apply inv_nstep. eapply reset_after_text_nstep; eauto.
  - intros kind r c id c' H0 Hk. apply inv_nstep. eapply append_node_nstep; eauto.
  - apply inv_process_attribute.
  - apply inv_process_element.
  - subst d. eapply invD_elem_scopes_ok. exact HI.
Qed.
Print Assumptions parse_scopes_ok.

(* ================================================================================== *)
(* ---- names: the tag name and the attribute names of every element resolve through
        the element's scope ---- *)

From RX.Proofs Require AttrListProofs.

(* the namespace index [r] stored in the document denotes the resolution [res] of the spec *)
Definition resolved_as (text : bytes) (d : document) (r : option N) (res : Scope.resolved) : Prop :=
  match res with
  | Scope.InNamespace u =>
    exists vi v, r = Some vi /\ nth_N (d_ns_values d) vi = Some v /\ storage_bytes text (ns_uri v) = u
  | Scope.NoNamespace => r = None
  | Scope.Unbound => False
  end.

Definition elem_names_ok (text : bytes) (d : document) : Prop :=
  forall id nd ns local attrs nss sc,
    nth_N (d_nodes d) id = Some nd -> nd_kind nd = KElement ns local attrs nss ->
    bindings_of text d nss = Some sc ->
    (exists prefix, resolved_as text d ns (Scope.resolve_elem sc prefix)) /\
    (forall i a, fst attrs <= i -> i < snd attrs -> nth_N (d_attrs d) i = Some a ->
       exists prefix, resolved_as text d (ad_ns_idx a) (Scope.resolve_attr sc prefix)).

(* value 0 is the xml namespace *)
Definition xml0 (text : bytes) (d : document) : Prop :=
  exists v, nth_N (d_ns_values d) 0 = Some v /\ storage_bytes text (ns_uri v) = Scope.xml_uri.

Definition esig2 (nd : node_data) : option (option N * range * range) :=
  match nd_kind nd with KElement ns _ attrs nss => Some (ns, attrs, nss) | _ => None end.

Definition row2_ok (text : bytes) (d : document) (x : option N * range * range) : Prop :=
  let '(ns, attrs, nss) := x in
  snd attrs <= len_N (d_attrs d) /\
  forall sc, bindings_of text d nss = Some sc ->
    (exists prefix, resolved_as text d ns (Scope.resolve_elem sc prefix)) /\
    (forall i a, fst attrs <= i -> i < snd attrs -> nth_N (d_attrs d) i = Some a ->
       exists prefix, resolved_as text d (ad_ns_idx a) (Scope.resolve_attr sc prefix)).

(* rows seen through a projection *)
Definition grow {X} (sg : node_data -> option X) (nodes : list node_data) (id : N) (x : X) : Prop :=
  exists nd, nth_N nodes id = Some nd /\ sg nd = Some x.

Definition InvN (text : bytes) (d : document) : Prop :=
  xml0 text d /\ forall id x, grow esig2 (d_nodes d) id x -> row2_ok text d x.

Definition Inv2D (text : bytes) (start : N) (d : document) : Prop := InvD text start d /\ InvN text d.

Lemma grow2_erow : forall nodes id ns attrs nss,
  grow esig2 nodes id (ns, attrs, nss) -> exists par, erow nodes id par nss.
Proof.
  intros nodes id ns attrs nss [nd [Hn Hs]]. exists (nd_parent nd), nd. split; [assumption|].
  unfold esig, esig2 in *. destruct (nd_kind nd); try discriminate. inversion Hs; reflexivity.
Qed.

Lemma resolved_as_le : forall text d d' r res,
  (forall vi v, nth_N (d_ns_values d) vi = Some v -> nth_N (d_ns_values d') vi = Some v) ->
  resolved_as text d r res -> resolved_as text d' r res.
Proof.
  intros text d d' r res Hle. destruct res; cbn [resolved_as]; auto.
  intros [vi [v [A [B C]]]]. exists vi, v. auto.
Qed.

Lemma name_resolved_elem : forall text d nss sc pos prefix r,
  xml0 text d -> bindings_of text d nss = Some sc ->
  get_ns_idx_by_prefix text nss pos prefix d = Ok r ->
  resolved_as text d r (Scope.resolve_elem sc (slice_bytes text prefix)).
Proof.
  intros text d nss sc pos prefix r [v0 [Hv0 Hu0]] Hsc H.
  pose proof (names_resolve text d nss pos prefix sc r Hsc H) as K. cbv zeta in K.
  unfold Scope.resolve_elem.
  change (Scope.bytes_eqb (slice_bytes text prefix) Scope.xml_prefix)
    with (bytes_eqb (slice_bytes text prefix) ns_xml_prefix).
  destruct (bytes_eqb (slice_bytes text prefix) ns_xml_prefix).
  - subst r. exists 0, v0. auto.
  - destruct r as [vi|].
    + destruct K as [v [Hv Hl]]. revert Hl.
      destruct (slice_bytes text prefix) as [|x pb]; intros Hl; cbv iota in Hl |- *.
      * change (Scope.lookup sc None = Some (storage_bytes text (ns_uri v))) in Hl.
        rewrite Hl. exists vi, v; auto.
      * change (Scope.lookup sc (@Some Scope.bytes (x :: pb)) = Some (storage_bytes text (ns_uri v))) in Hl.
        rewrite Hl. exists vi, v; auto.
    + destruct K as [E Hl]. rewrite E.
      change (Scope.lookup sc None = None) in Hl. rewrite Hl. reflexivity.
Qed.

Lemma name_resolved_attr : forall text d nss sc (t : temp_attr) (a : attr_data),
  xml0 text d -> bindings_of text d nss = Some sc ->
  (let pb := slice_bytes text (ta_prefix t) in
   if bytes_eqb pb ns_xml_prefix then ad_ns_idx a = Some 0
   else match pb with
        | [] => ad_ns_idx a = None
        | _ => get_ns_idx_by_prefix text nss (fst (ta_range t)) (ta_prefix t) d = Ok (ad_ns_idx a)
        end) ->
  resolved_as text d (ad_ns_idx a) (Scope.resolve_attr sc (slice_bytes text (ta_prefix t))).
Proof.
  intros text d nss sc t a [v0 [Hv0 Hu0]] Hsc H. cbv zeta in H.
  unfold Scope.resolve_attr.
  change (Scope.bytes_eqb (slice_bytes text (ta_prefix t)) Scope.xml_prefix)
    with (bytes_eqb (slice_bytes text (ta_prefix t)) ns_xml_prefix).
  destruct (bytes_eqb (slice_bytes text (ta_prefix t)) ns_xml_prefix) eqn:Ex.
  - rewrite H. exists 0, v0. auto.
  - destruct (slice_bytes text (ta_prefix t)) as [|x pb] eqn:Ep; [exact H|].
    pose proof (names_resolve text d nss _ _ sc _ Hsc H) as K. cbv zeta in K.
    rewrite Ep, Ex in K.
    destruct (ad_ns_idx a) as [vi|].
    + destruct K as [v [Hv Hl]].
      change (Scope.lookup sc (@Some Scope.bytes (x :: pb)) = Some (storage_bytes text (ns_uri v))) in Hl.
      rewrite Hl. exists vi, v. auto.
    + destruct K as [E _]. discriminate E.
Qed.

(* ---- general preservation lemma for InvN ---- *)
Lemma invN_change : forall text d d',
  InvN text d ->
  (forall id par nss, erow (d_nodes d) id par nss -> snd nss <= len_N (d_ns_tree d)) ->
  (forall vi v, nth_N (d_ns_values d) vi = Some v -> nth_N (d_ns_values d') vi = Some v) ->
  (forall p, p < len_N (d_ns_tree d) -> binding_at text d' p = binding_at text d p) ->
  (exists ax, d_attrs d' = d_attrs d ++ ax) ->
  (forall id x, grow esig2 (d_nodes d') id x ->
     grow esig2 (d_nodes d) id x \/ row2_ok text d' x) ->
  InvN text d'.
Proof.
  intros text d d' [Hx Hrows] Hsn Hle Hold [ax Hax] Hnew. split.
  - destruct Hx as [v [A B]]. exists v. auto.
  - intros id [[ns attrs] nss] Hr. destruct (Hnew _ _ Hr) as [Ho|Hn]; [|assumption].
    destruct (Hrows _ _ Ho) as [Ha Hsc]. cbn [row2_ok]. split.
    + rewrite Hax, len_N_app. lia.
    + intros sc Hb.
      destruct (grow2_erow _ _ _ _ _ Ho) as [par Her]. apply Hsn in Her.
      rewrite (bindings_of_old text d d' (len_N (d_ns_tree d))) in Hb by assumption.
      destruct (Hsc sc Hb) as [[pb Ht] Hat]. split.
      * exists pb. eapply resolved_as_le; eauto.
      * intros i a Hi1 Hi2 Hia. rewrite Hax, nth_N_app_l in Hia by lia.
        destruct (Hat i a Hi1 Hi2 Hia) as [pb' Hr']. exists pb'. eapply resolved_as_le; eauto.
Qed.

Lemma invD_rows_below : forall text start d,
  InvD text start d -> forall id par nss, erow (d_nodes d) id par nss -> snd nss <= len_N (d_ns_tree d).
Proof. intros text start d [_ [Hs [_ Hrows]]] id par nss Hr. apply Hrows in Hr. lia. Qed.

(* ---- node-only steps, seen through any projection ---- *)
Section Sig.
Variable X : Type.
Variable sg : node_data -> option X.
Definition gsafe (f : node_data -> node_data) : Prop :=
  forall nd, sg (f nd) = sg nd \/ sg (f nd) = None.
Hypothesis safe_prev' : forall v, gsafe (fun nd => nd_set_prev nd v).
Hypothesis safe_last' : forall v, gsafe (fun nd => nd_set_last_child nd v).
Hypothesis safe_next' : forall v, gsafe (fun nd => nd_set_next_subtree nd v).
Hypothesis safe_text' : forall s, gsafe (fun nd => nd_set_kind nd (KText s)).

Lemma upd_node_grow : forall nodes i f nodes',
  upd_node nodes i f = Ok nodes' -> gsafe f ->
  forall id x, grow sg nodes' id x -> grow sg nodes id x.
Proof.
  unfold upd_node. intros nodes i f nodes' H Hf id x [nd' [Hn Hs]].
  destruct (list_upd nodes (N.to_nat i) f) as [l|] eqn:E; [|discriminate]. inversion H; subst l.
  apply nth_N_nth_error in Hn.
  destruct (list_upd_nth _ _ _ _ _ E _ _ Hn) as [nd [Hnd Hx]].
  exists nd. split; [apply nth_error_nth_N; assumption|].
  destruct Hx as [-> | ->]; [assumption|].
  destruct (Hf nd) as [K|K]; congruence.
Qed.

Lemma set_next_subtree_all_grow : forall ids v nodes nodes',
  set_next_subtree_all nodes ids v = Ok nodes' ->
  forall id x, grow sg nodes' id x -> grow sg nodes id x.
Proof.
  induction ids as [|i r IH]; intros v nodes nodes' H id x Hr; cbn [set_next_subtree_all] in H.
  - inversion H; subst; assumption.
  - apply bind_ok in H. destruct H as [n1 [H1 H2]].
    eapply upd_node_grow; [exact H1|apply safe_next'|eapply IH; eauto].
Qed.

(* what a step does to the attributes and the projected rows *)
Definition gstep (c c' : context) : Prop :=
  d_attrs (c_doc c') = d_attrs (c_doc c) /\
  forall id x, grow sg (d_nodes (c_doc c')) id x -> grow sg (d_nodes (c_doc c)) id x.

Lemma gstep_refl : forall c, gstep c c.
Proof. unfold gstep; auto. Qed.

Lemma gstep_trans : forall c1 c2 c3, gstep c1 c2 -> gstep c2 c3 -> gstep c1 c3.
Proof. unfold gstep. intros c1 c2 c3 [A1 A2] [B1 B2]. split; [congruence|auto]. Qed.

Lemma append_node_grow : forall kind r c id c',
  append_node kind r c = Ok (id, c') ->
  d_attrs (c_doc c') = d_attrs (c_doc c) /\
  (forall j x, grow sg (d_nodes (c_doc c')) j x ->
     grow sg (d_nodes (c_doc c)) j x \/
     (j = len_N (d_nodes (c_doc c)) /\
      sg {| nd_parent := Some (c_parent_id c); nd_prev_sibling := None; nd_next_subtree := None;
            nd_last_child := None; nd_kind := kind; nd_range := r |} = Some x)).
Proof.
  intros kind r c id c' H. unfold append_node in H.
  destruct (nodes_limit (c_opt c) <=? len_N (d_nodes (c_doc c))); [discriminate|].
  apply bind_ok in H. destruct H as [new_id [_ H]].
  apply bind_ok in H. destruct H as [pnd [_ H]].
  apply bind_ok in H. destruct H as [n1 [H1 H]].
  apply bind_ok in H. destruct H as [n2 [H2 H]].
  apply bind_ok in H. destruct H as [n3 [H3 H]].
  inversion H; subst; clear H. cbn [c_doc set_awaiting set_doc set_nodes d_attrs d_nodes].
  split; [reflexivity|].
  intros j x Hr.
  apply (set_next_subtree_all_grow _ _ _ _ H3) in Hr.
  apply (upd_node_grow _ _ _ _ H2 (safe_last' _)) in Hr.
  apply (upd_node_grow _ _ _ _ H1 (safe_prev' _)) in Hr.
  destruct Hr as [nd [Hn Hs]].
  destruct (j <? len_N (d_nodes (c_doc c))) eqn:E.
  - left. exists nd. rewrite nth_N_app_l in Hn by lia. auto.
  - right. pose proof (nth_N_Some_lt _ _ _ _ Hn) as L. rewrite len_N_app in L.
    change (len_N [_]) with 1 in L.
    assert (j = len_N (d_nodes (c_doc c))) by lia. subst j.
    rewrite nth_N_app_len in Hn. inversion Hn; subst nd. auto.
Qed.

Lemma append_node_gstep : forall kind r c id c',
  append_node kind r c = Ok (id, c') ->
  (forall p a b e f, sg {| nd_parent := p; nd_prev_sibling := a; nd_next_subtree := b;
                           nd_last_child := e; nd_kind := kind; nd_range := f |} = None) ->
  gstep c c'.
Proof.
  intros kind r c id c' H Hk. destruct (append_node_grow _ _ _ _ _ H) as [A D].
  split; [assumption|]. intros j x Hr. destruct (D _ _ Hr) as [K|[_ K]]; [assumption|].
  rewrite Hk in K. discriminate.
Qed.

Hypothesis sg_text : forall p a b e f s,
  sg {| nd_parent := p; nd_prev_sibling := a; nd_next_subtree := b;
        nd_last_child := e; nd_kind := KText s; nd_range := f |} = None.

Lemma append_text_gstep : forall t r c c', append_text t r c = Ok c' -> gstep c c'.
Proof.
  intros t r c c' H. unfold append_text in H.
  apply bind_ok in H. destruct H as [c1 [H1 H]]. inversion H; subst; clear H.
  assert (gstep c c1).
  { destruct (c_after_text c).
    - apply bind_ok in H1. destruct H1 as [[i c2] [H1 H2]]. inversion H2; subst.
      eapply append_node_gstep; eauto.
    - inversion H1; subst. apply gstep_refl. }
  exact H.
Qed.

Lemma reset_after_text_gstep : forall text c c', reset_after_text text c = Ok c' -> gstep c c'.
Proof.
  intros text c c' H. unfold reset_after_text in H.
  destruct (c_after_text c) as [|y [|z l]].
  - inversion H; subst; apply gstep_refl.
  - inversion H; subst. split; auto.
  - apply bind_ok in H. destruct H as [c1 [H1 H]]. inversion H; subst; clear H.
    unfold merge_text in H1.
    destruct (rev (d_nodes (c_doc c))) as [|nd l']; [discriminate|].
    destruct (nd_kind nd); try discriminate.
    apply bind_ok in H1. destruct H1 as [n1 [H1 H]]. inversion H; subst; clear H.
    split; [reflexivity|]. cbn [c_doc set_after_text set_doc set_nodes d_nodes].
    eapply upd_node_grow; [exact H1|apply safe_text'].
Qed.
End Sig.

Lemma esig2_safe : forall f, (forall nd, nd_kind (f nd) = nd_kind nd) -> gsafe _ esig2 f.
Proof. intros f Hf nd. left. unfold esig2. rewrite Hf. reflexivity. Qed.

(* node-only steps preserve the combined invariant *)
Lemma inv2_nodes : forall text c c',
  nstep c c' -> gstep _ esig2 c c' ->
  Jof (Inv2D text) c -> Jof (Inv2D text) c'.
Proof.
  intros text c c' Hn [Ga Gr] [HI HN]. split; [exact (inv_nstep text c c' Hn HI)|].
  destruct Hn as [N1 [N2 [N3 _]]].
  apply (invN_change text (c_doc c) (c_doc c')); auto.
  - eapply invD_rows_below; eauto.
  - intros vi v. rewrite N2. auto.
  - intros; apply binding_at_ns_eq; assumption.
  - exists []. rewrite app_nil_r. assumption.
Qed.

(* ---- instances of the projection lemmas for esig2 ---- *)
Lemma e2_prev : forall v, gsafe _ esig2 (fun nd => nd_set_prev nd v).
Proof. intros v nd; left; reflexivity. Qed.
Lemma e2_last : forall v, gsafe _ esig2 (fun nd => nd_set_last_child nd v).
Proof. intros v nd; left; reflexivity. Qed.
Lemma e2_next : forall v, gsafe _ esig2 (fun nd => nd_set_next_subtree nd v).
Proof. intros v nd; left; reflexivity. Qed.
Lemma e2_range_end : forall v, gsafe _ esig2 (fun nd => nd_set_range_end nd v).
Proof. intros v nd; left; reflexivity. Qed.
Lemma e2_text : forall s, gsafe _ esig2 (fun nd => nd_set_kind nd (KText s)).
Proof. intros s nd; right; reflexivity. Qed.

Lemma inv2_append_text : forall text t r c c',
  append_text t r c = Ok c' -> Jof (Inv2D text) c -> Jof (Inv2D text) c'.
Proof.
  intros text t r c c' H. apply inv2_nodes.
  - eapply append_text_nstep; eauto.
  - eapply (append_text_gstep _ esig2 e2_prev e2_last e2_next); eauto.
Qed.

Lemma inv2_reset : forall text c c',
  reset_after_text text c = Ok c' -> Jof (Inv2D text) c -> Jof (Inv2D text) c'.
Proof.
  intros text c c' H. apply inv2_nodes.
  - eapply reset_after_text_nstep; eauto.
  - eapply (reset_after_text_gstep _ esig2 e2_text); eauto.
Qed.

Lemma inv2_node : forall text kind r c id c',
  append_node kind r c = Ok (id, c') -> is_element_kind kind = false ->
  Jof (Inv2D text) c -> Jof (Inv2D text) c'.
Proof.
  intros text kind r c id c' H Hk. apply inv2_nodes.
  - eapply append_node_nstep; eauto.
  - eapply (append_node_gstep _ esig2 e2_prev e2_last e2_next); eauto.
    intros. unfold esig2. cbn [nd_kind]. destruct kind; try reflexivity. discriminate Hk.
Qed.

(* ---- declarations ---- *)
Lemma push_ns_values_le : forall text name uri d d',
  push_ns text name uri d = Ok d' ->
  d_attrs d' = d_attrs d /\
  forall vi v, nth_N (d_ns_values d) vi = Some v -> nth_N (d_ns_values d') vi = Some v.
Proof.
  intros text name uri d d' H. unfold push_ns in H.
  destruct (find_ns _ _ _ _ _).
  - inversion H; subst; auto.
  - destruct (ns_values_limit <? len_N (d_ns_values d)); [discriminate|]. inversion H; subst.
    cbn [d_attrs d_ns_values]. split; [reflexivity|].
    intros vi v Hv. rewrite nth_N_app_l; [assumption|]. eapply nth_N_Some_lt; eauto.
Qed.

Lemma invN_push : forall text start d d' name uri,
  InvD text start d -> InvN text d -> push_ns text name uri d = Ok d' -> InvN text d'.
Proof.
  intros text start d d' name uri HI HN H.
  destruct (push_ns_values_le _ _ _ _ _ H) as [Ha Hle].
  pose proof HI as [Hok _].
  destruct (push_ns_appends text name uri d d' Hok H) as [_ [_ [_ Hold]]].
  apply (invN_change text d d'); auto.
  - eapply invD_rows_below; eauto.
  - exists []. rewrite app_nil_r. assumption.
  - intros id x Hr. left. rewrite <- (push_ns_nodes _ _ _ _ _ H). assumption.
Qed.

Lemma inv2_process_attribute : forall text r qn eq prefix local value c c',
  process_attribute text r qn eq prefix local value c = Ok c' ->
  Jof (Inv2D text) c -> Jof (Inv2D text) c'.
Proof.
  intros text r qn eq prefix local value c c' H [HI HN].
  split; [eapply inv_process_attribute; eauto|].
  unfold process_attribute in H.
  apply bind_ok in H. destruct H as [[v c1] [Hn H]].
  apply normalize_attribute_frame in Hn. destruct Hn as [Hd Hs].
  assert (HI1 : Inv text c1) by (unfold Inv; rewrite Hd, Hs; exact HI).
  assert (HN1 : InvN text (c_doc c1)) by (rewrite Hd; exact HN). clear HI HN Hd Hs.
  usteps; try exact HN1.
  - eapply (invN_push text _ (c_doc c1)); eauto.
  - eapply (invN_push text _ (c_doc c1)); eauto.
Qed.

(* ---- elements ---- *)
Lemma resolve_ns_loop_attrs : forall text start is d d',
  resolve_ns_loop text start is d = Ok d' -> d_attrs d' = d_attrs d.
Proof.
  induction is as [|i r IH]; intros d d' H; cbn [resolve_ns_loop] in H.
  - inversion H; subst; reflexivity.
  - apply bind_ok in H. destruct H as [vidx [_ H]].
    apply bind_ok in H. destruct H as [name [_ H]].
    apply bind_ok in H. destruct H as [ex [_ H]].
    apply bind_ok in H. destruct H as [d1 [H1 H]].
    apply IH in H. rewrite H. destruct ex.
    + inversion H1; subst; reflexivity.
    + unfold push_ref in H1. destruct (nth_N (d_ns_tree d) i); [|discriminate].
      inversion H1; subst; reflexivity.
Qed.

Lemma resolve_namespaces_attrs : forall text c nsr c1,
  resolve_namespaces text c = Ok (nsr, c1) -> d_attrs (c_doc c1) = d_attrs (c_doc c).
Proof.
  intros text c nsr c1 H. unfold resolve_namespaces in H.
  destruct (nth_N (d_nodes (c_doc c)) (c_parent_id c)) as [pnd|]; [|discriminate].
  cbn [bind] in H.
  assert (Hroot :
    (let! r0 := ns_range_checked (c_ns_start_idx c) (len_N (d_ns_tree (c_doc c))) in Ok (r0, c))
      = Ok (nsr, c1) -> d_attrs (c_doc c1) = d_attrs (c_doc c)).
  { intros H0. apply bind_ok in H0. destruct H0 as [r0 [_ H0]]. inversion H0; subst; reflexivity. }
  destruct (nd_kind pnd) as [|ns_idx local attrs nss| | |]; auto.
  destruct (c_ns_start_idx c =? len_N (d_ns_tree (c_doc c))).
  - inversion H; subst; reflexivity.
  - destruct nss as [pa pe].
    apply bind_ok in H. destruct H as [d1 [Hl H]].
    apply bind_ok in H. destruct H as [r1 [_ H]]. inversion H; subst; clear H.
    apply resolve_ns_loop_attrs in Hl. exact Hl.
Qed.

Lemma nth_N_app_r_In : forall A (l l' : list A) i a,
  len_N l <= i -> nth_N (l ++ l') i = Some a -> In a l'.
Proof.
  intros A l l' i a Hi H. apply nth_N_nth_error in H.
  rewrite nth_error_app2 in H by (unfold len_N in Hi; lia).
  eapply nth_error_In; eauto.
Qed.

Lemma Forall2_in_r : forall A B (R : A -> B -> Prop) l l' y,
  Forall2 R l l' -> In y l' -> exists x, In x l /\ R x y.
Proof.
  induction 1 as [|x0 y0 l l' H0 _ IH]; intros Hy; [destruct Hy|].
  destruct Hy as [<-|Hy].
  - exists x0; split; [left; reflexivity|assumption].
  - destruct (IH Hy) as [x [Hx Hr]]. exists x; split; [right; assumption|assumption].
Qed.

Lemma row2_ok_eq : forall text d d' x,
  d_attrs d' = d_attrs d -> d_ns_values d' = d_ns_values d -> d_ns_tree d' = d_ns_tree d ->
  row2_ok text d x -> row2_ok text d' x.
Proof.
  intros text d d' [[ns attrs] nss] Ha Hv Ht [H1 H2]. cbn [row2_ok]. rewrite Ha. split; [assumption|].
  intros sc Hsc. rewrite (bindings_of_ns_eq text d d') in Hsc by assumption.
  assert (Hle : forall vi v, nth_N (d_ns_values d) vi = Some v -> nth_N (d_ns_values d') vi = Some v)
    by (intros vi v; rewrite Hv; auto).
  destruct (H2 sc Hsc) as [[pb Hp] Hat]. split.
  - exists pb. eapply resolved_as_le; eauto.
  - intros i a Hi1 Hi2 Hia. destruct (Hat i a Hi1 Hi2 Hia) as [pb' Hr]. exists pb'.
    eapply resolved_as_le; eauto.
Qed.

Lemma inv2_process_element : forall text e r c c',
  process_element text e r c = Ok c' -> Jof (Inv2D text) c -> Jof (Inv2D text) c'.
Proof.
  intros text e r c c' H [HI HN]. split; [eapply inv_process_element; eauto|].
  unfold process_element in H.
  destruct (slice_len (tn_name (c_tag_name c)) =? 0); [destruct e; usteps|].
  apply bind_ok in H. destruct H as [[nsr c1] [Hrn H]].
  destruct (resolve_namespaces_inv text c nsr c1 HI Hrn)
    as [P1 [P2 [HI1 [pnd [sc [Hp [Hsc [Hu [Hsn Hpc]]]]]]]]].
  destruct (resolve_namespaces_frame _ _ _ _ Hrn) as [pnd' [tx [_ [_ [_ [_ [F4 [F5 _]]]]]]]].
  pose proof (resolve_namespaces_attrs _ _ _ _ Hrn) as Fa.
  assert (HN1 : InvN text (c_doc c1)).
  { apply (invN_change text (c_doc c) (c_doc c1)); auto.
    - eapply invD_rows_below; exact HI.
    - intros vi v; rewrite F4; auto.
    - intros p Hlt. unfold binding_at. rewrite F4, F5, nth_N_app_l by assumption. reflexivity.
    - exists []; rewrite app_nil_r; assumption.
    - intros id x Hr. left. rewrite <- P2. assumption. }
  apply bind_ok in H. destruct H as [[attrs c3] [Hra H]].
  destruct (resolve_attributes_frame _ _ _ _ _ Hra) as [Q1 [Q2 [Q3 [Q4 Q5]]]].
  destruct (AttrListProofs.resolve_attributes_in_order _ _ _ _ _ Hra)
    as [_ [[new [Hnew _]] [Hr _]]].
  pose proof (AttrListProofs.resolve_attributes_namespace _ _ _ _ _ new Hra Hnew) as Hnsp.
  cbn [c_parent_id c_ns_start_idx c_doc c_cur_attrs set_ns_start_idx] in Q1, Q2, Q3, Q4, Q5, Hnew, Hr, Hnsp.
  assert (HI3 : Inv text c3).
  { unfold Inv. rewrite Q2. eapply invD_nodes; eauto. rewrite Q3; auto. }
  assert (Hb : forall q, bindings_of text (c_doc c3) q = bindings_of text (c_doc c1) q)
    by (intros; apply bindings_of_ns_eq; assumption).
  assert (HN3 : InvN text (c_doc c3)).
  { apply (invN_change text (c_doc c1) (c_doc c3)); auto.
    - eapply invD_rows_below; exact HI1.
    - intros vi v; rewrite Q4; auto.
    - intros; apply binding_at_ns_eq; assumption.
    - exists new; assumption.
    - intros id x Hr0. left. rewrite <- Q3. assumption. }
  assert (Hsc3 : bindings_of text (c_doc c3) nsr = Some sc) by (rewrite Hb; assumption).
  assert (Hattrs : snd attrs <= len_N (d_attrs (c_doc c3)) /\
    forall i a, fst attrs <= i -> i < snd attrs -> nth_N (d_attrs (c_doc c3)) i = Some a ->
      exists pb, resolved_as text (c_doc c3) (ad_ns_idx a) (Scope.resolve_attr sc pb)).
  { rewrite Hr. destruct (c_cur_attrs c1) as [|t0 l0] eqn:Ec; cbn [fst snd].
    - split; [lia|]. intros; lia.
    - split; [lia|]. intros i a Hi1 Hi2 Hia. rewrite Hnew in Hia.
      apply nth_N_app_r_In in Hia; [|assumption].
      destruct (Forall2_in_r _ _ _ _ _ _ Hnsp Hia) as [t [_ Ht]].
      exists (slice_bytes text (ta_prefix t)).
      eapply name_resolved_attr; eauto. exact (proj1 HN3). }
  assert (Hnew_row : forall tag l0 r0 id c4 pos prefix,
    get_ns_idx_by_prefix text nsr pos prefix (c_doc c3) = Ok tag ->
    append_node (KElement tag l0 attrs nsr) r0 c3 = Ok (id, c4) -> InvN text (c_doc c4)).
  { intros tag l0 r0 id c4 pos prefix Htag Han.
    destruct (append_node_rows _ _ _ _ _ Han) as [_ [B [C _]]].
    destruct (append_node_grow _ esig2 e2_prev e2_last e2_next _ _ _ _ _ Han) as [A D].
    apply (invN_change text (c_doc c3) (c_doc c4)); auto.
    - eapply invD_rows_below; exact HI3.
    - intros vi v; rewrite B; auto.
    - intros; apply binding_at_ns_eq; assumption.
    - exists []; rewrite app_nil_r; assumption.
    - intros j x Hj. destruct (D _ _ Hj) as [K|[_ K]]; [left; assumption|]. right.
      unfold esig2 in K. cbn [nd_kind] in K. inversion K; subst x.
      apply (row2_ok_eq text (c_doc c3)); auto.
      cbn [row2_ok]. split; [exact (proj1 Hattrs)|].
      intros sc' Hsc'. rewrite Hsc3 in Hsc'. inversion Hsc'; subst sc'. split.
      + exists (slice_bytes text prefix). eapply name_resolved_elem; eauto. exact (proj1 HN3).
      + exact (proj2 Hattrs). }
  destruct e.
  - (* EOpen *)
    apply bind_ok in H. destruct H as [tag [Htag H]].
    apply bind_ok in H. destruct H as [[id c4] [Han H]]. inversion H; subst; clear H.
    cbn [c_doc set_parent_prefixes set_parent_id]. eapply Hnew_row; eauto.
  - (* EClose *)
    clear Hnew_row. usteps.
    all: cbn [c_doc set_parent_prefixes set_parent_id set_awaiting set_doc];
      apply (invN_change text (c_doc c3));
      [ exact HN3
      | eapply invD_rows_below; exact HI3
      | intros vi v Hv; exact Hv
      | intros; apply binding_at_ns_eq; reflexivity
      | exists []; rewrite app_nil_r; reflexivity
      | intros j x Hj; left; cbn [d_nodes set_nodes] in Hj;
        eapply upd_node_grow; [eassumption|apply e2_range_end|exact Hj] ].
  - (* EEmpty *)
    apply bind_ok in H. destruct H as [tag [Htag H]].
    apply bind_ok in H. destruct H as [[id c4] [Han H]]. inversion H; subst; clear H.
    cbn [c_doc set_awaiting]. eapply Hnew_row; eauto.
Qed.

(* ---- the theorem ---- *)
Lemma inv2_init_context : forall text opt c,
  init_context text opt = Ok c -> Jof (Inv2D text) c.
Proof.
  intros text opt c H. split; [exact (inv_init_context _ _ _ H)|].
  destruct (init_doc _ _ _ H) as [_ [_ [_ [[nd [Hn Hk]] [_ Hv]]]]].
  split.
  - exists (xml_ns). rewrite Hv. split; reflexivity.
  - intros id x Hr. exfalso. eapply (root_only_no_rows _ esig2); eauto.
    unfold esig2; rewrite Hk; reflexivity.
Qed.

Theorem parse_names_ok : forall text opt d, parse text opt = Ok d -> elem_names_ok text d.
Proof.
  intros text opt d H.
  destruct (j_parse text (Inv2D text)) with (6 := inv2_init_context text opt) (7 := H)
    as [c [[_ [_ Hrows]] Hd]].
  - apply inv2_append_text.
  - apply inv2_reset.
  - apply inv2_node.
  - apply inv2_process_attribute.
  - apply inv2_process_element.
  - subst d. intros id nd ns local attrs nss sc Hnd Hk Hsc.
    assert (Hr : grow esig2 (d_nodes (c_doc c)) id (ns, attrs, nss)).
    { exists nd. split; [assumption|]. unfold esig2. rewrite Hk. reflexivity. }
    apply Hrows in Hr. destruct Hr as [_ Hr]. exact (Hr sc Hsc).
Qed.
Print Assumptions parse_names_ok.
