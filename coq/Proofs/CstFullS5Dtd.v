(* Proofs/CstFullS5Dtd.v -- the capstone fragment, stage S5 (Spec/CstFullS5.v): the DOCTYPE.  External
   identifiers; in the internal subset parameter entity declarations, external / unparsed
   entity declarations and ELEMENT / ATTLIST / NOTATION declarations are lexed without any
   token; general internal entity declarations are recorded (Proofs/CstFullS3Dtd.v with S for
   white space); comments and PIs are appended under the Root node.  [doctype_ok]: parse_doctype
   with the real callback on the rendering of a well-formed DOCTYPE. *)
From Coq Require Import Ascii String.
From Coq Require Import List NArith PeanoNat Bool Lia ZifyBool ZifyN ZifyNat.
Import ListNotations.
From RX Require Import Generated.
From RX.Model Require Import Base CharClass Stream Tokenizer Doc Builder Parse.
From RX.Spec Require Cst CstText CstEnt CstU CstNs Chars Scope.
From RX.Spec Require Import Text CstFull CstFullS5.
From RX.Proofs Require Import Tactics CstLex CstBuild CstNsLex CstNsView CstNsBuild CstULex CstFullLex CstFullBuild CstFullTree CstEntDtd.
From RX.Proofs Require Import CstFullS2Sem CstFullS3Sem CstFullS3Text CstFullS3Dtd CstFullS3Plug.
From RX.Proofs Require Import CstFullS5Ws CstFullS5Lex CstFullS5Items CstFullS5Doc.
From RX.Proofs Require CstDoc CstSoundTText CstFullS3 CstNsItems CstNsDoc DeclBodyLex.
From RX.Proofs Require Import PubidChar.
Open Scope N_scope.

Ltac clia := repeat match goal with H : @eq bool _ true |- _ => clear H end; lia.

(* ------------------------------------------------------------------------------------------ *)
(* bytes of encoded scalars                                                                   *)
(* ------------------------------------------------------------------------------------------ *)
Lemma utf8s_forall (P : N -> bool) : (forall y, 128 <= y -> P y = true) ->
  forall cs, forallb P cs = true -> forallb P (utf8s cs) = true.
Proof.
  intros HP. induction cs as [|c cs IH]; intros H; [reflexivity|]. cbn [forallb] in H. apply andb_true_iff in H.
  destruct H as [H1 H2]. rewrite utf8s_cons, forallb_app, (IH H2), andb_true_r.
  destruct (N.lt_ge_cases c 128) as [L|L].
  - rewrite (utf8_ascii c L). cbn [forallb]. rewrite H1. reflexivity.
  - destruct (utf8_high c L) as (Hall & _). apply forallb_forall. intros y Hy. apply HP.
    rewrite Forall_forall in Hall. apply Hall. exact Hy.
Qed.

Lemma scalars_valid v : forallb Chars.scalar v = true -> U8.Valid (utf8s v).
Proof.
  intros H. apply Valid_utf8s. apply Forall_forall. intros c Hc. rewrite forallb_forall in H.
  rewrite <- CstSoundTText.scalar_eq. apply H. exact Hc.
Qed.

Lemma syslit_parts q v : wf_syslit q v = true ->
  (q = 39 \/ q = 34) /\ U8.Valid (utf8s v) /\ forallb (fun y => negb (y =? q)) (utf8s v) = true /\
  forallb Chars.xml_Char v = true.
Proof.
  unfold wf_syslit. intros H. apply andb_true_iff in H. destruct H as [Hq Hv]. pose proof (is_quote_cases _ Hq) as Hq'.
  assert (Hc : forallb Chars.xml_Char v = true).
  { revert Hv. apply forallb_imp. intros x Hx. apply andb_true_iff in Hx. apply Hx. }
  split; [exact Hq'|]. split; [|split; [|exact Hc]].
  - apply Valid_utf8s, chars_scalars, uchars_of. exact Hc.
  - apply utf8s_forall; [intros y Hy; clear - Hq' Hy; lia|]. revert Hv. apply forallb_imp. intros x Hx.
    apply andb_true_iff in Hx. apply Hx.
Qed.

(* the model's byte class of a PubidLiteral is the PubidChar of the recommendation *)
Lemma pubid_char_spec x : CharClass.pubid_char x = xml_PubidChar x.
Proof.
  unfold CharClass.pubid_char, is_ascii_alphanumeric, is_ascii_digit, CharClass.pubid_punct, xml_PubidChar, pubid_punct.
  cbn [mem_b existsb]. lia.
Qed.

Lemma publit_parts q v : wf_publit q v = true ->
  (q = 39 \/ q = 34) /\ utf8s v = v /\ forallb (fun y => y <? 128) v = true /\
  forallb (fun x => negb (x =? q) && CharClass.pubid_char x) v = true.
Proof.
  unfold wf_publit. intros H. apply andb_true_iff in H. destruct H as [Hq Hv]. pose proof (is_quote_cases _ Hq) as Hq'.
  assert (Ha : forallb (fun y => y <? 128) v = true).
  { revert Hv. apply forallb_imp. intros x Hx. apply andb_true_iff in Hx. destruct Hx as [Hx _].
    rewrite <- pubid_char_spec in Hx. apply pubid_char_ltb128. exact Hx. }
  split; [exact Hq'|]. split; [apply CstFullS2Sem.utf8s_ascii; exact Ha|]. split; [exact Ha|].
  revert Hv. apply forallb_imp. intros x Hx. apply andb_true_iff in Hx. destruct Hx as [Hx Hn].
  rewrite pubid_char_spec, Hx, Hn. reflexivity.
Qed.

Lemma quote_lit q : q = 39 \/ q = 34 -> forallb (fun y => y <? 128) [q] = true.
Proof. intros [-> | ->]; reflexivity. Qed.

Lemma syslit_valid q v : wf_syslit q v = true -> U8.Valid (r_lit q v).
Proof.
  intros H. destruct (syslit_parts q v H) as (Hq & Hv & _). unfold r_lit.
  repeat apply U8.Valid_app; try assumption; apply Valid_lit, quote_lit; exact Hq.
Qed.

Lemma publit_valid q v : wf_publit q v = true -> U8.Valid (r_lit q v).
Proof.
  intros H. destruct (publit_parts q v H) as (Hq & Hu & Ha & _). unfold r_lit. rewrite Hu.
  repeat apply U8.Valid_app; try (apply Valid_lit; exact Ha); apply Valid_lit, quote_lit; exact Hq.
Qed.

Lemma extid_valid x : wf_extid x = true -> U8.Valid (r_extid x).
Proof.
  destruct x as [ws q s|ws q p ws' q' s]; cbn [wf_extid r_extid]; rewrite !andb_true_iff.
  - intros [H1 H2]. destruct (s1_parts _ H1) as [_ Hw].
    apply U8.Valid_app; [apply Valid_lit; reflexivity|]. apply U8.Valid_app; [apply s_valid; exact Hw|apply syslit_valid; exact H2].
  - intros [[[H1 H2] H3] H4]. destruct (s1_parts _ H1) as [_ Hw]. destruct (s1_parts _ H3) as [_ Hw'].
    apply U8.Valid_app; [apply Valid_lit; reflexivity|]. apply U8.Valid_app; [apply s_valid; exact Hw|].
    apply U8.Valid_app; [apply publit_valid; exact H2|]. apply U8.Valid_app; [apply s_valid; exact Hw'|apply syslit_valid; exact H4].
Qed.

Section Lex.
Variable text : bytes.

Notation W := (CstLex.W text).
Notation WV := (CstULex.WV text).
Notation st := (CstLex.st text).

Lemma consume_spaces_s p w l : W p (w ++ l) -> w <> [] -> wf_s w = true -> stops byte_is_space l ->
  consume_spaces text (st p (w ++ l)) = Ok (st (p + blen w) l).
Proof.
  intros HW Hne Hw Hs. unfold consume_spaces. rewrite (at_end_st text) by exact HW.
  destruct w as [|x w]; [congruence|]. cbn [app] in HW |- *. unfold starts_with_space.
  rewrite (curr_byte_opt_st text) by exact HW.
  destruct (s_head _ _ Hw) as (_ & _ & Hx).
  rewrite Hx. cbn [negb]. f_equal. change (x :: w ++ l) with ((x :: w) ++ l).
  apply (skip_spaces_st text); [exact HW|apply s_spaces; exact Hw|exact Hs].
Qed.

Lemma starts_with_space_s p w l : W p (w ++ l) -> w <> [] -> wf_s w = true ->
  starts_with_space (st p (w ++ l)) = true.
Proof.
  intros HW Hne Hw. destruct w as [|x w]; [congruence|]. cbn [app] in HW |- *. unfold starts_with_space.
  rewrite (curr_byte_opt_st text) by exact HW. destruct (s_head _ _ Hw) as (_ & _ & Hx). exact Hx.
Qed.

Lemma s1_name_stop w l : wf_s1 w = true -> name_stop (w ++ l).
Proof.
  intros H. destruct (s1_parts _ H) as [Hne Hw]. destruct w as [|x w]; [congruence|]. cbn [app name_stop].
  apply s_not_name_byte. cbn [wf_s forallb] in Hw. apply andb_true_iff in Hw. apply Hw.
Qed.

Lemma consume_quote_st p q l : W p (q :: l) -> q = 39 \/ q = 34 ->
  consume_quote text (st p (q :: l)) = Ok (q, st (p + 1) l).
Proof.
  intros HW Hq. unfold consume_quote. rewrite (curr_byte_st text) by exact HW. cbn [bind].
  replace ((q =? 39) || (q =? 34)) with true by (destruct Hq as [-> | ->]; reflexivity).
  rewrite (advance1_st text) by exact HW. reflexivity.
Qed.

Lemma consume_bytes_st f p x l : WV p (x ++ l) -> U8.Valid x -> forallb f x = true -> stops f l ->
  consume_bytes text f (st p (x ++ l)) = Ok (sl p (p + blen x), st (p + blen x) l).
Proof.
  intros HW Hx Hf Hl. unfold consume_bytes. rewrite (skip_bytes_st text) by (try assumption; apply (WV_W _ _ _ HW)).
  unfold slice_back. cbn [CstLex.st s_pos]. rewrite (mk_slice_v text p x l HW Hx). reflexivity.
Qed.

(* a quoted system literal: Chars, not read otherwise *)
Lemma syslit_steps p q v rest : WV p (r_lit q v ++ rest) -> wf_syslit q v = true ->
  parse_external_literal text (st p (r_lit q v ++ rest)) = Ok (st (p + blen (r_lit q v)) rest) /\
  WV (p + blen (r_lit q v)) rest.
Proof.
  intros HW Hl. destruct (syslit_parts q v Hl) as (Hq & Hv & Hnq & Hc).
  unfold r_lit in *. rewrite <- !app_assoc in *. cbn [app] in *.
  pose proof (WV_cons _ _ _ _ HW ltac:(clear - Hq; lia)) as HW1.
  pose proof (WV_app _ _ _ _ HW1 Hv) as HW2.
  assert (E : p + blen (q :: utf8s v ++ [q]) = p + 1 + blen (utf8s v) + 1).
  { rewrite blen_cons, blen_app, blen_cons, blen_nil. lia. }
  rewrite E. split; [|apply (WV_cons _ _ _ _ HW2); clear - Hq; lia].
  unfold parse_external_literal.
  rewrite consume_quote_st by (try exact Hq; apply (WV_W _ _ _ HW)). cbn [bind]. cbv zeta.
  rewrite consume_bytes_st; [|exact HW1|exact Hv|exact Hnq|cbn [stops]; rewrite N.eqb_refl; reflexivity].
  cbn [bind].
  rewrite (is_xml_str_u text _ v _ _ (WV_W _ _ _ HW1) (uchars_of v Hc)). cbn [bind].
  apply (consume_byte_st text). apply (WV_W _ _ _ HW2).
Qed.

(* a quoted public literal: PubidChars *)
Lemma publit_steps p q v rest : WV p (r_lit q v ++ rest) -> wf_publit q v = true ->
  parse_pubid_literal text (st p (r_lit q v ++ rest)) = Ok (st (p + blen (r_lit q v)) rest) /\
  WV (p + blen (r_lit q v)) rest.
Proof.
  intros HW Hl. destruct (publit_parts q v Hl) as (Hq & Hu & Ha & Hp).
  unfold r_lit in *. rewrite Hu in *. rewrite <- !app_assoc in *. cbn [app] in *.
  pose proof (WV_cons _ _ _ _ HW ltac:(clear - Hq; lia)) as HW1.
  pose proof (WV_lit _ _ _ _ HW1 Ha) as HW2.
  assert (E : p + blen (q :: v ++ [q]) = p + 1 + blen v + 1).
  { rewrite blen_cons, blen_app, blen_cons, blen_nil. lia. }
  rewrite E. split; [|apply (WV_cons _ _ _ _ HW2); clear - Hq; lia].
  unfold parse_pubid_literal.
  rewrite consume_quote_st by (try exact Hq; apply (WV_W _ _ _ HW)). cbn [bind]. cbv zeta.
  rewrite (skip_bytes_st text); [|apply (WV_W _ _ _ HW1)|exact Hp|cbn [stops]; rewrite N.eqb_refl; reflexivity].
  rewrite (curr_byte_st text) by (apply (WV_W _ _ _ HW2)). cbn [bind]. rewrite N.eqb_refl. cbn [negb].
  apply (advance1_st text). apply (WV_W _ _ _ HW2).
Qed.

Lemma extid_head x rest : exists b0 l, r_extid x ++ rest = b0 :: l /\ (b0 = 83 \/ b0 = 80) /\ byte_is_space b0 = false.
Proof. destruct x; cbn [r_extid kw_system kw_public app]; eexists; eexists; (split; [reflexivity|split; [auto|reflexivity]]). Qed.

Lemma lex_extid p x rest : WV p (r_extid x ++ rest) -> wf_extid x = true ->
  parse_external_id text (st p (r_extid x ++ rest)) = Ok (true, st (p + blen (r_extid x)) rest).
Proof.
  intros HW Hwf. pose proof (WV_W _ _ _ HW) as HW0. unfold parse_external_id. rewrite !(starts_with_st text) by exact HW0.
  destruct x as [ws q s|ws q pb ws' q' s]; cbn [wf_extid r_extid] in *; rewrite !andb_true_iff in Hwf; rewrite <- !app_assoc in *.
  - destruct Hwf as [H1 H2]. destruct (s1_parts _ H1) as [Hne Hw]. destruct (syslit_parts _ _ H2) as (Hq & _).
    change (b "SYSTEM") with kw_system. rewrite prefix_b_app_same. cbn [orb CstLex.st s_pos].
    fold (st p (kw_system ++ ws ++ r_lit q s ++ rest)).
    rewrite (advance_st text 6 p kw_system) by (try reflexivity; exact HW0). cbn [bind].
    unfold slice_back. cbn [CstLex.st s_pos]. change 6 with (blen kw_system) at 1.
    rewrite (mk_slice_v text p kw_system _ HW) by (apply Valid_lit; reflexivity). cbn [bind].
    pose proof (WV_lit _ _ _ _ HW (eq_refl : forallb (fun y => y <? 128) kw_system = true)) as HW1. change (blen kw_system) with 6 in *.
    rewrite consume_spaces_s; [|apply (WV_W _ _ _ HW1)|exact Hne|exact Hw|unfold r_lit; cbn [app stops]; apply quote_not_space; exact Hq].
    cbn [bind]. pose proof (WV_lit _ _ _ _ HW1 (s_lit _ Hw)) as HW2.
    destruct (syslit_steps _ _ _ _ HW2 H2) as (E1 & HW3).
    change (sl p (p + 6)) with (sl p (p + blen kw_system)). rewrite (W_slice _ _ kw_system _ HW0). replace (bytes_eqb kw_system kw_system) with true by reflexivity.
    rewrite E1. cbn [bind].
    f_equal. f_equal. f_equal. rewrite !blen_app. change (blen kw_system) with 6. clear. lia.
  - destruct Hwf as [[[H1 H2] H3] H4]. destruct (s1_parts _ H1) as [Hne Hw]. destruct (s1_parts _ H3) as [Hne' Hw'].
    destruct (publit_parts _ _ H2) as (Hq & _). destruct (syslit_parts _ _ H4) as (Hq' & _).
    change (b "PUBLIC") with kw_public. rewrite prefix_b_app_same. rewrite orb_true_r. cbn [CstLex.st s_pos].
    fold (st p (kw_public ++ ws ++ r_lit q pb ++ ws' ++ r_lit q' s ++ rest)).
    rewrite (advance_st text 6 p kw_public) by (try reflexivity; exact HW0). cbn [bind].
    unfold slice_back. cbn [CstLex.st s_pos]. change 6 with (blen kw_public) at 1.
    rewrite (mk_slice_v text p kw_public _ HW) by (apply Valid_lit; reflexivity). cbn [bind].
    pose proof (WV_lit _ _ _ _ HW (eq_refl : forallb (fun y => y <? 128) kw_public = true)) as HW1. change (blen kw_public) with 6 in *.
    rewrite consume_spaces_s; [|apply (WV_W _ _ _ HW1)|exact Hne|exact Hw|unfold r_lit; cbn [app stops]; apply quote_not_space; exact Hq].
    cbn [bind]. pose proof (WV_lit _ _ _ _ HW1 (s_lit _ Hw)) as HW2.
    destruct (publit_steps _ _ _ _ HW2 H2) as (E1 & HW3).
    change (sl p (p + 6)) with (sl p (p + blen kw_public)). rewrite (W_slice _ _ kw_public _ HW0). replace (bytes_eqb kw_public (b "SYSTEM")) with false by reflexivity.
    rewrite E1. cbn [bind].
    rewrite consume_spaces_s; [|apply (WV_W _ _ _ HW3)|exact Hne'|exact Hw'|unfold r_lit; cbn [app stops]; apply quote_not_space; exact Hq'].
    cbn [bind]. pose proof (WV_lit _ _ _ _ HW3 (s_lit _ Hw')) as HW4.
    destruct (syslit_steps _ _ _ _ HW4 H4) as (F1 & HW5).
    rewrite F1. cbn [bind].
    f_equal. f_equal. f_equal. rewrite !blen_app. change (blen kw_public) with 6. clear. lia.
Qed.

Lemma lex_extid_none p b0 l : W p (b0 :: l) -> b0 <> 83 -> b0 <> 80 ->
  parse_external_id text (st p (b0 :: l)) = Ok (false, st p (b0 :: l)).
Proof.
  intros HW H1 H2. unfold parse_external_id. rewrite !(starts_with_st text) by exact HW.
  change (b "SYSTEM") with kw_system. change (b "PUBLIC") with kw_public. cbn [kw_system kw_public prefix_b].
  replace (83 =? b0) with false by lia. replace (80 =? b0) with false by lia. reflexivity.
Qed.

(* ---- entity declarations that record nothing ---- *)
Variable C : Type.
Variable ev : Tokenizer.token -> C -> res C.

Lemma name_head_37 n : CstU.wf_name n = true -> exists b0 r, utf8s n = b0 :: r /\ byte_is_space b0 = false /\ b0 <> 37.
Proof. intros H. apply (uname_head_b (utf8s n)). exists n. auto. Qed.

Definition r_param (ws1 wsp : bytes) (name : scalars) (ws2 : bytes) (def : pedef) (ws3 post : bytes) : bytes :=
  E.kw_entity ++ ws1 ++ [37] ++ wsp ++ utf8s name ++ ws2 ++ r_pedef def ++ ws3 ++ [62] ++ post.

Lemma pedef_valid d : wf_pedef d = true -> U8.Valid (r_pedef d).
Proof.
  destruct d as [q v|x]; cbn [wf_pedef r_pedef]; [|apply extid_valid].
  intros H. apply syslit_valid. exact H.
Qed.

Lemma lex_param q ws1 wsp name ws2 def ws3 post c :
  WV q (r_param ws1 wsp name ws2 def ws3 post) ->
  wf_s1 ws1 = true -> wf_s1 wsp = true -> CstU.wf_name name = true -> wf_s1 ws2 = true -> wf_pedef def = true -> wf_s ws3 = true ->
  parse_entity_decl text C ev (st q (r_param ws1 wsp name ws2 def ws3 post)) c =
  Ok (st (q + blen (r_param ws1 wsp name ws2 def ws3 post) - blen post) post, c).
Proof.
  intros HW H1 Hp Hn H2 Hd H3. unfold r_param in *.
  destruct (s1_parts _ H1) as [Hne1 Hw1]. destruct (s1_parts _ Hp) as [Hnep Hwp]. destruct (s1_parts _ H2) as [Hne2 Hw2].
  unfold parse_entity_decl.
  rewrite (advance_st text 8 q E.kw_entity) by (try reflexivity; apply (WV_W _ _ _ HW)). cbn [bind].
  pose proof (WV_lit _ _ _ _ HW (eq_refl : forallb (fun y => y <? 128) E.kw_entity = true)) as HWa. change (blen E.kw_entity) with 8 in HWa.
  rewrite consume_spaces_s; [|apply (WV_W _ _ _ HWa)|exact Hne1|exact Hw1|reflexivity]. cbn [bind].
  pose proof (WV_lit _ _ _ _ HWa (s_lit _ Hw1)) as HWb. pose proof (WV_W _ _ _ HWb) as HWb'. cbn [app] in HWb, HWb' |- *.
  unfold try_consume_byte. rewrite (curr_byte_opt_st text) by exact HWb'. change (37 =? 37) with true. cbv iota.
  rewrite (advance1_st text) by exact HWb'. cbn [negb bind].
  pose proof (WV_cons _ _ _ _ HWb ltac:(lia)) as HWc.
  destruct (name_head_37 _ Hn) as (n0 & nr & En & Hnsp & _).
  rewrite consume_spaces_s; [|apply (WV_W _ _ _ HWc)|exact Hnep|exact Hwp|rewrite En; cbn [app stops]; exact Hnsp]. cbn [bind].
  pose proof (WV_lit _ _ _ _ HWc (s_lit _ Hwp)) as HWd.
  rewrite (consume_name_u text); [|exact HWd|exact Hn|apply s1_name_stop; exact H2].
  cbn [bind]. pose proof (WV_app _ _ _ _ HWd (uname_valid _ Hn)) as HWe.
  assert (Hdh : exists d0 dl, r_pedef def ++ ws3 ++ 62 :: post = d0 :: dl /\ byte_is_space d0 = false /\
                              (d0 = 34 \/ d0 = 39 \/ d0 = 83 \/ d0 = 80)).
  { destruct def as [qt v|x]; cbn [r_pedef wf_pedef] in *.
    - apply andb_true_iff in Hd. destruct Hd as [Hq _]. apply is_quote_cases in Hq. unfold r_lit. cbn [app].
      eexists. eexists. split; [reflexivity|]. split; [apply quote_not_space; exact Hq|]. tauto.
    - destruct (extid_head x (ws3 ++ 62 :: post)) as (b0 & l & E & Hb & Hs). rewrite E. eexists. eexists.
      split; [reflexivity|]. split; [exact Hs|]. tauto. }
  destruct Hdh as (d0 & dl & Ed & Hd0 & Hd0c).
  rewrite consume_spaces_s; [|apply (WV_W _ _ _ HWe)|exact Hne2|exact Hw2|rewrite Ed; exact Hd0]. cbn [bind].
  pose proof (WV_lit _ _ _ _ HWe (s_lit _ Hw2)) as HWf. pose proof (WV_W _ _ _ HWf) as HWf'.
  set (pd := q + 8 + blen ws1 + 1 + blen wsp + blen (utf8s name) + blen ws2) in *.
  assert (Edef : parse_entity_def text (st pd (r_pedef def ++ ws3 ++ 62 :: post)) false =
                 Ok (match def with PLiteral _ v => Some (sl (pd + 1) (pd + 1 + blen (utf8s v))) | PExternal _ => None end,
                     st (pd + blen (r_pedef def)) (ws3 ++ 62 :: post))).
  { unfold parse_entity_def. rewrite Ed in HWf' |- *. rewrite (curr_byte_st text) by exact HWf'. cbn [bind]. rewrite <- Ed in *.
    destruct def as [qt v|x]; cbn [r_pedef wf_pedef] in *.
    - apply andb_true_iff in Hd. destruct Hd as [Hq Hv]. apply is_quote_cases in Hq.
      assert (E0 : d0 = qt) by (unfold r_lit in Ed; cbn [app] in Ed; congruence). subst d0.
      replace ((qt =? 34) || (qt =? 39)) with true by (destruct Hq as [-> | ->]; reflexivity).
      unfold r_lit in *. rewrite <- !app_assoc in *. cbn [app] in *.
      rewrite consume_quote_st by (try exact Hq; exact HWf'). cbn [bind]. cbv zeta.
      pose proof (WV_cons _ _ _ _ HWf ltac:(clear - Hq; lia)) as HWg. cbn [CstLex.st s_pos].
      fold (st (pd + 1) (utf8s v ++ qt :: ws3 ++ 62 :: post)).
      assert (Hvq : forallb (fun y => negb (y =? qt)) (utf8s v) = true).
      { apply utf8s_forall; [intros y Hy; clear - Hq Hy; lia|]. revert Hv. apply forallb_imp. intros x Hx. apply andb_true_iff in Hx. apply Hx. }
      assert (Hvc : forallb Chars.xml_Char v = true).
      { revert Hv. apply forallb_imp. intros x Hx. apply andb_true_iff in Hx. apply Hx. }
      pose proof (uchars_of v Hvc) as Hvu.
      assert (Hvv : U8.Valid (utf8s v)) by (apply Valid_utf8s, chars_scalars; exact Hvu).
      rewrite (skip_bytes_st text); [|apply (WV_W _ _ _ HWg)|exact Hvq|cbn [stops]; rewrite N.eqb_refl; reflexivity].
      unfold slice_back. cbn [CstLex.st s_pos]. rewrite (mk_slice_v text _ _ _ HWg Hvv). cbn [bind].
      rewrite (is_xml_str_u text _ v _ _ (WV_W _ _ _ HWg) Hvu). cbn [bind].
      pose proof (WV_app _ _ _ _ HWg Hvv) as HWh.
      fold (st (pd + 1 + blen (utf8s v)) (qt :: ws3 ++ 62 :: post)).
      rewrite (consume_byte_st text) by (apply (WV_W _ _ _ HWh)). cbn [bind].
      f_equal. f_equal. f_equal. rewrite blen_cons, blen_app, blen_cons, blen_nil. lia.
    - replace ((d0 =? 34) || (d0 =? 39)) with false.
      2:{ destruct (extid_head x (ws3 ++ 62 :: post)) as (b0 & l & E & Hb & _). rewrite E in Ed. injection Ed as <- _. clear - Hb. lia. }
      replace ((d0 =? 83) || (d0 =? 80)) with true.
      2:{ destruct (extid_head x (ws3 ++ 62 :: post)) as (b0 & l & E & Hb & _). rewrite E in Ed. injection Ed as <- _. clear - Hb. lia. }
      rewrite (lex_extid _ _ _ HWf Hd). cbn [bind]. reflexivity. }
  rewrite Edef. cbn [bind]. clear Edef.
  assert (Ec : (match match def with PLiteral _ v => Some (sl (pd + 1) (pd + 1 + blen (utf8s v))) | PExternal _ => None end with
                | Some d => if false then ev (TEntityDecl (sl (q + 8 + blen ws1 + 1 + blen wsp) (q + 8 + blen ws1 + 1 + blen wsp + blen (utf8s name))) d) c else Ok c
                | None => Ok c end) = Ok c) by (destruct def; reflexivity).
  rewrite Ec. cbn [bind]. clear Ec.
  pose proof (WV_app _ _ _ _ HWf (pedef_valid _ Hd)) as HWg. pose proof (WV_W _ _ _ HWg) as HWg'.
  rewrite (skip_spaces_st text); [|exact HWg'|apply s_spaces; exact H3|reflexivity].
  pose proof (W_app _ _ _ _ HWg') as HWh. cbn [app] in HWh |- *.
  rewrite (consume_byte_st text) by exact HWh. cbn [bind].
  f_equal. f_equal. f_equal. unfold pd. repeat (rewrite ?blen_app, ?blen_cons, ?blen_nil). change (blen E.kw_entity) with 8. clear. lia.
Qed.

End Lex.

Section Lex2.
Variable text : bytes.
Variable C : Type.
Variable ev : Tokenizer.token -> C -> res C.

Notation W := (CstLex.W text).
Notation WV := (CstULex.WV text).
Notation st := (CstLex.st text).

(* ---- an external / unparsed general entity ---- *)
Definition r_ext (ws1 : bytes) (name : scalars) (ws2 : bytes) (x : extid) (ndata : option (bytes * bytes * scalars))
           (ws3 post : bytes) : bytes :=
  E.kw_entity ++ ws1 ++ utf8s name ++ ws2 ++ r_extid x ++ r_opt r_ndata ndata ++ ws3 ++ [62] ++ post.

Definition wf_ndata (n : bytes * bytes * scalars) : bool :=
  wf_s1 (fst (fst n)) && wf_s1 (snd (fst n)) && CstU.wf_name (snd n).

Lemma ndata_valid n : wf_ndata n = true -> U8.Valid (r_ndata n).
Proof.
  destruct n as [[wa wb] n]. unfold wf_ndata, r_ndata. cbn [fst snd]. rewrite !andb_true_iff. intros [[Ha Hb] Hn].
  destruct (s1_parts _ Ha) as [_ Hwa]. destruct (s1_parts _ Hb) as [_ Hwb].
  apply U8.Valid_app; [apply s_valid; exact Hwa|]. apply U8.Valid_app; [apply Valid_lit; reflexivity|].
  apply U8.Valid_app; [apply s_valid; exact Hwb|apply uname_valid; exact Hn].
Qed.

Lemma not_name_62 : not_name_byte 62.
Proof. apply not_name_byte_lit. auto. Qed.

Lemma lex_ext q ws1 name ws2 x ndata ws3 post c :
  WV q (r_ext ws1 name ws2 x ndata ws3 post) ->
  wf_s1 ws1 = true -> CstU.wf_name name = true -> wf_s1 ws2 = true -> wf_extid x = true -> wf_opt wf_ndata ndata = true ->
  wf_s ws3 = true ->
  parse_entity_decl text C ev (st q (r_ext ws1 name ws2 x ndata ws3 post)) c =
  Ok (st (q + blen (r_ext ws1 name ws2 x ndata ws3 post) - blen post) post, c).
Proof.
  intros HW H1 Hn H2 Hx Hnd H3. unfold r_ext in *.
  destruct (s1_parts _ H1) as [Hne1 Hw1]. destruct (s1_parts _ H2) as [Hne2 Hw2].
  unfold parse_entity_decl.
  rewrite (advance_st text 8 q E.kw_entity) by (try reflexivity; apply (WV_W _ _ _ HW)). cbn [bind].
  pose proof (WV_lit _ _ _ _ HW (eq_refl : forallb (fun y => y <? 128) E.kw_entity = true)) as HWa. change (blen E.kw_entity) with 8 in HWa.
  destruct (name_head_37 _ Hn) as (n0 & nr & En & Hnsp & Hn37).
  rewrite (consume_spaces_s text); [|apply (WV_W _ _ _ HWa)|exact Hne1|exact Hw1|rewrite En; cbn [app stops]; exact Hnsp]. cbn [bind].
  pose proof (WV_lit _ _ _ _ HWa (s_lit _ Hw1)) as HWb.
  assert (Etry : forall l, W (q + 8 + blen ws1) (utf8s name ++ l) ->
                 try_consume_byte 37 (st (q + 8 + blen ws1) (utf8s name ++ l)) = (false, st (q + 8 + blen ws1) (utf8s name ++ l))).
  { intros l HWl. revert HWl. rewrite En. cbn [app]. intros HWl. unfold try_consume_byte.
    rewrite (curr_byte_opt_st text) by exact HWl. replace (n0 =? 37) with false by (clear - Hn37; lia). reflexivity. }
  rewrite Etry by (apply (WV_W _ _ _ HWb)). cbn [negb bind].
  rewrite (consume_name_u text); [|exact HWb|exact Hn|apply (s1_name_stop _ _ H2)]. cbn [bind].
  pose proof (WV_app _ _ _ _ HWb (uname_valid _ Hn)) as HWc.
  destruct (extid_head x (r_opt r_ndata ndata ++ ws3 ++ [62] ++ post)) as (d0 & dl & Ed & Hd0c & Hd0).
  rewrite (consume_spaces_s text); [|apply (WV_W _ _ _ HWc)|exact Hne2|exact Hw2|rewrite Ed; exact Hd0]. cbn [bind].
  pose proof (WV_lit _ _ _ _ HWc (s_lit _ Hw2)) as HWd. pose proof (WV_W _ _ _ HWd) as HWd'.
  set (pd := q + 8 + blen ws1 + blen (utf8s name) + blen ws2) in *.
  pose proof (WV_app _ _ _ _ HWd (extid_valid _ Hx)) as HWe. pose proof (WV_W _ _ _ HWe) as HWe'.
  set (pe := pd + blen (r_extid x)) in *.
  assert (Edef : parse_entity_def text (st pd (r_extid x ++ r_opt r_ndata ndata ++ ws3 ++ [62] ++ post)) true =
                 Ok (None, st (pe + blen (r_opt r_ndata ndata) + (match ndata with None => blen ws3 | Some _ => 0 end))
                              ((match ndata with None => [] | Some _ => ws3 end) ++ [62] ++ post))).
  { unfold parse_entity_def. rewrite Ed in HWd' |- *. rewrite (curr_byte_st text) by exact HWd'. cbn [bind]. rewrite <- Ed in *.
    replace ((d0 =? 34) || (d0 =? 39)) with false by (clear - Hd0c; lia).
    replace ((d0 =? 83) || (d0 =? 80)) with true by (clear - Hd0c; lia).
    rewrite (lex_extid text _ _ _ HWd Hx). cbn [bind]. fold pe.
    destruct ndata as [[[wa wb] nn]|]; cbn [r_opt wf_opt] in *.
    - unfold wf_ndata in Hnd. cbn [fst snd] in Hnd. rewrite !andb_true_iff in Hnd. destruct Hnd as [[Ha Hb] Hnn].
      destruct (s1_parts _ Ha) as [Hnea Hwa]. destruct (s1_parts _ Hb) as [Hneb Hwb].
      unfold r_ndata in *. cbn [fst snd] in *. rewrite <- !app_assoc in *.
      rewrite (starts_with_space_s text) by (try exact HWe'; try exact Hwa; exact Hnea). cbn [negb].
      rewrite (skip_spaces_st text); [|exact HWe'|apply s_spaces; exact Hwa|reflexivity].
      pose proof (WV_lit _ _ _ _ HWe (s_lit _ Hwa)) as HWf. pose proof (WV_W _ _ _ HWf) as HWf'.
      rewrite (starts_with_st text) by exact HWf'. change (b "NDATA") with kw_ndata. rewrite prefix_b_app_same.
      rewrite (advance_st text 5 _ kw_ndata) by (try reflexivity; exact HWf'). cbn [bind].
      pose proof (WV_lit _ _ _ _ HWf (eq_refl : forallb (fun y => y <? 128) kw_ndata = true)) as HWg. change (blen kw_ndata) with 5 in HWg.
      destruct (name_head_37 _ Hnn) as (m0 & mr & Em & Hmsp & _).
      rewrite (consume_spaces_s text); [|apply (WV_W _ _ _ HWg)|exact Hneb|exact Hwb|rewrite Em; cbn [app stops]; exact Hmsp]. cbn [bind].
      pose proof (WV_lit _ _ _ _ HWg (s_lit _ Hwb)) as HWh.
      rewrite (skip_name_u text); [|exact HWh|exact Hnn|apply s_stop_name; [exact H3|cbn [app name_stop]; apply not_name_62]]. cbn [bind].
      f_equal. f_equal. f_equal. repeat (rewrite ?blen_app, ?blen_cons, ?blen_nil). change (blen kw_ndata) with 5. clear. lia.
    - cbn [app] in *. rewrite (skip_spaces_st text); [|exact HWe'|apply s_spaces; exact H3|reflexivity].
      pose proof (W_app _ _ _ _ HWe') as HWf. cbn [app] in HWf |- *.
      rewrite (starts_with_st text) by exact HWf. change (b "NDATA") with kw_ndata. cbn [kw_ndata prefix_b]. change (78 =? 62) with false. cbn [andb].
      f_equal. f_equal. f_equal. rewrite blen_nil. clear. lia. }
  rewrite Edef. cbn [bind]. clear Edef.
  pose proof (WV_app _ _ _ _ HWe (match ndata as o return wf_opt wf_ndata o = true -> U8.Valid (r_opt r_ndata o) with
                                   | Some n => ndata_valid n | None => fun _ => U8.Valid_nil end Hnd)) as HWf.
  destruct ndata as [nd|]; cbn [r_opt app] in *.
  - rewrite N.add_0_r.
    rewrite (skip_spaces_st text); [|apply (WV_W _ _ _ HWf)|apply s_spaces; exact H3|reflexivity].
    pose proof (W_app _ _ _ _ (WV_W _ _ _ HWf)) as HWg. cbn [app] in HWg |- *.
    rewrite (consume_byte_st text) by exact HWg. cbn [bind].
    f_equal. f_equal. f_equal. unfold pe, pd. repeat (rewrite ?blen_app, ?blen_cons, ?blen_nil). change (blen E.kw_entity) with 8. clear. lia.
  - change (blen []) with 0 in *. rewrite N.add_0_r in *.
    pose proof (W_app _ _ _ _ (WV_W _ _ _ HWf)) as HWg. cbn [app] in HWg |- *.
    rewrite (CstDoc.skip_spaces_none text) by (try exact HWg; reflexivity).
    rewrite (consume_byte_st text) by exact HWg. cbn [bind].
    f_equal. f_equal. f_equal. unfold pe, pd. repeat (rewrite ?blen_app, ?blen_cons, ?blen_nil). change (blen E.kw_entity) with 8. clear. lia.
Qed.

(* ---- ELEMENT / ATTLIST / NOTATION: skipped up to the first '>' outside a quoted literal ---- *)
Lemma lex_markup q k body post : WV q (kw_of k ++ utf8s body ++ [62] ++ post) ->
  decl_body_ok body = true ->
  consume_decl text (st q (kw_of k ++ utf8s body ++ [62] ++ post)) = Ok (st (q + blen (kw_of k) + blen (utf8s body) + 1) post).
Proof.
  intros HW Hb. rewrite app_assoc in *. cbn [app] in *.
  rewrite (DeclBodyLex.consume_decl_fwd text); [|apply (WV_W _ _ _ HW)|].
  - rewrite blen_app, N.add_assoc. reflexivity.
  - rewrite DeclBodyLex.scan_plain by apply DeclBodyLex.kw_plain.
    rewrite <- Hb. apply DeclBodyLex.decl_body_ok_utf8s.
Qed.

(* ---- a general internal entity: Proofs/CstFullS3Dtd.v with S ---- *)
Record udecl_lex_ok_s (e : E.edecl) : Prop := {
  us_ws0 : wf_s (E.e_ws0 e) = true;
  us_ws1 : wf_s1 (E.e_ws1 e) = true;
  us_name : uname (E.e_name e);
  us_ws2 : wf_s1 (E.e_ws2 e) = true;
  us_quote : E.e_quote e = 39 \/ E.e_quote e = 34;
  us_value : ustr (E.r_value (E.e_value e)) /\ forallb (fun y => negb (y =? E.e_quote e)) (E.r_value (E.e_value e)) = true;
  us_ws3 : wf_s (E.e_ws3 e) = true
}.

Lemma udecl_valid_s e : udecl_lex_ok_s e -> U8.Valid (E.r_decl e).
Proof.
  intros [H0 H1 Hn H2 Hq [Hv1 Hv2] H3]. destruct (s1_parts _ H1) as [_ Hw1]. destruct (s1_parts _ H2) as [_ Hw2].
  destruct (uname_bytes _ Hn) as (Hun & _).
  unfold E.r_decl. repeat apply U8.Valid_app; try (apply Valid_lit, s_lit; assumption); try (apply Valid_lit; reflexivity);
    try (apply ustr_valid; assumption); apply Valid_lit; cbn; destruct Hq as [-> | ->]; reflexivity.
Qed.

Lemma lex_entity_decl_s q e post c : WV q (E.r_decl e ++ post) -> udecl_lex_ok_s e ->
  parse_entity_decl text C ev (st (q + blen (E.e_ws0 e)) (skipn (length (E.e_ws0 e)) (E.r_decl e ++ post))) c =
  let! c' := ev (TEntityDecl (en_name (decl_entity q e)) (en_value (decl_entity q e))) c in
  Ok (st (q + blen (E.r_decl e)) post, c').
Proof.
  intros HW [H0 H1 Hn H2 Hq [Hvu Hv1] H3].
  destruct (s1_parts _ H1) as [Hne1 Hw1]. destruct (s1_parts _ H2) as [Hne2 Hw2].
  unfold E.r_decl in *. rewrite <- !app_assoc in *. rewrite skipn_len_app.
  pose proof (WV_lit _ _ _ _ HW (s_lit _ H0)) as HWa.
  set (p0 := q + blen (E.e_ws0 e)) in *.
  unfold parse_entity_decl.
  rewrite (advance_st text 8 p0 E.kw_entity) by (try reflexivity; apply (WV_W _ _ _ HWa)). cbn [bind].
  pose proof (WV_lit _ _ _ _ HWa (eq_refl : forallb (fun y => y <? 128) E.kw_entity = true)) as HWb. change (blen E.kw_entity) with 8 in HWb.
  destruct (uname_head_b _ Hn) as (n0 & nr & En & Hnsp & Hn37).
  rewrite consume_spaces_s; [|apply (WV_W _ _ _ HWb)|exact Hne1|exact Hw1|rewrite En; cbn [app stops]; exact Hnsp]. cbn [bind].
  pose proof (WV_lit _ _ _ _ HWb (s_lit _ Hw1)) as HWc.
  assert (Etry : try_consume_byte 37 (st (p0 + 8 + blen (E.e_ws1 e))
                   (E.e_name e ++ E.e_ws2 e ++ [E.e_quote e] ++ E.r_value (E.e_value e) ++ [E.e_quote e] ++ E.e_ws3 e ++ [62] ++ post)) =
                 (false, st (p0 + 8 + blen (E.e_ws1 e))
                   (E.e_name e ++ E.e_ws2 e ++ [E.e_quote e] ++ E.r_value (E.e_value e) ++ [E.e_quote e] ++ E.e_ws3 e ++ [62] ++ post))).
  { pose proof (WV_W _ _ _ HWc) as HWc'. revert HWc'. rewrite En. cbn [app]. intros HWc'. unfold try_consume_byte.
    rewrite (curr_byte_opt_st text) by exact HWc'. replace (n0 =? 37) with false by lia. reflexivity. }
  rewrite Etry. cbn [negb bind].
  destruct (E.e_ws2 e) as [|w2 ws2] eqn:Ew2; [congruence|]. rewrite <- Ew2 in *.
  assert (Hw2sp : byte_is_space w2 = true).
  { rewrite Ew2 in Hw2. cbn [wf_s forallb] in Hw2. apply andb_true_iff in Hw2. apply s_space. apply Hw2. }
  destruct Hn as (ncs & Encs & Hncs). rewrite Encs in *.
  rewrite (consume_name_u text); [|exact HWc|exact Hncs|].
  2:{ rewrite Ew2. cbn [app name_stop]. apply s_not_name_byte.
      rewrite Ew2 in Hw2. cbn [wf_s forallb] in Hw2. apply andb_true_iff in Hw2. apply Hw2. }
  cbn [bind]. pose proof (WV_app _ _ _ _ HWc (uname_valid _ Hncs)) as HWd.
  rewrite consume_spaces_s; [|apply (WV_W _ _ _ HWd)|exact Hne2|exact Hw2|cbn [app stops]; apply quote_not_space; exact Hq]. cbn [bind].
  pose proof (WV_lit _ _ _ _ HWd (s_lit _ Hw2)) as HWe. pose proof (WV_W _ _ _ HWe) as HWe'. cbn [app] in HWe, HWe' |- *.
  (* the definition *)
  unfold parse_entity_def. rewrite (curr_byte_st text) by exact HWe'. cbn [bind].
  replace ((E.e_quote e =? 34) || (E.e_quote e =? 39)) with true by (destruct Hq as [-> | ->]; reflexivity).
  unfold consume_quote. rewrite (curr_byte_st text) by exact HWe'. cbn [bind].
  replace ((E.e_quote e =? 39) || (E.e_quote e =? 34)) with true by (destruct Hq as [-> | ->]; reflexivity).
  rewrite (advance1_st text) by exact HWe'. cbn [bind]. cbv zeta.
  pose proof (WV_cons _ _ _ _ HWe ltac:(destruct Hq as [-> | ->]; lia)) as HWf. pose proof (WV_W _ _ _ HWf) as HWf'. cbn [CstLex.st s_pos].
  try match goal with |- context [skip_bytes ?f {| s_pos := ?a; s_end := tlen text; s_rest := ?r |}] => fold (st a r) end.
  change (E.r_value (E.e_value e) ++ E.e_quote e :: E.e_ws3 e ++ 62 :: post)
    with (E.r_value (E.e_value e) ++ (E.e_quote e :: E.e_ws3 e ++ 62 :: post)) in *.
  rewrite (skip_bytes_st text); [|exact HWf'|exact Hv1|cbn [stops]; rewrite N.eqb_refl; reflexivity].
  pose proof (WV_app _ _ _ _ HWf (ustr_valid _ Hvu)) as HWg. pose proof (WV_W _ _ _ HWg) as HWg'.
  unfold slice_back. cbn [CstLex.st s_pos].
  rewrite (mk_slice_v text _ _ _ HWf (ustr_valid _ Hvu)). cbn [bind].
  destruct Hvu as (vcs & Evcs & Hvcs). rewrite Evcs in *.
  rewrite (is_xml_str_u text _ vcs _ _ HWf' Hvcs). cbn [bind].
  try match goal with |- context [consume_byte text ?c0 {| s_pos := ?a; s_end := tlen text; s_rest := ?r |}] => fold (st a r) end.
  rewrite (consume_byte_st text) by exact HWg'. cbn [bind negb].
  pose proof (W_cons _ _ _ _ HWg') as HWh.
  unfold decl_entity. cbv zeta. cbn [en_name en_value]. fold p0. rewrite Encs, Evcs.
  destruct (ev _ c) as [c'| | |]; cbn [bind]; try reflexivity.
  change (E.e_ws3 e ++ 62 :: post) with (E.e_ws3 e ++ [62] ++ post) in *.
  rewrite (skip_spaces_st text); [|exact HWh|apply s_spaces; exact H3|reflexivity].
  pose proof (W_app _ _ _ _ HWh) as HWi. cbn [app] in HWi |- *.
  rewrite (consume_byte_st text) by exact HWi. cbn [bind].
  f_equal. f_equal. f_equal. unfold p0. rewrite !blen_app. change (blen E.kw_entity) with 8.
  repeat rewrite ?blen_cons, ?blen_app, ?blen_nil. lia.
Qed.

Lemma decl_ent_ok_s q e tail : WV q (E.r_decl e ++ tail) -> udecl_lex_ok_s e -> uent_ok text e (decl_entity q e).
Proof.
  intros HW [H0 H1 Hn H2 Hq [Hvu Hv1] H3]. destruct (s1_parts _ H1) as [_ Hw1]. destruct (s1_parts _ H2) as [_ Hw2].
  destruct (uname_bytes _ Hn) as (Hun & _).
  unfold E.r_decl in HW. rewrite <- !app_assoc in HW.
  pose proof (WV_lit _ _ _ _ HW (s_lit _ H0)) as A1.
  pose proof (WV_lit _ _ _ _ A1 (eq_refl : forallb (fun y => y <? 128) E.kw_entity = true)) as A2. change (blen E.kw_entity) with 8 in A2.
  pose proof (WV_lit _ _ _ _ A2 (s_lit _ Hw1)) as A3. pose proof (WV_app _ _ _ _ A3 (ustr_valid _ Hun)) as A4.
  pose proof (WV_lit _ _ _ _ A4 (s_lit _ Hw2)) as A5.
  assert (Hq1 : forallb (fun y => y <? 128) [E.e_quote e] = true) by (cbn; destruct Hq as [-> | ->]; reflexivity).
  pose proof (WV_lit _ _ _ _ A5 Hq1) as A6. change (blen [E.e_quote e]) with 1 in A6.
  unfold uent_ok, decl_entity. cbv zeta. cbn [en_name en_value]. split.
  - apply (W_slice _ _ _ _ (WV_W _ _ _ A3)).
  - eexists. eexists. split; [reflexivity|]. exact A6.
Qed.

End Lex2.

(* ------------------------------------------------------------------------------------------ *)
(* the internal subset with the real callback                                                 *)
(* ------------------------------------------------------------------------------------------ *)
Notation M0 := CstFullS3.M0.
Lemma m0_val_norm_g text es0 : forall q v p more, wf_val M0 q v = true -> q = 39 \/ q = 34 ->
  CstULex.WV text p (r_val epieces v ++ [q] ++ more) ->
  exists stor, norm_ok text es0 (sl p (p + blen (r_val epieces v))) stor /\ storage_bytes text stor = val_sem M0 v.
Proof. intros q v p more H. discriminate H. Qed.

Lemma Stepn_set_entities c c' K ext X : Stepn c c' K ext -> Stepn (set_entities c X) (set_entities c' X) K ext.
Proof.
  intros [[[K1 [K2 [K3 K4]]] A2 A3 A4 A5] [B1 B2]]. split; [constructor|split]; cbn [set_entities c_doc c_cur_attrs c_parent_id c_parent_prefixes]; try assumption.
  unfold Keepn. cbn [set_entities c_opt c_entities c_entity_floor c_ld]. auto.
Qed.

Lemma set_entities_same c : set_entities c (c_entities c) = c.
Proof. destruct c; reflexivity. Qed.

(* the items of the subset, by kind *)
Definition sges (ds : list sdecl) : list E.edecl := flat_map (fun s => match s with SEntity e => [e] | _ => [] end) ds.
Definition smisc (ds : list sdecl) : list (item epieces) := flat_map (fun s => match s with SMisc _ i => [i] | _ => [] end) ds.

(* S3's facts about a declaration do not depend on its white space *)
Definition squash_decl (e : E.edecl) : E.edecl :=
  {| E.e_ws0 := []; E.e_ws1 := [32]; E.e_name := E.e_name e; E.e_ws2 := [32]; E.e_quote := E.e_quote e;
     E.e_value := E.e_value e; E.e_ws3 := [] |}.

Lemma squash_wf e : wf_udecl_s e = true -> wf_udecl (squash_decl e) = true.
Proof.
  unfold wf_udecl_s, wf_udecl, is_quote. cbn [squash_decl E.e_ws0 E.e_ws1 E.e_name E.e_ws2 E.e_quote E.e_value E.e_ws3].
  rewrite !andb_true_iff. intros [[[[[[H0 H1] Hn] H2] Hq] Hv] H3]. repeat split; try reflexivity; assumption.
Qed.

Lemma udecl_of_s e : wf_udecl_s e = true -> udecl_lex_ok_s (enc_decl e) /\ udecl_ok (enc_decl e).
Proof.
  intros H. destruct (udecl_of _ (squash_wf e H)) as [[_ _ Ln _ Lq Lv _] Hok].
  unfold wf_udecl_s in H. rewrite !andb_true_iff in H. destruct H as [[[[[[H0 H1] Hn] H2] Hq] Hv] H3].
  split; [|exact Hok].
  constructor; cbn [enc_decl E.e_ws0 E.e_ws1 E.e_name E.e_ws2 E.e_quote E.e_value E.e_ws3]; try assumption.
Qed.

Lemma sdecl_valid s : wf_sdecl s = true -> U8.Valid (r_sdecl s).
Proof.
  destruct s as [e|ws0 ws1 wsp name ws2 def ws3|ws0 ws1 name ws2 x nd ws3|ws0 k body|ws0 i]; cbn [wf_sdecl r_sdecl].
  - intros H. apply udecl_valid_s. apply (udecl_of_s e H).
  - rewrite !andb_true_iff. intros [[[[[[H0 H1] Hp] Hn] H2] Hd] H3].
    destruct (s1_parts _ H1) as [_ Hw1]. destruct (s1_parts _ Hp) as [_ Hwp]. destruct (s1_parts _ H2) as [_ Hw2].
    apply U8.Valid_app; [apply s_valid; exact H0|]. apply U8.Valid_app; [apply Valid_lit; reflexivity|].
    apply U8.Valid_app; [apply s_valid; exact Hw1|]. apply U8.Valid_app; [apply Valid_lit; reflexivity|].
    apply U8.Valid_app; [apply s_valid; exact Hwp|]. apply U8.Valid_app; [apply uname_valid; exact Hn|].
    apply U8.Valid_app; [apply s_valid; exact Hw2|]. apply U8.Valid_app; [apply pedef_valid; exact Hd|].
    apply U8.Valid_app; [apply s_valid; exact H3|apply Valid_lit; reflexivity].
  - rewrite !andb_true_iff. intros [[[[[[H0 H1] Hn] H2] Hx] Hnd] H3].
    destruct (s1_parts _ H1) as [_ Hw1]. destruct (s1_parts _ H2) as [_ Hw2].
    apply U8.Valid_app; [apply s_valid; exact H0|]. apply U8.Valid_app; [apply Valid_lit; reflexivity|].
    apply U8.Valid_app; [apply s_valid; exact Hw1|]. apply U8.Valid_app; [apply uname_valid; exact Hn|].
    apply U8.Valid_app; [apply s_valid; exact Hw2|]. apply U8.Valid_app; [apply extid_valid; exact Hx|].
    apply U8.Valid_app; [|apply U8.Valid_app; [apply s_valid; exact H3|apply Valid_lit; reflexivity]].
    destruct nd as [n|]; [apply ndata_valid; exact Hnd|constructor].
  - rewrite !andb_true_iff. intros [[H0 Hb] _]. pose proof (scalars_valid _ Hb) as Hv.
    apply U8.Valid_app; [apply s_valid; exact H0|]. apply U8.Valid_app; [apply Valid_lit; destruct k; reflexivity|].
    apply U8.Valid_app; [exact Hv|apply Valid_lit; reflexivity].
  - rewrite !andb_true_iff. intros [H0 Hi]. apply U8.Valid_app; [apply s_valid; exact H0|].
    apply (CstFullS5Items.fitem_valid epieces M0 CstFullS3.m0_val_lex CstFullS3.m0_run_valid).
    rewrite (misc_s_item M0) in Hi. apply andb_true_iff in Hi. apply Hi.
Qed.

Lemma sdecls_valid ds : forallb wf_sdecl ds = true -> U8.Valid (flat_map r_sdecl ds).
Proof.
  induction ds as [|s ds IH]; intros H; [constructor|]. cbn [forallb] in H. apply andb_true_iff in H. destruct H as [H1 H2].
  cbn [flat_map]. apply U8.Valid_app; [apply sdecl_valid; exact H1|apply IH; exact H2].
Qed.

Lemma sdecl_len s : wf_sdecl s = true -> (1 <= length (r_sdecl s))%nat.
Proof.
  destruct s as [e|ws0 ws1 wsp name ws2 def ws3|ws0 ws1 name ws2 x nd ws3|ws0 k body|ws0 i]; cbn [wf_sdecl r_sdecl]; intros H.
  - unfold E.r_decl. rewrite !app_length. cbn [length]. lia.
  - rewrite !app_length. cbn [length]. lia.
  - rewrite !app_length. cbn [length]. lia.
  - rewrite !app_length. cbn [length]. lia.
  - apply andb_true_iff in H. destruct H as [_ Hi]. rewrite app_length.
    destruct i as [? ? ? ?|?|bs|t s v]; try discriminate; cbn [r_item Cst.r_item]; rewrite !app_length; cbn [length]; lia.
Qed.

Lemma sdecls_len ds : forallb wf_sdecl ds = true -> (length ds <= length (flat_map r_sdecl ds))%nat.
Proof.
  induction ds as [|s ds IH]; intros H; [cbn; lia|]. cbn [forallb] in H. apply andb_true_iff in H. destruct H as [H1 H2].
  cbn [flat_map length]. rewrite app_length. pose proof (sdecl_len s H1). specialize (IH H2). lia.
Qed.

Lemma r_sparam_eq ws0 ws1 wsp name ws2 def ws3 rest :
  r_sdecl (SParam ws0 ws1 wsp name ws2 def ws3) ++ rest = ws0 ++ r_param ws1 wsp name ws2 def ws3 rest.
Proof. cbn [r_sdecl]. unfold r_param. rewrite <- !app_assoc. reflexivity. Qed.
Lemma r_sext_eq ws0 ws1 name ws2 x nd ws3 rest :
  r_sdecl (SExternal ws0 ws1 name ws2 x nd ws3) ++ rest = ws0 ++ r_ext ws1 name ws2 x nd ws3 rest.
Proof. cbn [r_sdecl]. unfold r_ext. rewrite <- !app_assoc. reflexivity. Qed.
Lemma prefix_param ws1 wsp name ws2 def ws3 rest : prefix_b E.kw_entity (r_param ws1 wsp name ws2 def ws3 rest) = true.
Proof. unfold r_param. apply prefix_b_app_same. Qed.
Lemma prefix_ext ws1 name ws2 x nd ws3 rest : prefix_b E.kw_entity (r_ext ws1 name ws2 x nd ws3 rest) = true.
Proof. unfold r_ext. apply prefix_b_app_same. Qed.
Lemma r_smarkup_eq ws0 k body rest :
  r_sdecl (SMarkup ws0 k body) ++ rest = ws0 ++ kw_of k ++ utf8s body ++ [62] ++ rest.
Proof. cbn [r_sdecl]. rewrite <- !app_assoc. reflexivity. Qed.
Lemma r_smisc_eq ws0 i rest : r_sdecl (SMisc ws0 i) ++ rest = ws0 ++ r_item i ++ rest.
Proof. cbn [r_sdecl]. rewrite <- !app_assoc. reflexivity. Qed.

Section Build.
Variable text : bytes.
Variable D : list Scope.binding.
Hypothesis HD : forall l, NoDup l -> incl l D -> N.of_nat (length l) <= 65535.

Notation W := (CstLex.W text).
Notation WV := (CstULex.WV text).
Notation st := (CstLex.st text).
Notation ev := (tok_ev text).
Notation CIn := (CstNsBuild.CIn text D).
Notation kmn := (CstNsBuild.kmn text).
Notation node_room := CstNsItems.node_room.
Notation dens0 := (CstFullTree.dens epieces M0).
Notation evf_comment := (CstFullS5Items.evf_comment epieces M0 CstFullS3.m0_val_lex text D HD [] (m0_val_norm_g text [])).
Notation evf_pi := (CstFullS5Items.evf_pi epieces M0 CstFullS3.m0_val_lex text D HD [] (m0_val_norm_g text [])).
Notation kmn_Forall2_ext := (CstFullS5Items.kmn_Forall2_ext text D HD).

Lemma tok_entity n v c : ev (TEntityDecl n v) c = Ok (set_entities c (c_entities c ++ [{| en_name := n; en_value := v |}])).
Proof. reflexivity. Qed.

(* the head of what stands after the white space before an item of the subset *)
Lemma sdecl_head s rest : wf_sdecl s = true ->
  exists w l, r_sdecl s ++ rest = w ++ 60 :: l /\ wf_s w = true.
Proof.
  destruct s as [e|ws0 ws1 wsp name ws2 def ws3|ws0 ws1 name ws2 x nd ws3|ws0 k body|ws0 i]; cbn [wf_sdecl r_sdecl]; intros H.
  - destruct (udecl_of_s e H) as [[H0 _ _ _ _ _ _] _]. unfold E.r_decl. rewrite <- !app_assoc. cbn [E.kw_entity app].
    eexists. eexists. split; [reflexivity|exact H0].
  - rewrite !andb_true_iff in H. rewrite <- !app_assoc. cbn [E.kw_entity app]. eexists. eexists. split; [reflexivity|tauto].
  - rewrite !andb_true_iff in H. rewrite <- !app_assoc. cbn [E.kw_entity app]. eexists. eexists. split; [reflexivity|tauto].
  - rewrite !andb_true_iff in H. rewrite <- !app_assoc. destruct k; cbn [kw_of kw_element kw_attlist kw_notation app];
      eexists; eexists; (split; [reflexivity|tauto]).
  - rewrite !andb_true_iff in H. destruct H as [H0 Hi]. rewrite <- !app_assoc.
    destruct i as [? ? ? ?|?|bs|t s v]; try discriminate; cbn [r_item Cst.r_item app]; eexists; eexists; (split; [reflexivity|exact H0]).
Qed.

Lemma subset_loop_ok start ws3 ws4 post : forall ds q c fuel,
  WV q (flat_map r_sdecl ds ++ ws3 ++ [93] ++ ws4 ++ [62] ++ post) ->
  forallb wf_sdecl ds = true -> wf_s ws3 = true -> wf_s ws4 = true -> (length ds < fuel)%nat ->
  CIn [] c -> c_after_text c = [] -> node_room c (NT.nsizes (dens0 (smisc ds))) ->
  exists c' K es',
    parse_doctype_loop text context ev fuel start (st q (flat_map r_sdecl ds ++ ws3 ++ [93] ++ ws4 ++ [62] ++ post)) c =
    Ok (st (q + blen (flat_map r_sdecl ds) + blen ws3 + 1 + blen ws4 + 1) post, c') /\
    Stepn (set_entities c (c_entities c ++ es')) c' K [] /\
    Forall2 (uent_ok text) (map enc_decl (sges ds)) es' /\
    CIn [] c' /\ c_after_text c' = [] /\ d_ns_tree (c_doc c') = d_ns_tree (c_doc c) /\
    Forall2 (kmn (c_doc c')) K (NT.tag_list [] (c_parent_id c) (len_N (d_nodes (c_doc c))) (dens0 (smisc ds))).
Proof.
  induction ds as [|s ds IH]; intros q c fuel HWv Hds H3 H4 Hf I Hat NR; pose proof (WV_W _ _ _ HWv) as HW.
  - cbn [flat_map app sges smisc map CstFullTree.dens NT.tag_list] in *. destruct fuel as [|fu]; [lia|].
    exists c, [], []. split; [|split; [rewrite app_nil_r, set_entities_same; apply Stepn_refl|
                                  split; [constructor|split; [exact I|split; [exact Hat|split; [reflexivity|constructor]]]]]].
    cbn [parse_doctype_loop]. rewrite (at_end_st text) by exact HW.
    replace (match ws3 ++ 93 :: ws4 ++ 62 :: post with [] => true | _ => false end) with false by (destruct ws3; reflexivity).
    cbv zeta. change (ws3 ++ 93 :: ws4 ++ 62 :: post) with (ws3 ++ [93] ++ ws4 ++ [62] ++ post) in *.
    rewrite (skip_spaces_st text); [|exact HW|apply s_spaces; exact H3|reflexivity].
    pose proof (W_app _ _ _ _ HW) as HW1. cbn [app] in HW1 |- *.
    rewrite !(starts_with_st text) by exact HW1.
    change (prefix_b (b "<!ENTITY") (93 :: ws4 ++ 62 :: post)) with false.
    change (prefix_b (b "<!--") (93 :: ws4 ++ 62 :: post)) with false.
    change (prefix_b (b "<?") (93 :: ws4 ++ 62 :: post)) with false.
    change (prefix_b (b "]") (93 :: ws4 ++ 62 :: post)) with true. cbv iota.
    rewrite (advance1_st text) by exact HW1. cbn [bind].
    pose proof (W_cons _ _ _ _ HW1) as HW2.
    change (ws4 ++ 62 :: post) with (ws4 ++ [62] ++ post) in *.
    rewrite (skip_spaces_st text); [|exact HW2|apply s_spaces; exact H4|reflexivity].
    pose proof (W_app _ _ _ _ HW2) as HW3. cbn [app] in HW3 |- *.
    rewrite (curr_byte_opt_st text) by exact HW3. change (62 =? 62) with true. cbv iota.
    rewrite (advance1_st text) by exact HW3. cbn [bind]. rewrite blen_nil, N.add_0_r. reflexivity.
  - cbn [forallb] in Hds. apply andb_true_iff in Hds. destruct Hds as [Hs Hds].
    cbn [flat_map] in *. rewrite <- app_assoc in HW, HWv |- *.
    destruct fuel as [|fu]; [lia|]. cbn [length] in Hf. cbn [parse_doctype_loop].
    rewrite (at_end_st text) by exact HW.
    set (rest := flat_map r_sdecl ds ++ ws3 ++ [93] ++ ws4 ++ [62] ++ post) in *.
    destruct (sdecl_head s rest Hs) as (w0 & l0 & Eh & Hw0).
    replace (match r_sdecl s ++ rest with [] => true | _ => false end) with false by (rewrite Eh; destruct w0; reflexivity).
    cbv zeta.
    pose proof (WV_app _ _ _ _ HWv (sdecl_valid s Hs)) as HWn.
    assert (Hf' : (length ds < fu)%nat) by lia.
    destruct s as [e|ws0 ws1 wsp name ws2 def ws3'|ws0 ws1 name ws2 x nd ws3'|ws0 k body|ws0 i]; cbn [wf_sdecl sges smisc flat_map map app] in Hs, NR, IH |- *; fold (sges ds) in *; fold (smisc ds) in *.
    + (* a general internal entity *)
      cbn [r_sdecl] in *.
      destruct (udecl_of_s e Hs) as [Hlex Hok].
      destruct (decl_starts (enc_decl e) rest) as [l El].
      assert (Esplit : E.r_decl (enc_decl e) ++ rest = E.e_ws0 (enc_decl e) ++ E.kw_entity ++ l).
      { rewrite <- El. unfold E.r_decl. rewrite <- !app_assoc, skipn_len_app. reflexivity. }
      rewrite Esplit. rewrite Esplit in HW.
      rewrite (skip_spaces_st text); [|exact HW|apply s_spaces; apply (us_ws0 _ Hlex)|reflexivity].
      pose proof (W_app _ _ _ _ HW) as HW1.
      rewrite (starts_with_st text) by exact HW1. change (b "<!ENTITY") with E.kw_entity. rewrite prefix_b_app_same.
      rewrite <- El.
      rewrite (lex_entity_decl_s text context ev q (enc_decl e) rest c HWv Hlex). rewrite tok_entity. cbn [bind].
      set (en := decl_entity q (enc_decl e)) in *.
      set (c1 := set_entities c (c_entities c ++ [{| en_name := en_name en; en_value := en_value en |}])).
      destruct (IH (q + blen (E.r_decl (enc_decl e))) c1 fu HWn Hds H3 H4 Hf') as (c' & K & es' & E & S & Fe & I' & A' & Tr & F).
      { apply CstFullS3.CIn_set_entities. exact I. } { exact Hat. } { exact NR. }
      fold rest in E. rewrite E. exists c', K, (en :: es'). split.
      { f_equal. f_equal. f_equal. rewrite blen_app. clear. lia. }
      split.
      { replace (set_entities c (c_entities c ++ en :: es')) with (set_entities c1 (c_entities c1 ++ es')); [exact S|].
        unfold c1. cbn [set_entities c_entities c_opt c_ns_start_idx c_cur_attrs c_awaiting c_parent_prefixes c_after_text c_parent_id c_tag_name c_entity_floor c_ld c_doc].
        rewrite <- app_assoc. cbn [app]. destruct en. reflexivity. }
      split; [constructor; [apply (decl_ent_ok_s text q (enc_decl e) rest HWv Hlex)|exact Fe]|].
      split; [exact I'|]. split; [exact A'|]. split; [exact Tr|exact F].
    + (* a parameter entity *)
      rewrite !andb_true_iff in Hs. destruct Hs as [[[[[[H0 H1] Hp] Hn] H2] Hd] H3'].
      rewrite r_sparam_eq in HW, HWv |- *.
      rewrite (skip_spaces_st text); [|exact HW|apply s_spaces; exact H0|reflexivity].
      pose proof (WV_lit _ _ _ _ HWv (s_lit _ H0)) as HWa. pose proof (WV_W _ _ _ HWa) as HWa'.
      rewrite (starts_with_st text) by exact HWa'. change (b "<!ENTITY") with E.kw_entity. rewrite prefix_param.
      rewrite (lex_param text context ev _ ws1 wsp name ws2 def ws3' rest c HWa H1 Hp Hn H2 Hd H3'). cbn [bind].
      assert (Epos : q + blen ws0 + blen (r_param ws1 wsp name ws2 def ws3' rest) - blen rest =
                     q + blen (r_sdecl (SParam ws0 ws1 wsp name ws2 def ws3'))).
      { unfold r_param. cbn [r_sdecl]. repeat (rewrite ?blen_app, ?blen_cons, ?blen_nil). clear. lia. }
      rewrite Epos.
      destruct (IH _ c fu HWn Hds H3 H4 Hf' I Hat NR) as (c' & K & es' & E & S & Fe & I' & A' & Tr & F).
      fold rest in E. rewrite E. exists c', K, es'. split.
      { f_equal. f_equal. f_equal. rewrite blen_app. clear. lia. }
      auto 10.
    + (* an external entity *)
      rewrite !andb_true_iff in Hs. destruct Hs as [[[[[[H0 H1] Hn] H2] Hx] Hnd] H3'].
      rewrite r_sext_eq in HW, HWv |- *.
      rewrite (skip_spaces_st text); [|exact HW|apply s_spaces; exact H0|reflexivity].
      pose proof (WV_lit _ _ _ _ HWv (s_lit _ H0)) as HWa. pose proof (WV_W _ _ _ HWa) as HWa'.
      rewrite (starts_with_st text) by exact HWa'. change (b "<!ENTITY") with E.kw_entity. rewrite prefix_ext.
      rewrite (lex_ext text context ev _ ws1 name ws2 x nd ws3' rest c HWa H1 Hn H2 Hx Hnd H3'). cbn [bind].
      assert (Epos : q + blen ws0 + blen (r_ext ws1 name ws2 x nd ws3' rest) - blen rest =
                     q + blen (r_sdecl (SExternal ws0 ws1 name ws2 x nd ws3'))).
      { unfold r_ext. cbn [r_sdecl]. repeat (rewrite ?blen_app, ?blen_cons, ?blen_nil). clear. lia. }
      rewrite Epos.
      destruct (IH _ c fu HWn Hds H3 H4 Hf' I Hat NR) as (c' & K & es' & E & S & Fe & I' & A' & Tr & F).
      fold rest in E. rewrite E. exists c', K, es'. split.
      { f_equal. f_equal. f_equal. rewrite blen_app. clear. lia. }
      auto 10.
    + (* a skipped declaration *)
      rewrite !andb_true_iff in Hs. destruct Hs as [[H0 _] Hb].
      rewrite r_smarkup_eq in HW, HWv |- *.
      rewrite (skip_spaces_st text); [|exact HW|apply s_spaces; exact H0|destruct k; reflexivity].
      pose proof (WV_lit _ _ _ _ HWv (s_lit _ H0)) as HWa. pose proof (WV_W _ _ _ HWa) as HWa'.
      rewrite !(starts_with_st text) by exact HWa'.
      assert (Ek : prefix_b (b "<!ENTITY") (kw_of k ++ utf8s body ++ [62] ++ rest) = false /\
                   prefix_b (b "<!--") (kw_of k ++ utf8s body ++ [62] ++ rest) = false /\
                   prefix_b (b "<?") (kw_of k ++ utf8s body ++ [62] ++ rest) = false /\
                   prefix_b (b "]") (kw_of k ++ utf8s body ++ [62] ++ rest) = false /\
                   prefix_b (b "<!ELEMENT") (kw_of k ++ utf8s body ++ [62] ++ rest) || prefix_b (b "<!ATTLIST") (kw_of k ++ utf8s body ++ [62] ++ rest)
                   || prefix_b (b "<!NOTATION") (kw_of k ++ utf8s body ++ [62] ++ rest) = true).
      { destruct k; cbn [kw_of].
        - change (b "<!ELEMENT") with kw_element. rewrite prefix_b_app_same. repeat split; reflexivity.
        - change (b "<!ATTLIST") with kw_attlist. rewrite prefix_b_app_same. rewrite orb_true_r. repeat split; reflexivity.
        - change (b "<!NOTATION") with kw_notation. rewrite prefix_b_app_same. rewrite orb_true_r. repeat split; reflexivity. }
      destruct Ek as (K1 & K2 & K3 & K4 & K5). rewrite K1, K2, K3, K4, K5.
      rewrite (lex_markup text _ k body rest HWa Hb).
      destruct (IH _ c fu HWn Hds H3 H4 Hf' I Hat NR) as (c' & K & es' & E & S & Fe & I' & A' & Tr & F).
      fold rest in E.
      replace (q + blen ws0 + blen (kw_of k) + blen (utf8s body) + 1) with (q + blen (r_sdecl (SMarkup ws0 k body)))
        by (cbn [r_sdecl]; repeat (rewrite ?blen_app, ?blen_cons, ?blen_nil); clear; lia).
      rewrite E. exists c', K, es'. split.
      { f_equal. f_equal. f_equal. rewrite blen_app. clear. lia. }
      auto 10.
    + (* a comment or a PI *)
      rewrite !andb_true_iff in Hs. destruct Hs as [H0 Hi].
      rewrite r_smisc_eq in HW, HWv |- *.
      pose proof (WV_lit _ _ _ _ HWv (s_lit _ H0)) as HWa. pose proof (WV_W _ _ _ HWa) as HWa'.
      destruct i as [? ? ? ?|?|bs|t sp v]; try discriminate.
      * assert (R : room c).
        { apply (CstFullS5Items.node_room_room _ _ NR). cbn [CstFullTree.dens]. rewrite nsizes_app. cbn [den]. rewrite nsizes_one.
          pose proof (NT.nsize_pos (CstNs.IComment (utf8s bs))). clear - H. lia. }
        rewrite (skip_spaces_st text); [|exact HW|apply s_spaces; exact H0|reflexivity].
        rewrite !(starts_with_st text) by exact HWa'.
        replace (prefix_b (b "<!ENTITY") (r_item (@IComment epieces bs) ++ rest)) with false by reflexivity.
        replace (prefix_b (b "<!--") (r_item (@IComment epieces bs) ++ rest)) with true by reflexivity.
        destruct (evf_comment [] bs (q + blen ws0) rest c Hi HWa I R) as (c1 & K1 & E1 & S1 & I1 & A1 & _ & F1 & Tr1).
        rewrite E1. cbn [bind].
        pose proof (CstFullS5Items.Stepn_nodes_len _ _ _ _ S1) as Ln1.
        rewrite (CstFullS5Items.Forall2_len_N _ _ _ F1) in Ln1. unfold len_N at 3 in Ln1. rewrite NT.tag_list_len in Ln1.
        pose proof (CstFullS5Items.Stepn_opt _ _ _ _ (proj1 S1)) as Lo1.
        replace (q + blen ws0 + blen (r_item (@IComment epieces bs))) with (q + blen (r_sdecl (SMisc ws0 (@IComment epieces bs)))) in *
          by (cbn [r_sdecl]; rewrite blen_app; clear; lia).
        destruct (IH _ c1 fu HWn Hds H3 H4 Hf' I1 A1) as (c' & K & es' & E & S & Fe & I' & A' & Tr & F).
        { unfold CstNsItems.node_room in *. rewrite Ln1, Lo1. cbn [CstFullTree.dens] in NR. rewrite nsizes_app in NR. clia. }
        fold rest in E. rewrite E. exists c', (K1 ++ K), es'. split.
        { f_equal. f_equal. f_equal. rewrite blen_app. clear. lia. }
        pose proof (sn_keep _ _ _ _ (proj1 S1)) as (_ & Ee & _).
        split.
        { apply (Stepn_trans _ (set_entities c1 (c_entities c ++ es')) _ K1 K [] []).
          - apply Stepn_set_entities. exact S1.
          - rewrite <- Ee. exact S. }
        split; [exact Fe|]. split; [exact I'|]. split; [exact A'|]. split; [rewrite Tr, Tr1; reflexivity|].
        cbn [CstFullTree.dens]. rewrite CstNsDoc.tag_list_app. apply Forall2_app.
        -- apply (kmn_Forall2_ext (c_doc c1)); [|exact F1].
           pose proof (Step0n_DocExt _ _ _ _ (proj1 S)) as X. exact X.
        -- destruct S1 as (_ & P1 & _). rewrite P1, Ln1 in F. exact F.
      * assert (R : room c).
        { apply (CstFullS5Items.node_room_room _ _ NR). cbn [CstFullTree.dens]. rewrite nsizes_app. cbn [den]. rewrite nsizes_one.
          pose proof (NT.nsize_pos (CstNs.IPI (utf8s t) sp (utf8s v))). clear - H. lia. }
        rewrite (skip_spaces_st text); [|exact HW|apply s_spaces; exact H0|reflexivity].
        rewrite !(starts_with_st text) by exact HWa'.
        replace (prefix_b (b "<!ENTITY") (r_item (@IPI epieces t sp v) ++ rest)) with false by reflexivity.
        replace (prefix_b (b "<!--") (r_item (@IPI epieces t sp v) ++ rest)) with false by reflexivity.
        replace (prefix_b (b "<?") (r_item (@IPI epieces t sp v) ++ rest)) with true by reflexivity.
        destruct (evf_pi [] t sp v (q + blen ws0) rest c Hi HWa I R) as (c1 & K1 & E1 & S1 & I1 & A1 & _ & F1 & Tr1).
        rewrite E1. cbn [bind].
        pose proof (CstFullS5Items.Stepn_nodes_len _ _ _ _ S1) as Ln1.
        rewrite (CstFullS5Items.Forall2_len_N _ _ _ F1) in Ln1. unfold len_N at 3 in Ln1. rewrite NT.tag_list_len in Ln1.
        pose proof (CstFullS5Items.Stepn_opt _ _ _ _ (proj1 S1)) as Lo1.
        replace (q + blen ws0 + blen (r_item (@IPI epieces t sp v))) with (q + blen (r_sdecl (SMisc ws0 (@IPI epieces t sp v)))) in *
          by (cbn [r_sdecl]; rewrite blen_app; clear; lia).
        destruct (IH _ c1 fu HWn Hds H3 H4 Hf' I1 A1) as (c' & K & es' & E & S & Fe & I' & A' & Tr & F).
        { unfold CstNsItems.node_room in *. rewrite Ln1, Lo1. cbn [CstFullTree.dens] in NR. rewrite nsizes_app in NR. clia. }
        fold rest in E. rewrite E. exists c', (K1 ++ K), es'. split.
        { f_equal. f_equal. f_equal. rewrite blen_app. clear. lia. }
        pose proof (sn_keep _ _ _ _ (proj1 S1)) as (_ & Ee & _).
        split.
        { apply (Stepn_trans _ (set_entities c1 (c_entities c ++ es')) _ K1 K [] []).
          - apply Stepn_set_entities. exact S1.
          - rewrite <- Ee. exact S. }
        split; [exact Fe|]. split; [exact I'|]. split; [exact A'|]. split; [rewrite Tr, Tr1; reflexivity|].
        cbn [CstFullTree.dens]. rewrite CstNsDoc.tag_list_app. apply Forall2_app.
        -- apply (kmn_Forall2_ext (c_doc c1)); [|exact F1].
           pose proof (Step0n_DocExt _ _ _ _ (proj1 S)) as X. exact X.
        -- destruct S1 as (_ & P1 & _). rewrite P1, Ln1 in F. exact F.
Qed.

End Build.

Lemma ok_inj {A} (a b0 : A) : @Ok A a = Ok b0 -> a = b0.
Proof. congruence. Qed.

Section Doctype.
Variable text : bytes.
Variable D : list Scope.binding.
Hypothesis HD : forall l, NoDup l -> incl l D -> N.of_nat (length l) <= 65535.

Notation W := (CstLex.W text).
Notation WV := (CstULex.WV text).
Notation st := (CstLex.st text).
Notation ev := (tok_ev text).
Notation CIn := (CstNsBuild.CIn text D).
Notation kmn := (CstNsBuild.kmn text).
Notation node_room := CstNsItems.node_room.
Notation dens0 := (CstFullTree.dens epieces M0).

Definition r_ext_opt (o : option (extid * bytes)) : bytes := r_opt (fun p => r_extid (fst p) ++ snd p) o.
Definition dt_tail (t : doctype) (post : bytes) : bytes := r_opt r_subset (t_subset t) ++ [62] ++ post.

Lemma r_doctype_eq t post :
  r_doctype t ++ post = E.kw_doctype ++ t_ws1 t ++ utf8s (t_name t) ++ t_ws2 t ++ r_ext_opt (t_ext t) ++ dt_tail t post.
Proof. unfold r_doctype, dt_tail, r_ext_opt. rewrite <- !app_assoc. reflexivity. Qed.

Lemma dt_tail_head t post : exists b0 l, dt_tail t post = b0 :: l /\ (b0 = 91 \/ b0 = 62).
Proof.
  unfold dt_tail. destruct (t_subset t) as [u|]; cbn [r_opt r_subset app]; eexists; eexists; (split; [reflexivity|auto]).
Qed.

Lemma ext_opt_valid o : match o with Some (x, w) => wf_extid x && wf_s w | None => true end = true -> U8.Valid (r_ext_opt o).
Proof.
  destruct o as [[x w]|]; cbn [r_ext_opt r_opt fst snd]; [|constructor]. intros H. apply andb_true_iff in H. destruct H as [Hx Hw].
  apply U8.Valid_app; [apply extid_valid; exact Hx|apply s_valid; exact Hw].
Qed.

Lemma doctype_start_ok p t post : WV p (r_doctype t ++ post) -> wf_doctype t = true ->
  let pt := p + 9 + blen (t_ws1 t) + blen (utf8s (t_name t)) + blen (t_ws2 t) + blen (r_ext_opt (t_ext t)) in
  parse_doctype_start text (st p (r_doctype t ++ post)) = Ok (st pt (dt_tail t post)) /\ WV pt (dt_tail t post).
Proof.
  intros HWv Hwf pt. unfold wf_doctype in Hwf. rewrite !andb_true_iff in Hwf. destruct Hwf as [[[[H1 Hn] H2] Hext] Hsub].
  destruct (s1_parts _ H1) as [Hne1 Hw1].
  rewrite r_doctype_eq in *. pose proof (WV_W _ _ _ HWv) as HW.
  destruct (dt_tail_head t post) as (b0 & tl & Et & Hb0).
  assert (Hb0sp : byte_is_space b0 = false) by (destruct Hb0 as [-> | ->]; reflexivity).
  assert (Hb0n : not_name_byte b0) by (destruct Hb0 as [-> | ->]; [apply not_name_91|apply not_name_62]).
  unfold parse_doctype_start.
  rewrite (advance_st text 9 p E.kw_doctype) by (try reflexivity; exact HW). cbn [bind].
  pose proof (WV_lit _ _ _ _ HWv (eq_refl : forallb (fun y => y <? 128) E.kw_doctype = true)) as HWa. change (blen E.kw_doctype) with 9 in HWa.
  destruct (name_head_37 _ Hn) as (n0 & nr & En & Hnsp & _).
  rewrite (consume_spaces_s text); [|apply (WV_W _ _ _ HWa)|exact Hne1|exact Hw1|rewrite En; cbn [app stops]; exact Hnsp]. cbn [bind].
  pose proof (WV_lit _ _ _ _ HWa (s_lit _ Hw1)) as HWb.
  assert (Hmid : exists m0 ml, r_ext_opt (t_ext t) ++ dt_tail t post = m0 :: ml /\ byte_is_space m0 = false /\
                               (t_ws2 t = [] -> not_name_byte m0)).
  { destruct (t_ext t) as [[x w]|]; cbn [r_ext_opt r_opt fst snd app].
    - rewrite <- app_assoc. destruct (extid_head x (w ++ dt_tail t post)) as (e0 & el & Ee & _ & He). rewrite Ee.
      eexists. eexists. split; [reflexivity|]. split; [exact He|]. intros E2. rewrite !andb_true_iff in Hext.
      destruct Hext as [[Hx _] _]. rewrite E2 in Hx. discriminate.
    - rewrite Et. eexists. eexists. split; [reflexivity|]. split; [exact Hb0sp|]. intros _. exact Hb0n. }
  destruct Hmid as (m0 & ml & Em & Hm0 & Hm0n).
  rewrite (skip_name_u text); [|exact HWb|exact Hn|].
  2:{ destruct (t_ws2 t) as [|x w] eqn:E2; [cbn [app]; rewrite Em; apply Hm0n; reflexivity|].
      cbn [app name_stop]. apply s_not_name_byte. cbn [wf_s forallb] in H2. apply andb_true_iff in H2. apply H2. }
  cbn [bind]. pose proof (WV_app _ _ _ _ HWb (uname_valid _ Hn)) as HWc.
  rewrite (skip_spaces_st text); [|apply (WV_W _ _ _ HWc)|apply s_spaces; exact H2|rewrite Em; exact Hm0].
  pose proof (WV_lit _ _ _ _ HWc (s_lit _ H2)) as HWd. pose proof (WV_W _ _ _ HWd) as HWd'.
  set (pm := p + 9 + blen (t_ws1 t) + blen (utf8s (t_name t)) + blen (t_ws2 t)) in *.
  assert (Eext : (let! (_, s) := parse_external_id text (st pm (r_ext_opt (t_ext t) ++ dt_tail t post)) in
                  Ok (skip_spaces s)) = Ok (st pt (dt_tail t post)) /\ WV pt (dt_tail t post)).
  { unfold pt. fold pm. destruct (t_ext t) as [[x w]|]; cbn [r_ext_opt r_opt fst snd] in *.
    - rewrite !andb_true_iff in Hext. destruct Hext as [[_ Hx] Hw]. rewrite <- app_assoc in *.
      rewrite (lex_extid text _ _ _ HWd Hx). cbn [bind].
      pose proof (WV_app _ _ _ _ HWd (extid_valid _ Hx)) as HWe.
      rewrite (skip_spaces_st text); [|apply (WV_W _ _ _ HWe)|apply s_spaces; exact Hw|rewrite Et; exact Hb0sp].
      pose proof (WV_lit _ _ _ _ HWe (s_lit _ Hw)) as HWf.
      rewrite blen_app, N.add_assoc. split; [reflexivity|exact HWf].
    - cbn [app] in *. change (blen []) with 0. rewrite N.add_0_r. rewrite Et in HWd' |- *.
      rewrite (lex_extid_none text) by (try exact HWd'; clear - Hb0; lia). cbn [bind].
      rewrite (CstDoc.skip_spaces_none text) by (try exact HWd'; exact Hb0sp). rewrite <- Et. split; [reflexivity|exact HWd]. }
  destruct Eext as [Eext HWt].
  destruct (parse_external_id text (st pm (r_ext_opt (t_ext t) ++ dt_tail t post))) as [[fnd s1]| | |]; cbn [bind] in Eext |- *; try discriminate.
  apply ok_inj in Eext. rewrite Eext. split; [|exact HWt].
  pose proof (WV_W _ _ _ HWt) as HWt'. rewrite Et in HWt' |- *. rewrite (curr_byte_st text) by exact HWt'. cbn [bind].
  replace (negb (b0 =? 91) && negb (b0 =? 62)) with false by (clear - Hb0; lia). reflexivity.
Qed.

Lemma doctype_ok p t post c : WV p (r_doctype t ++ post) -> wf_doctype t = true ->
  CIn [] c -> c_after_text c = [] -> node_room c (NT.nsizes (dens0 (subset_misc t))) ->
  exists c' K es',
    parse_doctype text context ev (st p (r_doctype t ++ post)) c = Ok (st (p + blen (r_doctype t)) post, c') /\
    Stepn (set_entities c (c_entities c ++ es')) c' K [] /\
    Forall2 (uent_ok text) (map enc_decl (ge_decls t)) es' /\
    CIn [] c' /\ c_after_text c' = [] /\ d_ns_tree (c_doc c') = d_ns_tree (c_doc c) /\
    Forall2 (kmn (c_doc c')) K (NT.tag_list [] (c_parent_id c) (len_N (d_nodes (c_doc c))) (dens0 (subset_misc t))).
Proof.
  intros HWv Hwf I Hat NR. destruct (doctype_start_ok p t post HWv Hwf) as [Est HWt]. cbv zeta in Est, HWt.
  set (pt := p + 9 + blen (t_ws1 t) + blen (utf8s (t_name t)) + blen (t_ws2 t) + blen (r_ext_opt (t_ext t))) in *.
  assert (Elen : p + blen (r_doctype t) = pt + blen (dt_tail t post) - blen post).
  { assert (E : blen (r_doctype t ++ post) = blen (r_doctype t) + blen post) by apply blen_app.
    rewrite r_doctype_eq in E. unfold pt. repeat (rewrite ?blen_app in E). change (blen E.kw_doctype) with 9 in E.
    clear - E. lia. }
  unfold parse_doctype. cbv zeta. rewrite Est. cbn [bind]. clear Est.
  unfold wf_doctype in Hwf. rewrite !andb_true_iff in Hwf. destruct Hwf as [_ Hsub].
  pose proof (WV_W _ _ _ HWt) as HWt'.
  unfold subset_misc, ge_decls, subset_decls in *. unfold dt_tail in *.
  destruct (t_subset t) as [u|]; cbn [r_opt wf_opt] in *.
  - (* an internal subset *)
    unfold wf_subset in Hsub. rewrite !andb_true_iff in Hsub. destruct Hsub as [[Hds H3] H4].
    unfold r_subset in *. rewrite <- !app_assoc in *. cbn [app] in HWt, HWt' |- *.
    rewrite (CstDoc.skip_spaces_none text) by (try exact HWt'; reflexivity).
    rewrite (curr_byte_opt_st text) by exact HWt'. change (91 =? 62) with false. cbv iota.
    rewrite (advance1_st text) by exact HWt'. cbn [bind CstLex.st s_rest].
    pose proof (WV_cons _ _ _ _ HWt ltac:(lia)) as HWu.
    change (flat_map r_sdecl (u_decls u) ++ u_ws3 u ++ 93 :: u_ws4 u ++ 62 :: post)
      with (flat_map r_sdecl (u_decls u) ++ u_ws3 u ++ [93] ++ u_ws4 u ++ [62] ++ post) in *.
    destruct (subset_loop_ok text D HD p (u_ws3 u) (u_ws4 u) post (u_decls u) (pt + 1) c
                (S (length (flat_map r_sdecl (u_decls u) ++ u_ws3 u ++ [93] ++ u_ws4 u ++ [62] ++ post))) HWu Hds H3 H4)
      as (c' & K & es' & E & S & Fe & I' & A' & Tr & F); try assumption.
    { rewrite app_length. pose proof (sdecls_len _ Hds). lia. }
    fold (st (pt + 1) (flat_map r_sdecl (u_decls u) ++ u_ws3 u ++ [93] ++ u_ws4 u ++ [62] ++ post)).
    change (s_pos (st p (r_doctype t ++ post))) with p. rewrite E. exists c', K, es'. split.
    { f_equal. f_equal. f_equal. rewrite Elen. repeat (rewrite ?blen_app, ?blen_cons, ?blen_nil). clear. lia. }
    auto 10.
  - (* no internal subset *)
    cbn [app] in HWt, HWt' |- *.
    rewrite (CstDoc.skip_spaces_none text) by (try exact HWt'; reflexivity).
    rewrite (curr_byte_opt_st text) by exact HWt'. change (62 =? 62) with true. cbv iota.
    rewrite (advance1_st text) by exact HWt'. cbn [bind].
    exists c, [], []. split.
    { f_equal. f_equal. f_equal. rewrite Elen. cbn [app]. rewrite blen_cons. clear. lia. }
    split; [rewrite app_nil_r, set_entities_same; apply Stepn_refl|].
    split; [constructor|]. split; [exact I|]. split; [exact Hat|]. split; [reflexivity|constructor].
Qed.

Lemma doctype_valid t : wf_doctype t = true -> U8.Valid (r_doctype t).
Proof.
  unfold wf_doctype. rewrite !andb_true_iff. intros [[[[H1 Hn] H2] Hext] Hsub]. destruct (s1_parts _ H1) as [_ Hw1].
  unfold r_doctype. apply U8.Valid_app; [apply Valid_lit; reflexivity|]. apply U8.Valid_app; [apply s_valid; exact Hw1|].
  apply U8.Valid_app; [apply uname_valid; exact Hn|]. apply U8.Valid_app; [apply s_valid; exact H2|].
  apply U8.Valid_app.
  { apply (ext_opt_valid (t_ext t)). destruct (t_ext t) as [[x w]|]; [|reflexivity]. rewrite !andb_true_iff in Hext. apply andb_true_iff. tauto. }
  apply U8.Valid_app; [|apply Valid_lit; reflexivity].
  destruct (t_subset t) as [u|]; cbn [r_opt wf_opt] in *; [|constructor].
  unfold wf_subset in Hsub. rewrite !andb_true_iff in Hsub. destruct Hsub as [[Hds H3] H4]. unfold r_subset.
  apply U8.Valid_app; [apply Valid_lit; reflexivity|]. apply U8.Valid_app; [apply sdecls_valid; exact Hds|].
  apply U8.Valid_app; [apply s_valid; exact H3|]. apply U8.Valid_app; [apply Valid_lit; reflexivity|apply s_valid; exact H4].
Qed.

End Doctype.

Print Assumptions doctype_ok.
