(* Proofs/ErrShiftSubSanity.v -- C14 (inside the internal subset): instances, by computation, of
   the theorems of ErrShiftSubFinal.v.  The DOCTYPE declares general entities before AND behind
   the insertion point; all of them are referenced from the body. *)
From Coq Require Import Ascii String.
From Coq Require Import List NArith Bool Lia.
Import ListNotations.
From RX Require Import Generated.
From RX.Model Require Import Base CharClass Stream Tokenizer Doc Builder Parse.
From RX.Proofs Require Import ErrShiftBase ErrShiftMidCore ErrShiftDtdFinal ErrShiftEntFinal ErrShiftSubFinal.
Open Scope N_scope.

(* two entities before the point (one with markup), then the point right behind the '>' of the
   second declaration (the value ends 2 bytes before the point); behind it two more entities (one
   refers to an entity declared before the point), a comment and a skipped declaration *)
Definition exs_pre : bytes := b "<!DOCTYPE r [<!ENTITY a 'xy'><!ENTITY m '<b>t</b>'>".
Definition exs_post : bytes :=
  b "<!ENTITY e 'u&a;v'><!-- c --><!ENTITY f '<i>z</i>'><!ELEMENT r ANY>]><r k='&a;&e;'>&m;&f;&e;</r>".

Example exs_point : subset_point exs_pre exs_post dtd_opt.
Proof. apply (subset_point_b_ok _ _ _ 2). vm_compute. reflexivity. Qed.
(* right behind the '[' *)
Example exs_point_open : subset_point (b "<!DOCTYPE r [") (b "<!ENTITY a 'xy'>]><r>&a;</r>") dtd_opt.
Proof. apply (subset_point_b_ok _ _ _ 0). vm_compute. reflexivity. Qed.
(* right before the ']' *)
Example exs_point_close : subset_point (b "<!DOCTYPE r [<!ENTITY a 'xy'> ") (b "]><r>&a;</r>") dtd_opt.
Proof. apply (subset_point_b_ok _ _ _ 1). vm_compute. reflexivity. Qed.
(* inside a declaration: no *)
Example exs_no_point : forallb (fun n => negb (subset_point_b (b "<!DOCTYPE r [<!ENTITY a") (b " 'xy'>]><r/>") dtd_opt n)) [0;1;2;3]%nat = true.
Proof. vm_compute. reflexivity. Qed.
(* the tests of the other kinds say no here *)
Example exs_not_ent : forallb (fun n => negb (dtd_point_b exs_pre exs_post dtd_opt n)) [0;1;2;3]%nat = true.
Proof. vm_compute. reflexivity. Qed.

(* the document: both sides of the theorem, computed *)
Example exs_ok :
  match parse (exs_pre ++ exs_post) dtd_opt with
  | Ok d => parse (exs_pre ++ [10; 32; 32] ++ exs_post) dtd_opt = Ok (mid_doc (blen exs_pre) 3 d)
            /\ mid_doc (blen exs_pre) 3 d <> d
  | _ => False
  end.
Proof. vm_compute. split; [reflexivity|discriminate]. Qed.

Example exs_ok_thm : forall d, parse (exs_pre ++ exs_post) dtd_opt = Ok d ->
  parse (exs_pre ++ [10; 32; 32] ++ exs_post) dtd_opt = Ok (mid_doc (blen exs_pre) 3 d).
Proof.
  intros d H. apply (parse_ok_shift_sub exs_pre [10; 32; 32] exs_post dtd_opt d); try reflexivity;
    [discriminate|exact exs_point|exact H].
Qed.

(* an error inside a value declared BEFORE the point keeps its position *)
Definition exs_pre_bad : bytes := b "<!DOCTYPE r [<!ENTITY h '<b>t</c>'>".
Definition exs_post_1 : bytes := b "<!ENTITY g 'ok'>]><r>&g;&h;</r>".
Example exs_point_bad : subset_point exs_pre_bad exs_post_1 dtd_opt.
Proof. apply (subset_point_b_ok _ _ _ 1). vm_compute. reflexivity. Qed.
Example exs_err_before :
  exists tp, parse (exs_pre_bad ++ exs_post_1) dtd_opt = Err (UnexpectedCloseTag [98] [99] tp)
          /\ parse (exs_pre_bad ++ repeat 32 5 ++ exs_post_1) dtd_opt = Err (UnexpectedCloseTag [98] [99] tp)
          /\ parse (exs_pre_bad ++ repeat 10 2 ++ exs_post_1) dtd_opt = Err (UnexpectedCloseTag [98] [99] tp)
          /\ snd tp < blen exs_pre_bad.
Proof. eexists. split; [vm_compute; reflexivity|]. split; [vm_compute; reflexivity|]. split; [vm_compute; reflexivity|]. vm_compute. reflexivity. Qed.

(* an error inside a value declared BEHIND the point moves *)
Definition exs_pre_2 : bytes := b "<!DOCTYPE r [<!ENTITY g 'ok'>".
Definition exs_post_2 : bytes := b "<!ENTITY h '<b>t</c>'>]><r>&g;&h;</r>".
Example exs_point_2 : subset_point exs_pre_2 exs_post_2 dtd_opt.
Proof. apply (subset_point_b_ok _ _ _ 1). vm_compute. reflexivity. Qed.
Example exs_err_behind :
  exists c0, parse (exs_pre_2 ++ exs_post_2) dtd_opt = Err (UnexpectedCloseTag [98] [99] (1, c0))
          /\ parse (exs_pre_2 ++ repeat 32 5 ++ exs_post_2) dtd_opt = Err (UnexpectedCloseTag [98] [99] (1, c0 + 5))
          /\ parse (exs_pre_2 ++ repeat 10 2 ++ exs_post_2) dtd_opt = Err (UnexpectedCloseTag [98] [99] (3, c0 - blen exs_pre_2))
          /\ blen exs_pre_2 < c0.
Proof. eexists. split; [vm_compute; reflexivity|]. split; [vm_compute; reflexivity|]. split; [vm_compute; reflexivity|]. vm_compute. reflexivity. Qed.

(* an error of the subset itself behind the point (an unknown declaration) moves; so does an error of the body *)
Example exs_err_subset :
  parse (exs_pre_2 ++ b "<!FOO>]><r/>") dtd_opt = Err (UnknownToken (1, 30))
  /\ parse (exs_pre_2 ++ repeat 32 4 ++ b "<!FOO>]><r/>") dtd_opt = Err (UnknownToken (1, 34)).
Proof. split; vm_compute; reflexivity. Qed.
Example exs_err_body :
  exists e e', parse (exs_pre ++ b "]><r>&m;</x>") dtd_opt = Err e
          /\ parse (exs_pre ++ repeat 32 4 ++ b "]><r>&m;</x>") dtd_opt = Err e'
          /\ err_kind e = err_kind e' /\ error_pos e' = (fst (error_pos e), snd (error_pos e) + 4).
Proof. eexists. eexists. split; [vm_compute; reflexivity|]. split; [vm_compute; reflexivity|]. split; reflexivity. Qed.

(* the wrapper: the point of the subset is a point of the prolog *)
Example exs_prolog : prolog_point exs_pre exs_post dtd_opt.
Proof. right. right. right. right. exact exs_point. Qed.

(* a skipped declaration that is not closed: the error is raised at the start of the DOCTYPE,
   below the point, and keeps its position *)
Example exs_err_decl :
  parse (exs_pre_2 ++ b "<!ELEMENT r ANY") dtd_opt = Err (UnknownToken (1, 1))
  /\ parse (exs_pre_2 ++ repeat 10 3 ++ b "<!ELEMENT r ANY") dtd_opt = Err (UnknownToken (1, 1))
  /\ subset_point exs_pre_2 (b "<!ELEMENT r ANY") dtd_opt.
Proof. split; [vm_compute; reflexivity|]. split; [vm_compute; reflexivity|]. apply (subset_point_b_ok _ _ _ 1). vm_compute. reflexivity. Qed.
