(* Proofs/CstEntRejText.v -- C09 on whole documents: character data on whose expansion the loop detector stops:
   the text token fails with EntityReferenceLoop, after whatever has been read -- and appended to
   the tree -- before (Proofs/CstEntCText.v for that part). *)
From Coq Require Import Ascii String.
From Coq Require Import List NArith PeanoNat Bool Lia ZifyBool ZifyN ZifyNat.
Import ListNotations.
From RX Require Import Generated.
From RX.Model Require Import Base CharClass Stream Tokenizer Doc Builder Parse.
From RX.Spec Require Cst CstText CstEnt Detector.
From RX.Spec Require Import Text.
From RX.Proofs Require Import Tactics CstLex CstBuild CstTree CstItems CstDoc TextMachine TextMerge HoistProofs NoPanicUtf8 DetectorProofs.
From RX.Proofs Require Import CstTextSem CstTextLex CstTextBuild CstTextItems.
From RX.Proofs Require Import CstEntSem CstEntText CstEntAttr CstEntMeaning CstEntRun CstEntLex CstEntDtd CstEntBuild CstEntInline CstEntItems CstEntDoc CstEntMain.
From RX.Proofs Require Import CstEntCFloor CstEntCAttr CstEntCBuild CstEntCSem CstEntCLex CstEntCLex2 CstEntCLoop CstEntCText CstEntCItems.
From RX.Proofs Require Import CstEntRejSem CstEntRejAttr.
Open Scope N_scope.

(* ---- the value of a character-data entity, read as a run ---- *)
Lemma glevel_pieces decls k n v qv : E.lookup (glevel decls k) n = Some v -> E.x_pieces v = Some qv ->
  E.x_items v = [T.IText qv].
Proof.
  intros Hl Hx. rewrite lookup_glevel in Hl. destruct (first_decl decls n) as [d|]; [|discriminate].
  destruct k as [|k'].
  - injection Hl as <-. destruct (E.e_value d); cbn in *; [injection Hx as <-; reflexivity|discriminate].
  - destruct (E.e_value d) as [vps|its]; cbn [E.inline_value] in Hl.
    + destruct (E.inline_ps _ _ _ vps) as [[a b0]|]; [|discriminate]. cbn [E.obind fst snd] in Hl. injection Hl as <-.
      cbn in *. injection Hx as <-. reflexivity.
    + destruct (E.inline_items _ _ its) as [[a b0]|]; [|discriminate]. cbn [E.obind fst snd] in Hl. injection Hl as <-. discriminate.
Qed.

Lemma ps_to_run decls k ie : forall ps q tr, E.inline_ps (glevel decls k) false ie ps = Some (q, tr) ->
  exists its, E.inline_run (glevel decls k) ie ps = Some (its, tr) /\ forallb is_titext its = true /\ pieces_of its = q.
Proof.
  induction ps as [|p ps IH]; intros q tr H.
  - injection H as <- <-. exists []. auto.
  - cbn [E.inline_ps E.inline_run] in *. destruct p as [p|n].
    + cbn [andb] in H. destruct (E.inline_ps (glevel decls k) false ie ps) as [[q' tr']|] eqn:Er; [|discriminate].
      cbn [E.obind fst snd] in H. injection H as <- <-. destruct (IH _ _ eq_refl) as (its & E1 & E2 & E3).
      rewrite E1. cbn [E.obind fst snd]. eexists. split; [reflexivity|]. cbn [forallb is_titext pieces_of app]. rewrite E2, E3. auto.
    + destruct (E.lookup (glevel decls k) n) as [v|] eqn:El; [|discriminate]. cbn [E.obind] in *.
      destruct (E.x_pieces v) as [qv|] eqn:Ex; [|discriminate]. cbn [E.obind andb] in H.
      destruct (E.inline_ps (glevel decls k) false ie ps) as [[q' tr']|] eqn:Er; [|discriminate].
      cbn [E.obind fst snd] in H. injection H as <- <-. destruct (IH _ _ eq_refl) as (its & E1 & E2 & E3).
      rewrite E1. cbn [E.obind fst snd]. rewrite (glevel_pieces decls k n v qv El Ex).
      eexists. split; [reflexivity|]. cbn [app forallb is_titext pieces_of]. rewrite E2, E3. auto.
Qed.

Section RejText.
Variable text : bytes.
Hypothesis Hascii : Forall (fun x => x < 128) text.
Variable decls : list E.edecl.
Variable es : list entity.
Hypothesis Henv : Forall2 (ent_ok text) decls es.
Hypothesis Hdecls : Forall decl_ok decls.
Hypothesis Hadjs : Forall decl_adj decls.
Hypothesis Hcont : Forall decl_cont decls.

Notation W := (CstLex.W text).
Notation evl := (CstEntCBuild.evl text).
Notation OR := (CstEntCText.OR es).
Notation Res := (CstEntCText.Res text es).
Notation SemI := (CstEntCText.SemI text).

(* what is proved of a list of items on whose expansion the detector stops *)
Definition ItemsF (k : nat) (cs : list E.item) : Prop :=
  forall m en tl p post c0 c frs acc lvl depth fuel its tr,
    forallb (E.wf_item m) cs = true -> E.no_adjacent_text cs = true ->
    CstEntCLex.W text en tl p (E.r_items cs ++ post) -> text_stop post ->
    OR c0 c frs -> SemI frs acc -> bnd_if cs acc ->
    m = (0 <? ld_depth (c_ld c)) -> N.of_nat lvl + ld_depth (c_ld c) = 12 -> 12 <= N.of_nat k + ld_depth (c_ld c) ->
    c_entity_floor c <= len_N (c_parent_prefixes c) ->
    E.inline_items (glevel decls k) m cs = Some (its, tr) -> ld_run (c_ld c) tr = None ->
    Pok acc its -> Rooms c0 acc its ->
    exists pos,
      parse_content_loop text context (evl lvl) (esteps_list cs + fuel) depth (CstEntCLex.st en tl p (E.r_items cs ++ post)) c =
      Err (EntityReferenceLoop pos).

Lemma IHok : forall k k', k = S k' -> forall cs, ItemsOK text es (E.level decls k') cs.
Proof. intros k k' _ cs. apply (ItemsOK_all text Hascii decls es Henv Hdecls Hadjs Hcont). Qed.

(* ... and of the pieces of a text token *)
Definition TLfS (k : nat) : Prop :=
  forall ps bps bacc m e p more c0 c frs acc fuel L r its tr,
  Forall (ep_ok m) ps -> W p (E.r_epieces ps ++ more) -> p + blen (E.r_epieces ps) = e -> e <= tlen text ->
  m = (0 <? ld_depth (c_ld c)) -> N.of_nat L + ld_depth (c_ld c) = 12 -> 12 <= N.of_nat k + ld_depth (c_ld c) ->
  Forall (chunk_okm m) bacc -> bacc = chunks bps -> nomarks bps ->
  OR c0 c frs -> SemI frs acc -> bnd acc = true ->
  c_entity_floor c <= len_N (c_parent_prefixes c) ->
  E.inline_run (glevel decls k) m ps = Some (its, tr) -> ld_run (c_ld c) tr = None ->
  Pok (acc ++ bps) its -> Rooms c0 (acc ++ bps) its ->
  (length (E.r_epieces ps) < fuel)%nat ->
  exists pos,
    (let! (b0, c1) := text_loop text (parse_content_lvl text L) r fuel (sst e p (E.r_epieces ps ++ more))
                        (push_text_chunks m bacc tb_new) c in finish_text r b0 c1) = Err (EntityReferenceLoop pos).

Section Level.
Variable k : nat.
Hypothesis IHf : forall k', k = S k' -> forall cs, ItemsF k' cs.
Hypothesis IHt : forall k', k = S k' -> TLfS k'.

(* a reference on which the detector stops at once *)
Lemma ref_step_enter_fail pc r fu s buf c value s1 c1 :
  at_end s = false -> parse_next_chunk text s (c_entities c) = Ok (ChText value, s1) ->
  finish_text r buf c = Ok c1 -> ld_enter (c_ld c1) = None -> s_pos s1 <= tlen text ->
  exists pos, text_loop text pc r (S fu) s buf c = Err (EntityReferenceLoop pos).
Proof.
  intros He Hp Ef Een Hs. rewrite (text_loop_entity_step text pc r fu s buf c value s1 He Hp).
  rewrite Ef. cbn [bind]. destruct (enter_fail text s1 (c_ld c1) Hascii Hs Een) as [pos E1].
  destruct (inc_references text s1 (c_ld c1)) as [l0| | |] eqn:Ei; cbn [bind] in E1 |- *.
  - rewrite E1. cbn [bind]. eauto.
  - injection E1 as ->. eauto.
  - discriminate.
  - discriminate.
Qed.

(* a reference whose value is entered, and fails *)
Lemma ref_step_value_fail pc r fu s buf c value s1 c1 ld1 sv pos :
  at_end s = false -> parse_next_chunk text s (c_entities c) = Ok (ChText value, s1) ->
  finish_text r buf c = Ok c1 -> ld_enter (c_ld c1) = Some ld1 ->
  stream_from_substr text (sl_start value) (sl_end value) = Ok sv ->
  pc sv (set_entity_floor (set_tag_name (set_ld c1 ld1) tag_name_null) (len_N (c_parent_prefixes c1))) = Err (EntityReferenceLoop pos) ->
  text_loop text pc r (S fu) s buf c = Err (EntityReferenceLoop pos).
Proof.
  intros He Hp Ef Een Es Epc. rewrite (text_loop_entity_step text pc r fu s buf c value s1 He Hp).
  rewrite Ef. cbn [bind]. destruct (enter_model text s1 _ _ Een) as (l0 & Ei1 & Ei2).
  rewrite Ei1. cbn [bind]. rewrite Ei2. cbn [bind]. rewrite Es. cbn [bind]. cbv zeta.
  cbn [c_parent_prefixes c_tag_name c_entity_floor set_ld]. rewrite Epc. reflexivity.
Qed.

(* the value of an entity on whose expansion the detector stops *)
Lemma value_f n v d en L c0 c2 frs2 acc2 :
  E.lookup (glevel decls k) n = Some v -> first_decl decls n = Some d -> ent_ok text d en ->
  OR c0 c2 frs2 -> SemI frs2 acc2 -> bnd acc2 = true ->
  0 < ld_depth (c_ld c2) <= 10 -> N.of_nat L + ld_depth (c_ld c2) = 13 -> 13 <= N.of_nat k + ld_depth (c_ld c2) ->
  c_entity_floor c2 = len_N (c_parent_prefixes c2) ->
  ld_run (c_ld c2) (E.x_trace v) = None ->
  Pok acc2 (E.x_items v) -> Rooms c0 acc2 (E.x_items v) ->
  exists sv pos,
    stream_from_substr text (sl_start (en_value en)) (sl_end (en_value en)) = Ok sv /\
    parse_content_lvl text L sv c2 = Err (EntityReferenceLoop pos).
Proof.
  intros El Hfd Hent HO HS Hbnd Hd0 Hlvl Hk Hfl Hld HP HR.
  rewrite lookup_glevel in El. rewrite Hfd in El. destruct k as [|k'] eqn:Ek; [lia|].
  pose proof (first_decl_in decls _ _ Hfd) as Hin.
  destruct L as [|L']; [lia|].
  destruct (E.e_value d) as [vps|its_v] eqn:Hval; cbn [E.inline_value] in El.
  - (* character data *)
    destruct (E.inline_ps (glevel decls k') false true vps) as [[qv trv]|] eqn:Ei; [|discriminate].
    cbn [E.obind fst snd] in El. injection El as <-. cbn [E.x_items E.x_trace] in *.
    destruct (ps_to_run decls k' true vps qv trv Ei) as (its' & Erun & Htx & Hpc).
    assert (Hdok : decl_ok d) by (rewrite Forall_forall in Hdecls; apply Hdecls; exact Hin).
    unfold decl_ok in Hdok. rewrite Hval in Hdok. destruct Hdok as [Hvok Hvn3].
    destruct Hent as (Hen & vs & tail & Eval & HWv). rewrite Hval in Eval, HWv. cbn [E.r_value] in Eval, HWv.
    rewrite Eval. cbn [sl sl_start sl_end].
    rewrite (stream_from_substr_W text vs (E.r_epieces vps) tail HWv).
    set (ve := vs + blen (E.r_epieces vps)) in *.
    pose proof (CstLex.W_le _ _ _ (CstLex.W_app _ _ _ _ HWv)) as Hlev. fold ve in Hlev.
    pose proof (ep_bytes true vps Hvok) as Hvb.
    assert (Ew : walk acc2 its' = walk acc2 [T.IText qv]).
    { rewrite (walk_texts its' acc2 Htx), Hpc. cbn [walk]. reflexivity. }
    assert (Hne : E.r_epieces vps <> []).
    { intros E0. destruct vps as [|[qq|nn] vr]; [cbn in Erun; injection Erun as _ <-; discriminate| |discriminate E0].
      apply Forall_cons_iff in Hvok. destruct Hvok as [[Hq _] _]. destruct (r_piece_ne 60 qq Hq) as (x1 & r1 & E1).
      cbn [E.r_epieces flat_map E.r_epiece] in E0. rewrite E1 in E0. discriminate. }
    eexists. cut (exists pos, parse_content_lvl text (S L') (sst ve vs (E.r_epieces vps ++ tail)) c2 = Err (EntityReferenceLoop pos)).
    { intros [pos E]. exists pos. split; [reflexivity|exact E]. }
    rewrite parse_content_lvl_S. unfold parse_content. cbn [sst s_rest].
    assert (Hlen : (1 <= length (E.r_epieces vps ++ tail))%nat).
    { rewrite app_length. destruct (E.r_epieces vps); [congruence|cbn; lia]. }
    destruct (length (E.r_epieces vps ++ tail)) as [|len'] eqn:Elen; [lia|].
    rewrite (content_loop_text_ne text Hascii context _ ve vs (E.r_epieces vps) tail c2 len' HWv eq_refl Hlev Hvb Hvn3 Hne).
    unfold CstEntCBuild.evl. cbn [token_with].
    rewrite process_text_with_unfold. unfold slice_bytes at 1. cbn [sl sl_start sl_end].
    unfold ve. rewrite (CstLex.W_sub _ _ _ _ HWv). fold ve.
    destruct (existsb (fun x => (x =? 38) || (x =? 13)) (E.r_epieces vps)) eqn:Efast; cbn [negb].
    2:{ destruct (existsb_or_false _ _ _ Efast) as [E38 _].
        destruct (inline_run_plain (glevel decls k') true vps its' trv E38 Hvok Erun) as (-> & _). discriminate. }
    cbn [fst snd]. unfold ve. rewrite (stream_from_substr_W text vs (E.r_epieces vps) tail HWv). fold ve. cbn [bind].
    assert (Hm' : true = (0 <? ld_depth (c_ld c2))) by (replace (0 <? ld_depth (c_ld c2)) with true by lia; reflexivity).
    assert (HP' : Pok (acc2 ++ []) its') by (rewrite app_nil_r; unfold Pok; rewrite Ew; exact HP).
    assert (HR' : Rooms c0 (acc2 ++ []) its') by (rewrite app_nil_r; unfold Rooms; rewrite Ew; exact HR).
    destruct (IHt k' eq_refl vps [] [] true ve vs tail c0 c2 frs2 acc2
                (S (length (s_rest (sst ve vs (E.r_epieces vps ++ tail))))) L' (vs, ve) its' trv
                Hvok HWv eq_refl Hlev Hm' ltac:(lia) ltac:(lia) (Forall_nil _) eq_refl (Forall_nil _) HO HS Hbnd
                ltac:(lia) Erun Hld HP' HR' ltac:(cbn [sst s_rest]; rewrite app_length; lia))
      as [pos Ef].
    cbn [push_text_chunks] in Ef. rewrite Ef. cbn [bind]. eauto.
  - (* items *)
    destruct (E.inline_items (glevel decls k') true its_v) as [[itv trv]|] eqn:Ei; [|discriminate].
    cbn [E.obind fst snd] in El. injection El as <-. cbn [E.x_items E.x_trace] in *.
    assert (Hc : decl_cont d) by (rewrite Forall_forall in Hcont; apply Hcont; exact Hin).
    unfold decl_cont in Hc. rewrite Hval in Hc. destruct Hc as [Hwf Hna].
    destruct Hent as (Hen & vs & tail & Eval & HWv). rewrite Hval in Eval, HWv. cbn [E.r_value] in Eval, HWv.
    rewrite Eval. cbn [sl sl_start sl_end].
    rewrite (stream_from_substr_W text vs (E.r_items its_v) tail HWv).
    set (ve := vs + blen (E.r_items its_v)).
    pose proof (esteps_list_le its_v (ewf_items_true _ Hwf)) as Hst.
    assert (HW' : CstEntCLex.W text ve tail vs (E.r_items its_v ++ [])).
    { split; [rewrite app_nil_r; exact HWv|rewrite app_nil_r; reflexivity]. }
    assert (Hm' : true = (0 <? ld_depth (c_ld c2))) by (replace (0 <? ld_depth (c_ld c2)) with true by lia; reflexivity).
    assert (Hb' : bnd_if its_v acc2) by (destruct its_v; [exact I|]; intros _; exact Hbnd).
    destruct (IHf k' eq_refl its_v true ve tail vs [] c0 c2 frs2 acc2 L' 0
                (S (length (E.r_items its_v ++ tail) - esteps_list its_v)) itv trv
                Hwf Hna HW' I HO HS Hb' Hm' ltac:(lia) ltac:(lia) ltac:(lia) Ei Hld HP HR) as [pos Ef].
    eexists. exists pos. split; [reflexivity|].
    rewrite parse_content_lvl_S. unfold parse_content. cbn [sst s_rest].
    replace (S (length (E.r_items its_v ++ tail)))
      with (esteps_list its_v + S (length (E.r_items its_v ++ tail) - esteps_list its_v))%nat
      by (rewrite app_length; lia).
    change (sst ve vs (E.r_items its_v ++ tail)) with (CstEntCLex.st ve tail vs (E.r_items its_v)).
    rewrite <- (app_nil_r (E.r_items its_v)) at 2. exact Ef.
Qed.

(* ---- the loop of process_text_with ---- *)
Lemma TLf : TLfS k.
Proof.
  intros ps. induction ps as [|pc0 rest IH]; intros bps bacc m e p more c0 c frs acc fuel L r its tr
    Hok HW He Hle Hm Hlvl Hk Hacc Hb Hnm HO HS Hbnd Hfl Hin Hld HP HR Hfu.
  - cbn [E.inline_run] in Hin. injection Hin as <- <-. discriminate.
  - apply Forall_cons_iff in Hok. destruct Hok as [Hp Hrest]. destruct pc0 as [q|n].
    + (* a piece *)
      cbn [E.inline_run] in Hin. destruct (E.inline_run (glevel decls k) m rest) as [[itr trr]|] eqn:Er; [|discriminate].
      cbn [E.obind fst snd] in Hin. injection Hin as <- <-.
      cbn [E.r_epieces flat_map E.r_epiece] in *. fold (E.r_epieces rest) in *.
      rewrite <- app_assoc in HW |- *. rewrite blen_app in He.
      pose proof Hp as [Hvp _]. pose proof (chunks_le_piece q Hvp) as Hcl. rewrite app_length in Hfu.
      replace fuel with (length (T.piece_chunks q) + (fuel - length (T.piece_chunks q)))%nat by lia.
      rewrite (loop_piece text Hascii) by (try assumption; lia). rewrite <- Hm.
      rewrite <- push_text_chunks_app.
      apply (IH (bps ++ [q]) (bacc ++ T.piece_chunks q) m e (p + blen (T.r_piece q)) more c0 c frs acc
                (fuel - length (T.piece_chunks q))%nat L r itr trr); try assumption; try lia.
      * apply (CstLex.W_app _ _ _ _ HW).
      * apply Forall_app. split; [exact Hacc|apply ep_chunks; exact Hp].
      * rewrite chunks_app, Hb. f_equal. unfold chunks. cbn [flat_map]. rewrite app_nil_r. reflexivity.
      * apply Forall_app. split; [exact Hnm|]. constructor; [apply (ep_nonmark _ _ Hp)|constructor].
      * rewrite app_assoc. exact HP.
      * rewrite app_assoc. exact HR.
    + (* a reference *)
      destruct Hp as [Hn Hpre].
      cbn [E.inline_run] in Hin. destruct (E.lookup (glevel decls k) n) as [v|] eqn:El; [|discriminate]. cbn [E.obind] in Hin.
      destruct (E.inline_run (glevel decls k) m rest) as [[itr trr]|] eqn:Er; [|discriminate].
      cbn [E.obind fst snd] in Hin. injection Hin as <- <-.
      cbn [E.r_epieces flat_map E.r_epiece] in *. fold (E.r_epieces rest) in *.
      rewrite <- !app_assoc in HW |- *. rewrite !blen_app in He. change (blen [38]) with 1 in He. change (blen [59]) with 1 in He.
      assert (Hfd : exists d, first_decl decls n = Some d).
      { rewrite lookup_glevel in El. destruct (first_decl decls n); [eauto|discriminate]. }
      destruct Hfd as [d Hfd].
      destruct (pnc_entity text Hascii decls es Henv Hdecls e p n (E.r_epieces rest ++ more) d HW Hn Hpre ltac:(lia) Hle Hfd)
        as (en & Epnc & Hent & _).
      destruct fuel as [|fu]; [lia|].
      set (acc1 := acc ++ bps) in *.
      set (acc2 := acc1 ++ [E.mark]).
      assert (Eits : T.IText [E.mark] :: E.x_items v ++ T.IText [E.mark] :: itr =
                     (T.IText [E.mark] :: E.x_items v ++ [T.IText [E.mark]]) ++ itr)
        by (cbn [app]; rewrite <- app_assoc; reflexivity).
      assert (Ew1 : walk acc1 (T.IText [E.mark] :: E.x_items v ++ [T.IText [E.mark]]) =
                    (fst (walk acc2 (E.x_items v)), snd (walk acc2 (E.x_items v)) ++ [E.mark])).
      { cbn [walk]. fold acc2. rewrite walk_app. cbn [walk fst snd]. rewrite app_nil_r. reflexivity. }
      rewrite Eits in HP, HR.
      destruct (Pok_app _ _ _ HP) as [HP1 HP2]. rewrite Ew1 in HP2. cbn [snd] in HP2.
      assert (HPv : Pok acc2 (E.x_items v)).
      { destruct HP1 as [X1 X2]. rewrite Ew1 in X1, X2. cbn [fst snd] in X1, X2. split; [exact X1|].
        apply (crlf_split_app_l _ [E.mark]). exact X2. }
      pose proof (Rooms_app_l _ _ _ _ HR) as HR1.
      (* flush *)
      destruct (buf_flush text es m bacc bps r c0 c frs acc Hacc Hb Hnm HO HS Hbnd) as (c1 & G0 & E0 & HO1 & HS1 & L1 & L2 & L3).
      { apply (crlf_split_app_l _ [E.mark]). apply (Pok_acc _ _ HPv). }
      { intros Z0 Z1. destruct HR1 as [HR1 _]. rewrite Ew1 in HR1. cbn [fst snd] in HR1.
        apply (node_room_room _ _ HR1).
        pose proof (flush_later (E.x_items v ++ [T.IText [E.mark]]) acc2) as Hl.
        rewrite walk_app in Hl. cbn [walk fst snd] in Hl. rewrite app_nil_r in Hl.
        assert (X : nsizes (map erase (flush acc2)) = 1).
        { unfold flush, acc2, acc1. rewrite !all_marks_app, Z0. cbn [andb].
          destruct (all_marks bps) eqn:Em; [apply (nomarks_all bps Hnm) in Em; congruence|].
          cbn [andb map]. rewrite nsizes_cons, nsize_text. change (nsizes []) with 0. lia. }
        lia. }
      assert (Hend : at_end (sst e p ([38] ++ n ++ [59] ++ E.r_epieces rest ++ more)) = false) by (rewrite at_end_sst; lia).
      assert (Hpnc : parse_next_chunk text (sst e p ([38] ++ n ++ [59] ++ E.r_epieces rest ++ more)) (c_entities c) =
                     Ok (ChText (en_value en), sst e (p + 2 + blen n) (E.r_epieces rest ++ more)))
        by (rewrite (or_es _ _ _ _ HO); exact Epnc).
      (* the detector *)
      cbn [ld_run] in Hld. destruct (ld_enter (c_ld c)) as [ld1|] eqn:Eenter.
      2:{ destruct (ref_step_enter_fail (parse_content_lvl text L) r fu _ _ c (en_value en) _ c1 Hend Hpnc E0
                      ltac:(rewrite L1; exact Eenter) ltac:(cbn [sst s_pos]; lia)) as [pos Ef].
          rewrite Ef. cbn [bind]. eauto. }
      destruct (enter_d _ _ Eenter) as [Hd1 Hd10].
      set (c2 := set_entity_floor (set_tag_name (set_ld c1 ld1) tag_name_null) (len_N (c_parent_prefixes c1))).
      assert (HO2 : OR c0 c2 (frs ++ G0)) by (apply (OR_frame es c0 c1 c2 _ HO1); unfold c2; repeat split).
      assert (HS2 : SemI (frs ++ G0) acc2) by (apply SemI_marks; [exact HS1|reflexivity]).
      assert (Hb2 : bnd acc2 = true) by (unfold acc2; rewrite bnd_snoc; reflexivity).
      assert (HRv : Rooms c0 acc2 (E.x_items v)).
      { destruct HR1 as [X1 X2]. rewrite Ew1 in X1, X2. cbn [fst snd] in X1, X2. split; [|exact X2].
        unfold node_room in *. rewrite !map_app, !nsizes_app in *.
        assert (Y : nsizes (map erase (flush (snd (walk acc2 (E.x_items v))))) <=
                    nsizes (map erase (flush (snd (walk acc2 (E.x_items v)) ++ [E.mark])))).
        { unfold flush. rewrite all_marks_app. change (all_marks [E.mark]) with true. rewrite andb_true_r.
          destruct (all_marks (snd (walk acc2 (E.x_items v)))); [apply N.le_refl|].
          cbn [map]. rewrite !nsizes_cons, !nsize_text. lia. }
        lia. }
      rewrite ld_run_app in Hld. destruct (ld_run ld1 (E.x_trace v)) as [ld1'|] eqn:Erun1.
      * (* the value is read; the detector stops later *)
        cbn [ld_run] in Hld.
        assert (El' : E.lookup (E.level decls k) n = Some v).
        { apply (agree_lookup decls k n v (c_ld c) ld1 ld1' (IHall decls k) El Eenter Erun1 Hk). }
        destruct (value_ok text Hascii decls es Henv Hdecls Hcont k (IHok k) n v d en L c0 c2 (frs ++ G0) acc2 ld1' El' Hfd Hent HO2 HS2 Hb2)
          as (sv & s' & c0a & c2' & frsa & K1 & e1 & Es & Epc & HRes1); try assumption.
        { unfold c2. cbn. lia. }
        { unfold c2. cbn. lia. }
        { unfold c2. reflexivity. }
        pose proof HRes1 as (S1 & O1 & M1 & F1 & Le1 & D1 & D1' & Fl1 & T1).
        assert (Hpp : len_N (c_parent_prefixes c2') = c_entity_floor c2').
        { rewrite Fl1. change (c_entity_floor c2) with (len_N (c_parent_prefixes c1)).
          rewrite (Run_pp _ _ _ (or_run _ _ _ _ O1)), (Run_pp _ _ _ (or_run _ _ _ _ HO1)).
          destruct S1 as (_ & _ & ->). reflexivity. }
        rewrite (ref_step text (parse_content_lvl text L) r fu (sst e p ([38] ++ n ++ [59] ++ E.r_epieces rest ++ more))
                   (push_text_chunks m bacc tb_new) c (en_value en) (sst e (p + 2 + blen n) (E.r_epieces rest ++ more)) c1 ld1 sv s' c2');
          try assumption.
        2:{ rewrite L1. exact Eenter. }
        set (c3 := set_ld (set_entity_floor (set_tag_name c2' (c_tag_name c1)) (c_entity_floor c1)) (dec_depth (c_ld c2'))).
        assert (HO3 : OR c0a c3 frsa) by (apply (OR_frame es c0a c2' c3 _ O1); unfold c3; repeat split).
        assert (Eld3 : c_ld c3 = dec_depth ld1') by (unfold c3; cbn; rewrite D1; reflexivity).
        assert (Hdd : ld_depth (dec_depth ld1') = ld_depth (c_ld c)).
        { rewrite dec_d; rewrite D1'; unfold c2; cbn [c_ld set_entity_floor set_tag_name set_ld]; lia. }
        assert (HResE : Res c0 c acc1 (T.IText [E.mark] :: E.x_items v ++ [T.IText [E.mark]]) (dec_depth ld1') c0a c3 frsa K1 e1).
        { unfold CstEntCText.Res. rewrite Ew1. cbn [fst snd].
          split; [exact S1|]. split; [exact HO3|]. split; [apply SemI_marks; [exact M1|reflexivity]|].
          split; [exact F1|]. split; [exact Le1|]. split; [exact Eld3|]. split; [exact Hdd|].
          split; [unfold c3; cbn; exact L3|]. unfold tn_set, c3. cbn. rewrite L2. auto. }
        apply (IH [] [] m e (p + 2 + blen n) more c0a c3 frsa (snd (walk acc2 (E.x_items v)) ++ [E.mark]) fu L r itr trr); try assumption.
        -- pose proof (CstLex.W_app _ _ n _ (CstLex.W_cons _ _ _ _ HW)) as Y. apply CstLex.W_cons in Y.
           replace (p + 2 + blen n) with (p + 1 + blen n + 1) by lia. exact Y.
        -- lia.
        -- rewrite Eld3, Hdd. exact Hm.
        -- rewrite Eld3, Hdd. exact Hlvl.
        -- rewrite Eld3, Hdd. exact Hk.
        -- constructor.
        -- reflexivity.
        -- constructor.
        -- apply SemI_marks; [exact M1|reflexivity].
        -- rewrite bnd_snoc. reflexivity.
        -- unfold c3. cbn [c_entity_floor c_parent_prefixes set_ld set_entity_floor set_tag_name].
           rewrite (Run_pp _ _ _ (or_run _ _ _ _ O1)). destruct S1 as (_ & _ & ->). rewrite L3.
           rewrite <- (Run_pp _ _ _ (or_run _ _ _ _ HO)). exact Hfl.
        -- rewrite Eld3. exact Hld.
        -- rewrite app_nil_r. exact HP2.
        -- rewrite app_nil_r. pose proof (Rooms_app_r text es _ _ _ _ _ _ _ _ _ _ _ HResE HR) as X. rewrite Ew1 in X. exact X.
        -- rewrite !app_length in Hfu. cbn [length] in Hfu. lia.
      * (* the detector stops inside the value *)
        destruct (value_f n v d en L c0 c2 (frs ++ G0) acc2 El Hfd Hent HO2 HS2 Hb2) as (sv & pos & Es & Epc); try assumption.
        { unfold c2. cbn. lia. }
        { unfold c2. cbn. lia. }
        { unfold c2. cbn. lia. }
        { unfold c2. reflexivity. }
        rewrite (ref_step_value_fail (parse_content_lvl text L) r fu (sst e p ([38] ++ n ++ [59] ++ E.r_epieces rest ++ more))
                   (push_text_chunks m bacc tb_new) c (en_value en) (sst e (p + 2 + blen n) (E.r_epieces rest ++ more)) c1 ld1 sv pos
                   Hend Hpnc E0 ltac:(rewrite L1; exact Eenter) Es Epc).
        cbn [bind]. eauto.
Qed.

End Level.

End RejText.
