(* Proofs/ErrPosTokenizer.v -- property C14 (errors), part 2: the tokenizer, for any callback
   whose own errors are positioned. *)
From Coq Require Import Lia ZifyBool ZifyN ZifyNat.
From RX Require Import Generated.
From RX.Model Require Import Base CharClass Stream Tokenizer.
From RX.Proofs Require Import Tactics ErrPosStream.

Local Open Scope N_scope.

Section Tok.
Variable text : bytes.
Variable C : Type.
Variable ev : token -> C -> res C.
Hypothesis Hev : forall tok c, epos text (ev tok c).

Lemma parse_comment_epos : forall s c, epos text (parse_comment text C ev s c).
Proof. intros. epos_tac. Qed.
Lemma parse_pi_epos : forall s c, epos text (parse_pi text C ev s c).
Proof. intros. epos_tac. Qed.
#[local] Hint Resolve parse_comment_epos parse_pi_epos : epos.

Lemma parse_misc_loop_epos : forall fuel s c, epos text (parse_misc_loop text C ev fuel s c).
Proof.
  induction fuel as [|fu IH]; intros s c; cbn [parse_misc_loop]; epos_tac.
Qed.
#[local] Hint Resolve parse_misc_loop_epos : epos.
Lemma parse_misc_epos : forall s c, epos text (parse_misc text C ev s c).
Proof. intros. epos_tac. Qed.
#[local] Hint Resolve parse_misc_epos : epos.

Lemma parse_attribute_epos : forall s, epos text (parse_attribute text s).
Proof. intros. epos_tac. Qed.
Lemma decl_consume_spaces_epos : forall s, epos text (decl_consume_spaces text s).
Proof. intros. epos_tac. Qed.
#[local] Hint Resolve parse_attribute_epos decl_consume_spaces_epos : epos.
Lemma parse_declaration_epos : forall s, epos text (parse_declaration text s).
Proof. intros. epos_tac. Qed.
#[local] Hint Resolve parse_declaration_epos : epos.

Lemma parse_external_id_epos : forall s, epos text (parse_external_id text s).
Proof. intros. epos_tac. Qed.
#[local] Hint Resolve parse_external_id_epos : epos.
Lemma parse_entity_def_epos : forall s g, epos text (parse_entity_def text s g).
Proof. intros. epos_tac. Qed.
#[local] Hint Resolve parse_entity_def_epos : epos.
Lemma parse_entity_decl_epos : forall s c, epos text (parse_entity_decl text C ev s c).
Proof. intros. epos_tac. Qed.
Lemma consume_decl_loop_epos : forall fuel s, epos text (consume_decl_loop text fuel s).
Proof.
  induction fuel as [|fu IH]; intros s; cbn [consume_decl_loop]; epos_tac.
Qed.
#[local] Hint Resolve consume_decl_loop_epos : epos.
Lemma consume_decl_epos : forall s, epos text (consume_decl text s).
Proof. intros. epos_tac. Qed.
Lemma parse_doctype_start_epos : forall s, epos text (parse_doctype_start text s).
Proof. intros. epos_tac. Qed.
#[local] Hint Resolve parse_entity_decl_epos consume_decl_epos parse_doctype_start_epos : epos.

Lemma parse_doctype_loop_epos : forall fuel start s c,
  epos text (parse_doctype_loop text C ev fuel start s c).
Proof.
  induction fuel as [|fu IH]; intros start s c; cbn [parse_doctype_loop]; epos_tac.
Qed.
#[local] Hint Resolve parse_doctype_loop_epos : epos.
Lemma parse_doctype_epos : forall s c, epos text (parse_doctype text C ev s c).
Proof. intros. epos_tac. Qed.
#[local] Hint Resolve parse_doctype_epos : epos.

Lemma parse_element_loop_epos : forall fuel ts s c,
  epos text (parse_element_loop text C ev fuel ts s c).
Proof.
  induction fuel as [|fu IH]; intros ts s c; cbn [parse_element_loop]; epos_tac.
Qed.
#[local] Hint Resolve parse_element_loop_epos : epos.
Lemma parse_element_epos : forall s c, epos text (parse_element text C ev s c).
Proof. intros. epos_tac. Qed.
Lemma parse_cdata_epos : forall s c, epos text (parse_cdata text C ev s c).
Proof. intros. epos_tac. Qed.
Lemma parse_close_element_epos : forall s c, epos text (parse_close_element text C ev s c).
Proof. intros. epos_tac. Qed.
Lemma parse_text_epos : forall s c, epos text (parse_text text C ev s c).
Proof. intros. epos_tac. Qed.
#[local] Hint Resolve parse_element_epos parse_cdata_epos parse_close_element_epos parse_text_epos : epos.

Lemma parse_content_loop_epos : forall fuel depth s c,
  epos text (parse_content_loop text C ev fuel depth s c).
Proof.
  induction fuel as [|fu IH]; intros depth s c; cbn [parse_content_loop]; epos_tac.
Qed.
#[local] Hint Resolve parse_content_loop_epos : epos.
Lemma parse_content_epos : forall s c, epos text (parse_content text C ev s c).
Proof. intros. epos_tac. Qed.
#[local] Hint Resolve parse_content_epos : epos.

Lemma parse_document_epos : forall dtd c, epos text (parse_document text C ev dtd c).
Proof. intros. epos_tac. Qed.

End Tok.

#[export] Hint Resolve parse_content_epos parse_document_epos : epos.

(* the tokenizer with ANY callback whose own errors are positioned *)
Theorem tokenizer_errors_positioned : forall text (C : Type) (ev : token -> C -> res C) dtd c e,
  (forall tok c0 e0, ev tok c0 = Err e0 -> positioned text e0) ->
  parse_document text C ev dtd c = Err e -> positioned text e.
Proof.
  intros text C ev dtd c e Hev H.
  exact (parse_document_epos text C ev (fun tok c0 e0 => Hev tok c0 e0) dtd c e H).
Qed.
Print Assumptions tokenizer_errors_positioned.
