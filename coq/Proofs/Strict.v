(* Proofs/Strict.v -- the panic sites of the SOURCE that the model does not represent (it uses a
   total function there) are not reached on valid UTF-8 input with a node limit that fits u32.

   The strict variants (Proofs/StrictModel.v) return [Panic site] exactly where the source would
   panic.  For each site: the theorem that says it is not reached, and its kind:
     U  = unconditional (the strict function IS the model function, on every argument);
     R  = run level (a strict function is run through the whole parse and never panics);
     C  = call-site level (the strict function coincides with the model function on every
          argument that satisfies an invariant which the registered NoPanic* development
          establishes at every call site; the closure argument is given explicitly).

   site (source)                                   strict function        theorem                                      kind
   ----------------------------------------------  ---------------------  -------------------------------------------  ----
   lib.rs push_ns: debug_assert_ne!(name,Some("")) push_ns_s              site_push_ns_unreachable                     R
                                                                          (+ push_ns_s_eq, process_attribute_s_eq,
                                                                             init_context_s_eq)
   tokenizer.rs Stream::as_bytes / starts_with:    avail_s, starts_with_s site_as_bytes_unreachable                    C
     &bytes[pos..end]                              advance_until2_s         every stream record that the model can
                                                                            build (StreamGen: stream_new,
                                                                            stream_from_substr, advance, skip_bytes are
                                                                            the only constructors in Model/Stream.v)
                                                                            has pos <= end <= len
   tokenizer.rs skip_string: from_utf8(..).unwrap  skip_string_s          site_skip_string_unreachable                 C
                                                                            (the five call sites pass the literals
                                                                            "-->", "?>", "]]>", "version": all valid)
   parse.rs process_cdata: split_at, &rest[2..],   cdata_norm_s,          site_cdata_unreachable (any valid &str)      U/R
     &rest[1..]                                    process_cdata_s        + site_builder_run (run level)
   tokenizer.rs chars(): eager &str[pos..end]      next_char_s            site_chars_unreachable, and for the four     C
                                                   skip_chars_loop_s ...    callers of chars() (the only ones):
                                                                            site_chars_callers
   lib.rs Descendants::{next,nth,next_back}:       desc_next_s,           site_descendants_unreachable                 R
     NodeId::from(self.from + idx)                 desc_nth_s,              (parsed document, any sequence of the
                                                   desc_next_back_s          three operations)
   lib.rs print_children: depth - 2                print_loop_s,          site_debug_depth_unreachable                 U
                                                   debug_document_s         (every document)
   parse.rs resolve_namespaces: (start..len).into  ns_range_s,            site_ns_range_unreachable                    R
                                                   resolve_namespaces_s     (+ resolve_namespaces_s_eq under Core)
   tokenizer.rs try_consume_byte: advance(1)       try_consume_byte_s     site_try_consume_byte_unreachable            U

   R for the builder sites: [parse_builder_strict] = init_context_s, then the model's tokenizer
   (generic in its callback) run with the strict callback [token_s] (strict push_ns, strict
   resolve_namespaces, strict process_cdata; entity values re-enter the tokenizer with the same
   strict callback at every level), then the end of parse.  It never panics
   (site_builder_run), and the strict callback coincides with the model callback on every token
   the tokenizer delivers (TokOk2, StrictTok.v) in every state of the builder invariant
   (token_s_eq). *)
From Coq Require Import Ascii String.
From Coq Require Import List Arith NArith Bool Lia.
Import ListNotations.
From RX Require Import Generated.
From RX.Model Require Import Base CharClass Stream Tokenizer Doc Builder Parse Api Debug.
From RX.Proofs Require Import NoPanicUtf8 NoPanicStream NoPanicTokenizer NoPanicBuilder NoPanicBuilderCtx
     NoPanicParse NoPanicFinal.
From RX.Proofs Require Import StrictModel StrictTok StrictStream StrictBuilder StrictApi.
Open Scope N_scope.

(* ---- try_consume_byte ---- *)
Theorem site_try_consume_byte_unreachable : forall c s,
  try_consume_byte_s c s = Ok (try_consume_byte c s).
Proof. exact try_consume_byte_s_eq. Qed.
Print Assumptions site_try_consume_byte_unreachable.

(* ---- print_children ---- *)
Theorem site_debug_depth_unreachable : forall d, debug_document_s d = debug_document d.
Proof. exact debug_document_s_eq. Qed.
Print Assumptions site_debug_depth_unreachable.

(* ---- Descendants ---- *)
Print Assumptions site_descendants_unreachable.

(* ---- as_bytes / starts_with ---- *)
Print Assumptions site_as_bytes_unreachable.

Theorem site_advance_until2_unreachable : forall text n1 n2 s, StreamGen text s ->
  advance_until2_s text n1 n2 s = advance_until2 n1 n2 s.
Proof. intros. apply advance_until2_s_eq. apply StreamGen_Wf; auto. Qed.
Print Assumptions site_advance_until2_unreachable.

(* ---- skip_string ---- *)
Theorem site_skip_string_unreachable : forall text p s,
  In p skip_string_literals -> StreamGen text s ->
  skip_string_s text p s = skip_string text p s.
Proof.
  intros text p s Hp Hs. apply skip_string_s_eq; [apply StreamGen_Wf; auto|].
  pose proof skip_string_literals_valid as H. rewrite forallb_forall in H. auto.
Qed.
Print Assumptions site_skip_string_unreachable.

(* ---- chars() ---- *)
Print Assumptions site_chars_unreachable.

Theorem site_chars_callers : forall text, valid_utf8_b text = true ->
  (forall f fuel s, SInv text s -> skip_chars_loop_s text fuel f s = skip_chars_loop text fuel f s) /\
  (forall fuel s, SInv text s -> skip_name_loop_s text fuel s = skip_name_loop fuel s) /\
  (forall s, SInv text s -> skip_name_s text s = skip_name text s) /\
  (forall start fuel spl s, SInv text s ->
     consume_qname_loop_s text fuel start spl s = consume_qname_loop text fuel start spl s).
Proof.
  intros text Hvalid. repeat split; intros.
  - apply skip_chars_loop_s_eq; auto.
  - apply skip_name_loop_s_eq; auto.
  - apply skip_name_s_eq; auto.
  - apply consume_qname_loop_s_eq; auto.
Qed.
Print Assumptions site_chars_callers.

(* ---- process_cdata ---- *)
Theorem site_cdata_unreachable : forall l, valid_utf8_b l = true -> cdata_norm_s l = Ok (cdata_norm l).
Proof. exact cdata_norm_s_eq. Qed.
Print Assumptions site_cdata_unreachable.

(* ---- the builder sites, run level ---- *)
Theorem site_builder_run : forall text opt p,
  valid_utf8_b text = true -> nodes_limit opt <= u32_max -> parse_builder_strict text opt <> Panic p.
Proof. exact parse_builder_strict_no_panic. Qed.
Print Assumptions site_builder_run.

Theorem site_push_ns_unreachable : forall text opt p,
  valid_utf8_b text = true -> nodes_limit opt <= u32_max -> parse_builder_strict text opt <> Panic p.
Proof. exact parse_builder_strict_no_panic. Qed.

Theorem site_ns_range_unreachable : forall text c, Core text c ->
  resolve_namespaces_s text c = resolve_namespaces text c.
Proof. intros. apply resolve_namespaces_s_eq; auto. Qed.
Print Assumptions site_ns_range_unreachable.

(* the strict callback is the model callback on everything the tokenizer delivers *)
Theorem strict_callback_refines : forall text tok c, valid_utf8_b text = true ->
  TokOk2 text tok -> Core text c ->
  token_s text tok c = token_with text (process_text_s text) tok c.
Proof. intros. apply token_s_eq; auto. Qed.
Print Assumptions strict_callback_refines.
