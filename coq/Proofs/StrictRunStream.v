(* Proofs/StrictRunStream.v -- the strict Stream functions of StrictRunModel.v coincide with the
   model on every stream that satisfies the stream invariant SInv of NoPanicStream.v. *)
From Coq Require Import Ascii String.
From Coq Require Import List Arith NArith Bool Lia ZifyBool ZifyN ZifyNat.
Import ListNotations.
From RX Require Import Generated.
From RX.Model Require Import Base CharClass Stream Tokenizer.
From RX.Proofs Require Import Tactics NoPanicUtf8 NoPanicStream.
From RX.Proofs Require Import StrictModel StrictStream StrictRunModel.
Open Scope N_scope.

Section WithText.
Variable text : bytes.
Hypothesis Hvalid : valid_utf8_b text = true.
Notation stream := Stream.stream.
Notation SInv := (SInv text).
Notation Wf := (Wf text).

Lemma SInv_Wf s : SInv s -> Wf s.
Proof. intros [H _]. apply SInv0_Wf; auto. Qed.

Lemma ifsw_eq {X} s p (A B : res X) : Wf s ->
  ifsw text s p A B = if starts_with s p then A else B.
Proof. intros H. unfold ifsw. rewrite starts_with_s_eq; auto. Qed.

Lemma until_r_eq k p s ch : Wf s ->
  until_r text k p s ch = Ok (negb ((ch =? k) && starts_with s p)).
Proof.
  intros H. unfold until_r. destruct (ch =? k); [|reflexivity].
  rewrite starts_with_s_eq; auto.
Qed.

Lemma skip_chars_loop_r_eq fr f :
  (forall s' ch, SInv s' -> fr s' ch = Ok (f s' ch)) ->
  forall fuel s, SInv s -> skip_chars_loop_r text fuel fr s = skip_chars_loop text fuel f s.
Proof.
  intros Hf. induction fuel as [|fu IH]; intros s Hs; [reflexivity|].
  cbn [skip_chars_loop_r skip_chars_loop]. rewrite (next_char_s_eq text Hvalid) by apply Hs.
  destruct (next_char s) as [[[c n]|]| | |] eqn:En; cbn [bind]; try reflexivity.
  destruct (negb (char_is_char c)); [reflexivity|]. rewrite Hf by auto. cbn [bind].
  destruct (f s c); [|reflexivity].
  destruct (advance n s) as [s'| | |] eqn:Ea; cbn [bind]; try reflexivity.
  apply IH. eapply step_SInv; eauto.
Qed.

Lemma skip_chars_r_eq fr f s :
  (forall s' ch, SInv s' -> fr s' ch = Ok (f s' ch)) -> SInv s ->
  skip_chars_r text fr s = skip_chars text f s.
Proof. intros. unfold skip_chars_r, skip_chars. apply skip_chars_loop_r_eq; auto. Qed.

Lemma consume_chars_r_eq fr f s :
  (forall s' ch, SInv s' -> fr s' ch = Ok (f s' ch)) -> SInv s ->
  consume_chars_r text fr s = consume_chars text f s.
Proof. intros. unfold consume_chars_r, consume_chars. rewrite (skip_chars_r_eq fr f); auto. Qed.

Lemma consume_chars_until_eq k p s : SInv s ->
  consume_chars_r text (until_r text k p) s =
  consume_chars text (fun s ch => negb ((ch =? k) && starts_with s p)) s.
Proof.
  intros. apply consume_chars_r_eq; auto. intros. apply until_r_eq. apply SInv_Wf; auto.
Qed.

Lemma consume_name_s_eq s : SInv s -> consume_name_s text s = consume_name text s.
Proof. intros. unfold consume_name_s, consume_name. rewrite skip_name_s_eq; auto. Qed.

Lemma consume_qname_s_eq s : SInv s -> consume_qname_s text s = consume_qname text s.
Proof. intros. unfold consume_qname_s, consume_qname. rewrite consume_qname_loop_s_eq; auto. Qed.

Lemma consume_reference_s_eq s : SInv s -> consume_reference_s text s = consume_reference text s.
Proof.
  intros Hs. unfold consume_reference_s, consume_reference.
  rewrite try_consume_byte_s_eq. cbn [bind].
  pose proof (try_consume_byte_safe text Hvalid 38 s Hs eq_refl) as H1.
  destruct (try_consume_byte 38 s) as [ok s1]. cbn [snd] in H1.
  destruct (negb ok); [reflexivity|].
  rewrite try_consume_byte_s_eq. cbn [bind].
  pose proof (try_consume_byte_safe text Hvalid 35 s1 ltac:(apply H1) eq_refl) as H2.
  destruct (try_consume_byte 35 s1) as [is_num s2]. cbn [snd] in H2.
  destruct is_num.
  - rewrite try_consume_byte_s_eq. cbn [bind]. reflexivity.
  - rewrite consume_name_s_eq by apply H2. reflexivity.
Qed.

End WithText.
