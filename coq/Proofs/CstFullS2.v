(* Proofs/CstFullS2.v -- the capstone fragment, stage S2 (Spec/CstFull.v, [pieces]: values and runs are piece
   lists of Spec/CstText.v over Unicode literals, the value of a namespace declaration included):
   a run of character data in the content loop, what the stage supplies to the frame, and the
   whole-document theorem [parse_render_sem_full_s2]. *)
From Coq Require Import Ascii String.
From Coq Require Import List NArith PeanoNat Bool Lia ZifyBool ZifyN ZifyNat.
Import ListNotations.
From RX Require Import Generated.
From RX.Model Require Import Base CharClass Stream Tokenizer Doc Builder Parse.
From RX.Spec Require Cst Scope CstNs CstU CstText.
From RX.Spec Require Import Text CstFull.
From RX.Proofs Require Import Tactics CstLex CstBuild CstNsLex CstNsView CstNsBuild CstULex TextMachine TextMerge.
From RX.Proofs Require Import CstTextSem CstTextLex CstTextBuild CstFullLex CstFullBuild CstFullTree CstFullItems CstFullDoc CstFullMain.
From RX.Proofs Require Import CstFullS2Sem CstFullS2Lex CstFullS2Build.
From RX.Proofs Require CstItems CstNsItems CstTextItems CstEntRun.
Open Scope N_scope.

Notation text_follow := CstTextItems.text_follow.

(* ------------------------------------------------------------------------------------------ *)
(* a run of character data in the content loop                                                *)
(* ------------------------------------------------------------------------------------------ *)
Section URun.
Variable text : bytes.
Variable D : list Scope.binding.
Hypothesis HD : forall l, NoDup l -> incl l D -> N.of_nat (length l) <= 65535.

Notation loop := (parse_content_loop text context (tok_ev text)).
Notation st := (CstLex.st text).
Notation W := (CstLex.W text).
Notation WV := (CstULex.WV text).
Notation CIn := (CstNsBuild.CIn text D).

Lemma seg_valid s : seg_wf_u s -> U8.Valid (r_seg s).
Proof.
  destruct s as [l|bs]; cbn [seg_wf_u r_seg].
  - intros Hw. destruct (ss_bytes_u l Hw) as (Hu & _). apply ustr_valid. exact Hu.
  - intros [Hu _]. repeat apply U8.Valid_app; [apply Valid_lit; reflexivity|apply ustr_valid; exact Hu|apply Valid_lit; reflexivity].
Qed.

Lemma seg_step_u s p rest c fuel depth : WV p (r_seg s ++ rest) -> seg_wf_u s -> LD c ->
  (is_ss s = true -> text_stop rest) ->
  loop (S fuel) depth (st p (r_seg s ++ rest)) c =
  let! c' := append_text (frag p s) (seg_range p s) c in
  loop fuel depth (st (p + blen (r_seg s)) rest) c'.
Proof.
  intros HWv Hwf Hld Hstop. pose proof (WV_W _ _ _ HWv) as HW. destruct s as [l|bs]; cbn [r_seg] in *.
  - destruct (ss_bytes_u l Hwf) as (Hu & Hb & Hc & x & r & Ex & Hx60).
    assert (El : loop (S fuel) depth (st p (T.r_pieces l ++ rest)) c =
                 let! (s, c) := parse_text text context (tok_ev text) (st p (T.r_pieces l ++ rest)) c in loop fuel depth s c).
    { revert HW. rewrite Ex. cbn [app]. intros HW. apply (CstItems.loop_text text); assumption. }
    rewrite El. clear El.
    rewrite (lex_text_g text) by (try assumption; apply Hstop; reflexivity).
    pose proof (tok_seg_u text p (SS l) rest c HWv Hwf Hld) as Et. cbn [seg_tok] in Et.
    rewrite Et. destruct (append_text _ _ c); reflexivity.
  - destruct Hwf as [H1 H2]. rewrite <- !app_assoc in HW, HWv |- *.
    assert (El : loop (S fuel) depth (st p (T.cdata_open ++ bs ++ T.cdata_close ++ rest)) c =
                 let! (s, c) := parse_cdata text context (tok_ev text) (st p (T.cdata_open ++ bs ++ T.cdata_close ++ rest)) c in
                 loop fuel depth s c).
    { revert HW. change T.cdata_open with ([60; 33] ++ [91; 67; 68; 65; 84; 65; 91]).
      rewrite <- app_assoc. cbn [app]. intros HW.
      rewrite (CstItems.loop_lt text) by exact HW. change (33 =? 33) with true. cbv iota.
      rewrite !(starts_with_st text) by exact HW.
      change (prefix_b (b "<!--") (60 :: 33 :: 91 :: 67 :: 68 :: 65 :: 84 :: 65 :: 91 :: bs ++ T.cdata_close ++ rest)) with false.
      replace (prefix_b (b "<![CDATA[") (60 :: 33 :: 91 :: 67 :: 68 :: 65 :: 84 :: 65 :: 91 :: bs ++ T.cdata_close ++ rest)) with true
        by (cbn; reflexivity).
      reflexivity. }
    rewrite El. clear El. change T.cdata_close with n3 in HWv |- *.
    rewrite (lex_cdata_u text) by assumption.
    assert (HW' : WV p (r_seg (SC bs) ++ rest)) by (cbn [r_seg]; rewrite <- !app_assoc; exact HWv).
    pose proof (tok_seg_u text p (SC bs) rest c HW' (conj H1 H2) Hld) as Et. cbn [seg_tok] in Et.
    rewrite Et. destruct (append_text _ _ c); cbn [bind]; try reflexivity.
    rewrite !blen_app. change (blen T.cdata_open) with 9. change (blen n3) with 3.
    replace (p + (9 + (blen bs + 3))) with (p + 9 + blen bs + 3) by lia. reflexivity.
Qed.

Lemma frags_bytes_u : forall L p post, W p (flat_map r_seg L ++ post) -> Forall seg_wf_u L ->
  map (cow_bytes text) (CstTextItems.frags p L) = map seg_sem L.
Proof.
  induction L as [|s L IH]; intros p post HW HF; [reflexivity|]. inversion HF as [|? ? Hs HL]; subst.
  cbn [flat_map] in HW. rewrite <- app_assoc in HW. cbn [CstTextItems.frags map].
  rewrite (frag_bytes_u text p s _ HW Hs). f_equal. apply (IH _ post); [apply (W_app _ _ _ _ HW)|exact HL].
Qed.

Lemma alt_stop_u s L post : alt (s :: L) -> text_follow post ->
  is_ss s = true -> text_stop (flat_map r_seg L ++ post).
Proof.
  intros A Hp Hs. destruct L as [|[l|bs] L']; cbn [flat_map app].
  - apply CstTextItems.text_follow_stop. exact Hp.
  - destruct A as [A _]. specialize (A Hs). discriminate.
  - reflexivity.
Qed.

Lemma run_loop_u c1 post : LD c1 -> text_follow post -> forall L prev p frs fuel depth,
  frs <> [] -> Forall seg_wf_u L -> alt (prev :: L) -> WV p (flat_map r_seg L ++ post) ->
  loop (length L + fuel) depth (st p (flat_map r_seg L ++ post)) (set_after_text c1 frs) =
  loop fuel depth (st (p + blen (flat_map r_seg L)) post) (set_after_text c1 (frs ++ CstTextItems.frags p L)).
Proof.
  intros Hld Hp. induction L as [|s L IH]; intros prev p frs fuel depth Hne HF A HW.
  - cbn [length flat_map app CstTextItems.frags Nat.add]. rewrite blen_nil, N.add_0_r, app_nil_r. reflexivity.
  - inversion HF as [|? ? Hs HL]; subst. cbn [flat_map] in HW |- *. rewrite <- app_assoc in HW |- *.
    assert (A' : alt (s :: L)) by (destruct A as [_ A]; exact A).
    cbn [length Nat.add]. rewrite seg_step_u; [|exact HW|exact Hs|exact Hld|intros Hss; eapply alt_stop_u; eassumption].
    rewrite next_frag by exact Hne. cbn [bind CstTextItems.frags].
    rewrite (IH s); [|destruct frs; discriminate|exact HL|exact A'|apply (WV_app _ _ _ _ HW (seg_valid s Hs))].
    rewrite <- app_assoc. cbn [app]. rewrite blen_app. rewrite N.add_assoc. reflexivity.
Qed.

(* the whole run: one Text node whose content is the decoded character data *)
Lemma run_ok inh ps p post c depth fuel :
  ps <> [] -> Forall btpiece ps -> T.no_adjacent_lit ps = true ->
  WV p (T.r_pieces ps ++ post) -> text_follow post ->
  CIn inh c -> LD c -> c_after_text c = [] -> room c ->
  exists c' stg,
    loop (length (segs ps) + fuel) depth (st p (T.r_pieces ps ++ post)) c =
    loop fuel depth (st (p + blen (T.r_pieces ps)) post) c' /\
    Stepn c c' [(Some (c_parent_id c), KText stg)] [] /\ CIn inh c' /\ c_after_text c' = [] /\
    c_tag_name c' = c_tag_name c /\ d_ns_tree (c_doc c') = d_ns_tree (c_doc c) /\
    storage_bytes text stg = T.text_sem ps.
Proof.
  intros Hne H1 H2 HW Hfol I Hld Hat R.
  destruct (segs_wf_u ps H1 H2) as (HF & _). pose proof (CstEntRun.alt_segs ps) as A.
  assert (Hne' : segs ps <> []) by (apply segs_ne; exact Hne).
  rewrite <- (segs_render ps) in HW |- *.
  destruct (segs ps) as [|s0 L] eqn:Es; [congruence|]. clear Hne'.
  inversion HF as [|? ? Hs0 HL]; subst. cbn [flat_map] in HW |- *. rewrite <- app_assoc in HW |- *.
  cbn [length Nat.add].
  rewrite seg_step_u; [|exact HW|exact Hs0|exact Hld|intros Hss; eapply alt_stop_u; eassumption].
  destruct (first_frag_n text D inh (frag p s0) (seg_range p s0) c I R Hat) as (nodes' & E1 & M & Ln).
  rewrite E1. cbn [bind].
  rewrite (run_loop_u (run_ctx c nodes') post Hld Hfol L s0); [|discriminate|exact HL|exact A|apply (WV_app _ _ _ _ HW (seg_valid s0 Hs0))].
  cbn [app].
  destruct (run_reset_n text D HD inh c nodes' (frag p s0) (CstTextItems.frags (p + blen (r_seg s0)) L) I M)
    as (c2 & stg & Er & S & I2 & A2 & Tn & Tr & Hst).
  pose proof (W_app _ _ _ _ (W_app _ _ _ _ (WV_W _ _ _ HW))) as HWend.
  rewrite (CstTextItems.loop_reset_eq text _ c2 _ post Er A2 Hfol HWend).
  exists c2, stg. split; [rewrite blen_app, N.add_assoc; reflexivity|].
  split; [exact S|]. split; [exact I2|]. split; [exact A2|]. split; [exact Tn|]. split; [exact Tr|].
  rewrite Hst. change (frag p s0 :: CstTextItems.frags (p + blen (r_seg s0)) L) with (CstTextItems.frags p (s0 :: L)).
  rewrite (frags_bytes_u (s0 :: L) p post); [|cbn [flat_map]; rewrite <- app_assoc; apply (WV_W _ _ _ HW)|exact HF].
  rewrite <- Es. symmetry. apply CstEntRun.text_sem_any.
Qed.

End URun.

(* ------------------------------------------------------------------------------------------ *)
(* what S2 supplies                                                                           *)
(* ------------------------------------------------------------------------------------------ *)
Definition steps2 (r : run pieces) : nat := length (segs (enc_pieces r)).

Lemma quote_lt q : q = 39 \/ q = 34 -> q < 128.
Proof. lia. Qed.

Lemma s2_val_lex : forall q v, wf_val pieces_meaning q v = true -> q = 39 \/ q = 34 -> uval_ok q (r_val pieces v).
Proof.
  intros q v Hv Hq. cbn [wf_val pieces_meaning r_val pieces] in *.
  destruct (uvalue_b q v (quote_lt q Hq) Hv) as [Hb _].
  destruct (vpieces_bytes_u q ltac:(destruct Hq; auto) _ Hb) as [(cs & E & Hu) H2].
  exists cs. split; [exact E|]. split; [exact Hu|exact H2].
Qed.

Lemma s2_val_norm : forall text q v p more, wf_val pieces_meaning q v = true -> q = 39 \/ q = 34 ->
  CstULex.WV text p (r_val pieces v ++ [q] ++ more) ->
  exists stor, norm_ok text [] (sl p (p + blen (r_val pieces v))) stor /\ storage_bytes text stor = val_sem pieces_meaning v.
Proof.
  intros text q v p more Hv Hq HW. cbn [wf_val pieces_meaning r_val pieces val_sem] in *.
  destruct (uvalue_b q v (quote_lt q Hq) Hv) as [Hb _].
  exists (if needs_norm (T.r_pieces (enc_pieces v)) then Owned (T.value_sem (enc_pieces v))
          else Borrowed (SIn (sl p (p + blen (T.r_pieces (enc_pieces v)))))).
  split.
  - intros c [_ Hld]. apply (normalize_attribute_ok_u text p _ q more c HW Hb). unfold LD. rewrite Hld. reflexivity.
  - destruct (needs_norm (T.r_pieces (enc_pieces v))) eqn:E; [reflexivity|].
    cbn [storage_bytes str_bytes]. rewrite (W_slice _ _ _ _ (WV_W _ _ _ HW)). symmetry. apply (value_plain_u q _ Hb E).
Qed.

Lemma tpieces_valid ps : Forall btpiece ps -> U8.Valid (T.r_pieces ps).
Proof.
  induction ps as [|p ps IH]; intros H; [constructor|]. apply Forall_cons_iff in H. destruct H as [H1 H2].
  rewrite r_pieces_cons. apply U8.Valid_app; [|apply IH; exact H2].
  destruct p as [bs|hex ds|e|bs]; try (apply (vpiece_valid 60); apply tpiece_vpiece_u; [exact H1|reflexivity]).
  apply (seg_valid (SC bs)). exact H1.
Qed.

Lemma s2_run_valid : forall r, wf_run pieces_meaning r = true -> U8.Valid (r_run pieces r).
Proof. intros r H. destruct (utext_b r H) as (_ & Hb & _). apply tpieces_valid. exact Hb. Qed.

Lemma tpiece_ne p : btpiece p -> (1 <= length (T.r_piece p))%nat.
Proof.
  destruct p as [bs|hex ds|e|bs]; cbn [btpiece T.r_piece]; intros H.
  - destruct H as [(Hne & _) _]. destruct bs; [congruence|cbn; lia].
  - rewrite !app_length. cbn [length]. lia.
  - rewrite !app_length. cbn [length]. lia.
  - rewrite !app_length. unfold T.cdata_open. cbn [length]. lia.
Qed.

Lemma segs_le : forall ps, Forall btpiece ps -> (length (segs ps) <= length (T.r_pieces ps))%nat.
Proof.
  induction ps as [|p ps IH]; intros H; [cbn; lia|]. apply Forall_cons_iff in H. destruct H as [H1 H2].
  specialize (IH H2). rewrite r_pieces_cons, app_length. pose proof (tpiece_ne p H1).
  destruct p as [bs|hex ds|e|bs]; cbn [segs]; destruct (segs ps) as [|[l|b0] t]; cbn [length] in *; lia.
Qed.

Lemma s2_run_steps : forall r, wf_run pieces_meaning r = true -> (1 <= steps2 r <= length (r_run pieces r))%nat.
Proof.
  intros r H. destruct (utext_b r H) as (Hne & Hb & _). unfold steps2. cbn [r_run pieces]. split; [|apply segs_le; exact Hb].
  pose proof (segs_ne _ Hne). destruct (segs (enc_pieces r)); [congruence|cbn; lia].
Qed.

Lemma s2_run text D (HD : forall l, NoDup l -> incl l D -> N.of_nat (length l) <= 65535) :
  forall r, PIf pieces pieces_meaning steps2 text D [] (IText r).
Proof.
  intros ps inh p post c depth fuel Hwf _ _ HW Hfol I [_ Hld] Hat NR _ _.
  cbn [wf_item wf_run pieces_meaning] in Hwf. destruct (utext_b ps Hwf) as (Hne & Hb & Hadj).
  specialize (Hfol eq_refl). cbn [r_item r_run pieces steps den run_sem pieces_meaning] in *. unfold steps2.
  destruct (run_ok text D HD inh (enc_pieces ps) p post c depth fuel Hne Hb Hadj HW Hfol I) as (c' & stg & E & S & I' & A & Tn & Tr & Hst).
  { unfold LD. rewrite Hld. reflexivity. }
  { exact Hat. }
  { apply (node_room_room _ _ NR). rewrite nsizes_one. apply NT.nsize_pos. }
  exists c', [(Some (c_parent_id c), KText stg)], []. split; [exact E|].
  split; [exact S|]. split; [exact I'|]. split; [exact A|]. split; [apply same_tn; exact Tn|]. split; [discriminate|].
  split; [|split; [reflexivity|rewrite Tr; cbn; lia]].
  cbn [NT.tag_list NT.tag app]. constructor; [|constructor]. split; [reflexivity|]. cbn [snd]. exact Hst.
Qed.

(* ------------------------------------------------------------------------------------------ *)
(* the theorems                                                                               *)
(* ------------------------------------------------------------------------------------------ *)
Theorem parse_render_sem_full_s2 : forall (c : S2.doc) (opt : options),
  S2.wf_doc c = true ->
  N.of_nat (length (S2.sem c)) < nodes_limit opt ->               (* room for all nodes + the Root *)
  N.of_nat (length (S2.render c)) <= u32_max ->                    (* the input is at most u32::MAX bytes long *)
  S2.distinct_decls_le c (N.to_nat 65535) ->                       (* at most 65535 distinct declared bindings *)
  1 + N.of_nat (S2.ns_cost c) <= u32_max ->                        (* the namespace table fits *)
  exists d, parse (S2.render c) opt = Ok d /\ view (S2.render c) d = Some (S2.sem c).
Proof.
  apply (parse_render_sem_frame pieces pieces_meaning steps2 s2_val_lex s2_run_valid s2_run_steps s2_val_norm s2_run).
Qed.
Print Assumptions parse_render_sem_full_s2.

(* layout and the choice of pieces do not matter: documents with the same meaning have the same view *)
Theorem spelling_insensitive_full_s2 : forall (c1 c2 : S2.doc) opt,
  S2.wf_doc c1 = true -> S2.wf_doc c2 = true -> S2.sem c1 = S2.sem c2 ->
  N.of_nat (length (S2.sem c1)) < nodes_limit opt ->
  N.of_nat (length (S2.render c1)) <= u32_max -> N.of_nat (length (S2.render c2)) <= u32_max ->
  S2.distinct_decls_le c1 (N.to_nat 65535) -> S2.distinct_decls_le c2 (N.to_nat 65535) ->
  1 + N.of_nat (S2.ns_cost c1) <= u32_max -> 1 + N.of_nat (S2.ns_cost c2) <= u32_max ->
  exists d1 d2, parse (S2.render c1) opt = Ok d1 /\ parse (S2.render c2) opt = Ok d2 /\
                view (S2.render c1) d1 = view (S2.render c2) d2.
Proof.
  intros c1 c2 opt W1 W2 E L S1 S2 D1 D2 C1 C2.
  destruct (parse_render_sem_full_s2 c1 opt W1 L S1 D1 C1) as (d1 & P1 & V1).
  destruct (parse_render_sem_full_s2 c2 opt W2 ltac:(rewrite <- E; exact L) S2 D2 C2) as (d2 & P2 & V2).
  exists d1, d2. split; [exact P1|]. split; [exact P2|]. rewrite V1, V2, E. reflexivity.
Qed.
Print Assumptions spelling_insensitive_full_s2.

Theorem render_valid_utf8_s2 : forall c : S2.doc, S2.wf_doc c = true -> valid_utf8_b (S2.render c) = true.
Proof. intros c H. apply U8.valid_iff_Valid. apply (render_valid pieces pieces_meaning s2_val_lex s2_run_valid c H). Qed.
Print Assumptions render_valid_utf8_s2.

(* ------------------------------------------------------------------------------------------ *)
(* the theorem is not vacuous; a URI supplied through a reference                              *)
(* ------------------------------------------------------------------------------------------ *)
Module Example2.
Definition lay ws w1 w2 q := {| CstNs.l_ws := b ws; CstNs.l_ws1 := b w1; CstNs.l_ws2 := b w2; CstNs.l_quote := q |}.
Definition qn (p l : scalars) : qname := {| q_prefix := p; q_local := l |}.
Definition at_ p l v : entry pieces := EAttr (lay " " "" "" 34) (qn p l) v.
Definition dc p u : entry pieces := EDecl (lay " " " " "" 39) p u.
Definition el p l es cs : item pieces := IElem (qn p l) es [] (Some (cs, [])).
Definition em p l es : item pieces := IElem (qn p l) es (b " ") None.
Definition tx (r : list T.piece) : item pieces := @IText pieces r.
Definition mk root : S2.doc := {| d_before := []; d_ws0 := []; d_root := root; d_after := []; d_ws_end := [10] |}.

(* <P:e xmlns:P ='&#117;rn:x' P:P="a CR LF TAB &quot; U+10FFFF">U+540D CR LF &gt;<![CDATA[]] e-acute]]>&amp;<c /></P:e>
   with P = U+540D *)
Definition ex (uri : list T.piece) : S2.doc :=
  mk (el [21517] [233]
        [dc [21517] uri; at_ [21517] [21517] [T.PLit [228; 13; 10; 9]; T.PPredef T.Quot; T.PLit [1114111]]]
        [ tx [T.PLit [21517; 13; 10]; T.PPredef T.Gt; T.PCData [93; 93; 233]; T.PPredef T.Amp]; em [] (b "c") [] ]).
Definition ex_ref := ex [T.PCharRef false (b "117"); T.PLit (b "rn:x")].      (* xmlns:P='&#117;rn:x' *)
Definition ex_lit := ex [T.PLit (b "urn:x")].                                  (* xmlns:P='urn:x' *)

Lemma ex_hyps uri : S2.wf_doc (ex uri) = true -> S2.ns_cost (ex uri) = 1%nat /\ length (doc_decls pieces_meaning (ex uri)) = 1%nat.
Proof. intros _. split; reflexivity. Qed.

Example ex_ref_parses : exists d, parse (S2.render ex_ref) default_options = Ok d /\ view (S2.render ex_ref) d = Some (S2.sem ex_ref).
Proof.
  apply parse_render_sem_full_s2.
  - vm_compute. reflexivity.
  - vm_compute. reflexivity.
  - vm_compute. intros H. discriminate H.
  - apply distinct_by_count. remember (length (doc_decls pieces_meaning ex_ref)) as n eqn:En. vm_compute in En. subst n. lia.
  - vm_compute. intros H. discriminate H.
Qed.

(* the declared URI is the same string whether it is written literally or through a reference *)
Example same_meaning : S2.sem ex_ref = S2.sem ex_lit.
Proof. vm_compute. reflexivity. Qed.
End Example2.
Print Assumptions Example2.ex_ref_parses.
