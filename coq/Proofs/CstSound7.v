(* Proofs/CstSound7.v -- C08, soundness half, witness in stage S7 of Spec/CstFullS7.v: the fragment, the
   statement and the inclusion of [in_fragment_6].

   [in_fragment_7 text] is [in_fragment_6 text] (Proofs/CstSound6.v) with the two byte conditions that only
   served S6's colon-free Names removed or narrowed:
     - P3b [pi_targets_nc] (no ':' in the name after "<?") is DROPPED: a PI target is a Name of XML 1.0,
       ':' included (Spec/CstFullS7.v [wf_pi7]);
     - P6 [names_nc] is narrowed to [names_nc7]: the clause on the name after "<!DOCTYPE" is dropped (the
       DOCTYPE name is a Name, [wf_name7]); the clauses on the name after "<!ENTITY" (and '%') and after
       "NDATA" stay (entity and notation names are colon-free through S8).
   P3a [no_colon_start] stays as it is (no ':' right after '<', '/', SP, TAB, LF: it is what makes the
   qualified names of tags well formed), so a DOCTYPE name whose FIRST character is ':' directly after a SP,
   TAB or LF is still outside the fragment (an over-approximation of the scan); "<?:a?>" is inside.
   NOT relaxed: P1 (no CR byte anywhere).  S7 also admits CR inside comment bodies and PI values; a byte
   condition for "every CR lies inside a comment or a PI" needs the token structure of the whole input
   (every lemma of the chain uses P1 through [W_cr] on arbitrary suffixes), and is left out. *)
From Coq Require Import String.
From Coq Require Import List NArith Bool Lia.
Import ListNotations.
From RX Require Import Generated.
From RX.Model Require Import Base CharClass Stream Tokenizer Doc Builder Parse.
From RX.Spec Require Cst Chars CstU CstNs CstText CstEnt Scope.
From RX.Spec Require Import CstFull CstFullS5 CstFullS6 CstFullS7.
From RX.Proofs Require Import CstSound CstSoundT CstSoundN CstSoundP CstSound6.
Open Scope N_scope.

(* P6 without the DOCTYPE clause *)
Definition names_nc7 (text : bytes) : bool :=
  all_suffixes (fun s =>
    (if prefix_b (b "<!ENTITY") s then
       let r := skip_ws (skipn 8 s) in nc_name (if is_pe r then skip_ws (tl r) else r)
     else true) &&
    (if prefix_b (b "NDATA") s then nc_name (skip_ws (skipn 5 s)) else true)) text.

Definition in_fragment_7 (text : bytes) : bool :=
  valid_utf8_b text && negb (mem_b 13 text) && charrefs_scalar text &&
  no_colon_start text &&
  xml_pi_ok text && decl_names_ok text && names_nc7 text && ndata_sp text && ge_values_ok6 text.

Definition parse_sound_fragment_7_stmt : Prop :=
  forall text opt d, in_fragment_7 text = true -> allow_dtd opt = true -> parse text opt = Ok d ->
  exists c : S6.doc, S7.wf_doc c = true /\ S7.render c = text.

Lemma all_suffixes_impl (P Q : bytes -> bool) : (forall l, P l = true -> Q l = true) ->
  forall l, all_suffixes P l = true -> all_suffixes Q l = true.
Proof.
  intros HPQ. induction l as [|x r IH]; cbn [all_suffixes]; intros H; [apply HPQ; exact H|].
  apply andb_true_iff in H. destruct H as [H1 H2]. rewrite (HPQ _ H1), (IH H2). reflexivity.
Qed.

Lemma names_nc_7 text : names_nc text = true -> names_nc7 text = true.
Proof.
  unfold names_nc, names_nc7. apply all_suffixes_impl. intros l H.
  apply andb_true_iff in H. destruct H as [H H3]. apply andb_true_iff in H. destruct H as [_ H2].
  rewrite H2, H3. reflexivity.
Qed.

Lemma in_fragment_6_7 text : in_fragment_6 text = true -> in_fragment_7 text = true.
Proof.
  unfold in_fragment_6, in_fragment_7. intros H.
  rewrite !andb_true_iff in H. destruct H as [[[[[[[[[H0 H1] H2] H3] _] H5] H6] H7] H8] H9].
  rewrite H0, H1, H2, H3, H5, H6, (names_nc_7 _ H7), H8, H9. reflexivity.
Qed.
