(* Proofs/CstFullS4Doc.v -- the capstone fragment, stage S4 (Spec/CstFullS4.v): parse_document on the rendering of a
   well-formed document with its DOCTYPE, whose entities may be markup (Proofs/CstFullS3.v and Proofs/CstEntCDoc.v):
   the rows appended are those of what the INLINED document denotes. *)
From Coq Require Import Ascii String.
From Coq Require Import List NArith PeanoNat Bool Lia ZifyBool ZifyN ZifyNat.
Import ListNotations.
From RX Require Import Generated.
From RX.Model Require Import Base CharClass Stream Tokenizer Doc Builder Parse.
From RX.Spec Require Cst CstText CstEnt Detector Scope CstU CstNs.
From RX.Spec Require Import Text CstFull CstFullS4.
From RX.Proofs Require Import Tactics CstLex CstBuild CstNsLex CstNsView CstNsBuild CstULex.
From RX.Proofs Require Import CstTextSem CstEntSem CstEntMeaning CstEntRun CstEntInline DetectorProofs.
From RX.Proofs Require Import CstFullLex CstFullBuild CstFullTree CstFullItems CstFullDoc CstFullMain.
From RX.Proofs Require Import CstFullS2Sem CstFullS3Sem CstFullS3Text CstFullS3Run CstFullS3Dtd CstFullS3Plug CstFullS3.
From RX.Proofs Require Import CstEntCBuild CstEntCSem.
From RX.Proofs Require Import CstFullS4Sem CstFullS4TSem CstFullS4TText CstFullS4Build CstFullS4Attr CstFullS4Text CstFullS4Items.
From RX.Proofs Require CstItems CstNsItems CstNsDoc CstNsMain CstUItems CstUDoc CstDoc CstEntDtd CstEntText CstEntCLex CstFullS4Lex CstEntRejSem CstEntBuild.
Open Scope N_scope.

Ltac clia := repeat match goal with H : @eq bool _ true |- _ => clear H end; lia.

(* ------------------------------------------------------------------------------------------ *)
(* the bytes of an item are UTF-8 of Chars                                                    *)
(* ------------------------------------------------------------------------------------------ *)
Lemma ustr_ws w : Cst.wf_ws w = true -> ustr w.
Proof.
  intros H. exists w. split.
  - symmetry. apply utf8s_ascii. apply ws_lit. exact H.
  - apply Forall_forall. intros x Hx. unfold Cst.wf_ws in H. rewrite forallb_forall in H. specialize (H x Hx).
    unfold Cst.is_ws in H.
    assert (Hs : is_scalar x = true) by (unfold is_scalar; lia). split; [exact Hs|].
    destruct (CharTablesProofs.char_tables_conform x Hs) as (E & _). rewrite E.
    unfold Chars.xml_Char, Chars.in_ranges, Chars.xml_Char_ranges. cbn [existsb fst snd]. lia.
Qed.

Lemma ustr_lit l : forallb (fun x => (32 <=? x) && (x <? 127)) l = true -> ustr l.
Proof. apply ustr_ascii. Qed.

Lemma ustr_uname n : CstU.wf_name n = true -> ustr (utf8s n).
Proof. intros H. apply (uname_bytes (utf8s n)). exists n. auto. Qed.

Lemma ustr_qname n : wf_qname n = true -> ustr (CstNs.r_qname (x_qname n)).
Proof.
  unfold wf_qname. intros H. apply andb_true_iff in H. destruct H as [H1 H2].
  unfold CstNs.r_qname, x_qname. cbn [CstNs.q_prefix CstNs.q_local]. destruct (q_prefix n) as [|c x] eqn:Ep.
  - apply ustr_uname. exact H2.
  - destruct (uname_ne _ H1) as (b0 & r & E). rewrite E. rewrite <- E.
    apply ustr_app; [apply ustr_uname; exact H1|]. apply ustr_app; [apply ustr_lit; reflexivity|apply ustr_uname; exact H2].
Qed.

Lemma ustr_chars cs : forallb CstU.is_char cs = true -> ustr (utf8s cs).
Proof. intros H. exists cs. split; [reflexivity|]. apply (chars_facts CstU.is_char); auto. Qed.

Lemma ustr_uentry m e : wf_uentry m e = true -> ustr (r_entry e).
Proof.
  intros H. pose proof (uentry_of4 m e H) as Hu. destruct (uentry_parts _ Hu) as (_ & Hw & Hw1 & Hw2 & Hq & (cs & Ev & Hcs & _) & Hn).
  change (r_entry e) with (CstNs.r_entry (x_entry epieces (r_val epieces) e)).
  unfold CstNs.r_entry. cbv zeta. rewrite e_name_qname.
  assert (Hqn : ustr (CstNs.r_qname (e_qname (x_entry epieces (r_val epieces) e)))).
  { unfold wf_uentry in H. rewrite !andb_true_iff in H. destruct H as [_ H3].
    destruct e as [l n v|l p v]; cbn [x_entry e_qname].
    - apply ustr_qname. exact H3.
    - destruct p as [|c x].
      + apply ustr_lit. reflexivity.
      + destruct (uname_ne _ H3) as (b0 & r & E0). unfold e_qname. rewrite E0. cbv iota. rewrite <- E0.
        unfold CstNs.r_qname. cbn [CstNs.q_prefix CstNs.q_local]. change CstNs.xmlns_b with [120; 109; 108; 110; 115].
        cbn [app]. change (120 :: 109 :: 108 :: 110 :: 115 :: 58 :: utf8s (c :: x)) with ([120; 109; 108; 110; 115; 58] ++ utf8s (c :: x)).
        apply ustr_app; [apply ustr_lit; reflexivity|apply ustr_uname; exact H3]. }
  assert (Hql : ustr [CstNs.l_quote (CstNs.e_layout (x_entry epieces (r_val epieces) e))]).
  { apply ustr_lit. destruct Hq as [-> | ->]; reflexivity. }
  repeat apply ustr_app; try (apply ustr_ws; assumption); try assumption.
  - apply ustr_lit. reflexivity.
  - rewrite Ev. exists cs. split; [reflexivity|exact Hcs].
Qed.

Lemma ustr_uentries m ens : forallb (wf_uentry m) ens = true -> ustr (flat_map r_entry ens).
Proof.
  induction ens as [|e r IH]; intros H; [exists []; split; [reflexivity|constructor]|].
  cbn [forallb] in H. apply andb_true_iff in H. destruct H as [H1 H2].
  cbn [flat_map]. apply ustr_app; [apply (ustr_uentry m); exact H1|apply IH; exact H2].
Qed.

Lemma ustr_eseg s : ueseg_wf s -> ustr (r_eseg s).
Proof.
  destruct s as [l|bs]; cbn [r_eseg].
  - intros H. apply (ess_bytes_u [] HD_nil l H).
  - intros [H _]. apply ustr_app; [apply ustr_lit; reflexivity|]. apply ustr_app; [exact H|apply ustr_lit; reflexivity].
Qed.

Lemma ustr_esegs L : Forall ueseg_wf L -> ustr (flat_map r_eseg L).
Proof.
  induction 1 as [|s L Hs _ IH]; [exists []; split; [reflexivity|constructor]|]. cbn [flat_map].
  apply ustr_app; [apply ustr_eseg; exact Hs|exact IH].
Qed.

Lemma ustr_uitem m : forall i, wf_uitem m i = true -> ustr (r_item i).
Proof.
  intros i. induction i as [n a w|n a w cs w2 IH|r|bs|t s0 v] using fitem_ind; intros Hwf.
  - destruct (wf_elem_parts4 _ _ _ _ _ Hwf) as (Hn & Ha & Hw & _). rewrite r_uitem_elem.
    repeat apply ustr_app; try (apply ustr_lit; reflexivity).
    + apply ustr_qname; exact Hn.
    + apply (ustr_uentries m); exact Ha.
    + apply ustr_ws; exact Hw.
  - destruct (wf_elem_parts4 _ _ _ _ _ Hwf) as (Hn & Ha & Hw & Hw2 & _ & Hcs). rewrite r_uitem_elem.
    repeat apply ustr_app; try (apply ustr_lit; reflexivity).
    + apply ustr_qname; exact Hn.
    + apply (ustr_uentries m); exact Ha.
    + apply ustr_ws; exact Hw.
    + clear - IH Hcs. induction IH as [|c r Hc _ IHr]; [exists []; split; [reflexivity|constructor]|].
      cbn [forallb] in Hcs. apply andb_true_iff in Hcs. destruct Hcs as [H1 H2].
      cbn [r_uitems flat_map]. apply ustr_app; [apply Hc; exact H1|apply IHr; exact H2].
    + apply ustr_qname; exact Hn.
    + apply ustr_ws; exact Hw2.
  - cbn [wf_uitem] in Hwf. apply andb_true_iff in Hwf. destruct Hwf as [_ Hw].
    cbn [r_item r_run epieces]. rewrite <- (esegs_render (enc_epieces r)).
    apply ustr_esegs. apply esegs_wf_u. apply (wf_uepieces_any m). exact Hw.
  - apply CstUItems.uwf_comment in Hwf. destruct Hwf as (H1 & _). cbn [r_item Cst.r_item].
    repeat apply ustr_app; try (apply ustr_lit; reflexivity). apply ustr_chars. exact H1.
  - apply CstUItems.uwf_pi in Hwf. destruct Hwf as (H1 & H2 & H3 & _). cbn [r_item Cst.r_item].
    repeat apply ustr_app; try (apply ustr_lit; reflexivity).
    + apply ustr_uname; exact H1.
    + apply ustr_ws; exact H2.
    + apply ustr_chars; exact H3.
Qed.

Lemma ustr_uitems m cs : forallb (wf_uitem m) cs = true -> ustr (r_uitems cs).
Proof.
  induction cs as [|c r IH]; intros H; [exists []; split; [reflexivity|constructor]|].
  cbn [forallb] in H. apply andb_true_iff in H. destruct H as [H1 H2].
  cbn [r_uitems flat_map]. apply ustr_app; [apply (ustr_uitem m); exact H1|apply IH; exact H2].
Qed.

(* ------------------------------------------------------------------------------------------ *)
(* the DOCTYPE                                                                                *)
(* ------------------------------------------------------------------------------------------ *)
Lemma xdecl_of d : wf_xdecl d = true -> udecl_lex_ok (pd d) /\ udecl_okc (pd d) /\ decl_cont d.
Proof.
  unfold wf_xdecl. rewrite !andb_true_iff. intros [[[[[[H0 H1] Hn] H2] Hq] Hv] H3].
  unfold wf_xvalue in Hv. apply andb_true_iff in Hv. destruct Hv as [Hnq Hv].
  destruct (x_value d) as [ps|its] eqn:Ev.
  - (* character data: Proofs/CstFullS3Plug.v *)
    set (e0 := {| E.e_ws0 := x_ws0 d; E.e_ws1 := x_ws1 d; E.e_name := x_name d; E.e_ws2 := x_ws2 d;
                  E.e_quote := x_quote d; E.e_value := E.EText ps; E.e_ws3 := x_ws3 d |}).
    assert (E0 : enc_decl e0 = pd d) by (unfold enc_decl, pd, e0; cbn; rewrite Ev; reflexivity).
    assert (W0 : wf_udecl e0 = true).
    { unfold wf_udecl, e0. cbn [E.e_ws0 E.e_ws1 E.e_name E.e_ws2 E.e_quote E.e_value E.e_ws3].
      rewrite H0, H1, Hn, H2, Hq, H3. cbn [r_xvalue] in Hnq. rewrite Hnq, Hv. reflexivity. }
    destruct (udecl_of e0 W0) as [A B0]. rewrite E0 in A, B0.
    split; [exact A|]. split; [apply udecl_ok_c; exact B0|]. unfold decl_cont. rewrite Ev. exact I.
  - apply andb_true_iff in Hv. destruct Hv as [Hw Hna].
    split; [|split].
    + constructor; cbn [pd E.e_ws0 E.e_ws1 E.e_name E.e_ws2 E.e_quote E.e_value E.e_ws3]; try assumption.
      * exists (x_name d). auto.
      * lia.
      * rewrite r_value_pv, Ev. cbn [r_xvalue]. split; [apply (ustr_uitems true); exact Hw|].
        revert Hnq. cbn [r_xvalue]. apply CstLex.forallb_imp. intros y Hy. apply andb_true_iff in Hy. apply Hy.
    + unfold udecl_okc. cbn [pd E.e_value]. rewrite Ev. exact I.
    + unfold decl_cont. rewrite Ev. split; assumption.
Qed.

Lemma xdtd_of t : wf_xdtd t = true ->
  udtd_lex_ok (pdtd t) /\ Forall udecl_okc (map pd (t_decls t)) /\ Forall decl_cont (t_decls t).
Proof.
  unfold wf_xdtd. rewrite !andb_true_iff. intros [[[[[H1 H2] H3] H4] H5] H6].
  assert (G : Forall (fun d => udecl_lex_ok (pd d) /\ udecl_okc (pd d) /\ decl_cont d) (t_decls t)).
  { apply Forall_forall. intros d Hd. rewrite forallb_forall in H4. apply xdecl_of. apply H4. exact Hd. }
  split; [|split].
  - constructor; cbn [pdtd E.t_ws1 E.t_name E.t_ws2 E.t_decls E.t_ws3 E.t_ws4]; try assumption.
    + exists (t_name t). auto.
    + rewrite Forall_map. revert G. apply Forall_impl. intros d Hd. apply Hd.
  - rewrite Forall_map. revert G. apply Forall_impl. intros d Hd. apply Hd.
  - revert G. apply Forall_impl. intros d Hd. apply Hd.
Qed.

(* ------------------------------------------------------------------------------------------ *)
(* the root element                                                                           *)
(* ------------------------------------------------------------------------------------------ *)
Lemma st_top text p r : CstEntCLex.st (tlen text) [] p r = CstLex.st text p r.
Proof. unfold CstEntCLex.st, CstLex.st. rewrite app_nil_r. reflexivity. Qed.

Lemma WV_top text p r : CstULex.WV text p r -> CstFullS4Lex.WV text (tlen text) [] p r.
Proof. intros H. split; [rewrite app_nil_r; exact H|apply H]. Qed.

Section Root.
Variable text : bytes.
Variable D : list Scope.binding.
Hypothesis HD : forall l, NoDup l -> incl l D -> N.of_nat (length l) <= 65535.
Variable decls : list xdecl.
Variable es : list entity.
Hypothesis Henv : Forall2 (uent_ok text) (map pd decls) es.
Hypothesis Hdecls : Forall udecl_okc (map pd decls).
Hypothesis Hcont : Forall decl_cont decls.

Notation WV := (CstULex.WV text).
Notation CIn := (CstNsBuild.CIn text D).
Notation OR := (CstFullS4Text.OR text D es).
Notation Res := (CstFullS4Text.Res text D es).
Notation tbm := (level decls E.max_level).

(* the root element: parse_element, then parse_content at depth 0 *)
Lemma root_ok_4 name ens ws body p post c its tr ld' :
  wf_uitem false (IElem name ens ws body) = true ->
  WV p (r_item (@IElem epieces name ens ws body) ++ post) ->
  CIn [] c -> c_after_text c = [] -> c_ld c = ld_init -> c_entities c = es ->
  inline_item tbm false (IElem name ens ws body) = Some (its, tr) ->
  ld_run ld_init tr = Some ld' ->
  Pok [] its -> Rooms [] c [] its -> NsOk D [] [] its ->
  exists c0' c' frs' K ext,
    (let! (open, s, c) := parse_element text context (CstBuild.tok_ev text)
                            (CstLex.st text p (r_item (@IElem epieces name ens ws body) ++ post)) c in
     if open then parse_content text context (CstBuild.tok_ev text) s c else Ok (s, c)) =
    Ok (CstLex.st text (p + blen (r_item (@IElem epieces name ens ws body))) post, c') /\
    Res [] c c [] its ld' c0' c' frs' K ext.
Proof.
  intros Hwf HW I Hat Hld0 Hes Hin Hld HP HR HN.
  pose proof (cn_floor _ _ _ _ I) as Hfl.
  assert (HO : OR [] c c []) by (constructor; try assumption; apply CstEntText.same_frame_refl).
  pose proof (WV_top _ _ _ HW) as HW'.
  assert (HL : forall cs, ItemsOK text D es tbm cs) by (intros cs; apply (ItemsOK_all text D HD decls es Henv Hdecls Hcont)).
  assert (IHk : forall k', E.max_level = S k' -> forall cs, ItemsOK text D es (level decls k') cs).
  { intros k' _ cs. apply (ItemsOK_all text D HD decls es Henv Hdecls Hcont). }
  rewrite <- !st_top. rewrite evl_top. destruct body as [[cs ws2]|].
  - destruct (wf_elem_parts4 _ _ _ _ _ Hwf) as (_ & _ & _ & _ & _ & Hcs).
    pose proof (usteps_list_le D HD false cs Hcs) as Hst.
    set (post2 := [60; 47] ++ r_qname name ++ ws2 ++ [62] ++ post).
    destruct (elem_open_c text D HD decls es Henv Hdecls E.max_level IHk name ens ws cs ws2 (HL cs)
                [] false (tlen text) [] p post c c [] [] entity_levels 0
                (length (r_uitems cs ++ post2) - usteps_list cs)%nat its tr ld' Hwf HW' HO (SemI_nil text))
      as (c1 & c0' & c' & frs' & K & ext & E1 & E2 & HRes); try assumption.
    { rewrite Hld0. reflexivity. }
    { rewrite Hld0. reflexivity. }
    { rewrite Hld0. apply ld_ok_init. }
    { rewrite Hfl. lia. }
    { rewrite Hld0. exact Hld. }
    rewrite E1. cbn [bind]. unfold parse_content. cbn [CstEntCLex.st s_rest]. rewrite app_nil_r.
    fold post2.
    replace (S (length (r_uitems cs ++ post2)))
      with (usteps_list cs + S (length (r_uitems cs ++ post2) - usteps_list cs))%nat
      by (rewrite app_length in *; clia).
    fold post2 in E2.
    match goal with |- context [parse_content_loop _ _ _ _ 0 ?s c1] =>
      replace s with (CstEntCLex.st (tlen text) [] (p + 1 + blen (r_qname name) + blen (flat_map r_entry ens) + blen ws + 1) (r_uitems cs ++ post2))
        by (unfold CstEntCLex.st; rewrite app_nil_r; reflexivity) end.
    rewrite E2. change (0 =? 0) with true. cbv iota.
    exists c0', c', frs', K, ext. split; [reflexivity|exact HRes].
  - destruct (elem_empty_c text D HD decls es Henv Hdecls E.max_level IHk [] name ens ws
                false (tlen text) [] p post c c [] [] entity_levels its tr ld' Hwf HW' HO (SemI_nil text))
      as (c0' & c' & frs' & K & ext & E1 & HRes); try assumption.
    { rewrite Hld0. reflexivity. }
    { rewrite Hld0. apply ld_ok_init. }
    { rewrite Hld0. exact Hld. }
    rewrite E1. cbn [bind]. exists c0', c', frs', K, ext. split; [reflexivity|exact HRes].
Qed.

End Root.

Print Assumptions root_ok_4.

(* ------------------------------------------------------------------------------------------ *)
(* comments and PIs                                                                           *)
(* ------------------------------------------------------------------------------------------ *)
Lemma m0_val_norm_g text es : forall q v p more, wf_val M0 q v = true -> q = 39 \/ q = 34 ->
  CstULex.WV text p (r_val epieces v ++ [q] ++ more) ->
  exists stor, norm_ok text es (sl p (p + blen (r_val epieces v))) stor /\ storage_bytes text stor = val_sem M0 v.
Proof. intros q v p more H. discriminate H. Qed.

Lemma misc_wf0 (i : uitem) : is_misc epieces i = true -> wf_item M0 i = wf_uitem false i.
Proof. destruct i; try discriminate; reflexivity. Qed.

Lemma misc_before_wf0 l :
  forallb (fun p => is_misc epieces (fst p) && wf_uitem false (fst p) && Cst.wf_ws (snd p)) l = true ->
  forallb (fun p : uitem * bytes => is_misc epieces (fst p) && wf_item M0 (fst p) && Cst.wf_ws (snd p)) l = true.
Proof.
  apply CstLex.forallb_imp. intros [i w]. cbn [fst snd]. rewrite !andb_true_iff. intros [[H1 H2] H3].
  rewrite (misc_wf0 i H1). auto.
Qed.

Lemma misc_after_wf0 l :
  forallb (fun p => Cst.wf_ws (fst p) && is_misc epieces (snd p) && wf_uitem false (snd p)) l = true ->
  wf_pairs epieces M0 l = true.
Proof.
  unfold wf_pairs. apply CstLex.forallb_imp. intros [w i]. cbn [fst snd]. rewrite !andb_true_iff. intros [[H1 H2] H3].
  rewrite (misc_wf0 i H2). auto.
Qed.

(* what a comment / PI denotes does not depend on the syntax of values and runs *)
Lemma misc_den0 (i : uitem) : is_misc epieces i = true -> den M0 i = den bmeaning (S4.misc_item i).
Proof. destruct i; try discriminate; reflexivity. Qed.

Lemma dens_misc_fst (l : list (uitem * bytes)) :
  forallb (fun p => is_misc epieces (fst p) && wf_uitem false (fst p) && Cst.wf_ws (snd p)) l = true ->
  CstFullTree.dens epieces M0 (map fst l) = CstFullTree.dens bpieces bmeaning (map (fun p => S4.misc_item (fst p)) l).
Proof.
  induction l as [|[i w] r IH]; intros H; [reflexivity|]. cbn [forallb fst snd] in H. rewrite !andb_true_iff in H.
  destruct H as [[[H1 _] _] H4]. cbn [map fst CstFullTree.dens]. rewrite (misc_den0 i H1), (IH H4). reflexivity.
Qed.

Lemma dens_misc_snd (l : list (bytes * uitem)) :
  forallb (fun p => Cst.wf_ws (fst p) && is_misc epieces (snd p) && wf_uitem false (snd p)) l = true ->
  CstFullTree.dens epieces M0 (map snd l) = CstFullTree.dens bpieces bmeaning (map (fun p => S4.misc_item (snd p)) l).
Proof.
  induction l as [|[w i] r IH]; intros H; [reflexivity|]. cbn [forallb fst snd] in H. rewrite !andb_true_iff in H.
  destruct H as [[[_ H1] _] H4]. cbn [map snd CstFullTree.dens]. rewrite (misc_den0 i H1), (IH H4). reflexivity.
Qed.

(* ------------------------------------------------------------------------------------------ *)
(* parse_document                                                                             *)
(* ------------------------------------------------------------------------------------------ *)
Section Doc4.
Variable d : S4.doc.
Hypothesis Hwf : S4.wf_doc d = true.

Notation t := (S4.x_dtd d).
Notation decls := (t_decls t).
Notation main := (S4.x_main d).
Notation text := (S4.render d).

Record s4_parts_t : Prop := {
  sp_ws0 : Cst.wf_ws (S4.x_ws0 d) = true;
  sp_before : forallb (fun p => is_misc epieces (fst p) && wf_uitem false (fst p) && Cst.wf_ws (snd p)) (S4.x_before d) = true;
  sp_dtd : wf_xdtd t = true;
  sp_mws0 : Cst.wf_ws (d_ws0 main) = true;
  sp_mwsend : Cst.wf_ws (d_ws_end main) = true;
  sp_mbefore : forallb (fun p => is_misc epieces (fst p) && wf_uitem false (fst p) && Cst.wf_ws (snd p)) (d_before main) = true;
  sp_root : exists name ens ws body, d_root main = IElem name ens ws body;
  sp_rootwf : wf_uitem false (d_root main) = true;
  sp_after : forallb (fun p => Cst.wf_ws (fst p) && is_misc epieces (snd p) && wf_uitem false (snd p)) (d_after main) = true;
  sp_inline : exists root' tr,
      inline_item (S4.table d) false (d_root main) = Some ([root'], tr) /\
      S4.inline d = Some ({| d_before := map (fun p => (S4.misc_item (fst p), snd p)) (d_before main);
                             d_ws0 := d_ws0 main; d_root := root';
                             d_after := map (fun p => (fst p, S4.misc_item (snd p))) (d_after main);
                             d_ws_end := d_ws_end main |}, tr) /\
      limits_ok tr = true /\ provisos_item root' = true /\ forallb (ns_ok []) (den bmeaning root') = true
}.

Lemma s4_parts : s4_parts_t.
Proof.
  unfold S4.wf_doc in Hwf. rewrite !andb_true_iff in Hwf. destruct Hwf as [[[[[[[[H1 H2] H3] H4] H5] H6] H7] H8] H9].
  constructor; try assumption.
  - destruct (d_root main); try discriminate. eauto.
  - destruct (d_root main); try discriminate. exact H7.
  - unfold S4.inline in *. destruct (inline_item (S4.table d) false (d_root main)) as [[its tr]|]; [|discriminate].
    cbn [E.obind fst snd] in *. destruct its as [|root' [|x its]]; try discriminate.
    rewrite !andb_true_iff in H9. destruct H9 as [[L P] Nn]. exists root', tr. cbn [d_root] in P, Nn. auto.
Qed.

Definition B0 : pairs epieces := regroup (S4.x_ws0 d) (S4.x_before d).
Definition wB0 : bytes := last_ws (S4.x_ws0 d) (S4.x_before d).

Lemma text_shape : text = r_pairs B0 ++ wB0 ++ E.r_dtd (pdtd t) ++ render main.
Proof. unfold S4.render, B0, wB0. rewrite r_dtd_pd. rewrite app_assoc, (regroup_render epieces), <- app_assoc. reflexivity. Qed.

Lemma dtd_starts : exists l, E.r_dtd (pdtd t) = 60 :: 33 :: 68 :: l.
Proof. unfold E.r_dtd, E.kw_doctype. cbn [app]. eexists. reflexivity. Qed.

Lemma pairs_valid0 (l : pairs epieces) : wf_pairs epieces M0 l = true -> U8.Valid (r_pairs l).
Proof. apply (pairs_valid epieces M0 m0_val_lex m0_run_valid). Qed.

Lemma main_valid : U8.Valid (render main).
Proof.
  destruct s4_parts as [_ _ _ H1 H2 H3 _ H5 H6 _].
  destruct (regroup_wf epieces M0 _ _ H1 (misc_before_wf0 _ H3)) as [R1 R2].
  rewrite (render_shape epieces). repeat apply U8.Valid_app.
  - apply pairs_valid0; exact R1.
  - apply Valid_lit, ws_lit; exact R2.
  - apply (uitem_valid false); exact H5.
  - apply pairs_valid0. apply misc_after_wf0. exact H6.
  - apply Valid_lit, ws_lit; exact H2.
  - constructor.
Qed.

Lemma text_valid : U8.Valid text.
Proof.
  destruct s4_parts as [H0 Hb Ht _ _ _ _ _ _ _]. destruct (xdtd_of t Ht) as (Hlex & _ & _).
  destruct (regroup_wf epieces M0 _ _ H0 (misc_before_wf0 _ Hb)) as [R1 R2].
  rewrite text_shape. apply U8.Valid_app; [|apply U8.Valid_app; [|apply U8.Valid_app]].
  - apply pairs_valid0; exact R1.
  - apply Valid_lit, ws_lit; exact R2.
  - apply udtd_valid; exact Hlex.
  - exact main_valid.
Qed.

Lemma head_text : CstDoc.decl_test text = false /\ prefix_b [239; 187; 191] text = false.
Proof.
  destruct s4_parts as [H0 Hb _ _ _ _ _ _ _ _].
  destruct (regroup_wf epieces M0 _ _ H0 (misc_before_wf0 _ Hb)) as [R1 R2]. rewrite text_shape.
  destruct dtd_starts as [l El]. fold B0 in R1. fold wB0 in R2.
  destruct B0 as [|[w i] B].
  - cbn [r_pairs flat_map app]. destruct wB0 as [|x wl].
    + cbn [app]. rewrite El. cbn [app]. split; [apply CstDoc.decl_lt; lia|apply CstUDoc.bom_false_lt; lia].
    + cbn [app]. destruct (CstUDoc.ws_head _ _ R2). split; [apply CstDoc.decl_ws; assumption|apply CstUDoc.bom_false_lt; assumption].
  - cbn [CstFullDoc.wf_pairs forallb fst snd] in R1. rewrite !andb_true_iff in R1. destruct R1 as [[[W1 M1] I1] _].
    cbn [r_pairs flat_map fst snd]. rewrite <- !app_assoc. destruct w as [|x w].
    + cbn [app]. destruct i as [? ? ? ?|?|bs|tg s v]; try discriminate.
      * cbn [r_item Cst.r_item app]. split; [apply CstDoc.decl_lt; clear; lia|apply CstUDoc.bom_false_lt; clear; lia].
      * cbn [r_item Cst.r_item]. rewrite <- !app_assoc. split; [apply CstUDoc.decl_pi_u; apply CstUItems.uwf_pi; exact I1|].
        cbn [app]. apply CstUDoc.bom_false_lt. clear. lia.
    + cbn [app]. destruct (CstUDoc.ws_head _ _ W1). split; [apply CstDoc.decl_ws; assumption|apply CstUDoc.bom_false_lt; assumption].
Qed.


Notation dens0 := (CstFullTree.dens epieces M0).
Notation bden := (den bmeaning).

Definition B1 : pairs epieces := regroup (d_ws0 main) (d_before main).
Definition wB1 : bytes := last_ws (d_ws0 main) (d_before main).

(* what the whole document denotes, in document order *)
Definition L4 (root' : bitem) : list CstNs.item :=
  dens0 (map snd B0) ++ dens0 (map snd B1) ++ bden root' ++ dens0 (map snd (d_after main)).

Variable D : list Scope.binding.
Hypothesis HD : forall l, NoDup l -> incl l D -> N.of_nat (length l) <= 65535.

Notation CIn := (CstNsBuild.CIn text D).
Notation node_room := CstNsItems.node_room.
Notation attr_room := CstNsItems.attr_room.
Notation ns_room := CstNsItems.ns_room.

Lemma parse_document_ok_4 root' tr (c0 : context) :
  inline_item (S4.table d) false (d_root main) = Some ([root'], tr) -> limits_ok tr = true -> provisos_item root' = true ->
  CstFullTree.ns_oks [] (bden root') = true -> incl (NT.items_decls (bden root')) D ->
  CIn [] c0 -> c_entities c0 = [] -> c_ld c0 = ld_init -> c_after_text c0 = [] ->
  node_room c0 (NT.nsizes (L4 root')) -> attr_room c0 (NT.nattrs_items (bden root')) ->
  ns_room c0 (NT.ns_costs [] (bden root')) ->
  exists cf K,
    parse_document text context (tok_ev text) true c0 = Ok cf /\
    absn (c_doc cf) = absn (c_doc c0) ++ K /\ c_parent_prefixes cf = c_parent_prefixes c0 /\
    Forall2 (kmn text (c_doc cf)) K (NT.tag_list [] (c_parent_id c0) (len_N (d_nodes (c_doc c0))) (L4 root')).
Proof.
  intros Hinl Hlim Hprov Hnsr HinD I0 Hes0 Hld0 A0 NR AR SR.
  destruct s4_parts as [H0 Hb Ht H1 H2 H3 (name & ens & ws & body & Er) H5 H6 _].
  destruct (xdtd_of t Ht) as (Hlex & Hdk & Hcont).
  destruct (regroup_wf epieces M0 _ _ H0 (misc_before_wf0 _ Hb)) as [R1 R2]. fold B0 in R1. fold wB0 in R2.
  pose proof text_valid as Hvalid. pose proof head_text as [Hdecl Hbom].
  destruct (regroup_wf epieces M0 _ _ H1 (misc_before_wf0 _ H3)) as [Q1 Q2]. fold B1 in Q1. fold wB1 in Q2.
  pose proof (misc_after_wf0 _ H6) as H6'.
  set (A := d_after main) in *. set (wE := d_ws_end main) in *.
  rewrite Er in *.
  set (root := IElem name ens ws body) in *.
  unfold L4 in NR |- *. rewrite !nsizes_app in NR.
  destruct (pairs_dens epieces M0 B0 R1) as (_ & _ & _ & Hn0 & _).
  destruct (pairs_dens epieces M0 B1 Q1) as (_ & _ & _ & Hn1 & _).
  assert (Etext : text = r_pairs B0 ++ wB0 ++ E.r_dtd (pdtd t) ++ r_pairs B1 ++ wB1 ++ r_item root ++ r_pairs A ++ wE ++ []).
  { rewrite text_shape, (render_shape epieces main). fold B1 wB1 A wE. rewrite Er. reflexivity. }
  pose proof (WV_new text Hvalid) as HW0.
  destruct (wf_elem_parts4 _ _ _ _ _ H5) as (Hn & _).
  destruct (root_starts epieces name ens ws body Hn) as (n & l & El & Hnsp & H33 & H63). fold root in El.
  set (rest1 := r_item root ++ r_pairs A ++ wE ++ []) in *.
  set (rest0 := E.r_dtd (pdtd t) ++ r_pairs B1 ++ wB1 ++ rest1) in *.
  destruct dtd_starts as [ldt Eld].
  assert (Hstop0 : CstDoc.misc_stop rest0).
  { unfold rest0. rewrite Eld. cbn [app]. split; [reflexivity|split; reflexivity]. }
  assert (Hstop1 : CstDoc.misc_stop rest1).
  { unfold rest1. rewrite El. cbn [app]. split; [reflexivity|]. cbn [prefix_b].
    replace (33 =? n) with false by clia. replace (63 =? n) with false by clia. split; reflexivity. }
  unfold parse_document. rewrite st_new.
  rewrite starts_with_st by exact (WV_W _ _ _ HW0). rewrite Hbom. cbn [bind].
  unfold starts_with_declaration. rewrite starts_with_st, avail_st by exact (WV_W _ _ _ HW0).
  change (b "<?xml") with [60; 63; 120; 109; 108]. fold (CstDoc.decl_test text). rewrite Hdecl. cbn [bind].
  (* before the DOCTYPE *)
  unfold parse_misc. cbn [CstLex.st s_rest]. fold (CstLex.st text 0 text).
  assert (HW0' : WV text 0 (r_pairs B0 ++ wB0 ++ rest0)) by (rewrite <- Etext; exact HW0).
  replace (CstLex.st text 0 text) with (CstLex.st text 0 (r_pairs B0 ++ wB0 ++ rest0))
    by (rewrite <- Etext; reflexivity).
  assert (Elen : length text = length (r_pairs B0 ++ wB0 ++ rest0)) by (rewrite <- Etext; reflexivity).
  destruct (misc_loop_ok_f epieces M0 m0_val_lex m0_run_valid text D HD [] (m0_val_norm_g text []) B0 0 wB0 rest0 c0 (S (length text)) HW0' R1 R2 Hstop0)
    as (c1 & K0 & E1 & S1 & I1 & A1 & Tr1 & F1).
  { pose proof (pairs_len epieces M0 B0 R1). rewrite Elen, app_length. clia. }
  { exact I0. } { exact A0. } { unfold CstNsItems.node_room in *. clia. }
  rewrite E1. cbn [bind]. clear E1.
  pose proof (WV_app _ _ _ _ HW0' (pairs_valid0 B0 R1)) as HWa.
  pose proof (WV_lit _ _ _ _ HWa (ws_lit _ R2)) as HWd. pose proof (WV_W _ _ _ HWd) as HWd'.
  set (p1 := 0 + blen (r_pairs B0) + blen wB0) in *.
  rewrite (CstDoc.skip_spaces_none text) by (try exact HWd'; apply Hstop0).
  rewrite starts_with_st by exact HWd'. change (b "<!DOCTYPE") with E.kw_doctype.
  replace (prefix_b E.kw_doctype rest0) with true by (unfold rest0, E.r_dtd; rewrite <- !app_assoc; rewrite prefix_b_app_same; reflexivity).
  cbn [negb bind].
  (* the DOCTYPE: the entities are recorded *)
  unfold rest0 in HWd |- *.
  rewrite (lex_doctype_u text context (tok_ev text) p1 (pdtd t) _ c1 HWd Hlex). cbv zeta.
  rewrite (CstEntDtd.decls_recorded text). cbn [bind].
  set (q := p1 + 9 + blen (E.t_ws1 (pdtd t)) + blen (E.t_name (pdtd t)) + blen (E.t_ws2 (pdtd t)) + 1) in *.
  change (E.t_decls (pdtd t)) with (map pd decls) in *.
  set (es := CstEntDtd.decl_ents q (map pd decls)).
  assert (Hes1 : c_entities c1 = []).
  { destruct S1 as [S1 _]. destruct (sn_keep _ _ _ _ S1) as (_ & E2 & _). rewrite E2. exact Hes0. }
  rewrite Hes1. cbn [app].
  set (c2 := set_entities c1 es).
  assert (Henv : Forall2 (uent_ok text) (map pd decls) es).
  { unfold es. destruct Hlex as [L1 L2 L3 L4' L5 L6].
    assert (HWq : WV text q (flat_map E.r_decl (map pd decls) ++ E.t_ws3 (pdtd t) ++ [93] ++ E.t_ws4 (pdtd t) ++ [62] ++ r_pairs B1 ++ wB1 ++ rest1)).
    { revert HWd. unfold E.r_dtd. rewrite <- !app_assoc. intros HWd.
      destruct (CstEntDtd.ws1_parts _ L1) as [_ Lw1]. destruct (uname_bytes _ L2) as (Hun & _).
      pose proof (WV_lit _ _ _ _ HWd (eq_refl : forallb (fun y => y <? 128) E.kw_doctype = true)) as X1. change (blen E.kw_doctype) with 9 in X1.
      pose proof (WV_lit _ _ _ _ X1 (ws_lit _ Lw1)) as X2. pose proof (WV_app _ _ _ _ X2 (ustr_valid _ Hun)) as X3.
      pose proof (WV_lit _ _ _ _ X3 (ws_lit _ L3)) as X4.
      pose proof (WV_lit _ _ _ _ X4 (eq_refl : forallb (fun y => y <? 128) [91] = true)) as X5. change (blen [91]) with 1 in X5. exact X5. }
    apply (decl_ents_ok_u text (map pd decls) q _ HWq L4'). }
  pose proof (WV_app _ _ _ _ HWd (udtd_valid _ Hlex)) as HWe.
  set (p2 := p1 + blen (E.r_dtd (pdtd t))) in *.
  assert (I2 : CIn [] c2) by (apply CIn_set_entities; exact I1).
  assert (Hld2 : c_ld c2 = ld_init).
  { unfold c2. cbn [c_ld set_entities]. destruct S1 as [S1 _]. destruct (sn_keep _ _ _ _ S1) as (_ & _ & _ & E4). rewrite E4. exact Hld0. }
  pose proof (Stepn_nodes_len _ _ _ _ S1) as Ln1.
  rewrite (Forall2_len_N _ _ _ F1) in Ln1. unfold len_N at 3 in Ln1. rewrite NT.tag_list_len in Ln1.
  pose proof (Stepn_opt _ _ _ _ (proj1 S1)) as Lo1.
  pose proof (Stepn_attrs_len _ _ _ _ (proj1 S1)) as La1. change (len_N []) with 0 in La1.
  (* between the DOCTYPE and the root *)
  unfold parse_misc. cbn [CstLex.st s_rest]. fold (CstLex.st text p2 (r_pairs B1 ++ wB1 ++ rest1)).
  destruct (misc_loop_ok_f epieces M0 m0_val_lex m0_run_valid text D HD es (m0_val_norm_g text es)
              B1 p2 wB1 rest1 c2 (S (length (r_pairs B1 ++ wB1 ++ rest1))) HWe Q1 Q2 Hstop1)
    as (c3 & K1 & E3 & S3 & I3 & A3 & Tr3 & F3).
  { pose proof (pairs_len epieces M0 B1 Q1). rewrite app_length. clia. }
  { exact I2. } { exact A1. }
  { unfold CstNsItems.node_room in *. cbn [c_doc c_opt c2 set_entities]. rewrite Ln1, Lo1. clia. }
  rewrite E3. cbn [bind]. clear E3.
  pose proof (WV_app _ _ _ _ HWe (pairs_valid0 B1 Q1)) as HWf.
  pose proof (WV_lit _ _ _ _ HWf (ws_lit _ Q2)) as HWg. pose proof (WV_W _ _ _ HWg) as HWg'.
  set (p3 := p2 + blen (r_pairs B1) + blen wB1) in *.
  rewrite (CstDoc.skip_spaces_none text) by (try exact HWg'; apply Hstop1).
  assert (Ecb : match curr_byte_opt (CstLex.st text p3 rest1) with Some x => x =? 60 | None => false end = true).
  { revert HWg'. unfold rest1. rewrite El. cbn [app]. intros HWg'. rewrite curr_byte_opt_st by exact HWg'. reflexivity. }
  rewrite Ecb.
  (* root *)
  cbn [c_doc c_opt c_parent_id c2 set_entities] in S3, F3.
  pose proof (Stepn_nodes_len _ _ _ _ S3) as Ln3. cbn [c_doc c2 set_entities] in Ln3.
  rewrite (Forall2_len_N _ _ _ F3) in Ln3. unfold len_N at 3 in Ln3. rewrite NT.tag_list_len in Ln3.
  pose proof (Stepn_opt _ _ _ _ (proj1 S3)) as Lo3. cbn [c_opt c2 set_entities] in Lo3.
  pose proof (Stepn_attrs_len _ _ _ _ (proj1 S3)) as La3. change (len_N []) with 0 in La3. cbn [c_doc c2 set_entities] in La3.
  cbn [c_doc c2 set_entities] in Tr3.
  destruct (sn_keep _ _ _ _ (proj1 S3)) as (_ & Kes3 & _ & Kld3). cbn [c_entities c_ld c2 set_entities] in Kes3, Kld3.
  assert (Hld3 : c_ld c3 = ld_init).
  { rewrite Kld3. destruct S1 as [S1 _]. destruct (sn_keep _ _ _ _ S1) as (_ & _ & _ & E4). rewrite E4. exact Hld0. }
  unfold rest1 in HWg |- *.
  destruct (detector_complete_gen tr 0 0 Hlim) as [ld' Hrun]. change (DetectorProofs.mk 0 0) with ld_init in Hrun.
  assert (Ew : walk [] [root'] = ([root'], [])).
  { assert (Hnt : is_btext root' = false).
    { unfold root in Hinl. rewrite inline_item_elem in Hinl. destruct (inline_entries (S4.table d) false ens) as [[a' ta]|]; [|discriminate].
      cbn [E.obind] in Hinl. destruct body as [[cs w2]|].
      - destruct (inline_items (S4.table d) false cs) as [[b0 tb0]|]; [|discriminate]. cbn [E.obind] in Hinl. injection Hinl as <- _. reflexivity.
      - injection Hinl as <- _. reflexivity. }
    rewrite walk_single by exact Hnt. reflexivity. }
  destruct (root_ok_4 text D HD decls es Henv Hdk Hcont name ens ws body p3 (r_pairs A ++ wE ++ []) c3 [root'] tr ld' H5 HWg I3 A3 Hld3 Kes3 Hinl Hrun)
    as (c0r & c4 & frs4 & K2 & e2 & E4 & HRes4).
  { split; rewrite Ew; cbn [fst snd forallb]; [rewrite Hprov; reflexivity|reflexivity]. }
  { split; [|split]; rewrite Ew; cbn [fst snd app flush all_marks forallb CstFullTree.dens]; rewrite ?app_nil_r.
    - unfold CstNsItems.node_room in *. rewrite Ln3, Lo3, Ln1, Lo1. clia.
    - unfold CstNsItems.attr_room in *. rewrite La3, La1. clia.
    - unfold CstNsItems.ns_room in *. rewrite Tr3, Tr1. exact SR. }
  { split; rewrite Ew; cbn [fst CstFullTree.dens]; rewrite app_nil_r; assumption. }
  fold root in E4. rewrite E4. cbn [bind]. clear E4.
  destruct HRes4 as (S4r & O4 & M4 & F4 & L4r & N4 & D4 & D4' & Fl4 & _). rewrite Ew in M4, F4, L4r, N4. cbn [fst snd] in M4, F4, L4r, N4.
  cbn [CstFullTree.dens] in F4, L4r, N4. rewrite app_nil_r in F4, L4r, N4.
  assert (Efr : frs4 = []) by (apply (proj2 M4); reflexivity). subst frs4.
  destruct O4 as [Or1 Or2 Or3 Or4 Or5 Or6]. cbn [CstEntText.Run] in Or5.
  assert (Efl4 : c_entity_floor c4 = 0) by (rewrite Fl4; apply (cn_floor _ _ _ _ I3)).
  assert (Eld4 : c_ld c4 = ld_init).
  { rewrite D4. apply (CstEntBuild.ld_run_init tr ld' Hrun). rewrite D4', Hld3. reflexivity. }
  assert (I4 : CIn [] c4) by (apply (CIn_frame text D [] c0r c4 Or5 Efl4 Or1)).
  assert (A4 : c_after_text c4 = []) by (destruct Or5 as (_ & _ & _ & _ & _ & _ & X & _); rewrite <- X; exact Or2).
  assert (S4 : Stepn c3 c4 K2 e2) by (apply (Stepn_frame c3 c0r c4 _ _ Or5); [congruence|congruence|exact S4r]).
  assert (Edoc4 : c_doc c4 = c_doc c0r) by (destruct Or5 as (_ & _ & _ & _ & _ & _ & _ & _ & X); symmetry; exact X).
  rewrite <- Edoc4 in F4.
  pose proof (WV_app _ _ _ _ HWg (uitem_valid false _ H5)) as HWh. fold root in HWh.
  set (p4 := p3 + blen (r_item root)) in *.
  pose proof (Stepn_nodes_len _ _ _ _ S4) as Ln4.
  rewrite (Forall2_len_N _ _ _ F4) in Ln4. unfold len_N at 3 in Ln4. rewrite NT.tag_list_len in Ln4.
  pose proof (Stepn_opt _ _ _ _ (proj1 S4)) as Lo4.
  (* epilog *)
  unfold parse_misc. cbn [CstLex.st s_rest]. fold (CstLex.st text p4 (r_pairs A ++ wE ++ [])).
  destruct (misc_loop_ok_f epieces M0 m0_val_lex m0_run_valid text D HD es (m0_val_norm_g text es)
              A p4 wE [] c4 (S (length (r_pairs A ++ wE ++ []))) HWh H6' H2)
    as (c5 & K3 & E5 & S5 & I5 & A5 & Tr5 & F5).
  { split; [exact Logic.I|split; reflexivity]. }
  { pose proof (pairs_len epieces M0 A H6'). rewrite app_length. clia. }
  { exact I4. } { exact A4. }
  { unfold CstNsItems.node_room in *. rewrite Ln4, Lo4, Ln3, Lo3, Ln1, Lo1, <- !N.add_assoc. exact NR. }
  rewrite E5. cbn [bind]. clear E5.
  pose proof (WV_W _ _ _ HWh) as HWh'.
  pose proof (W_app _ _ _ _ HWh') as HWi. pose proof (W_app _ _ _ _ HWi) as HWj.
  rewrite at_end_st by exact HWj. cbn [negb].
  exists c5, (K0 ++ K1 ++ K2 ++ K3). split; [reflexivity|].
  destruct S1 as (S1 & P1a & P1b). destruct S3 as (S3 & P3a & P3b). destruct S4 as (S4 & P4a & P4b). destruct S5 as (S5 & P5a & P5b).
  cbn [c_parent_id c_parent_prefixes c2 set_entities] in P3a, P3b.
  split; [|split].
  - rewrite (sn_nodes _ _ _ _ S5), (sn_nodes _ _ _ _ S4), (sn_nodes _ _ _ _ S3). cbn [c_doc c2 set_entities].
    rewrite (sn_nodes _ _ _ _ S1), <- !app_assoc. reflexivity.
  - congruence.
  - assert (X35 : DocExt (c_doc c3) (c_doc c5)).
    { eapply DocExt_trans; [apply (Step0n_DocExt _ _ _ _ S4)|apply (Step0n_DocExt _ _ _ _ S5)]. }
    assert (X15 : DocExt (c_doc c1) (c_doc c5)).
    { eapply DocExt_trans; [|exact X35]. apply (Step0n_DocExt _ _ _ _ S3). }
    rewrite !CstNsDoc.tag_list_app.
    apply Forall2_app; [|apply Forall2_app; [|apply Forall2_app]].
    + apply (kmn_Forall2_ext text D HD (c_doc c1)); [exact X15|exact F1].
    + apply (kmn_Forall2_ext text D HD (c_doc c3)); [exact X35|]. rewrite P1a, Ln1 in F3. exact F3.
    + apply (kmn_Forall2_ext text D HD (c_doc c4)); [apply (Step0n_DocExt _ _ _ _ S5)|].
      rewrite P3a, P1a, Ln3, Ln1 in F4. exact F4.
    + rewrite P4a, P3a, P1a, Ln4, Ln3, Ln1 in F5. exact F5.
Qed.

End Doc4.

Print Assumptions parse_document_ok_4.
