(* Proofs/KeystoneProto.v -- the order in which the tokenizer calls its callback, as
   "typestate" lemmas: parametric in the callback [ev] and in state predicates that the
   individual kinds of token move between. *)
From Coq Require Import List NArith Bool Lia ZifyBool ZifyN ZifyNat.
From RX Require Import Generated.
From RX.Model Require Import Base CharClass Stream Tokenizer.
From RX.Proofs Require Import Tactics KeystoneEnc KeystoneBuilder KeystoneParse.
Import ListNotations.
Open Scope N_scope.

(* forward step: turn [He : f .. c = Ok (.., c2)] into a fact about c2 with a lemma [L] *)
Ltac fwd1 L := match goal with He : _ = Ok _ |- _ => eapply L in He; [|eassumption] end.

(* ------------------------------------------------------------------ *)
(** * Comments, processing instructions, DOCTYPE: states closed under these tokens *)

Section Misc.
Variable text : bytes.
Variable C : Type.
Variable ev : Tokenizer.token -> C -> res C.
Variable X : C -> Prop.
Hypothesis HPI : forall t v r c c', X c -> ev (TPI t v r) c = Ok c' -> X c'.
Hypothesis HCom : forall t r c c', X c -> ev (TComment t r) c = Ok c' -> X c'.

Lemma parse_comment_X s c s' c' :
  X c -> parse_comment text C ev s c = Ok (s', c') -> X c'.
Proof. unfold parse_comment. intros HQ H. minv H. repeat fwd1 HCom. assumption. Qed.

Lemma parse_pi_X s c s' c' :
  X c -> parse_pi text C ev s c = Ok (s', c') -> X c'.
Proof. unfold parse_pi. intros HQ H. minv H. repeat fwd1 HPI. assumption. Qed.

Lemma parse_misc_loop_X fuel : forall s c s' c',
  X c -> parse_misc_loop text C ev fuel s c = Ok (s', c') -> X c'.
Proof.
  induction fuel as [|fu IH]; intros s c s' c' HQ H; cbn [parse_misc_loop] in H; [discriminate|].
  minv H; repeat first [fwd1 parse_comment_X | fwd1 parse_pi_X | fwd1 IH]; assumption.
Qed.

Lemma parse_misc_X s c s' c' :
  X c -> parse_misc text C ev s c = Ok (s', c') -> X c'.
Proof. unfold parse_misc. apply parse_misc_loop_X. Qed.

Hypothesis HEnt : forall n v c c', X c -> ev (TEntityDecl n v) c = Ok c' -> X c'.

Lemma parse_entity_decl_X s c s' c' :
  X c -> parse_entity_decl text C ev s c = Ok (s', c') -> X c'.
Proof.
  unfold parse_entity_decl. intros HQ H. minv H.
  minv Hb5; repeat fwd1 HEnt; assumption.
Qed.

Lemma parse_doctype_loop_X fuel : forall start s c s' c',
  X c -> parse_doctype_loop text C ev fuel start s c = Ok (s', c') -> X c'.
Proof.
  induction fuel as [|fu IH]; intros start s c s' c' HQ H; cbn [parse_doctype_loop] in H;
    [discriminate|].
  minv H;
    repeat first [fwd1 parse_comment_X | fwd1 parse_pi_X | fwd1 parse_entity_decl_X | fwd1 IH];
    assumption.
Qed.

Lemma parse_doctype_X s c s' c' :
  X c -> parse_doctype text C ev s c = Ok (s', c') -> X c'.
Proof.
  unfold parse_doctype. intros HQ H. minv H; repeat fwd1 parse_doctype_loop_X; assumption.
Qed.
End Misc.

(* ------------------------------------------------------------------ *)
(** * A start tag: ElementStart, Attribute*, ElementEnd Open|Empty *)

Section Element.
Variable text : bytes.
Variable C : Type.
Variable ev : Tokenizer.token -> C -> res C.
Variables X Xt Ye Yo : C -> Prop.
Hypothesis HStart : forall p l st c c', X c -> ev (TElementStart p l st) c = Ok c' -> Xt c'.
Hypothesis HAttr : forall r ql el p l v c c',
  Xt c -> ev (TAttribute r ql el p l v) c = Ok c' -> Xt c'.
Hypothesis HEmpty : forall r c c', Xt c -> ev (TElementEnd EEmpty r) c = Ok c' -> Ye c'.
Hypothesis HOpen : forall r c c', Xt c -> ev (TElementEnd EOpen r) c = Ok c' -> Yo c'.

Lemma parse_element_loop_X fuel : forall ts s c o s' c',
  Xt c -> parse_element_loop text C ev fuel ts s c = Ok (o, s', c') ->
  if o then Yo c' else Ye c'.
Proof.
  induction fuel as [|fu IH]; intros ts s c o s' c' HQ H; cbn [parse_element_loop] in H;
    [discriminate|].
  minv H.
  - fwd1 HEmpty. assumption.
  - fwd1 HOpen. assumption.
  - fwd1 HAttr. eapply IH; eassumption.
Qed.

Lemma parse_element_X s c o s' c' :
  X c -> parse_element text C ev s c = Ok (o, s', c') -> if o then Yo c' else Ye c'.
Proof.
  unfold parse_element. intros HQ H. minv H. fwd1 HStart.
  eapply parse_element_loop_X; eassumption.
Qed.
End Element.

(* ------------------------------------------------------------------ *)
(** * Content: states indexed by the depth counter of parse_content_loop *)

Section Content.
Variable text : bytes.
Variable C : Type.
Variable ev : Tokenizer.token -> C -> res C.
Variables Qc Qt : N -> C -> Prop.
Variable R : C -> Prop.
Hypothesis HPI : forall d t v r c c', Qc d c -> ev (TPI t v r) c = Ok c' -> Qc d c'.
Hypothesis HCom : forall d t r c c', Qc d c -> ev (TComment t r) c = Ok c' -> Qc d c'.
Hypothesis HText : forall d t r c c', Qc d c -> ev (TText t r) c = Ok c' -> Qc d c'.
Hypothesis HCdata : forall d t r c c', Qc d c -> ev (TCdata t r) c = Ok c' -> Qc d c'.
Hypothesis HStart : forall d p l st c c', Qc d c -> ev (TElementStart p l st) c = Ok c' -> Qt d c'.
Hypothesis HAttr : forall d r ql el p l v c c',
  Qt d c -> ev (TAttribute r ql el p l v) c = Ok c' -> Qt d c'.
Hypothesis HEmpty : forall d r c c', Qt d c -> ev (TElementEnd EEmpty r) c = Ok c' -> Qc d c'.
Hypothesis HOpen : forall d r c c', Qt d c -> ev (TElementEnd EOpen r) c = Ok c' -> Qc (d + 1) c'.
Hypothesis HClose0 : forall p l r c c',
  Qc 0 c -> ev (TElementEnd (EClose p l) r) c = Ok c' -> R c'.
Hypothesis HCloseS : forall d p l r c c',
  d <> 0 -> Qc d c -> ev (TElementEnd (EClose p l) r) c = Ok c' -> Qc (d - 1) c'.

Definition Fin (c : C) : Prop := R c \/ exists d, Qc d c.

Lemma parse_content_loop_X fuel : forall depth s c s' c',
  Qc depth c -> parse_content_loop text C ev fuel depth s c = Ok (s', c') -> Fin c'.
Proof.
  induction fuel as [|fu IH]; intros depth s c s' c' HQ H; cbn [parse_content_loop] in H;
    [discriminate|].
  minv H.
  - right. exists depth. exact HQ.
  - eapply (parse_comment_X text C ev (Qc depth)) in Hb0; [|apply HCom|exact HQ].
    eapply IH; eassumption.
  - unfold parse_cdata in Hb0. minv Hb0. fwd1 HCdata. eapply IH; eassumption.
  - eapply (parse_pi_X text C ev (Qc depth)) in Hb0; [|apply HPI|exact HQ].
    eapply IH; eassumption.
  - unfold parse_close_element in Hb0. minv Hb0. left. eapply HClose0; [|eassumption].
    match goal with Hd : (depth =? 0) = true |- _ => apply N.eqb_eq in Hd; subst depth end.
    exact HQ.
  - unfold parse_close_element in Hb0. minv Hb0.
    match goal with Hd : (depth =? 0) = false |- _ => apply N.eqb_neq in Hd end.
    eapply IH; [|eassumption]. eapply HCloseS; eassumption.
  - eapply (parse_element_X text C ev (Qc depth) (Qt depth) (Qc depth) (Qc (depth + 1))) in Hb0;
      [|apply HStart|apply HAttr|apply HEmpty|apply HOpen|exact HQ].
    destruct b; eapply IH; eassumption.
  - unfold parse_text in Hb0. minv Hb0. fwd1 HText. eapply IH; eassumption.
Qed.

Lemma parse_content_X s c s' c' :
  Qc 0 c -> parse_content text C ev s c = Ok (s', c') -> Fin c'.
Proof. unfold parse_content. apply parse_content_loop_X. Qed.
End Content.
