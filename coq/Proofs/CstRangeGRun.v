(* Proofs/CstRangeGRun.v -- C13 / C18 on the capstone fragment, stage S3, part 3: a run of character data
   with entity references in the content loop (CstFullS3Run.v once more, observing the fragments,
   the range of the Text node and what it stores). *)
From Coq Require Import Ascii String.
From Coq Require Import List NArith PeanoNat Bool Lia ZifyBool ZifyN ZifyNat.
Import ListNotations.
From RX Require Import Generated.
From RX.Model Require Import Base CharClass Stream Tokenizer Doc Builder Parse.
From RX.Spec Require Cst CstText CstEnt Detector Scope CstU.
From RX.Spec Require Import Text CstFull.
From RX.Proofs Require Import Tactics CstLex CstBuild CstULex CstNsLex CstNsView CstNsBuild TextMachine TextMerge HoistProofs NoPanicUtf8 DetectorProofs.
From RX.Proofs Require Import CstTextSem CstTextLex CstTextBuild CstEntSem CstEntMeaning CstEntRun CstEntInline CstEntDtd CstFullLex CstFullBuild.
From RX.Proofs Require Import CstFullS2Sem CstFullS2Lex CstFullS2Build CstFullS3Sem CstFullS3Text CstFullS3Run.
From RX.Proofs Require CstItems CstTextItems CstEntText CstEntBuild CstFullS2.
From RX.Proofs Require Import CstRangeDefs CstRangeBuild CstRangeTDefs CstRangeTBuild CstRangeEDefs CstRangeEText CstRangeEFrags.
From RX.Proofs Require Import CstRangeFDefs CstRangeFBuild CstRangeFS2 CstRangeGText CstRangeGFrags.
Open Scope N_scope.

Notation text_follow := CstTextItems.text_follow.

Section ERunR.
Variable text : bytes.
Variable D : list Scope.binding.
Hypothesis HD : forall l, NoDup l -> incl l D -> N.of_nat (length l) <= 65535.
Variable decls : list E.edecl.
Variable q0 : N.                         (* where the first declaration is written *)
Notation es := (decl_ents q0 decls).
Hypothesis Henv : Forall2 (uent_ok text) decls es.
Hypothesis Hdecls : Forall udecl_ok decls.

Notation W := (CstLex.W text).
Notation WV := (CstULex.WV text).
Notation CIn := (CstNsBuild.CIn text D).
Notation tok_ev := (CstBuild.tok_ev text).
Notation loop := (parse_content_loop text context (tok_ev)).
Notation st := (CstLex.st text).
Notation vt := (vtable_at q0 decls).
Notation StretchG := (CstRangeEFrags.StretchG text decls q0).
Notation RunG := (CstRangeEFrags.RunG text decls q0).
Notation ess_bytes_u := (CstFullS3Run.ess_bytes_u D HD).
Notation eseg_valid := (CstFullS3Run.eseg_valid D HD).
Notation ealt_stop_u := (CstFullS3Run.ealt_stop_u).
Notation ealt_sc := (CstFullS3Run.ealt_sc).

Lemma tok_estretch_u_r inh p l more c0 c (frs : list (cow * range)) q tr F ld' :
  WV p (E.r_epieces l ++ more) -> Forall (uep_ok false) l -> l <> [] ->
  Exp decls false [] l q tr F -> ld_run ld_init tr = Some ld' ->
  c_ld c = ld_init -> c_entities c = es ->
  CIn inh c0 -> (frs = [] -> F <> [] -> room c0) -> c_after_text c0 = [] -> RunR c0 c frs ->
  exists c' G,
    tok_ev (TText (sl p (p + blen (E.r_epieces l))) (p, p + blen (E.r_epieces l))) c = Ok c' /\
    RunR c0 c' (frs ++ G) /\ map (cow_bytes text) (map fst G) = F /\ StretchG l p G /\
    c_ld c' = ld_init /\ c_tag_name c' = c_tag_name c /\ c_entity_floor c' = c_entity_floor c /\ ld' = ld_init.
Proof.
  intros HWv Hok Hne He Hld Hc Hes I R Hat HR. pose proof (WV_W _ _ _ HWv) as HW.
  unfold CstBuild.tok_ev, Parse.token. cbn [token_with]. unfold process_text.
  rewrite process_text_with_unfold. unfold slice_bytes at 1. cbn [sl sl_start sl_end].
  rewrite (W_sub _ _ _ _ HW).
  pose proof (W_le _ _ _ (W_app _ _ _ _ HW)) as Hle.
  destruct (existsb (fun x => (x =? 38) || (x =? 13)) (E.r_epieces l)) eqn:Efast; cbn [negb].
  - cbn [fst snd]. rewrite (stream_from_substr_W text p (E.r_epieces l) more HW). cbn [bind].
    destruct (TL_u_r text D HD decls es Henv Hdecls false [] l q tr F He inh (p + blen (E.r_epieces l)) p more c0 c frs
                (S (length (s_rest (sst (p + blen (E.r_epieces l)) p (E.r_epieces l ++ more))))) entity_levels
                (p, p + blen (E.r_epieces l)) ld')
      as (c' & G & E' & HR' & HG & HX & K1 & K2 & K3 & K4); try assumption; try reflexivity.
    + rewrite Hc. reflexivity.
    + apply acc_nil.
    + rewrite Hc. exact Hld.
    + rewrite Hc. reflexivity.
    + cbn [sst s_rest]. rewrite app_length. lia.
    + cbn [push_text_chunks] in E'. rewrite E'. exists c', G.
      assert (El : ld' = ld_init) by (apply (CstEntBuild.ld_run_init tr ld' Hld); rewrite K2, Hc; reflexivity).
      split; [reflexivity|]. split; [exact HR'|]. split; [exact HG|].
      split; [right; split; [exact Efast|exact HX]|]. repeat split; auto. rewrite K1. exact El.
  - destruct (existsb_or_false _ _ _ Efast) as [E38 E13].
    destruct (exp_plain_u decls false l [] q tr F He Hok E38) as [-> ->]. cbn [app] in *.
    assert (Hemit : emit false (map CLit (E.r_epieces l)) = [E.r_epieces l]).
    { unfold emit. rewrite text_chunks_decode_partial.
      - rewrite decode_lits, norm_eol_nocr by exact E13.
        destruct (E.r_epieces l) as [|y x'] eqn:Ex; [|reflexivity].
        exfalso. destruct l as [|pp l']; [congruence|].
        apply Forall_cons_iff in Hok. destruct Hok as [Hv _]. destruct (uep_piece_ne false pp Hv) as (x1 & r1 & E1).
        rewrite r_epieces_cons, E1 in Ex. discriminate.
      - apply Forall_forall. intros ch Hin. apply in_map_iff in Hin. destruct Hin as (x & <- & _). discriminate. }
    destruct (run_append_n_r text D inh (CowBorrowed (sl p (p + blen (E.r_epieces l)))) (p, p + blen (E.r_epieces l)) c0 c frs HR I
                (fun Z0 => R Z0 ltac:(rewrite Hemit; discriminate)) Hat)
      as (c' & Ea & HRa & La1 & La2 & La3).
    rewrite Ea. exists c', [(CowBorrowed (sl p (p + blen (E.r_epieces l))), (p, p + blen (E.r_epieces l)))]. cbn [ld_run] in Hld. injection Hld as <-.
    split; [reflexivity|]. split; [exact HRa|]. split; [|split; [left; split; [exact Efast|reflexivity]|repeat split; auto; congruence]].
    cbn [map cow_bytes fst]. unfold slice_bytes. cbn [sl sl_start sl_end]. rewrite (W_sub _ _ _ _ HW). rewrite Hemit. reflexivity.
Qed.


Lemma eseg_step_ss_u_r inh l p rest c0 c (frs : list (cow * range)) fuel depth q tr F ld' :
  WV p (E.r_epieces l ++ rest) -> ueseg_wf (ESS l) -> text_stop rest ->
  Exp decls false [] l q tr F -> ld_run ld_init tr = Some ld' ->
  c_ld c = ld_init -> c_entities c = es -> CIn inh c0 -> (frs = [] -> F <> [] -> room c0) -> c_after_text c0 = [] -> RunR c0 c frs ->
  exists c' G,
    loop (S fuel) depth (st p (E.r_epieces l ++ rest)) c = loop fuel depth (st (p + blen (E.r_epieces l)) rest) c' /\
    RunR c0 c' (frs ++ G) /\ map (cow_bytes text) (map fst G) = F /\ StretchG l p G /\
    c_ld c' = ld_init /\ c_tag_name c' = c_tag_name c /\ c_entity_floor c' = c_entity_floor c /\ ld' = ld_init.
Proof.
  intros HW Hwf Hstop He Hld Hc Hes I R Hat HR.
  destruct (ess_bytes_u l Hwf) as (Hu & Hb & x & r & Ex & Hx60). destruct Hwf as (Hne & Hok & _ & Hn3).
  assert (El : loop (S fuel) depth (st p (E.r_epieces l ++ rest)) c =
               let! (s, c) := parse_text text context tok_ev (st p (E.r_epieces l ++ rest)) c in loop fuel depth s c).
  { pose proof (WV_W _ _ _ HW) as HW0. revert HW0. rewrite Ex. cbn [app]. intros HW0. apply (CstItems.loop_text text); assumption. }
  rewrite El. clear El.
  rewrite (lex_text_g text) by assumption.
  destruct (tok_estretch_u_r inh p l rest c0 c frs q tr F ld' HW Hok Hne He Hld Hc Hes I R Hat HR)
    as (c' & G & E' & HR' & HG & HX & K1 & K2 & K3 & K4).
  rewrite E'. cbn [bind]. exists c', G. split; [reflexivity|]. split; [exact HR'|]. split; [exact HG|]. split; [exact HX|]. repeat split; auto.
Qed.


Lemma eseg_step_sc_u_r inh bs p rest c0 c (frs : list (cow * range)) fuel depth :
  WV p (r_eseg (ESC bs) ++ rest) -> ueseg_wf (ESC bs) -> c_ld c = ld_init ->
  CIn inh c0 -> (frs = [] -> room c0) -> c_after_text c0 = [] -> RunR c0 c frs ->
  exists c',
    loop (S fuel) depth (st p (r_eseg (ESC bs) ++ rest)) c = loop fuel depth (st (p + blen (r_eseg (ESC bs))) rest) c' /\
    RunR c0 c' (frs ++ [(frag p (SC bs), seg_range p (SC bs))]) /\ cow_bytes text (frag p (SC bs)) = norm_eol bs /\
    c_ld c' = ld_init /\ c_tag_name c' = c_tag_name c /\ c_entity_floor c' = c_entity_floor c.
Proof.
  intros HW Hwf Hc I R Hat HR.
  assert (Hld : LD c) by (unfold LD; rewrite Hc; reflexivity).
  pose proof (CstFullS2.seg_step_u text D HD (SC bs) p rest c fuel depth HW Hwf Hld (fun H => ltac:(discriminate H))) as Es.
  cbn [r_eseg]. cbn [r_seg] in Es. rewrite Es.
  destruct (run_append_n_r text D inh (frag p (SC bs)) (seg_range p (SC bs)) c0 c frs HR I R Hat) as (c' & Ea & HRa & L1 & L2 & L3).
  rewrite Ea. cbn [bind]. exists c'. split; [reflexivity|]. split; [exact HRa|]. split.
  - rewrite (frag_bytes_u text p (SC bs) rest (WV_W _ _ _ HW) Hwf). reflexivity.
  - repeat split; congruence.
Qed.


Lemma run_loop_e_u_r inh c0 post : CIn inh c0 -> c_after_text c0 = [] -> text_follow post ->
  forall L Q tr FF, RunExp decls L Q tr FF ->
  forall prev p c (frs : list (cow * range)) fuel depth ld',
  (frs = [] -> concat FF <> [] -> room c0) -> Forall ueseg_wf L -> ealt (prev :: L) -> WV p (flat_map r_eseg L ++ post) ->
  ld_run ld_init tr = Some ld' -> c_ld c = ld_init -> c_entities c = es -> RunR c0 c frs ->
  exists c' G,
    loop (length L + fuel) depth (st p (flat_map r_eseg L ++ post)) c =
    loop fuel depth (st (p + blen (flat_map r_eseg L)) post) c' /\
    RunR c0 c' (frs ++ G) /\ map (cow_bytes text) (map fst G) = concat FF /\ RunG L p G /\
    c_ld c' = ld_init /\ c_tag_name c' = c_tag_name c /\ c_entity_floor c' = c_entity_floor c /\ ld' = ld_init.
Proof.
  intros I Hat Hp L Q tr FF H.
  induction H as [|ps q tr F L Q tr' FF He HR IH|bs L Q tr' FF HR IH];
    intros prev p c frs fuel depth ld' R HF A HW Hld Hc Hes HRun.
  - cbn [length flat_map app Nat.add concat]. rewrite blen_nil, N.add_0_r. exists c, []. rewrite app_nil_r.
    cbn [ld_run] in Hld. injection Hld as <-. split; [reflexivity|]. split; [exact HRun|]. split; [reflexivity|]. split; [constructor|]. repeat split; auto.
  - apply Forall_cons_iff in HF. destruct HF as [Hs HL]. cbn [flat_map] in HW |- *. rewrite <- app_assoc in HW |- *.
    assert (A' : ealt (ESS ps :: L)) by (destruct A as [_ A]; exact A).
    rewrite ld_run_app in Hld. destruct (ld_run ld_init tr) as [ld1|] eqn:El1; [|discriminate].
    cbn [length Nat.add r_eseg] in *.
    destruct (eseg_step_ss_u_r inh ps p (flat_map r_eseg L ++ post) c0 c frs (length L + fuel) depth q tr F ld1 HW Hs
                (ealt_stop_u _ _ _ A' Hp eq_refl) He El1 Hc Hes I
                (fun Z0 Z1 => R Z0 ltac:(cbn [concat]; intros Z2; apply app_eq_nil in Z2; destruct Z2; contradiction)) Hat HRun)
      as (c1 & G1 & E1 & HR1 & HG1 & HX1 & K1 & K2 & K3 & K4).
    rewrite E1. subst ld1.
    destruct (IH (ESS ps) (p + blen (E.r_epieces ps)) c1 (frs ++ G1) fuel depth ld'
                (fun Z0 Z1 => R (proj1 (app_eq_nil _ _ Z0)) ltac:(cbn [concat]; intros Z2; apply app_eq_nil in Z2; destruct Z2; contradiction))
                HL A' (WV_app _ _ _ _ HW (eseg_valid (ESS ps) Hs)) Hld K1)
      as (c' & G & E' & HR' & HG & HX & J1 & J2 & J3 & J4).
    { rewrite (RunR_entities _ _ _ HR1). rewrite <- Hes. symmetry. apply (RunR_entities _ _ _ HRun). }
    { exact HR1. }
    rewrite E'. exists c', (G1 ++ G). split; [rewrite blen_app, N.add_assoc; reflexivity|].
    split; [rewrite app_assoc; exact HR'|]. split; [rewrite !map_app, HG1, HG; reflexivity|].
    split; [constructor; assumption|]. repeat split; congruence.
  - apply Forall_cons_iff in HF. destruct HF as [Hs HL]. cbn [flat_map] in HW |- *. rewrite <- app_assoc in HW |- *.
    assert (A' : ealt (ESC bs :: L)) by (destruct A as [_ A]; exact A).
    cbn [length Nat.add] in *.
    destruct (eseg_step_sc_u_r inh bs p (flat_map r_eseg L ++ post) c0 c frs (length L + fuel) depth HW Hs Hc I
                (fun Z0 => R Z0 ltac:(cbn [concat app]; discriminate)) Hat HRun)
      as (c1 & E1 & HR1 & HG1 & K1 & K2 & K3).
    set (G1 := [(frag p (SC bs), seg_range p (SC bs))]) in *.
    rewrite E1.
    destruct (IH (ESC bs) (p + blen (r_eseg (ESC bs))) c1 (frs ++ G1) fuel depth ld'
                (fun Z0 Z1 => R (proj1 (app_eq_nil _ _ Z0)) ltac:(cbn [concat app]; discriminate))
                HL A' (WV_app _ _ _ _ HW (eseg_valid (ESC bs) Hs)) Hld K1)
      as (c' & G & E' & HR' & HG & HX & J1 & J2 & J3 & J4).
    { rewrite (RunR_entities _ _ _ HR1). rewrite <- Hes. symmetry. apply (RunR_entities _ _ _ HRun). }
    { exact HR1. }
    rewrite E'. exists c', (G1 ++ G). split; [rewrite blen_app, N.add_assoc; reflexivity|].
    split; [rewrite app_assoc; exact HR'|]. split; [unfold G1; cbn [app map fst concat]; rewrite HG1, HG; reflexivity|].
    split; [unfold G1; cbn [app]; constructor; exact HX|]. repeat split; congruence.
Qed.


Lemma erun_ok_r inh ps p post c depth fuel k Q tr :
  ps <> [] -> Forall ueseg_wf (esegs ps) ->
  E.inline_ps (E.level decls k) false false ps = Some (Q, tr) -> limits_ok tr = true -> E.crlf_split_ok Q = true ->
  WV p (E.r_epieces ps ++ post) -> text_follow post ->
  CIn inh c -> c_ld c = ld_init -> c_entities c = es -> c_after_text c = [] ->
  (forallb E.is_mark Q = false -> room c) ->
  exists c',
    loop (length (esegs ps) + fuel) depth (st p (E.r_epieces ps ++ post)) c =
    loop fuel depth (st (p + blen (E.r_epieces ps)) post) c' /\ c_after_text c' = [] /\ CIn inh c' /\
    c_tag_name c' = c_tag_name c /\ d_ns_tree (c_doc c') = d_ns_tree (c_doc c) /\
    if forallb E.is_mark Q then c' = c /\ run_frags vt p ps = []
    else exists stg, Stepn c c' [(Some (c_parent_id c), KText stg)] [] /\ storage_bytes text stg = T.text_sem Q /\
         exists f fs, run_frags vt p ps = f :: fs /\ rng c' = rng c ++ [fst f] /\
           d_ns_values (c_doc c') = d_ns_values (c_doc c) /\
           match fs, snd f with
           | [], Some sp => stg = Borrowed (SIn (sl_of sp))
           | _, _ => exists bs, stg = Owned bs
           end.
Proof.
  intros Hne HF Hps Hlim Hcr HW Hfol I Hc Hes Hat R.
  rewrite <- (esegs_flat ps) in Hps at 1.
  destruct (RunExp_of decls k (esegs ps) _ _ Hps) as [FF HFF].
  rewrite <- (esegs_render ps) in HW |- *.
  pose proof (RunExp_marks_u decls Hdecls _ _ _ _ HFF HF) as Hmarks.
  pose proof HW as HW00.
  destruct (detector_complete_gen tr 0 0 Hlim) as [ld' Hld]. change (DetectorProofs.mk 0 0) with ld_init in Hld.
  destruct (run_loop_e_u_r inh c post I Hat Hfol (esegs ps) _ _ _ HFF (ESC []) p c [] fuel depth ld') as
    (c' & G & E' & HR' & HG & HX & K1 & K2 & K3 & K4); try assumption.
  { intros _ Hn. apply R. destruct (forallb E.is_mark Q) eqn:Em; [|reflexivity]. exfalso. apply Hn. apply (proj2 Hmarks). reflexivity. }
  { apply ealt_sc. apply ealt_esegs. }
  { split; [apply CstEntText.same_frame_refl|cbn [map firstn]; rewrite app_nil_r; reflexivity]. }
  assert (Hfr : map gdesc G = run_frags vt p ps).
  { unfold run_frags. rewrite rsegs_esegs.
    apply (RunG_frs_u text decls q0 Henv Hdecls _ _ _ _ HFF p G ld_init ld' HX Hld eq_refl HF). }
  rewrite E'. cbn [app] in HR'.
  destruct (forallb E.is_mark Q) eqn:Em.
  - (* only marks: nothing is appended, no node *)
    rewrite (proj2 Hmarks eq_refl) in HG. destruct G; [|discriminate].
    assert (Ec : c' = c).
    { symmetry. apply CstEntBuild.context_eq; [exact (proj1 HR')|congruence|congruence|congruence]. }
    subst c'. exists c. split; [reflexivity|]. split; [exact Hat|]. split; [exact I|]. split; [reflexivity|]. split; [reflexivity|].
    split; [reflexivity|]. rewrite <- Hfr. reflexivity.
  - (* one Text node *)
    assert (HGne : G <> []).
    { intros ->. cbn [map] in HG. symmetry in HG. apply (proj1 Hmarks) in HG. discriminate HG. }
    destruct G as [|[t0 r0] rest]; [congruence|]. destruct HR' as [HR' Hrng]. cbn [map fst snd firstn CstEntText.Run] in HR', Hrng.
    change (map fst ((t0, r0) :: rest)) with (t0 :: map fst rest) in HG.
    destruct HR' as (nodes' & Mn & SF).
    assert (Ec : set_after_text (run_ctx c nodes') (t0 :: map fst rest) = c') by (apply CstEntBuild.context_eq; [exact SF|cbn; congruence..]).
    destruct (run_reset_n_r text D HD inh c nodes' t0 (map fst rest) I Mn) as (c2 & stg & Ereset & S & I2 & A2 & Tn & Tr & Hst & Hkind).
    rewrite Ec in Ereset.
    pose proof (W_app _ _ _ _ (WV_W _ _ _ HW)) as HWend.
    rewrite (CstTextItems.loop_reset_eq text _ c2 _ post Ereset A2 Hfol HWend).
    exists c2. split; [reflexivity|]. split; [exact A2|]. split; [exact I2|]. split; [exact Tn|]. split; [exact Tr|].
    exists stg. split; [exact S|]. split.
    { rewrite Hst, HG.
      rewrite <- (RunExp_sem_u decls Hdecls _ _ _ _ HFF HF (ealt_esegs ps) Hcr).
      clear. induction FF as [|F FF IH]; [reflexivity|]. cbn [concat map]. rewrite concat_app, IH. reflexivity. }
    exists (gdesc (t0, r0)), (map gdesc rest). split; [rewrite <- Hfr; reflexivity|]. split; [|split].
    + destruct (reset_after_text_Rsame text _ _ Ereset) as (Rg2 & _). rewrite Rg2, <- Ec in *. exact Hrng.
    + destruct (reset_after_text_nsv text _ _ Ereset) as [V _]. rewrite V, <- Ec. reflexivity.
    + cbn [gdesc fst snd]. destruct rest as [|[t1 r1] rest']; cbn [map] in Hkind |- *.
      * destruct t0 as [s|bs]; cbn [cow_storage] in Hkind; [|eexists; exact Hkind].
        rewrite Hkind. destruct s; reflexivity.
      * destruct t0; eexists; exact Hkind.
Qed.



End ERunR.

Print Assumptions erun_ok_r.
