(* Proofs/CstEntCLex2.v -- C07 with content entities: text, CDATA sections and start tags with raw attribute
   values (Proofs/CstTextLex.v, Proofs/CstEntLex.v) for a stream over a part of the input (Proofs/CstEntCLex.v).
   The proofs are those of the original files. *)
From Coq Require Import Ascii String.
From Coq Require Import List NArith PeanoNat Bool Lia ZifyBool ZifyN ZifyNat.
Import ListNotations.
From RX Require Import Generated.
From RX.Model Require Import Base CharClass Stream Tokenizer Doc Builder Parse.
From RX.Spec Require Cst CstText.
From RX.Spec Require Import Text.
From RX.Proofs Require Import CstLex TextMachine CstTextLex CstEntLex CstEntCLex.
Open Scope N_scope.

Section Sub2.
Variable text : bytes.
Hypothesis Hascii : Forall (fun x => x < 128) text.
Variable en : N.
Variable tl : bytes.
Notation W := (CstEntCLex.W text en tl).
Variable C : Type.
Variable ev : Tokenizer.token -> C -> res C.
Notation st := (CstEntCLex.st en tl).

Lemma tplain_walk : forall bs p post,
  forallb (fun x => T.is_tplain x && negb (x =? 60)) bs = true -> walk_ok en tl text_f p bs post.
Proof.
  induction bs as [|c r IH]; intros p post H; cbn [walk_ok]; [exact I|].
  cbn [forallb] in H. apply andb_true_iff in H. destruct H as [Hc H].
  apply andb_true_iff in Hc. destruct Hc as [Hc H60].
  destruct (tplain_char _ Hc) as (L & K & _).
  split; [exact K|]. split; [exact H60|]. apply IH. exact H.
Qed.

Lemma lex_text' p bs post c : W p (bs ++ post) ->
  forallb (fun x => T.is_tplain x && negb (x =? 60)) bs = true -> contains_b n3 bs = false -> text_stop post ->
  parse_text text C ev (st p (bs ++ post)) c =
  let! c' := ev (TText (sl p (p + blen bs)) (p, p + blen bs)) c in Ok (st (p + blen bs) post, c').
Proof.
  intros HW H1 H2 Hs. unfold parse_text. cbv zeta.
  change (fun (_ : stream) (ch : N) => negb (ch =? 60)) with text_f.
  rewrite (consume_chars_st text Hascii en tl); [|exact HW|apply tplain_walk; exact H1|].
  2:{ destruct post as [|x post]; cbn [walk_stop]; [exact I|]. cbn [text_stop] in Hs. subst x.
      split; reflexivity. }
  cbn [bind]. rewrite (W_slice _ _ _ _ _ _ HW). change (b "]]>") with n3. rewrite H2, andb_false_r.
  reflexivity.
Qed.

Lemma cdata_walk : forall bs p post, W p (bs ++ n3 ++ post) ->
  forallb T.is_tplain bs = true -> contains_b n3 bs = false ->
  walk_ok en tl cdata_f p bs (n3 ++ post).
Proof.
  induction bs as [|c r IH]; intros p post HW H1 H2; cbn [walk_ok]; [exact I|].
  cbn [forallb] in H1. apply andb_true_iff in H1. destruct H1 as [Hc H1].
  destruct (tplain_char _ Hc) as (L & K & _).
  cbn [contains_b] in H2. apply orb_false_iff in H2. destruct H2 as [H2 H2'].
  split; [exact K|]. split.
  - unfold cdata_f. rewrite (starts_with_st text en tl) by exact HW.
    destruct (c =? 93) eqn:E; [|reflexivity]. cbn [andb]. apply N.eqb_eq in E. subst c.
    unfold n3 in *. destruct r as [|y [|z r]]; cbn [app prefix_b] in *.
    + reflexivity.
    + rewrite !N.eqb_refl. cbn [andb]. destruct (93 =? y); reflexivity.
    + rewrite H2. reflexivity.
  - apply IH; [apply (W_cons _ _ _ _ _ _ HW)|exact H1|exact H2'].
Qed.

Lemma lex_cdata p bs post c : W p (T.cdata_open ++ bs ++ n3 ++ post) ->
  forallb T.is_tplain bs = true -> contains_b n3 bs = false ->
  parse_cdata text C ev (st p (T.cdata_open ++ bs ++ n3 ++ post)) c =
  let! c' := ev (TCdata (sl (p + 9) (p + 9 + blen bs)) (p, p + 9 + blen bs + 3)) c in
  Ok (st (p + 9 + blen bs + 3) post, c').
Proof.
  intros HW H1 H2. unfold parse_cdata. cbv zeta.
  rewrite (advance_st text en tl 9 p T.cdata_open) by (try reflexivity; exact HW). cbn [bind].
  pose proof (W_app _ _ _ _ _ _ HW) as HW1. change (blen T.cdata_open) with 9 in HW1.
  change (b "]]>") with n3.
  change (fun (s : stream) (ch : N) => negb ((ch =? 93) && starts_with s n3)) with cdata_f.
  rewrite (consume_chars_st text Hascii en tl); [|exact HW1|apply cdata_walk; assumption|].
  2:{ cbn [walk_stop app n3]. split; [reflexivity|]. unfold cdata_f.
      rewrite (starts_with_st text en tl) by (apply (W_app _ _ _ _ _ _ HW1)). reflexivity. }
  cbn [bind]. pose proof (W_app _ _ _ _ _ _ HW1) as HW2.
  rewrite (skip_string_st text en tl) by exact HW2. cbn [bind]. cbn [CstEntCLex.st s_pos].
  change (blen n3) with 3. reflexivity.
Qed.

(* ---- start tags with decoded attribute values ---- *)

Lemma lex_rattr_iter fuel ts q a more c : W q (r_rattr a ++ more) -> wf_rattr a ->
  parse_element_loop text C ev (S fuel) ts (st q (r_rattr a ++ more)) c =
  let! c' := ev (rattr_tok q a) c in
  parse_element_loop text C ev fuel ts (st (q + blen (r_rattr a)) more) c'.
Proof.
  intros HW Hwf. destruct Hwf as (Hne & Hws & Hn & Hw1 & Hw2 & Hq & HV).
  unfold rattr_tok, vlen. cbv zeta.
  assert (Elen : q + blen (r_rattr a) = q + blen (ra_ws a) + blen (ra_name a) + blen (ra_ws1 a) + 1
                  + blen (ra_ws2 a) + 1 + blen (ra_value a) + 1).
  { clear. unfold r_rattr. rewrite !blen_app, !blen_cons, blen_nil. lia. }
  rewrite Elen. clear Elen.
  unfold r_rattr in *. rewrite <- !app_assoc in *. cbn [app] in *.
  destruct a as [ws name ws1 ws2 quote value]. cbn [ra_ws ra_name ra_ws1 ra_ws2 ra_quote ra_value] in *.
  destruct (value_bytes_facts _ _ HV) as (Hv1 & Hv2 & Hv3). clear HV.
  assert (Hqq : (quote =? 39) || (quote =? 34) = true) by (clear - Hq; lia).
  assert (Hqsp : byte_is_space quote = false) by (clear - Hq; destruct Hq as [-> | ->]; reflexivity).
  clear Hq.
  destruct ws as [|w ws]; [congruence|]. clear Hne.
  destruct name as [|n name]; [discriminate|].
  assert (Hn0 : Cst.is_name_start n = true).
  { cbn [Cst.wf_name] in Hn. apply andb_true_iff in Hn. apply Hn. }
  destruct (name_start_byte _ Hn0) as (_ & _ & Hnsp & Hn47 & Hn62 & _).
  apply N.eqb_neq in Hn47, Hn62. clear Hn0.
  assert (Hwsp : byte_is_space w = true).
  { cbn [Cst.wf_ws forallb] in Hws. apply andb_true_iff in Hws. apply ws_space. apply Hws. }
  cbn [parse_element_loop]. rewrite (at_end_st text en tl) by exact HW. cbn [app].
  unfold starts_with_space. rewrite (curr_byte_opt_st text en tl) by exact HW.
  rewrite Hwsp. cbv zeta.
  change (w :: ws ++ ?l) with ((w :: ws) ++ l) in HW |- *.
  rewrite (skip_spaces_st text en tl); [|exact HW|apply ws_spaces; exact Hws|cbn [app stops]; exact Hnsp].
  pose proof (W_app _ _ _ _ _ _ HW) as HW1. cbn [CstEntCLex.st s_pos].
  try match goal with |- context [ {| s_pos := ?a; s_end := en; s_rest := ?r ++ tl |} ] => fold (st a r) end.
  cbn [app] in HW1 |- *.
  rewrite (curr_byte_st text en tl) by exact HW1. cbn [bind].
  rewrite Hn47, Hn62.
  change (n :: name ++ ?l) with ((n :: name) ++ l) in HW1 |- *.
  rewrite (consume_qname_st text Hascii en tl); [|exact HW1|exact Hn|].
  2:{ apply ws_stop_name; [exact Hw1|]. cbn [name_stop]. apply not_name_byte_lit. auto. }
  cbn [bind]. pose proof (W_app _ _ _ _ _ _ HW1) as HW2.
  unfold consume_eq.
  rewrite (skip_spaces_st text en tl); [|exact HW2|apply ws_spaces; exact Hw1|reflexivity].
  pose proof (W_app _ _ _ _ _ _ HW2) as HW3.
  rewrite (consume_byte_st text en tl) by exact HW3. cbn [bind].
  pose proof (W_cons _ _ _ _ _ _ HW3) as HW4.
  rewrite (skip_spaces_st text en tl); [|exact HW4|apply ws_spaces; exact Hw2|cbn [stops]; exact Hqsp].
  pose proof (W_app _ _ _ _ _ _ HW4) as HW5. cbn [CstEntCLex.st s_pos].
  try match goal with |- context [ {| s_pos := ?a; s_end := en; s_rest := ?r ++ tl |} ] => fold (st a r) end.
  unfold consume_quote. rewrite (curr_byte_st text en tl) by exact HW5. cbn [bind].
  rewrite Hqq.
  rewrite (advance1_st text en tl) by exact HW5. cbn [bind].
  pose proof (W_cons _ _ _ _ _ _ HW5) as HW6. cbn [CstEntCLex.st s_pos].
  try match goal with |- context [ {| s_pos := ?a; s_end := en; s_rest := ?r ++ tl |} ] => fold (st a r) end.
  unfold advance_until2. rewrite (avail_st text en tl) by exact HW6.
  rewrite find_idx_run; [|exact Hv1|rewrite N.eqb_refl; reflexivity].
  rewrite (advance_st text en tl) by (try reflexivity; exact HW6). cbn [bind].
  pose proof (W_app _ _ _ _ _ _ HW6) as HW7. unfold slice_back. cbn [CstEntCLex.st s_pos].
  pose proof (W_le _ _ _ _ _ HW7) as Hle7.
  rewrite (mk_slice_ok text Hascii) by (clear - Hle7; lia). cbn [bind].
  unfold is_xml_str. rewrite (W_slice _ _ _ _ _ _ HW6).
  rewrite Hv2. rewrite is_xml_str_ascii_ok by exact Hv3.
  cbn [bind].
  try match goal with |- context [ {| s_pos := ?a; s_end := en; s_rest := ?r ++ tl |} ] => fold (st a r) end.
  rewrite (consume_byte_st text en tl) by exact HW7. cbn [bind]. cbn [CstEntCLex.st s_pos].
  reflexivity.
Qed.

Lemma lex_relem_loop ts ws_end empty post : forall attrs q c fuel,
  W q (flat_map r_rattr attrs ++ ws_end ++ tag_tail empty ++ post) ->
  Forall wf_rattr attrs -> Cst.wf_ws ws_end = true -> (length attrs < fuel)%nat ->
  parse_element_loop text C ev fuel ts (st q (flat_map r_rattr attrs ++ ws_end ++ tag_tail empty ++ post)) c =
  let q' := q + blen (flat_map r_rattr attrs) + blen ws_end in
  let! c1 := evs C ev (rattr_toks q attrs) c in
  let! c2 := ev (end_tok q' empty) c1 in
  Ok (negb empty, st (q' + blen (tag_tail empty)) post, c2).
Proof.
  induction attrs as [|a attrs IH]; intros q c fuel HW Ha Hws Hf; cbv zeta.
  - cbn [flat_map app rattr_toks evs bind] in *. rewrite blen_nil, N.add_0_r.
    destruct fuel as [|fu]; [cbn in Hf; lia|]. apply lex_elem_end; assumption.
  - apply Forall_cons_iff in Ha. destruct Ha as [Ha1 Ha2].
    cbn [length] in Hf. destruct fuel as [|fu]; [lia|].
    cbn [flat_map rattr_toks evs] in *. rewrite <- app_assoc in *.
    rewrite lex_rattr_iter by assumption.
    destruct (ev (rattr_tok q a) c) as [c'| | |]; cbn [bind]; try reflexivity.
    rewrite IH; [|apply (W_app _ _ _ _ _ _ HW)|exact Ha2|exact Hws|lia]. cbv zeta.
    rewrite blen_app. rewrite !N.add_assoc. reflexivity.
Qed.

Lemma lex_relement p name attrs ws_end empty post c :
  W p ([60] ++ name ++ flat_map r_rattr attrs ++ ws_end ++ tag_tail empty ++ post) ->
  Cst.wf_name name = true -> Forall wf_rattr attrs -> Cst.wf_ws ws_end = true ->
  let q' := p + 1 + blen name + blen (flat_map r_rattr attrs) + blen ws_end in
  parse_element text C ev (st p ([60] ++ name ++ flat_map r_rattr attrs ++ ws_end ++ tag_tail empty ++ post)) c =
  let! c1 := evs C ev (rstart_toks p name attrs) c in
  let! c2 := ev (end_tok q' empty) c1 in
  Ok (negb empty, st (q' + blen (tag_tail empty)) post, c2).
Proof.
  intros HW Hn Ha Hws q'. unfold parse_element. cbv zeta. cbn [CstEntCLex.st s_pos].
  fold (st p ([60] ++ name ++ flat_map r_rattr attrs ++ ws_end ++ tag_tail empty ++ post)).
  rewrite (advance_st text en tl 1 p [60]) by (try reflexivity; exact HW). cbn [bind].
  pose proof (W_app _ _ _ _ _ _ HW) as HW1. change (blen [60]) with 1 in HW1.
  rewrite (consume_qname_st text Hascii en tl); [|exact HW1|exact Hn|apply rattrs_name_stop; assumption]. cbn [bind].
  unfold rstart_toks. cbn [evs].
  destruct (ev _ c) as [c0| | |]; cbn [bind]; try reflexivity.
  pose proof (W_app _ _ _ _ _ _ HW1) as HW2.
  rewrite lex_relem_loop; [|exact HW2|exact Ha|exact Hws|].
  2:{ cbn [CstEntCLex.st s_rest]. rewrite !app_length. pose proof (flat_rattr_len attrs). lia. }
  reflexivity.
Qed.

End Sub2.

Print Assumptions lex_text'.
Print Assumptions lex_cdata.
Print Assumptions lex_relement.
