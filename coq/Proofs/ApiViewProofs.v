(* Proofs/ApiViewProofs.v -- the view computed through the public API (Proofs/ApiView.v) is the view the capstone
   theorems speak about (Proofs/CstNsView.v [view], Proofs/CstMain.v [view]), on EVERY successfully parsed document:
   [api_view_agrees], [api_view0_agrees].  Ingredients: the arena is the pre-order encoding of a tree
   (KeystoneParseWf.parse_wf_doc_tree, via ApiTotal.parse_facts), the navigation theorems on such arenas
   (NavLinks.nav_descendants', NavIter.nav_children'), and the bounds invariant of the builder ([DocOk]). *)
From Coq Require Import Ascii String.
From Coq Require Import List Arith NArith Bool Lia ZifyBool ZifyN ZifyNat.
Import ListNotations.
From RX Require Import Generated.
From RX.Model Require Import Base CharClass Stream Tokenizer Doc Builder Parse Api.
From RX.Spec Require Import Tree.
From RX.Spec Require Scope Cst CstNs.
From RX.Proofs Require Import NavEnc NavLinks NavIter.
From RX.Proofs Require Import Tactics NoPanicBuilder.
From RX.Proofs Require ApiTotal NavParse ScopeProofs CstNsView CstMain.
From RX.Proofs Require Import ApiViewAcc ApiView.
Open Scope N_scope.

(* ------------------------------------------------------------------------------------------ *)
(* lists                                                                                      *)
(* ------------------------------------------------------------------------------------------ *)
Lemma skipn_cons_nth {A} (l : list A) : forall a x r, skipn a l = x :: r -> nth_error l a = Some x /\ skipn (S a) l = r.
Proof.
  induction l as [|y l IH]; intros a x r H; [destruct a; discriminate|].
  destruct a as [|a]; cbn [skipn nth_error] in *; [injection H as -> ->; split; reflexivity|]. apply IH. exact H.
Qed.

Lemma nth_N_of_error {A} (l : list A) i x : nth_error l (N.to_nat i) = Some x -> nth_N l i = Some x.
Proof.
  intros H. unfold nth_N, len_N. assert (Hlt : (N.to_nat i < length l)%nat) by (apply nth_error_Some; congruence).
  destruct (N.of_nat (length l) <=? i) eqn:E; [lia|exact H].
Qed.

(* an index loop over [a, a+n) against the corresponding stretch of the list *)
Lemma mapM_range {A B} (f : N -> res B) (h : A -> option B) (l : list A) : forall n a,
  (forall i x, a <= i -> nth_N l i = Some x -> exists y, f i = Ok y /\ h x = Some y) ->
  a + N.of_nat n <= len_N l ->
  exists L, mapM f (N_range a n) = Ok L /\
            CstNsView.opt_all (map h (firstn n (skipn (N.to_nat a) l))) = Some L.
Proof.
  induction n as [|n IH]; intros a Hf Hb.
  - exists []. split; reflexivity.
  - destruct (skipn (N.to_nat a) l) as [|x r] eqn:Es.
    { exfalso. assert (length (skipn (N.to_nat a) l) = O) by (rewrite Es; reflexivity). rewrite skipn_length in H. unfold len_N in Hb. lia. }
    destruct (skipn_cons_nth l _ _ _ Es) as [Hx Hr].
    destruct (Hf a x ltac:(lia) (nth_N_of_error _ _ _ Hx)) as (y & Ey & Hy).
    destruct (IH (a + 1)) as (L & E1 & E2).
    { intros i x' Hi. apply Hf. lia. } { lia. }
    exists (y :: L). cbn [N_range mapM]. rewrite Ey. cbn [bind]. rewrite E1. cbn [bind]. split; [reflexivity|].
    cbn [firstn map CstNsView.opt_all]. rewrite Hy.
    replace (N.to_nat (a + 1)) with (S (N.to_nat a)) in E2 by lia. rewrite Hr in E2. rewrite E2. reflexivity.
Qed.

Lemma mapM_range0 {A B} (f : N -> res B) (h : A -> B) (l : list A) : forall n a,
  (forall i x, a <= i -> nth_N l i = Some x -> f i = Ok (h x)) ->
  a + N.of_nat n <= len_N l ->
  mapM f (N_range a n) = Ok (map h (firstn n (skipn (N.to_nat a) l))).
Proof.
  induction n as [|n IH]; intros a Hf Hb; [reflexivity|].
  destruct (skipn (N.to_nat a) l) as [|x r] eqn:Es.
  { exfalso. assert (length (skipn (N.to_nat a) l) = O) by (rewrite Es; reflexivity). rewrite skipn_length in H. unfold len_N in Hb. lia. }
  destruct (skipn_cons_nth l _ _ _ Es) as [Hx Hr].
  cbn [N_range mapM]. rewrite (Hf a x ltac:(lia) (nth_N_of_error _ _ _ Hx)). cbn [bind].
  rewrite (IH (a + 1)); [|intros i x' Hi; apply Hf; lia|lia]. cbn [bind firstn map].
  replace (N.to_nat (a + 1)) with (S (N.to_nat a)) by lia. rewrite Hr. reflexivity.
Qed.

(* ------------------------------------------------------------------------------------------ *)
(* the number of children: rows whose parent is p                                             *)
(* ------------------------------------------------------------------------------------------ *)
Definition row_par (r : row) : option N := snd (fst (fst r)).
Definition par_is (p : N) (o : option N) : bool := match o with Some q => q =? p | None => false end.
Definition cntp (p : N) (l : list row) : nat := length (filter (fun r => par_is p (row_par r)) l).
Fixpoint kidsum (p : N) (l : list row) : nat :=
  match l with
  | [] => O
  | r :: l' => ((if (row_id r =? p)%N then length (tchildren (row_tree r)) else O) + kidsum p l')%nat
  end.

Lemma cntp_app p a c : cntp p (a ++ c) = (cntp p a + cntp p c)%nat.
Proof. unfold cntp. rewrite filter_app, app_length. reflexivity. Qed.
Lemma kidsum_app p a c : kidsum p (a ++ c) = (kidsum p a + kidsum p c)%nat.
Proof. induction a as [|r a IH]; [reflexivity|]. cbn [app kidsum]. rewrite IH. lia. Qed.

Lemma rows_count : forall t par prev i p,
  cntp p (rows par prev i t) = ((if par_is p par then 1 else 0) + kidsum p (rows par prev i t))%nat.
Proof.
  induction t as [k cs IH] using tree_ind'; intros par prev i p. rewrite rows_T.
  change ((i, par, prev, T k cs) :: rows_children (Some i) None (i + 1) cs)
    with ([(i, par, prev, T k cs)] ++ rows_children (Some i) None (i + 1) cs).
  rewrite cntp_app, kidsum_app.
  assert (G : forall pv cid, cntp p (rows_children (Some i) pv cid cs) =
              ((if (i =? p)%N then length cs else 0) + kidsum p (rows_children (Some i) pv cid cs))%nat).
  { clear - IH. induction IH as [|c r Hc _ IHr]; intros pv cid; cbn [rows_children length].
    - destruct (i =? p); reflexivity.
    - rewrite cntp_app, kidsum_app, Hc, IHr. cbn [par_is]. destruct (i =? p); lia. }
  rewrite G. unfold cntp at 1. cbn [kidsum filter row_par row_id row_tree fst snd tchildren].
  destruct (par_is p par); destruct (i =? p); cbn [length]; lia.
Qed.

Lemma kidsum_unique p (l : list row) r : NoDup (map row_id l) -> In r l -> row_id r = p ->
  kidsum p l = length (tchildren (row_tree r)).
Proof.
  induction l as [|x l IH]; intros Hnd Hin Hp; [contradiction|]. cbn [map] in Hnd. inversion Hnd as [|? ? Hx Hl]; subst.
  cbn [kidsum]. destruct Hin as [->|Hin].
  - rewrite N.eqb_refl. assert (Z : kidsum (row_id r) l = O).
    { clear - Hx. induction l as [|y l IHl]; [reflexivity|]. cbn [kidsum].
      destruct (row_id y =? row_id r) eqn:E; [exfalso; apply Hx; left; lia|]. apply IHl. intros H. apply Hx. right. exact H. }
    rewrite Z. lia.
  - destruct (row_id x =? row_id r) eqn:E.
    + exfalso. apply Hx. apply N.eqb_eq in E. rewrite E. apply in_map. exact Hin.
    + rewrite (IH Hl Hin eq_refl). reflexivity.
Qed.

Lemma table'_children_count t id par pv s : In (id, par, pv, s) (table' t) -> cntp id (table' t) = length (tchildren s).
Proof.
  intros Hin. unfold table'. rewrite rows_count. cbn [par_is]. cbn [Nat.add].
  apply (kidsum_unique id _ (id, par, pv, s)); [|exact Hin|reflexivity].
  rewrite rows_ids. apply N_range_NoDup.
Qed.

Lemma children_count_table d t : Arena' d t -> forall id, CstNsView.children_count d id = cntp id (table' t).
Proof.
  intros [HA _] id. unfold CstNsView.children_count, cntp.
  assert (E : map nd_parent (d_nodes d) = map row_par (table' t)).
  { assert (E1 : map l_parent (links_of_nodes (d_nodes d)) = map nd_parent (d_nodes d)).
    { unfold links_of_nodes. rewrite map_map. reflexivity. }
    rewrite <- E1, HA. unfold encode, table'. rewrite enc_rows, map_map. apply map_ext. intros [[[i p] pv] s]. reflexivity. }
  assert (G : forall (A : Type) (g : A -> option N) (l : list A), length (filter (fun x => par_is id (g x)) l) = length (filter (par_is id) (map g l))).
  { intros A g l. induction l as [|x l IH]; [reflexivity|]. cbn [filter map]. destruct (par_is id (g x)); cbn [length]; rewrite IH; reflexivity. }
  change (fun nd : node_data => match nd_parent nd with Some p => p =? id | None => false end) with (fun nd => par_is id (nd_parent nd)).
  rewrite (G _ nd_parent), E, <- (G _ row_par). reflexivity.
Qed.

(* ------------------------------------------------------------------------------------------ *)
(* one node                                                                                   *)
(* ------------------------------------------------------------------------------------------ *)
Section Doc.
Variable text : bytes.
Variable d : document.
Variable t : tree.
Hypothesis HA : Arena' d t.
Hypothesis Hd : DocOk d.

Lemma ns_uri_agree o : NsIdxOk d o ->
  exists u, ns_uri_at text d o = Ok u /\ CstNsView.ns_uri_opt text d o = Some u.
Proof.
  intros H. unfold ns_uri_at, CstNsView.ns_uri_opt. destruct o as [i|]; [|eexists; split; reflexivity].
  destruct (nth_N_some _ _ H) as [v ->]. eexists; split; reflexivity.
Qed.

Lemma attrs_agree a e : a <= e -> e <= len_N (d_attrs d) ->
  exists L, mapM (api_attr text d) (N_range a (N.to_nat (e - a))) = Ok L /\ CstNsView.attrs_of text d (a, e) = Some L.
Proof.
  intros H1 H2. unfold CstNsView.attrs_of. cbn [fst snd].
  apply (mapM_range (api_attr text d)
           (fun x => match CstNsView.ns_uri_opt text d (ad_ns_idx x) with
                     | Some u => Some (u, slice_bytes text (ad_local x), storage_bytes text (ad_value x))
                     | None => None end)); [|lia].
  intros i x _ Hx. pose proof (Forall_nth_N _ _ _ _ (dok_attrs d Hd) Hx) as [Hns _].
  destruct (ns_uri_agree _ Hns) as (u & E1 & E2). unfold api_attr, attr_at, attr_ename. rewrite Hx. cbn [bind]. rewrite E1. cbn [bind fst snd].
  rewrite E2. eexists. split; reflexivity.
Qed.

Lemma attrs0_agree a e : a <= e -> e <= len_N (d_attrs d) ->
  mapM (api_attr0 text d) (N_range a (N.to_nat (e - a))) = Ok (CstMain.attrs_of text d (a, e)).
Proof.
  intros H1 H2. unfold CstMain.attrs_of. cbn [fst snd].
  apply (mapM_range0 (api_attr0 text d) (fun x => (slice_bytes text (ad_local x), storage_bytes text (ad_value x)))); [|lia].
  intros i x _ Hx. pose proof (Forall_nth_N _ _ _ _ (dok_attrs d Hd) Hx) as [Hns _].
  destruct (ns_uri_agree _ Hns) as (u & E1 & _). unfold api_attr0, attr_at, attr_ename. rewrite Hx. cbn [bind]. rewrite E1. reflexivity.
Qed.

Lemma scope_agree : forall ps, Forall (fun p => p < len_N (d_ns_tree d)) ps ->
  exists L, mapM (api_binding text d) ps = Ok L /\ ScopeProofs.bindings_of_list text d ps = Some L.
Proof.
  induction 1 as [|p ps Hp _ IH]; [exists []; split; reflexivity|]. destruct IH as (L & E1 & E2).
  destruct (nth_N_some _ _ Hp) as [vi Evi]. pose proof (Forall_nth_N _ _ _ _ (dok_tree d Hd) Evi) as Hvi.
  destruct (nth_N_some _ _ Hvi) as [v Ev].
  exists ((ns_name_bytes text v, storage_bytes text (ns_uri v)) :: L).
  assert (Eb : api_binding text d p = Ok (ns_name_bytes text v, storage_bytes text (ns_uri v))).
  { unfold api_binding, namespace_at. rewrite Evi, Ev. reflexivity. }
  assert (Ec : ScopeProofs.binding_at text d p = Some (ns_name_bytes text v, storage_bytes text (ns_uri v))).
  { unfold ScopeProofs.binding_at. rewrite Evi, Ev. reflexivity. }
  cbn [mapM ScopeProofs.bindings_of_list]. rewrite Eb, Ec. cbn [bind]. rewrite E1, E2. split; reflexivity.
Qed.

Lemma range_lt a e bound : e <= bound -> Forall (fun p => p < bound) (N_range a (N.to_nat (e - a))).
Proof. intros H. apply Forall_forall. intros p Hp. apply N_range_In in Hp. lia. Qed.

Lemma node_agree id nd : get_node d id = Some nd ->
  exists ov, api_node text d id = Ok ov /\ CstNsView.view_node text d id nd = Some ov.
Proof.
  intros Hg. pose proof (ApiTotal.node_kind_ok d Hd id nd Hg) as Hk.
  assert (Hid : id < len_N (d_nodes d)) by (apply (nth_N_inv _ _ _ Hg)).
  unfold api_node, node_type, node_data_of, CstNsView.view_node. rewrite Hg. cbn [bind].
  destruct (nd_kind nd) as [|ns loc [a e] [na ne]|tg v|s|s] eqn:Ek.
  - eexists. split; reflexivity.
  - destruct Hk as ([N1 N2] & A1 & A2 & Hns). cbn [fst snd] in *.
    unfold tag_name, node_data_of. rewrite Hg. cbn [bind]. rewrite Ek. cbn [bind].
    destruct (ns_uri_agree _ Hns) as (u & U1 & U2). rewrite U1, U2. cbn [bind fst snd].
    unfold attributes, node_data_of. rewrite Hg. cbn [bind]. rewrite Ek. cbn [bind].
    replace ((e <? a) || (len_N (d_attrs d) <? e)) with false by lia. cbn [bind].
    unfold sit_list, sit_len. cbn [it_lo it_hi].
    destruct (attrs_agree a e A1 A2) as (La & E1 & E2). rewrite E1, E2. cbn [bind].
    unfold namespaces, node_data_of. rewrite Hg. cbn [bind]. rewrite Ek. cbn [bind].
    replace ((ne <? na) || (len_N (d_ns_tree d) <? ne)) with false by lia. cbn [bind it_lo it_hi].
    destruct (scope_agree _ (range_lt na ne _ N2)) as (Ls & S1 & S2). rewrite S1. cbn [bind].
    unfold CstNsView.scope_at, ScopeProofs.bindings_of. cbn [fst snd]. rewrite S2.
    destruct (NavParse.arena'_row d t id HA Hid) as (par & st & Hin).
    rewrite (nav_children' d t id par st HA Hin). cbn [bind]. rewrite child_ids_length.
    destruct (in_table_table'' _ _ _ _ Hin) as [pv Hin'].
    rewrite (children_count_table d t HA), (table'_children_count _ _ _ _ _ Hin').
    eexists. split; reflexivity.
  - unfold api_pi, pi, node_data_of. rewrite Hg. cbn [bind]. rewrite Ek. cbn [bind fst snd]. eexists. split; reflexivity.
  - unfold api_text, text_storage, node_data_of. rewrite Hg. cbn [bind]. rewrite Ek. cbn [bind storage_bytes str_bytes]. eexists. split; reflexivity.
  - unfold api_text, text_storage, node_data_of. rewrite Hg. cbn [bind]. rewrite Ek. cbn [bind]. eexists. split; reflexivity.
Qed.

Lemma node0_agree id nd : get_node d id = Some nd ->
  api_node0 text d id = Ok (CstMain.view_node text d id nd).
Proof.
  intros Hg. pose proof (ApiTotal.node_kind_ok d Hd id nd Hg) as Hk.
  assert (Hid : id < len_N (d_nodes d)) by (apply (nth_N_inv _ _ _ Hg)).
  unfold api_node0, node_type, node_data_of, CstMain.view_node. rewrite Hg. cbn [bind].
  destruct (nd_kind nd) as [|ns loc [a e] [na ne]|tg v|s|s] eqn:Ek.
  - reflexivity.
  - destruct Hk as (_ & A1 & A2 & Hns). cbn [fst snd] in *.
    unfold tag_name, node_data_of. rewrite Hg. cbn [bind]. rewrite Ek. cbn [bind].
    destruct (ns_uri_agree _ Hns) as (u & U1 & _). rewrite U1. cbn [bind fst snd].
    unfold attributes, node_data_of. rewrite Hg. cbn [bind]. rewrite Ek. cbn [bind].
    replace ((e <? a) || (len_N (d_attrs d) <? e)) with false by lia. cbn [bind].
    unfold sit_list, sit_len. cbn [it_lo it_hi]. rewrite (attrs0_agree a e A1 A2). cbn [bind].
    destruct (NavParse.arena'_row d t id HA Hid) as (par & st & Hin).
    rewrite (nav_children' d t id par st HA Hin). cbn [bind]. rewrite child_ids_length.
    destruct (in_table_table'' _ _ _ _ Hin) as [pv Hin'].
    change (CstMain.children_count d id) with (CstNsView.children_count d id).
    rewrite (children_count_table d t HA), (table'_children_count _ _ _ _ _ Hin'). reflexivity.
  - unfold api_pi, pi, node_data_of. rewrite Hg. cbn [bind]. rewrite Ek. cbn [bind fst snd]. reflexivity.
  - unfold api_text, text_storage, node_data_of. rewrite Hg. cbn [bind]. rewrite Ek. cbn [bind storage_bytes str_bytes]. reflexivity.
  - unfold api_text, text_storage, node_data_of. rewrite Hg. cbn [bind]. rewrite Ek. cbn [bind]. reflexivity.
Qed.

(* ---- all nodes, in id order ---- *)
Lemma nodes_agree : forall l a, skipn (N.to_nat a) (d_nodes d) = l ->
  exists vs, api_nodes text d (N_range a (length l)) = Ok vs /\ CstNsView.view_from text d a l = Some vs.
Proof.
  induction l as [|nd r IH]; intros a Hs; [exists []; split; reflexivity|].
  destruct (skipn_cons_nth _ _ _ _ Hs) as [Hx Hr].
  destruct (node_agree a nd (nth_N_of_error _ _ _ Hx)) as (ov & E1 & E2).
  destruct (IH (a + 1)) as (vs & E3 & E4). { replace (N.to_nat (a + 1)) with (S (N.to_nat a)) by lia. exact Hr. }
  cbn [length N_range api_nodes CstNsView.view_from]. rewrite E1, E2. cbn [bind]. rewrite E3, E4. cbn [bind].
  destruct ov; eexists; split; reflexivity.
Qed.

Lemma nodes0_agree : forall l a, skipn (N.to_nat a) (d_nodes d) = l ->
  api_nodes0 text d (N_range a (length l)) = Ok (CstMain.view_from text d a l).
Proof.
  induction l as [|nd r IH]; intros a Hs; [reflexivity|].
  destruct (skipn_cons_nth _ _ _ _ Hs) as [Hx Hr].
  cbn [length N_range api_nodes0 CstMain.view_from]. rewrite (node0_agree a nd (nth_N_of_error _ _ _ Hx)). cbn [bind].
  rewrite (IH (a + 1)) by (replace (N.to_nat (a + 1)) with (S (N.to_nat a)) by lia; exact Hr). cbn [bind].
  destruct (CstMain.view_node text d a nd); reflexivity.
Qed.

Lemma descendants_root : descendants d 0 = Ok {| it_lo := 0; it_hi := len_N (d_nodes d) |}.
Proof.
  rewrite (arena_len _ _ HA). assert (Hin : In (0, None, t) (table t)).
  { unfold table. rewrite table_table'. apply in_map_iff. exists (0, None, None, t). split; [reflexivity|]. unfold table'. apply rows_head. }
  rewrite (nav_descendants' d t 0 None t HA Hin). rewrite N.add_0_l. reflexivity.
Qed.

Lemma sit_all : sit_list {| it_lo := 0; it_hi := len_N (d_nodes d) |} = N_range 0 (length (d_nodes d)).
Proof. unfold sit_list, sit_len, len_N. cbn [it_lo it_hi]. f_equal. lia. Qed.

Lemma view_agree : api_view text d = CstNsView.view text d.
Proof.
  unfold api_view, api_view_res, CstNsView.view. rewrite descendants_root. cbn [bind]. rewrite sit_all.
  destruct (nodes_agree (d_nodes d) 0 eq_refl) as (vs & E1 & E2). rewrite E1, E2. reflexivity.
Qed.

Lemma view0_agree : api_view0 text d = Some (CstMain.view text d).
Proof.
  unfold api_view0, api_view0_res, CstMain.view. rewrite descendants_root. cbn [bind]. rewrite sit_all.
  rewrite (nodes0_agree (d_nodes d) 0 eq_refl). reflexivity.
Qed.

End Doc.

(* ------------------------------------------------------------------------------------------ *)
(* every parsed document                                                                      *)
(* ------------------------------------------------------------------------------------------ *)
Theorem api_view_agrees : forall text opt d,
  valid_utf8_b text = true -> nodes_limit opt <= u32_max -> parse text opt = Ok d ->
  api_view text d = CstNsView.view text d.
Proof.
  intros text opt d Hv Hl Hp. destruct (ApiTotal.parse_facts text opt d Hv Hl Hp) as (t & HA & _ & Hd).
  apply (view_agree text d t HA Hd).
Qed.
Print Assumptions api_view_agrees.

Theorem api_view0_agrees : forall text opt d,
  valid_utf8_b text = true -> nodes_limit opt <= u32_max -> parse text opt = Ok d ->
  api_view0 text d = Some (CstMain.view text d).
Proof.
  intros text opt d Hv Hl Hp. destruct (ApiTotal.parse_facts text opt d Hv Hl Hp) as (t & HA & _ & Hd).
  apply (view0_agree text d t HA Hd).
Qed.
Print Assumptions api_view0_agrees.

(* the API never fails on a parsed document: the view is defined *)
Theorem api_view_defined : forall text opt d,
  valid_utf8_b text = true -> nodes_limit opt <= u32_max -> parse text opt = Ok d ->
  exists vs, api_view_res text d = Ok vs /\ CstNsView.view text d = Some vs.
Proof.
  intros text opt d Hv Hl Hp. destruct (ApiTotal.parse_facts text opt d Hv Hl Hp) as (t & HA & _ & Hd).
  unfold api_view_res, CstNsView.view. rewrite (descendants_root d t HA). cbn [bind]. rewrite sit_all.
  apply (nodes_agree text d t HA Hd (d_nodes d) 0 eq_refl).
Qed.
Print Assumptions api_view_defined.
