(* Proofs/CstSound6.v -- C08, soundness half, THE CAPSTONE: stage S6 of Spec/CstFullS6.v (the prolog of S5
   with general entities whose values are character data OR MARKUP, inlined on the abstract syntax and
   then resolved): the fragment, the statements and sanity examples.

   [in_fragment_6 text] is [in_fragment_p text] (Proofs/CstSoundP.v: P0-P7) with P8 replaced by
     P8' [ge_values_ok6 text] (scan): the literal of every general entity declaration is a
         well-formed S6 value:
           - no '%' and every '&' starts a character reference to a Char other than TAB LF CR '&' '<'
             or a reference &n; with an ASCII NCName n -- as P8, and inside the tags, comments and
             PIs of a markup value too (an over-approximation);
           - a literal without '<' is character data: no "]]>" (P8);
           - a literal WITH '<' is markup: the crate's own content tokenizer
             (Model.Tokenizer.parse_content on the range of the literal), run with a callback that
             only matches the names of start and end tags ([bal_ev]), accepts the whole literal with
             every element closed inside it.  This is the documented leniency "never-referenced
             entity values" again: the crate tokenizes the value of an entity only when it is
             USED, so <!ENTITY e '<b>'>, <!ENTITY e '</r>'>, <!ENTITY e '<a b=1/>'> are accepted as
             long as e is not referenced; what a USED markup value must satisfy beyond the
             tokenizer (elements balanced inside the value: the entity floor; no '<' -- not even
             &lt; -- into an attribute value: D15; namespaces at the place of the reference) is
             checked by the crate at the reference and is part of S6.wf_doc, not of the fragment.
   [markup_ok] is the ONE condition of the fragment that mentions the model: it runs the model's
   tokenizer (not its tree builder) on the literal.  This is sound as a hypothesis because the
   tokenizer does not depend on its callback (Proofs/CstSound6Tok.v: two runs on the same range that
   both end Ok read the same tokens), so the condition says exactly "the literal tokenizes, and its
   tags are balanced", which is what the crate would check of the value if the entity were used.
   [in_fragment_6a] (first milestone) adds: a literal that contains '<' contains no '&'.
   The examples are in Proofs/CstSound6Sanity.v. *)
From Coq Require Import String.
From Coq Require Import List NArith Bool Lia.
Import ListNotations.
From RX Require Import Generated.
From RX.Model Require Import Base CharClass Stream Tokenizer Doc Builder Parse.
From RX.Spec Require Cst Chars CstU CstNs CstText CstEnt Scope.
From RX.Spec Require Import CstFull CstFullS5 CstFullS6.
From RX.Proofs Require Import CstSound CstSoundT CstSoundN CstSoundP.
Open Scope N_scope.

(* ---- the name-matching callback ---- *)
(* the name of the start tag being read, and the names of the open elements, innermost first *)
Definition bst : Type := (option (bytes * bytes) * list (bytes * bytes))%type.
Definition bal_ev (text : bytes) (tk : Tokenizer.token) (s : bst) : res bst :=
  match tk with
  | TElementStart p l _ => Ok (Some (slice_bytes text p, slice_bytes text l), snd s)
  | TElementEnd EOpen _ => match fst s with Some n => Ok (None, n :: snd s) | None => Err UnexpectedEndOfStream end
  | TElementEnd EEmpty _ => match fst s with Some n => Ok (None, snd s) | None => Err UnexpectedEndOfStream end
  | TElementEnd (EClose p l) _ =>
    match snd s with
    | n :: r => if bytes_eqb (fst n) (slice_bytes text p) && bytes_eqb (snd n) (slice_bytes text l)
                then Ok (None, r) else Err UnexpectedEndOfStream
    | [] => Err UnexpectedEndOfStream
    end
  | _ => Ok s
  end.

(* the range [vs, ve) of the input is content, with every element closed inside it *)
Definition markup_ok (text : bytes) (vs ve : N) : bool :=
  match stream_from_substr text vs ve with
  | Ok s =>
    match parse_content text bst (bal_ev text) s (None, []) with
    | Ok (s', (None, [])) => at_end s'
    | _ => false
    end
  | _ => false
  end.

(* ---- P8' ---- *)
Fixpoint scan_pos (P : N -> bytes -> bool) (p : N) (l : bytes) : bool :=
  match l with [] => P p [] | x :: r => P p l && scan_pos P (p + 1) r end.

(* [v] is the literal, at [vs, vs + blen v) *)
Definition ge_value_ok6 (text : bytes) (vs : N) (v : bytes) : bool :=
  negb (mem_b 37 v) && all_suffixes amp_ok v &&
  (if mem_b 60 v then markup_ok text vs (vs + blen v) else negb (contains_b [93; 93; 62] v)).
(* [l] starts at position q0 *)
Definition lit_ok6 (text : bytes) (q0 : N) (l : bytes) : bool :=
  match l with
  | q :: v => if (q =? 39) || (q =? 34) then ge_value_ok6 text (q0 + 1) (take_until q v) else true
  | [] => true
  end.
Definition ge_decl_ok6 (text : bytes) (p : N) (s : bytes) : bool :=
  if prefix_b (b "<!ENTITY") s then
    let r := skip_ws (skipn 8 s) in
    if is_pe r then true
    else let l := skip_ws (drop_name r) in lit_ok6 text (p + blen s - blen l) l
  else true.
Definition ge_values_ok6 (text : bytes) : bool := scan_pos (ge_decl_ok6 text) 0 text.

Definition in_fragment_6 (text : bytes) : bool :=
  valid_utf8_b text && negb (mem_b 13 text) && charrefs_scalar text &&
  no_colon_start text && pi_targets_nc text &&
  xml_pi_ok text && decl_names_ok text && names_nc text && ndata_sp text && ge_values_ok6 text.

Definition parse_sound_fragment_6_stmt : Prop :=
  forall text opt d, in_fragment_6 text = true -> allow_dtd opt = true -> parse text opt = Ok d ->
  exists c : S6.doc, S6.wf_doc c = true /\ S6.render c = text.

(* ---- first milestone: markup values without references inside them ---- *)
Definition lit_6a (l : bytes) : bool :=
  match l with
  | q :: v => if (q =? 39) || (q =? 34) then let val := take_until q v in if mem_b 60 val then negb (mem_b 38 val) else true else true
  | [] => true
  end.
Definition decl_6a (s : bytes) : bool :=
  if prefix_b (b "<!ENTITY") s then
    let r := skip_ws (skipn 8 s) in if is_pe r then true else lit_6a (skip_ws (drop_name r))
  else true.
Definition in_fragment_6a (text : bytes) : bool := in_fragment_6 text && all_suffixes decl_6a text.

Definition parse_sound_fragment_6a_stmt : Prop :=
  forall text opt d, in_fragment_6a text = true -> allow_dtd opt = true -> parse text opt = Ok d ->
  exists c : S6.doc, S6.wf_doc c = true /\ S6.render c = text.
