(* Proofs/NonVacuity_C05.v -- non-vacuity of the hypotheses of the model-level theorems pinned under
   C05 (TextMachine attribute chunks, AttrListProofs).  (parse_render_sem_text /
   layout_insensitive_text: CstTextSanity.v.) *)
From Coq Require Import Ascii String List NArith Bool Lia.
Import ListNotations.
From RX Require Import Generated.
From RX.Model Require Import Base CharClass Stream Tokenizer Doc Builder Parse Api.
From RX.Spec Require Import Text.
From RX.Proofs Require Import TextMachine AttrListProofs NonVacuity_Doc NonVacuity_C01 NonVacuity_C09 NonVacuity_C04.
Open Scope N_scope.

(* attribute chunks: literal TAB, CR LF, a referenced '<' (top level) *)
Definition acs : list chunk := [CLit 97; CLit 9; CLit 13; CLit 10; CRef (encode_utf8 60); CLit 98].

Example nv_attr_chunks_normalise : exists t, push_attr_chunks false acs tb_new = Some t.
Proof. eexists. vm_compute. reflexivity. Qed.

Example nv_attr_chunks_normalise_applied : norm_attr_chunks acs = [97; 32; 32; 60; 98].
Proof.
  destruct nv_attr_chunks_normalise as [t H].
  rewrite <- (attr_chunks_normalise acs t H). revert H. vm_compute. intros H. inversion H. reflexivity.
Qed.

(* inside an entity value (no '<' may be produced) *)
Example nv_attr_chunks_in_entity :
  exists t, push_attr_chunks true [CLit 97; CLit 13; CLit 10; CRef (encode_utf8 65)] tb_new = Some t.
Proof. eexists. vm_compute. reflexivity. Qed.

(* process_attribute_classifies: the ordinary attribute b='x&e;' and the declaration xmlns:p='u' in state cD *)
Example nv_process_attribute_classifies :
  (exists c', process_attribute text0 (56, 64) 1 1 {| sl_start := 56; sl_end := 56 |} {| sl_start := 56; sl_end := 57 |}
                {| sl_start := 59; sl_end := 63 |} cD = Ok c') /\
  (exists c', process_attribute text0 (33, 44) 7 1 {| sl_start := 33; sl_end := 38 |} {| sl_start := 39; sl_end := 40 |}
                {| sl_start := 42; sl_end := 43 |} cD = Ok c' /\
              bytes_eqb (slice_bytes text0 {| sl_start := 33; sl_end := 38 |}) xmlns_str = true).
Proof. split; eexists; [|split]; vm_compute; reflexivity. Qed.

(* resolve_attributes: two pending attributes, p:b='xv' (prefixed) and a='1', in the scope (1,2) of r *)
Definition cA : context :=
  set_cur_attrs cD
    [ {| ta_prefix := {| sl_start := 52; sl_end := 53 |}; ta_local := {| sl_start := 56; sl_end := 57 |};
         ta_value := Owned (b "xv"); ta_range := (56, 64); ta_qname_len := 3; ta_eq_len := 1 |};
      {| ta_prefix := {| sl_start := 45; sl_end := 45 |}; ta_local := {| sl_start := 45; sl_end := 46 |};
         ta_value := Borrowed (SIn {| sl_start := 48; sl_end := 49 |}); ta_range := (45, 50);
         ta_qname_len := 1; ta_eq_len := 1 |} ].

Example nv_resolve_attributes :
  exists r c' new, resolve_attributes text0 (1, 2) cA = Ok (r, c') /\
    d_attrs (c_doc c') = d_attrs (c_doc cA) ++ new /\ length new = 2%nat /\
    exists a a' n n', nth_error new 0 = Some a /\ nth_error new 1 = Some a' /\ 0%nat <> 1%nat /\
      attr_expanded_name text0 (c_doc c') (ad_ns_idx a) (ad_local a) = Ok n /\
      attr_expanded_name text0 (c_doc c') (ad_ns_idx a') (ad_local a') = Ok n'.
Proof.
  do 3 eexists. split; [vm_compute; reflexivity|]. split; [vm_compute; reflexivity|]. split; [reflexivity|].
  do 4 eexists. split; [reflexivity|]. split; [reflexivity|]. split; [discriminate|].
  split; vm_compute; reflexivity.
Qed.

Example nv_resolve_attributes_in_order_applied :
  exists r c', resolve_attributes text0 (1, 2) cA = Ok (r, c') /\ c_cur_attrs c' = [] /\ r = (2, 4).
Proof.
  destruct nv_resolve_attributes as (r & c' & new & H & _).
  exists r, c'. split; [exact H|].
  destruct (resolve_attributes_in_order text0 (1, 2) cA r c' H) as (E1 & _ & E3 & _).
  split; [exact E1|]. rewrite E3. revert H. vm_compute. intros H. inversion H. reflexivity.
Qed.

(* normalize_attribute_chunks_top: the value "x&amp;" (bytes 29..35) of the document without DOCTYPE *)
Example nv_normalize_attribute_chunks_top :
  existsb (fun x => (x =? 38) || (x =? 9) || (x =? 10) || (x =? 13)) (slice_bytes text_nodtd {| sl_start := 29; sl_end := 35 |}) = true /\
  (0 <? ld_depth (c_ld cN)) = false /\
  exists s0, stream_from_substr text_nodtd 29 35 = Ok s0 /\
             areads text_nodtd false s0 [CLit 120; CRef (encode_utf8 38)].
Proof.
  split; [vm_compute; reflexivity|]. split; [reflexivity|].
  eexists. split; [vm_compute; reflexivity|].
  eapply areads_byte; [vm_compute; reflexivity|vm_compute; reflexivity|vm_compute; reflexivity|vm_compute; reflexivity|vm_compute; reflexivity|].
  eapply areads_char; [vm_compute; reflexivity|vm_compute; reflexivity|vm_compute; reflexivity|].
  apply areads_end. vm_compute. reflexivity.
Qed.
