(* Proofs/NonVacuity_C04.v -- non-vacuity of the hypotheses of the model-level theorems pinned under
   C04 (TextMachine, TextMerge).  (parse_render_sem_text / piece_choice_insensitive: CstTextSanity.v
   ex_amp1..ex_cr_cdata and ex_amp_same.) *)
From Coq Require Import Ascii String List NArith Bool Lia.
Import ListNotations.
From RX Require Import Generated.
From RX.Model Require Import Base CharClass Stream Tokenizer Doc Builder Parse Api.
From RX.Spec Require Import Text.
From RX.Proofs Require Import TextMachine TextMerge NonVacuity_Doc NonVacuity_C01 NonVacuity_C09.
Open Scope N_scope.

(* text_chunks_decode_partial: literal bytes incl. CR LF, and references to 'A' and U+00E9 *)
Definition cs0 : list chunk := [CLit 97; CLit 13; CLit 10; CRef (encode_utf8 65); CLit 13; CRef (encode_utf8 233)].

Example nv_text_chunks_decode_partial : Forall (fun c => c <> CRef []) cs0.
Proof. repeat (constructor; [discriminate|]). constructor. Qed.

Example nv_text_chunks_decode_partial_applied : run_text_chunks false cs0 = [97; 10; 65; 10; 195; 169].
Proof. rewrite (text_chunks_decode_partial cs0 nv_text_chunks_decode_partial). vm_compute. reflexivity. Qed.

(* fragments_merge / fragments_merge_ranges: three fragments of one text run appended in state cD *)
Definition fr0 : cow := CowBorrowed {| sl_start := 73; sl_end := 74 |}.
Definition frs : list cow := [CowOwned (b "v"); CowBorrowed {| sl_start := 65; sl_end := 66 |}].

Example nv_fragments_merge :
  c_after_text cD = [] /\
  exists c0 c1 c2, append_text fr0 (65, 69) cD = Ok c0 /\ append_texts frs (65, 69) c0 = Ok c1 /\
                   reset_after_text text0 c1 = Ok c2.
Proof. split; [reflexivity|]. do 3 eexists. split; [vm_compute; reflexivity|]. split; vm_compute; reflexivity. Qed.

Example nv_fragments_merge_ranges :
  exists c0 c1 c2, append_text fr0 (65, 69) cD = Ok c0 /\
                   append_texts_r [(CowOwned (b "v"), (25, 26)); (CowBorrowed {| sl_start := 65; sl_end := 66 |}, (65, 66))] c0 = Ok c1 /\
                   reset_after_text text0 c1 = Ok c2.
Proof. do 3 eexists. split; [vm_compute; reflexivity|]. split; vm_compute; reflexivity. Qed.

Example nv_fragments_merge_applied :
  exists c2 nd st, nth_N (d_nodes (c_doc c2)) 6 = Some nd /\ nd_kind nd = KText st /\
                   storage_bytes text0 st = b "kvt".
Proof.
  destruct nv_fragments_merge as (H0 & c0 & c1 & c2 & H1 & H2 & H3).
  destruct (fragments_merge text0 fr0 frs (65, 69) cD c0 c1 c2 H0 H1 H2 H3) as (_ & _ & _ & nd & st & E1 & E2 & E3 & _).
  exists c2, nd, st. split; [exact E1|]. split; [exact E2|]. rewrite E3. vm_compute. reflexivity.
Qed.

(* append_text_continuation / reset_after_text_safe: the state with an open text run *)
Example nv_append_text_continuation :
  exists c0, append_text fr0 (65, 69) cD = Ok c0 /\ c_after_text c0 <> [] /\
    (c_after_text c0 <> [] -> exists nd st, hd_error (rev (d_nodes (c_doc c0))) = Some nd /\ nd_kind nd = KText st).
Proof.
  eexists. split; [vm_compute; reflexivity|]. split; [vm_compute; discriminate|].
  intros _. do 2 eexists. split; vm_compute; reflexivity.
Qed.

(* process_text_with_decode_top: the text token "t&#65;" (bytes 37..43) of the document without
   DOCTYPE; [reads] holds with one literal and one reference chunk *)
Definition dN : document :=
  Eval vm_compute in match parse text_nodtd opt0 with Ok d => d | _ => d0 end.
Definition cN : context :=
  {| c_opt := opt0; c_ns_start_idx := 2; c_cur_attrs := []; c_awaiting := [];
     c_parent_prefixes := [empty_slice; empty_slice; empty_slice]; c_entities := []; c_after_text := [];
     c_parent_id := 2; c_tag_name := tag_name_null; c_entity_floor := 0; c_ld := ld_init;
     c_doc := {| d_nodes := firstn 3 (d_nodes dN); d_attrs := d_attrs dN; d_ns_values := d_ns_values dN;
                 d_ns_tree := d_ns_tree dN |} |}.

Example nv_process_text_with_decode_top :
  existsb (fun x => (x =? 38) || (x =? 13)) (slice_bytes text_nodtd {| sl_start := 37; sl_end := 43 |}) = true /\
  (0 <? ld_depth (c_ld cN)) = false /\
  exists s0, stream_from_substr text_nodtd (fst (37, 43)) (snd (37, 43)) = Ok s0 /\
             reads text_nodtd (c_entities cN) s0 [CLit 116; CRef (encode_utf8 65)].
Proof.
  split; [vm_compute; reflexivity|]. split; [reflexivity|].
  eexists. split; [vm_compute; reflexivity|].
  eapply reads_byte; [vm_compute; reflexivity|vm_compute; reflexivity|].
  eapply reads_char; [vm_compute; reflexivity|vm_compute; reflexivity|].
  apply reads_end. vm_compute. reflexivity.
Qed.
