(* Proofs/CstSoundNDoc.v -- C08 soundness WITH NAMESPACES (stage S2 of Spec/CstFull.v): prolog, root,
   epilog, final checks; the main theorem [parse_sound_fragment_n]. *)
From Coq Require Import String.
From Coq Require Import List Arith NArith Bool Lia ZifyBool ZifyN ZifyNat.
Import ListNotations.
From RX Require Import Generated.
From RX.Model Require Import Base CharClass Stream Tokenizer Doc Builder Parse.
From RX.Spec Require Cst Chars CstU CstNs Scope.
From RX.Spec Require CstText.
From RX.Spec Require Import CstFull.
From RX.Proofs Require Import Tactics CstLex CstULex CstTextLex.
From RX.Proofs Require CstBuild RejectProofs CstFullTree CstSoundDoc CstSoundTDoc.
From RX.Proofs Require Import CstSound CstSoundT CstSoundTLex CstSoundULex CstSoundBuild CstSoundTBuild CstSoundTText CstSoundTMain.
From RX.Proofs Require Import CstSoundN CstSoundNLex CstSoundNBuild CstSoundNText CstSoundNMain.
Open Scope N_scope.

Definition pairs_n := list (bytes * item2).
Definition r_pairs_n (l : pairs_n) : bytes := flat_map (fun x => fst x ++ r_item (snd x)) l.
Definition wf_pairs_n (l : pairs_n) : bool :=
  forallb (fun x => Cst.wf_ws (fst x) && is_misc pieces (snd x) && wf_item M2 (snd x)) l.

Fixpoint shift_n (l : pairs_n) (w : bytes) : bytes * list (item2 * bytes) :=
  match l with
  | [] => (w, [])
  | (w1, i1) :: r => let '(w0, b0) := shift_n r w in (w1, (i1, w0) :: b0)
  end.

Lemma shift_render_n : forall l w,
  fst (shift_n l w) ++ flat_map (fun p => r_item (fst p) ++ snd p) (snd (shift_n l w)) = r_pairs_n l ++ w.
Proof.
  induction l as [|[w1 i1] r IH]; intros w.
  - cbn. rewrite app_nil_r. reflexivity.
  - cbn [shift_n]. specialize (IH w). destruct (shift_n r w) as [w0 b0]. cbn [fst snd] in *.
    unfold r_pairs_n in *. cbn [flat_map fst snd]. rewrite <- !app_assoc. rewrite <- IH. reflexivity.
Qed.

Lemma shift_wf_n : forall l w, wf_pairs_n l = true -> Cst.wf_ws w = true ->
  Cst.wf_ws (fst (shift_n l w)) = true /\
  forallb (fun p => is_misc pieces (fst p) && wf_item M2 (fst p) && Cst.wf_ws (snd p)) (snd (shift_n l w)) = true.
Proof.
  induction l as [|[w1 i1] r IH]; intros w Hl Hw; cbn [shift_n fst snd forallb]; [auto|].
  cbn [wf_pairs_n forallb fst snd] in Hl. apply andb_true_iff in Hl. destruct Hl as [H1 H2].
  apply andb_true_iff in H1. destruct H1 as [H1 H3]. apply andb_true_iff in H1. destruct H1 as [H0 H1].
  destruct (IH w H2 Hw) as [A B]. destruct (shift_n r w) as [w0 b0]. cbn [fst snd forallb] in *.
  split; [exact H0|]. rewrite H1, H3, A, B. reflexivity.
Qed.

Lemma items_decls_flat l : flat_map CstNs.item_decls l = NT.items_decls l.
Proof. induction l as [|c r IH]; [reflexivity|]. cbn [flat_map NT.items_decls]. rewrite IH. reflexivity. Qed.
Lemma ns_costs_sum inh l : list_sum (map (CstNs.ns_cost inh) l) = NT.ns_costs inh l.
Proof. induction l as [|c r IH]; [reflexivity|]. cbn [map NT.ns_costs]. rewrite <- IH. reflexivity. Qed.

Lemma lv_wf_one opn (cs : list item2) w : lv_wf_n opn [(cs, w)] -> exists f, opn = [f] /\ level_ok f (cs, w).
Proof. intros H. inversion H as [|f cw o l Hl Hr]; subst. inversion Hr; subst. eauto. Qed.

Section DocN.
Variable text : bytes.
Hypothesis HF : FragN text.
Notation T_ := (Parse.token text).
Notation st := (CstLex.st text).
Notation W := (CstLex.W text).
Notation WV := (CstULex.WV text).
Notation SimN := (CstSoundNBuild.SimN text).
Notation Res := (CstSoundNBuild.Res text).

Definition nonelem (K : list row) : Prop := Forall (fun r => is_element_kind (snd r) = false) K.

(* ---- Misc* ---- *)
Lemma misc_sound_n (P : context -> Prop) (HP : forall a b, nseq a b -> P a -> P b) : forall fuel p l c s' c' stk,
  WV p l -> SimN c stk -> P c ->
  parse_misc_loop text context T_ fuel (st p l) c = Ok (s', c') ->
  exists items wend l' p' K,
    l = r_pairs_n items ++ wend ++ l' /\ s' = st p' l' /\ WV p' l' /\
    wf_pairs_n items = true /\ Cst.wf_ws wend = true /\
    SimN c' stk /\ erows c' = erows c ++ K /\ nonelem K /\ P c'.
Proof.
  induction fuel as [|fu IH]; intros p l c s' c' stk HWV HS HR H; cbn [parse_misc_loop] in H; [noerr|].
  pose proof (WV_W _ _ _ HWV) as HW.
  rewrite (at_end_st text) in H by exact HW.
  destruct l as [|x l0].
  { inversion H; subst. exists [], [], [], p, []. rewrite app_nil_r.
    split; [reflexivity|]. split; [reflexivity|]. split; [exact HWV|]. split; [reflexivity|].
    split; [reflexivity|]. split; [exact HS|]. split; [first [rewrite app_nil_r; reflexivity|reflexivity]|]. split; [constructor|exact HR]. }
  cbv zeta in H.
  destruct (skip_spaces_inv_n text HF p (x :: l0) HWV) as (w & l1 & El & Hw & Hst & E1 & HW1).
  rewrite E1 in H. rewrite !(starts_with_st text) in H by apply HW1.
  destruct (prefix_b (b "<!--") l1) eqn:Ec.
  { change (b "<!--") with [60; 33; 45; 45] in Ec. destruct (prefix_b_split _ _ Ec) as (l2 & ->).
    ib H q Hq. destruct q as [s1 c1].
    destruct (inv_comment_n text HF context T_ _ _ _ _ _ HW1 Hq) as (bs & l3 & -> & Hwf & -> & HW2 & Hev).
    destruct (step_comment_n text _ _ _ _ _ HS Hev) as (HS1 & R1).
    pose proof (HP _ _ (leaf_nseq text _ _ _ _ Hev) HR) as HR1.
    destruct (IH _ _ _ _ _ _ HW2 HS1 HR1 H) as (items & wend & l' & p' & K & -> & -> & HW3 & Hi & Hwe & HS2 & R2 & HK & HR2).
    eexists ((w, @IComment pieces bs) :: items), wend, l', p', (_ :: K).
    split. { rewrite El. cbn [r_pairs_n flat_map fst snd r_item Cst.r_item]. rewrite <- !app_assoc. reflexivity. }
    split; [reflexivity|]. split; [exact HW3|]. split.
    { cbn [wf_pairs_n forallb fst snd is_misc wf_item]. rewrite Hw, Hwf. exact Hi. }
    split; [exact Hwe|]. split; [exact HS2|].
    split; [rewrite R2, R1, <- app_assoc; reflexivity|]. split; [constructor; [reflexivity|exact HK]|exact HR2]. }
  destruct (prefix_b (b "<?") l1) eqn:Ep.
  { change (b "<?") with [60; 63] in Ep. destruct (prefix_b_split _ _ Ep) as (l2 & ->).
    ib H q Hq. destruct q as [s1 c1].
    destruct (inv_pi_n text HF context T_ _ _ _ _ _ HW1 Hq) as (tg & sep & v & l3 & -> & Hwf & -> & HW2 & Hev).
    unfold pi_tok in Hev. cbv zeta in Hev.
    destruct (step_pi_n text _ _ _ _ _ _ HS Hev) as (HS1 & R1).
    pose proof (HP _ _ (leaf_nseq text _ _ _ _ Hev) HR) as HR1.
    destruct (IH _ _ _ _ _ _ HW2 HS1 HR1 H) as (items & wend & l' & p' & K & -> & -> & HW3 & Hi & Hwe & HS2 & R2 & HK & HR2).
    eexists ((w, @IPI pieces tg sep v) :: items), wend, l', p', (_ :: K).
    split. { rewrite El. cbn [r_pairs_n flat_map fst snd r_item Cst.r_item]. rewrite <- !app_assoc. reflexivity. }
    split; [reflexivity|]. split; [exact HW3|]. split.
    { cbn [wf_pairs_n forallb fst snd is_misc wf_item]. rewrite Hw, Hwf. exact Hi. }
    split; [exact Hwe|]. split; [exact HS2|].
    split; [rewrite R2, R1, <- app_assoc; reflexivity|]. split; [constructor; [reflexivity|exact HK]|exact HR2]. }
  inversion H; subst. exists [], w, l1, (p + blen w), []. cbn [r_pairs_n flat_map app]. rewrite app_nil_r.
  split; [exact El|]. split; [reflexivity|]. split; [exact HW1|]. split; [reflexivity|].
  split; [exact Hw|]. split; [exact HS|]. split; [first [rewrite app_nil_r; reflexivity|reflexivity]|]. split; [constructor|exact HR].
Qed.

(* ---- the whole document ---- *)
Theorem parse_sound_fragment_n_ctx : forall opt d,
  parse text opt = Ok d ->
  exists c : S2.doc, S2.wf_doc c = true /\ S2.render c = text /\
    S2.distinct_decls_le c (N.to_nat 65535) /\ 1 + N.of_nat (S2.ns_cost c) <= u32_max.
Proof.
  intros opt d H. unfold parse in H. ib H c0 H0. ib H cF HD.
  destruct (init_sim text opt c0 H0) as (S0 & R0 & _). pose proof (init_res text opt c0 H0) as RS0.
  assert (N0 : nonelem (erows c0)) by (rewrite R0; constructor; [reflexivity|constructor]).
  cbv zeta in H. ib H it Hit. ib H he Hhe. destruct he; cbn [negb] in H; [|discriminate].
  destruct (1 <? len_N (c_parent_prefixes cF)) eqn:Epp; [discriminate|]. inversion H; subst d. clear H.
  destruct (CstSoundDoc.any_element_row _ _ _ Hhe) as (ndE & HinE & HkE).
  unfold parse_document in HD. rewrite st_new in HD.
  pose proof (WV_new text (fn_valid _ HF)) as HWV0. pose proof (WV_W _ _ _ HWV0) as HW0.
  rewrite (starts_with_st text) in HD by exact HW0.
  rewrite (fn_bom _ HF) in HD. cbn [bind] in HD.
  assert (Hdecl : starts_with_declaration (st 0 text) = false).
  { unfold starts_with_declaration. rewrite (starts_with_st text) by exact HW0.
    change (b "<?xml") with [60; 63; 120; 109; 108].
    rewrite (W_noprefix text _ _ _ HW0 (fn_decl _ HF) ltac:(discriminate)). reflexivity. }
  rewrite Hdecl in HD. cbn [bind] in HD.
  ib HD q1 Hm1. destruct q1 as [s1 c1]. unfold parse_misc in Hm1.
  destruct (misc_sound_n _ (fun a b => Res_eq text a b [] 0%nat []) _ _ _ _ _ _ _ HWV0 S0 RS0 Hm1)
    as (pre & w1 & l1 & p1 & K1 & Et & -> & HW1 & Hpre & Hw1 & S1 & R1 & NK1 & RS1).
  destruct (skip_spaces_inv_n text HF _ _ HW1) as (w2 & l2 & -> & Hw2 & Hst2 & Es2 & HW2).
  rewrite Es2 in HD. rewrite (starts_with_st text) in HD by apply HW2.
  change (b "<!DOCTYPE") with ([60; 33; 68] ++ [79; 67; 84; 89; 80; 69]) in HD.
  assert (Hnd : prefix_b ([60; 33; 68] ++ [79; 67; 84; 89; 80; 69]) l2 = false).
  { destruct (prefix_b _ l2) eqn:E; [|reflexivity]. apply prefix_b_app_l in E.
    rewrite (W_noprefix text _ _ _ (WV_W _ _ _ HW2) (fn_doctype _ HF) ltac:(discriminate)) in E. discriminate. }
  rewrite Hnd in HD. cbn [bind] in HD.
  destruct (skip_spaces_inv_n text HF _ _ HW2) as (w3 & l3 & -> & Hw3 & Hst3 & Es3 & HW3).
  rewrite Es3 in HD.
  ib HD q2 Hroot. destruct q2 as [s2 c2]. ib HD q3 Hm2. destruct q3 as [s3 c3].
  set (wpre := w1 ++ w2 ++ w3).
  assert (Hwpre : Cst.wf_ws wpre = true) by (unfold wpre; repeat apply CstSoundDoc.wf_ws_app; assumption).
  assert (ROOT : exists (root : item2) l4 p4,
            l3 = r_item root ++ l4 /\ s2 = st p4 l4 /\ WV p4 l4 /\ SimN c2 [] /\
            wf_item M2 root = true /\ ns_oks [] (den M2 root) = true /\
            match root with IElem _ _ _ _ => True | _ => False end /\
            Res c2 (NT.items_decls (den M2 root)) (NT.ns_costs [] (den M2 root)) []).
  { destruct (match curr_byte_opt (st (p1 + blen w2 + blen w3) l3) with Some x => x =? 60 | None => false end) eqn:Ecb.
    2:{ exfalso. inversion Hroot; subst s2 c2. unfold parse_misc in Hm2.
      destruct (misc_sound_n _ (fun a b => Res_eq text a b [] 0%nat []) _ _ _ _ _ _ _ HW3 S1 RS1 Hm2) as (post & w4 & l4 & p4 & K2 & _ & _ & _ & _ & _ & _ & R2 & NK2 & _).
      assert (NE : nonelem (erows cF)).
      { assert (cF = c3) by (destruct (negb (at_end s3)); [noerr|inversion HD; reflexivity]). subst cF.
        rewrite R2, R1. unfold nonelem. repeat (apply Forall_app; split); assumption. }
      unfold nonelem, erows in NE. rewrite Forall_forall in NE.
      specialize (NE (erowof ndE) (in_map erowof _ _ HinE)). cbn [erowof snd] in NE.
      destruct (nd_kind ndE); cbn in NE, HkE; congruence. }
    rewrite (CstSoundTDoc.curr_byte_opt_st_any_t text) in Ecb by apply HW3.
    destruct l3 as [|x l3']; [discriminate|]. assert (x = 60) by lia. subst x.
    ib Hroot q Hq. destruct q as [[open sE] cE].
    change (60 :: l3') with ([60] ++ l3') in *.
    destruct (inv_element_n text HF context T_ _ _ _ _ _ _ HW3 Hq)
      as (pr & loc & attrs & ws_end & l4 & ca & cb & El & Hname & Hrw & Hwe & Hev1 & Hev2 & Hev3 & -> & HW4).
    rewrite El in HW3.
    destruct (tag_sound_n text HF _ _ _ _ _ _ _ _ _ _ _ _ HW3 Hname Hrw Hwe S1 [] 0%nat RS1 Hev1 Hev2 Hev3) as (es & nss & HS1 & Ees & Hok & RSE).
    cbn [top_sc app] in Hok, RSE.
    destruct open.
    - unfold parse_content in Hroot.
      assert (Hl1 : N.of_nat (length [frame_of [] pr loc es nss]) = 0 + 1) by reflexivity.
      destruct (content_sound_n text HF _ 0 _ _ _ _ _ _ _ _ HW4 HS1 RSE Hl1 Hroot) as [HC|HU].
      + destruct HC as (lv & l5 & p5 & opn & rest & E1' & E3' & E4' & E5' & E6' & E7' & E9' & E10' & E11').
        destruct lv as [|[cs w] [|? ?]]; cbn [length] in E3'; try (exfalso; clear - E3'; lia).
        destruct (lv_wf_one _ _ _ E10') as (f0 & Eo & (A1 & A2 & A3 & A4)). rewrite Eo in *. clear Eo.
        cbn [app] in E1'. injection E1' as En Er. rewrite <- En, <- Er in *. cbn [fst snd] in *.
        destruct (wf_elem_intro_n [] pr loc es ws_end (Some (cs, w)) Hok) as (W1 & W2).
        { split; [exact A3|]. split; [exact A2|]. split; [exact A1|exact A4]. }
        exists (IElem (mkq pr loc) es ws_end (Some (cs, w))), l5, p5.
        split. { rewrite El, E4', CstFullTree.r_item_elem, rq_eq, Ees. cbn [negb tag_tail r_levels_n].
                 unfold fq, frame_of. cbn [f_pre f_loc].
                 change (CstNs.r_qname {| CstNs.q_prefix := utf8s pr; CstNs.q_local := utf8s loc |}) with (r_qname (mkq pr loc)).
                 rewrite rq_eq. rewrite <- !app_assoc. cbn [app]. rewrite <- ?app_assoc. rewrite ?app_nil_r. reflexivity. }
        split; [exact E5'|]. split; [exact E6'|]. split; [exact E7'|].
        split; [exact W1|]. split; [exact W2|]. split; [exact I|].
        rewrite decls_elem, (costs_elem []). cbn [lv_decls lv_cost frame_of f_sc top_sc] in E11'.
        rewrite app_nil_r, Nat.add_0_r in E11'. exact E11'.
      + exfalso. destruct HU as (stk2 & pz & lz & -> & HWz & HS2 & Hne). unfold parse_misc in Hm2.
        destruct (misc_sound_n (fun _ => True) (fun _ _ _ _ => I) _ _ _ _ _ _ _ HWz HS2 I Hm2) as (post & w4 & l5 & p5 & K2 & _ & _ & _ & _ & _ & S3 & _ & _).
        assert (cF = c3) by (destruct (negb (at_end s3)); [noerr|inversion HD; reflexivity]). subst cF.
        pose proof (sn_pp _ _ _ S3) as Hpp. apply (f_equal (@length bytes)) in Hpp.
        rewrite map_length in Hpp. cbn [length] in Hpp. rewrite rev_length, map_length in Hpp.
        unfold len_N in Epp. destruct stk2; [congruence|]. cbn [length] in Hpp.
        clear - Hpp Epp. lia.
    - inversion Hroot; subst s2 c2.
      destruct (wf_elem_intro_n [] pr loc es ws_end None Hok I) as (W1 & W2).
      eexists (IElem (mkq pr loc) es ws_end None), l4, _.
      split. { rewrite El, CstFullTree.r_item_elem, rq_eq, Ees. cbn [negb tag_tail]. rewrite <- !app_assoc. reflexivity. }
      split; [reflexivity|]. split; [exact HW4|]. split; [exact HS1|].
      split; [exact W1|]. split; [exact W2|]. split; [exact I|].
      rewrite decls_elem, (costs_elem []). rewrite app_nil_r, Nat.add_0_r. exact RSE. }
  destruct ROOT as (root & l4 & p4 & -> & -> & HW4 & S2' & Hrwf & Hrns & Hrk & RS2).
  unfold parse_misc in Hm2.
  destruct (misc_sound_n _ (fun a b => Res_eq text a b _ _ []) _ _ _ _ _ _ _ HW4 S2' RS2 Hm2) as (post & w4 & l5 & p5 & K2 & -> & -> & HW5 & Hpost & Hw4 & S3 & _ & _ & RS3).
  rewrite (at_end_st text) in HD by apply HW5. destruct l5 as [|? ?]; cbn [negb] in HD; [|noerr].
  inversion HD; subst cF. clear HD.
  exists {| d_before := snd (shift_n pre wpre); d_ws0 := fst (shift_n pre wpre);
            d_root := root; d_after := post; d_ws_end := w4 |}.
  destruct (shift_wf_n pre wpre Hpre Hwpre) as (B1 & B2).
  split.
  - unfold S2.wf_doc, wf_doc. cbn [d_ws0 d_ws_end d_before d_root d_after].
    rewrite B1, Hw4, B2. cbn [andb]. unfold wf_pairs_n in Hpost. rewrite Hpost.
    rewrite CstFullTree.ns_oks_forallb, Hrns, !andb_true_r.
    destruct root; try contradiction. exact Hrwf.
  - split.
    { unfold S2.render, render. cbn [d_ws0 d_ws_end d_before d_root d_after].
      rewrite app_assoc, shift_render_n. rewrite Et. unfold wpre, r_pairs_n. rewrite app_nil_r, <- !app_assoc. reflexivity. }
    destruct RS3 as [(vs & Ev & Hi) Hlim _ Hu32]. rewrite app_nil_r in Hi. split.
    + unfold S2.distinct_decls_le, distinct_decls_le, doc_decls. cbn [d_root]. rewrite items_decls_flat.
      intros l0 Hnd0 Hl0. pose proof (NoDup_incl_length Hnd0 (incl_tran Hl0 Hi)) as Hlen.
      pose proof (valsd_len text (c_doc c3)) as Hvl. unfold vals in Ev. rewrite Ev in Hvl. cbn [length] in Hvl.
      unfold len_N in Hlim. lia.
    + unfold S2.ns_cost, ns_cost. cbn [d_root]. rewrite ns_costs_sum. exact Hu32.
Qed.

End DocN.

(* ------------------------------------------------------------------------------------------ *)
(* Main theorem (namespaces): no side condition on the result.
   NOTE (D20): xmlns:xml='http://www.w3.org/XML/1998/namespace' written twice on one start tag is accepted
   by the crate and is well formed for Spec/CstFull.v (N6 is on [own_bindings], which skip xmlns:xml):
   see CstSoundN.obs_xml_twice. *)
(* the two namespace resource hypotheses of the completeness theorem (CstFullS2.parse_render_sem_full_s2)
   FOLLOW from acceptance: push_ns did not fail, ns_range_checked passed *)
Theorem parse_sound_fragment_n_res : forall text opt d,
  in_fragment_n text = true -> parse text opt = Ok d ->
  exists c : S2.doc, S2.wf_doc c = true /\ S2.render c = text /\
    S2.distinct_decls_le c (N.to_nat 65535) /\ 1 + N.of_nat (S2.ns_cost c) <= u32_max.
Proof.
  intros text opt d Hf H. eapply parse_sound_fragment_n_ctx; [apply in_fragment_n_FragN; exact Hf|exact H].
Qed.
Print Assumptions parse_sound_fragment_n_res.

Theorem parse_sound_fragment_n : forall text opt d,
  in_fragment_n text = true -> parse text opt = Ok d ->
  exists c : S2.doc, S2.wf_doc c = true /\ S2.render c = text.
Proof.
  intros text opt d Hf H. destruct (parse_sound_fragment_n_res text opt d Hf H) as (c & A & B & _). exists c. auto.
Qed.
Print Assumptions parse_sound_fragment_n.

Theorem parse_sound_fragment_n_holds : parse_sound_fragment_n_stmt.
Proof. exact parse_sound_fragment_n. Qed.
Print Assumptions parse_sound_fragment_n_holds.
