(* Proofs/CstTextLex.v -- C04/C05 on whole documents, lexer side: streams over a part of the input
   (the value of a text token or of an attribute), references, the chunk lists read by
   process_text / normalize_attribute on the pieces of Spec/CstText.v, and the token parsers on
   text stretches, CDATA sections and start tags with decoded attribute values. *)
From Coq Require Import Ascii String.
From Coq Require Import List NArith PeanoNat Bool Lia ZifyBool ZifyN ZifyNat.
Import ListNotations.
From RX Require Import Generated.
From RX.Model Require Import Base CharClass Stream Tokenizer Doc Builder Parse.
From RX.Spec Require Cst CstText Chars.
From RX.Spec Require Import Text.
From RX.Proofs Require Import CstLex TextMachine.
From RX.Proofs Require CharTablesProofs.
Open Scope N_scope.

Module T := CstText.

(* ------------------------------------------------------------------------------------------ *)
(* character classes                                                                          *)
(* ------------------------------------------------------------------------------------------ *)

Ltac tcls := unfold T.is_tplain, T.is_digit, Cst.is_ws, Cst.is_name_char, Cst.is_name_start,
  byte_is_char, byte_is_space, byte_is_name_start, byte_is_name, in_ranges,
  byte_space_ranges, byte_name_start_ranges, byte_name_ranges, byte_char_gt,
  is_ascii_hexdigit, is_ascii_digit in *;
  cbn [existsb fst snd] in *.

Lemma tplain_char x : T.is_tplain x = true -> x < 128 /\ char_is_char x = true /\ byte_is_char x = true.
Proof.
  intros H. assert (L : x < 128) by (tcls; lia). split; [exact L|]. split; [|tcls; lia].
  unfold char_is_char, char_char_ctl_cut, char_char_excluded. rewrite N.mod_small by lia.
  destruct (x <? 32) eqn:E; tcls; lia.
Qed.

(* the bytes of the rendering of a piece of a value quoted by q / of a text stretch (q = 60) *)
Definition vbyte (q : N) (x : N) : bool := T.is_tplain x && negb (x =? 60) && negb (x =? q).

Lemma forallb_app' {A} (f : A -> bool) l1 l2 : forallb f l1 = true -> forallb f l2 = true -> forallb f (l1 ++ l2) = true.
Proof. intros H1 H2. rewrite forallb_app, H1, H2. reflexivity. Qed.

Lemma digits_vbyte q hex ds : q = 39 \/ q = 34 \/ q = 60 -> forallb (T.is_digit hex) ds = true -> forallb (vbyte q) ds = true.
Proof.
  intros Hq. apply forallb_imp. intros x Hx. unfold vbyte. tcls. destruct hex; lia.
Qed.

Definition no_cdata (p : T.piece) : bool := match p with T.PCData _ => false | _ => true end.

Lemma vpiece_bytes q p : q = 39 \/ q = 34 \/ q = 60 -> T.wf_vpiece q p = true -> forallb (vbyte q) (T.r_piece p) = true.
Proof.
  intros Hq H. destruct p as [bs|hex ds|e|bs]; cbn [T.wf_vpiece T.r_piece] in *.
  - unfold T.wf_lit in H. apply andb_true_iff in H. destruct H as [_ H]. revert H. apply forallb_imp.
    intros x Hx. unfold vbyte. lia.
  - unfold T.wf_charref in H. rewrite !andb_true_iff in H. destruct H as [[_ H] _].
    apply forallb_app'; [unfold vbyte; tcls; cbn; lia|]. apply forallb_app'.
    + destruct hex; [unfold vbyte; tcls; cbn; lia|reflexivity].
    + apply forallb_app'; [eapply digits_vbyte; eassumption|unfold vbyte; tcls; cbn; lia].
  - destruct e; unfold vbyte; tcls; cbn; lia.
  - discriminate.
Qed.

Lemma vpieces_bytes q ps : q = 39 \/ q = 34 \/ q = 60 -> forallb (T.wf_vpiece q) ps = true ->
  forallb (vbyte q) (T.r_pieces ps) = true.
Proof.
  intros Hq. induction ps as [|p ps IH]; intros H; [reflexivity|]. cbn [forallb] in H.
  apply andb_true_iff in H. destruct H as [H1 H2]. cbn [T.r_pieces flat_map].
  apply forallb_app'; [apply vpiece_bytes; assumption|apply IH; exact H2].
Qed.

(* a text piece other than CDATA is a value piece for the "quote" '<' *)
Lemma tpiece_vpiece p : T.wf_tpiece p = true -> no_cdata p = true -> T.wf_vpiece 60 p = true.
Proof.
  destruct p as [bs|hex ds|e|bs]; cbn [T.wf_tpiece T.wf_vpiece no_cdata]; intros H N; try assumption; try discriminate.
  apply andb_true_iff in H. apply H.
Qed.

(* ------------------------------------------------------------------------------------------ *)
(* a stream over a part [.., e) of the input                                                  *)
(* ------------------------------------------------------------------------------------------ *)

Definition sst (e p : N) (r : bytes) : stream := {| s_pos := p; s_end := e; s_rest := r |}.

Lemma at_end_sst e p r : at_end (sst e p r) = (e <=? p).
Proof. reflexivity. Qed.

Lemma advance_sst n e p x l : n = blen x -> p + n <= e -> advance n (sst e p (x ++ l)) = Ok (sst e (p + n) l).
Proof.
  intros -> H. unfold advance, sst. cbn [s_pos s_end s_rest].
  replace (e <? p + blen x) with false by lia. unfold blen at 2. rewrite Nat2N.id, skipn_len_app. reflexivity.
Qed.

Lemma advance1_sst e p x l : p < e -> advance 1 (sst e p (x :: l)) = Ok (sst e (p + 1) l).
Proof. intros H. apply (advance_sst 1 e p [x] l); [reflexivity|lia]. Qed.

Lemma curr_byte_sst e p x l : p < e -> curr_byte (sst e p (x :: l)) = Ok x.
Proof. intros H. unfold curr_byte. rewrite at_end_sst. replace (e <=? p) with false by lia. reflexivity. Qed.

Lemma curr_byte_opt_sst e p x l : p < e -> curr_byte_opt (sst e p (x :: l)) = Some x.
Proof. intros H. unfold curr_byte_opt. rewrite at_end_sst. replace (e <=? p) with false by lia. reflexivity. Qed.

Lemma curr_byte_opt_end e p l : e <= p -> curr_byte_opt (sst e p l) = None.
Proof. intros H. unfold curr_byte_opt. rewrite at_end_sst. replace (e <=? p) with true by lia. reflexivity. Qed.

Lemma try_yes e p c l : p < e -> try_consume_byte c (sst e p (c :: l)) = (true, sst e (p + 1) l).
Proof.
  intros H. unfold try_consume_byte. rewrite curr_byte_opt_sst by exact H. rewrite N.eqb_refl.
  rewrite advance1_sst by exact H. reflexivity.
Qed.

Lemma try_no e p c x l : x <> c -> try_consume_byte c (sst e p (x :: l)) = (false, sst e p (x :: l)).
Proof.
  intros H. unfold try_consume_byte, curr_byte_opt. rewrite at_end_sst. destruct (e <=? p); [reflexivity|].
  cbn [sst s_rest]. replace (x =? c) with false by lia. reflexivity.
Qed.

Lemma consume_byte_sst text e p c l : p < e -> consume_byte text c (sst e p (c :: l)) = Ok (sst e (p + 1) l).
Proof.
  intros H. unfold consume_byte. rewrite curr_byte_sst by exact H. cbn [bind].
  rewrite N.eqb_refl. cbn [negb]. apply advance1_sst. exact H.
Qed.

Lemma skip_bytes_sst f e p x l : forallb f x = true -> stops f l -> p + blen x <= e ->
  skip_bytes f (sst e p (x ++ l)) = sst e (p + blen x) l.
Proof.
  intros Hx Hl H. unfold skip_bytes, sst. cbn [s_pos s_end s_rest].
  rewrite scan_run; [|exact Hx|exact Hl|unfold blen in *; lia].
  rewrite skipn_len_app. reflexivity.
Qed.

Lemma next_char_sst e p c l : p < e -> c < 128 -> next_char (sst e p (c :: l)) = Ok (Some (c, 1)).
Proof.
  intros H Hc. unfold next_char. rewrite at_end_sst. replace (e <=? p) with false by lia.
  cbn [s_rest sst]. rewrite decode1_ascii by exact Hc. cbn [s_end s_pos sst].
  replace (e <? p + 1) with false by lia. reflexivity.
Qed.

Lemma skip_name_loop_sst e : forall x p l fuel,
  forallb Cst.is_name_char x = true -> name_stop l -> l <> [] -> p + blen x < e -> (length x < fuel)%nat ->
  skip_name_loop fuel (sst e p (x ++ l)) = Ok (sst e (p + blen x) l).
Proof.
  induction x as [|c x IH]; intros p l fuel Hx Hl Hne He Hf.
  - cbn [app] in *. rewrite blen_nil, N.add_0_r in *. destruct fuel as [|fu]; [cbn in Hf; lia|].
    cbn [skip_name_loop]. destruct l as [|c l]; [congruence|]. destruct Hl as (H1 & H2 & H3).
    rewrite next_char_sst by assumption. cbn [bind].
    rewrite char_is_name_ascii by exact H1. rewrite H3. reflexivity.
  - destruct fuel as [|fu]; [cbn in Hf; lia|]. cbn [length] in Hf. cbn [app] in *.
    cbn [forallb] in Hx. apply andb_true_iff in Hx. destruct Hx as [Hc Hx].
    destruct (name_char_byte _ Hc) as (H1 & H2 & H3). rewrite blen_cons in He.
    cbn [skip_name_loop]. rewrite next_char_sst by (try assumption; lia). cbn [bind].
    rewrite char_is_name_ascii by exact H1. rewrite H3.
    rewrite advance1_sst by lia. cbn [bind].
    rewrite blen_cons. replace (p + (1 + blen x)) with (p + 1 + blen x) by lia.
    apply IH; [exact Hx|exact Hl|exact Hne|lia|lia].
Qed.

Section Sub.
Variable text : bytes.
Hypothesis Hascii : Forall (fun x => x < 128) text.

Notation W := (CstLex.W text).

Lemma consume_name_sst e name p l : W p (name ++ l) -> Cst.wf_name name = true -> name_stop l -> l <> [] ->
  p + blen name < e -> e <= tlen text ->
  consume_name text (sst e p (name ++ l)) = Ok (sl p (p + blen name), sst e (p + blen name) l).
Proof.
  intros HW Hn Hl Hne He Hle. unfold consume_name, skip_name. cbn [sst s_pos].
  destruct name as [|c x]; [discriminate|]. cbn [Cst.wf_name] in Hn.
  apply andb_true_iff in Hn. destruct Hn as [Hc Hx]. cbn [app] in *. rewrite blen_cons in He.
  fold (sst e p (c :: x ++ l)).
  destruct (name_start_byte _ Hc) as (H1 & H2 & _).
  rewrite next_char_sst by (try assumption; lia). cbn [bind].
  rewrite char_is_name_start_ascii by exact H1. rewrite H2.
  rewrite advance1_sst by lia. cbn [bind].
  rewrite skip_name_loop_sst; [|exact Hx|exact Hl|exact Hne|lia|cbn [sst s_rest]; rewrite app_length; lia].
  cbn [bind]. unfold slice_back. cbn [sst s_pos]. rewrite blen_cons.
  rewrite (mk_slice_ok text Hascii) by lia. cbn [bind]. unfold slice_len. cbn [sl sl_start sl_end].
  replace (p + 1 + blen x - p =? 0) with false by lia.
  replace (p + 1 + blen x) with (p + (1 + blen x)) by lia. reflexivity.
Qed.

(* ---- references ---- *)

Lemma predef_wf_name pe : Cst.wf_name (T.predef_name pe) = true.
Proof. destruct pe; reflexivity. Qed.

Lemma cref_predef e p pe more : W p (T.r_piece (T.PPredef pe) ++ more) ->
  p + blen (T.r_piece (T.PPredef pe)) <= e -> e <= tlen text ->
  consume_reference text (sst e p (T.r_piece (T.PPredef pe) ++ more)) =
  Ok (Some (RefChar (T.predef_char pe), sst e (p + blen (T.r_piece (T.PPredef pe))) more)).
Proof.
  intros HW He Hle. cbn [T.r_piece] in *. rewrite <- !app_assoc in *. cbn [app] in HW |- *.
  rewrite !blen_app, !blen_cons, blen_nil in *.
  unfold consume_reference. rewrite try_yes by lia.
  assert (Hfirst : exists x r, T.predef_name pe = x :: r /\ x <> 35) by (destruct pe; cbn; eexists; eexists; split; try reflexivity; lia).
  destruct Hfirst as (x0 & r0 & Ex & Hx0).
  replace (try_consume_byte 35 (sst e (p + 1) (T.predef_name pe ++ 59 :: more)))
    with (false, sst e (p + 1) (T.predef_name pe ++ 59 :: more))
    by (rewrite Ex; cbn [app]; symmetry; apply try_no; exact Hx0).
  cbn [negb].
  pose proof (W_cons _ _ _ _ HW) as HW1.
  rewrite (consume_name_sst e (T.predef_name pe) (p + 1) (59 :: more)); try assumption; try lia.
  2:{ apply predef_wf_name. }
  2:{ cbn [name_stop]. unfold not_name_byte. cls. lia. }
  2:{ discriminate. }
  rewrite (W_slice _ _ _ _ HW1). cbn [bind].
  rewrite consume_byte_sst by lia.
  destruct pe; cbn [T.predef_name T.predef_char]; f_equal; f_equal; f_equal; f_equal; cbn; lia.
Qed.

(* the digit value of the model and of the specification *)
Lemma hex_val_digit hex x : T.is_digit hex x = true -> hex_val x = T.digit_val x.
Proof. unfold hex_val, T.digit_val. tcls. intros H. destruct ((48 <=? x) && (x <=? 57)) eqn:E; [replace (x <? 58) with true by lia; reflexivity|]. replace (x <? 58) with false by (destruct hex; lia). reflexivity. Qed.

Lemma digits_val_ref hex : forall ds acc, forallb (T.is_digit hex) ds = true ->
  digits_val (if hex then 16 else 10) ds acc =
  fold_left (fun a x => a * (if hex then 16 else 10) + T.digit_val x) ds acc.
Proof.
  induction ds as [|x ds IH]; intros acc H; [reflexivity|]. cbn [forallb] in H.
  apply andb_true_iff in H. destruct H as [H1 H2]. cbn [digits_val fold_left].
  rewrite (hex_val_digit hex x H1). apply IH. exact H2.
Qed.

Lemma xml_Char_model n : Chars.xml_Char n = true -> is_scalar n = true /\ char_is_char n = true /\ n <= 1114111.
Proof.
  intros H.
  assert (S : Chars.scalar n = true /\ n <= 1114111).
  { unfold Chars.xml_Char, Chars.in_ranges, Chars.xml_Char_ranges in H. cbn [existsb fst snd] in H.
    unfold Chars.scalar. lia. }
  destruct S as [S L]. split; [exact S|]. split; [|exact L].
  destruct (CharTablesProofs.char_tables_conform n S) as [E _]. rewrite E. exact H.
Qed.

Lemma digit_filter hex ds : forallb (T.is_digit hex) ds = true ->
  forallb (if hex then is_ascii_hexdigit else is_ascii_digit) ds = true.
Proof. destruct hex; apply forallb_imp; intros x Hx; unfold T.is_digit, is_ascii_hexdigit, is_ascii_digit in *; lia. Qed.

Lemma cref_charref e p hex ds more : W p (T.r_piece (T.PCharRef hex ds) ++ more) -> T.wf_charref hex ds = true ->
  p + blen (T.r_piece (T.PCharRef hex ds)) <= e -> e <= tlen text ->
  consume_reference text (sst e p (T.r_piece (T.PCharRef hex ds) ++ more)) =
  Ok (Some (RefChar (T.ref_val hex ds), sst e (p + blen (T.r_piece (T.PCharRef hex ds))) more)).
Proof.
  intros HW Hwf He Hle. unfold T.wf_charref in Hwf. rewrite !andb_true_iff in Hwf.
  destruct Hwf as [[Hne Hd] Hc]. destruct (xml_Char_model _ Hc) as (Hs & Hcc & Hmax).
  assert (Hd0 : exists x r, ds = x :: r /\ T.is_digit hex x = true).
  { destruct ds as [|x r]; [discriminate|]. cbn [forallb] in Hd. apply andb_true_iff in Hd. eexists. eexists. split; [reflexivity|apply Hd]. }
  destruct Hd0 as (x0 & r0 & Eds & Hx0).
  pose proof (digit_filter hex ds Hd) as Hflt. pose proof (digits_val_ref hex ds 0 Hd) as Hval.
  fold (T.ref_val hex ds) in Hval.
  unfold consume_reference.
  destruct hex; cbn [T.r_piece app] in *; rewrite <- ?app_assoc in *; cbn [app] in *;
    repeat rewrite ?blen_app, ?blen_cons, ?blen_nil in He.
  - rewrite try_yes by lia. rewrite try_yes by lia. cbn [negb]. rewrite try_yes by lia.
    pose proof (W_cons _ _ _ _ (W_cons _ _ _ _ (W_cons _ _ _ _ HW))) as HW3.
    unfold consume_bytes.
    rewrite skip_bytes_sst; [|exact Hflt|reflexivity|lia].
    unfold slice_back. cbn [sst s_pos].
    rewrite (mk_slice_ok text Hascii) by lia. cbn [bind].
    rewrite (W_slice _ _ _ _ HW3). rewrite Hval.
    replace (u32_max <? T.ref_val true ds) with false by (unfold u32_max; lia).
    rewrite Hs, Hcc. cbn [negb].
    replace (match ds with [] => @Ok (option (reference * stream)) None | _ :: _ => Ok (Some (RefChar (T.ref_val true ds), sst e (p + 1 + 1 + 1 + blen ds) (59 :: more))) end)
      with (@Ok (option (reference * stream)) (Some (RefChar (T.ref_val true ds), sst e (p + 1 + 1 + 1 + blen ds) (59 :: more))))
      by (destruct ds; [discriminate Hne|reflexivity]).
    cbn [bind]. rewrite consume_byte_sst by lia.
    f_equal. f_equal. f_equal. f_equal. rewrite !blen_cons, blen_app, blen_cons, blen_nil. lia.
  - rewrite try_yes by lia. rewrite try_yes by lia. cbn [negb].
    replace (try_consume_byte 120 (sst e (p + 1 + 1) (ds ++ 59 :: more)))
      with (false, sst e (p + 1 + 1) (ds ++ 59 :: more))
      by (rewrite Eds; cbn [app]; symmetry; apply try_no; unfold T.is_digit in Hx0; lia).
    pose proof (W_cons _ _ _ _ (W_cons _ _ _ _ HW)) as HW3.
    unfold consume_bytes.
    rewrite skip_bytes_sst; [|exact Hflt|reflexivity|lia].
    unfold slice_back. cbn [sst s_pos].
    rewrite (mk_slice_ok text Hascii) by lia. cbn [bind].
    rewrite (W_slice _ _ _ _ HW3). rewrite Hval.
    replace (u32_max <? T.ref_val false ds) with false by (unfold u32_max; lia).
    rewrite Hs, Hcc. cbn [negb].
    replace (match ds with [] => @Ok (option (reference * stream)) None | _ :: _ => Ok (Some (RefChar (T.ref_val false ds), sst e (p + 1 + 1 + blen ds) (59 :: more))) end)
      with (@Ok (option (reference * stream)) (Some (RefChar (T.ref_val false ds), sst e (p + 1 + 1 + blen ds) (59 :: more))))
      by (destruct ds; [discriminate Hne|reflexivity]).
    cbn [bind]. rewrite consume_byte_sst by lia.
    f_equal. f_equal. f_equal. f_equal. rewrite !blen_cons, blen_app, blen_cons, blen_nil. lia.
Qed.

Lemma utf8_encode c : T.utf8 c = encode_utf8 c.
Proof. reflexivity. Qed.

(* ---- the chunks read from the rendering of reference-and-literal pieces ---- *)

Definition rpiece_ok (q : N) (p : T.piece) : Prop := T.wf_vpiece q p = true.

Lemma pnc_byte es e p x l : p < e -> x <> 38 ->
  parse_next_chunk text (sst e p (x :: l)) es = Ok (ChByte x, sst e (p + 1) l).
Proof.
  intros H Hx. unfold parse_next_chunk. rewrite at_end_sst. replace (e <=? p) with false by lia.
  cbn [curr_byte_unchecked sst s_rest bind]. replace (x =? 38) with false by lia.
  fold (sst e p (x :: l)). rewrite advance1_sst by exact H. reflexivity.
Qed.

Lemma pnc_ref es e p l c s' : p < e -> consume_reference text (sst e p (38 :: l)) = Ok (Some (RefChar c, s')) ->
  parse_next_chunk text (sst e p (38 :: l)) es = Ok (ChChar c, s').
Proof.
  intros H E. unfold parse_next_chunk. rewrite at_end_sst. replace (e <=? p) with false by lia.
  cbn [curr_byte_unchecked sst s_rest bind]. change (38 =? 38) with true. cbv iota zeta.
  fold (sst e p (38 :: l)). rewrite E. reflexivity.
Qed.

Lemma lit_not_amp q bs : T.wf_lit q bs = true -> forallb (fun x => negb (x =? 38) && negb (x =? 60)) bs = true.
Proof.
  unfold T.wf_lit. intros H. apply andb_true_iff in H. destruct H as [_ H]. revert H. apply forallb_imp.
  intros x Hx. lia.
Qed.

Lemma blen_pos_app (x l : bytes) p e : p + blen (x ++ l) <= e -> x <> [] -> p < e.
Proof. intros H Hx. destruct x; [congruence|]. cbn [app] in H. rewrite blen_cons in H. lia. Qed.

Lemma r_piece_ne q p : T.wf_vpiece q p = true -> exists x r, T.r_piece p = x :: r.
Proof.
  destruct p as [bs|hex ds|e|bs]; cbn [T.wf_vpiece T.r_piece]; intros H; try discriminate; try (eexists; eexists; reflexivity).
  unfold T.wf_lit in H. destruct bs; [discriminate|]. eauto.
Qed.

Lemma reads_pieces q es e : q = 39 \/ q = 34 \/ q = 60 -> forall ps p more,
  W p (T.r_pieces ps ++ more) -> forallb (T.wf_vpiece q) ps = true ->
  p + blen (T.r_pieces ps) = e -> e <= tlen text ->
  reads text es (sst e p (T.r_pieces ps ++ more)) (flat_map T.piece_chunks ps).
Proof.
  intros Hq. induction ps as [|pc ps IH]; intros p more HW Hwf He Hle.
  - cbn [T.r_pieces flat_map app] in *. rewrite blen_nil in He. apply reads_end.
    rewrite at_end_sst. lia.
  - cbn [forallb] in Hwf. apply andb_true_iff in Hwf. destruct Hwf as [Hp Hps].
    cbn [T.r_pieces flat_map] in *. fold (T.r_pieces ps) in *. rewrite <- app_assoc in *.
    rewrite blen_app in He.
    assert (IH' : reads text es (sst e (p + blen (T.r_piece pc)) (T.r_pieces ps ++ more)) (flat_map T.piece_chunks ps)).
    { apply IH; [apply (W_app _ _ _ _ HW)|exact Hps|lia|exact Hle]. }
    destruct (r_piece_ne q pc Hp) as (x1 & r1 & Ex1).
    assert (Hlt : p < e) by (rewrite Ex1, blen_cons in He; lia). clear x1 r1 Ex1.
    destruct pc as [bs|hex ds|pe|bs]; cbn [T.wf_vpiece] in Hp; try discriminate.
    + (* literal bytes, one by one *)
      apply lit_not_amp in Hp. cbn [T.r_piece T.piece_chunks] in *.
      clear IH Hps Hlt. revert p HW He IH'. induction bs as [|x bs IHb]; intros p HW He IH'.
      * cbn [map app] in *. rewrite blen_nil, N.add_0_r in IH'. exact IH'.
      * cbn [forallb] in Hp. apply andb_true_iff in Hp. destruct Hp as [Hx Hb].
        cbn [map app] in *. rewrite blen_cons in *.
        eapply reads_byte.
        -- rewrite at_end_sst. lia.
        -- apply pnc_byte; lia.
        -- apply IHb; [exact Hb|apply (W_cons _ _ _ _ HW)|lia|].
           replace (p + 1 + blen bs) with (p + (1 + blen bs)) by lia. exact IH'.
    + cbn [T.piece_chunks app]. rewrite utf8_encode.
      pose proof (cref_charref e p hex ds (T.r_pieces ps ++ more) HW Hp ltac:(lia) Hle) as E.
      cbn [T.r_piece] in E, HW, He, IH' |- *. rewrite <- !app_assoc in *. cbn [app] in E |- *.
      eapply reads_char; [rewrite at_end_sst; lia| |exact IH'].
      apply pnc_ref; [exact Hlt|exact E].
    + cbn [T.piece_chunks app].
      replace [T.predef_char pe] with (encode_utf8 (T.predef_char pe)) by (destruct pe; reflexivity).
      pose proof (cref_predef e p pe (T.r_pieces ps ++ more) HW ltac:(lia) Hle) as E.
      cbn [T.r_piece] in E, HW, He, IH' |- *. rewrite <- !app_assoc in *. cbn [app] in E |- *.
      eapply reads_char; [rewrite at_end_sst; lia| |exact IH'].
      apply pnc_ref; [exact Hlt|exact E].
Qed.


(* the same for an attribute value: what the loop of [norm_attr_lvl] reads at the top level *)
Lemma areads_pieces q e : q = 39 \/ q = 34 \/ q = 60 -> forall ps p more,
  W p (T.r_pieces ps ++ more) -> forallb (T.wf_vpiece q) ps = true ->
  p + blen (T.r_pieces ps) = e -> e <= tlen text ->
  areads text false (sst e p (T.r_pieces ps ++ more)) (flat_map T.piece_chunks ps).
Proof.
  intros Hq. induction ps as [|pc ps IH]; intros p more HW Hwf He Hle.
  - cbn [T.r_pieces flat_map app] in *. rewrite blen_nil in He. apply areads_end.
    rewrite at_end_sst. lia.
  - cbn [forallb] in Hwf. apply andb_true_iff in Hwf. destruct Hwf as [Hp Hps].
    cbn [T.r_pieces flat_map] in *. fold (T.r_pieces ps) in *. rewrite <- app_assoc in *.
    rewrite blen_app in He.
    assert (IH' : areads text false (sst e (p + blen (T.r_piece pc)) (T.r_pieces ps ++ more)) (flat_map T.piece_chunks ps)).
    { apply IH; [apply (W_app _ _ _ _ HW)|exact Hps|lia|exact Hle]. }
    destruct (r_piece_ne q pc Hp) as (x1 & r1 & Ex1).
    assert (Hlt : p < e) by (rewrite Ex1, blen_cons in He; lia). clear x1 r1 Ex1.
    destruct pc as [bs|hex ds|pe|bs]; cbn [T.wf_vpiece] in Hp; try discriminate.
    + apply lit_not_amp in Hp. cbn [T.r_piece T.piece_chunks] in *.
      clear IH Hps Hlt. revert p HW He IH'. induction bs as [|x bs IHb]; intros p HW He IH'.
      * cbn [map app] in *. rewrite blen_nil, N.add_0_r in IH'. exact IH'.
      * cbn [forallb] in Hp. apply andb_true_iff in Hp. destruct Hp as [Hx Hb].
        cbn [map app] in *. rewrite blen_cons in *.
        eapply areads_byte.
        -- rewrite at_end_sst. lia.
        -- reflexivity.
        -- lia.
        -- apply andb_false_r.
        -- apply advance1_sst. lia.
        -- apply IHb; [exact Hb|apply (W_cons _ _ _ _ HW)|lia|].
           replace (p + 1 + blen bs) with (p + (1 + blen bs)) by lia. exact IH'.
    + cbn [T.piece_chunks app]. rewrite utf8_encode.
      pose proof (cref_charref e p hex ds (T.r_pieces ps ++ more) HW Hp ltac:(lia) Hle) as E.
      cbn [T.r_piece] in E, HW, He, IH' |- *. rewrite <- !app_assoc in *. cbn [app] in E |- *.
      eapply areads_char; [rewrite at_end_sst; lia|reflexivity|exact E|exact IH'].
    + cbn [T.piece_chunks app].
      replace [T.predef_char pe] with (encode_utf8 (T.predef_char pe)) by (destruct pe; reflexivity).
      pose proof (cref_predef e p pe (T.r_pieces ps ++ more) HW ltac:(lia) Hle) as E.
      cbn [T.r_piece] in E, HW, He, IH' |- *. rewrite <- !app_assoc in *. cbn [app] in E |- *.
      eapply areads_char; [rewrite at_end_sst; lia|reflexivity|exact E|exact IH'].
Qed.

(* chunks are not more numerous than the bytes they are read from *)
Lemma chunks_le_bytes q : forall ps, forallb (T.wf_vpiece q) ps = true ->
  (length (flat_map T.piece_chunks ps) <= length (T.r_pieces ps))%nat.
Proof.
  induction ps as [|pc ps IH]; intros H; [cbn; lia|]. cbn [forallb] in H. apply andb_true_iff in H.
  destruct H as [H1 H2]. cbn [flat_map T.r_pieces]. rewrite !app_length. specialize (IH H2).
  unfold T.r_pieces in IH.
  destruct pc as [bs|hex ds|pe|bs]; cbn [T.piece_chunks T.r_piece]; try discriminate;
    rewrite ?map_length, ?app_length; cbn [length]; lia.
Qed.

(* ------------------------------------------------------------------------------------------ *)
(* "]]>" does not arise in a stretch of literal and reference pieces                          *)
(* ------------------------------------------------------------------------------------------ *)

Definition n3 : bytes := [93; 93; 62].

Lemma contains_no93 : forall x y, forallb (fun c => negb (c =? 93)) x = true ->
  contains_b n3 (x ++ y) = contains_b n3 y.
Proof.
  induction x as [|c x IH]; intros y H; [reflexivity|]. cbn [forallb] in H. apply andb_true_iff in H.
  destruct H as [H1 H2]. cbn [app contains_b]. rewrite IH by exact H2.
  unfold n3. cbn [prefix_b]. replace (93 =? c) with false by lia. reflexivity.
Qed.

Lemma contains_lit : forall bs y, contains_b n3 bs = false ->
  match y with [] => True | c :: _ => c <> 93 /\ c <> 62 end ->
  contains_b n3 (bs ++ y) = contains_b n3 y.
Proof.
  induction bs as [|c bs IH]; intros y H Hy; [reflexivity|].
  cbn [contains_b] in H. apply orb_false_iff in H. destruct H as [H1 H2].
  cbn [app contains_b]. rewrite IH by assumption.
  replace (prefix_b n3 (c :: bs ++ y)) with false; [reflexivity|]. symmetry.
  unfold n3 in *. destruct bs as [|d [|d2 bs]]; cbn [app prefix_b] in *.
  - destruct y as [|y0 y]; [apply andb_false_r|]. destruct Hy. replace (93 =? y0) with false by lia.
    rewrite andb_false_r. reflexivity.
  - destruct y as [|y0 y]; [rewrite !andb_false_r; reflexivity|]. destruct Hy.
    replace (62 =? y0) with false by lia. rewrite !andb_false_r. reflexivity.
  - exact H1.
Qed.

Definition is_refp (p : T.piece) : bool := match p with T.PCharRef _ _ | T.PPredef _ => true | _ => false end.

Lemma refp_no93 p : is_refp p = true -> T.wf_vpiece 60 p = true ->
  forallb (fun c => negb (c =? 93)) (T.r_piece p) = true /\ exists r, T.r_piece p = 38 :: r.
Proof.
  intros Hr Hwf. split.
  - pose proof (vpiece_bytes 60 p ltac:(auto) Hwf) as H.
    destruct p as [bs|hex ds|e|bs]; try discriminate.
    + cbn [T.r_piece T.wf_vpiece] in *. unfold T.wf_charref in Hwf. rewrite !andb_true_iff in Hwf.
      destruct Hwf as [[_ Hd] _]. apply forallb_app'; [reflexivity|]. apply forallb_app'; [destruct hex; reflexivity|].
      apply forallb_app'; [|reflexivity]. revert Hd. apply forallb_imp. intros x Hx. unfold T.is_digit in Hx. lia.
    + destruct e; reflexivity.
  - destruct p as [bs|hex ds|e|bs]; try discriminate; cbn [T.r_piece app]; eauto.
Qed.

Lemma stretch_no_cdata_end : forall ps, forallb T.wf_tpiece ps = true -> forallb no_cdata ps = true ->
  T.no_adjacent_lit ps = true -> contains_b n3 (T.r_pieces ps) = false.
Proof.
  induction ps as [|pc ps IH]; intros Hwf Hnc Hadj; [reflexivity|].
  cbn [forallb] in Hwf, Hnc. apply andb_true_iff in Hwf. destruct Hwf as [Hw1 Hw2].
  apply andb_true_iff in Hnc. destruct Hnc as [Hn1 Hn2].
  assert (Hadj2 : T.no_adjacent_lit ps = true).
  { destruct ps as [|d r]; [reflexivity|]. cbn [T.no_adjacent_lit] in Hadj. apply andb_true_iff in Hadj. apply Hadj. }
  cbn [T.r_pieces flat_map]. fold (T.r_pieces ps). specialize (IH Hw2 Hn2 Hadj2).
  destruct pc as [bs|hex ds|e|bs]; try discriminate.
  - cbn [T.r_piece T.wf_tpiece] in *. apply andb_true_iff in Hw1. destruct Hw1 as [_ Hc].
    apply negb_true_iff in Hc. rewrite contains_eq in Hc.
    rewrite contains_lit; [exact IH|exact Hc|].
    destruct ps as [|d r]; [exact I|].
    cbn [T.no_adjacent_lit T.is_lit andb] in Hadj. apply andb_true_iff in Hadj. destruct Hadj as [Hd _].
    cbn [forallb] in Hw2, Hn2. apply andb_true_iff in Hw2. apply andb_true_iff in Hn2.
    destruct (refp_no93 d) as [_ [r0 Er]].
    { destruct d; try discriminate; try reflexivity. destruct Hn2; discriminate. }
    { apply tpiece_vpiece; [apply Hw2|apply Hn2]. }
    cbn [T.r_pieces flat_map]. rewrite Er. cbn [app]. split; lia.
  - destruct (refp_no93 (T.PCharRef hex ds) eq_refl (tpiece_vpiece _ Hw1 eq_refl)) as [H93 _].
    rewrite contains_no93 by exact H93. exact IH.
  - destruct (refp_no93 (T.PPredef e) eq_refl (tpiece_vpiece _ Hw1 eq_refl)) as [H93 _].
    rewrite contains_no93 by exact H93. exact IH.
Qed.

(* ------------------------------------------------------------------------------------------ *)
(* the token parsers: text stretches, CDATA sections, start tags                              *)
(* ------------------------------------------------------------------------------------------ *)

Variable C : Type.
Variable ev : Tokenizer.token -> C -> res C.
Notation st := (CstLex.st text).

Lemma tplain_walk : forall bs p post,
  forallb (fun x => T.is_tplain x && negb (x =? 60)) bs = true -> walk_ok text text_f p bs post.
Proof.
  induction bs as [|c r IH]; intros p post H; cbn [walk_ok]; [exact I|].
  cbn [forallb] in H. apply andb_true_iff in H. destruct H as [Hc H].
  apply andb_true_iff in Hc. destruct Hc as [Hc H60].
  destruct (tplain_char _ Hc) as (L & K & _).
  split; [exact K|]. split; [exact H60|]. apply IH. exact H.
Qed.

Lemma lex_text' p bs post c : W p (bs ++ post) ->
  forallb (fun x => T.is_tplain x && negb (x =? 60)) bs = true -> contains_b n3 bs = false -> text_stop post ->
  parse_text text C ev (st p (bs ++ post)) c =
  let! c' := ev (TText (sl p (p + blen bs)) (p, p + blen bs)) c in Ok (st (p + blen bs) post, c').
Proof.
  intros HW H1 H2 Hs. unfold parse_text. cbv zeta.
  change (fun (_ : stream) (ch : N) => negb (ch =? 60)) with text_f.
  rewrite (consume_chars_st text Hascii); [|exact HW|apply tplain_walk; exact H1|].
  2:{ destruct post as [|x post]; cbn [walk_stop]; [exact I|]. cbn [text_stop] in Hs. subst x.
      split; reflexivity. }
  cbn [bind]. rewrite (W_slice _ _ _ _ HW). change (b "]]>") with n3. rewrite H2, andb_false_r.
  reflexivity.
Qed.

Definition cdata_f (s : stream) (ch : N) : bool := negb ((ch =? 93) && starts_with s n3).

Lemma cdata_walk : forall bs p post, W p (bs ++ n3 ++ post) ->
  forallb T.is_tplain bs = true -> contains_b n3 bs = false ->
  walk_ok text cdata_f p bs (n3 ++ post).
Proof.
  induction bs as [|c r IH]; intros p post HW H1 H2; cbn [walk_ok]; [exact I|].
  cbn [forallb] in H1. apply andb_true_iff in H1. destruct H1 as [Hc H1].
  destruct (tplain_char _ Hc) as (L & K & _).
  cbn [contains_b] in H2. apply orb_false_iff in H2. destruct H2 as [H2 H2'].
  split; [exact K|]. split.
  - unfold cdata_f. rewrite (starts_with_st text) by exact HW.
    destruct (c =? 93) eqn:E; [|reflexivity]. cbn [andb]. apply N.eqb_eq in E. subst c.
    unfold n3 in *. destruct r as [|y [|z r]]; cbn [app prefix_b] in *.
    + reflexivity.
    + rewrite !N.eqb_refl. cbn [andb]. destruct (93 =? y); reflexivity.
    + rewrite H2. reflexivity.
  - apply IH; [apply (W_cons _ _ _ _ HW)|exact H1|exact H2'].
Qed.

Lemma lex_cdata p bs post c : W p (T.cdata_open ++ bs ++ n3 ++ post) ->
  forallb T.is_tplain bs = true -> contains_b n3 bs = false ->
  parse_cdata text C ev (st p (T.cdata_open ++ bs ++ n3 ++ post)) c =
  let! c' := ev (TCdata (sl (p + 9) (p + 9 + blen bs)) (p, p + 9 + blen bs + 3)) c in
  Ok (st (p + 9 + blen bs + 3) post, c').
Proof.
  intros HW H1 H2. unfold parse_cdata. cbv zeta.
  rewrite (advance_st text 9 p T.cdata_open) by (try reflexivity; exact HW). cbn [bind].
  pose proof (W_app _ _ _ _ HW) as HW1. change (blen T.cdata_open) with 9 in HW1.
  change (b "]]>") with n3.
  change (fun (s : stream) (ch : N) => negb ((ch =? 93) && starts_with s n3)) with cdata_f.
  rewrite (consume_chars_st text Hascii); [|exact HW1|apply cdata_walk; assumption|].
  2:{ cbn [walk_stop app n3]. split; [reflexivity|]. unfold cdata_f.
      rewrite (starts_with_st text) by (apply (W_app _ _ _ _ HW1)). reflexivity. }
  cbn [bind]. pose proof (W_app _ _ _ _ HW1) as HW2.
  rewrite (skip_string_st text) by exact HW2. cbn [bind]. cbn [CstLex.st s_pos].
  change (blen n3) with 3. reflexivity.
Qed.

(* ---- start tags with decoded attribute values ---- *)

Definition vlen (a : T.attr) : N := blen (T.r_pieces (T.a_value a)).

Definition attr_tok' (q : N) (a : T.attr) : Tokenizer.token :=
  let start := q + blen (T.a_ws a) in
  let ne := start + blen (T.a_name a) in
  let eqe := ne + blen (T.a_ws1 a) + 1 + blen (T.a_ws2 a) in
  let vs := eqe + 1 in
  let ve := vs + vlen a in
  TAttribute (start, ve + 1) (N.min (ne - start) qname_len_sat) (N.min (eqe - ne) eq_len_sat)
             (sl start start) (sl start ne) (sl vs ve).

Fixpoint attr_toks' (q : N) (attrs : list T.attr) : list Tokenizer.token :=
  match attrs with
  | [] => []
  | a :: r => attr_tok' q a :: attr_toks' (q + blen (T.r_attr a)) r
  end.

Lemma wf_attr_parts' a : T.wf_attr a = true ->
  T.a_ws a <> [] /\ Cst.wf_ws (T.a_ws a) = true /\ Cst.wf_name (T.a_name a) = true /\
  Cst.wf_ws (T.a_ws1 a) = true /\ Cst.wf_ws (T.a_ws2 a) = true /\
  (T.a_quote a = 39 \/ T.a_quote a = 34) /\
  forallb (T.wf_vpiece (T.a_quote a)) (T.a_value a) = true /\ T.no_adjacent_lit (T.a_value a) = true.
Proof.
  unfold T.wf_attr, T.wf_value. rewrite !andb_true_iff. intros (((((H1 & H2) & H3) & H4) & H5) & (H6 & H7)).
  repeat split; try assumption.
  - unfold Cst.wf_ws1 in H1. destruct (T.a_ws a); [discriminate|discriminate].
  - unfold Cst.wf_ws1 in H1. unfold Cst.wf_ws. destruct (T.a_ws a); [reflexivity|exact H1].
  - lia.
Qed.

Lemma value_bytes_facts quote V : forallb (vbyte quote) V = true ->
  forallb (fun y => negb ((y =? quote) || (y =? 60))) V = true /\
  forallb (fun x => x <? 128) V = true /\ forallb byte_is_char V = true.
Proof.
  intros Hv. split; [|split].
  - eapply forallb_imp; [|exact Hv]. intros x Hx. unfold vbyte in Hx. lia.
  - eapply forallb_imp; [|exact Hv]. intros x Hx. unfold vbyte in Hx.
    assert (Hp : T.is_tplain x = true) by lia. destruct (tplain_char _ Hp). lia.
  - eapply forallb_imp; [|exact Hv]. intros x Hx. unfold vbyte in Hx.
    assert (Hp : T.is_tplain x = true) by lia. apply (tplain_char _ Hp).
Qed.

Lemma lex_attr_iter' fuel ts q a more c : W q (T.r_attr a ++ more) -> T.wf_attr a = true ->
  parse_element_loop text C ev (S fuel) ts (st q (T.r_attr a ++ more)) c =
  let! c' := ev (attr_tok' q a) c in
  parse_element_loop text C ev fuel ts (st (q + blen (T.r_attr a)) more) c'.
Proof.
  intros HW Hwf. destruct (wf_attr_parts' _ Hwf) as (Hne & Hws & Hn & Hw1 & Hw2 & Hq & Hv & _).
  unfold attr_tok', vlen. cbv zeta.
  assert (Elen : q + blen (T.r_attr a) = q + blen (T.a_ws a) + blen (T.a_name a) + blen (T.a_ws1 a) + 1
                  + blen (T.a_ws2 a) + 1 + blen (T.r_pieces (T.a_value a)) + 1).
  { clear. unfold T.r_attr. rewrite !blen_app, !blen_cons, blen_nil. lia. }
  rewrite Elen. clear Elen.
  pose proof (vpieces_bytes (T.a_quote a) (T.a_value a) ltac:(destruct Hq; auto) Hv) as HV.
  unfold T.r_attr in *. rewrite <- !app_assoc in *. cbn [app] in *.
  destruct a as [ws name ws1 ws2 quote pieces]. cbn [T.a_ws T.a_name T.a_ws1 T.a_ws2 T.a_quote T.a_value] in *.
  set (value := T.r_pieces pieces) in *. clearbody value. clear Hv Hwf pieces.
  destruct (value_bytes_facts _ _ HV) as (Hv1 & Hv2 & Hv3). clear HV.
  assert (Hqq : (quote =? 39) || (quote =? 34) = true) by (clear - Hq; lia).
  assert (Hqsp : byte_is_space quote = false) by (clear - Hq; destruct Hq as [-> | ->]; reflexivity).
  clear Hq.
  destruct ws as [|w ws]; [congruence|]. clear Hne.
  destruct name as [|n name]; [discriminate|].
  assert (Hn0 : Cst.is_name_start n = true).
  { cbn [Cst.wf_name] in Hn. apply andb_true_iff in Hn. apply Hn. }
  destruct (name_start_byte _ Hn0) as (_ & _ & Hnsp & Hn47 & Hn62 & _).
  apply N.eqb_neq in Hn47, Hn62. clear Hn0.
  assert (Hwsp : byte_is_space w = true).
  { cbn [Cst.wf_ws forallb] in Hws. apply andb_true_iff in Hws. apply ws_space. apply Hws. }
  cbn [parse_element_loop]. rewrite (at_end_st text) by exact HW. cbn [app].
  unfold starts_with_space. rewrite (curr_byte_opt_st text) by exact HW.
  rewrite Hwsp. cbv zeta.
  change (w :: ws ++ ?l) with ((w :: ws) ++ l) in HW |- *.
  rewrite (skip_spaces_st text); [|exact HW|apply ws_spaces; exact Hws|cbn [app stops]; exact Hnsp].
  pose proof (W_app _ _ _ _ HW) as HW1. cbn [CstLex.st s_pos].
  try match goal with |- context [ {| s_pos := ?a; s_end := tlen text; s_rest := ?r |} ] => fold (st a r) end.
  cbn [app] in HW1 |- *.
  rewrite (curr_byte_st text) by exact HW1. cbn [bind].
  rewrite Hn47, Hn62.
  change (n :: name ++ ?l) with ((n :: name) ++ l) in HW1 |- *.
  rewrite (consume_qname_st text Hascii); [|exact HW1|exact Hn|].
  2:{ apply ws_stop_name; [exact Hw1|]. cbn [name_stop]. apply not_name_byte_lit. auto. }
  cbn [bind]. pose proof (W_app _ _ _ _ HW1) as HW2.
  unfold consume_eq.
  rewrite (skip_spaces_st text); [|exact HW2|apply ws_spaces; exact Hw1|reflexivity].
  pose proof (W_app _ _ _ _ HW2) as HW3.
  rewrite (consume_byte_st text) by exact HW3. cbn [bind].
  pose proof (W_cons _ _ _ _ HW3) as HW4.
  rewrite (skip_spaces_st text); [|exact HW4|apply ws_spaces; exact Hw2|cbn [stops]; exact Hqsp].
  pose proof (W_app _ _ _ _ HW4) as HW5. cbn [CstLex.st s_pos].
  try match goal with |- context [ {| s_pos := ?a; s_end := tlen text; s_rest := ?r |} ] => fold (st a r) end.
  unfold consume_quote. rewrite (curr_byte_st text) by exact HW5. cbn [bind].
  rewrite Hqq.
  rewrite (advance1_st text) by exact HW5. cbn [bind].
  pose proof (W_cons _ _ _ _ HW5) as HW6. cbn [CstLex.st s_pos].
  try match goal with |- context [ {| s_pos := ?a; s_end := tlen text; s_rest := ?r |} ] => fold (st a r) end.
  unfold advance_until2. rewrite (avail_st text) by exact HW6.
  rewrite find_idx_run; [|exact Hv1|rewrite N.eqb_refl; reflexivity].
  rewrite (advance_st text) by (try reflexivity; exact HW6). cbn [bind].
  pose proof (W_app _ _ _ _ HW6) as HW7. unfold slice_back. cbn [CstLex.st s_pos].
  pose proof (W_le _ _ _ HW7) as Hle7.
  rewrite (mk_slice_ok text Hascii) by (clear - Hle7; lia). cbn [bind].
  unfold is_xml_str. rewrite (W_slice _ _ _ _ HW6).
  rewrite Hv2. rewrite is_xml_str_ascii_ok by exact Hv3.
  cbn [bind].
  try match goal with |- context [ {| s_pos := ?a; s_end := tlen text; s_rest := ?r |} ] => fold (st a r) end.
  rewrite (consume_byte_st text) by exact HW7. cbn [bind]. cbn [CstLex.st s_pos].
  reflexivity.
Qed.

Lemma lex_elem_loop' ts ws_end empty post : forall attrs q c fuel,
  W q (flat_map T.r_attr attrs ++ ws_end ++ tag_tail empty ++ post) ->
  forallb T.wf_attr attrs = true -> Cst.wf_ws ws_end = true -> (length attrs < fuel)%nat ->
  parse_element_loop text C ev fuel ts (st q (flat_map T.r_attr attrs ++ ws_end ++ tag_tail empty ++ post)) c =
  let q' := q + blen (flat_map T.r_attr attrs) + blen ws_end in
  let! c1 := evs C ev (attr_toks' q attrs) c in
  let! c2 := ev (end_tok q' empty) c1 in
  Ok (negb empty, st (q' + blen (tag_tail empty)) post, c2).
Proof.
  induction attrs as [|a attrs IH]; intros q c fuel HW Ha Hws Hf; cbv zeta.
  - cbn [flat_map app attr_toks' evs bind] in *. rewrite blen_nil, N.add_0_r.
    destruct fuel as [|fu]; [cbn in Hf; lia|]. apply lex_elem_end; assumption.
  - cbn [forallb] in Ha. apply andb_true_iff in Ha. destruct Ha as [Ha1 Ha2].
    cbn [length] in Hf. destruct fuel as [|fu]; [lia|].
    cbn [flat_map attr_toks' evs] in *. rewrite <- app_assoc in *.
    rewrite lex_attr_iter' by assumption.
    destruct (ev (attr_tok' q a) c) as [c'| | |]; cbn [bind]; try reflexivity.
    rewrite IH; [|apply (W_app _ _ _ _ HW)|exact Ha2|exact Hws|lia]. cbv zeta.
    rewrite blen_app. rewrite !N.add_assoc. reflexivity.
Qed.

Lemma flat_attr_len' attrs : (length attrs <= length (flat_map T.r_attr attrs))%nat.
Proof.
  induction attrs as [|a attrs IH]; cbn [flat_map length]; [lia|]. rewrite app_length.
  unfold T.r_attr at 1. rewrite !app_length. cbn [length]. lia.
Qed.

Lemma attrs_name_stop' attrs ws_end empty post :
  forallb T.wf_attr attrs = true -> Cst.wf_ws ws_end = true ->
  name_stop (flat_map T.r_attr attrs ++ ws_end ++ tag_tail empty ++ post).
Proof.
  intros Ha Hws. destruct attrs as [|a attrs].
  - cbn [flat_map app]. apply ws_stop_name; [exact Hws|]. destruct empty; cbn [tag_tail app name_stop];
      apply not_name_byte_lit; auto.
  - cbn [forallb] in Ha. apply andb_true_iff in Ha. destruct Ha as [Ha _].
    destruct (wf_attr_parts' _ Ha) as (Hne & Hw & _). cbn [flat_map]. unfold T.r_attr.
    destruct (T.a_ws a) as [|w ws]; [congruence|]. cbn [app name_stop].
    cbn [Cst.wf_ws forallb] in Hw. apply andb_true_iff in Hw. apply ws_not_name_byte. apply Hw.
Qed.

Definition start_toks' (p : N) (name : bytes) (attrs : list T.attr) : list Tokenizer.token :=
  TElementStart (sl (p + 1) (p + 1)) (sl (p + 1) (p + 1 + blen name)) p :: attr_toks' (p + 1 + blen name) attrs.

Lemma lex_element' p name attrs ws_end empty post c :
  W p ([60] ++ name ++ flat_map T.r_attr attrs ++ ws_end ++ tag_tail empty ++ post) ->
  Cst.wf_name name = true -> forallb T.wf_attr attrs = true -> Cst.wf_ws ws_end = true ->
  let q' := p + 1 + blen name + blen (flat_map T.r_attr attrs) + blen ws_end in
  parse_element text C ev (st p ([60] ++ name ++ flat_map T.r_attr attrs ++ ws_end ++ tag_tail empty ++ post)) c =
  let! c1 := evs C ev (start_toks' p name attrs) c in
  let! c2 := ev (end_tok q' empty) c1 in
  Ok (negb empty, st (q' + blen (tag_tail empty)) post, c2).
Proof.
  intros HW Hn Ha Hws q'. unfold parse_element. cbv zeta. cbn [CstLex.st s_pos].
  fold (st p ([60] ++ name ++ flat_map T.r_attr attrs ++ ws_end ++ tag_tail empty ++ post)).
  rewrite (advance_st text 1 p [60]) by (try reflexivity; exact HW). cbn [bind].
  pose proof (W_app _ _ _ _ HW) as HW1. change (blen [60]) with 1 in HW1.
  rewrite (consume_qname_st text Hascii); [|exact HW1|exact Hn|apply attrs_name_stop'; assumption]. cbn [bind].
  unfold start_toks'. cbn [evs].
  destruct (ev _ c) as [c0| | |]; cbn [bind]; try reflexivity.
  pose proof (W_app _ _ _ _ HW1) as HW2.
  rewrite lex_elem_loop'; [|exact HW2|exact Ha|exact Hws|].
  2:{ cbn [CstLex.st s_rest]. rewrite app_length. pose proof (flat_attr_len' attrs). lia. }
  reflexivity.
Qed.

End Sub.

Print Assumptions reads_pieces.
Print Assumptions areads_pieces.
Print Assumptions lex_text'.
Print Assumptions lex_cdata.
Print Assumptions lex_element'.
