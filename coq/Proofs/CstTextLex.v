(* Proofs/CstTextLex.v -- C04/C05 on whole documents, lexer side: streams over a part of the input
   (the value of a text token or of an attribute), references, the chunk lists read by
   process_text / normalize_attribute on the pieces of Spec/CstText.v, and the token parsers on
   text stretches, CDATA sections and start tags with decoded attribute values. *)
From Coq Require Import Ascii String.
From Coq Require Import List NArith PeanoNat Bool Lia ZifyBool ZifyN ZifyNat.
Import ListNotations.
From RX Require Import Generated.
From RX.Model Require Import Base CharClass Stream Tokenizer Doc Builder Parse.
From RX.Spec Require Cst CstText Chars.
From RX.Spec Require Import Text.
From RX.Proofs Require Import CstLex TextMachine.
From RX.Proofs Require CharTablesProofs.
Open Scope N_scope.

Module T := CstText.

(* ------------------------------------------------------------------------------------------ *)
(* character classes                                                                          *)
(* ------------------------------------------------------------------------------------------ *)

Ltac tcls := unfold T.is_tplain, T.is_digit, Cst.is_ws, Cst.is_name_char, Cst.is_name_start,
  byte_is_char, byte_is_space, byte_is_name_start, byte_is_name, in_ranges,
  byte_space_ranges, byte_name_start_ranges, byte_name_ranges, byte_char_gt,
  is_ascii_hexdigit, is_ascii_digit in *;
  cbn [existsb fst snd] in *.

Lemma tplain_char x : T.is_tplain x = true -> x < 128 /\ char_is_char x = true /\ byte_is_char x = true.
Proof.
  intros H. assert (L : x < 128) by (tcls; lia). split; [exact L|]. split; [|tcls; lia].
  unfold char_is_char, char_char_ctl_cut, char_char_excluded. rewrite N.mod_small by lia.
  destruct (x <? 32) eqn:E; tcls; lia.
Qed.

(* the bytes of the rendering of a piece of a value quoted by q / of a text stretch (q = 60) *)
Definition vbyte (q : N) (x : N) : bool := T.is_tplain x && negb (x =? 60) && negb (x =? q).

Lemma forallb_app' {A} (f : A -> bool) l1 l2 : forallb f l1 = true -> forallb f l2 = true -> forallb f (l1 ++ l2) = true.
Proof. intros H1 H2. rewrite forallb_app, H1, H2. reflexivity. Qed.

Lemma digits_vbyte q hex ds : q = 39 \/ q = 34 \/ q = 60 -> forallb (T.is_digit hex) ds = true -> forallb (vbyte q) ds = true.
Proof.
  intros Hq. apply forallb_imp. intros x Hx. unfold vbyte. tcls. destruct hex; lia.
Qed.

Definition no_cdata (p : T.piece) : bool := match p with T.PCData _ => false | _ => true end.

Lemma vpiece_bytes q p : q = 39 \/ q = 34 \/ q = 60 -> T.wf_vpiece q p = true -> forallb (vbyte q) (T.r_piece p) = true.
Proof.
  intros Hq H. destruct p as [bs|hex ds|e|bs]; cbn [T.wf_vpiece T.r_piece] in *.
  - unfold T.wf_lit in H. apply andb_true_iff in H. destruct H as [_ H]. revert H. apply forallb_imp.
    intros x Hx. unfold vbyte. lia.
  - unfold T.wf_charref in H. rewrite !andb_true_iff in H. destruct H as [[_ H] _].
    apply forallb_app'; [unfold vbyte; tcls; cbn; lia|]. apply forallb_app'.
    + destruct hex; [unfold vbyte; tcls; cbn; lia|reflexivity].
    + apply forallb_app'; [eapply digits_vbyte; eassumption|unfold vbyte; tcls; cbn; lia].
  - destruct e; unfold vbyte; tcls; cbn; lia.
  - discriminate.
Qed.

Lemma vpieces_bytes q ps : q = 39 \/ q = 34 \/ q = 60 -> forallb (T.wf_vpiece q) ps = true ->
  forallb (vbyte q) (T.r_pieces ps) = true.
Proof.
  intros Hq. induction ps as [|p ps IH]; intros H; [reflexivity|]. cbn [forallb] in H.
  apply andb_true_iff in H. destruct H as [H1 H2]. cbn [T.r_pieces flat_map].
  apply forallb_app'; [apply vpiece_bytes; assumption|apply IH; exact H2].
Qed.

(* a text piece other than CDATA is a value piece for the "quote" '<' *)
Lemma tpiece_vpiece p : T.wf_tpiece p = true -> no_cdata p = true -> T.wf_vpiece 60 p = true.
Proof.
  destruct p as [bs|hex ds|e|bs]; cbn [T.wf_tpiece T.wf_vpiece no_cdata]; intros H N; try assumption; try discriminate.
  apply andb_true_iff in H. apply H.
Qed.

(* ------------------------------------------------------------------------------------------ *)
(* a stream over a part [.., e) of the input                                                  *)
(* ------------------------------------------------------------------------------------------ *)

Definition sst (e p : N) (r : bytes) : stream := {| s_pos := p; s_end := e; s_rest := r |}.

Lemma at_end_sst e p r : at_end (sst e p r) = (e <=? p).
Proof. reflexivity. Qed.

Lemma advance_sst n e p x l : n = blen x -> p + n <= e -> advance n (sst e p (x ++ l)) = Ok (sst e (p + n) l).
Proof.
  intros -> H. unfold advance, sst. cbn [s_pos s_end s_rest].
  replace (e <? p + blen x) with false by lia. unfold blen at 2. rewrite Nat2N.id, skipn_len_app. reflexivity.
Qed.

Lemma advance1_sst e p x l : p < e -> advance 1 (sst e p (x :: l)) = Ok (sst e (p + 1) l).
Proof. intros H. apply (advance_sst 1 e p [x] l); [reflexivity|lia]. Qed.

Lemma curr_byte_sst e p x l : p < e -> curr_byte (sst e p (x :: l)) = Ok x.
Proof. intros H. unfold curr_byte. rewrite at_end_sst. replace (e <=? p) with false by lia. reflexivity. Qed.

Lemma curr_byte_opt_sst e p x l : p < e -> curr_byte_opt (sst e p (x :: l)) = Some x.
Proof. intros H. unfold curr_byte_opt. rewrite at_end_sst. replace (e <=? p) with false by lia. reflexivity. Qed.

Lemma curr_byte_opt_end e p l : e <= p -> curr_byte_opt (sst e p l) = None.
Proof. intros H. unfold curr_byte_opt. rewrite at_end_sst. replace (e <=? p) with true by lia. reflexivity. Qed.

Lemma try_yes e p c l : p < e -> try_consume_byte c (sst e p (c :: l)) = (true, sst e (p + 1) l).
Proof.
  intros H. unfold try_consume_byte. rewrite curr_byte_opt_sst by exact H. rewrite N.eqb_refl.
  rewrite advance1_sst by exact H. reflexivity.
Qed.

Lemma try_no e p c x l : x <> c -> try_consume_byte c (sst e p (x :: l)) = (false, sst e p (x :: l)).
Proof.
  intros H. unfold try_consume_byte, curr_byte_opt. rewrite at_end_sst. destruct (e <=? p); [reflexivity|].
  cbn [sst s_rest]. replace (x =? c) with false by lia. reflexivity.
Qed.

Lemma consume_byte_sst text e p c l : p < e -> consume_byte text c (sst e p (c :: l)) = Ok (sst e (p + 1) l).
Proof.
  intros H. unfold consume_byte. rewrite curr_byte_sst by exact H. cbn [bind].
  rewrite N.eqb_refl. cbn [negb]. apply advance1_sst. exact H.
Qed.

Lemma skip_bytes_sst f e p x l : forallb f x = true -> stops f l -> p + blen x <= e ->
  skip_bytes f (sst e p (x ++ l)) = sst e (p + blen x) l.
Proof.
  intros Hx Hl H. unfold skip_bytes, sst. cbn [s_pos s_end s_rest].
  rewrite scan_run; [|exact Hx|exact Hl|unfold blen in *; lia].
  rewrite skipn_len_app. reflexivity.
Qed.

Lemma next_char_sst e p c l : p < e -> c < 128 -> next_char (sst e p (c :: l)) = Ok (Some (c, 1)).
Proof.
  intros H Hc. unfold next_char. rewrite at_end_sst. replace (e <=? p) with false by lia.
  cbn [s_rest sst]. rewrite decode1_ascii by exact Hc. cbn [s_end s_pos sst].
  replace (e <? p + 1) with false by lia. reflexivity.
Qed.

Lemma skip_name_loop_sst e : forall x p l fuel,
  forallb Cst.is_name_char x = true -> name_stop l -> l <> [] -> p + blen x < e -> (length x < fuel)%nat ->
  skip_name_loop fuel (sst e p (x ++ l)) = Ok (sst e (p + blen x) l).
Proof.
  induction x as [|c x IH]; intros p l fuel Hx Hl Hne He Hf.
  - cbn [app] in *. rewrite blen_nil, N.add_0_r in *. destruct fuel as [|fu]; [cbn in Hf; lia|].
    cbn [skip_name_loop]. destruct l as [|c l]; [congruence|]. destruct Hl as (H1 & H2 & H3).
    rewrite next_char_sst by assumption. cbn [bind].
    rewrite char_is_name_ascii by exact H1. rewrite H3. reflexivity.
  - destruct fuel as [|fu]; [cbn in Hf; lia|]. cbn [length] in Hf. cbn [app] in *.
    cbn [forallb] in Hx. apply andb_true_iff in Hx. destruct Hx as [Hc Hx].
    destruct (name_char_byte _ Hc) as (H1 & H2 & H3). rewrite blen_cons in He.
    cbn [skip_name_loop]. rewrite next_char_sst by (try assumption; lia). cbn [bind].
    rewrite char_is_name_ascii by exact H1. rewrite H3.
    rewrite advance1_sst by lia. cbn [bind].
    rewrite blen_cons. replace (p + (1 + blen x)) with (p + 1 + blen x) by lia.
    apply IH; [exact Hx|exact Hl|exact Hne|lia|lia].
Qed.

Section Sub.
Variable text : bytes.
Hypothesis Hascii : Forall (fun x => x < 128) text.

Notation W := (CstLex.W text).

Lemma consume_name_sst e name p l : W p (name ++ l) -> Cst.wf_name name = true -> name_stop l -> l <> [] ->
  p + blen name < e -> e <= tlen text ->
  consume_name text (sst e p (name ++ l)) = Ok (sl p (p + blen name), sst e (p + blen name) l).
Proof.
  intros HW Hn Hl Hne He Hle. unfold consume_name, skip_name. cbn [sst s_pos].
  destruct name as [|c x]; [discriminate|]. cbn [Cst.wf_name] in Hn.
  apply andb_true_iff in Hn. destruct Hn as [Hc Hx]. cbn [app] in *. rewrite blen_cons in He.
  fold (sst e p (c :: x ++ l)).
  destruct (name_start_byte _ Hc) as (H1 & H2 & _).
  rewrite next_char_sst by (try assumption; lia). cbn [bind].
  rewrite char_is_name_start_ascii by exact H1. rewrite H2.
  rewrite advance1_sst by lia. cbn [bind].
  rewrite skip_name_loop_sst; [|exact Hx|exact Hl|exact Hne|lia|cbn [sst s_rest]; rewrite app_length; lia].
  cbn [bind]. unfold slice_back. cbn [sst s_pos]. rewrite blen_cons.
  rewrite (mk_slice_ok text Hascii) by lia. cbn [bind]. unfold slice_len. cbn [sl sl_start sl_end].
  replace (p + 1 + blen x - p =? 0) with false by lia.
  replace (p + 1 + blen x) with (p + (1 + blen x)) by lia. reflexivity.
Qed.

(* ---- references ---- *)

Lemma predef_wf_name pe : Cst.wf_name (T.predef_name pe) = true.
Proof. destruct pe; reflexivity. Qed.

Lemma cref_predef e p pe more : W p (T.r_piece (T.PPredef pe) ++ more) ->
  p + blen (T.r_piece (T.PPredef pe)) <= e -> e <= tlen text ->
  consume_reference text (sst e p (T.r_piece (T.PPredef pe) ++ more)) =
  Ok (Some (RefChar (T.predef_char pe), sst e (p + blen (T.r_piece (T.PPredef pe))) more)).
Proof.
  intros HW He Hle. cbn [T.r_piece] in *. rewrite <- !app_assoc in *. cbn [app] in HW |- *.
  rewrite !blen_app, !blen_cons, blen_nil in *.
  unfold consume_reference. rewrite try_yes by lia.
  assert (Hfirst : exists x r, T.predef_name pe = x :: r /\ x <> 35) by (destruct pe; cbn; eexists; eexists; split; try reflexivity; lia).
  destruct Hfirst as (x0 & r0 & Ex & Hx0).
  replace (try_consume_byte 35 (sst e (p + 1) (T.predef_name pe ++ 59 :: more)))
    with (false, sst e (p + 1) (T.predef_name pe ++ 59 :: more))
    by (rewrite Ex; cbn [app]; symmetry; apply try_no; exact Hx0).
  cbn [negb].
  pose proof (W_cons _ _ _ _ HW) as HW1.
  rewrite (consume_name_sst e (T.predef_name pe) (p + 1) (59 :: more)); try assumption; try lia.
  2:{ apply predef_wf_name. }
  2:{ cbn [name_stop]. unfold not_name_byte. cls. lia. }
  2:{ discriminate. }
  rewrite (W_slice _ _ _ _ HW1). cbn [bind].
  rewrite consume_byte_sst by lia.
  destruct pe; cbn [T.predef_name T.predef_char]; f_equal; f_equal; f_equal; f_equal; cbn; lia.
Qed.

(* the digit value of the model and of the specification *)
Lemma hex_val_digit hex x : T.is_digit hex x = true -> hex_val x = T.digit_val x.
Proof. unfold hex_val, T.digit_val. tcls. intros H. destruct ((48 <=? x) && (x <=? 57)) eqn:E; [replace (x <? 58) with true by lia; reflexivity|]. replace (x <? 58) with false by (destruct hex; lia). reflexivity. Qed.

Lemma digits_val_ref hex : forall ds acc, forallb (T.is_digit hex) ds = true ->
  digits_val (if hex then 16 else 10) ds acc =
  fold_left (fun a x => a * (if hex then 16 else 10) + T.digit_val x) ds acc.
Proof.
  induction ds as [|x ds IH]; intros acc H; [reflexivity|]. cbn [forallb] in H.
  apply andb_true_iff in H. destruct H as [H1 H2]. cbn [digits_val fold_left].
  rewrite (hex_val_digit hex x H1). apply IH. exact H2.
Qed.

Lemma xml_Char_model n : Chars.xml_Char n = true -> is_scalar n = true /\ char_is_char n = true /\ n <= 1114111.
Proof.
  intros H.
  assert (S : Chars.scalar n = true /\ n <= 1114111).
  { unfold Chars.xml_Char, Chars.in_ranges, Chars.xml_Char_ranges in H. cbn [existsb fst snd] in H.
    unfold Chars.scalar. lia. }
  destruct S as [S L]. split; [exact S|]. split; [|exact L].
  destruct (CharTablesProofs.char_tables_conform n S) as [E _]. rewrite E. exact H.
Qed.

Lemma digit_filter hex ds : forallb (T.is_digit hex) ds = true ->
  forallb (if hex then is_ascii_hexdigit else is_ascii_digit) ds = true.
Proof. destruct hex; apply forallb_imp; intros x Hx; unfold T.is_digit, is_ascii_hexdigit, is_ascii_digit in *; lia. Qed.

Lemma cref_charref e p hex ds more : W p (T.r_piece (T.PCharRef hex ds) ++ more) -> T.wf_charref hex ds = true ->
  p + blen (T.r_piece (T.PCharRef hex ds)) <= e -> e <= tlen text ->
  consume_reference text (sst e p (T.r_piece (T.PCharRef hex ds) ++ more)) =
  Ok (Some (RefChar (T.ref_val hex ds), sst e (p + blen (T.r_piece (T.PCharRef hex ds))) more)).
Proof.
  intros HW Hwf He Hle. unfold T.wf_charref in Hwf. rewrite !andb_true_iff in Hwf.
  destruct Hwf as [[Hne Hd] Hc]. destruct (xml_Char_model _ Hc) as (Hs & Hcc & Hmax).
  cbn [T.r_piece] in *. rewrite <- !app_assoc in *. cbn [app] in HW |- *.
  assert (Hd0 : exists x r, ds = x :: r /\ T.is_digit hex x = true).
  { destruct ds as [|x r]; [discriminate|]. cbn [forallb] in Hd. apply andb_true_iff in Hd. eexists. eexists. split; [reflexivity|apply Hd]. }
  destruct Hd0 as (x0 & r0 & Eds & Hx0).
  unfold consume_reference.
  assert (Lall : p + 2 + blen (if hex then [120] else []) + blen ds + 1 <= e).
  { rewrite !blen_app, !blen_cons, blen_nil in He. clear - He. generalize dependent (blen (if hex then [120] else [])). intros; lia. }
  rewrite try_yes by lia. rewrite try_yes by lia. cbn [negb].
  pose proof (W_cons _ _ _ _ (W_cons _ _ _ _ HW)) as HW2.
  replace (p + 1 + 1) with (p + 2) in * by lia.
  set (ph := p + 2 + blen (if hex then [120] else [])).
  assert (Etry : try_consume_byte 120 (sst e (p + 2) ((if hex then [120] else []) ++ ds ++ 59 :: more)) =
                 (hex, sst e ph (ds ++ 59 :: more))).
  { unfold ph. destruct hex; cbn [app].
    - rewrite try_yes by (rewrite blen_cons, blen_nil in Lall; lia). reflexivity.
    - rewrite Eds. cbn [app]. rewrite try_no; [rewrite blen_nil, N.add_0_r; reflexivity|]. tcls. cbn in Hx0. lia. }
  rewrite Etry.
  pose proof (W_app _ _ _ _ HW2) as HW3. fold ph in HW3.
  unfold consume_bytes.
  rewrite skip_bytes_sst; [|apply digit_filter; exact Hd| |unfold ph; lia].
  2:{ cbn [stops]. destruct hex; reflexivity. }
  unfold slice_back. cbn [sst s_pos].
  rewrite (mk_slice_ok text Hascii) by (unfold ph in *; lia). cbn [bind].
  rewrite (W_slice _ _ _ _ HW3). rewrite Eds at 1. rewrite <- Eds.
  rewrite digits_val_ref by exact Hd. fold (T.ref_val hex ds).
  replace (u32_max <? T.ref_val hex ds) with false by (unfold u32_max; lia).
  rewrite Hs, Hcc. cbn [negb].
  rewrite consume_byte_sst by (unfold ph; lia). cbn [bind].
  f_equal. f_equal. f_equal. f_equal. unfold ph. rewrite !blen_app, !blen_cons, blen_nil. lia.
Qed.

Lemma utf8_encode c : T.utf8 c = encode_utf8 c.
Proof. reflexivity. Qed.

(* ---- the chunks read from the rendering of reference-and-literal pieces ---- *)

Definition rpiece_ok (q : N) (p : T.piece) : Prop := T.wf_vpiece q p = true.

Lemma pnc_byte es e p x l : p < e -> x <> 38 ->
  parse_next_chunk text (sst e p (x :: l)) es = Ok (ChByte x, sst e (p + 1) l).
Proof.
  intros H Hx. unfold parse_next_chunk. rewrite at_end_sst. replace (e <=? p) with false by lia.
  cbn [curr_byte_unchecked sst s_rest bind]. replace (x =? 38) with false by lia.
  fold (sst e p (x :: l)). rewrite advance1_sst by exact H. reflexivity.
Qed.

Lemma pnc_ref es e p l c s' : p < e -> consume_reference text (sst e p (38 :: l)) = Ok (Some (RefChar c, s')) ->
  parse_next_chunk text (sst e p (38 :: l)) es = Ok (ChChar c, s').
Proof.
  intros H E. unfold parse_next_chunk. rewrite at_end_sst. replace (e <=? p) with false by lia.
  cbn [curr_byte_unchecked sst s_rest bind]. change (38 =? 38) with true. cbv iota zeta.
  fold (sst e p (38 :: l)). rewrite E. reflexivity.
Qed.

Lemma lit_not_amp q bs : T.wf_lit q bs = true -> forallb (fun x => negb (x =? 38) && negb (x =? 60)) bs = true.
Proof.
  unfold T.wf_lit. intros H. apply andb_true_iff in H. destruct H as [_ H]. revert H. apply forallb_imp.
  intros x Hx. lia.
Qed.

Lemma blen_pos_app (x l : bytes) p e : p + blen (x ++ l) <= e -> x <> [] -> p < e.
Proof. intros H Hx. destruct x; [congruence|]. cbn [app] in H. rewrite blen_cons in H. lia. Qed.

Lemma r_piece_ne q p : T.wf_vpiece q p = true -> exists x r, T.r_piece p = x :: r.
Proof.
  destruct p as [bs|hex ds|e|bs]; cbn [T.wf_vpiece T.r_piece]; intros H; try discriminate; try (eexists; eexists; reflexivity).
  unfold T.wf_lit in H. destruct bs; [discriminate|]. eauto.
Qed.

Lemma reads_pieces q es e : q = 39 \/ q = 34 \/ q = 60 -> forall ps p more,
  W p (T.r_pieces ps ++ more) -> forallb (T.wf_vpiece q) ps = true ->
  p + blen (T.r_pieces ps) = e -> e <= tlen text ->
  reads text es (sst e p (T.r_pieces ps ++ more)) (flat_map T.piece_chunks ps).
Proof.
  intros Hq. induction ps as [|pc ps IH]; intros p more HW Hwf He Hle.
  - cbn [T.r_pieces flat_map app] in *. rewrite blen_nil in He. apply reads_end.
    rewrite at_end_sst. lia.
  - cbn [forallb] in Hwf. apply andb_true_iff in Hwf. destruct Hwf as [Hp Hps].
    cbn [T.r_pieces flat_map] in *. fold (T.r_pieces ps) in *. rewrite <- app_assoc in *.
    rewrite blen_app in He.
    assert (IH' : reads text es (sst e (p + blen (T.r_piece pc)) (T.r_pieces ps ++ more)) (flat_map T.piece_chunks ps)).
    { apply IH; [apply (W_app _ _ _ _ HW)|exact Hps|lia|exact Hle]. }
    destruct pc as [bs|hex ds|pe|bs]; cbn [T.wf_vpiece] in Hp; try discriminate.
    + (* literal bytes, one by one *)
      apply lit_not_amp in Hp. cbn [T.r_piece T.piece_chunks] in *.
      clear IH Hps. revert p HW He IH'. induction bs as [|x bs IHb]; intros p HW He IH'.
      * cbn [map app] in *. rewrite blen_nil, N.add_0_r in IH'. exact IH'.
      * cbn [forallb] in Hp. apply andb_true_iff in Hp. destruct Hp as [Hx Hb].
        cbn [map app] in *. rewrite blen_cons in *.
        eapply reads_byte.
        -- rewrite at_end_sst. lia.
        -- apply pnc_byte; lia.
        -- apply IHb; [exact Hb|apply (W_cons _ _ _ _ HW)|lia|].
           replace (p + 1 + blen bs) with (p + (1 + blen bs)) by lia. exact IH'.
    + cbn [T.piece_chunks app]. rewrite utf8_encode.
      pose proof (cref_charref e p hex ds (T.r_pieces ps ++ more) HW Hp ltac:(lia) Hle) as E.
      cbn [T.r_piece] in E, HW, He, IH' |- *. rewrite <- !app_assoc in *. cbn [app] in E |- *.
      eapply reads_char; [rewrite at_end_sst; rewrite !blen_cons in He; lia| |exact IH'].
      apply pnc_ref; [rewrite !blen_cons in He; lia|exact E].
    + cbn [T.piece_chunks app].
      change [T.predef_char pe] with (encode_utf8 (T.predef_char pe)) by (destruct pe; reflexivity).
      pose proof (cref_predef e p pe (T.r_pieces ps ++ more) HW ltac:(lia) Hle) as E.
      cbn [T.r_piece] in E, HW, He, IH' |- *. rewrite <- !app_assoc in *. cbn [app] in E |- *.
      eapply reads_char; [rewrite at_end_sst; rewrite !blen_cons in He; lia| |exact IH'].
      apply pnc_ref; [rewrite !blen_cons in He; lia|exact E].
Qed.

End Sub.
