(* Proofs/ErrShiftStream.v -- C14, part 2: the Stream primitives under the shift, with the errors
   of the two runs related (same variant, same payload, position of the same place). *)
From Coq Require Import List Arith NArith Bool Lia ZifyBool ZifyN ZifyNat.
Import ListNotations.
From RX Require Import Generated.
From RX.Model Require Import Base CharClass Stream.
From RX.Proofs Require Import Tactics NoPanicUtf8 NoPanicStream RangeShiftBase RangeShiftStream ErrShiftBase.
Open Scope N_scope.

(* one step of a lockstep proof *)
Ltac re_core spec :=
  lazymatch goal with
  | |- rsimE _ _ _ (Ok _) (Ok _) => apply rsimE_ret; try reflexivity
  | |- rsimE _ _ _ (Err _) (Err _) => apply rsimE_same_err; reflexivity
  | |- rsimE _ _ _ (Panic _) (Panic _) => apply rsimE_panic
  | |- rsimE _ _ _ OutOfFuel OutOfFuel => apply rsimE_fuel
  | |- rsimE _ _ _ (bind _ _) (bind _ _) =>
    eapply rsimE_bind; [ solve [spec] | let a := fresh "a" in let Ea := fresh "Ea" in intros a Ea; cbv beta ]
  | |- rsimE _ _ _ (if ?b then _ else _) (if ?b then _ else _) => let E := fresh "E" in destruct b eqn:E
  | |- rsimE _ _ _ (match ?x with _ => _ end) (match ?x with _ => _ end) =>
    first [ is_var x; destruct x | let E := fresh "E" in destruct x eqn:E ]
  | |- rsimE _ _ _ (let _ := _ in _) _ => cbv zeta
  | |- rsimE _ _ _ _ _ => solve [spec]
  end.

Section Shift.
Variable ws text : bytes.
Hypothesis Hvalid : valid_utf8_b text = true.
Hypothesis Hws : forallb byte_is_space ws = true.
Notation text2 := (ws ++ text).
Notation k := (blen ws).
Notation shs := (sh_s k).
Notation shl := (sh_sl k).
Notation rsimE := (rsimE ws text).

Ltac sync1 :=
  rewrite ?(at_end_sh ws), ?(starts_with_sh ws), ?(curr_byte_opt_sh ws), ?(starts_with_space_sh ws),
          ?(skip_spaces_sh ws), ?(skip_bytes_sh ws), ?(next_byte_sh ws),
          ?(slice_bytes_shift ws), ?(slice_len_shift ws), ?(avail_sh ws), ?s_rest_sh, ?s_pos_sh.
Ltac sync := repeat (progress sync1).

Ltac eat := apply (err_at_shE ws text Hvalid); pc.
Ltac efr := apply (err_from_shE ws text Hvalid); [pc|first [reflexivity|lia]].

Lemma advance_shE n s : rsimE shs (advance n s) (advance n (shs s)).
Proof.
  apply rsimf_E; [|apply (advance_sh ws)]. intros e. unfold advance. destruct (_ <? _); discriminate.
Qed.

Lemma curr_byte_simE s : rsimE idf (curr_byte s) (curr_byte (shs s)).
Proof.
  rewrite (curr_byte_sh ws). apply id_simE. unfold curr_byte, curr_byte_unchecked.
  destruct (at_end s); [reflexivity|]. destruct (s_rest s); exact I.
Qed.

Lemma curr_byte_unchecked_simE s : rsimE idf (curr_byte_unchecked s) (curr_byte_unchecked (shs s)).
Proof. apply id_simE. unfold curr_byte_unchecked. cbn. destruct (s_rest s); exact I. Qed.

Ltac base0 := first [ eat | efr | apply advance_shE | apply curr_byte_simE | apply curr_byte_unchecked_simE ].
Ltac re spec := sync; re_core ltac:(first [spec | base0]); unfold idf.
Ltac re0 := sync; re_core ltac:(base0); unfold idf.

Lemma consume_byte_shE c s : rsimE shs (consume_byte text c s) (consume_byte text2 c (shs s)).
Proof. unfold consume_byte. repeat re0. Qed.

Lemma skip_string_shE p s : rsimE shs (skip_string text p s) (skip_string text2 p (shs s)).
Proof. unfold skip_string. repeat re0. Qed.

Lemma mk_slice_shE a e : rsimE shl (mk_slice text a e) (mk_slice text2 (a + k) (e + k)).
Proof.
  apply rsimf_E; [|apply (mk_slice_sh ws text Hvalid)]. intros e0. unfold mk_slice.
  destruct (_ || _); [discriminate|]. destruct (_ && _); discriminate.
Qed.

Lemma slice_back_shE start s :
  rsimE shl (slice_back text start s) (slice_back text2 (start + k) (shs s)).
Proof. unfold slice_back. rewrite s_pos_sh. apply mk_slice_shE. Qed.

Lemma consume_bytes_shE f s :
  rsimE (pmap shl shs) (consume_bytes text f s) (consume_bytes text2 f (shs s)).
Proof. unfold consume_bytes. cbv zeta. repeat re ltac:(first [apply slice_back_shE]). Qed.

Lemma consume_spaces_shE s : rsimE shs (consume_spaces text s) (consume_spaces text2 (shs s)).
Proof. unfold consume_spaces. repeat re0. Qed.

Lemma advance_until2_shE n1 n2 s :
  rsimE shs (advance_until2 n1 n2 s) (advance_until2 n1 n2 (shs s)).
Proof. unfold advance_until2. repeat re0. Qed.

Lemma next_char_simE s : rsimE idf (next_char s) (next_char (shs s)).
Proof.
  rewrite (next_char_sh ws). apply id_simE. unfold next_char. destruct (at_end s); [exact I|].
  destruct (decode1 _) as [[c n]|]; [|exact I]. destruct (_ <? _); exact I.
Qed.

Lemma skip_chars_loop_shE f : (forall s c, f (shs s) c = f s c) ->
  forall fuel s, rsimE shs (skip_chars_loop text fuel f s) (skip_chars_loop text2 fuel f (shs s)).
Proof.
  intros Hf. induction fuel as [|fu IH]; intros s; cbn [skip_chars_loop]; [reflexivity|].
  eapply rsimE_bind; [apply next_char_simE|]. intros oc _. unfold idf.
  destruct oc as [[c n]|]; [|reflexivity].
  destruct (negb (char_is_char c)); [eat|].
  rewrite Hf. destruct (f s c); [|reflexivity].
  eapply rsimE_bind; [apply advance_shE|]. intros s1 _. apply IH.
Qed.

Lemma skip_chars_shE f s : (forall s c, f (shs s) c = f s c) ->
  rsimE shs (skip_chars text f s) (skip_chars text2 f (shs s)).
Proof. intros Hf. unfold skip_chars. rewrite s_rest_sh. apply skip_chars_loop_shE. exact Hf. Qed.

Lemma consume_chars_shE f s : (forall s c, f (shs s) c = f s c) ->
  rsimE (pmap shl shs) (consume_chars text f s) (consume_chars text2 f (shs s)).
Proof.
  intros Hf. unfold consume_chars.
  repeat re ltac:(first [apply skip_chars_shE; exact Hf | apply slice_back_shE]).
Qed.

Lemma skip_name_loop_shE : forall fuel s,
  rsimE shs (skip_name_loop fuel s) (skip_name_loop fuel (shs s)).
Proof.
  induction fuel as [|fu IH]; intros s; cbn [skip_name_loop]; [reflexivity|].
  eapply rsimE_bind; [apply next_char_simE|]. intros oc _. unfold idf.
  destruct oc as [[c n]|]; [|reflexivity]. destruct (char_is_name c); [|reflexivity].
  eapply rsimE_bind; [apply advance_shE|]. intros s1 _. apply IH.
Qed.

Lemma skip_name_shE s : rsimE shs (skip_name text s) (skip_name text2 (shs s)).
Proof.
  unfold skip_name. cbv zeta.
  eapply rsimE_bind; [apply next_char_simE|]. intros oc _. unfold idf.
  destruct oc as [[c n]|]; [|reflexivity]. destruct (char_is_name_start c); [|efr].
  eapply rsimE_bind; [apply advance_shE|]. intros s1 _. cbv beta. rewrite s_rest_sh.
  apply skip_name_loop_shE.
Qed.

Lemma consume_name_shE s :
  rsimE (pmap shl shs) (consume_name text s) (consume_name text2 (shs s)).
Proof.
  unfold consume_name. cbv zeta.
  eapply rsimE_bind; [apply skip_name_shE|]. intros s1 _. cbv beta.
  eapply rsimE_bind; [apply slice_back_shE|]. intros nm _. cbv beta.
  rewrite (slice_len_shift ws). destruct (slice_len nm =? 0); [efr|reflexivity].
Qed.

Notation sh_opt := (RangeShiftStream.sh_opt ws).
Notation sh_qn := (RangeShiftStream.sh_qn ws).
Notation sh_refres := (RangeShiftStream.sh_refres ws).

Lemma consume_qname_loop_shE : forall fuel start spl s,
  rsimE (pmap sh_opt shs) (consume_qname_loop text fuel start spl s)
        (consume_qname_loop text2 fuel (start + k) (sh_opt spl) (shs s)).
Proof.
  induction fuel as [|fu IH]; intros start spl s; cbn [consume_qname_loop]; [reflexivity|].
  rewrite (at_end_sh ws). destruct (at_end s); [reflexivity|].
  eapply rsimE_bind; [apply curr_byte_unchecked_simE|]. intros x _. unfold idf.
  destruct (x <? 128).
  - destruct (x =? 58).
    + destruct spl as [sp|]; cbn [RangeShiftStream.sh_opt option_map]; [efr|].
      eapply rsimE_bind; [apply advance_shE|]. intros s1 _. cbv beta. rewrite s_pos_sh.
      apply (IH start (Some (s_pos s)) s1).
    + destruct (byte_is_name x); [|reflexivity].
      eapply rsimE_bind; [apply advance_shE|]. intros s1 _. apply IH.
  - eapply rsimE_bind; [apply next_char_simE|]. intros oc _. unfold idf.
    destruct oc as [[c n]|]; [|reflexivity]. destruct (char_is_name c); [|reflexivity].
    eapply rsimE_bind; [apply advance_shE|]. intros s1 _. apply IH.
Qed.

Lemma consume_qname_shE s : rsimE sh_qn (consume_qname text s) (consume_qname text2 (shs s)).
Proof.
  unfold consume_qname. cbv zeta. rewrite s_rest_sh, s_pos_sh.
  eapply rsimE_bind; [apply (consume_qname_loop_shE _ (s_pos s) None s)|].
  intros [spl s1] _. cbn [pmap fst snd]. cbv beta iota.
  eapply rsimE_bind with (f := pmap shl shl).
  - destruct spl as [sp|]; cbn [RangeShiftStream.sh_opt option_map].
    + eapply rsimE_bind; [apply mk_slice_shE|]. intros p _. cbv beta.
      replace (sp + k + 1) with (sp + 1 + k) by lia.
      eapply rsimE_bind; [apply slice_back_shE|]. intros l _. reflexivity.
    + eapply rsimE_bind; [apply slice_back_shE|]. intros l _. cbv beta.
      eapply rsimE_bind; [apply mk_slice_shE|]. intros p _. reflexivity.
  - intros [p l] _. cbn [pmap fst snd]. cbv beta iota.
    rewrite !(slice_len_shift ws), !(slice_bytes_shift ws).
    destruct (_ && _); [efr|]. destruct (negb _); [efr|]. reflexivity.
Qed.

Lemma consume_eq_shE s : rsimE shs (consume_eq text s) (consume_eq text2 (shs s)).
Proof.
  unfold consume_eq. cbv zeta. rewrite (skip_spaces_sh ws).
  eapply rsimE_bind; [apply consume_byte_shE|]. intros s1 _. cbv beta. rewrite (skip_spaces_sh ws). reflexivity.
Qed.

Lemma consume_quote_shE s : rsimE (pmap idf shs) (consume_quote text s) (consume_quote text2 (shs s)).
Proof.
  unfold consume_quote.
  eapply rsimE_bind; [apply curr_byte_simE|]. intros c _. unfold idf.
  destruct (_ || _); [|eat].
  eapply rsimE_bind; [apply advance_shE|]. intros s1 _. reflexivity.
Qed.

(* consume_reference turns every error into "no reference" *)
Lemma consume_reference_shE s :
  rsimE sh_refres (consume_reference text s) (consume_reference text2 (shs s)).
Proof.
  apply rsimf_E; [|apply (consume_reference_sh ws text Hvalid Hws)].
  intros e H. unfold consume_reference in H.
  destruct (try_consume_byte 38 s) as [ok s1]. destruct (negb ok); [discriminate|].
  destruct (try_consume_byte 35 s1) as [is_num s2].
  apply bind_err in H. destruct H as [H|[r [Hr H]]].
  - destruct is_num.
    + destruct (try_consume_byte 120 s2) as [is_hex s3].
      apply bind_err in H. destruct H as [H|[[v s4] [_ H]]].
      * unfold consume_bytes in H. cbv zeta in H. apply bind_err in H. destruct H as [H|[sl [_ H]]]; [|discriminate].
        unfold slice_back, mk_slice in H. destruct (_ || _); [discriminate|]. destruct (_ && _); discriminate.
      * cbv beta iota zeta in H. destruct (slice_bytes text v); [discriminate|].
        destruct (_ <? _); [discriminate|]. destruct (negb _); discriminate.
    + destruct (consume_name text s2) as [[nm s3]| | |]; discriminate.
  - destruct r as [[r0 s5]|]; [|discriminate]. destruct (consume_byte text 59 s5); discriminate.
Qed.

Lemma is_xml_str_ascii_shE : forall l i,
  rsimE idf (is_xml_str_ascii text l i) (is_xml_str_ascii text2 l (i + k)).
Proof.
  induction l as [|x l IH]; intros i; cbn [is_xml_str_ascii]; [reflexivity|].
  destruct (negb (byte_is_char x)); [efr|]. replace (i + k + 1) with (i + 1 + k) by lia. apply IH.
Qed.

Lemma is_xml_str_unicode_shE : forall fuel l i,
  rsimE idf (is_xml_str_unicode text fuel l i) (is_xml_str_unicode text2 fuel l (i + k)).
Proof.
  induction fuel as [|fu IH]; intros l i; cbn [is_xml_str_unicode]; [reflexivity|].
  destruct l as [|x l']; [reflexivity|]. destruct (decode1 (x :: l')) as [[c n]|]; [|reflexivity].
  destruct (negb (char_is_char c)); [efr|]. replace (i + k + n) with (i + n + k) by lia. apply IH.
Qed.

Lemma is_xml_str_shE sl i :
  rsimE idf (is_xml_str text sl i) (is_xml_str text2 (shl sl) (i + k)).
Proof.
  unfold is_xml_str. cbv zeta. rewrite (slice_bytes_shift ws).
  destruct (forallb (fun x => x <? 128) (slice_bytes text sl)); [apply is_xml_str_ascii_shE|apply is_xml_str_unicode_shE].
Qed.

Lemma stream_from_substr_shE a e :
  rsimE shs (stream_from_substr text a e) (stream_from_substr text2 (a + k) (e + k)).
Proof.
  apply rsimf_E; [|apply (stream_from_substr_sh ws)]. intros e0. unfold stream_from_substr.
  destruct (_ || _); discriminate.
Qed.

End Shift.
