(* Proofs/TermUtf8.v -- a valid UTF-8 text is [safe]: the only way to decode the char '<'
   is from the byte '<'.  Also the counterexample that shows why termination needs it. *)
From Coq Require Import List NArith Bool Lia ZifyBool ZifyN ZifyNat.
Import ListNotations.
From RX Require Import Generated.
From RX.Model Require Import Base CharClass Stream Tokenizer Doc Builder Parse.
From RX.Proofs Require Import TermStream.
Open Scope N_scope.

Lemma cont_no_decode x r : is_cont x = true -> decode1 (x :: r) = None.
Proof.
  unfold is_cont, decode1. intros H.
  destruct (x <? 128) eqn:E1; [lia|]. destruct (x <? 192) eqn:E2; [reflexivity|lia].
Qed.

(* the shape of a successfully decoded head *)
Lemma decode1_shape l c n : decode1 l = Some (c, n) ->
  (n = 1 /\ exists b0 r, l = b0 :: r /\ c = b0 /\ b0 < 128) \/
  (n = 2 /\ exists b0 b1 r, l = b0 :: b1 :: r /\ 128 <= b0 /\ is_cont b1 = true) \/
  (n = 3 /\ exists b0 b1 b2 r, l = b0 :: b1 :: b2 :: r /\ 128 <= b0 /\
            is_cont b1 = true /\ is_cont b2 = true) \/
  (n = 4 /\ exists b0 b1 b2 b3 r, l = b0 :: b1 :: b2 :: b3 :: r /\ 128 <= b0 /\
            is_cont b1 = true /\ is_cont b2 = true /\ is_cont b3 = true).
Proof.
  unfold decode1. destruct l as [|b0 r]; [discriminate|].
  destruct (b0 <? 128) eqn:E0.
  { intros [= <- <-]. left. split; [reflexivity|]. exists b0, r. repeat split; lia. }
  destruct (b0 <? 192); [discriminate|].
  destruct (b0 <? 224).
  { destruct r as [|b1 r]; [discriminate|]. destruct (is_cont b1) eqn:C1; [|discriminate].
    intros [= <- <-]. right; left. split; [reflexivity|]. exists b0, b1, r. repeat split; auto; lia. }
  destruct (b0 <? 240).
  { destruct r as [|b1 [|b2 r]]; try discriminate.
    destruct (is_cont b1) eqn:C1; [|discriminate]. destruct (is_cont b2) eqn:C2; [|discriminate].
    cbn [andb]. intros [= <- <-]. right; right; left. split; [reflexivity|].
    exists b0, b1, b2, r. repeat split; auto; lia. }
  destruct (b0 <? 248); [|discriminate].
  destruct r as [|b1 [|b2 [|b3 r]]]; try discriminate.
  destruct (is_cont b1) eqn:C1; [|discriminate]. destruct (is_cont b2) eqn:C2; [|discriminate].
  destruct (is_cont b3) eqn:C3; [|discriminate].
  cbn [andb]. intros [= <- <-]. right; right; right. split; [reflexivity|].
  exists b0, b1, b2, b3, r. repeat split; auto; lia.
Qed.

Lemma bytes_eqb_head a x y l : bytes_eqb (a :: x) (y :: l) = true -> a = y.
Proof. cbn [bytes_eqb]. intros H. apply andb_prop in H. destruct H as [H _]. lia. Qed.

Ltac cont_contra :=
  match goal with
  | Hc : is_cont ?y = true, Hd : decode1 (?y :: ?t) = Some _ |- _ =>
      rewrite (cont_no_decode y t Hc) in Hd; discriminate
  end.

Lemma valid_safe fuel : forall l, valid_utf8_fuel fuel l = true -> safe l.
Proof.
  induction fuel; intros l Hv; [discriminate|]. cbn [valid_utf8_fuel] in Hv.
  destruct l as [|y0 l0] eqn:El.
  { intros k x r c n E. destruct k; discriminate. }
  rewrite <- El in *.
  destruct (decode1 l) as [[c0 n0]|] eqn:Ed; [|discriminate].
  apply andb_prop in Hv. destruct Hv as [Hv Hrest].
  apply andb_prop in Hv. destruct Hv as [Hsc Henc].
  apply IHfuel in Hrest.
  assert (Hhead : forall x r, l = x :: r -> c0 = 60 -> x = 60).
  { intros x r E Hc. subst c0. pose proof (decode1_len _ _ _ Ed) as Hn.
    rewrite E in Henc. destruct (N.to_nat n0) eqn:En; [lia|]. cbn [firstn] in Henc.
    change (encode_utf8 60) with [60] in Henc. apply bytes_eqb_head in Henc. auto. }
  intros k x r c n E Hd Hc.
  destruct (decode1_shape _ _ _ Ed) as [[-> H]|[[-> H]|[[-> H]|[-> H]]]].
  - destruct H as (b0 & r0 & -> & _ & _). change (N.to_nat 1) with 1%nat in Hrest.
    destruct k as [|k]; cbn [skipn] in *.
    + injection E as <- <-. rewrite Hd in Ed. injection Ed as <- _. eapply Hhead; eauto.
    + eapply Hrest; eauto.
  - destruct H as (b0 & b1 & r0 & -> & _ & C1). change (N.to_nat 2) with 2%nat in Hrest.
    destruct k as [|[|k]]; cbn [skipn] in *.
    + injection E as <- <-. rewrite Hd in Ed. injection Ed as <- _. eapply Hhead; eauto.
    + injection E as <- <-. cont_contra.
    + eapply Hrest; eauto.
  - destruct H as (b0 & b1 & b2 & r0 & -> & _ & C1 & C2). change (N.to_nat 3) with 3%nat in Hrest.
    destruct k as [|[|[|k]]]; cbn [skipn] in *.
    + injection E as <- <-. rewrite Hd in Ed. injection Ed as <- _. eapply Hhead; eauto.
    + injection E as <- <-. cont_contra.
    + injection E as <- <-. cont_contra.
    + eapply Hrest; eauto.
  - destruct H as (b0 & b1 & b2 & b3 & r0 & -> & _ & C1 & C2 & C3).
    change (N.to_nat 4) with 4%nat in Hrest.
    destruct k as [|[|[|[|k]]]]; cbn [skipn] in *.
    + injection E as <- <-. rewrite Hd in Ed. injection Ed as <- _. eapply Hhead; eauto.
    + injection E as <- <-. cont_contra.
    + injection E as <- <-. cont_contra.
    + injection E as <- <-. cont_contra.
    + eapply Hrest; eauto.
Qed.

Theorem valid_utf8_safe text : valid_utf8_b text = true -> safe text.
Proof. unfold valid_utf8_b. apply valid_safe. Qed.
Print Assumptions valid_utf8_safe.

(* ------------------------------------------------------------------ *)
(* Why the hypothesis is needed: on "<a>" followed by C0 BC (the overlong 2-byte encoding of
   '<', not valid UTF-8) Model.Base.decode1 yields the char '<', parse_text consumes nothing,
   and the content loop runs out of fuel.  A Rust &str is always valid UTF-8, so this input
   does not exist for the real parser. *)
Definition overlong_lt_text : bytes := [60; 97; 62; 192; 188].

Theorem termination_needs_valid_utf8 :
  valid_utf8_b overlong_lt_text = false /\
  ~ safe overlong_lt_text /\
  parse_document overlong_lt_text unit (fun _ c => Ok c) false tt = OutOfFuel /\
  parse_default overlong_lt_text = OutOfFuel.
Proof.
  split; [vm_compute; reflexivity|]. split; [|split; vm_compute; reflexivity].
  intros H. specialize (H 3%nat 192 [188] 60 2 eq_refl).
  assert (E : decode1 [192; 188] = Some (60, 2)) by (vm_compute; reflexivity).
  specialize (H E eq_refl). discriminate.
Qed.
Print Assumptions termination_needs_valid_utf8.
