(* TruncTok.v -- C08, truncation, part 2: the tokenizer on a prefix of the text, with a
   callback that only reacts to ElementEnd tokens (and is the same function for both runs).
   A successful truncated run of a sub-parser is either matched exactly by the full run, or
   it ends where no '>' is left and its final callback state is one the full run passes
   through. *)
From Coq Require Import Ascii String.
From Coq Require Import PeanoNat Lia ZifyBool ZifyN ZifyNat.
From RX Require Import Generated.
From RX.Model Require Import Base CharClass Stream Tokenizer.
From RX.Proofs Require Import Tactics OptionsParam BudgetStream BudgetTok TruncStream.

Lemma sync_pos text n s1 s2 : TruncStream.sync text n s1 s2 -> s_pos s1 = s_pos s2.
Proof. intros (_ & _ & E & _). exact E. Qed.

(* what to do when the truncated run has lost the full run (no '>' left): by default, say so *)
Ltac ng_branch := right; ng_done.

(* stepping tactics (the lemmas of TruncStream take text, n and the two hypotheses on n) *)
Ltac tb lem :=
  match goal with
  | Hs : TruncStream.sync _ _ _ _ |- _ =>
    match goal with
    | H : _ = Ok _ |- _ =>
      let H' := fresh "Hw" in
      pose proof H as H'; eapply lem in H'; [ | eassumption .. ];
      let s1' := fresh "t" in let Hf := fresh "Hf" in let Hs' := fresh "Hs" in
      let Hng := fresh "Hng" in
      destruct H' as [(s1' & Hf & Hs') | Hng];
      [ rewrite Hf; cbn [bind]; clear Hs; pose proof (sync_pos _ _ _ _ Hs') | ng_branch ]
    end
  end.

(* the same for a primitive that cannot lose the full run *)
Ltac tbe lem :=
  match goal with
  | Hs : TruncStream.sync _ _ _ _ |- _ =>
    match goal with
    | H : _ = Ok _ |- _ =>
      let H' := fresh "Hw" in
      pose proof H as H'; eapply lem in H'; [ | eassumption .. ];
      let s1' := fresh "t" in let Hf := fresh "Hf" in let Hs' := fresh "Hs" in
      destruct H' as (s1' & Hf & Hs');
      rewrite Hf; cbn [bind]; clear Hs; pose proof (sync_pos _ _ _ _ Hs')
    end
  end.

Ltac tsk :=
  match goal with
  | Hs : TruncStream.sync ?t ?n ?s1 ?s2 |- context [skip_spaces ?s1] =>
    let Hs' := fresh "Hs" in let He := fresh "Hend" in
    destruct (T_skip_spaces t n ltac:(assumption) ltac:(assumption) _ _ Hs) as [Hs' | He];
    [ clear Hs; pose proof (sync_pos _ _ _ _ Hs') | ng_branch ]
  | Hs : TruncStream.sync ?t ?n ?s1 ?s2 |- context [skip_bytes ?f ?s1] =>
    let Hs' := fresh "Hs" in let He := fresh "Hend" in
    destruct (T_skip_bytes t n ltac:(assumption) ltac:(assumption) f _ _ Hs) as [Hs' | He];
    [ clear Hs; pose proof (sync_pos _ _ _ _ Hs') | ng_branch ]
  end.

Ltac pat_ok_tac := unfold pat_ok; let Hin := fresh in intros Hin; vm_compute in Hin; intuition discriminate.

Ltac tsw :=
  match goal with
  | Hs : TruncStream.sync ?t ?n ?s1 ?s2, H : starts_with ?s2 ?pat = true |- context [starts_with ?s1 ?pat] =>
    rewrite (T_sw_true t n ltac:(assumption) ltac:(assumption) _ _ _ Hs H)
  | Hs : TruncStream.sync ?t ?n ?s1 ?s2, H : starts_with ?s2 ?pat = false |- context [starts_with ?s1 ?pat] =>
    let Hf := fresh "Hf" in let Hng := fresh "Hng" in
    destruct (T_sw_false t n ltac:(assumption) ltac:(assumption) _ _ pat Hs ltac:(pat_ok_tac) H) as [Hf | Hng];
    [ rewrite Hf | ng_branch ]
  end.

Ltac tfin := left; eexists; split; [reflexivity | assumption].

Ltac tw_dispatch F :=
    match F with
    | bind (Ok _) _ => cbn [bind]
    | bind (bind _ _) _ => rewrite bind_assoc
    | bind (advance _ _) _ => tbe T_advance
    | bind (consume_byte _ _ _) _ => tbe E_consume_byte
    | bind (skip_string _ _ _) _ => tbe E_skip_string
    | bind (consume_spaces _ _) _ => tb T_consume_spaces
    | bind (advance_until2 _ _ _) _ => tbe E_advance_until2
    | bind (consume_name _ _) _ => tb T_consume_name
    | bind (consume_qname _ _) _ => tb T_consume_qname
    | bind (consume_eq _ _) _ => tb T_consume_eq
    | bind (consume_quote _ _) _ => tbe E_consume_quote
    | context [starts_with _ _] => tsw; cbn [negb]; cbv iota
    | context [skip_spaces _] => tsk
    | context [skip_bytes _ _] => tsk
    end.

Ltac twstep_s :=
  match goal with
  | |- (exists _, ?F = _ /\ _) \/ _ => tw_dispatch F
  | |- exists _, ?F = _ /\ _ => tw_dispatch F
  end.

Definition is_end_tok (tk : token) : bool :=
  match tk with TElementEnd _ _ => true | _ => false end.

Section TruncTok.
Variable text : bytes.
Variable n : N.
Hypothesis Hn : n <= tlen text.
Hypothesis Hbn : is_boundary text n = true.
Variable C : Type.
Variable ev : token -> C -> res C.
Hypothesis Hign : forall tok c, is_end_tok tok = false -> ev tok c = Ok c.

Notation p := (p text n).
Notation sync := (sync text n).
Notation NG := (NG text n).

(* positions of the tokenizer functions (any text): BudgetTok with a trivial invariant *)
Section Pos.
Variable t : bytes.
Let TI := fun (_ : N) (_ : C) => True.
Lemma TI_mono : forall q q' c, q <= q' -> TI q c -> TI q' c. Proof. intros; exact I. Qed.
Lemma TI_r : forall tok r c c' q, tok_range tok = Some r -> ev tok c = Ok c' -> TI q c -> q <= fst r ->
  fst r < snd r -> TI (snd r) c'. Proof. intros; exact I. Qed.
Lemma TI_0 : forall tok c c' q, tok_range tok = None -> is_decl tok = false -> ev tok c = Ok c' -> TI q c -> TI q c'.
Proof. intros; exact I. Qed.

Definition mv_comment s c s' c' (H : parse_comment t C ev s c = Ok (s', c')) (W : wfl t s) :=
  proj1 (tp_parse_comment t C ev TI TI_mono TI_r TI_0 s c s' c' H W I).
Definition mv_pi s c s' c' (H : parse_pi t C ev s c = Ok (s', c')) (W : wfl t s) :=
  proj1 (tp_parse_pi t C ev TI TI_mono TI_r TI_0 s c s' c' H W I).
Definition mv_cdata s c s' c' (H : parse_cdata t C ev s c = Ok (s', c')) (W : wfl t s) :=
  proj1 (tp_parse_cdata t C ev TI TI_mono TI_r TI_0 s c s' c' H W I).
Definition mv_misc_loop fuel s c s' c' (H : parse_misc_loop t C ev fuel s c = Ok (s', c')) (W : wfl t s) :=
  proj1 (tp_parse_misc_loop t C ev TI TI_mono TI_r TI_0 fuel s c s' c' H W I).
Definition mv_content_loop fuel d s c s' c' (H : parse_content_loop t C ev fuel d s c = Ok (s', c')) (W : wfl t s) :=
  proj1 (tp_parse_content_loop t C ev TI TI_mono TI_r TI_0 fuel d s c s' c' H W I).
End Pos.

(** * The callback state only changes at ElementEnd *)

Ltac ign :=
  repeat match goal with
  | H : ev ?tok ?c = Ok ?c' |- _ =>
    rewrite (Hign tok c eq_refl) in H; inversion H; subst; clear H
  end.

Lemma ign_comment t s c s' c' : parse_comment t C ev s c = Ok (s', c') -> c' = c.
Proof. unfold parse_comment. intros H. bsteps. ign. reflexivity. Qed.

Lemma ign_pi t s c s' c' : parse_pi t C ev s c = Ok (s', c') -> c' = c.
Proof. unfold parse_pi. intros H. bsteps; ign; reflexivity. Qed.

Lemma ign_cdata t s c s' c' : parse_cdata t C ev s c = Ok (s', c') -> c' = c.
Proof. unfold parse_cdata. intros H. bsteps. ign. reflexivity. Qed.

Lemma ign_text t s c s' c' : parse_text t C ev s c = Ok (s', c') -> c' = c.
Proof. unfold parse_text. intros H. bsteps. ign. reflexivity. Qed.

Lemma ign_misc_loop t fuel : forall s c s' c', parse_misc_loop t C ev fuel s c = Ok (s', c') -> c' = c.
Proof.
  induction fuel; intros s c s' c' H; [discriminate|]. cbn [parse_misc_loop] in H. bsteps; try reflexivity.
  - apply ign_comment in Hb. subst. eauto.
  - apply ign_pi in Hb. subst. eauto.
Qed.

Lemma ign_misc t s c s' c' : parse_misc t C ev s c = Ok (s', c') -> c' = c.
Proof. apply ign_misc_loop. Qed.

(** * Without a '>' left, no element token *)

Lemma ng_byte s x : wfl p s -> NG (s_pos s) -> curr_byte s = Ok x -> x <> 62.
Proof.
  intros (R & _) Hng H Hx. subst x. apply Hng. unfold curr_byte in H.
  destruct (at_end s); [discriminate|]. unfold curr_byte_unchecked in H. rewrite <- R.
  destruct (s_rest s); [discriminate|]. inversion H; subst. left. reflexivity.
Qed.

Lemma ng_consume_gt s s' : wfl p s -> NG (s_pos s) -> consume_byte p 62 s = Ok s' -> False.
Proof.
  intros W Hng H. unfold consume_byte in H.
  apply bind_ok in H. destruct H as [a [Hb H]]. destruct (negb (a =? 62)) eqn:Ea; [exfalso; eapply err_at_not_ok; eauto|].
  assert (Ha : a = 62) by lia. rewrite Ha in Hb. eapply ng_byte; eauto.
Qed.

(* find the contradiction: a '>' is consumed or seen where none is left *)
Ltac ngc IH :=
  exfalso;
  match goal with
  | H : consume_byte _ 62 ?s = Ok _ |- _ =>
    eapply (ng_consume_gt s); [ assumption | ng_done | exact H ]
  | H : curr_byte ?s = Ok ?x, E : (?x =? 62) = true |- _ =>
    eapply (ng_byte s x); [ assumption | ng_done | exact H | lia ]
  | H : parse_element_loop _ _ _ _ _ ?s _ = Ok _ |- _ =>
    eapply IH; [ | | exact H ]; [ assumption | ng_done ]
  end.

Lemma ngx_element_loop fuel : forall ts s c r, wfl p s -> NG (s_pos s) ->
  parse_element_loop p C ev fuel ts s c = Ok r -> False.
Proof.
  induction fuel; intros ts s c r W Hng H; [discriminate|].
  cbn [parse_element_loop] in H. bsteps; posfacts; ngc IHfuel.
Qed.

Lemma ngx_element s c r : wfl p s -> NG (s_pos s) -> parse_element p C ev s c = Ok r -> False.
Proof.
  intros W Hng H. unfold parse_element in H. bsteps. posfacts.
  eapply ngx_element_loop; [ | | exact H]; [assumption | ng_done].
Qed.

Lemma ngx_close s c r : wfl p s -> NG (s_pos s) -> parse_close_element p C ev s c = Ok r -> False.
Proof.
  intros W Hng H. unfold parse_close_element in H. bsteps. posfacts. ngc I.
Qed.

(* under NG the content loop only sees character data: the state does not move *)
Lemma ng_content_loop fuel : forall d s c s' c', wfl p s -> NG (s_pos s) ->
  parse_content_loop p C ev fuel d s c = Ok (s', c') -> c' = c.
Proof.
  induction fuel; intros d s c s' c' W Hng H; [discriminate|].
  cbn [parse_content_loop] in H.
  destruct (at_end s); [inversion H; reflexivity|].
  apply bind_ok in H. destruct H as [x [Hx H]]. cbv beta in H.
  destruct (x =? 60).
  - destruct (next_byte s) as [y| | |]; try discriminate; [|exfalso; eapply err_at_not_ok; eauto].
    destruct (y =? 33).
    { destruct (starts_with s (b "<!--")).
      - apply bind_ok in H. destruct H as [[sa ca] [Ha H]].
        pose proof (ign_comment _ _ _ _ _ Ha); subst ca.
        pose proof (mv_comment _ _ _ _ _ Ha W) as (Wa & _ & Pa).
        eapply IHfuel; [exact Wa| |exact H]. ng_done.
      - destruct (starts_with s (b "<![CDATA[")); [|exfalso; eapply err_at_not_ok; eauto].
        apply bind_ok in H. destruct H as [[sa ca] [Ha H]].
        pose proof (ign_cdata _ _ _ _ _ Ha); subst ca.
        pose proof (mv_cdata _ _ _ _ _ Ha W) as (Wa & _ & Pa).
        eapply IHfuel; [exact Wa| |exact H]. ng_done. }
    destruct (y =? 63).
    { apply bind_ok in H. destruct H as [[sa ca] [Ha H]].
      pose proof (ign_pi _ _ _ _ _ Ha); subst ca.
      pose proof (mv_pi _ _ _ _ _ Ha W) as (Wa & _ & Pa).
      eapply IHfuel; [exact Wa| |exact H]. ng_done. }
    destruct (y =? 47).
    { apply bind_ok in H. destruct H as [[sa ca] [Ha H]]. exfalso. eapply ngx_close; eauto. }
    apply bind_ok in H. destruct H as [[[o sa] ca] [Ha H]]. exfalso. eapply ngx_element; eauto.
  - apply bind_ok in H. destruct H as [[sa ca] [Ha H]].
    pose proof (ign_text _ _ _ _ _ Ha); subst ca.
    assert (Wa : wfl p sa /\ s_pos s <= s_pos sa).
    { unfold parse_text in Ha. bsteps. eapply mv_consume_chars0 in Hb; [|exact W].
      destruct Hb as (? & ? & ?). split; [assumption|lia]. }
    destruct Wa as [Wa Pa]. eapply IHfuel; [exact Wa| |exact H]. ng_done.
Qed.

(** * The two runs, sub-parser by sub-parser *)

Lemma cc_slice_end t f s sl s' : consume_chars t f s = Ok (sl, s') -> sl_end sl = s_pos s'.
Proof.
  unfold consume_chars, slice_back, mk_slice. intros H. bsteps. reflexivity.
Qed.

Lemma wfl_p_le s : wfl p s -> s_pos s <= n.
Proof.
  intros (_ & H1 & H2). assert (E : tlen p = n) by (apply tlen_p; assumption). rewrite E in H2. lia.
Qed.

(* consume_chars with a predicate that agrees; the slice lies inside p *)
Lemma X_consume_chars f s1 s2 sl s2' : f_ok text n f -> sync s1 s2 ->
  consume_chars p f s2 = Ok (sl, s2') ->
  sl_end sl <= n /\
  ((exists s1', consume_chars text f s1 = Ok (sl, s1') /\ sync s1' s2') \/ NG (s_pos s2')).
Proof.
  intros Hf Hs H. split.
  - rewrite (cc_slice_end _ _ _ _ _ H). apply wfl_p_le.
    pose proof Hs as (_ & W2 & _). eapply mv_consume_chars0 in H; [|exact W2]. apply H.
  - eapply T_consume_chars; eauto.
Qed.

Ltac solve_fok :=
  first [ apply f_ok_const
        | apply f_ok_pat; [ assumption | assumption | pat_ok_tac ] ].

Ltac tcc :=
  match goal with
  | Hs : sync _ _, H : consume_chars _ _ _ = Ok _ |- _ =>
    let H' := fresh "Hw" in
    pose proof H as H'; eapply X_consume_chars in H'; [ | solve_fok | exact Hs ];
    let Hle := fresh "Hle" in let t' := fresh "t" in let Hf := fresh "Hf" in
    let Hs' := fresh "Hs" in let Hng := fresh "Hng" in
    destruct H' as [Hle [(t' & Hf & Hs') | Hng]];
    [ rewrite Hf; cbn [bind]; clear Hs; pose proof (sync_pos _ _ _ _ Hs') | ng_branch ]
  end.

Ltac tsb := repeat match goal with
  | Hle : sl_end ?sl <= n |- context [slice_bytes text ?sl] =>
    rewrite <- (T_slice_bytes text n Hn Hbn sl Hle) end.

Ltac tifs := repeat match goal with
  | H : ?b = true |- context [if ?b then _ else _] => rewrite H
  | H : ?b = false |- context [if ?b then _ else _] => rewrite H
  end.

Lemma X_comment s1 s2 c s2' c2' : sync s1 s2 -> parse_comment p C ev s2 c = Ok (s2', c2') ->
  c2' = c /\
  ((exists s1', parse_comment text C ev s1 c = Ok (s1', c) /\ sync s1' s2') \/ NG (s_pos s2')).
Proof.
  intros Hs H. split; [eapply ign_comment; eauto|]. pose proof Hs as (_ & W2 & E0 & _).
  unfold parse_comment in *. bsteps. ign. posfacts. cbv zeta. rewrite E0.
  tbe T_advance. tcc.
  tbe E_skip_string. tsb. tifs.
  rewrite Hign by reflexivity. cbn [bind].
  tfin.
Qed.

Ltac twalk := repeat first [ twstep_s | tcc ].

Lemma X_pi s1 s2 c s2' c2' : sync s1 s2 -> parse_pi p C ev s2 c = Ok (s2', c2') ->
  c2' = c /\
  ((exists s1', parse_pi text C ev s1 c = Ok (s1', c) /\ sync s1' s2') \/ NG (s_pos s2')).
Proof.
  intros Hs H. split; [eapply ign_pi; eauto|]. pose proof Hs as (_ & W2 & _).
  unfold parse_pi in *. bsteps; ign; posfacts; cbv zeta; twalk;
  rewrite Hign by reflexivity; cbn [bind]; tfin.
Qed.

Lemma X_cdata s1 s2 c s2' c2' : sync s1 s2 -> parse_cdata p C ev s2 c = Ok (s2', c2') ->
  c2' = c /\
  ((exists s1', parse_cdata text C ev s1 c = Ok (s1', c) /\ sync s1' s2') \/ NG (s_pos s2')).
Proof.
  intros Hs H. split; [eapply ign_cdata; eauto|]. pose proof Hs as (_ & W2 & _).
  unfold parse_cdata in *. bsteps; ign; posfacts; cbv zeta; twalk;
  rewrite Hign by reflexivity; cbn [bind]; tfin.
Qed.

Lemma X_text s1 s2 c s2' c2' : sync s1 s2 -> parse_text p C ev s2 c = Ok (s2', c2') ->
  c2' = c /\
  ((exists s1', parse_text text C ev s1 c = Ok (s1', c) /\ sync s1' s2') \/ NG (s_pos s2')).
Proof.
  intros Hs H. split; [eapply ign_text; eauto|]. pose proof Hs as (_ & W2 & _).
  unfold parse_text in *. bsteps; ign; posfacts; cbv zeta; twalk; tsb; tifs;
  rewrite Hign by reflexivity; cbn [bind]; tfin.
Qed.

Lemma X_misc_loop : forall fuel2 fuel1 s1 s2 c s2' c2', (fuel2 <= fuel1)%nat -> sync s1 s2 ->
  parse_misc_loop p C ev fuel2 s2 c = Ok (s2', c2') ->
  c2' = c /\
  ((exists s1', parse_misc_loop text C ev fuel1 s1 c = Ok (s1', c) /\ sync s1' s2') \/ NG (s_pos s2')).
Proof.
  induction fuel2; intros fuel1 s1 s2 c s2' c2' Hfu Hs H; [discriminate|].
  split; [eapply ign_misc_loop; eauto|].
  destruct fuel1 as [|fuel1]; [lia|]. pose proof Hs as (_ & W2 & _).
  pose proof (mv_misc_loop _ _ _ _ _ _ H W2) as (W2' & _ & P2').
  cbn [parse_misc_loop] in *.
  destruct (at_end s2) eqn:Ea.
  { inversion H; subst. right. apply NG_end; try assumption. rewrite (T_at_end_true _ _ Hn Hbn _ _ Hs Ea). lia. }
  destruct (T_at_end_false _ _ Hn Hbn _ _ Hs Ea) as [-> _].
  pose proof (mv_skip_spaces _ _ W2) as (Wk & _ & Pk).
  cbv zeta in *. cbv iota.
  destruct (starts_with (skip_spaces s2) (b "<!--")) eqn:E1.
  - apply bind_ok in H. destruct H as [[sa ca] [Ha H]]. cbv beta iota in H.
    pose proof (mv_comment _ _ _ _ _ Ha Wk) as (Wa & _ & Pa).
    pose proof (mv_misc_loop _ _ _ _ _ _ H Wa) as (_ & _ & Pb).
    tsk. tsw.
    destruct (X_comment _ _ _ _ _ Hs0 Ha) as [-> [(s1a & Hf & Hsa)|Hng]]; [|right; ng_done].
    rewrite Hf. cbn [bind]. eapply IHfuel2; eauto. lia.
  - destruct (starts_with (skip_spaces s2) (b "<?")) eqn:E2.
    + apply bind_ok in H. destruct H as [[sa ca] [Ha H]]. cbv beta iota in H.
      pose proof (mv_pi _ _ _ _ _ Ha Wk) as (Wa & _ & Pa).
      pose proof (mv_misc_loop _ _ _ _ _ _ H Wa) as (_ & _ & Pb).
      tsk. tsw. tsw.
      destruct (X_pi _ _ _ _ _ Hs0 Ha) as [-> [(s1a & Hfp & Hsa)|Hng]]; [|right; ng_done].
      rewrite Hfp. cbn [bind]. eapply IHfuel2; eauto. lia.
    + inversion H; subst. tsk. tsw. tsw. tfin.
Qed.

Lemma X_misc s1 s2 c s2' c2' : sync s1 s2 -> parse_misc p C ev s2 c = Ok (s2', c2') ->
  c2' = c /\
  ((exists s1', parse_misc text C ev s1 c = Ok (s1', c) /\ sync s1' s2') \/ NG (s_pos s2')).
Proof.
  intros Hs H. unfold parse_misc in *. eapply X_misc_loop; [|exact Hs|exact H].
  destruct (sync_rest _ _ Hn Hbn _ _ Hs) as [R _]. rewrite R, firstn_length. lia.
Qed.

(* element tokens: a lost full run is impossible, a '>' is still to come *)
Ltac tpos := repeat match goal with E : s_pos ?a = s_pos ?b |- context [s_pos ?a] => rewrite E end.
Ltac tev :=
  first [ rewrite Hign by reflexivity; cbn [bind]
        | tpos; match goal with H : ev ?tok ?c = Ok _ |- context [ev ?tok ?c] => rewrite H; cbn [bind] end ].
Ltac tslice :=
  match goal with
  | Hs : sync _ _, H : slice_back _ _ _ = Ok _ |- _ =>
    let H1 := fresh "Hsl" in let H2 := fresh "Hle" in
    destruct (T_slice_back _ _ Hn Hbn _ _ _ _ Hs H) as [H1 H2]; tpos; rewrite H1; cbn [bind]
  end.
Ltac txml :=
  match goal with
  | Hle : sl_end ?sl <= n, H : is_xml_str _ ?sl _ = Ok ?u |- _ =>
    destruct u; rewrite (T_is_xml_str _ _ Hn Hbn _ _ Hle H); cbn [bind]
  end.

Lemma X_element_loop : forall fuel2 fuel1 ts s1 s2 c o s2' c2', (fuel2 <= fuel1)%nat -> sync s1 s2 ->
  parse_element_loop p C ev fuel2 ts s2 c = Ok (o, s2', c2') ->
  exists s1', parse_element_loop text C ev fuel1 ts s1 c = Ok (o, s1', c2') /\ sync s1' s2'.
Proof.
  induction fuel2; intros fuel1 ts s1 s2 c o s2' c2' Hfu Hs H; [discriminate|].
  destruct fuel1 as [|fuel1]; [lia|]. pose proof Hs as (_ & W2 & _).
  cbn [parse_element_loop] in *.
  destruct (at_end s2) eqn:Ea; [discriminate|].
  destruct (T_at_end_false _ _ Hn Hbn _ _ Hs Ea) as [-> Hlt]. cbv zeta in *.
  assert (Hsp : starts_with_space s1 = starts_with_space s2).
  { destruct (starts_with_space s2) eqn:E.
    - eapply T_starts_with_space; eauto.
    - destruct (T_starts_with_space_false _ _ Hn Hbn _ _ Hs E) as [E1|E1]; [exact E1|lia]. }
  rewrite Hsp. clear Hsp.
  Ltac ng_branch ::= exfalso; ngc ngx_element_loop.
  bsteps; ign; posfacts; tsk;
  (match goal with Hs : sync _ _, Hc : curr_byte _ = Ok _ |- _ =>
     rewrite (T_cb _ _ Hn Hbn _ _ _ Hs Hc); cbn [bind] end);
  tifs.
  - (* "/>" *) twalk. tev. eexists. split; [reflexivity|assumption].
  - (* ">" *) twalk. tev. eexists. split; [reflexivity|assumption].
  - (* an attribute, after a space *) twalk. tslice. txml. twalk. tev.
    eapply IHfuel2; [lia|eassumption|]. tpos. eassumption.
  - (* an attribute, the space is consumed here *) twalk. tslice. txml. twalk. tev.
    eapply IHfuel2; [lia|eassumption|]. tpos. eassumption.
  Ltac ng_branch ::= right; ng_done.
Qed.

Lemma X_element s1 s2 c o s2' c2' : sync s1 s2 -> parse_element p C ev s2 c = Ok (o, s2', c2') ->
  exists s1', parse_element text C ev s1 c = Ok (o, s1', c2') /\ sync s1' s2'.
Proof.
  intros Hs H. pose proof Hs as (_ & W2 & E0 & _). unfold parse_element in *.
  Ltac ng_branch ::= exfalso; ngc ngx_element_loop.
  bsteps. ign. posfacts. cbv zeta. rewrite E0. twalk. tev.
  eapply X_element_loop; [|eassumption|eassumption].
  match goal with Hs : sync _ _ |- _ => destruct (sync_rest _ _ Hn Hbn _ _ Hs) as [R _] end.
  rewrite R, firstn_length. lia.
  Ltac ng_branch ::= right; ng_done.
Qed.

Lemma X_close s1 s2 c s2' c2' : sync s1 s2 -> parse_close_element p C ev s2 c = Ok (s2', c2') ->
  exists s1', parse_close_element text C ev s1 c = Ok (s1', c2') /\ sync s1' s2'.
Proof.
  intros Hs H. pose proof Hs as (_ & W2 & E0 & _). unfold parse_close_element in *.
  Ltac ng_branch ::= exfalso; ngc I.
  bsteps. posfacts. cbv zeta. rewrite E0. twalk. tev.
  eexists. split; [reflexivity|assumption].
  Ltac ng_branch ::= right; ng_done.
Qed.

(** * Content and document: the state the truncated run ends in is passed by the full run *)

Definition pres (I : C -> Prop) : Prop := forall tok a a', ev tok a = Ok a' -> I a -> I a'.
Definition Pass {X} (c2 : C) (r1 : res (X * C)) : Prop :=
  forall I, pres I -> I c2 -> forall y c1, r1 = Ok (y, c1) -> I c1.

(* the rest of the full side, executed for an invariant *)
Ltac pass_u :=
  let I := fresh "I" in let HI := fresh "HI" in let Hc := fresh "Hc" in let Hr := fresh "Hr" in
  intros I HI Hc ? ? Hr; usteps;
  repeat first [ fw (u_parse_comment text C ev I HI) | fw (u_parse_pi text C ev I HI)
               | fw (u_parse_cdata text C ev I HI) | fw (u_parse_text text C ev I HI)
               | fw (u_parse_close_element text C ev I HI) | fw (u_parse_element text C ev I HI)
               | fw (u_parse_misc text C ev I HI) | fw (u_parse_content text C ev I HI)
               | match goal with H : parse_content_loop _ _ _ _ _ _ _ = Ok _ |- _ =>
                   eapply (u_parse_content_loop text C ev I HI) in H; [ | assumption ] end ];
  try assumption.

Lemma X_content_loop : forall fuel2 fuel1 d s1 s2 c s2' c2', (fuel2 <= fuel1)%nat -> sync s1 s2 ->
  parse_content_loop p C ev fuel2 d s2 c = Ok (s2', c2') ->
  (exists s1', parse_content_loop text C ev fuel1 d s1 c = Ok (s1', c2') /\ sync s1' s2')
  \/ (NG (s_pos s2') /\ Pass c2' (parse_content_loop text C ev fuel1 d s1 c)).
Proof.
  induction fuel2; intros fuel1 d s1 s2 c s2' c2' Hfu Hs H; [discriminate|].
  destruct fuel1 as [|fuel1]; [lia|]. pose proof Hs as (_ & W2 & _).
  pose proof (mv_content_loop _ _ _ _ _ _ _ H W2) as (W2' & _ & P2').
  cbn [parse_content_loop] in *.
  destruct (at_end s2) eqn:Ea.
  { inversion H; subst. right. split.
    - apply NG_end; try assumption. rewrite (T_at_end_true _ _ Hn Hbn _ _ Hs Ea). lia.
    - pass_u. }
  destruct (T_at_end_false _ _ Hn Hbn _ _ Hs Ea) as [-> _].
  apply bind_ok in H. destruct H as [x [Hx H]]. cbv beta in H.
  rewrite (T_cbu _ _ Hn Hbn _ _ _ Hs Hx). cbn [bind].
  (* when the full run is lost in this iteration: the truncated state stays, the rest passes *)
  assert (Hlost : forall sa, wfl p sa -> s_pos s2 <= s_pos sa -> s_pos sa <= s_pos s2' ->
            parse_content_loop p C ev fuel2 d sa c = Ok (s2', c2') -> NG (s_pos sa) ->
            forall X (r1 : res (X * C)), (forall I, pres I -> I c -> forall y c1, r1 = Ok (y, c1) -> I c1) ->
            NG (s_pos s2') /\ Pass c2' r1).
  { intros sa Wa _ Pa Hl Hng X r1 Hp. rewrite (ng_content_loop _ _ _ _ _ _ Wa Hng Hl).
    split; [ng_done|exact Hp]. }
  destruct (x =? 60).
  - destruct (next_byte s2) as [y| | |] eqn:Ey; try discriminate; [|exfalso; eapply err_at_not_ok; eauto].
    rewrite (T_next_byte _ _ Hn Hbn _ _ _ Hs Ey).
    destruct (y =? 33).
    { destruct (starts_with s2 (b "<!--")) eqn:E1.
      - tsw. apply bind_ok in H. destruct H as [[sa ca] [Ha H]]. cbv beta iota in H.
        pose proof (mv_comment _ _ _ _ _ Ha W2) as (Wa & _ & Pa).
        pose proof (mv_content_loop _ _ _ _ _ _ _ H Wa) as (_ & _ & Pb).
        destruct (X_comment _ _ _ _ _ Hs Ha) as [-> [(s1a & Hf & Hsa)|Hng]].
        + rewrite Hf. cbn [bind]. eapply IHfuel2; eauto. lia.
        + right. eapply (Hlost sa Wa ltac:(lia) ltac:(lia) H Hng). pass_u.
      - destruct (starts_with s2 (b "<![CDATA[")) eqn:E2; [|exfalso; eapply err_at_not_ok; eauto].
        apply bind_ok in H. destruct H as [[sa ca] [Ha H]]. cbv beta iota in H.
        pose proof (mv_cdata _ _ _ _ _ Ha W2) as (Wa & _ & Pa).
        pose proof (mv_content_loop _ _ _ _ _ _ _ H Wa) as (_ & _ & Pb).
        pose proof (ign_cdata _ _ _ _ _ Ha) as Eca.
        destruct (T_sw_false _ _ Hn Hbn _ _ (b "<!--") Hs ltac:(pat_ok_tac) E1) as [Hf1|Hng].
        2: { right. subst ca. assert (Hng' : NG (s_pos sa)) by ng_done.
             eapply (Hlost sa Wa ltac:(lia) ltac:(lia) H Hng'). pass_u. }
        rewrite Hf1. tsw.
        destruct (X_cdata _ _ _ _ _ Hs Ha) as [-> [(s1a & Hf & Hsa)|Hng]].
        + rewrite Hf. cbn [bind]. eapply IHfuel2; eauto. lia.
        + right. eapply (Hlost sa Wa ltac:(lia) ltac:(lia) H Hng). pass_u. }
    destruct (y =? 63).
    { apply bind_ok in H. destruct H as [[sa ca] [Ha H]]. cbv beta iota in H.
      pose proof (mv_pi _ _ _ _ _ Ha W2) as (Wa & _ & Pa).
      pose proof (mv_content_loop _ _ _ _ _ _ _ H Wa) as (_ & _ & Pb).
      destruct (X_pi _ _ _ _ _ Hs Ha) as [-> [(s1a & Hf & Hsa)|Hng]].
      + rewrite Hf. cbn [bind]. eapply IHfuel2; eauto. lia.
      + right. eapply (Hlost sa Wa ltac:(lia) ltac:(lia) H Hng). pass_u. }
    destruct (y =? 47).
    { apply bind_ok in H. destruct H as [[sa ca] [Ha H]]. cbv beta iota in H.
      destruct (X_close _ _ _ _ _ Hs Ha) as (s1a & Hf & Hsa). rewrite Hf. cbn [bind].
      destruct (d =? 0).
      - inversion H; subst. left. eauto.
      - eapply IHfuel2; eauto. lia. }
    apply bind_ok in H. destruct H as [[[o sa] ca] [Ha H]]. cbv beta iota in H.
    destruct (X_element _ _ _ _ _ _ Hs Ha) as (s1a & Hf & Hsa). rewrite Hf. cbn [bind].
    eapply IHfuel2; eauto. lia.
  - apply bind_ok in H. destruct H as [[sa ca] [Ha H]]. cbv beta iota in H.
    assert (Wa : wfl p sa /\ s_pos s2 <= s_pos sa).
    { pose proof Ha as Ha'. unfold parse_text in Ha'. bsteps. eapply mv_consume_chars0 in Hb; [|exact W2].
      destruct Hb as (? & ? & ?). split; [assumption|lia]. }
    destruct Wa as [Wa Pa].
    pose proof (mv_content_loop _ _ _ _ _ _ _ H Wa) as (_ & _ & Pb).
    destruct (X_text _ _ _ _ _ Hs Ha) as [-> [(s1a & Hf & Hsa)|Hng]].
    + rewrite Hf. cbn [bind]. eapply IHfuel2; eauto. lia.
    + right. eapply (Hlost sa Wa ltac:(lia) ltac:(lia) H Hng). pass_u.
Qed.

Lemma X_content s1 s2 c s2' c2' : sync s1 s2 -> parse_content p C ev s2 c = Ok (s2', c2') ->
  (exists s1', parse_content text C ev s1 c = Ok (s1', c2') /\ sync s1' s2')
  \/ (NG (s_pos s2') /\ Pass c2' (parse_content text C ev s1 c)).
Proof.
  intros Hs H. unfold parse_content in *. eapply X_content_loop; [|exact Hs|exact H].
  destruct (sync_rest _ _ Hn Hbn _ _ Hs) as [R _]. rewrite R, firstn_length. lia.
Qed.

(* parse_document without allow_dtd, cut in three *)
Definition Pass_c (c2 : C) (r1 : res C) : Prop :=
  forall I, pres I -> I c2 -> forall c1, r1 = Ok c1 -> I c1.

Definition doc_head (t : bytes) (c : C) : res (stream * C) :=
  let s := stream_new t in
  let! s := if starts_with s [239; 187; 191] then advance 3 s else Ok s in
  let! s := if starts_with_declaration s then parse_declaration t s else Ok s in
  parse_misc t C ev s c.

Definition doc_root (t : bytes) (s : stream) (c : C) : res C :=
  let! (s, c) :=
    if match curr_byte_opt s with Some x => x =? 60 | None => false end then
      let! (open, s, c) := parse_element t C ev s c in
      if open then parse_content t C ev s c else Ok (s, c)
    else Ok (s, c) in
  let! (s, c) := parse_misc t C ev s c in
  if negb (at_end s) then err_at t s UnknownToken else Ok c.

Definition doc_tail (t : bytes) (s : stream) (c : C) : res C :=
  let s := skip_spaces s in
  let! (s, c) :=
    if starts_with s (b "<!DOCTYPE") then
      if negb false then Err DtdDetected
      else let! (s, c) := parse_doctype t C ev s c in parse_misc t C ev s c
    else Ok (s, c) in
  doc_root t (skip_spaces s) c.

Lemma parse_document_cut t c :
  parse_document t C ev false c = let! (s, c) := doc_head t c in doc_tail t s c.
Proof.
  unfold parse_document, doc_head, doc_tail, doc_root. cbv zeta.
  destruct (if starts_with (stream_new t) [239; 187; 191] then _ else _); cbn [bind]; try reflexivity.
  destruct (if starts_with_declaration a then _ else _); cbn [bind]; try reflexivity.
Qed.

Lemma NG_root s c c' : wfl p s -> NG (s_pos s) -> doc_root p s c = Ok c' -> c' = c.
Proof.
  intros W Hng H. unfold doc_root in H.
  apply bind_ok in H. destruct H as [[sa ca] [Ha H]]. cbv beta iota in H.
  apply bind_ok in H. destruct H as [[sb cb] [Hb H]]. cbv beta iota in H.
  apply ign_misc in Hb. subst cb.
  destruct (negb (at_end sb)); [exfalso; eapply err_at_not_ok; eauto|]. inversion H; subst c'.
  destruct (match curr_byte_opt s with Some x => x =? 60 | None => false end).
  - apply bind_ok in Ha. destruct Ha as [[[o se] ce] [He _]]. exfalso. eapply ngx_element; eauto.
  - inversion Ha; reflexivity.
Qed.

Ltac pass_c :=
  let I := fresh "I" in let HI := fresh "HI" in let Hc := fresh "Hc" in let Hr := fresh "Hr" in
  intros I HI Hc ? Hr; usteps;
  repeat first [ fw (u_parse_element text C ev I HI) | fw (u_parse_misc text C ev I HI)
               | fw (u_parse_content text C ev I HI) ];
  try assumption.

Lemma X_root s1 s2 c c2' : sync s1 s2 -> doc_root p s2 c = Ok c2' -> Pass_c c2' (doc_root text s1 c).
Proof.
  intros Hs H. pose proof Hs as (_ & W2 & _). unfold doc_root in *.
  apply bind_ok in H. destruct H as [[sa ca] [Ha H]]. cbv beta iota in H.
  apply bind_ok in H. destruct H as [[sb cb] [Hb H]]. cbv beta iota in H.
  pose proof (ign_misc _ _ _ _ _ Hb) as Ecb. subst cb.
  destruct (negb (at_end sb)) eqn:Eend; [exfalso; eapply err_at_not_ok; eauto|]. inversion H; subst c2'. clear H.
  destruct (curr_byte_opt s2) as [x|] eqn:Ex.
  2: { (* the truncated stream is at its end: nothing more happens *)
       inversion Ha; subst. pass_c. }
  rewrite (T_cbo_some _ _ Hn Hbn _ _ _ Hs Ex). cbv beta iota.
  destruct (x =? 60).
  2: { inversion Ha; subst. cbn [bind]. destruct (X_misc _ _ _ _ _ Hs Hb) as [_ [(s1b & Hf & Hsb)|Hng]].
       - rewrite Hf. cbn [bind]. pass_c.
       - pass_c. }
  apply bind_ok in Ha. destruct Ha as [[[o se] ce] [He Ha]]. cbv beta iota in Ha.
  destruct (X_element _ _ _ _ _ _ Hs He) as (s1e & Hfe & Hse). rewrite Hfe. cbn [bind].
  assert (Hmisc : forall s1x, sync s1x sa ->
            Pass_c ca (let! (s, c0) := parse_misc text C ev s1x ca in
                       if negb (at_end s) then err_at text s UnknownToken else Ok c0)).
  { intros s1x Hsx. destruct (X_misc _ _ _ _ _ Hsx Hb) as [_ [(s1b & Hf & Hsb)|Hng]].
    - rewrite Hf. cbn [bind]. pass_c.
    - pass_c. }
  destruct o.
  - destruct (X_content _ _ _ _ _ Hse Ha) as [(s1a & Hfa & Hsa)|[Hng HP]].
    + rewrite Hfa. cbn [bind]. apply Hmisc. exact Hsa.
    + intros I HI Hc c1 Hr. apply bind_ok in Hr. destruct Hr as [[sy cy] [Hy Hr]]. cbv beta iota in Hr.
      pose proof (HP I HI Hc _ _ Hy) as Hcy. usteps.
      repeat fw (u_parse_misc text C ev I HI). assumption.
  - inversion Ha; subst. apply Hmisc. exact Hse.
Qed.

Lemma NG_tail s c c' : wfl p s -> NG (s_pos s) -> doc_tail p s c = Ok c' -> c' = c.
Proof.
  intros W Hng H. unfold doc_tail in H. cbv zeta in H.
  pose proof (mv_skip_spaces _ _ W) as (W1 & _ & P1).
  destruct (starts_with (skip_spaces s) (b "<!DOCTYPE")); [discriminate|]. cbn [bind] in H.
  pose proof (mv_skip_spaces _ _ W1) as (W2 & _ & P2).
  eapply NG_root; [exact W2| |exact H]. ng_done.
Qed.

Lemma X_tail s1 s2 c c2' : sync s1 s2 -> doc_tail p s2 c = Ok c2' -> Pass_c c2' (doc_tail text s1 c).
Proof.
  intros Hs H. pose proof Hs as (_ & W2 & _).
  assert (Hlost : NG (s_pos s2) \/ NG (s_pos (skip_spaces s2)) \/ NG (s_pos (skip_spaces (skip_spaces s2))) ->
                  Pass_c c2' (doc_tail text s1 c)).
  { intros Hng. pose proof (mv_skip_spaces _ _ W2) as (W3 & _ & P3).
    pose proof (mv_skip_spaces _ _ W3) as (W4 & _ & P4).
    assert (Hc : c2' = c).
    { unfold doc_tail in H. cbv zeta in H.
      destruct (starts_with (skip_spaces s2) (b "<!DOCTYPE")); [discriminate|]. cbn [bind] in H.
      eapply NG_root; [exact W4| |exact H]. destruct Hng as [Hng|[Hng|Hng]]; ng_done. }
    rewrite Hc. unfold doc_tail, doc_root. cbn [negb]. pass_c. }
  unfold doc_tail in *. cbv zeta in *.
  destruct (starts_with (skip_spaces s2) (b "<!DOCTYPE")) eqn:Ed; [discriminate|]. cbn [bind] in H.
  destruct (T_skip_spaces _ _ Hn Hbn _ _ Hs) as [Hs1|Hend].
  2: { apply Hlost. right. left. apply NG_end; try assumption. lia. }
  destruct (T_sw_false _ _ Hn Hbn _ _ (b "<!DOCTYPE") Hs1 ltac:(pat_ok_tac) Ed) as [Hf|Hng].
  2: { apply Hlost. right. left. exact Hng. }
  rewrite Hf. cbn [bind].
  destruct (T_skip_spaces _ _ Hn Hbn _ _ Hs1) as [Hs2|Hend].
  2: { intros I HI Hc c1 Hr. revert I HI Hc c1 Hr.
       change (Pass_c c2' (doc_root text (skip_spaces (skip_spaces s1)) c)).
       assert (Hc : c2' = c).
       { pose proof (mv_skip_spaces _ _ W2) as (W3 & _ & P3).
         pose proof (mv_skip_spaces _ _ W3) as (W4 & _ & P4).
         eapply NG_root; [exact W4| |exact H]. apply NG_end; try assumption. lia. }
       rewrite Hc. unfold doc_root. pass_c. }
  eapply X_root; eauto.
Qed.

Lemma sync_new : sync (stream_new text) (stream_new p).
Proof.
  unfold TruncStream.sync. split; [apply wfl_new|]. split; [apply wfl_new|].
  cbn [stream_new s_pos s_end]. split; [reflexivity|]. split; [reflexivity|].
  apply tlen_p; assumption.
Qed.

Lemma X_head c s2 c2 : doc_head p c = Ok (s2, c2) ->
  c2 = c /\ ((exists s1, doc_head text c = Ok (s1, c) /\ sync s1 s2) \/ NG (s_pos s2)).
Proof.
  intros H. unfold doc_head in *. cbv zeta in *.
  apply bind_ok in H. destruct H as [sa [Ha H]]. cbv beta in H.
  apply bind_ok in H. destruct H as [sb [Hb H]]. cbv beta in H.
  split; [eapply ign_misc; eauto|].
  pose proof sync_new as Hs0. pose proof (wfl_new p) as W0.
  assert (Wa : wfl p sa /\ s_pos (stream_new p) <= s_pos sa).
  { destruct (starts_with (stream_new p) [239; 187; 191]).
    - pose proof (mv_advance _ _ _ _ Ha W0) as (? & ? & ?). split; [assumption|lia].
    - inversion Ha; subst. split; [assumption|lia]. }
  destruct Wa as [Wa Pa].
  assert (Wb : wfl p sb /\ s_pos sa <= s_pos sb).
  { destruct (starts_with_declaration sa).
    - pose proof (mv_parse_declaration _ _ _ Hb Wa) as (? & ? & ?). split; [assumption|lia].
    - inversion Hb; subst. split; [assumption|lia]. }
  destruct Wb as [Wb Pb].
  pose proof (proj1 (mv_misc_loop _ _ _ _ _ _ H Wb)) as _.
  pose proof (mv_misc_loop _ _ _ _ _ _ H Wb) as (_ & _ & Pc).
  (* the byte order mark *)
  assert (Ha1 : (exists s1a, (if starts_with (stream_new text) [239; 187; 191]
                              then advance 3 (stream_new text) else Ok (stream_new text)) = Ok s1a
                             /\ sync s1a sa) \/ NG (s_pos sa)).
  { destruct (starts_with (stream_new p) [239; 187; 191]) eqn:E.
    - rewrite (T_sw_true _ _ Hn Hbn _ _ _ Hs0 E). left. eapply T_advance; eauto.
    - inversion Ha; subst sa.
      destruct (T_sw_false _ _ Hn Hbn _ _ [239; 187; 191] Hs0 ltac:(pat_ok_tac) E) as [Hf|Hng];
        [rewrite Hf; left; eauto|right; exact Hng]. }
  destruct Ha1 as [(s1a & Hf1 & Hsa)|Hng]; [|right; ng_done].
  rewrite Hf1. cbn [bind].
  assert (Hb1 : (exists s1b, (if starts_with_declaration s1a then parse_declaration text s1a else Ok s1a) = Ok s1b
                             /\ sync s1b sb) \/ NG (s_pos sb)).
  { destruct (starts_with_declaration sa) eqn:E.
    - rewrite (T_swd_true _ _ Hn Hbn _ _ Hsa E). eapply T_parse_declaration; eauto.
    - inversion Hb; subst sb.
      destruct (T_swd_false _ _ Hn Hbn _ _ Hsa E) as [Hf|Hng]; [rewrite Hf; left; eauto|right; exact Hng]. }
  destruct Hb1 as [(s1b & Hf2 & Hsb)|Hng]; [|right; ng_done].
  rewrite Hf2. cbn [bind].
  destruct (X_misc _ _ _ _ _ Hsb H) as [_ Hm]. exact Hm.
Qed.

(* the truncated run of the whole tokenizer ends in a state that the full run passes through *)
Theorem X_document c c2' : parse_document p C ev false c = Ok c2' ->
  Pass_c c2' (parse_document text C ev false c).
Proof.
  intros H. rewrite parse_document_cut in H.
  apply bind_ok in H. destruct H as [[s2 ch] [Hh H]]. cbv beta iota in H.
  destruct (X_head _ _ _ Hh) as [-> [(s1 & Hf & Hs)|Hng]].
  - rewrite parse_document_cut, Hf. cbn [bind]. eapply X_tail; eauto.
  - assert (W : wfl p s2).
    { unfold doc_head in Hh. cbv zeta in Hh.
      apply bind_ok in Hh. destruct Hh as [sa [Ha Hh]]. apply bind_ok in Hh. destruct Hh as [sb [Hb Hh]].
      pose proof (wfl_new p) as W0.
      assert (Wa : wfl p sa).
      { destruct (starts_with (stream_new p) [239; 187; 191]).
        - pose proof (mv_advance _ _ _ _ Ha W0) as (? & ? & ?). assumption.
        - inversion Ha; subst. assumption. }
      assert (Wb : wfl p sb).
      { destruct (starts_with_declaration sa).
        - pose proof (mv_parse_declaration _ _ _ Hb Wa) as (? & ? & ?). assumption.
        - inversion Hb; subst. assumption. }
      exact (proj1 (mv_misc_loop _ _ _ _ _ _ Hh Wb)). }
    rewrite (NG_tail _ _ _ W Hng H).
    intros I HI Hc c1 Hr. eapply (u_parse_document text C ev I HI); eauto.
Qed.

End TruncTok.
