(* Proofs/NonVacuity_C08.v -- non-vacuity of the hypotheses of the theorems pinned under C08 that had no instance yet.
   Already instantiated elsewhere: the soundness theorems on the fragments (CstSound.ex_ok1..5, CstSoundU.exu_ok1/2,
   CstSoundT.ext_ok1, CstSoundN.exn_ok1/2, CstSoundP.exp_ok0..2, CstSound6Sanity.ex6_ok, CstSound6U.ex6u_ok: the boolean
   witness_* = in the fragment && accepted && side condition && rendering of a well-formed document), truncation
   (TruncExamples.doc1_instance, TruncDtdExamples.doc3_instance), namespace violations (NsRejSanity.bad1..11_rejected,
   the examples of CstFullNsRejSanity.v), entity references (NonVacuity_C07.v), reserved names (NonVacuity_C05.nv_process_attribute_classifies),
   lexer hypotheses for comments / PIs / text / tags (NonVacuity_C13.v), the token shape (NonVacuity_C03.G8). *)
From Coq Require Import Ascii String List NArith Bool Lia.
Import ListNotations.
From RX Require Import Generated.
From RX.Model Require Import Base CharClass Stream Tokenizer Doc Builder Parse Api.
From RX.Spec Require Chars.
From RX.Spec Require Cst.
From RX.Proofs Require Import CharTablesProofs RejectProofs WfParseTok WfParseChars WfParse CstSound CstSoundDoc CstSoundCor
     TruncMain TruncDtdMain NonVacuity_Doc NonVacuity_C09 NonVacuity_C01 NonVacuity_C13 NonVacuity_C03.
Open Scope N_scope.

(* ---- the character tables: a non-ASCII scalar value (U+540D) ---- *)
Example nv_char_tables_conform_applied :
  Chars.scalar 21517 = true /\ char_is_name_start 21517 = Chars.xml_NameStartChar 21517 /\ Chars.xml_NameStartChar 21517 = true.
Proof.
  assert (H : Chars.scalar 21517 = true) by (vm_compute; reflexivity).
  split; [exact H|]. destruct (char_tables_conform 21517 H) as (_ & H2 & _). split; [exact H2|vm_compute; reflexivity].
Qed.

(* ---- RejectProofs.v ---- *)
Module G1.
Local Notation token := Tokenizer.token.
(* ok_no_lt_in_attr: the start tag <p:c b='x&e;'> *)
Example nv_ok_no_lt_in_attr_applied :
  exists o s' acc', parse_element text0 (list token) rec_ev (st_at 51) [] = Ok (o, s', acc') /\
    forall r q e p l v, In (TAttribute r q e p l v) acc' -> mem_b 60 (slice_bytes text0 v) = false.
Proof.
  destruct nv_parse_element_tokens as (_ & o & s' & acc' & H & _). exists o, s', acc'. split; [exact H|].
  intros r q e p l v Hin. exact (ok_no_lt_in_attr text0 (st_at 51) [] o s' acc' eq_refl H r q e p l v Hin).
Qed.

(* skip_chars / consume_chars: the body of the comment, up to the first '-' *)
Definition upto_dash : stream -> N -> bool := fun _ c => negb (c =? 45).
Example nv_skip_chars_only_chars :
  s_rest (st_at 73) = skipn (N.to_nat (s_pos (st_at 73))) text0 /\
  exists s', skip_chars text0 upto_dash (st_at 73) = Ok s' /\ s_pos s' = 74.
Proof. split; [reflexivity|]. eexists. split; vm_compute; reflexivity. Qed.
Example nv_consume_chars_only_chars :
  exists sl s', consume_chars text0 upto_dash (st_at 73) = Ok (sl, s') /\ slice_bytes text0 sl = b "k".
Proof. do 2 eexists. split; vm_compute; reflexivity. Qed.
Example nv_skip_chars_only_chars_text_applied : exists s', all_chars (sub text0 73 (s_pos s')) /\ s_pos s' = 74.
Proof.
  destruct nv_skip_chars_only_chars as (E & s' & H & P). exists s'. split; [|exact P].
  exact (skip_chars_only_chars_text text0 upto_dash (st_at 73) s' E H).
Qed.

(* ok_tags_balanced: the state at </p:c> (nodes 0..4 built, <p:c> = node 2 is the open element) *)
Definition cC : context :=
  {| c_opt := opt0; c_ns_start_idx := 2; c_cur_attrs := []; c_awaiting := [4];
     c_parent_prefixes := [empty_slice; empty_slice; {| sl_start := 52; sl_end := 53 |}];
     c_entities := c_entities cD; c_after_text := []; c_parent_id := 2;
     c_tag_name := c_tag_name cD; c_entity_floor := 0; c_ld := ld_init;
     c_doc := {| d_nodes := firstn 5 (d_nodes d0); d_attrs := d_attrs d0;
                 d_ns_values := d_ns_values d0; d_ns_tree := d_ns_tree d0 |} |}.
Example nv_ok_tags_balanced :
  exists c', process_element text0 (EClose {| sl_start := 79; sl_end := 80 |} {| sl_start := 81; sl_end := 82 |}) (77, 83) cC = Ok c' /\
             c_parent_id c' = 1.
Proof. eexists. split; vm_compute; reflexivity. Qed.
(* and the wrong end tag </p:d> in the same state is refused *)
Example nv_tags_unbalanced : exists e, process_element text0 (EClose {| sl_start := 79; sl_end := 80 |} {| sl_start := 92; sl_end := 93 |}) (77, 83) cC = Err e.
Proof. eexists. vm_compute. reflexivity. Qed.

(* ok_element_prefix_not_xmlns: the start <p:c in state cC *)
Example nv_ok_element_prefix_not_xmlns :
  exists c', token_with text0 (process_text text0) (TElementStart {| sl_start := 52; sl_end := 53 |} {| sl_start := 54; sl_end := 55 |} 51) cC = Ok c'.
Proof. eexists. vm_compute. reflexivity. Qed.
End G1.

(* ---- WfParse.v: the comment node of the shared document ---- *)
Example nv_parse_comments_ok :
  exists nd s, In nd (d_nodes d0) /\ nd_kind nd = KComment s /\ slice_bytes text0 s = b "k".
Proof. do 2 eexists. split; [vm_compute; do 4 right; left; reflexivity|]. split; vm_compute; reflexivity. Qed.
Example nv_parse_comments_ok_applied :
  exists s, contains_b (b "--") (slice_bytes text0 s) = false /\ slice_bytes text0 s = b "k".
Proof.
  destruct nv_parse_comments_ok as (nd & s & H1 & H2 & H3). exists s. split; [|exact H3].
  exact (proj1 (parse_comments_ok text0 opt0 d0 nd s parse0 H1 H2)).
Qed.

(* ---- CstSoundDoc.v / CstSoundCor.v: the rendering of the document ca of NonVacuity_C03.v
   <?p v?> LF <r a="1" b = 'x y'>t<!--k--><c/><d></d></r> LF ---- *)
Definition textF : bytes := Eval vm_compute in Cst.render ca.
Definition dF : document := Eval vm_compute in match parse textF default_options with Ok d => d | _ => d0 end.
Example nv_parse_sound_fragment :
  in_fragment textF = true /\ parse textF default_options = Ok dF /\ attrs_raw dF /\
  N.of_nat (length textF) <= nodes_limit default_options /\ N.of_nat (length textF) <= u32_max /\
  length (d_attrs dF) = 2%nat /\ length (d_nodes dF) = 7%nat.
Proof.
  split; [vm_compute; reflexivity|]. split; [vm_compute; reflexivity|]. split.
  - intros a Hin. vm_compute in Hin. destruct Hin as [<-|[<-|[]]]; eexists; reflexivity.
  - split; [vm_compute; discriminate|]. split; [vm_compute; discriminate|]. split; reflexivity.
Qed.
Example nv_parse_sound_and_complete_applied :
  exists c : Cst.doc, Cst.wf_doc c = true /\ Cst.render c = textF /\ CstMain.view textF dF = Cst.sem c.
Proof.
  destruct nv_parse_sound_fragment as (H1 & H2 & H3 & H4 & H5 & _).
  exact (parse_sound_and_complete textF default_options dF H1 H2 H3 H4 H5).
Qed.

(* ---- truncation: the shared document (DOCTYPE, entity) cut inside the attribute value b='x&e;' ---- *)
Example nv_truncation_rejected :
  nodes_limit opt0 <= u32_max /\ 61 < root_element_end d0 /\ valid_utf8_b (firstn_N 61 text0) = true /\ root_element_end d0 = 99.
Proof. split; [vm_compute; discriminate|]. split; [vm_compute; reflexivity|]. split; vm_compute; reflexivity. Qed.
Example nv_truncation_rejected_applied : exists e, parse (firstn_N 61 text0) opt0 = Err e.
Proof.
  destruct nv_truncation_rejected as (H1 & H2 & H3 & _).
  exact (truncation_rejected text0 opt0 d0 61 H1 valid0 parse0 H2 H3).
Qed.
(* the partial version (no DOCTYPE): text_nodtd cut inside the reference &amp; *)
Example nv_truncation_rejected_partial :
  contains_b (b "<!DOCTYPE") text_nodtd = false /\ valid_utf8_b text_nodtd = true /\
  exists d, parse text_nodtd default_options = Ok d /\ 32 < root_element_end d /\ valid_utf8_b (firstn_N 32 text_nodtd) = true.
Proof. split; [vm_compute; reflexivity|]. split; [vm_compute; reflexivity|]. eexists. split; [vm_compute; reflexivity|]. split; vm_compute; reflexivity. Qed.
