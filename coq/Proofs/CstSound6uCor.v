(* Proofs/CstSound6uCor.v -- C08 soundness on stage S6 of Spec/CstFullS6.v, markup-valued entities DECLARED
   (well-formed values: P8') but never referenced: the theorem [parse_sound_fragment_6u]
   (Proofs/CstSound6uRDoc.v with [ValOK] discharged by Proofs/CstSound6Val.v) and, with the completeness
   theorem parse_render_sem_full_s6, the parser returns the meaning of the document. *)
From Coq Require Import List NArith Bool Lia ZifyBool ZifyN ZifyNat.
Import ListNotations.
From RX Require Import Generated.
From RX.Model Require Import Base CharClass Stream Tokenizer Doc Builder Parse.
From RX.Spec Require Import CstFull CstFullS5 CstFullS6.
From RX.Proofs Require CstNsView CstFullS6Main.
From RX.Proofs Require Import CstSound6 CstSound6U CstSound6uLex CstSound6Val CstSound6uRDoc.
Open Scope N_scope.

Theorem parse_sound_fragment_6u : forall text opt d,
  in_fragment_6u text = true -> allow_dtd opt = true -> parse text opt = Ok d ->
  exists c : S6.doc, S6.wf_doc c = true /\ S6.render c = text.
Proof.
  intros text opt d HF Ha H.
  destruct (parse_sound_fragment_6u_val text opt d (val_ok text (in_fragment_6u_Frag6u _ HF)) HF Ha H) as (c & H1 & H2 & _).
  exists c. split; assumption.
Qed.
Print Assumptions parse_sound_fragment_6u.

Theorem parse_sound_fragment_6u_res : forall text opt d,
  in_fragment_6u text = true -> allow_dtd opt = true -> parse text opt = Ok d ->
  exists c : S6.doc, S6.wf_doc c = true /\ S6.render c = text /\
    S6.distinct_decls_le c (N.to_nat 65535) /\ 1 + N.of_nat (S6.ns_cost c) <= u32_max.
Proof.
  intros text opt d HF Ha H. exact (parse_sound_fragment_6u_val text opt d (val_ok text (in_fragment_6u_Frag6u _ HF)) HF Ha H).
Qed.
Print Assumptions parse_sound_fragment_6u_res.

Theorem parse_sound_fragment_6u_holds : parse_sound_fragment_6u_stmt.
Proof. exact parse_sound_fragment_6u. Qed.
Print Assumptions parse_sound_fragment_6u_holds.

(* The size hypotheses are those of the completeness theorem, on the MEANING of the witness (here no
   markup-valued entity is expanded, but character-data entities may be: the meaning is not bounded by
   the length of the input in general); the two namespace resource hypotheses are derived from acceptance. *)
Theorem parse_sound_and_complete_6u : forall text opt d,
  in_fragment_6u text = true -> allow_dtd opt = true -> parse text opt = Ok d ->
  exists c : S6.doc, S6.wf_doc c = true /\ S6.render c = text /\
    (N.of_nat (length (S6.sem c)) < nodes_limit opt -> N.of_nat (length (S6.sem c)) < u32_max -> N.of_nat (S6.nattrs c) < u32_max ->
     CstNsView.view text d = Some (S6.sem c)).
Proof.
  intros text opt d HF Ha H.
  destruct (parse_sound_fragment_6u_res text opt d HF Ha H) as (c & Hwf & Hr & Hd & Hc).
  exists c. split; [exact Hwf|]. split; [exact Hr|]. intros L1 L2 L3.
  destruct (CstFullS6Main.parse_render_sem_full_s6 c opt Hwf (fun _ => Ha) L1 L2 L3 Hd Hc) as (d' & Hp & Hv).
  rewrite Hr in Hp, Hv. rewrite H in Hp. injection Hp as <-. exact Hv.
Qed.
Print Assumptions parse_sound_and_complete_6u.
