(* Proofs/CstFullS9aRun.v -- the capstone fragment, stage S9 (Spec/CstFullS9.v):
   Proofs/CstFullS3Run.v (the segments of a run) for references named with colons.
   An adapted copy: the statements and proofs are those of that file over the definitions of Proofs/CstFullS9aSem.v. *)
From Coq Require Import Ascii String.
From Coq Require Import List NArith PeanoNat Bool Lia ZifyBool ZifyN ZifyNat.
Import ListNotations.
From RX Require Import Generated.
From RX.Model Require Import Base CharClass Stream Tokenizer Doc Builder Parse.
From RX.Spec Require Cst CstText CstEnt Detector Scope CstU CstNs.
From RX.Spec Require Import Text CstFull.
From RX.Proofs Require Import Tactics CstLex CstBuild CstULex TextMachine TextMerge HoistProofs NoPanicUtf8 DetectorProofs.
From RX.Proofs Require Import CstTextSem CstTextLex CstTextBuild CstEntSem CstEntMeaning CstEntRun CstEntInline CstNsBuild CstFullLex CstFullBuild.
From RX.Proofs Require Import CstFullS2Sem CstFullS2Lex CstFullS2Build CstFullS9aSem CstFullS9aText.
From RX.Proofs Require CstItems CstTextItems CstEntText CstEntBuild CstFullS2.
Open Scope N_scope.

Notation text_follow := CstTextItems.text_follow.

Section ERun.
Variable text : bytes.
Variable D : list Scope.binding.
Hypothesis HD : forall l, NoDup l -> incl l D -> N.of_nat (length l) <= 65535.
Variable decls : list E.edecl.
Variable es : list entity.
Hypothesis Henv : Forall2 (uent_ok text) decls es.
Hypothesis Hdecls : Forall udecl_ok decls.

Notation W := (CstLex.W text).
Notation WV := (CstULex.WV text).
Notation CIn := (CstNsBuild.CIn text D).
Notation tok_ev := (CstBuild.tok_ev text).
Notation loop := (parse_content_loop text context (tok_ev)).
Notation st := (CstLex.st text).

(* ---- a text token with references, at the top level ---- *)
Lemma tok_estretch_u inh p l more c0 c frs q tr F ld' :
  WV p (E.r_epieces l ++ more) -> Forall (uep_ok false) l -> l <> [] ->
  Exp decls false [] l q tr F -> ld_run ld_init tr = Some ld' ->
  c_ld c = ld_init -> c_entities c = es ->
  CIn inh c0 -> (frs = [] -> F <> [] -> room c0) -> c_after_text c0 = [] -> Run c0 c frs ->
  exists c' G,
    tok_ev (TText (sl p (p + blen (E.r_epieces l))) (p, p + blen (E.r_epieces l))) c = Ok c' /\
    Run c0 c' (frs ++ G) /\ map (cow_bytes text) G = F /\
    c_ld c' = ld_init /\ c_tag_name c' = c_tag_name c /\ c_entity_floor c' = c_entity_floor c /\ ld' = ld_init.
Proof.
  intros HWv Hok Hne He Hld Hc Hes I R Hat HR. pose proof (WV_W _ _ _ HWv) as HW.
  unfold CstBuild.tok_ev, Parse.token. cbn [token_with]. unfold process_text.
  rewrite process_text_with_unfold. unfold slice_bytes at 1. cbn [sl sl_start sl_end].
  rewrite (W_sub _ _ _ _ HW).
  pose proof (W_le _ _ _ (W_app _ _ _ _ HW)) as Hle.
  destruct (existsb (fun x => (x =? 38) || (x =? 13)) (E.r_epieces l)) eqn:Efast; cbn [negb].
  - cbn [fst snd]. rewrite (stream_from_substr_W text p (E.r_epieces l) more HW). cbn [bind].
    destruct (TL_u text D HD decls es Henv Hdecls false [] l q tr F He inh (p + blen (E.r_epieces l)) p more c0 c frs
                (S (length (s_rest (sst (p + blen (E.r_epieces l)) p (E.r_epieces l ++ more))))) entity_levels
                (p, p + blen (E.r_epieces l)) ld')
      as (c' & G & E' & HR' & HG & K1 & K2 & K3 & K4); try assumption; try reflexivity.
    + rewrite Hc. reflexivity.
    + apply acc_nil.
    + rewrite Hc. exact Hld.
    + rewrite Hc. reflexivity.
    + cbn [sst s_rest]. rewrite app_length. lia.
    + cbn [push_text_chunks] in E'. rewrite E'. exists c', G.
      assert (El : ld' = ld_init) by (apply (CstEntBuild.ld_run_init tr ld' Hld); rewrite K2, Hc; reflexivity).
      repeat split; auto. rewrite K1. exact El.
  - destruct (existsb_or_false _ _ _ Efast) as [E38 E13].
    destruct (exp_plain_u decls false l [] q tr F He Hok E38) as [-> ->]. cbn [app] in *.
    assert (Hemit : emit false (map CLit (E.r_epieces l)) = [E.r_epieces l]).
    { unfold emit. rewrite text_chunks_decode_partial.
      - rewrite decode_lits, norm_eol_nocr by exact E13.
        destruct (E.r_epieces l) as [|y x'] eqn:Ex; [|reflexivity].
        exfalso. destruct l as [|pp l']; [congruence|].
        apply Forall_cons_iff in Hok. destruct Hok as [Hv _]. destruct (uep_piece_ne false pp Hv) as (x1 & r1 & E1).
        rewrite r_epieces_cons, E1 in Ex. discriminate.
      - apply Forall_forall. intros ch Hin. apply in_map_iff in Hin. destruct Hin as (x & <- & _). discriminate. }
    destruct (run_append_n text D inh (CowBorrowed (sl p (p + blen (E.r_epieces l)))) (p, p + blen (E.r_epieces l)) c0 c frs HR I
                (fun Z0 => R Z0 ltac:(rewrite Hemit; discriminate)) Hat)
      as (c' & Ea & HRa & La1 & La2 & La3).
    rewrite Ea. exists c', [CowBorrowed (sl p (p + blen (E.r_epieces l)))]. cbn [ld_run] in Hld. injection Hld as <-.
    repeat split; auto; [|congruence].
    cbn [map cow_bytes]. unfold slice_bytes. cbn [sl sl_start sl_end]. rewrite (W_sub _ _ _ _ HW). rewrite Hemit. reflexivity.
Qed.

(* ---- one iteration of the content loop per segment ---- *)
Lemma ess_bytes_u l : ueseg_wf (ESS l) ->
  ustr (E.r_epieces l) /\ forallb (fun y => negb (y =? 60)) (E.r_epieces l) = true /\
  exists x r, E.r_epieces l = x :: r /\ x <> 60.
Proof.
  intros (Hne & Hok & _). destruct (uep_bytes false l Hok) as [Hu Hb]. split; [exact Hu|]. split; [exact Hb|].
  destruct l as [|pc l']; [congruence|]. apply Forall_cons_iff in Hok. destruct Hok as [Hp _].
  destruct (uep_piece_ne false pc Hp) as (x & r & Er). rewrite r_epieces_cons, Er in Hb |- *. cbn [app forallb] in Hb |- *.
  exists x, (r ++ E.r_epieces l'). split; [reflexivity|]. lia.
Qed.

Lemma eseg_valid s : ueseg_wf s -> U8.Valid (r_eseg s).
Proof.
  destruct s as [l|bs]; cbn [ueseg_wf r_eseg].
  - intros Hw. destruct (ess_bytes_u l Hw) as (Hu & _). apply ustr_valid. exact Hu.
  - intros [Hu _]. repeat apply U8.Valid_app; [apply Valid_lit; reflexivity|apply ustr_valid; exact Hu|apply Valid_lit; reflexivity].
Qed.

Lemma eseg_step_ss_u inh l p rest c0 c frs fuel depth q tr F ld' :
  WV p (E.r_epieces l ++ rest) -> ueseg_wf (ESS l) -> text_stop rest ->
  Exp decls false [] l q tr F -> ld_run ld_init tr = Some ld' ->
  c_ld c = ld_init -> c_entities c = es -> CIn inh c0 -> (frs = [] -> F <> [] -> room c0) -> c_after_text c0 = [] -> Run c0 c frs ->
  exists c' G,
    loop (S fuel) depth (st p (E.r_epieces l ++ rest)) c = loop fuel depth (st (p + blen (E.r_epieces l)) rest) c' /\
    Run c0 c' (frs ++ G) /\ map (cow_bytes text) G = F /\
    c_ld c' = ld_init /\ c_tag_name c' = c_tag_name c /\ c_entity_floor c' = c_entity_floor c /\ ld' = ld_init.
Proof.
  intros HW Hwf Hstop He Hld Hc Hes I R Hat HR.
  destruct (ess_bytes_u l Hwf) as (Hu & Hb & x & r & Ex & Hx60). destruct Hwf as (Hne & Hok & _ & Hn3).
  assert (El : loop (S fuel) depth (st p (E.r_epieces l ++ rest)) c =
               let! (s, c) := parse_text text context tok_ev (st p (E.r_epieces l ++ rest)) c in loop fuel depth s c).
  { pose proof (WV_W _ _ _ HW) as HW0. revert HW0. rewrite Ex. cbn [app]. intros HW0. apply (CstItems.loop_text text); assumption. }
  rewrite El. clear El.
  rewrite (lex_text_g text) by assumption.
  destruct (tok_estretch_u inh p l rest c0 c frs q tr F ld' HW Hok Hne He Hld Hc Hes I R Hat HR)
    as (c' & G & E' & HR' & HG & K1 & K2 & K3 & K4).
  rewrite E'. cbn [bind]. exists c', G. repeat split; auto.
Qed.

Lemma eseg_step_sc_u inh bs p rest c0 c frs fuel depth :
  WV p (r_eseg (ESC bs) ++ rest) -> ueseg_wf (ESC bs) -> c_ld c = ld_init ->
  CIn inh c0 -> (frs = [] -> room c0) -> c_after_text c0 = [] -> Run c0 c frs ->
  exists c' G,
    loop (S fuel) depth (st p (r_eseg (ESC bs) ++ rest)) c = loop fuel depth (st (p + blen (r_eseg (ESC bs))) rest) c' /\
    Run c0 c' (frs ++ G) /\ map (cow_bytes text) G = [norm_eol bs] /\
    c_ld c' = ld_init /\ c_tag_name c' = c_tag_name c /\ c_entity_floor c' = c_entity_floor c.
Proof.
  intros HW Hwf Hc I R Hat HR.
  assert (Hld : LD c) by (unfold LD; rewrite Hc; reflexivity).
  pose proof (CstFullS2.seg_step_u text D HD (SC bs) p rest c fuel depth HW Hwf Hld (fun H => ltac:(discriminate H))) as Es.
  cbn [r_eseg]. cbn [r_seg] in Es. rewrite Es.
  destruct (run_append_n text D inh (frag p (SC bs)) (seg_range p (SC bs)) c0 c frs HR I R Hat) as (c' & Ea & HRa & L1 & L2 & L3).
  rewrite Ea. cbn [bind]. exists c', [frag p (SC bs)]. split; [reflexivity|]. split; [exact HRa|]. split.
  - cbn [map]. rewrite (frag_bytes_u text p (SC bs) rest (WV_W _ _ _ HW) Hwf). reflexivity.
  - repeat split; congruence.
Qed.

Lemma ealt_stop_u s L post : ealt (s :: L) -> text_follow post -> is_ess s = true -> text_stop (flat_map r_eseg L ++ post).
Proof.
  intros A Hp Hs. destruct L as [|[l|bs] L']; cbn [flat_map app].
  - apply CstTextItems.text_follow_stop. exact Hp.
  - destruct A as [A _]. specialize (A Hs). discriminate.
  - reflexivity.
Qed.

Lemma run_loop_e_u inh c0 post : CIn inh c0 -> c_after_text c0 = [] -> text_follow post ->
  forall L Q tr FF, RunExp decls L Q tr FF ->
  forall prev p c frs fuel depth ld',
  (frs = [] -> concat FF <> [] -> room c0) -> Forall ueseg_wf L -> ealt (prev :: L) -> WV p (flat_map r_eseg L ++ post) ->
  ld_run ld_init tr = Some ld' -> c_ld c = ld_init -> c_entities c = es -> Run c0 c frs ->
  exists c' G,
    loop (length L + fuel) depth (st p (flat_map r_eseg L ++ post)) c =
    loop fuel depth (st (p + blen (flat_map r_eseg L)) post) c' /\
    Run c0 c' (frs ++ G) /\ map (cow_bytes text) G = concat FF /\
    c_ld c' = ld_init /\ c_tag_name c' = c_tag_name c /\ c_entity_floor c' = c_entity_floor c /\ ld' = ld_init.
Proof.
  intros I Hat Hp L Q tr FF H.
  induction H as [|ps q tr F L Q tr' FF He HR IH|bs L Q tr' FF HR IH];
    intros prev p c frs fuel depth ld' R HF A HW Hld Hc Hes HRun.
  - cbn [length flat_map app Nat.add concat]. rewrite blen_nil, N.add_0_r. exists c, []. rewrite app_nil_r.
    cbn [ld_run] in Hld. injection Hld as <-. repeat split; auto.
  - apply Forall_cons_iff in HF. destruct HF as [Hs HL]. cbn [flat_map] in HW |- *. rewrite <- app_assoc in HW |- *.
    assert (A' : ealt (ESS ps :: L)) by (destruct A as [_ A]; exact A).
    rewrite ld_run_app in Hld. destruct (ld_run ld_init tr) as [ld1|] eqn:El1; [|discriminate].
    cbn [length Nat.add r_eseg] in *.
    destruct (eseg_step_ss_u inh ps p (flat_map r_eseg L ++ post) c0 c frs (length L + fuel) depth q tr F ld1 HW Hs
                (ealt_stop_u _ _ _ A' Hp eq_refl) He El1 Hc Hes I
                (fun Z0 Z1 => R Z0 ltac:(cbn [concat]; intros Z2; apply app_eq_nil in Z2; destruct Z2; contradiction)) Hat HRun)
      as (c1 & G1 & E1 & HR1 & HG1 & K1 & K2 & K3 & K4).
    rewrite E1. subst ld1.
    destruct (IH (ESS ps) (p + blen (E.r_epieces ps)) c1 (frs ++ G1) fuel depth ld'
                (fun Z0 Z1 => R (proj1 (app_eq_nil _ _ Z0)) ltac:(cbn [concat]; intros Z2; apply app_eq_nil in Z2; destruct Z2; contradiction))
                HL A' (WV_app _ _ _ _ HW (eseg_valid (ESS ps) Hs)) Hld K1)
      as (c' & G & E' & HR' & HG & J1 & J2 & J3 & J4).
    { rewrite (Run_entities _ _ _ HR1). rewrite <- Hes. symmetry. apply (Run_entities _ _ _ HRun). }
    { exact HR1. }
    rewrite E'. exists c', (G1 ++ G). split; [rewrite blen_app, N.add_assoc; reflexivity|].
    split; [rewrite app_assoc; exact HR'|]. split; [rewrite map_app, HG1, HG; reflexivity|].
    repeat split; congruence.
  - apply Forall_cons_iff in HF. destruct HF as [Hs HL]. cbn [flat_map] in HW |- *. rewrite <- app_assoc in HW |- *.
    assert (A' : ealt (ESC bs :: L)) by (destruct A as [_ A]; exact A).
    cbn [length Nat.add] in *.
    destruct (eseg_step_sc_u inh bs p (flat_map r_eseg L ++ post) c0 c frs (length L + fuel) depth HW Hs Hc I
                (fun Z0 => R Z0 ltac:(cbn [concat app]; discriminate)) Hat HRun)
      as (c1 & G1 & E1 & HR1 & HG1 & K1 & K2 & K3).
    rewrite E1.
    destruct (IH (ESC bs) (p + blen (r_eseg (ESC bs))) c1 (frs ++ G1) fuel depth ld'
                (fun Z0 Z1 => R (proj1 (app_eq_nil _ _ Z0)) ltac:(cbn [concat app]; discriminate))
                HL A' (WV_app _ _ _ _ HW (eseg_valid (ESC bs) Hs)) Hld K1)
      as (c' & G & E' & HR' & HG & J1 & J2 & J3 & J4).
    { rewrite (Run_entities _ _ _ HR1). rewrite <- Hes. symmetry. apply (Run_entities _ _ _ HRun). }
    { exact HR1. }
    rewrite E'. exists c', (G1 ++ G). split; [rewrite blen_app, N.add_assoc; reflexivity|].
    split; [rewrite app_assoc; exact HR'|]. split; [rewrite map_app, HG1, HG; reflexivity|].
    repeat split; congruence.
Qed.

Lemma ealt_sc bs L : ealt L -> ealt (ESC bs :: L).
Proof. intros A. destruct L; [exact Logic.I|]. split; [discriminate|exact A]. Qed.

(* ---- the whole run ---- *)
Lemma erun_ok inh ps p post c depth fuel k Q tr :
  ps <> [] -> Forall ueseg_wf (esegs ps) ->
  E.inline_ps (E.level decls k) false false ps = Some (Q, tr) -> limits_ok tr = true -> E.crlf_split_ok Q = true ->
  WV p (E.r_epieces ps ++ post) -> text_follow post ->
  CIn inh c -> c_ld c = ld_init -> c_entities c = es -> c_after_text c = [] ->
  (forallb E.is_mark Q = false -> room c) ->
  exists c',
    loop (length (esegs ps) + fuel) depth (st p (E.r_epieces ps ++ post)) c =
    loop fuel depth (st (p + blen (E.r_epieces ps)) post) c' /\ c_after_text c' = [] /\ CIn inh c' /\
    c_tag_name c' = c_tag_name c /\ d_ns_tree (c_doc c') = d_ns_tree (c_doc c) /\
    if forallb E.is_mark Q then c' = c
    else exists stg, Stepn c c' [(Some (c_parent_id c), KText stg)] [] /\ storage_bytes text stg = T.text_sem Q.
Proof.
  intros Hne HF Hps Hlim Hcr HW Hfol I Hc Hes Hat R.
  rewrite <- (esegs_flat ps) in Hps at 1.
  destruct (RunExp_of decls k (esegs ps) _ _ Hps) as [FF HFF].
  rewrite <- (esegs_render ps) in HW |- *.
  pose proof (RunExp_marks_u decls Hdecls _ _ _ _ HFF HF) as Hmarks.
  destruct (detector_complete_gen tr 0 0 Hlim) as [ld' Hld]. change (DetectorProofs.mk 0 0) with ld_init in Hld.
  destruct (run_loop_e_u inh c post I Hat Hfol (esegs ps) _ _ _ HFF (ESC []) p c [] fuel depth ld') as
    (c' & G & E' & HR' & HG & K1 & K2 & K3 & K4); try assumption.
  { intros _ Hn. apply R. destruct (forallb E.is_mark Q) eqn:Em; [|reflexivity]. exfalso. apply Hn. apply (proj2 Hmarks). reflexivity. }
  { apply ealt_sc. apply ealt_esegs. }
  { apply CstEntText.same_frame_refl. }
  rewrite E'. cbn [app] in HR'.
  destruct (forallb E.is_mark Q) eqn:Em.
  - (* only marks: nothing is appended, no node *)
    rewrite (proj2 Hmarks eq_refl) in HG. destruct G; [|discriminate].
    assert (Ec : c' = c).
    { symmetry. apply CstEntBuild.context_eq; [exact HR'|congruence|congruence|congruence]. }
    subst c'. exists c. split; [reflexivity|]. split; [exact Hat|]. split; [exact I|]. split; [reflexivity|]. split; reflexivity.
  - (* one Text node *)
    assert (HGne : G <> []).
    { intros ->. cbn [map] in HG. symmetry in HG. apply (proj1 Hmarks) in HG. discriminate HG. }
    destruct G as [|t0 rest]; [congruence|]. cbn [CstEntText.Run] in HR'. destruct HR' as (nodes' & Mn & SF).
    assert (Ec : set_after_text (run_ctx c nodes') (t0 :: rest) = c') by (apply CstEntBuild.context_eq; [exact SF|cbn; congruence..]).
    destruct (run_reset_n text D HD inh c nodes' t0 rest I Mn) as (c2 & stg & Ereset & S & I2 & A2 & Tn & Tr & Hst).
    rewrite Ec in Ereset.
    pose proof (W_app _ _ _ _ (WV_W _ _ _ HW)) as HWend.
    rewrite (CstTextItems.loop_reset_eq text _ c2 _ post Ereset A2 Hfol HWend).
    exists c2. split; [reflexivity|]. split; [exact A2|]. split; [exact I2|]. split; [exact Tn|]. split; [exact Tr|].
    exists stg. split; [exact S|].
    rewrite Hst, HG.
    rewrite <- (RunExp_sem_u decls Hdecls _ _ _ _ HFF HF (ealt_esegs ps) Hcr).
    clear. induction FF as [|F FF IH]; [reflexivity|]. cbn [concat map]. rewrite concat_app, IH. reflexivity.
Qed.

End ERun.

Print Assumptions run_loop_e_u.
Print Assumptions erun_ok.
