(* Proofs/CstMain.v -- C03: the rendering of every well-formed abstract document of Spec/Cst.v
   parses to exactly its tree ([parse_render_sem]); layout does not matter ([layout_insensitive]).

   REMARKS ON THE STATEMENTS.  The statements first asked for had no size hypothesis and are false
   for astronomically large documents (a flaw of the specification, not of the crate):
   (A) Model/Builder.v [resolve_attributes] answers [Err AttributesLimitReached] as soon as
       u32_max <= len (d_attrs) + len (current attributes) (the documented limit of the crate).
       Counterexample: the root element "<a" followed by 4294967295 pairwise distinct well-formed
       attributes and "/>": wf_doc = true, length (sem c) = 1 < nodes_limit, parse = Err.
   (B) [options.nodes_limit : N] is not bounded by u32::MAX in the model (it is a u32 in the crate).
       With nodes_limit opt > u32_max and a well-formed document of >= 4294967295 nodes,
       [append_node] reaches [node_id_new n] with u32_max <= n and answers Panic P_debug_assert
       although length (sem c) < nodes_limit opt.
   Hence [parse_render_sem_bounded] carries the two exact bounds (number of nodes < u32_max,
   number of attributes < u32_max), and [parse_render_sem] / [layout_insensitive] carry the single
   hypothesis "the input is at most u32::MAX bytes long" which implies both. *)
From Coq Require Import Ascii String.
From Coq Require Import List NArith PeanoNat Bool Lia ZifyBool ZifyN ZifyNat.
Import ListNotations.
From RX Require Import Generated.
From RX.Model Require Import Base CharClass Stream Tokenizer Doc Builder Parse.
From RX.Spec Require Cst.
From RX.Spec Require Tree.
From RX.Proofs Require Import Tactics CstLex CstBuild CstTree CstItems CstDoc.
From RX.Proofs Require KeystoneEnc KeystoneBuilder KeystoneParse CstFinal.
Open Scope N_scope.

(* what a parsed document looks like, as the list of its nodes below the Root in document (id) order *)
Definition children_count (d : document) (id : N) : nat :=
  length (filter (fun nd => match nd_parent nd with Some p => p =? id | None => false end) (d_nodes d)).
Definition attrs_of (text : bytes) (d : document) (r : range) : list (bytes * bytes) :=
  map (fun a => (slice_bytes text (ad_local a), storage_bytes text (ad_value a)))
      (firstn (N.to_nat (snd r - fst r)) (skipn (N.to_nat (fst r)) (d_attrs d))).
Definition view_node (text : bytes) (d : document) (id : N) (nd : node_data) : option Cst.vnode :=
  match nd_kind nd with
  | KRoot => None
  | KElement _ local ar _ => Some (Cst.VElem (slice_bytes text local) (attrs_of text d ar) (children_count d id))
  | KPI target value => Some (Cst.VPI (slice_bytes text target) (match value with Some v => Some (slice_bytes text v) | None => None end))
  | KComment s => Some (Cst.VComment (slice_bytes text s))
  | KText st => Some (Cst.VText (storage_bytes text st))
  end.
Fixpoint view_from (text : bytes) (d : document) (id : N) (l : list node_data) : list Cst.vnode :=
  match l with
  | [] => []
  | nd :: r => match view_node text d id nd with Some v => v :: view_from text d (id + 1) r | None => view_from text d (id + 1) r end
  end.
Definition view (text : bytes) (d : document) : list Cst.vnode := view_from text d 0 (d_nodes d).

(* ------------------------------------------------------------------------------------------ *)
(* from the rows to the view                                                                  *)
(* ------------------------------------------------------------------------------------------ *)

Lemma Forall2_nth_r {A B} (R : A -> B -> Prop) l l' : Forall2 R l l' ->
  forall k y, nth_error l' k = Some y -> exists x, nth_error l k = Some x /\ R x y.
Proof.
  induction 1 as [|a b0 l l' Hab _ IH]; intros k y Hk; [destruct k; discriminate|].
  destruct k as [|k]; cbn [nth_error] in *; [injection Hk as <-; eauto|apply IH; exact Hk].
Qed.

Lemma Forall2_In_l {A B} (R : A -> B -> Prop) l l' : Forall2 R l l' ->
  forall x, In x l -> exists y, In y l' /\ R x y.
Proof.
  induction 1 as [|a b0 l l' Hab _ IH]; intros x Hx; [contradiction|].
  destruct Hx as [<-|Hx]; [exists b0; split; [left; reflexivity|exact Hab]|].
  destruct (IH x Hx) as (y & Hy & Hr). exists y. split; [right; exact Hy|exact Hr].
Qed.

Lemma count_rows text A : forall nodes T q,
  Forall2 (km text A) (map abs_nd nodes) T ->
  length (filter (fun nd => match nd_parent nd with Some p => p =? q | None => false end) nodes) = cnt q T.
Proof.
  induction nodes as [|nd nodes IH]; intros T q H; inversion H as [|rw tv K T' Hkm HF]; subst; [reflexivity|].
  cbn [filter]. rewrite cnt_cons. destruct Hkm as [Hp _]. cbn [abs_nd fst] in Hp. rewrite Hp.
  destruct (fst tv =? q); cbn [length]; rewrite (IH _ _ HF); reflexivity.
Qed.

Lemma view_from_rows text d : forall nodes T id,
  Forall2 (km text (d_attrs d)) (map abs_nd nodes) T ->
  (forall k q v, nth_error T k = Some (q, v) -> vcount v = children_count d (id + N.of_nat k)) ->
  view_from text d id nodes = map snd T.
Proof.
  induction nodes as [|nd nodes IH]; intros T id H Hc; inversion H as [|rw tv K T' Hkm HF]; subst; [reflexivity|].
  cbn [view_from map]. destruct tv as [q v].
  assert (Hv : view_node text d id nd = Some v).
  { pose proof (Hc O q v eq_refl) as Hc0. cbn [N.of_nat] in Hc0. rewrite N.add_0_r in Hc0.
    destruct Hkm as [_ Hk]. cbn [abs_nd snd] in Hk. unfold view_node.
    destruct (nd_kind nd) as [|ns local ar nss|t vo|s|s]; destruct v as [nm at_ m|bs|bs|tb vb]; try contradiction.
    - destruct Hk as (_ & E1 & E2 & _). unfold attrs_of. unfold attrs_list in E2. rewrite E1, E2.
      cbn [vcount] in Hc0. rewrite Hc0. reflexivity.
    - destruct Hk as [E1 E2]. rewrite E1. destruct vo, vb; try contradiction; [rewrite E2|]; reflexivity.
    - rewrite Hk. reflexivity.
    - rewrite Hk. reflexivity. }
  rewrite Hv. cbn [snd]. f_equal. apply IH; [exact HF|].
  intros k q' v' Hk. rewrite (Hc (S k) q' v' Hk). f_equal. lia.
Qed.

(* ------------------------------------------------------------------------------------------ *)
(* sizes                                                                                      *)
(* ------------------------------------------------------------------------------------------ *)

Definition doc_nattrs (c : Cst.doc) : nat := nattrs (Cst.d_root c).

Lemma nsizes_doc c : nsizes (doc_items c) = N.of_nat (length (Cst.sem c)).
Proof. unfold nsizes. rewrite sem_doc_items. reflexivity. Qed.

(* ------------------------------------------------------------------------------------------ *)
(* the theorem with the exact bounds                                                          *)
(* ------------------------------------------------------------------------------------------ *)

Definition init_ctx (text : bytes) (opt : options) : context :=
  {| c_opt := opt; c_ns_start_idx := 1; c_cur_attrs := []; c_awaiting := [];
     c_parent_prefixes := [empty_slice]; c_entities := []; c_after_text := [];
     c_parent_id := 0; c_tag_name := tag_name_null; c_entity_floor := 0; c_ld := ld_init;
     c_doc := {| d_nodes := [{| nd_parent := None; nd_prev_sibling := None; nd_next_subtree := None;
                                nd_last_child := None; nd_kind := KRoot; nd_range := (0, tlen text) |}];
                 d_attrs := []; d_ns_values := [xml_ns]; d_ns_tree := [0] |} |}.

Lemma init_context_eq text opt : init_context text opt = Ok (init_ctx text opt).
Proof. reflexivity. Qed.

Lemma init_ctx_CI text opt : CI (init_ctx text opt).
Proof.
  constructor; cbn; try reflexivity; try discriminate; try constructor; try lia.
  exists None, KRoot. split; [reflexivity|exact I].
Qed.

Theorem parse_render_sem_bounded : forall (c : Cst.doc) (opt : options),
  Cst.wf_doc c = true ->
  N.of_nat (length (Cst.sem c)) < nodes_limit opt ->
  N.of_nat (length (Cst.sem c)) < u32_max ->
  N.of_nat (doc_nattrs c) < u32_max ->
  exists d, parse (Cst.render c) opt = Ok d /\
            view (Cst.render c) d = Cst.sem c /\
            (forall nd ns local ar nss, In nd (d_nodes d) -> nd_kind nd = KElement ns local ar nss -> ns = None) /\
            (forall a, In a (d_attrs d) -> ad_ns_idx a = None).
Proof.
  intros c opt Hwf Hlim Hmax Hattr. set (text := Cst.render c).
  destruct (parse_document_ok c (allow_dtd opt) (init_ctx text opt) Hwf (init_ctx_CI text opt) eq_refl)
    as (cf & K & ext & E & S & I & F).
  { unfold node_room. cbn. rewrite nsizes_doc. unfold len_N. cbn [length]. lia. }
  { unfold attr_room. cbn. unfold doc_nattrs in Hattr. lia. }
  fold text in E, F. cbn [c_parent_id init_ctx c_doc d_nodes] in F. change (len_N [_]) with 1 in F.
  destruct S as (S0 & _ & Hpp). cbn [c_parent_prefixes init_ctx] in Hpp.
  assert (Habs : absn (c_doc cf) = (None, KRoot) :: K) by (rewrite (s_nodes _ _ _ _ S0); reflexivity).
  set (d := c_doc cf) in *.
  destruct (d_nodes d) as [|rootnd nodes] eqn:En; [unfold absn in Habs; rewrite En in Habs; discriminate|].
  unfold absn in Habs. rewrite En in Habs. cbn [map] in Habs. injection Habs as Hp0 Hk0 HK.
  set (T := tag_list 0 1 (doc_items c)) in *.
  assert (HlenK : length K = length T).
  { clear - F. induction F; cbn [length]; lia. }
  assert (HlenT : N.of_nat (length T) = N.of_nat (length (Cst.sem c))).
  { unfold T. rewrite tag_list_len. apply nsizes_doc. }
  assert (Hlen : len_N (d_nodes d) = 1 + N.of_nat (length (Cst.sem c))).
  { rewrite En. unfold len_N. cbn [length]. rewrite <- HK in HlenK. rewrite map_length in HlenK. lia. }
  (* the arena is the encoding of a tree *)
  assert (HP : KeystoneBuilder.P cf).
  { eapply (KeystoneParse.parse_document_Q text context (Parse.token text) KeystoneBuilder.P).
    - intros tok x x'. apply KeystoneParse.token_P.
    - exists Tree.KdRoot, [], []. apply (KeystoneParse.init_context_Inv text opt). apply init_context_eq.
    - exact E. }
  destruct HP as (k & cs & outer & Inv).
  pose proof (KeystoneBuilder.inv_pp _ _ _ _ Inv) as Ipp. rewrite Hpp in Ipp. cbn [length] in Ipp.
  destruct outer as [|o outer]; [|cbn [length] in Ipp; lia].
  pose proof (KeystoneBuilder.inv_kinds _ _ _ _ Inv) as Ik. cbn [KeystoneBuilder.kinds_ok] in Ik. subst k.
  pose proof (KeystoneBuilder.inv_rows _ _ _ _ Inv) as Irows.
  unfold KeystoneEnc.ztree in Irows. cbn [KeystoneEnc.plug] in Irows.
  (* the root element is a child of the Root node *)
  destruct (wf_doc_parts c Hwf) as [_ _ _ (name & attrs & ws & body & Er) _ _].
  set (k0 := length (tag_list 0 1 (map fst (Cst.d_before c)))).
  assert (HT0 : exists m, nth_error T k0 = Some (0, Cst.VElem name (eattrs attrs) m)).
  { unfold T, doc_items. rewrite tag_list_app. unfold k0. rewrite nth_error_app2 by lia.
    rewrite Nat.sub_diag. cbn [tag_list]. rewrite Er.
    destruct body as [[cs0 w2]|]; [rewrite tag_elem|cbn [tag]]; cbn [app nth_error]; eauto. }
  destruct HT0 as (m & HT0).
  destruct (Forall2_nth_r _ _ _ F _ _ HT0) as (rw & Hrw & Hkm).
  rewrite <- HK in Hrw. apply nth_error_map_inv in Hrw. destruct Hrw as (nd0 & Hnd0 & Eabs).
  destruct Hkm as [Hpar Hkind]. rewrite <- Eabs in Hpar, Hkind. cbn [abs_nd fst snd] in Hpar, Hkind.
  assert (Hel : is_element_kind (nd_kind nd0) = true) by (destruct (nd_kind nd0); try contradiction; reflexivity).
  destruct (CstFinal.root_has_element d cs (N.of_nat (S k0)) nd0) as (it & Eit & Eany).
  { exact Irows. }
  { rewrite Hlen. unfold u32_max in Hmax. lia. }
  { rewrite Nat2N.id, En. cbn [nth_error]. exact Hnd0. }
  { exact Hpar. }
  { exact Hel. }
  exists d. split; [|split; [|split]].
  - unfold parse. rewrite init_context_eq. cbn [bind]. unfold tok_ev in E. rewrite E. cbn [bind].
    fold d. rewrite Eit. cbn [bind]. rewrite Eany. cbn [bind negb]. rewrite Hpp. reflexivity.
  - unfold view. rewrite En. cbn [view_from]. unfold view_node. rewrite Hk0.
    change (0 + 1) with 1.
    rewrite (view_from_rows text d nodes T 1).
    + unfold T. rewrite tag_list_sem. symmetry. apply sem_doc_items.
    + rewrite HK. exact F.
    + intros k q v Hk. rewrite (tag_list_counts _ 0 1 ltac:(lia) k q v Hk). fold T.
      unfold children_count. rewrite En. cbn [filter].
      rewrite Hp0.
      apply eq_sym. apply (count_rows text (d_attrs d)). rewrite HK. exact F.
  - intros nd ns local ar nss Hin Hk. rewrite En in Hin. destruct Hin as [<-|Hin].
    + congruence.
    + apply (in_map abs_nd) in Hin. rewrite HK in Hin.
      destruct (Forall2_In_l _ _ _ F _ Hin) as ([q v] & _ & _ & Hkm').
      cbn [abs_nd snd] in Hkm'. rewrite Hk in Hkm'. destruct v; try contradiction. apply Hkm'.
  - intros a Ha. pose proof (ci_attrs _ I) as HF. rewrite Forall_forall in HF. apply HF. exact Ha.
Qed.
Print Assumptions parse_render_sem_bounded.

(* ------------------------------------------------------------------------------------------ *)
(* the bounds follow from "the input is at most u32::MAX bytes long"                           *)
(* ------------------------------------------------------------------------------------------ *)

Lemma sem_le_render : forall i, Cst.wf_item i = true ->
  (length (Cst.sem_item i) + (if is_elem i then 1 else 0) <= length (Cst.r_item i))%nat /\
  (nattrs i + (if is_elem i then 1 else 0) <= length (Cst.r_item i))%nat.
Proof.
  intros i. induction i as [n a w|n a w cs w2 IH|bs|bs|t s v] using item_ind'; intros Hwf.
  - rewrite r_item_elem, sem_item_elem, nattrs_elem, !app_length. cbn [length is_elem].
    pose proof (flat_attr_len a). lia.
  - destruct (wf_elem_parts _ _ _ _ Hwf) as (_ & _ & _ & _ & _ & _ & _ & Hcs).
    rewrite r_item_elem, sem_item_elem, nattrs_elem, !app_length. cbn [length is_elem].
    assert (G : (length (sem_items cs) <= length (r_items cs) /\ nattrs_items cs <= length (r_items cs))%nat).
    { clear - IH Hcs. induction IH as [|c r Hc _ IHr]; [cbn; lia|].
      cbn [wf_items] in Hcs. apply andb_true_iff in Hcs. destruct Hcs as [H1 H2].
      cbn [sem_items r_items nattrs_items]. rewrite !app_length.
      destruct (Hc H1) as [A1 A2]. destruct (IHr H2) as [B1 B2]. lia. }
    pose proof (flat_attr_len a). lia.
  - destruct (wf_text _ Hwf) as (_ & Hne & _). destruct bs; [congruence|]. cbn. lia.
  - cbn [Cst.r_item Cst.sem_item nattrs is_elem]. rewrite !app_length. cbn [length]. lia.
  - cbn [Cst.r_item Cst.sem_item nattrs is_elem]. rewrite !app_length. cbn [length]. lia.
Qed.

Lemma pairs_sem_le l : wf_pairs l = true -> (length (sem_items (map snd l)) <= length (r_pairs l))%nat.
Proof.
  induction l as [|[w i] r IH]; intros H; [cbn; lia|]. cbn [wf_pairs forallb fst snd] in H.
  rewrite !andb_true_iff in H. destruct H as [[[H1 H2] H3] H4].
  cbn [map snd sem_items r_pairs flat_map fst]. rewrite !app_length. specialize (IH H4).
  unfold r_pairs in IH. destruct (sem_le_render i H3) as [A _]. lia.
Qed.

Lemma render_bounds c : Cst.wf_doc c = true ->
  (length (Cst.sem c) < length (Cst.render c))%nat /\ (doc_nattrs c < length (Cst.render c))%nat.
Proof.
  intros Hwf. pose proof (wf_doc_parts c Hwf) as [H1 H2 H3 (name & attrs & ws & body & Er) H5 H6].
  destruct (regroup_wf _ _ H1 H3) as [R1 _].
  rewrite render_shape, sem_doc_items. unfold doc_items, doc_nattrs.
  rewrite <- (regroup_items (Cst.d_before c) (Cst.d_ws0 c)).
  rewrite sem_items_app. cbn [sem_items]. rewrite !app_length.
  pose proof (pairs_sem_le _ R1). pose proof (pairs_sem_le _ H6).
  destruct (sem_le_render _ H5) as [A1 A2]. rewrite Er in A1, A2 |- *. cbn [is_elem] in A1, A2. lia.
Qed.

Theorem parse_render_sem : forall (c : Cst.doc) (opt : options),
  Cst.wf_doc c = true ->
  N.of_nat (length (Cst.sem c)) < nodes_limit opt ->          (* room for all nodes + the Root *)
  N.of_nat (length (Cst.render c)) <= u32_max ->               (* the input is at most u32::MAX bytes long *)
  exists d, parse (Cst.render c) opt = Ok d /\
            view (Cst.render c) d = Cst.sem c /\
            (* no namespaces in this fragment *)
            (forall nd ns local ar nss, In nd (d_nodes d) -> nd_kind nd = KElement ns local ar nss -> ns = None) /\
            (forall a, In a (d_attrs d) -> ad_ns_idx a = None).
Proof.
  intros c opt Hwf Hlim Hsz. destruct (render_bounds c Hwf) as [B1 B2].
  apply parse_render_sem_bounded; [exact Hwf|exact Hlim|lia|lia].
Qed.
Print Assumptions parse_render_sem.

Theorem layout_insensitive_bounded : forall c1 c2 opt,
  Cst.wf_doc c1 = true -> Cst.wf_doc c2 = true -> Cst.sem c1 = Cst.sem c2 ->
  N.of_nat (length (Cst.sem c1)) < nodes_limit opt ->
  N.of_nat (length (Cst.sem c1)) < u32_max ->
  N.of_nat (doc_nattrs c1) < u32_max -> N.of_nat (doc_nattrs c2) < u32_max ->
  exists d1 d2, parse (Cst.render c1) opt = Ok d1 /\ parse (Cst.render c2) opt = Ok d2 /\
                view (Cst.render c1) d1 = view (Cst.render c2) d2.
Proof.
  intros c1 c2 opt W1 W2 E L M A1 A2.
  destruct (parse_render_sem_bounded c1 opt W1 L M A1) as (d1 & P1 & V1 & _).
  destruct (parse_render_sem_bounded c2 opt W2 ltac:(rewrite <- E; exact L) ltac:(rewrite <- E; exact M) A2)
    as (d2 & P2 & V2 & _).
  exists d1, d2. split; [exact P1|]. split; [exact P2|]. rewrite V1, V2. exact E.
Qed.
Print Assumptions layout_insensitive_bounded.

Theorem layout_insensitive : forall c1 c2 opt,
  Cst.wf_doc c1 = true -> Cst.wf_doc c2 = true -> Cst.sem c1 = Cst.sem c2 ->
  N.of_nat (length (Cst.sem c1)) < nodes_limit opt ->
  N.of_nat (length (Cst.render c1)) <= u32_max -> N.of_nat (length (Cst.render c2)) <= u32_max ->
  exists d1 d2, parse (Cst.render c1) opt = Ok d1 /\ parse (Cst.render c2) opt = Ok d2 /\
                view (Cst.render c1) d1 = view (Cst.render c2) d2.
Proof.
  intros c1 c2 opt W1 W2 E L S1 S2.
  destruct (parse_render_sem c1 opt W1 L S1) as (d1 & P1 & V1 & _).
  destruct (parse_render_sem c2 opt W2 ltac:(rewrite <- E; exact L) S2) as (d2 & P2 & V2 & _).
  exists d1, d2. split; [exact P1|]. split; [exact P2|]. rewrite V1, V2. exact E.
Qed.
Print Assumptions layout_insensitive.
