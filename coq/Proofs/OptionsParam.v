(* OptionsParam.v -- parametricity of the tokenizer in its callback (C, ev).
   Unary form (invariants of the callback state are invariants of every tokenizer function)
   and binary form (related callbacks give related runs, with an optional "early exit" of
   the left run on a designated error). *)
From Coq Require Import Ascii String.
From Coq Require Import Lia ZifyBool ZifyN ZifyNat.
From RX Require Import Generated.
From RX.Model Require Import Base CharClass Stream Tokenizer.
From RX.Proofs Require Import Tactics.

(** * Small facts *)

Lemma err_at_not_ok {A} text s mk (y : A) : err_at text s mk = Ok y -> False.
Proof. unfold err_at. destruct (gen_text_pos text s); discriminate. Qed.

Lemma err_from_not_ok {A} text p mk (y : A) : err_from text p mk = Ok y -> False.
Proof. unfold err_from. destruct (gen_text_pos_from text p); discriminate. Qed.

(** * Symbolic execution of a successful run: [H : e = Ok y] *)

Ltac ustep :=
  match goal with
  | H : Ok _ = Ok _ |- _ => inversion H; subst; clear H
  | H : Err _ = Ok _ |- _ => discriminate H
  | H : Panic _ = Ok _ |- _ => discriminate H
  | H : OutOfFuel = Ok _ |- _ => discriminate H
  | H : err_at _ _ _ = Ok _ |- _ => exfalso; exact (err_at_not_ok _ _ _ _ H)
  | H : err_from _ _ _ = Ok _ |- _ => exfalso; exact (err_from_not_ok _ _ _ _ H)
  | H : bind _ _ = Ok _ |- _ =>
    let a := fresh "a" in let H1 := fresh "Hb" in
    apply bind_ok in H; destruct H as [a [H1 H]]; cbv beta in H
  | H : (let '(_, _) := ?x in _) = Ok _ |- _ => destruct x
  | H : (if ?b then _ else _) = Ok _ |- _ => destruct b eqn:?
  | H : match ?x with _ => _ end = Ok _ |- _ => destruct x eqn:?
  end.

Ltac usteps := repeat ustep.

(** * Unary parametricity *)

Section Unary.
Variable text : bytes.
Variable C : Type.
Variable ev : token -> C -> res C.
Variable I : C -> Prop.
Hypothesis HI : forall tok c c', I c -> ev tok c = Ok c' -> I c'.

Local Hint Resolve HI : core.

Lemma u_parse_comment s c s' c' :
  parse_comment text C ev s c = Ok (s', c') -> I c -> I c'.
Proof. unfold parse_comment. intros H Hi. usteps; eauto. Qed.

Lemma u_parse_pi s c s' c' :
  parse_pi text C ev s c = Ok (s', c') -> I c -> I c'.
Proof. unfold parse_pi. intros H Hi. usteps; eauto. Qed.

Local Hint Resolve u_parse_comment u_parse_pi : core.

Lemma u_parse_misc_loop fuel : forall s c s' c',
  parse_misc_loop text C ev fuel s c = Ok (s', c') -> I c -> I c'.
Proof.
  induction fuel; intros s c s' c' H Hi; [discriminate|].
  cbn [parse_misc_loop] in H. usteps; eauto.
Qed.

Lemma u_parse_misc s c s' c' :
  parse_misc text C ev s c = Ok (s', c') -> I c -> I c'.
Proof. unfold parse_misc. apply u_parse_misc_loop. Qed.

Lemma u_parse_entity_decl s c s' c' :
  parse_entity_decl text C ev s c = Ok (s', c') -> I c -> I c'.
Proof. unfold parse_entity_decl. intros H Hi. usteps; eauto. Qed.

Local Hint Resolve u_parse_misc u_parse_entity_decl : core.

Lemma u_parse_doctype_loop fuel : forall start s c s' c',
  parse_doctype_loop text C ev fuel start s c = Ok (s', c') -> I c -> I c'.
Proof.
  induction fuel; intros start s c s' c' H Hi; [discriminate|].
  cbn [parse_doctype_loop] in H. usteps; eauto.
Qed.

Lemma u_parse_doctype s c s' c' :
  parse_doctype text C ev s c = Ok (s', c') -> I c -> I c'.
Proof.
  unfold parse_doctype. intros H Hi. usteps; eauto using u_parse_doctype_loop.
Qed.

Lemma u_parse_element_loop fuel : forall ts s c o s' c',
  parse_element_loop text C ev fuel ts s c = Ok (o, s', c') -> I c -> I c'.
Proof.
  induction fuel; intros ts s c o s' c' H Hi; [discriminate|].
  cbn [parse_element_loop] in H. usteps; eauto.
Qed.

Lemma u_parse_element s c o s' c' :
  parse_element text C ev s c = Ok (o, s', c') -> I c -> I c'.
Proof.
  unfold parse_element. intros H Hi. usteps; eauto using u_parse_element_loop.
Qed.

Lemma u_parse_cdata s c s' c' :
  parse_cdata text C ev s c = Ok (s', c') -> I c -> I c'.
Proof. unfold parse_cdata. intros H Hi. usteps; eauto. Qed.

Lemma u_parse_close_element s c s' c' :
  parse_close_element text C ev s c = Ok (s', c') -> I c -> I c'.
Proof. unfold parse_close_element. intros H Hi. usteps; eauto. Qed.

Lemma u_parse_text s c s' c' :
  parse_text text C ev s c = Ok (s', c') -> I c -> I c'.
Proof. unfold parse_text. intros H Hi. usteps; eauto. Qed.

Local Hint Resolve u_parse_doctype u_parse_element u_parse_cdata u_parse_close_element
  u_parse_text : core.

Lemma u_parse_content_loop fuel : forall depth s c s' c',
  parse_content_loop text C ev fuel depth s c = Ok (s', c') -> I c -> I c'.
Proof.
  induction fuel; intros depth s c s' c' H Hi; [discriminate|].
  cbn [parse_content_loop] in H. usteps; eauto.
Qed.

Lemma u_parse_content s c s' c' :
  parse_content text C ev s c = Ok (s', c') -> I c -> I c'.
Proof. unfold parse_content. apply u_parse_content_loop. Qed.

Local Hint Resolve u_parse_content : core.

Lemma u_parse_document dtd c c' :
  parse_document text C ev dtd c = Ok c' -> I c -> I c'.
Proof. unfold parse_document. intros H Hi. usteps; eauto 8. Qed.

End Unary.
