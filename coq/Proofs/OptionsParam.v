(* OptionsParam.v -- parametricity of the tokenizer in its callback (C, ev).
   Unary form (invariants of the callback state are invariants of every tokenizer function)
   and binary form (related callbacks give related runs, with an optional "early exit" of
   the left run on a designated error). *)
From Coq Require Import Ascii String.
From Coq Require Import Lia ZifyBool ZifyN ZifyNat.
From RX Require Import Generated.
From RX.Model Require Import Base CharClass Stream Tokenizer.
From RX.Proofs Require Import Tactics.

(** * Small facts *)

Lemma err_at_not_ok {A} text s mk (y : A) : err_at text s mk = Ok y -> False.
Proof. unfold err_at. destruct (gen_text_pos text s); discriminate. Qed.

Lemma err_from_not_ok {A} text p mk (y : A) : err_from text p mk = Ok y -> False.
Proof. unfold err_from. destruct (gen_text_pos_from text p); discriminate. Qed.

Lemma bind_assoc {A B D} (m : res A) (k : A -> res B) (k' : B -> res D) :
  bind (bind m k) k' = bind m (fun x => bind (k x) k').
Proof. destruct m; reflexivity. Qed.

(** * Symbolic execution of a successful run: [H : e = Ok y] *)

Ltac ustep :=
  match goal with
  | H : Ok _ = Ok _ |- _ => inversion H; subst; clear H
  | H : Err _ = Ok _ |- _ => discriminate H
  | H : Panic _ = Ok _ |- _ => discriminate H
  | H : OutOfFuel = Ok _ |- _ => discriminate H
  | H : err_at _ _ _ = Ok _ |- _ => exfalso; exact (err_at_not_ok _ _ _ _ H)
  | H : err_from _ _ _ = Ok _ |- _ => exfalso; exact (err_from_not_ok _ _ _ _ H)
  | H : bind _ _ = Ok _ |- _ =>
    let a := fresh "a" in let H1 := fresh "Hb" in
    apply bind_ok in H; destruct H as [a [H1 H]]; cbv beta in H
  | H : (let '(_, _) := ?x in _) = Ok _ |- _ => destruct x
  | H : (if ?b then _ else _) = Ok _ |- _ => destruct b eqn:?
  | H : match ?x with _ => _ end = Ok _ |- _ => destruct x eqn:?
  end.

Ltac usteps := repeat ustep.

(** * Unary parametricity *)

(* forward chaining: [lem : f .. c = Ok (.., c') -> I c -> I c'] applied to a hypothesis *)
Ltac fw lem := match goal with H : _ = Ok _ |- _ => apply lem in H; [|assumption] end.

Section Unary.
Variable text : bytes.
Variable C : Type.
Variable ev : token -> C -> res C.
Variable I : C -> Prop.
Hypothesis HI : forall tok c c', ev tok c = Ok c' -> I c -> I c'.

Ltac u0 := repeat fw HI.

Lemma u_parse_comment s c s' c' :
  parse_comment text C ev s c = Ok (s', c') -> I c -> I c'.
Proof. unfold parse_comment. intros H Hi. usteps; u0; assumption. Qed.

Lemma u_parse_pi s c s' c' :
  parse_pi text C ev s c = Ok (s', c') -> I c -> I c'.
Proof. unfold parse_pi. intros H Hi. usteps; u0; assumption. Qed.

Ltac u1 := repeat first [fw HI | fw u_parse_comment | fw u_parse_pi].

Lemma u_parse_misc_loop fuel : forall s c s' c',
  parse_misc_loop text C ev fuel s c = Ok (s', c') -> I c -> I c'.
Proof.
  induction fuel; intros s c s' c' H Hi; [discriminate|].
  cbn [parse_misc_loop] in H. usteps; u1; try assumption; eapply IHfuel; eassumption.
Qed.

Lemma u_parse_misc s c s' c' :
  parse_misc text C ev s c = Ok (s', c') -> I c -> I c'.
Proof. unfold parse_misc. apply u_parse_misc_loop. Qed.

Lemma u_parse_entity_decl s c s' c' :
  parse_entity_decl text C ev s c = Ok (s', c') -> I c -> I c'.
Proof. unfold parse_entity_decl. intros H Hi. usteps; u0; assumption. Qed.

Ltac u2 := repeat first [fw HI | fw u_parse_comment | fw u_parse_pi | fw u_parse_misc
                        | fw u_parse_entity_decl].

Lemma u_parse_doctype_loop fuel : forall start s c s' c',
  parse_doctype_loop text C ev fuel start s c = Ok (s', c') -> I c -> I c'.
Proof.
  induction fuel; intros start s c s' c' H Hi; [discriminate|].
  cbn [parse_doctype_loop] in H. usteps; u2; try assumption; eapply IHfuel; eassumption.
Qed.

Lemma u_parse_doctype s c s' c' :
  parse_doctype text C ev s c = Ok (s', c') -> I c -> I c'.
Proof.
  unfold parse_doctype. intros H Hi. usteps; u2; try assumption.
  eapply u_parse_doctype_loop; eassumption.
Qed.

Lemma u_parse_element_loop fuel : forall ts s c o s' c',
  parse_element_loop text C ev fuel ts s c = Ok (o, s', c') -> I c -> I c'.
Proof.
  induction fuel; intros ts s c o s' c' H Hi; [discriminate|].
  cbn [parse_element_loop] in H. usteps; u0; try assumption; eapply IHfuel; eassumption.
Qed.

Lemma u_parse_element s c o s' c' :
  parse_element text C ev s c = Ok (o, s', c') -> I c -> I c'.
Proof.
  unfold parse_element. intros H Hi. usteps; u0.
  eapply u_parse_element_loop; eassumption.
Qed.

Lemma u_parse_cdata s c s' c' :
  parse_cdata text C ev s c = Ok (s', c') -> I c -> I c'.
Proof. unfold parse_cdata. intros H Hi. usteps; u0; assumption. Qed.

Lemma u_parse_close_element s c s' c' :
  parse_close_element text C ev s c = Ok (s', c') -> I c -> I c'.
Proof. unfold parse_close_element. intros H Hi. usteps; u0; assumption. Qed.

Lemma u_parse_text s c s' c' :
  parse_text text C ev s c = Ok (s', c') -> I c -> I c'.
Proof. unfold parse_text. intros H Hi. usteps; u0; assumption. Qed.

Ltac u3 := repeat first [fw HI | fw u_parse_comment | fw u_parse_pi | fw u_parse_misc
                        | fw u_parse_doctype | fw u_parse_element | fw u_parse_cdata
                        | fw u_parse_close_element | fw u_parse_text ].

Lemma u_parse_content_loop fuel : forall depth s c s' c',
  parse_content_loop text C ev fuel depth s c = Ok (s', c') -> I c -> I c'.
Proof.
  induction fuel; intros depth s c s' c' H Hi; [discriminate|].
  cbn [parse_content_loop] in H. usteps; u3; try assumption; eapply IHfuel; eassumption.
Qed.

Lemma u_parse_content s c s' c' :
  parse_content text C ev s c = Ok (s', c') -> I c -> I c'.
Proof. unfold parse_content. apply u_parse_content_loop. Qed.

Lemma u_parse_document dtd c c' :
  parse_document text C ev dtd c = Ok c' -> I c -> I c'.
Proof.
  unfold parse_document. intros H Hi. usteps; repeat first [fw u_parse_content | u3]; assumption.
Qed.

End Unary.

(** * Result relations with an optional early exit of the left run *)

Section GRel.
Variable en : Prop.          (* is the early exit enabled *)
Variable e0 : error.         (* the error of the early exit *)

Inductive grel {X1 X2} (P : X1 -> X2 -> Prop) (Q2 : X2 -> Prop) : res X1 -> res X2 -> Prop :=
| gr_ok x1 x2 : P x1 x2 -> grel P Q2 (Ok x1) (Ok x2)
| gr_err e : grel P Q2 (Err e) (Err e)
| gr_panic p : grel P Q2 (Panic p) (Panic p)
| gr_fuel : grel P Q2 OutOfFuel OutOfFuel
| gr_early r2 : en -> (forall x2, r2 = Ok x2 -> Q2 x2) -> grel P Q2 (Err e0) r2.

Lemma grel_bind {X1 X2 Y1 Y2} (P : X1 -> X2 -> Prop) (Q2 : X2 -> Prop)
      (P' : Y1 -> Y2 -> Prop) (Q2' : Y2 -> Prop) r1 r2 k1 k2 :
  grel P Q2 r1 r2 ->
  (forall x1 x2, P x1 x2 -> grel P' Q2' (k1 x1) (k2 x2)) ->
  (en -> forall x2 y, Q2 x2 -> k2 x2 = Ok y -> Q2' y) ->
  grel P' Q2' (bind r1 k1) (bind r2 k2).
Proof.
  intros Hr Hk Hs. destruct Hr; cbn [bind]; try (constructor; fail); auto.
  apply gr_early; auto. intros y Hy. apply bind_ok in Hy. destruct Hy as [x [Hx Hy]].
  eapply Hs; eauto.
Qed.

Lemma grel_mono {X1 X2} (P P' : X1 -> X2 -> Prop) (Q2 Q2' : X2 -> Prop) r1 r2 :
  grel P Q2 r1 r2 ->
  (forall x1 x2, P x1 x2 -> P' x1 x2) -> (forall x2, Q2 x2 -> Q2' x2) ->
  grel P' Q2' r1 r2.
Proof.
  intros Hr HP HQ. destruct Hr; try (constructor; auto; fail).
Qed.

Lemma grel_err_at {X1 X2} (P : X1 -> X2 -> Prop) Q2 text s mk :
  grel P Q2 (err_at text s mk) (err_at text s mk).
Proof. unfold err_at. destruct (gen_text_pos text s); cbn [bind]; constructor. Qed.

Lemma grel_err_from {X1 X2} (P : X1 -> X2 -> Prop) Q2 text p mk :
  grel P Q2 (err_from text p mk) (err_from text p mk).
Proof. unfold err_from. destruct (gen_text_pos_from text p); cbn [bind]; constructor. Qed.

End GRel.

(* relation on (value, state) pairs: same value, related states *)
Definition prel {A C1 C2} (R : C1 -> C2 -> Prop) (x1 : A * C1) (x2 : A * C2) : Prop :=
  fst x1 = fst x2 /\ R (snd x1) (snd x2).
Definition psnd {A C2} (Q : C2 -> Prop) (x : A * C2) : Prop := Q (snd x).

(* one step of a lockstep proof; calls of callbacks / tokenizer functions are left to [tac] *)
Ltac bstep :=
  match goal with
  | |- grel _ _ _ _ (Ok _) (Ok _) =>
    apply gr_ok; try first [assumption | split; [reflexivity | cbn [snd]; assumption]]
  | |- grel _ _ _ _ (Err _) (Err _) => apply gr_err
  | |- grel _ _ _ _ (Panic _) (Panic _) => apply gr_panic
  | |- grel _ _ _ _ OutOfFuel OutOfFuel => apply gr_fuel
  | |- grel _ _ _ _ (err_at _ _ _) (err_at _ _ _) => apply grel_err_at
  | |- grel _ _ _ _ (err_from _ _ _) (err_from _ _ _) => apply grel_err_from
  | |- grel _ _ _ _ (bind ?r _) (bind ?r _) => destruct r; cbn [bind]
  | |- grel _ _ _ _ (bind (Ok _) _) (bind (Ok _) _) => cbn [bind]
  | |- grel _ _ _ _ (bind (Err _) _) (bind (Err _) _) => cbn [bind]
  | |- grel _ _ _ _ (bind (Panic _) _) (bind (Panic _) _) => cbn [bind]
  | |- grel _ _ _ _ (bind OutOfFuel _) (bind OutOfFuel _) => cbn [bind]
  | |- grel _ _ _ _ (bind (bind _ _) _) (bind (bind _ _) _) => rewrite !bind_assoc
  | |- grel _ _ _ _ (bind (if ?b then _ else _) _) (bind (if ?b then _ else _) _) =>
    destruct b eqn:?
  | |- grel _ _ _ _ (bind (match ?x with _ => _ end) _) (bind (match ?x with _ => _ end) _) =>
    destruct x eqn:?
  | |- grel _ _ _ _ (if ?b then _ else _) (if ?b then _ else _) => destruct b eqn:?
  | |- grel _ _ _ _ (let '(_, _) := ?x in _) (let '(_, _) := ?x in _) => destruct x
  | |- grel _ _ _ _ (match ?x with _ => _ end) (match ?x with _ => _ end) => destruct x eqn:?
  end.

(* a call related by [lem]; leaves the continuation (with the related pair destructed)
   and the side condition *)
Ltac bcall lem :=
  eapply grel_bind;
  [ eapply lem; eassumption
  | let x1 := fresh "x" in let x2 := fresh "x" in let HP := fresh "HP" in
    intros x1 x2 HP;
    try (match type of x1 with (_ * _)%type => idtac end;
         destruct x1 as [? ?], x2 as [? ?], HP as [? ?]; cbn [fst snd] in *; subst);
    cbv beta iota
  | ].

(* the shape of a side condition: [en -> forall x2 y, Q2 x2 -> k x2 = Ok y -> Q2' y] *)
Ltac side_intro :=
  let x := fresh "x" in let y := fresh "y" in let Hq := fresh "Hq" in let H := fresh "H" in
  intros _ x y Hq H; unfold psnd in *;
  repeat match goal with z : (_ * _)%type |- _ => destruct z end;
  cbn [fst snd] in *; cbv beta iota zeta in H.

Section Binary.
Variable text : bytes.
Variables C1 C2 : Type.
Variable ev1 : token -> C1 -> res C1.
Variable ev2 : token -> C2 -> res C2.
Variable en : Prop.
Variable e0 : error.
Variable R : C1 -> C2 -> Prop.
Variable Q : C2 -> Prop.
Hypothesis Hev : forall tok c1 c2, R c1 c2 -> grel en e0 R Q (ev1 tok c1) (ev2 tok c2).
Hypothesis HQ : forall tok c c', ev2 tok c = Ok c' -> Q c -> Q c'.

Notation PR := (prel R).
Notation PQ := (psnd Q).
Notation G := (grel en e0 PR PQ).

Ltac qs0 := repeat fw HQ.

(* [callt]: related calls, [ih]: closes a recursive call, [sidet]: forward chaining for sides *)
Ltac bgo callt ih sidet :=
  repeat first [ bstep | ih
               | (callt; [ | side_intro; usteps; sidet; assumption ]) ].

Ltac noih := fail.
Ltac call0 := bcall Hev.

Lemma b_parse_comment s c1 c2 : R c1 c2 ->
  G (parse_comment text C1 ev1 s c1) (parse_comment text C2 ev2 s c2).
Proof. intros HR. unfold parse_comment. bgo call0 noih qs0. Qed.

Lemma b_parse_pi s c1 c2 : R c1 c2 ->
  G (parse_pi text C1 ev1 s c1) (parse_pi text C2 ev2 s c2).
Proof. intros HR. unfold parse_pi. bgo call0 noih qs0. Qed.

Notation U f := (f text C2 ev2 Q HQ).

Ltac qs1 := repeat first [fw HQ | fw (U u_parse_comment) | fw (U u_parse_pi)
                        | fw (U u_parse_misc_loop)].
Ltac call1 := first [bcall Hev | bcall b_parse_comment | bcall b_parse_pi].

Lemma b_parse_misc_loop fuel : forall s c1 c2, R c1 c2 ->
  G (parse_misc_loop text C1 ev1 fuel s c1) (parse_misc_loop text C2 ev2 fuel s c2).
Proof.
  induction fuel; intros s c1 c2 HR; [apply gr_fuel|].
  cbn [parse_misc_loop].
  bgo call1 ltac:(apply IHfuel; assumption) qs1.
Qed.

Lemma b_parse_misc s c1 c2 : R c1 c2 ->
  G (parse_misc text C1 ev1 s c1) (parse_misc text C2 ev2 s c2).
Proof. unfold parse_misc. apply b_parse_misc_loop. Qed.

Lemma b_parse_entity_decl s c1 c2 : R c1 c2 ->
  G (parse_entity_decl text C1 ev1 s c1) (parse_entity_decl text C2 ev2 s c2).
Proof. intros HR. unfold parse_entity_decl. bgo call0 noih qs0. Qed.

Ltac qs2 := repeat first [fw HQ | fw (U u_parse_comment) | fw (U u_parse_pi)
                        | fw (U u_parse_misc) | fw (U u_parse_entity_decl)
                        | fw (U u_parse_doctype_loop) ].
Ltac call2 := first [bcall Hev | bcall b_parse_comment | bcall b_parse_pi
                 | bcall b_parse_entity_decl | bcall b_parse_misc].

Lemma b_parse_doctype_loop fuel : forall start s c1 c2, R c1 c2 ->
  G (parse_doctype_loop text C1 ev1 fuel start s c1)
    (parse_doctype_loop text C2 ev2 fuel start s c2).
Proof.
  induction fuel; intros start s c1 c2 HR; [apply gr_fuel|].
  cbn [parse_doctype_loop].
  bgo call2 ltac:(apply IHfuel; assumption) qs2.
Qed.

Lemma b_parse_doctype s c1 c2 : R c1 c2 ->
  G (parse_doctype text C1 ev1 s c1) (parse_doctype text C2 ev2 s c2).
Proof.
  intros HR. unfold parse_doctype.
  bgo call2 ltac:(apply b_parse_doctype_loop; assumption) qs2.
Qed.

Ltac qs3 := repeat first [fw HQ | fw (U u_parse_element_loop)].

Lemma b_parse_element_loop fuel : forall ts s c1 c2, R c1 c2 ->
  G (parse_element_loop text C1 ev1 fuel ts s c1)
    (parse_element_loop text C2 ev2 fuel ts s c2).
Proof.
  induction fuel; intros ts s c1 c2 HR; [apply gr_fuel|].
  cbn [parse_element_loop].
  bgo call0 ltac:(apply IHfuel; assumption) qs3.
Qed.

Lemma b_parse_element s c1 c2 : R c1 c2 ->
  G (parse_element text C1 ev1 s c1) (parse_element text C2 ev2 s c2).
Proof.
  intros HR. unfold parse_element.
  bgo call0 ltac:(apply b_parse_element_loop; assumption) qs3.
Qed.

Lemma b_parse_cdata s c1 c2 : R c1 c2 ->
  G (parse_cdata text C1 ev1 s c1) (parse_cdata text C2 ev2 s c2).
Proof. intros HR. unfold parse_cdata. bgo call0 noih qs0. Qed.

Lemma b_parse_close_element s c1 c2 : R c1 c2 ->
  G (parse_close_element text C1 ev1 s c1) (parse_close_element text C2 ev2 s c2).
Proof. intros HR. unfold parse_close_element. bgo call0 noih qs0. Qed.

Lemma b_parse_text s c1 c2 : R c1 c2 ->
  G (parse_text text C1 ev1 s c1) (parse_text text C2 ev2 s c2).
Proof. intros HR. unfold parse_text. bgo call0 noih qs0. Qed.

Ltac qs4 := repeat first [fw HQ | fw (U u_parse_comment) | fw (U u_parse_pi)
                        | fw (U u_parse_misc) | fw (U u_parse_doctype)
                        | fw (U u_parse_element) | fw (U u_parse_cdata)
                        | fw (U u_parse_close_element) | fw (U u_parse_text)
                        | fw (U u_parse_content_loop) | fw (U u_parse_content) ].
Ltac call4 := first [bcall Hev | bcall b_parse_comment | bcall b_parse_pi
                 | bcall b_parse_cdata | bcall b_parse_close_element
                 | bcall b_parse_element | bcall b_parse_text | bcall b_parse_misc
                 | bcall b_parse_doctype ].

Lemma b_parse_content_loop fuel : forall depth s c1 c2, R c1 c2 ->
  G (parse_content_loop text C1 ev1 fuel depth s c1)
    (parse_content_loop text C2 ev2 fuel depth s c2).
Proof.
  induction fuel; intros depth s c1 c2 HR; [apply gr_fuel|].
  cbn [parse_content_loop].
  bgo call4 ltac:(apply IHfuel; assumption) qs4.
Qed.

Lemma b_parse_content s c1 c2 : R c1 c2 ->
  G (parse_content text C1 ev1 s c1) (parse_content text C2 ev2 s c2).
Proof. unfold parse_content. apply b_parse_content_loop. Qed.

Theorem b_parse_document dtd c1 c2 : R c1 c2 ->
  grel en e0 R Q (parse_document text C1 ev1 dtd c1) (parse_document text C2 ev2 dtd c2).
Proof.
  intros HR. unfold parse_document.
  bgo ltac:(first [call4 | bcall b_parse_content]) noih qs4.
Qed.

End Binary.

(* the flag of parse_document is read once *)
Lemma parse_document_flag text C ev c :
  parse_document text C ev false c = Err DtdDetected \/
  parse_document text C ev false c = parse_document text C ev true c.
Proof.
  unfold parse_document.
  destruct (if starts_with (stream_new text) [239; 187; 191] then _ else _) as [s1| | |];
    cbn [bind]; auto.
  destruct (if starts_with_declaration s1 then _ else _) as [s2| | |]; cbn [bind]; auto.
  destruct (parse_misc text C ev s2 c) as [[s3 c3]| | |]; cbn [bind]; auto.
  destruct (starts_with (skip_spaces s3) (b "<!DOCTYPE")); cbn [negb bind]; auto.
Qed.

Print Assumptions b_parse_document.
Print Assumptions u_parse_document.
Print Assumptions parse_document_flag.
