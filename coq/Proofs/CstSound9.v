(* Proofs/CstSound9.v -- C08, soundness half, witness in stage S9 of Spec/CstFullS9.v: the fragment, the
   statement and the inclusion of [in_fragment_8].

   [in_fragment_9 text] is [in_fragment_8 text] (Proofs/CstSound8.v) with ':' admitted in the names of general
   entities (Spec/CstFullS9.v: the name of a general entity, in its declaration and in every reference, is a
   Name of XML 1.0):
     - P6 [names_nc7] is narrowed to [names_nc9]: the clause on the name after "<!ENTITY" only concerns
       PARAMETER entities ("<!ENTITY % n") and general entities whose definition is not a literal (EXTERNAL
       general entities: S9 keeps their names colon-free, Spec/CstFullS7.v [wf_other7]); the clause after "NDATA"
       stays;
     - P8 [amp_ok] (every '&' inside the literal of a general entity declaration starts a character reference or
       "&name;" with an ASCII name) becomes [amp_ok9]: the test "no ':' in the name" is dropped ([ref_name_ok9]).
   P3a [no_colon_start] stays, so "<!ENTITY :a" (':' directly after a SP, TAB or LF) is still outside (an
   over-approximation of the scan); "&:a;" is inside.  References in content and attribute values were never
   restricted by the fragment: they resolve to declared names or the parse fails. *)
From Coq Require Import String.
From Coq Require Import List NArith Bool Lia.
Import ListNotations.
From RX Require Import Generated.
From RX.Model Require Import Base CharClass Stream Tokenizer Doc Builder Parse.
From RX.Spec Require Cst Chars CstU CstNs CstText CstEnt Scope.
From RX.Spec Require Import CstFull CstFullS5 CstFullS6 CstFullS7 CstFullS8 CstFullS9.
From RX.Proofs Require Import CstSound CstSoundT CstSoundN CstSoundP CstSound6 CstSound7 CstSound8.
Open Scope N_scope.

(* P6: only the names of parameter entities, of external general entities and of notations are colon-free *)
Definition is_lit (l : bytes) : bool := match l with q :: _ => (q =? 39) || (q =? 34) | [] => false end.
Definition names_nc9 (text : bytes) : bool :=
  all_suffixes (fun s =>
    (if prefix_b (b "<!ENTITY") s then
       let r := skip_ws (skipn 8 s) in
       if is_pe r then nc_name (skip_ws (tl r)) else is_lit (skip_ws (drop_name r)) || nc_name r
     else true) &&
    (if prefix_b (b "NDATA") s then nc_name (skip_ws (skipn 5 s)) else true)) text.

(* P8: [l] is what follows '&' *)
Definition ref_name_ok9 (l : bytes) : bool :=
  let n := name_run l in
  match n with
  | x :: _ => byte_is_name_start x && forallb (fun y => y <? 128) n &&
              match skipn (length n) l with 59 :: _ => true | _ => false end
  | [] => false
  end.
Definition amp_ok9 (l : bytes) : bool :=
  match l with 38 :: 35 :: r => charref_val_ok r | 38 :: r => ref_name_ok9 r | _ => true end.

(* [v] is the literal, at [vs, vs + blen v) *)
Definition ge_value_ok9 (text : bytes) (vs : N) (v : bytes) : bool :=
  all_suffixes amp_ok9 v &&
  (if mem_b 60 v then markup_ok text vs (vs + blen v) else negb (contains_b [93; 93; 62] v)).
Definition lit_ok9 (text : bytes) (q0 : N) (l : bytes) : bool :=
  match l with
  | q :: v => if (q =? 39) || (q =? 34) then ge_value_ok9 text (q0 + 1) (take_until q v) else true
  | [] => true
  end.
Definition ge_decl_ok9 (text : bytes) (p : N) (s : bytes) : bool :=
  if prefix_b (b "<!ENTITY") s then
    let r := skip_ws (skipn 8 s) in
    if is_pe r then true
    else let l := skip_ws (drop_name r) in lit_ok9 text (p + blen s - blen l) l
  else true.
Definition ge_values_ok9 (text : bytes) : bool := scan_pos (ge_decl_ok9 text) 0 text.

Definition in_fragment_9 (text : bytes) : bool :=
  valid_utf8_b text && negb (mem_b 13 text) && charrefs_scalar text &&
  no_colon_start text &&
  xml_pi_ok text && decl_names_ok text && names_nc9 text && ndata_sp text && ge_values_ok9 text.

Definition parse_sound_fragment_9_stmt : Prop :=
  forall text opt d, in_fragment_9 text = true -> allow_dtd opt = true -> parse text opt = Ok d ->
  exists c : S6.doc, S9.wf_doc c = true /\ S9.render c = text.

Lemma names_nc_9 text : names_nc7 text = true -> names_nc9 text = true.
Proof.
  unfold names_nc7, names_nc9. apply all_suffixes_impl. intros l H.
  apply andb_true_iff in H. destruct H as [H2 H3]. rewrite H3, andb_true_r.
  destruct (prefix_b (b "<!ENTITY") l); [|reflexivity]. cbv zeta in *. destruct (is_pe _); [exact H2|rewrite H2; apply orb_true_r].
Qed.

Lemma ref_name_ok_9 l : ref_name_ok l = true -> ref_name_ok9 l = true.
Proof.
  unfold ref_name_ok, ref_name_ok9. destruct (name_run l) as [|x n]; [intros H; exact H|]. intros H.
  apply andb_true_iff in H. destruct H as [H H4]. apply andb_true_iff in H. destruct H as [H _]. rewrite H, H4. reflexivity.
Qed.

Lemma amp_ok_9 l : amp_ok l = true -> amp_ok9 l = true.
Proof.
  destruct l as [|x r]; [reflexivity|]. destruct (N.eq_dec x 38) as [->|Hx].
  - destruct r as [|y r]; [cbn [amp_ok amp_ok9]; apply ref_name_ok_9|].
    destruct (N.eq_dec y 35) as [->|Hy]; [intros H; exact H|].
    assert (E : amp_ok (38 :: y :: r) = ref_name_ok (y :: r)).
    { cbn [amp_ok]. destruct y as [|pp]; [reflexivity|]. do 6 (destruct pp as [pp|pp|]; try reflexivity). congruence. }
    assert (E9 : amp_ok9 (38 :: y :: r) = ref_name_ok9 (y :: r)).
    { cbn [amp_ok9]. destruct y as [|pp]; [reflexivity|]. do 6 (destruct pp as [pp|pp|]; try reflexivity). congruence. }
    rewrite E, E9. apply ref_name_ok_9.
  - assert (E9 : amp_ok9 (x :: r) = true).
    { cbn [amp_ok9]. destruct x as [|pp]; [reflexivity|]. do 6 (destruct pp as [pp|pp|]; try reflexivity). congruence. }
    intros _. exact E9.
Qed.

Lemma ge_values_ok_9 text : ge_values_ok8 text = true -> ge_values_ok9 text = true.
Proof.
  unfold ge_values_ok8, ge_values_ok9. apply scan_pos_impl. intros p l. unfold ge_decl_ok8, ge_decl_ok9.
  destruct (prefix_b (b "<!ENTITY") l); [|reflexivity]. cbv zeta. destruct (is_pe _); [reflexivity|].
  unfold lit_ok8, lit_ok9. destruct (skip_ws _) as [|q v]; [reflexivity|]. destruct ((q =? 39) || (q =? 34)); [|reflexivity].
  unfold ge_value_ok8, ge_value_ok9. intros H. apply andb_true_iff in H. destruct H as [H2 H3].
  rewrite H3, (all_suffixes_impl _ _ amp_ok_9 _ H2). reflexivity.
Qed.

Lemma in_fragment_8_9 text : in_fragment_8 text = true -> in_fragment_9 text = true.
Proof.
  unfold in_fragment_8, in_fragment_9. intros H.
  rewrite !andb_true_iff in H. destruct H as [[[[[[[[H0 H1] H2] H3] H5] H6] H7] H8] H9].
  rewrite H0, H1, H2, H3, H5, H6, (names_nc_9 _ H7), H8, (ge_values_ok_9 _ H9). reflexivity.
Qed.
