(* Proofs/CstRangeG6Ev.v -- C13 / C18 on the capstone fragment, stage S6: the events of CstRangeG6Defs.v -- how the
   nodes of a list of events are computed piecewise, and what is observed of a stretch of content
   ([Extra]: the rows, attributes, ranges and namespace values appended; the fragments of the run of
   character data that is still open). *)
From Coq Require Import List NArith PeanoNat Bool Lia ZifyBool ZifyN ZifyNat.
Import ListNotations.
From RX Require Import Generated.
From RX.Model Require Import Base CharClass Stream Tokenizer Doc Builder Parse.
From RX.Spec Require Cst CstText CstEnt Detector Scope CstU CstNs.
From RX.Spec Require Import Text CstFull CstFullS4 CstFullS6.
From RX.Proofs Require Import Tactics CstLex CstBuild CstNsBuild TextMerge.
From RX.Proofs Require Import CstRangeDefs CstRangeBuild CstRangeTDefs CstRangeTBuild CstRangeEDefs CstRangeEText CstRangeEFrags.
From RX.Proofs Require Import CstRangeFDefs CstRangeFBuild CstRangeFItems CstRangeG6Defs CstRangeG6Build.
Open Scope N_scope.

Lemma ewalk_app : forall x y o,
  ewalk o (x ++ y) = (fst (ewalk o x) ++ fst (ewalk (snd (ewalk o x)) y), snd (ewalk (snd (ewalk o x)) y)).
Proof.
  induction x as [|e x IH]; intros y o.
  - cbn [app ewalk fst snd]. destruct (ewalk o y); reflexivity.
  - cbn [app]. destruct e as [d|z|]; cbn [ewalk].
    + apply IH.
    + rewrite (IH y []). cbn [fst snd]. rewrite <- !app_assoc. reflexivity.
    + rewrite (IH y []). cbn [fst snd]. rewrite <- !app_assoc. reflexivity.
Qed.

Lemma ewalk_frags : forall ds o, ewalk o (map LFrag ds) = ([], o ++ ds).
Proof.
  induction ds as [|d ds IH]; intros o; cbn [map ewalk]; [rewrite app_nil_r; reflexivity|].
  rewrite IH, <- app_assoc. reflexivity.
Qed.

Lemma ewalk_node o x : ewalk o [LNode x] = (node_of_group o ++ node_of_item x, []).
Proof. cbn [ewalk fst snd]. rewrite app_nil_r. reflexivity. Qed.

Lemma ewalk_break o : ewalk o [LBreak] = (node_of_group o, []).
Proof. cbn [ewalk fst snd]. rewrite app_nil_r. reflexivity. Qed.

Lemma ev_aspans_app vs x y : ev_aspans vs (x ++ y) = ev_aspans vs x ++ ev_aspans vs y.
Proof. unfold ev_aspans. apply flat_map_app. Qed.
Lemma ev_decls_app M vs x y : ev_decls M vs (x ++ y) = ev_decls M vs x ++ ev_decls M vs y.
Proof. unfold ev_decls. apply flat_map_app. Qed.

Lemma ev_aspans_frags vs ds : ev_aspans vs (map LFrag ds) = [].
Proof. unfold ev_aspans. induction ds as [|d ds IH]; [reflexivity|exact IH]. Qed.
Lemma ev_decls_frags M vs ds : ev_decls M vs (map LFrag ds) = [].
Proof. unfold ev_decls. induction ds as [|d ds IH]; [reflexivity|exact IH]. Qed.

Lemma ev_aspans_nodes vs L : ev_aspans vs (map LNode L) = flat_map (fitem_aspans epieces vs) L.
Proof. unfold ev_aspans. induction L as [|x L IH]; [reflexivity|]. cbn [map flat_map]. rewrite IH. reflexivity. Qed.
Lemma ev_decls_nodes M vs L : ev_decls M vs (map LNode L) = flat_map (fitem_decls epieces M vs) L.
Proof. unfold ev_decls. induction L as [|x L IH]; [reflexivity|]. cbn [map flat_map]. rewrite IH. reflexivity. Qed.

Section ExtraS.
Variable text : bytes.
Variable M : meaning epieces.
Variable vstore : N -> val epieces -> tstore.
Notation NsVals := (CstRangeFBuild.NsVals text).

(* c0, c0': the frames (the contexts before the open run) before and after; fr, fr': the fragments of
   the open run before and after *)
Definition Extra (c0 c0' : context) (fr fr' : list (cow * range)) (evs : list lev) (K : list row) (ext : list attr_data) : Prop :=
  Forall2 fkshape6 (map snd K) (map snd (fst (ewalk (map gdesc fr) evs))) /\
  Forall2 fattr_obs ext (ev_aspans vstore evs) /\
  rng c0' = rng c0 ++ map fst (fst (ewalk (map gdesc fr) evs)) /\
  NsVals (d_ns_values (c_doc c0)) (d_ns_values (c_doc c0')) (ev_decls M vstore evs) /\
  map gdesc fr' = snd (ewalk (map gdesc fr) evs).

Lemma Extra_app c0 ca cb fr fra frb x y K1 K2 e1 e2 :
  Extra c0 ca fr fra x K1 e1 -> Extra ca cb fra frb y K2 e2 -> Extra c0 cb fr frb (x ++ y) (K1 ++ K2) (e1 ++ e2).
Proof.
  intros (A1 & A2 & A3 & A4 & A5) (B1 & B2 & B3 & B4 & B5). unfold Extra. rewrite ewalk_app. cbn [fst snd].
  rewrite <- A5. split; [|split; [|split; [|split]]].
  - rewrite !map_app. apply Forall2_app; assumption.
  - rewrite ev_aspans_app. apply Forall2_app; assumption.
  - rewrite B3, A3, map_app, app_assoc. reflexivity.
  - rewrite ev_decls_app. eapply NsVals_app; eassumption.
  - exact B5.
Qed.

Lemma Extra_nil c0 fr : Extra c0 c0 fr fr [] [] [].
Proof.
  unfold Extra. cbn [ewalk fst snd map ev_aspans ev_decls flat_map]. rewrite app_nil_r.
  split; [constructor|]. split; [constructor|]. split; [reflexivity|]. split; [apply NsVals_nil|reflexivity].
Qed.

(* fragments appended to the open run *)
Lemma Extra_frags c0 fr G ds : map gdesc G = ds -> Extra c0 c0 fr (fr ++ G) (map LFrag ds) [] [].
Proof.
  intros <-. unfold Extra. rewrite ewalk_frags, ev_aspans_frags, ev_decls_frags. cbn [fst snd map]. rewrite app_nil_r, map_app.
  split; [constructor|]. split; [constructor|]. split; [reflexivity|]. split; [apply NsVals_nil|reflexivity].
Qed.

(* the events do not matter beyond what they are *)
Lemma Extra_eq c0 c0' fr fr' evs evs' K ext : evs = evs' -> Extra c0 c0' fr fr' evs K ext -> Extra c0 c0' fr fr' evs' K ext.
Proof. intros <-. auto. Qed.
End ExtraS.

Print Assumptions Extra_app.
Print Assumptions Extra_frags.
