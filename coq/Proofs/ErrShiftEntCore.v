(* Proofs/ErrShiftEntCore.v -- C14 (entities), part 6: the two parses from an insertion point behind
   a DOCTYPE (the state [prolog_state2] of ErrShiftDtdFinal.v), WITH recorded general entities.
   The prolog is handled as in ErrShiftDtdFinal.v (the nodes appended before the point are inert:
   frame property of ErrShiftMidFrame.v); the rest of the run is the piecewise simulation of
   ErrShiftEntDoc.v.  Result ([ent_main]): the errors are related by [ER], and the document of
   the second run is the image of the document of the first run under [x_doc] (componentwise map
   of the ranges), up to the inert nodes. *)
From Coq Require Import Ascii String.
From Coq Require Import List Arith NArith Bool Lia ZifyBool ZifyN ZifyNat.
Import ListNotations.
From RX Require Import Generated.
From RX.Model Require Import Base CharClass Stream Tokenizer Doc Builder Parse.
From RX.Proofs Require Import Tactics NoPanicUtf8 PositionProofs
  RangeShiftBase RangeShiftTokenizer RangeShiftBuilder
  ErrShiftBase ErrShiftFinal
  ErrShiftMidFrame ErrShiftMidCont ErrShiftMidPos ErrShiftMidCore ErrShiftMidLocal ErrShiftMidProlog
  ErrShiftMidFinal
  ErrShiftDtdLocal ErrShiftDtdCont ErrShiftDtdCore ErrShiftDtdProlog ErrShiftDtdFinal
  ErrShiftEntBase ErrShiftEntStream ErrShiftEntTok ErrShiftEntBuild ErrShiftEntDoc ErrShiftEntSide ErrShiftEntSideSim.
Open Scope N_scope.

(* ---- the context at the point, with its inert nodes made neutral ---- *)
Lemma set_entities_split c : c = set_entities (set_entities c []) (c_entities c).
Proof. destruct c. reflexivity. Qed.

Lemma pc_entities olds c E : set_entities (pc olds c) E = pc olds (set_entities c E).
Proof. reflexivity. Qed.

Lemma Inv_entities olds c E : Inv olds c -> Inv olds (set_entities c E).
Proof. intros H. exact H. Qed.

Section Neutral.
Variable P k : N.
Hypothesis HP0 : 0 < P.

Lemma m_sl_empty : m_sl P k empty_slice = empty_slice.
Proof. unfold m_sl, empty_slice. cbn [sl_start]. replace (0 <? P) with true by lia. reflexivity. Qed.

Lemma x_ent_id e : OKent P e -> x_ent P k e = e.
Proof.
  intros [[A1 A2] [B1 B2]]. destruct e as [nm vl]. unfold x_ent, m_sl. cbn [en_name en_value] in *.
  replace (sl_start nm <? P) with true by lia. replace (sl_start vl <? P) with true by lia. reflexivity.
Qed.

Lemma x_neutral T q c lenU E : PS T q c -> Forall (OKent P) E ->
  x_ctx P k (set_entities (sh_ctx P (uctx lenU c)) E) = set_entities (sh_ctx (P + k) (uctx lenU c)) E.
Proof.
  intros [P1 P2 P3 P4 P5 P6 P7 P8 [(root & R1 & R2) Hold]] HE.
  destruct c as [opt nsi ca aw pp en at_ pid tn ef ld [nodes dattrs nsv nst]].
  cbn [c_cur_attrs c_parent_prefixes c_entities c_after_text c_parent_id c_tag_name c_doc d_attrs d_ns_values d_nodes] in *.
  subst ca pp en at_ pid tn dattrs nsv.
  unfold x_ctx, sh_ctx, uctx, set_entities, set_doc, set_nodes, x_doc, sh_doc.
  cbn [c_opt c_ns_start_idx c_cur_attrs c_awaiting c_parent_prefixes c_entities c_after_text c_parent_id
       c_tag_name c_entity_floor c_ld c_doc d_nodes d_attrs d_ns_values d_ns_tree map].
  f_equal.
  - change (sh_sl0 P empty_slice) with empty_slice. change (sh_sl0 (P + k) empty_slice) with empty_slice.
    rewrite m_sl_empty. reflexivity.
  - clear - HE HP0. induction HE as [|e r He _ IH]; [reflexivity|]. cbn [map]. rewrite IH, (x_ent_id e He). reflexivity.
  - change (sh_tn P tag_name_null) with tag_name_null. change (sh_tn (P + k) tag_name_null) with tag_name_null.
    unfold x_tn, tag_name_null. cbn [tn_prefix tn_name tn_pos tn_prefix_pos].
    rewrite m_sl_empty. unfold mS. replace (0 <? P) with true by lia. reflexivity.
  - f_equal.
    rewrite !map_map. apply map_ext. intros nd. unfold x_node, sh_node, unode.
    cbn [nd_parent nd_prev_sibling nd_next_subtree nd_last_child nd_kind nd_range].
    destruct (is_root_kind (nd_kind nd)); cbn [is_root_kind sh_kind m_kind].
    + f_equal. unfold x_rng, mS. cbn [fst snd]. replace (0 <? P) with true by lia.
      replace (lenU + P <? P) with false by lia. f_equal. lia.
    + unfold m_sl, sh_sl, empty_slice, x_rng, mS, sh_rng. cbn [sl_start sl_end fst snd].
      replace (0 + P <? P) with false by lia. repeat f_equal; lia.
Qed.

Lemma CI_neutral T q c lenU E : PS T q c -> Forall (OKent P) E ->
  CI P (set_entities (sh_ctx P (uctx lenU c)) E).
Proof.
  intros [P1 P2 P3 P4 P5 P6 P7 P8 _] HE.
  constructor; cbn [set_entities sh_ctx uctx set_doc set_nodes c_doc c_cur_attrs c_parent_prefixes c_entities c_after_text c_tag_name
                    sh_doc d_nodes d_attrs d_ns_values].
  - split; [|split].
    + cbn [sh_doc set_nodes d_nodes]. rewrite map_map. apply Forall_forall. intros x Hx. apply in_map_iff in Hx. destruct Hx as (nd & <- & _).
      unfold OKnode, sh_node, unode. cbn [nd_kind]. destruct (is_root_kind (nd_kind nd)); cbn [sh_kind OKkind]; [exact I|].
      unfold OKs, sh_sl, empty_slice. cbn [sl_start sl_end]. lia.
    + cbn [sh_doc set_nodes d_attrs]. rewrite P7. constructor.
    + cbn [sh_doc set_nodes d_ns_values]. rewrite P8. cbn [map]. constructor; [|constructor]. split; exact I.
  - rewrite P1. constructor.
  - rewrite P2. cbn [map]. constructor; [|constructor]. change (sh_sl0 P empty_slice) with empty_slice.
    unfold OKs, empty_slice. cbn [sl_start sl_end]. lia.
  - exact HE.
  - rewrite P4. constructor.
  - rewrite P6. change (sh_tn P tag_name_null) with tag_name_null.
    split; unfold OKs, tag_name_null, empty_slice; cbn [tn_prefix tn_name sl_start sl_end]; lia.
Qed.
End Neutral.

(* ------------------------------------------------------------------ *)
(* the two runs from the loop head *)
Section Core.
Variable A0 W ws post : bytes.
Hypothesis HW : forallb byte_is_space W = true.
Hypothesis Hws : forallb byte_is_space ws = true.
Hypothesis Hv : valid_utf8_b post = true.
Hypothesis Hpost : post <> [].
Notation SS := (SS A0 W ws post Hws Hv).
Notation pre := (A0 ++ W).
Notation T1 := (pre ++ post).
Notation T2' := ((A0 ++ (W ++ ws)) ++ post).
Notation P := (blen pre).
Notation k := (blen ws).
Hypothesis HP0 : 0 < P.
Variable olds : list (node_kind * range).
Hypothesis Holds : Forall (fun o => ntext (fst o)) olds.

(* an additional invariant of the first run alone may ride along *)
Variable J : context -> Prop.
Hypothesis HJ : forall tok c c', TokI SS true tok -> CI P c -> J c -> Parse.token T1 tok c = Ok c' -> J c'.
Notation CJ := (fun c => CI P c /\ J c).

Lemma token_rel tok c : TokI SS true tok -> CJ c ->
  psim SS CJ (x_ctx P k) (Parse.token T1 tok c) (Parse.token T2' (sh_tok (dd SS true) tok) (x_ctx P k c)).
Proof.
  intros Ht [Hc Hj]. rewrite T2_eq. apply (psim_okP SS (CI P) J).
  - exact (token_x SS HP0 true tok c Ht Hc).
  - intros c' E. eapply HJ; eassumption.
Qed.

Lemma cont2_rel_ent fu fu' cN : Inv olds cN -> CI P cN -> J cN -> (fu <= fu')%nat ->
  match cont2 T1 context (Parse.token T1) (S fu) (sQ A0 W post) (pc olds cN) with
  | Ok cF => exists cU, cont2 T1 context (Parse.token T1) (S fu) (sQ A0 W post) cN = Ok cU /\
               Inv olds cU /\ (CI P cU /\ J cU) /\ cF = pc olds cU /\
               cont2 T2' context (Parse.token T2') (S fu') (sQ A0 (W ++ ws) post) (pc olds (x_ctx P k cN))
               = Ok (pc olds (x_ctx P k cU))
  | Err e => exists e', ER SS e e' /\
               cont2 T2' context (Parse.token T2') (S fu') (sQ A0 (W ++ ws) post) (pc olds (x_ctx P k cN))
               = Err e'
  | _ => True
  end.
Proof.
  intros HI HC HJ0 Hle.
  pose proof (cont2_ps A0 W ws post HW Hws Hv Hpost context (Parse.token T1) (Parse.token T2') (x_ctx P k) CJ
                token_rel fu fu' cN Hle (conj HC HJ0)) as Sim.
  pose proof (cont2_fr T1 olds Holds (S fu) (sQ A0 W post) cN HI) as F1.
  pose proof (cont2_fr T2' olds Holds (S fu') (sQ A0 (W ++ ws) post) (x_ctx P k cN) (Inv_x P k olds cN HI)) as F2.
  destruct (cont2 T1 context (Parse.token T1) (S fu) (sQ A0 W post) cN) as [cU|eU|p|] eqn:EX; cbn [fsim] in F1.
  - destruct Sim as [HCU E2]. rewrite E2 in F2. cbn [fsim] in F2. destruct F1 as [I1 ->]. destruct F2 as [I2 ->].
    exists cU. auto 6.
  - destruct Sim as (e' & E2 & HR). rewrite E2 in F2. cbn [fsim] in F2. rewrite F1. exists e'. split; [exact HR|exact F2].
  - rewrite F1. exact I.
  - rewrite F1. exact I.
Qed.

Variable opt : options.
Variable fu fu' : nat.
Variable cN : context.
Hypothesis HI : Inv olds cN.
Hypothesis HC : CI P cN.
Hypothesis HJ0 : J cN.
Hypothesis Hfu : (fu <= fu')%nat.
Hypothesis E1 : parse T1 opt =
  (let! c := cont2 T1 context (Parse.token T1) (S fu) (sQ A0 W post) (pc olds cN) in ErrShiftMidCore.post c).
Hypothesis E2 : parse T2' opt =
  (let! c := cont2 T2' context (Parse.token T2') (S fu') (sQ A0 (W ++ ws) post) (pc olds (x_ctx P k cN)) in ErrShiftMidCore.post c).

Theorem core_ent_err e : parse T1 opt = Err e -> exists e', parse T2' opt = Err e' /\ ER SS e e'.
Proof.
  intros H. pose proof (cont2_rel_ent fu fu' cN HI HC HJ0 Hfu) as HR. rewrite E1 in H. rewrite E2.
  destruct (cont2 T1 context (Parse.token T1) (S fu) (sQ A0 W post) (pc olds cN)) as [cF|e1|p|]; cbn [bind] in H; try discriminate.
  - destruct HR as (cU & _ & I1 & C1 & -> & ->). cbn [bind].
    rewrite (post_pc olds cU Holds I1) in H. rewrite (post_pc olds _ Holds (Inv_x P k olds cU I1)), post_x.
    pose proof (np_post cU) as Hn.
    destruct (ErrShiftMidCore.post cU) as [d|e0|p|]; cbn [rmapd nopos_res] in *; try discriminate.
    injection H as <-. exists e0. split; [reflexivity|apply ER_same; exact Hn].
  - injection H as <-. destruct HR as (e' & HM & ->). exists e'. split; [reflexivity|exact HM].
Qed.

(* the document of the first run is the frame image of a document dU whose context satisfies the
   invariant; the second run yields the frame image of x_doc dU *)
Theorem core_ent_ok d : parse T1 opt = Ok d ->
  exists cU, cont2 T1 context (Parse.token T1) (S fu) (sQ A0 W post) cN = Ok cU /\ (CI P cU /\ J cU) /\
    d = pd olds (c_doc cU) /\ parse T2' opt = Ok (pd olds (x_doc P k (c_doc cU))).
Proof.
  intros H. pose proof (cont2_rel_ent fu fu' cN HI HC HJ0 Hfu) as HR. rewrite E1 in H. rewrite E2.
  destruct (cont2 T1 context (Parse.token T1) (S fu) (sQ A0 W post) (pc olds cN)) as [cF|e1|p|]; cbn [bind] in H; try discriminate.
  destruct HR as (cU & EU & I1 & C1 & -> & ->). cbn [bind].
  rewrite (post_pc olds cU Holds I1) in H. rewrite (post_pc olds _ Holds (Inv_x P k olds cU I1)), post_x.
  destruct (ErrShiftMidCore.post cU) as [dU|e0|p|] eqn:Ep; cbn [rmapd] in *; try discriminate.
  injection H as <-.
  assert (EdU : dU = c_doc cU).
  { unfold ErrShiftMidCore.post in Ep. cbv zeta in Ep.
    destruct (children (c_doc cU) 0); cbn [bind] in Ep; try discriminate.
    destruct (children_any_element _ _ _) as [he| | |]; cbn [bind] in Ep; try discriminate.
    destruct (negb he); [discriminate|]. destruct (1 <? _); [discriminate|]. injection Ep as <-. reflexivity. }
  subst dU. exists cU. auto.
Qed.

End Core.
