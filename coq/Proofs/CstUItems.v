(* Proofs/CstUItems.v -- Unicode fragment (Spec/CstU.v), M2 + M3: parse_content_loop with the real
   callback on the rendering of an encoded item appends exactly its rows.  (Proofs/CstItems.v
   with the Unicode lexer; the builder lemmas, the rows and the counting are reused.) *)
From Coq Require Import Ascii String.
From Coq Require Import List NArith PeanoNat Bool Lia ZifyBool ZifyN ZifyNat.
Import ListNotations.
From RX Require Import Generated.
From RX.Model Require Import Base CharClass Stream Tokenizer Doc Builder Parse.
From RX.Spec Require Cst CstU.
From RX.Proofs Require Import Tactics CstLex CstBuild CstTree CstItems CstULex CstUBuild.
Open Scope N_scope.

Ltac clia := repeat match goal with H : @eq bool _ true |- _ => clear H end; lia.

Notation enc_item := CstU.enc_item.
Notation enc_attr := CstU.enc_attr.

Fixpoint enc_items (l : list Cst.item) : list Cst.item :=
  match l with [] => [] | c :: r => enc_item c :: enc_items r end.

Lemma enc_item_elem n a w body :
  enc_item (Cst.IElem n a w body) =
  Cst.IElem (utf8s n) (map enc_attr a) w
            (match body with None => None | Some (cs, w2) => Some (enc_items cs, w2) end).
Proof. destruct body as [[cs w2]|]; reflexivity. Qed.

Fixpoint uwf_items (l : list Cst.item) : bool :=
  match l with [] => true | c :: r => CstU.wf_item c && uwf_items r end.

Definition xmlns_sc : list N := [120; 109; 108; 110; 115].

Lemma uwf_item_elem name attrs ws body :
  CstU.wf_item (Cst.IElem name attrs ws body) =
  CstU.wf_name name && negb (if list_eq_dec N.eq_dec name xmlns_sc then true else false)
  && forallb CstU.wf_attr attrs
  && forallb (fun a => negb (if list_eq_dec N.eq_dec (Cst.a_name a) xmlns_sc then true else false)) attrs
  && Cst.names_distinct (map Cst.a_name attrs) && Cst.wf_ws ws &&
  match body with
  | None => true
  | Some (cs, ws2) => Cst.wf_ws ws2 && Cst.no_adjacent_text cs && uwf_items cs
  end.
Proof. destruct body as [[cs ws2]|]; reflexivity. Qed.

Lemma enc_is_text i : Cst.is_text (enc_item i) = Cst.is_text i.
Proof. destruct i; reflexivity. Qed.

Lemma enc_no_adjacent : forall cs, Cst.no_adjacent_text (enc_items cs) = Cst.no_adjacent_text cs.
Proof.
  induction cs as [|a r IH]; [reflexivity|]. destruct r as [|c r']; [reflexivity|].
  cbn [enc_items Cst.no_adjacent_text] in *. rewrite IH, !enc_is_text. reflexivity.
Qed.

(* utf8s is injective on scalar values *)
Lemma utf8s_inj : forall a r, scalars_ok a -> scalars_ok r -> utf8s a = utf8s r -> a = r.
Proof.
  induction a as [|c a IH]; intros [|c' r] Ha Hr E; [reflexivity| | |].
  - exfalso. rewrite utf8s_cons in E. pose proof (utf8_len c'). destruct (utf8 c'); [unfold blen in *; cbn in *; lia|discriminate].
  - exfalso. rewrite utf8s_cons in E. pose proof (utf8_len c). destruct (utf8 c); [unfold blen in *; cbn in *; lia|discriminate].
  - inversion Ha as [|? ? Hc Ha']; subst. inversion Hr as [|? ? Hc' Hr']; subst.
    rewrite !utf8s_cons in E.
    pose proof (U8.decode1_encode c (utf8s a) Hc) as D1. pose proof (U8.decode1_encode c' (utf8s r) Hc') as D2.
    rewrite <- !utf8_enc in D1, D2. rewrite E in D1. rewrite D1 in D2. injection D2 as <- _.
    apply app_inv_head in E. f_equal. apply IH; assumption.
Qed.

Lemma wf_uname_scalars n : CstU.wf_name n = true -> scalars_ok n.
Proof. intros H. destruct (wf_uname_parts n H) as (c & x & -> & _ & Hall). apply uname_scalars. exact Hall. Qed.

Lemma wf_uname_ne n : CstU.wf_name n = true -> utf8s n <> [].
Proof.
  intros H. destruct (uname_head n H) as (b0 & r & E & _). rewrite E. discriminate.
Qed.

Lemma uattrs_okb attrs : forallb CstU.wf_attr attrs = true ->
  forallb (fun a => negb (if list_eq_dec N.eq_dec (Cst.a_name a) xmlns_sc then true else false)) attrs = true ->
  Forall attr_okb (map enc_attr attrs).
Proof.
  induction attrs as [|a attrs IH]; intros H1 H2; [constructor|]. cbn [forallb] in H1, H2.
  apply andb_true_iff in H1. destruct H1 as [Ha H1]. apply andb_true_iff in H2. destruct H2 as [Hx H2].
  cbn [map]. constructor; [|apply IH; assumption].
  destruct (wf_uattr_parts _ Ha) as (_ & _ & Hn & _ & _ & Hq & Hv).
  destruct (uattr_value_facts _ _ Hv Hq) as (_ & _ & He). split; [exact He|].
  cbn [CstU.enc_attr Cst.a_name]. intros E.
  change xmlns_str with (utf8s xmlns_sc) in E.
  apply utf8s_inj in E; [|apply wf_uname_scalars; exact Hn|repeat constructor].
  destruct (list_eq_dec N.eq_dec (Cst.a_name a) xmlns_sc); [discriminate|contradiction].
Qed.

Lemma uattrs_nodup attrs : forallb CstU.wf_attr attrs = true ->
  Cst.names_distinct (map Cst.a_name attrs) = true ->
  NoDup (map Cst.a_name (map enc_attr attrs)).
Proof.
  intros Hwf Hd. apply names_distinct_NoDup in Hd.
  induction attrs as [|a attrs IH]; [constructor|]. cbn [forallb] in Hwf. apply andb_true_iff in Hwf.
  destruct Hwf as [Ha Hwf]. cbn [map] in *. inversion Hd as [|? ? Hn Hd']; subst.
  constructor; [|apply IH; assumption]. cbn [CstU.enc_attr Cst.a_name]. intros Hin.
  apply Hn. clear - Hin Ha Hwf. destruct (wf_uattr_parts _ Ha) as (_ & _ & Hna & _).
  induction attrs as [|a2 attrs IH]; [contradiction|]. cbn [forallb] in Hwf. apply andb_true_iff in Hwf.
  destruct Hwf as [Ha2 Hwf]. cbn [map In] in *. destruct Hin as [E|Hin]; [left|right; apply IH; assumption].
  destruct (wf_uattr_parts _ Ha2) as (_ & _ & Hn2 & _). cbn [CstU.enc_attr Cst.a_name] in E.
  symmetry. apply utf8s_inj; [apply wf_uname_scalars; exact Hna|apply wf_uname_scalars; exact Hn2|symmetry; exact E].
Qed.

Lemma len_enc_attrs attrs : len_N (map enc_attr attrs) = len_N attrs.
Proof. unfold len_N. rewrite map_length. reflexivity. Qed.

Section UItems.
Variable text : bytes.

Notation ev := (tok_ev text).
Notation loop := (parse_content_loop text context (tok_ev text)).
Notation st := (CstLex.st text).
Notation W := (CstLex.W text).
Notation WV := (CstULex.WV text).

Definition PIu (i : Cst.item) : Prop :=
  forall p post c depth fuel,
    CstU.wf_item i = true -> WV p (Cst.r_item (enc_item i) ++ post) ->
    (Cst.is_text i = true -> text_stop post) ->
    CI c -> (Cst.is_text i = true -> c_after_text c = []) ->
    node_room c (nsize (enc_item i)) -> attr_room c (nattrs (enc_item i)) ->
    exists c' K ext,
      loop (steps (enc_item i) + fuel) depth (st p (Cst.r_item (enc_item i) ++ post)) c =
      loop fuel depth (st (p + blen (Cst.r_item (enc_item i))) post) c' /\
      Post text (enc_item i) c c' K ext.

(* ---- comments ---- *)
Lemma uwf_comment bs : CstU.wf_item (Cst.IComment bs) = true -> comment_ok_u bs.
Proof.
  cbn [CstU.wf_item]. rewrite !andb_true_iff. intros [[H1 H2] H3]. split; [exact H1|]. split.
  - rewrite <- contains_eq. apply negb_true_iff. exact H2.
  - unfold ends_with_byte. destruct (rev bs); [reflexivity|]. apply negb_true_iff. exact H3.
Qed.

Lemma ev_comment_u bs p post c : CstU.wf_item (Cst.IComment bs) = true ->
  WV p (Cst.r_item (enc_item (Cst.IComment bs)) ++ post) -> CI c -> room c ->
  exists c' K,
    parse_comment text context ev (st p (Cst.r_item (enc_item (Cst.IComment bs)) ++ post)) c =
    Ok (st (p + blen (Cst.r_item (enc_item (Cst.IComment bs)))) post, c') /\
    Post text (enc_item (Cst.IComment bs)) c c' K [].
Proof.
  intros Hwf HW I R. apply uwf_comment in Hwf.
  cbn [CstU.enc_item Cst.r_item] in *. rewrite <- !app_assoc in *.
  rewrite lex_comment_u by assumption.
  destruct (tok_comment text (sl (p + 4) (p + 4 + blen (utf8s bs))) (p, p + 4 + blen (utf8s bs) + 3) c I R)
    as (c' & E & S & I' & A & T).
  rewrite E. cbn [bind].
  exists c', [(Some (c_parent_id c), KComment (sl (p + 4) (p + 4 + blen (utf8s bs))))].
  split.
  - f_equal. f_equal. f_equal. rewrite !blen_app. change (blen [60; 33; 45; 45]) with 4. change (blen [45; 45; 62]) with 3. lia.
  - split; [exact S|]. split; [exact I'|]. split; [intros _; exact A|]. split; [apply same_tn; exact T|].
    split; [discriminate|]. split; [|reflexivity].
    cbn [tag]. constructor; [|constructor]. split; [reflexivity|]. cbn [snd].
    pose proof (W_app _ _ _ _ (WV_W _ _ _ HW)) as HW1. change (blen [60; 33; 45; 45]) with 4 in HW1.
    apply (W_slice _ _ _ _ HW1).
Qed.

Lemma PIu_comment bs : PIu (Cst.IComment bs).
Proof.
  intros p post c depth fuel Hwf HW _ I _ NR _.
  destruct (ev_comment_u bs p post c Hwf HW I (node_room_room _ _ NR (nsize_pos _))) as (c' & K & E & HP).
  exists c', K, []. split; [|exact HP].
  cbn [steps Nat.add CstU.enc_item]. cbn [CstU.enc_item Cst.r_item] in *. rewrite <- !app_assoc in *.
  rewrite (loop_comment text) by (apply (WV_W _ _ _ HW)). rewrite E. reflexivity.
Qed.

(* ---- processing instructions ---- *)
Lemma uwf_pi t s v : CstU.wf_item (Cst.IPI t s v) = true -> pi_ok_u t s v.
Proof.
  cbn [CstU.wf_item]. rewrite !andb_true_iff. intros [[[[[H1 H2] H3] H4] H5] H6].
  split; [exact H1|]. split; [exact H2|]. split; [exact H3|]. split.
  { rewrite <- contains_eq. apply negb_true_iff. exact H4. }
  split; [apply negb_true_iff; exact H5|].
  destruct v as [|x v]; [exact Logic.I|]. apply andb_true_iff in H6. destruct H6 as [H6 H7].
  split; [apply negb_true_iff; exact H6|]. destruct s; [discriminate|discriminate].
Qed.

Lemma ev_pi_u t s v p post c : CstU.wf_item (Cst.IPI t s v) = true ->
  WV p (Cst.r_item (enc_item (Cst.IPI t s v)) ++ post) -> CI c -> room c ->
  exists c' K,
    parse_pi text context ev (st p (Cst.r_item (enc_item (Cst.IPI t s v)) ++ post)) c =
    Ok (st (p + blen (Cst.r_item (enc_item (Cst.IPI t s v)))) post, c') /\
    Post text (enc_item (Cst.IPI t s v)) c c' K [].
Proof.
  intros Hwf HW I R. apply uwf_pi in Hwf.
  cbn [CstU.enc_item Cst.r_item] in *. rewrite <- !app_assoc in *.
  rewrite lex_pi_u by assumption. cbv zeta.
  set (vs := match v with [] => None | _ :: _ => Some (sl (p + 2 + blen (utf8s t) + blen s) (p + 2 + blen (utf8s t) + blen s + blen (utf8s v))) end).
  destruct (tok_pi text (sl (p + 2) (p + 2 + blen (utf8s t))) vs (p, p + 2 + blen (utf8s t) + blen s + blen (utf8s v) + 2) c I R)
    as (c' & E & S & I' & A & T).
  rewrite E. cbn [bind].
  exists c', [(Some (c_parent_id c), KPI (sl (p + 2) (p + 2 + blen (utf8s t))) vs)].
  split.
  - f_equal. f_equal. f_equal. rewrite !blen_app. change (blen [60; 63]) with 2. change (blen [63; 62]) with 2. lia.
  - split; [exact S|]. split; [exact I'|]. split; [intros _; exact A|]. split; [apply same_tn; exact T|].
    split; [discriminate|]. split; [|reflexivity].
    cbn [tag]. constructor; [|constructor]. split; [reflexivity|]. cbn [snd].
    pose proof (W_app _ _ _ _ (WV_W _ _ _ HW)) as HW1. change (blen [60; 63]) with 2 in HW1.
    split; [apply (W_slice _ _ _ _ HW1)|].
    pose proof (W_app _ _ _ _ HW1) as HW2. pose proof (W_app _ _ _ _ HW2) as HW3.
    unfold vs. destruct v as [|x v]; [exact Logic.I|].
    assert (Hne : utf8s (x :: v) <> []).
    { rewrite utf8s_cons. pose proof (utf8_len x). destruct (utf8 x); [unfold blen in *; cbn in *; lia|discriminate]. }
    destruct (utf8s (x :: v)) as [|y0 yr] eqn:Ey; [congruence|]. rewrite <- Ey in *. apply (W_slice _ _ _ _ HW3).
Qed.

Lemma PIu_pi t s v : PIu (Cst.IPI t s v).
Proof.
  intros p post c depth fuel Hwf HW _ I _ NR _.
  destruct (ev_pi_u t s v p post c Hwf HW I (node_room_room _ _ NR (nsize_pos _))) as (c' & K & E & HP).
  exists c', K, []. split; [|exact HP].
  cbn [steps Nat.add CstU.enc_item]. cbn [CstU.enc_item Cst.r_item] in *. rewrite <- !app_assoc in *.
  rewrite (loop_pi text) by (apply (WV_W _ _ _ HW)). rewrite E. reflexivity.
Qed.

(* ---- text ---- *)
Lemma uwf_text bs : CstU.wf_item (Cst.IText bs) = true ->
  text_ok_u bs /\ bs <> [] /\ existsb (fun x => (x =? 38) || (x =? 13)) (utf8s bs) = false.
Proof.
  cbn [CstU.wf_item]. rewrite !andb_true_iff. intros [[H1 H2] H3]. split; [split|split].
  - exact H2.
  - rewrite <- contains_eq. apply negb_true_iff. exact H3.
  - destruct bs; [discriminate|discriminate].
  - assert (G : forallb (fun x => negb ((x =? 38) || (x =? 13))) (utf8s bs) = true).
    { apply forallb_utf8; [intros b0 Hb; lia|]. eapply forallb_imp; [|exact H2]. intros x Hx. cbv beta in Hx.
      rewrite !andb_true_iff in Hx. destruct Hx as [[Hc _] H38]. destruct (uchar_facts x Hc) as (_ & _ & H13). lia. }
    clear - G. induction (utf8s bs) as [|x l IH]; [reflexivity|]. cbn [forallb existsb] in *.
    apply andb_true_iff in G. destruct G as [G1 G2]. rewrite (IH G2). lia.
Qed.

Lemma PIu_text bs : PIu (Cst.IText bs).
Proof.
  intros p post c depth fuel Hwf HW Hstop I Hat NR _. destruct (uwf_text _ Hwf) as (Hok & Hne & Hex).
  cbn [CstU.enc_item Cst.r_item] in *. specialize (Hstop eq_refl). specialize (Hat eq_refl).
  cbn [steps Nat.add].
  assert (Hhd : exists x r, utf8s bs = x :: r /\ x <> 60).
  { destruct bs as [|c0 r0]; [congruence|]. destruct Hok as [Hok _]. cbn [forallb] in Hok.
    apply andb_true_iff in Hok. destruct Hok as [Hc0 _]. rewrite !andb_true_iff in Hc0.
    rewrite utf8s_cons. destruct (head_byte_ne c0 60 (utf8s r0) ltac:(lia)) as (b0 & t & Eb & Hb); [lia|]. eauto. }
  destruct Hhd as (x & r & Ex & Hx).
  pose proof (WV_W _ _ _ HW) as HW0.
  assert (El : loop (S fuel) depth (st p (utf8s bs ++ post)) c =
               let! (s, c) := parse_text text context ev (st p (utf8s bs ++ post)) c in loop fuel depth s c).
  { revert HW0. rewrite Ex. cbn [app]. intros HW0. apply (loop_text text); assumption. }
  rewrite El. clear El.
  rewrite lex_text_u by assumption.
  destruct (tok_text text (sl p (p + blen (utf8s bs))) (p, p + blen (utf8s bs)) c I)
    as (c' & E & S & I' & T); [apply (node_room_room _ _ NR (nsize_pos _))|exact Hat| |].
  { rewrite (W_slice _ _ _ _ HW0). exact Hex. }
  rewrite E. cbn [bind].
  exists c', [(Some (c_parent_id c), KText (Borrowed (SIn (sl p (p + blen (utf8s bs))))))], [].
  split; [reflexivity|].
  split; [exact S|]. split; [exact I'|]. split; [discriminate|]. split; [apply same_tn; exact T|].
  split; [discriminate|]. split; [|reflexivity].
  cbn [tag]. constructor; [|constructor]. split; [reflexivity|]. cbn [snd storage_bytes str_bytes].
  apply (W_slice _ _ _ _ HW0).
Qed.


(* ---- elements ---- *)
Lemma loop_elem_u fuel depth p name l c : W p ([60] ++ utf8s name ++ l) -> CstU.wf_name name = true ->
  loop (S fuel) depth (st p ([60] ++ utf8s name ++ l)) c =
  let! (open, s, c) := parse_element text context ev (st p ([60] ++ utf8s name ++ l)) c in
  loop fuel (if open then depth + 1 else depth) s c.
Proof.
  intros HW Hn. destruct (uname_head name Hn) as (n & r & En & _ & H47 & _ & H33 & H63 & _). rewrite En in *.
  cbn [app] in *. rewrite (loop_lt text) by assumption.
  replace (n =? 33) with false by lia. replace (n =? 63) with false by lia.
  replace (n =? 47) with false by lia. reflexivity.
Qed.

Lemma uwf_elem_parts name attrs ws body : CstU.wf_item (Cst.IElem name attrs ws body) = true ->
  CstU.wf_name name = true /\ forallb CstU.wf_attr attrs = true /\
  forallb (fun a => negb (if list_eq_dec N.eq_dec (Cst.a_name a) xmlns_sc then true else false)) attrs = true /\
  Cst.names_distinct (map Cst.a_name attrs) = true /\ Cst.wf_ws ws = true /\
  match body with
  | None => True
  | Some (cs, ws2) => Cst.wf_ws ws2 = true /\ Cst.no_adjacent_text cs = true /\ uwf_items cs = true
  end.
Proof.
  rewrite uwf_item_elem, !andb_true_iff. intros [[[[[[H1 _] H2] H3] H4] H5] H6].
  repeat split; try assumption. destruct body as [[cs ws2]|]; [|exact Logic.I].
  rewrite !andb_true_iff in H6. tauto.
Qed.

Lemma PIu_empty name attrs ws : PIu (Cst.IElem name attrs ws None).
Proof.
  intros p post c depth fuel Hwf HW _ I _ NR AR.
  destruct (uwf_elem_parts _ _ _ _ Hwf) as (Hn & Ha & Hx & Hd & Hw & _). clear Hwf.
  rewrite enc_item_elem in *. rewrite r_item_elem in *. rewrite <- !app_assoc in HW |- *.
  change ([47; 62] ++ post) with (tag_tail true ++ post) in *.
  cbn [steps Nat.add]. rewrite loop_elem_u by (try apply (WV_W _ _ _ HW); assumption).
  rewrite lex_element_u by assumption. cbv zeta.
  rewrite nattrs_elem, Nat.add_0_r in AR.
  destruct (start_tag_ok_g text p (utf8s name) (map enc_attr attrs) ws true post c (WV_W _ _ _ HW) (wf_uname_ne _ Hn)
              (uattrs_okb _ Ha Hx) (uattrs_nodup _ Ha Hd) I)
    as (c' & ar & E & S & Hkm & I' & A & T & P1 & P2);
    [apply (node_room_room _ _ NR (nsize_pos _))|unfold attr_room in *; rewrite len_enc_attrs; unfold len_N in *; rewrite map_length in AR; clia|].
  cbv zeta in E. apply bind_ok in E. destruct E as (c1 & E1 & E2).
  rewrite E1. cbn [bind]. rewrite E2. cbn [bind negb].
  exists c', [(Some (c_parent_id c), KElement None (sl (p + 1) (p + 1 + blen (utf8s name))) ar (1, 1))],
    (map ad_of (tas (p + 1 + blen (utf8s name)) (map enc_attr attrs))).
  split.
  - f_equal. f_equal. rewrite !blen_app. change (blen [60]) with 1. change (blen (tag_tail true)) with 2.
    change (blen [47; 62]) with 2. clia.
  - split; [split; [exact S|split; assumption]|]. split; [exact I'|]. split; [intros _; exact A|].
    split; [intros _; exact T|]. split; [intros _; exact T|]. split.
    + cbn [tag]. constructor; [|constructor]. apply Hkm.
    + rewrite map_length, nattrs_elem, Nat.add_0_r. pose proof (tas_len (map enc_attr attrs) (p + 1 + blen (utf8s name))) as L.
      unfold len_N in L. clia.
Qed.

(* ---- lists of children ---- *)
Definition PLu (cs : list Cst.item) : Prop :=
  forall p post c depth fuel,
    uwf_items cs = true -> Cst.no_adjacent_text cs = true -> WV p (r_items (enc_items cs) ++ post) -> text_stop post ->
    CI c -> head_text_ok cs c -> node_room c (nsizes (enc_items cs)) -> attr_room c (nattrs_items (enc_items cs)) ->
    exists c' K ext,
      loop (steps_list (enc_items cs) + fuel) depth (st p (r_items (enc_items cs) ++ post)) c =
      loop fuel depth (st (p + blen (r_items (enc_items cs))) post) c' /\
      Step c c' K ext /\ CI c' /\ (tn_set c -> tn_set c') /\
      Forall2 (km text (d_attrs (c_doc c'))) K (tag_list (c_parent_id c) (len_N (d_nodes (c_doc c))) (enc_items cs)) /\
      length ext = nattrs_items (enc_items cs).

(* the rendering of a well-formed encoded item is valid UTF-8 *)
Lemma uattr_valid a : CstU.wf_attr a = true -> U8.Valid (Cst.r_attr (enc_attr a)).
Proof.
  intros Ha. destruct (wf_uattr_parts _ Ha) as (_ & Hw & Hn & Hw1 & Hw2 & Hq & Hv).
  destruct (uattr_value_facts _ _ Hv Hq) as (_ & Hv2 & _).
  unfold Cst.r_attr, CstU.enc_attr. cbn [Cst.a_ws Cst.a_name Cst.a_ws1 Cst.a_ws2 Cst.a_quote Cst.a_value].
  repeat apply U8.Valid_app; try (apply Valid_lit; apply ws_lit; assumption).
  - apply Valid_utf8s. apply wf_uname_scalars. exact Hn.
  - apply Valid_lit. reflexivity.
  - apply Valid_lit. cbn. destruct Hq as [-> | ->]; reflexivity.
  - apply Valid_utf8s. apply chars_scalars. exact Hv2.
  - apply Valid_lit. cbn. destruct Hq as [-> | ->]; reflexivity.
Qed.

Lemma uattrs_valid attrs : forallb CstU.wf_attr attrs = true -> U8.Valid (flat_map Cst.r_attr (map enc_attr attrs)).
Proof.
  induction attrs as [|a r IH]; intros H; [constructor|]. cbn [forallb] in H. apply andb_true_iff in H.
  destruct H as [H1 H2]. cbn [map flat_map]. apply U8.Valid_app; [apply uattr_valid; exact H1|apply IH; exact H2].
Qed.

Lemma uitem_valid : forall i, CstU.wf_item i = true -> U8.Valid (Cst.r_item (enc_item i)).
Proof.
  intros i. induction i as [n a w|n a w cs w2 IH|bs|bs|t s v] using item_ind'; intros Hwf.
  - destruct (uwf_elem_parts _ _ _ _ Hwf) as (Hn & Ha & _ & _ & Hw & _). rewrite enc_item_elem, r_item_elem.
    repeat apply U8.Valid_app; try (apply Valid_lit; reflexivity).
    + apply Valid_utf8s. apply wf_uname_scalars. exact Hn.
    + apply uattrs_valid. exact Ha.
    + apply Valid_lit. apply ws_lit. exact Hw.
  - destruct (uwf_elem_parts _ _ _ _ Hwf) as (Hn & Ha & _ & _ & Hw & Hw2 & _ & Hcs). rewrite enc_item_elem, r_item_elem.
    repeat apply U8.Valid_app; try (apply Valid_lit; reflexivity).
    + apply Valid_utf8s. apply wf_uname_scalars. exact Hn.
    + apply uattrs_valid. exact Ha.
    + apply Valid_lit. apply ws_lit. exact Hw.
    + clear - IH Hcs. induction IH as [|c r Hc _ IHr]; [constructor|].
      cbn [uwf_items] in Hcs. apply andb_true_iff in Hcs. destruct Hcs as [H1 H2].
      cbn [enc_items r_items]. apply U8.Valid_app; auto.
    + apply Valid_utf8s. apply wf_uname_scalars. exact Hn.
    + apply Valid_lit. apply ws_lit. exact Hw2.
  - destruct (uwf_text _ Hwf) as ([H _] & _). cbn [CstU.enc_item Cst.r_item]. apply Valid_utf8s. apply chars_scalars.
    apply (chars_facts _ bs) with (2 := H). intros x Hx. cbv beta in Hx. rewrite !andb_true_iff in Hx. apply Hx.
  - destruct (uwf_comment _ Hwf) as (H & _). cbn [CstU.enc_item Cst.r_item].
    repeat apply U8.Valid_app; try (apply Valid_lit; reflexivity). apply Valid_utf8s. apply chars_scalars.
    apply (chars_facts CstU.is_char); auto.
  - destruct (uwf_pi _ _ _ Hwf) as (H1 & H2 & H3 & _). cbn [CstU.enc_item Cst.r_item].
    repeat apply U8.Valid_app; try (apply Valid_lit; reflexivity).
    + apply Valid_utf8s. apply wf_uname_scalars. exact H1.
    + apply Valid_lit. apply ws_lit. exact H2.
    + apply Valid_utf8s. apply chars_scalars. apply (chars_facts CstU.is_char); auto.
Qed.

Lemma PLu_of cs : Forall PIu cs -> PLu cs.
Proof.
  induction 1 as [|i r Hi _ IH]; intros p post c depth fuel Hwf Hna HW Hstop I Hhd NR AR.
  - exists c, [], []. cbn [enc_items steps_list r_items app Nat.add blen length] in *.
    change (N.of_nat 0) with 0. rewrite N.add_0_r.
    split; [reflexivity|]. split; [apply Step_refl|]. split; [exact I|]. split; [auto|].
    split; [constructor|reflexivity].
  - cbn [uwf_items] in Hwf. apply andb_true_iff in Hwf. destruct Hwf as [Hw1 Hw2].
    cbn [enc_items r_items] in HW |- *. rewrite <- app_assoc in HW |- *.
    cbn [enc_items] in NR, AR. rewrite nsizes_cons in NR. cbn [nattrs_items] in AR.
    assert (Hna2 : Cst.no_adjacent_text r = true).
    { destruct r as [|d r']; [reflexivity|]. cbn [Cst.no_adjacent_text] in Hna.
      apply andb_true_iff in Hna. apply Hna. }
    assert (Hnext : forall d r', r = d :: r' -> Cst.is_text i = true -> Cst.is_text d = false).
    { intros d r' -> Hi1. cbn [Cst.no_adjacent_text] in Hna. apply andb_true_iff in Hna.
      destruct Hna as [Hna _]. rewrite Hi1 in Hna. cbn [andb] in Hna. apply negb_true_iff in Hna. exact Hna. }
    assert (Hfollow : Cst.is_text i = true -> text_stop (r_items (enc_items r) ++ post)).
    { intros Hi1. destruct r as [|d r']; [exact Hstop|].
      destruct (nontext_starts (enc_item d)) as [l El]; [rewrite enc_is_text; apply (Hnext d r' eq_refl Hi1)|].
      cbn [enc_items r_items]. rewrite El. reflexivity. }
    destruct (Hi p (r_items (enc_items r) ++ post) c depth (steps_list (enc_items r) + fuel)%nat Hw1 HW Hfollow I Hhd)
      as (c1 & K1 & e1 & E1 & S1 & I1 & A1 & T1 & _ & F1 & L1).
    { unfold node_room in *. clia. }
    { unfold attr_room in *. clia. }
    pose proof (Step_nodes_len _ _ _ _ S1) as Ln1.
    rewrite (Forall2_len_N _ _ _ F1) in Ln1. unfold len_N at 3 in Ln1. rewrite tag_len in Ln1.
    pose proof (Step_attrs_len _ _ _ _ (proj1 S1)) as La1. unfold len_N at 3 in La1. rewrite L1 in La1.
    pose proof (Step_opt _ _ _ _ (proj1 S1)) as Lo1.
    destruct (IH (p + blen (Cst.r_item (enc_item i))) post c1 depth fuel Hw2 Hna2) with (2 := Hstop) (3 := I1)
      as (c2 & K2 & e2 & E2 & S2 & I2 & T2 & F2 & L2).
    { apply (WV_app _ _ _ _ HW). apply uitem_valid. exact Hw1. }
    { destruct r as [|d r']; [exact Logic.I|]. cbn [head_text_ok]. intros Hd. apply A1. rewrite enc_is_text.
      destruct (Cst.is_text i) eqn:Ei; [|reflexivity].
      rewrite (Hnext d r' eq_refl eq_refl) in Hd. discriminate. }
    { unfold node_room in *. rewrite Ln1, Lo1. clia. }
    { unfold attr_room in *. rewrite La1. clia. }
    exists c2, (K1 ++ K2), (e1 ++ e2). split.
    { cbn [steps_list]. rewrite <- Nat.add_assoc, E1, E2. f_equal. f_equal. rewrite blen_app. clia. }
    split; [eapply Step_trans; eassumption|]. split; [exact I2|]. split; [auto|]. split.
    + cbn [tag_list]. apply Forall2_app.
      * rewrite (s_attrs _ _ _ _ (proj1 S2)). apply km_Forall2_ext. exact F1.
      * destruct S1 as (_ & P1 & _). rewrite P1, Ln1 in F2. exact F2.
    + rewrite app_length, L1, L2. reflexivity.
Qed.


Lemma PIu_open name attrs ws cs ws2 : PLu cs -> PIu (Cst.IElem name attrs ws (Some (cs, ws2))).
Proof.
  intros HPL p post c depth fuel Hwf HW _ I _ NR AR.
  destruct (uwf_elem_parts _ _ _ _ Hwf) as (Hn & Ha & Hx & Hd & Hw & Hw2 & Hna & Hcs). clear Hwf.
  rewrite enc_item_elem in *. rewrite r_item_elem in *. rewrite <- !app_assoc in HW |- *.
  pose proof (uattrs_okb _ Ha Hx) as Hokb. pose proof (uattrs_nodup _ Ha Hd) as Hnd.
  pose proof (wf_uname_ne _ Hn) as Hnne.
  assert (Hvn : U8.Valid (utf8s name)) by (apply Valid_utf8s; apply wf_uname_scalars; exact Hn).
  pose proof (uattrs_valid _ Ha) as Hva.
  set (ename := utf8s name) in *. set (eattrs := map enc_attr attrs) in *. set (ecs := enc_items cs) in *.
  set (post2 := [60; 47] ++ ename ++ ws2 ++ [62] ++ post) in *.
  change ([62] ++ r_items ecs ++ post2) with (tag_tail false ++ (r_items ecs ++ post2)) in *.
  rewrite nsize_elem in NR. rewrite nattrs_elem in AR.
  pose proof (WV_W _ _ _ HW) as HW0.
  rewrite steps_elem. cbn [Nat.add]. unfold ename at 1 2. rewrite loop_elem_u by assumption.
  unfold ename at 1, eattrs at 1. rewrite lex_element_u by assumption. cbv zeta. fold ename eattrs.
  destruct (start_tag_ok_g text p ename eattrs ws false (r_items ecs ++ post2) c HW0 Hnne Hokb Hnd I)
    as (c1 & ar & E & S1 & Hkm & I1 & A1 & T1 & P1 & P2 & P3);
    [unfold node_room, room in *; clia|unfold attr_room, len_N in *; clia|].
  cbv zeta in E. apply bind_ok in E. destruct E as (c0 & E0 & E1).
  rewrite E0. cbn [bind]. rewrite E1. cbn [bind negb]. clear E0 E1 c0.
  (* positions *)
  pose proof (WV_lit _ _ _ _ HW eq_refl) as HW1. change (blen [60]) with 1 in HW1.
  pose proof (WV_app _ _ _ _ HW1 Hvn) as HW2. pose proof (WV_app _ _ _ _ HW2 Hva) as HW3.
  pose proof (WV_lit _ _ _ _ HW3 (ws_lit _ Hw)) as HW4. pose proof (WV_lit _ _ _ _ HW4 eq_refl) as HW5.
  set (q := p + 1 + blen ename + blen (flat_map Cst.r_attr eattrs) + blen ws + blen (tag_tail false)) in *.
  pose proof (Step0_len _ _ _ _ S1) as Ln1. change (len_N [_]) with 1 in Ln1.
  pose proof (Step_attrs_len _ _ _ _ S1) as La1. rewrite len_N_map, tas_len in La1.
  pose proof (Step_opt _ _ _ _ S1) as Lo1.
  replace (steps_list ecs + 1 + fuel)%nat with (steps_list ecs + S fuel)%nat by clia.
  destruct (HPL q post2 c1 (depth + 1) (S fuel) Hcs Hna HW5 eq_refl I1)
    as (c2 & K2 & e2 & E2 & S2 & I2 & T2 & F2 & L2).
  { destruct cs; [exact Logic.I|]. intros _. exact A1. }
  { fold ecs. unfold node_room in *. rewrite Ln1, Lo1. clia. }
  { fold ecs. unfold attr_room, len_N in *. rewrite La1. clia. }
  fold ecs in E2, F2, L2. rewrite E2. clear E2.
  pose proof (W_app _ _ _ _ (WV_W _ _ _ HW5)) as HW6. set (e := q + blen (r_items ecs)) in *.
  assert (HV6 : WV e post2).
  { apply (WV_app _ _ _ _ HW5). clear - Hcs. unfold ecs. induction cs as [|c r IH]; [constructor|].
    cbn [uwf_items] in Hcs. apply andb_true_iff in Hcs. destruct Hcs as [H1 H2].
    cbn [enc_items r_items]. apply U8.Valid_app; [apply uitem_valid; exact H1|apply IH; exact H2]. }
  unfold post2 in HW6, HV6 |- *. rewrite (loop_close text) by exact HW6.
  unfold ename at 1 2. rewrite lex_close_u by assumption. cbv zeta. fold ename.
  destruct S2 as (S2 & Pid2 & Pp2).
  pose proof (W_app _ _ _ _ HW6) as HW7. change (blen [60; 47]) with 2 in HW7.
  destruct (close_tag_ok text (sl (e + 2) (e + 2)) (sl (e + 2) (e + 2 + blen ename))
              (e, e + 2 + blen ename + blen ws2 + 1) c2 (c_parent_id c) None
              (sl (p + 1) (p + 1 + blen ename)) ar (1, 1) ename (c_parent_prefixes c) (sl (p + 1) (p + 1)) I2)
    as (c3 & E3 & S3 & I3 & Pid3 & Pp3 & A3 & Tn3).
  { rewrite Pid2, P1, (s_nodes _ _ _ _ S2), (s_nodes _ _ _ _ S1).
    replace (N.to_nat (len_N (d_nodes (c_doc c)))) with (length (absn (c_doc c)))
      by (unfold absn, len_N; rewrite map_length; clia).
    rewrite <- app_assoc, nth_error_app2 by clia. rewrite Nat.sub_diag. reflexivity. }
  { apply (W_slice _ _ _ _ (WV_W _ _ _ HW1)). }
  { apply (W_slice _ _ _ _ HW7). }
  { apply slice_empty. }
  { rewrite Pp2, P2. reflexivity. }
  { apply (ci_pp _ I). }
  { apply slice_empty. }
  { apply T2. exact T1. }
  { rewrite (Step0_len _ _ _ _ S2), Ln1. pose proof (ci_pid _ I). clia. }
  { destruct (ci_par _ I) as (par & k & Ep & Hk). exists par, k. split; [|exact Hk].
    rewrite (s_nodes _ _ _ _ S2), (s_nodes _ _ _ _ S1), <- app_assoc.
    rewrite nth_error_app1; [exact Ep|].
    pose proof (ci_pid _ I) as Hp. rewrite <- absn_len in Hp. unfold len_N in Hp. clia. }
  rewrite E3. cbn [bind]. replace (depth + 1 =? 0) with false by clia.
  replace (depth + 1 - 1) with depth by clia.
  exists c3, ((Some (c_parent_id c), KElement None (sl (p + 1) (p + 1 + blen ename)) ar (1, 1)) :: K2),
    (map ad_of (tas (p + 1 + blen ename) eattrs) ++ e2).
  split.
  { f_equal. f_equal. unfold e, q. rewrite !blen_app. change (blen [60]) with 1. change (blen [60; 47]) with 2.
    change (blen [62]) with 1. change (blen (tag_tail false)) with 1. clear. lia. }
  pose proof (Step0_trans _ _ _ _ _ _ _ (Step0_trans _ _ _ _ _ _ _ S1 S2) S3) as S13.
  rewrite !app_nil_r in S13. cbn [app] in S13.
  split; [split; [exact S13|split; [exact Pid3|exact Pp3]]|]. split; [exact I3|].
  split; [intros _; exact A3|].
  assert (T3 : tn_set c3) by (apply (same_tn _ _ Tn3); apply T2; exact T1).
  split; [intros _; exact T3|]. split; [intros _; exact T3|]. split.
  - rewrite tag_elem. rewrite (s_attrs _ _ _ _ S3), app_nil_r. constructor.
    + rewrite (s_attrs _ _ _ _ S2). apply km_ext. apply Hkm.
    + rewrite P1, Ln1 in F2. exact F2.
  - rewrite app_length, map_length, L2, nattrs_elem. pose proof (tas_len eattrs (p + 1 + blen ename)) as L.
    unfold len_N in L. clia.
Qed.

Theorem PIu_all : forall i, PIu i.
Proof.
  intros i. induction i as [n a w|n a w cs w2 IH|bs|bs|t s v] using item_ind'.
  - apply PIu_empty.
  - apply PIu_open. apply PLu_of. exact IH.
  - apply PIu_text.
  - apply PIu_comment.
  - apply PIu_pi.
Qed.

Theorem PLu_all : forall cs, PLu cs.
Proof. intros cs. apply PLu_of. apply Forall_forall. intros i _. apply PIu_all. Qed.


(* ---- the root element: parse_element, then parse_content at depth 0 ---- *)
Lemma usteps_le : forall i, CstU.wf_item i = true -> (steps (enc_item i) <= length (Cst.r_item (enc_item i)))%nat.
Proof.
  intros i. induction i as [n a w|n a w cs w2 IH|bs|bs|t s v] using item_ind'; intros Hwf.
  - rewrite enc_item_elem, r_item_elem, !app_length. cbn [steps length]. lia.
  - destruct (uwf_elem_parts _ _ _ _ Hwf) as (_ & _ & _ & _ & _ & _ & _ & Hcs).
    rewrite enc_item_elem, r_item_elem, steps_elem, !app_length. cbn [length].
    assert (G : (steps_list (enc_items cs) <= length (r_items (enc_items cs)))%nat).
    { clear - IH Hcs. induction IH as [|c r Hc _ IHr]; [cbn; lia|].
      cbn [uwf_items] in Hcs. apply andb_true_iff in Hcs. destruct Hcs as [H1 H2].
      cbn [enc_items steps_list r_items]. rewrite app_length. specialize (Hc H1). specialize (IHr H2). lia. }
    lia.
  - destruct (uwf_text _ Hwf) as (_ & Hne & _). cbn [CstU.enc_item Cst.r_item steps].
    destruct bs as [|c0 r0]; [congruence|]. rewrite utf8s_cons, app_length. pose proof (utf8_len c0). unfold blen in *. lia.
  - cbn [CstU.enc_item Cst.r_item steps]. rewrite !app_length. cbn [length]. lia.
  - cbn [CstU.enc_item Cst.r_item steps]. rewrite !app_length. cbn [length]. lia.
Qed.

Lemma usteps_list_le : forall cs, uwf_items cs = true -> (steps_list (enc_items cs) <= length (r_items (enc_items cs)))%nat.
Proof.
  induction cs as [|c r IH]; intros Hwf; [cbn; lia|].
  cbn [uwf_items] in Hwf. apply andb_true_iff in Hwf. destruct Hwf as [H1 H2].
  cbn [enc_items steps_list r_items]. rewrite app_length. pose proof (usteps_le c H1). specialize (IH H2). lia.
Qed.

Lemma root_ok_u name attrs ws body p post c :
  CstU.wf_item (Cst.IElem name attrs ws body) = true ->
  WV p (Cst.r_item (enc_item (Cst.IElem name attrs ws body)) ++ post) ->
  CI c -> node_room c (nsize (enc_item (Cst.IElem name attrs ws body))) ->
  attr_room c (nattrs (enc_item (Cst.IElem name attrs ws body))) ->
  exists c' K ext,
    (let! (open, s, c) := parse_element text context ev
                            (st p (Cst.r_item (enc_item (Cst.IElem name attrs ws body)) ++ post)) c in
     if open then parse_content text context ev s c else Ok (s, c)) =
    Ok (st (p + blen (Cst.r_item (enc_item (Cst.IElem name attrs ws body)))) post, c') /\
    Post text (enc_item (Cst.IElem name attrs ws body)) c c' K ext.
Proof.
  intros Hwf HW I NR AR. destruct body as [[cs ws2]|].
  - (* open *)
    destruct (uwf_elem_parts _ _ _ _ Hwf) as (Hn & Ha & Hx & Hd & Hw & Hw2 & Hna & Hcs). clear Hwf.
    rewrite enc_item_elem in *. rewrite r_item_elem in *. rewrite <- !app_assoc in HW |- *.
    pose proof (uattrs_okb _ Ha Hx) as Hokb. pose proof (uattrs_nodup _ Ha Hd) as Hnd.
    pose proof (wf_uname_ne _ Hn) as Hnne.
    assert (Hvn : U8.Valid (utf8s name)) by (apply Valid_utf8s; apply wf_uname_scalars; exact Hn).
    pose proof (uattrs_valid _ Ha) as Hva.
    set (ename := utf8s name) in *. set (eattrs := map enc_attr attrs) in *. set (ecs := enc_items cs) in *.
    set (post2 := [60; 47] ++ ename ++ ws2 ++ [62] ++ post) in *.
    change ([62] ++ r_items ecs ++ post2) with (tag_tail false ++ (r_items ecs ++ post2)) in *.
    rewrite nsize_elem in NR. rewrite nattrs_elem in AR.
    pose proof (WV_W _ _ _ HW) as HW0.
    unfold ename at 1, eattrs at 1. rewrite lex_element_u by assumption. cbv zeta. fold ename eattrs.
    destruct (start_tag_ok_g text p ename eattrs ws false (r_items ecs ++ post2) c HW0 Hnne Hokb Hnd I)
      as (c1 & ar & E & S1 & Hkm & I1 & A1 & T1 & P1 & P2 & P3);
      [unfold node_room, room in *; clia|unfold attr_room, len_N in *; clia|].
    cbv zeta in E. apply bind_ok in E. destruct E as (c0 & E0 & E1).
    rewrite E0. cbn [bind]. rewrite E1. cbn [bind negb]. clear E0 E1 c0.
    (* positions *)
    pose proof (WV_lit _ _ _ _ HW eq_refl) as HW1. change (blen [60]) with 1 in HW1.
    pose proof (WV_app _ _ _ _ HW1 Hvn) as HW2. pose proof (WV_app _ _ _ _ HW2 Hva) as HW3.
    pose proof (WV_lit _ _ _ _ HW3 (ws_lit _ Hw)) as HW4. pose proof (WV_lit _ _ _ _ HW4 eq_refl) as HW5.
    set (q := p + 1 + blen ename + blen (flat_map Cst.r_attr eattrs) + blen ws + blen (tag_tail false)) in *.
    pose proof (Step0_len _ _ _ _ S1) as Ln1. change (len_N [_]) with 1 in Ln1.
    pose proof (Step_attrs_len _ _ _ _ S1) as La1. rewrite len_N_map, tas_len in La1.
    pose proof (Step_opt _ _ _ _ S1) as Lo1.
    unfold parse_content. cbn [CstLex.st s_rest].
    pose proof (usteps_list_le cs Hcs) as Hst. fold ecs in Hst.
    replace (S (length (r_items ecs ++ post2)))
      with (steps_list ecs + S (length (r_items ecs ++ post2) - steps_list ecs))%nat
      by (rewrite app_length; clia).
    fold (st q (r_items ecs ++ post2)).
    destruct (PLu_all cs q post2 c1 0 (S (length (r_items ecs ++ post2) - steps_list ecs)) Hcs Hna HW5 eq_refl I1)
      as (c2 & K2 & e2 & E2 & S2 & I2 & T2 & F2 & L2).
    { destruct cs; [exact Logic.I|]. intros _. exact A1. }
    { fold ecs. unfold node_room in *. rewrite Ln1, Lo1. clia. }
    { fold ecs. unfold attr_room, len_N in *. rewrite La1. clia. }
    fold ecs in E2, F2, L2. rewrite E2. clear E2.
    pose proof (W_app _ _ _ _ (WV_W _ _ _ HW5)) as HW6. set (e := q + blen (r_items ecs)) in *.
    assert (HV6 : WV e post2).
    { apply (WV_app _ _ _ _ HW5). clear - Hcs. unfold ecs. induction cs as [|c r IH]; [constructor|].
      cbn [uwf_items] in Hcs. apply andb_true_iff in Hcs. destruct Hcs as [H1 H2].
      cbn [enc_items r_items]. apply U8.Valid_app; [apply uitem_valid; exact H1|apply IH; exact H2]. }
    unfold post2 in HW6, HV6 |- *. rewrite (loop_close text) by exact HW6.
    unfold ename at 1 2. rewrite lex_close_u by assumption. cbv zeta. fold ename.
    destruct S2 as (S2 & Pid2 & Pp2).
    pose proof (W_app _ _ _ _ HW6) as HW7. change (blen [60; 47]) with 2 in HW7.
    destruct (close_tag_ok text (sl (e + 2) (e + 2)) (sl (e + 2) (e + 2 + blen ename))
                (e, e + 2 + blen ename + blen ws2 + 1) c2 (c_parent_id c) None
                (sl (p + 1) (p + 1 + blen ename)) ar (1, 1) ename (c_parent_prefixes c) (sl (p + 1) (p + 1)) I2)
      as (c3 & E3 & S3 & I3 & Pid3 & Pp3 & A3 & Tn3).
    { rewrite Pid2, P1, (s_nodes _ _ _ _ S2), (s_nodes _ _ _ _ S1).
      replace (N.to_nat (len_N (d_nodes (c_doc c)))) with (length (absn (c_doc c)))
        by (unfold absn, len_N; rewrite map_length; clia).
      rewrite <- app_assoc, nth_error_app2 by clia. rewrite Nat.sub_diag. reflexivity. }
    { apply (W_slice _ _ _ _ (WV_W _ _ _ HW1)). }
    { apply (W_slice _ _ _ _ HW7). }
    { apply slice_empty. }
    { rewrite Pp2, P2. reflexivity. }
    { apply (ci_pp _ I). }
    { apply slice_empty. }
    { apply T2. exact T1. }
    { rewrite (Step0_len _ _ _ _ S2), Ln1. pose proof (ci_pid _ I). clia. }
    { destruct (ci_par _ I) as (par & k & Ep & Hk). exists par, k. split; [|exact Hk].
      rewrite (s_nodes _ _ _ _ S2), (s_nodes _ _ _ _ S1), <- app_assoc.
      rewrite nth_error_app1; [exact Ep|].
      pose proof (ci_pid _ I) as Hp. rewrite <- absn_len in Hp. unfold len_N in Hp. clia. }
    rewrite E3. cbn [bind]. change (0 =? 0) with true. cbv iota.
    exists c3, ((Some (c_parent_id c), KElement None (sl (p + 1) (p + 1 + blen ename)) ar (1, 1)) :: K2),
      (map ad_of (tas (p + 1 + blen ename) eattrs) ++ e2).
    split.
    { f_equal. f_equal. f_equal. unfold e, q. rewrite !blen_app. change (blen [60]) with 1. change (blen [60; 47]) with 2.
      change (blen [62]) with 1. change (blen (tag_tail false)) with 1. clear. lia. }
    pose proof (Step0_trans _ _ _ _ _ _ _ (Step0_trans _ _ _ _ _ _ _ S1 S2) S3) as S13.
    rewrite !app_nil_r in S13. cbn [app] in S13.
    split; [split; [exact S13|split; [exact Pid3|exact Pp3]]|]. split; [exact I3|].
    split; [intros _; exact A3|].
    assert (T3 : tn_set c3) by (apply (same_tn _ _ Tn3); apply T2; exact T1).
    split; [intros _; exact T3|]. split; [intros _; exact T3|]. split.
    + rewrite tag_elem. rewrite (s_attrs _ _ _ _ S3), app_nil_r. constructor.
      * rewrite (s_attrs _ _ _ _ S2). apply km_ext. apply Hkm.
      * rewrite P1, Ln1 in F2. exact F2.
    + rewrite app_length, map_length, L2, nattrs_elem. pose proof (tas_len eattrs (p + 1 + blen ename)) as L.
      unfold len_N in L. clia.

  - (* empty *)
    destruct (uwf_elem_parts _ _ _ _ Hwf) as (Hn & Ha & Hx & Hd & Hw & _). clear Hwf.
    rewrite enc_item_elem in *. rewrite r_item_elem in *. rewrite <- !app_assoc in HW |- *.
    change ([47; 62] ++ post) with (tag_tail true ++ post) in *.
    rewrite lex_element_u by assumption. cbv zeta.
    rewrite nattrs_elem, Nat.add_0_r in AR.
    destruct (start_tag_ok_g text p (utf8s name) (map enc_attr attrs) ws true post c (WV_W _ _ _ HW) (wf_uname_ne _ Hn)
                (uattrs_okb _ Ha Hx) (uattrs_nodup _ Ha Hd) I)
      as (c' & ar & E & S & Hkm & I' & A & T & P1 & P2);
      [apply (node_room_room _ _ NR (nsize_pos _))|unfold attr_room, len_N in *; clia|].
    cbv zeta in E. apply bind_ok in E. destruct E as (c1 & E1 & E2).
    rewrite E1. cbn [bind]. rewrite E2. cbn [bind negb].
    exists c', [(Some (c_parent_id c), KElement None (sl (p + 1) (p + 1 + blen (utf8s name))) ar (1, 1))],
      (map ad_of (tas (p + 1 + blen (utf8s name)) (map enc_attr attrs))).
    split.
    + f_equal. f_equal. f_equal. rewrite !blen_app. change (blen [60]) with 1. change (blen (tag_tail true)) with 2.
      change (blen [47; 62]) with 2. clia.
    + split; [split; [exact S|split; assumption]|]. split; [exact I'|]. split; [intros _; exact A|].
      split; [intros _; exact T|]. split; [intros _; exact T|]. split.
      * cbn [tag]. constructor; [|constructor]. apply Hkm.
      * rewrite map_length, nattrs_elem, Nat.add_0_r. pose proof (tas_len (map enc_attr attrs) (p + 1 + blen (utf8s name))) as L.
        unfold len_N in L. clia.
Qed.

End UItems.

Print Assumptions PIu_all.
Print Assumptions root_ok_u.
