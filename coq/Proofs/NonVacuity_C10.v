(* Proofs/NonVacuity_C10.v -- non-vacuity of the hypotheses of the theorems pinned under C10 that go beyond
   the three standard ones, on the document of NonVacuity_Doc.v (node 2 = <p:c>, with a namespace, an
   attribute with an entity reference, text and a comment below it). *)
From Coq Require Import Ascii String List NArith Bool Lia.
Import ListNotations.
From RX Require Import Generated.
From RX.Model Require Import Base CharClass Stream Tokenizer Doc Builder Parse Api.
From RX.Spec Require Import Tree.
From RX.Model Require Import Debug.
From RX.Proofs Require Import ApiTotal PositionProofs DebugTotal StrictModel StrictApi Strict NonVacuity_Doc.
Open Scope N_scope.

(* api_total: id < node count; the returned values are not trivial ones *)
Example nv_api_total :
  2 < len_N (d_nodes d0) /\ parent d0 2 = Ok (Some 1) /\ first_child d0 2 = Ok (Some 3) /\ next_sibling d0 2 = Ok (Some 5) /\
  exists u, lookup_namespace_uri text0 d0 2 (Some (b "p")) = Ok (Some u).
Proof. rewrite nodes0. split; [lia|]. repeat (split; [vm_compute; reflexivity|]). eexists. vm_compute. reflexivity. Qed.
Example nv_api_total_applied : returns (descendants d0 2) /\ forall name, returns (attribute text0 d0 2 name).
Proof.
  destruct (api_total text0 opt0 d0 valid0 limit0 parse0 2 (proj1 nv_api_total))
    as (_&_&_&_&_&_&_&_&_&_&_&_&_&_&_&_&H&_&_&_&Hn&_).
  split; [exact H|]. intros name. apply (Hn name).
Qed.

(* api_total_doc: attribute index below the attribute count *)
Example nv_api_total_doc : 1 < len_N (d_attrs d0) /\ exists a, attr_at d0 1 = Ok a /\ ad_range a = (56, 64).
Proof. split; [vm_compute; reflexivity|]. eexists. split; vm_compute; reflexivity. Qed.

(* debug_stack_bounded: the debug walk of the document; the stack reaches a height > 1 *)
Definition dbg0 := Eval vm_compute in debug_document d0.
Example nv_debug_stack_bounded : exists lines maxh, debug_document d0 = Ok (lines, maxh) /\ 1 < maxh /\ 1 < lines.
Proof. do 2 eexists. split; [vm_compute; reflexivity|]. split; vm_compute; reflexivity. Qed.
Example nv_debug_stack_bounded_applied : forall lines maxh, debug_document d0 = Ok (lines, maxh) -> maxh <= 7.
Proof. intros lines maxh H. rewrite <- nodes0. exact (debug_stack_bounded text0 opt0 d0 lines maxh valid0 limit0 parse0 H). Qed.

(* site_descendants_unreachable: the descendants iterator of <p:c>: itself, the text, the comment *)
Example nv_site_descendants :
  exists it0, descendants d0 2 = Ok it0 /\ DescInv d0 it0 /\ it_lo it0 = 2 /\ it_hi it0 = 5.
Proof. eexists. split; [vm_compute; reflexivity|]. split; [vm_compute; discriminate|]. split; reflexivity. Qed.
Example nv_site_descendants_applied :
  exists it0, descendants d0 2 = Ok it0 /\ exists r, desc_next_s it0 = Ok r /\ fst r = Some 2.
Proof.
  destruct nv_site_descendants as (it0 & H & HI & Hlo & Hhi). exists it0. split; [exact H|].
  destruct (site_descendants_unreachable text0 opt0 d0 2 it0 valid0 limit0 parse0 H) as [_ Hall].
  destruct (Hall it0 HI) as [[Hn _] _]. eexists. split; [exact Hn|].
  revert H. vm_compute. intros H. injection H as <-. reflexivity.
Qed.
