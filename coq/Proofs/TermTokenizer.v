(* Proofs/TermTokenizer.v -- termination, part 2: the tokenizer with an arbitrary callback
   that never runs out of fuel (and preserves an invariant of its state). *)
From Coq Require Import List NArith Bool Lia ZifyBool ZifyN ZifyNat.
Import ListNotations.
From RX Require Import Generated.
From RX.Model Require Import Base CharClass Stream Tokenizer.
From RX.Proofs Require Import TermStream.
Open Scope N_scope.

Create HintDb good.
#[export] Hint Resolve adv_wf : good.
#[export] Hint Resolve curr_byte_unchecked_good curr_byte_good next_byte_good advance_good
  consume_byte_good mk_slice_good slice_back_good skip_string_good consume_bytes_good
  consume_spaces_good advance_until2_good next_char_good skip_chars_good consume_chars_good
  skip_name_good consume_name_good consume_qname_good consume_eq_good consume_quote_good
  consume_reference_good is_xml_str_good : good.

(* result: the stream moved forward by >= k, the callback state satisfies the invariant *)
Definition post {C} (Inv : C -> Prop) (k : N) (s : stream) (p : stream * C) : Prop :=
  adv k s (fst p) /\ Inv (snd p).
Definition post3 {C} (Inv : C -> Prop) (k : N) (s : stream) (p : bool * stream * C) : Prop :=
  adv k s (snd (fst p)) /\ Inv (snd p).

Lemma bind_assoc {A B D} (r : res A) (f : A -> res B) (g : B -> res D) :
  bind (bind r f) g = bind r (fun a => bind (f a) g).
Proof. destruct r; reflexivity. Qed.

Ltac destruct_conj :=
  repeat match goal with H : _ /\ _ |- _ => destruct H end.

Ltac destruct_pairs :=
  repeat match goal with
  | a : (_ * _)%type |- _ => destruct a
  end.

(* one step through a monadic term *)
Ltac gb := eapply good_bind; [ solve [eauto with good] | intros; destruct_pairs; unfold post, post3 in *; gsimp; destruct_conj ].

Ltac gen_skip :=
  match goal with
  | |- context [skip_spaces ?s] =>
      let s1 := fresh "s" in let H := fresh "Ha" in
      assert (H : adv 0 s (skip_spaces s)) by (apply skip_spaces_adv; eauto with good);
      set (s1 := skip_spaces s) in *; clearbody s1
  | |- context [skip_bytes ?g ?s] =>
      let s1 := fresh "s" in let H := fresh "Ha" in
      assert (H : adv 0 s (skip_bytes g s)) by (apply skip_bytes_adv; eauto with good);
      set (s1 := skip_bytes g s) in *; clearbody s1
  end.

Ltac gstep := first [ gen_skip |
  lazymatch goal with
  | |- good _ (Ok _) => cbn [good fst snd]
  | |- good _ (Err _) => exact I
  | |- good _ (Panic _) => exact I
  | |- good _ (err_at _ _ _) => apply good_err_at
  | |- good _ (err_from _ _ _) => apply good_err_from
  | |- good _ (bind (Ok _) _) => cbn [bind]
  | |- good _ (bind (Err _) _) => exact I
  | |- good _ (bind (Panic _) _) => exact I
  | |- good _ (bind (err_at _ _ _) _) =>
      eapply good_bind with (Q := fun _ => True); [apply good_err_at | intros]
  | |- good _ (bind (err_from _ _ _) _) =>
      eapply good_bind with (Q := fun _ => True); [apply good_err_from | intros]
  | |- good _ (bind (bind _ _) _) => rewrite bind_assoc
  | |- good _ (bind (if ?b then _ else _) _) => destruct b eqn:?
  | |- good _ (bind (match ?x with _ => _ end) _) => destruct x eqn:?
  | |- good _ (bind _ _) => gb
  | |- good ?P (let x := skip_spaces ?s in @?f x) =>
      let s1 := fresh "s" in let H := fresh "Ha" in
      assert (H : adv 0 s (skip_spaces s)) by (apply skip_spaces_adv; eauto with good);
      change (good P (f (skip_spaces s))); cbv beta;
      set (s1 := skip_spaces s) in *; clearbody s1
  | |- good ?P (let x := skip_bytes ?g ?s in @?f x) =>
      let s1 := fresh "s" in let H := fresh "Ha" in
      assert (H : adv 0 s (skip_bytes g s)) by (apply skip_bytes_adv; eauto with good);
      change (good P (f (skip_bytes g s))); cbv beta;
      set (s1 := skip_bytes g s) in *; clearbody s1
  | |- good ?P (let x := ?v in @?f x) => change (good P (f v)); cbv beta
  | |- good _ (match try_consume_byte ?c ?s with _ => _ end) =>
      let H := fresh "Ha" in
      assert (H := try_consume_byte_adv c s ltac:(eauto with good));
      destruct (try_consume_byte c s) as [[|] ?]; gsimp
  | |- good _ (match ?r with Ok _ => _ | Err _ => _ | Panic _ => _ | OutOfFuel => _ end) =>
      let H := fresh "Hr" in
      eassert (H : good _ r) by (solve [eauto with good]);
      destruct r eqn:?; destruct_pairs; unfold post, post3 in *; gsimp; destruct_conj;
      [ | | | contradiction ]
  | |- good _ (if ?b then _ else _) => destruct b eqn:?
  | |- good _ (match ?x with _ => _ end) => destruct x eqn:?
  | |- good _ _ =>
      eapply good_weaken;
      [ solve [eauto with good]
      | intros; destruct_pairs; unfold post, post3 in *; gsimp; destruct_conj ]
  end ].

Section Tok.
Variable text : bytes.
Variable C : Type.
Variable ev : token -> C -> res C.
Variable Inv : C -> Prop.
Hypothesis Hev : forall tok c, Inv c -> good Inv (ev tok c).

Notation stream := (Stream.stream).

Notation post := (post Inv).
Notation post3 := (post3 Inv).

Ltac fin := unfold TermTokenizer.post, TermTokenizer.post3 in *; cbn [fst snd] in *;
  solve [ split; [solve_adv | eauto] | solve_adv | eauto with good ].

Ltac gauto := repeat gstep; try fin.

(* the recursive call of a loop: IH, then transitivity *)
Ltac measure := unfold adv, wf in *; cbn [s_pos s_end s_rest] in *; lia.
Ltac grec IH :=
  eapply good_weaken;
  [ eapply IH; [ eauto with good | eauto | measure ]
  | intros; destruct_pairs; unfold TermTokenizer.post, TermTokenizer.post3 in *; gsimp;
    destruct_conj; split; [solve_adv | eauto] ].

Lemma ev_good tok c : Inv c -> good Inv (ev tok c).
Proof. apply Hev. Qed.
Hint Resolve ev_good : good.

Lemma parse_comment_good s c : wf s -> Inv c -> good (post 1 s) (parse_comment text C ev s c).
Proof. intros W HI. unfold parse_comment. gauto. Qed.

Lemma parse_pi_good s c : wf s -> Inv c -> good (post 1 s) (parse_pi text C ev s c).
Proof. intros W HI. unfold parse_pi. gauto. Qed.
Hint Resolve parse_comment_good parse_pi_good : good.

Lemma parse_misc_loop_good fuel : forall s c, wf s -> Inv c ->
  s_end s - s_pos s < N.of_nat fuel -> good (post 0 s) (parse_misc_loop text C ev fuel s c).
Proof.
  induction fuel; intros s c W HI Hf; [lia|]. cbn [parse_misc_loop].
  gauto; grec IHfuel.
Qed.

Lemma parse_misc_good s c : wf s -> Inv c -> good (post 0 s) (parse_misc text C ev s c).
Proof. intros. apply parse_misc_loop_good; auto using fuel_enough. Qed.
Hint Resolve parse_misc_good : good.

Lemma parse_attribute_good s : wf s -> good (fun p => adv 0 s (snd p)) (parse_attribute text s).
Proof. intros W. unfold parse_attribute. gauto. Qed.
Hint Resolve parse_attribute_good : good.

Lemma parse_pseudo_attribute_good name s : wf s -> good (adv 0 s) (parse_pseudo_attribute text name s).
Proof. intros W. unfold parse_pseudo_attribute. gauto. Qed.
Hint Resolve parse_pseudo_attribute_good : good.

Lemma decl_consume_spaces_good s : wf s -> good (adv 0 s) (decl_consume_spaces text s).
Proof. intros W. unfold decl_consume_spaces. gauto. Qed.
Hint Resolve decl_consume_spaces_good : good.

Lemma parse_declaration_good s : wf s -> good (adv 0 s) (parse_declaration text s).
Proof. intros W. unfold parse_declaration. gauto. Qed.
Hint Resolve parse_declaration_good : good.

Lemma parse_external_literal_good s : wf s -> good (adv 0 s) (parse_external_literal text s).
Proof. intros W. unfold parse_external_literal. gauto. Qed.
Hint Resolve parse_external_literal_good : good.

Lemma parse_pubid_literal_good s : wf s -> good (adv 0 s) (parse_pubid_literal text s).
Proof. intros W. unfold parse_pubid_literal. gauto. Qed.
Hint Resolve parse_pubid_literal_good : good.

Lemma parse_external_id_good s : wf s -> good (fun p => adv 0 s (snd p)) (parse_external_id text s).
Proof. intros W. unfold parse_external_id. gauto. Qed.
Hint Resolve parse_external_id_good : good.

Lemma parse_entity_def_good s g : wf s -> good (fun p => adv 0 s (snd p)) (parse_entity_def text s g).
Proof. intros W. unfold parse_entity_def. gauto. Qed.
Hint Resolve parse_entity_def_good : good.

Lemma parse_entity_decl_good s c : wf s -> Inv c -> good (post 1 s) (parse_entity_decl text C ev s c).
Proof. intros W HI. unfold parse_entity_decl. gauto. Qed.
Hint Resolve parse_entity_decl_good : good.

(* each iteration consumes at least one byte (the quote or the closing '>') *)
Lemma consume_decl_loop_good fuel : forall s, wf s ->
  s_end s - s_pos s < N.of_nat fuel -> good (adv 1 s) (consume_decl_loop text fuel s).
Proof.
  induction fuel; intros s W Hf; [lia|]. cbn [consume_decl_loop].
  gauto.
  eapply good_weaken; [eapply IHfuel; [eauto with good|measure]|].
  intros; gsimp; solve_adv.
Qed.

Lemma consume_decl_good s : wf s -> good (adv 1 s) (consume_decl text s).
Proof. intros W. unfold consume_decl. apply consume_decl_loop_good; [exact W|apply fuel_enough; exact W]. Qed.
Hint Resolve consume_decl_good : good.

Lemma parse_doctype_start_good s : wf s -> good (adv 1 s) (parse_doctype_start text s).
Proof. intros W. unfold parse_doctype_start. gauto. Qed.
Hint Resolve parse_doctype_start_good : good.

Lemma parse_doctype_loop_good fuel : forall start s c, wf s -> Inv c ->
  s_end s - s_pos s < N.of_nat fuel -> good (post 0 s) (parse_doctype_loop text C ev fuel start s c).
Proof.
  induction fuel; intros start s c W HI Hf; [lia|]. cbn [parse_doctype_loop].
  gauto; grec IHfuel.
Qed.

Lemma parse_doctype_good s c : wf s -> Inv c -> good (post 1 s) (parse_doctype text C ev s c).
Proof.
  intros W HI. unfold parse_doctype. gauto.
  eapply good_weaken; [apply parse_doctype_loop_good; eauto using fuel_enough with good|].
  intros [s' c'] [H1 H2]; gsimp. fin.
Qed.
Hint Resolve parse_doctype_good : good.

Lemma parse_element_loop_good fuel : forall st s c, wf s -> Inv c ->
  s_end s - s_pos s < N.of_nat fuel -> good (post3 0 s) (parse_element_loop text C ev fuel st s c).
Proof.
  induction fuel; intros st s c W HI Hf; [lia|]. cbn [parse_element_loop].
  gauto; grec IHfuel.
Qed.

Lemma parse_element_good s c : wf s -> Inv c -> good (post3 1 s) (parse_element text C ev s c).
Proof.
  intros W HI. unfold parse_element. gauto.
  eapply good_weaken; [apply parse_element_loop_good; eauto using fuel_enough with good|].
  intros [[o s'] c'] [H3 H4]; gsimp. fin.
Qed.
Hint Resolve parse_element_good : good.

Lemma parse_cdata_good s c : wf s -> Inv c -> good (post 1 s) (parse_cdata text C ev s c).
Proof. intros W HI. unfold parse_cdata. gauto. Qed.

Lemma parse_close_element_good s c : wf s -> Inv c -> good (post 1 s) (parse_close_element text C ev s c).
Proof. intros W HI. unfold parse_close_element. gauto. Qed.
Hint Resolve parse_cdata_good parse_close_element_good : good.

Lemma parse_text_good s c x : wf s -> Inv c -> at_end s = false ->
  curr_byte_unchecked s = Ok x -> x <> 60 -> good (post 1 s) (parse_text text C ev s c).
Proof.
  intros W HI He Hx Hne. unfold parse_text. cbv zeta.
  eapply good_bind; [eapply consume_chars_progress; eassumption|].
  intros [sl s'] H; gsimp. gauto.
Qed.

Lemma parse_content_loop_good fuel : forall depth s c, wf s -> Inv c ->
  s_end s - s_pos s < N.of_nat fuel -> good (post 0 s) (parse_content_loop text C ev fuel depth s c).
Proof.
  induction fuel; intros depth s c W HI Hf; [lia|]. cbn [parse_content_loop].
  gstep; [gauto|].
  pose proof (curr_byte_unchecked_good s) as Hx.
  destruct (curr_byte_unchecked s) as [x| | |] eqn:Ex; gsimp; try exact I; try contradiction.
  cbn [bind]. destruct (N.eqb_spec x 60) as [->|Hne].
  - pose proof (next_byte_good s) as Hy.
    destruct (next_byte s) as [y| | |] eqn:Ey; gsimp; try contradiction; [|gauto|exact I].
    gstep.
    + gstep; [gb; grec IHfuel|]. gstep; [gb; grec IHfuel|]. gauto.
    + gstep; [gb; grec IHfuel|]. gstep.
      * gb. gstep; [gauto|]. grec IHfuel.
      * gb. grec IHfuel.
  - eapply good_bind; [eapply parse_text_good; eassumption|].
    intros [s' c'] [H1 H2]; gsimp. grec IHfuel.
Qed.

Lemma parse_content_good s c : wf s -> Inv c -> good (post 0 s) (parse_content text C ev s c).
Proof. intros. apply parse_content_loop_good; auto using fuel_enough. Qed.
Hint Resolve parse_content_good : good.

Lemma parse_document_good dtd c : safe text -> Inv c -> good Inv (parse_document text C ev dtd c).
Proof.
  intros Hs HI. unfold parse_document.
  pose proof (wf_new text Hs) as W0. set (s0 := stream_new text) in *. clearbody s0.
  gauto.
Qed.

End Tok.
